(** The equation-generation phase of Model.main() for multi-currency programs is order-invariant
    (GenOrder's Gen.v / Gen2.v / Gen3.v for [gen_step2] and the plans of Plan2.v).

    Fix the information [J] and the zone [Z0] of a program after construction and full codes, and the
    statically computed plans [B k := plan_of2 J Z0 k].  Under the static side condition, a run of
    [gen_step2] over any list [M] of distinct calls — in the original program or in a renamed,
    re-ordered copy of it — ends in the zone obtained by applying to every sector [s0] of [Z0] the
    concatenation of the blocks [B k s0], k in M ([gen_sim2]); re-ordering M by exchanging calls of
    sectors of the same country does not change that zone up to the order of summands
    ([static_swap2]). *)
From Coq Require Import List String Bool ZArith Arith Lia Permutation.
From SFC.Base Require Import Res Str.
From SFC.Gen Require Import Fx Zone.
From SFC.GenMarket Require Import Market MarketProofs.
From SFC.GenMain2 Require Import Program Classes Main Program2 Main2 Conflict Conflict2.
From SFC.GenOrder Require Import Ops Plan ReformDefs Static Equiv Perm CRel OpsProofs OpsComm Sim Static2 SimAll
     Reform ReformMarketLib GenBase Gen.
From SFC.GenOrder2 Require Import Perm2 CRel2 Enc Blocks2 Plan2 Part Side2 Reform2 Sim2.
Import ListNotations.
Local Open Scope string_scope.
Local Open Scope list_scope.

Section GenSim2.
(** the two class-by-class theorems (Reform2All.v, Sim2All.v) *)
Hypothesis reform2 : forall J st ik, NoDup (map sid (h_zone st)) -> plan2 J (h_zone st) ik <> Err OutOfFuel ->
  gres_ext2 (gen_step2 J st ik) (pstep2 J st ik).
Hypothesis plan_sim2 : forall ik f J J' Z Z',
  (forall a b, f a = f b -> a = b) -> uniq_ok Z -> isim2 f J J' -> zsim f (reads22 J Z ik) Z Z' -> cand_unique2 J Z ik ->
  plans_sim f (reads22 J Z ik) Z (plan2 J Z ik) (plan2 J' Z' (rn_ik2 f ik)).

Variable J : ginfo2.
Variable Z0 : zone.
Variable L : list (nat * cls2).

Definition B2 (k : nat * cls2) (s : sector) : list pop := plan_of2 J Z0 k s.

Record static_facts2 : Prop := mkSF2 {
  sf2_uniq : uniq_ok Z0;
  sf2_keys : NoDup (map fst L);
  sf2_plans : forall k, List.In k L -> exists g, plan2 J Z0 k = Ok g;
  sf2_stable : forall k k' s n, List.In k L -> List.In k' L -> fst k <> fst k' -> List.In s Z0 ->
                 List.In n (reads22 J Z0 k s) -> has_var s n = true \/ ~ List.In n (creates_of (B2 k' s));
  sf2_cand : forall k, List.In k L -> cand_unique2 J Z0 k;
  sf2_wf : forall s, List.In s Z0 -> Wf2 s;
  sf2_ops : forall k s, List.In k L -> List.In s Z0 -> Forall (Ok2 s) (B2 k s)
}.

Hypothesis SF : static_facts2.

Definition s0_of2 (t : sector) : sector := match find_sec (sid t) Z0 with Some s0 => s0 | None => nobody end.
Definition Bs2 (k : nat * cls2) (t : sector) : list pop := B2 k (s0_of2 t).

Lemma Bs2_attr k : attr_fun (Bs2 k).
Proof. intros s s' A. unfold Bs2, s0_of2. now rewrite (attrs_sid _ _ A). Qed.

Lemma find_sec_self2 s : List.In s Z0 -> find_sec (sid s) Z0 = Some s.
Proof.
  intros Hin. destruct SF as [[ND _] _ _ _ _ _ _]. clear -ND Hin. unfold find_sec.
  induction Z0 as [|x r IH]; [contradiction|]. cbn [find]. cbn [map] in ND. inversion ND as [|? ? Hn ND']; subst.
  destruct Hin as [->|Hin]; [now rewrite Nat.eqb_refl|].
  destruct (Nat.eqb_spec (sid x) (sid s)) as [E|N]; [|now apply IH].
  exfalso. apply Hn. rewrite E. now apply in_map.
Qed.

Lemma s0_of2_self s : List.In s Z0 -> s0_of2 s = s.
Proof. intros H. unfold s0_of2. now rewrite (find_sec_self2 s H). Qed.

Definition sect2 (M : list (nat * cls2)) (s0 : sector) : result sector := run_ops (flat_map (fun k => B2 k s0) M) s0.

Definition Tfold2 (M : list (nat * cls2)) (Z : zone) : result zone := foldM (fun H k => apply_lops (Bs2 k) H) M Z.

Lemma Tfold2_sect M : rsim (Tfold2 M Z0) (zmap (sect2 M) Z0).
Proof.
  unfold Tfold2. eapply rsim_trans; [apply (fold_passes Bs2 M Bs2_attr)|]. apply rsim_eq.
  unfold apply_lops, sect2. apply zmap_ext_fun. intros s Hs. f_equal.
  clear -Hs SF. induction M as [|k M IH]; [reflexivity|]. cbn [flat_map]. rewrite IH. unfold Bs2. now rewrite (s0_of2_self s Hs).
Qed.

Definition derived2 (M : list (nat * cls2)) (T : zone) : Prop := Forall2 (fun s0 t => sect2 M s0 = Ok t) Z0 T.

Lemma derived2_attrs M T : derived2 M T -> Forall2 attrs_eq Z0 T.
Proof. intros H. eapply Forall2_impl; [|exact H]. intros s0 t E. cbv beta in E. eapply run_ops_attrs; exact E. Qed.

Lemma derived2_s0 M s0 t : List.In s0 Z0 -> sect2 M s0 = Ok t -> s0_of2 t = s0.
Proof.
  intros Hin E. unfold s0_of2. pose proof (run_ops_attrs _ _ _ E) as A. rewrite (attrs_sid _ _ A). now rewrite find_sec_self2.
Qed.

Lemma flat_ops_ok2 M s0 : (forall k, List.In k M -> List.In k L) -> List.In s0 Z0 -> Forall (Ok2 s0) (flat_map (fun k => B2 k s0) M).
Proof.
  intros HM Hin. induction M as [|k M IH]; cbn [flat_map]; [constructor|]. apply Forall_app. split.
  - apply (sf2_ops SF); [apply HM; now left|exact Hin].
  - apply IH. intros k' Hk'. apply HM. now right.
Qed.

Lemma sect2_wf M s0 t : (forall k, List.In k M -> List.In k L) -> List.In s0 Z0 -> sect2 M s0 = Ok t -> Wf2 t.
Proof. intros HM Hin E. unfold sect2 in E. eapply run_ops_Wf2; [apply (sf2_wf SF); exact Hin|apply (flat_ops_ok2 M s0 HM Hin)|exact E]. Qed.

Lemma creates_flat2 M s0 n : List.In n (creates_of (flat_map (fun k => B2 k s0) M)) ->
  exists k, List.In k M /\ List.In n (creates_of (B2 k s0)).
Proof.
  unfold creates_of. induction M as [|k M IH]; cbn [flat_map]; [contradiction|].
  rewrite flat_map_app. intros H. apply in_app_or in H as [H|H].
  - exists k. split; [now left|exact H].
  - destruct (IH H) as (k' & Hk' & Hn). exists k'. split; [now right|exact Hn].
Qed.

Lemma stable_presence2 M k s0 t n : (forall k', List.In k' M -> List.In k' L) -> List.In k L ->
  ~ List.In (fst k) (map fst M) -> List.In s0 Z0 -> sect2 M s0 = Ok t ->
  List.In n (reads22 J Z0 k s0) -> has_var t n = has_var s0 n.
Proof.
  intros HM Hk Hnk Hin E Hn. destruct (has_var s0 n) eqn:H0.
  - eapply run_ops_pres; eassumption.
  - destruct (has_var t n) eqn:Ht; [|reflexivity]. exfalso.
    destruct (run_ops_created _ _ _ _ E Ht) as [A|A]; [congruence|].
    destruct (creates_flat2 _ _ _ A) as (k' & Hk' & Hc).
    assert (NE : fst k <> fst k'). { intros X. apply Hnk. rewrite X. now apply in_map. }
    destruct (sf2_stable SF k k' s0 n Hk (HM _ Hk') NE Hin Hn) as [X|X]; [congruence|contradiction].
Qed.

(* ------------------------------------------------------------------ *)
(** * One call, on a renamed and re-ordered copy *)

Variable f : nat -> nat.
Variable J' : ginfo2.
Hypothesis Hinj : forall a b, f a = f b -> a = b.
Hypothesis Hisim : isim2 f J J'.

Lemma new_flows2_rn k : new_flows2 (rn_ik2 f k) = map (rn_flow f) (new_flows2 k).
Proof. destruct k as [i c]. destruct c as [c| | | | |]; try reflexivity. destruct c; reflexivity. Qed.

Lemma new_ic2_rn k : new_ic2 (rn_ik2 f k) = map (rn_trip f) (new_ic2 k).
Proof. destruct k as [i c]. destruct c as [c| | | | |]; reflexivity. Qed.

Lemma elem_sim2 M k s0 t d : (forall k', List.In k' M -> List.In k' L) -> List.In k L -> ~ List.In (fst k) (map fst M) ->
  List.In s0 Z0 -> sect2 M s0 = Ok t -> srel f t d -> sim f (reads22 J Z0 k s0) s0 d.
Proof.
  intros HM Hk Hnk Hin E [Rs Re]. pose proof (run_ops_attrs _ _ _ E) as A. constructor.
  - rewrite Rs. now rewrite (attrs_sid _ _ A).
  - eapply same_attrs_nosid_trans; [apply attrs_eq_nosid; exact A|apply Re].
  - intros n Hn. rewrite (sec_eqv_has_var _ _ n Re). eapply stable_presence2; eassumption.
Qed.

Definition rel2 (M : list (nat * cls2)) (T D : zone) : Prop := derived2 M T /\ zrel f T D.

Lemma gen_sim2_step M T D fl ic k : rel2 M T D ->
  (forall k', List.In k' M -> List.In k' L) -> List.In k L -> ~ List.In (fst k) (map fst M) ->
  match gen_step2 J' (mkG2 D fl ic) (rn_ik2 f k), apply_lops (Bs2 k) T with
  | Ok G', Ok T' => rel2 (M ++ [k]) T' (h_zone G') /\ h_flows G' = fl ++ map (rn_flow f) (new_flows2 k) /\
                    h_ic G' = ic ++ map (rn_trip f) (new_ic2 k)
  | Err _, Err _ => True
  | _, _ => False
  end.
Proof.
  intros [HD HZ] HM Hk Hnk.
  pose proof (derived2_attrs _ _ HD) as HA.
  assert (NDT : NoDup (map sid T)).
  { rewrite (zattrs_sids _ _ HA). exact (proj1 (sf2_uniq SF)). }
  pose proof (zrel_nodup f T D Hinj HZ NDT) as NDD.
  assert (ZS : zsim f (reads22 J Z0 k) Z0 D).
  { destruct HZ as (D'' & P & F). exists D''. split; [exact P|].
    eapply (Forall2_compose _ _ _ Z0 T D''); [|exact HD|exact F].
    intros s0 t d Hin E R. cbv beta in E. eapply elem_sim2; eassumption. }
  destruct (sf2_plans SF k Hk) as (g & Pg).
  pose proof (plan_sim2 k f J J' Z0 D Hinj (sf2_uniq SF) Hisim ZS (sf2_cand SF k Hk)) as PS.
  rewrite Pg in PS. unfold plans_sim in PS.
  destruct (plan2 J' D (rn_ik2 f k)) as [g'|] eqn:Pg'; [|contradiction].
  assert (NF : plan2 J' (h_zone (mkG2 D fl ic)) (rn_ik2 f k) <> Err OutOfFuel) by (cbn [h_zone]; rewrite Pg'; discriminate).
  pose proof (reform2 J' (mkG2 D fl ic) (rn_ik2 f k) NDD NF) as RF.
  unfold pstep2 in RF. cbn [h_zone h_flows h_ic] in RF. rewrite Pg' in RF. cbn [bind] in RF.
  assert (BG : forall s, B2 k s = g s). { intros s. unfold B2, plan_of2. now rewrite Pg. }
  assert (ZR : zres_rel f (apply_lops (Bs2 k) T) (apply_lops g' D)).
  { unfold apply_lops. apply zrel_zmap; [exact HZ|]. intros t d Ht R.
    destruct (Forall2_in_r _ _ _ _ HD Ht) as (s0 & Hin & E). cbv beta in E.
    unfold Bs2. rewrite (derived2_s0 M s0 t Hin E), BG.
    apply run_ops_cong2; [exact R|eapply sect2_wf; eassumption| |].
    - rewrite <- BG. pose proof (sf2_ops SF k s0 Hk Hin) as O. eapply Forall_impl; [|exact O].
      intros o. apply Ok2_attr. apply attrs_eq_nosid. eapply run_ops_attrs; exact E.
    - apply PS; [exact Hin|]. eapply elem_sim2; eassumption. }
  unfold zres_rel in ZR.
  destruct (apply_lops (Bs2 k) T) as [T'|] eqn:AT, (apply_lops g' D) as [D1|] eqn:AD; try contradiction; cbn [bind] in RF.
  - destruct (gen_step2 J' (mkG2 D fl ic) (rn_ik2 f k)) as [G'|]; [|contradiction].
    destruct RF as (ZE & FE & IE). cbn [h_zone h_flows h_ic] in ZE, FE, IE. split; [split|split].
    + unfold derived2. unfold apply_lops in AT. apply zmap_ok_inv in AT.
      eapply (Forall2_compose _ _ _ Z0 T T'); [|exact HD|exact AT].
      intros s0 t t' Hin E E'. cbv beta in E, E'. unfold sect2. rewrite flat_map_app, run_ops_app. fold (sect2 M s0). rewrite E. cbn [bind flat_map].
      rewrite app_nil_r. unfold Bs2 in E'. now rewrite (derived2_s0 M s0 t Hin E) in E'.
    + eapply zrel_ext_r; [exact ZR|exact ZE].
    + rewrite <- FE. now rewrite new_flows2_rn.
    + rewrite <- IE. now rewrite new_ic2_rn.
  - destruct (gen_step2 J' (mkG2 D fl ic) (rn_ik2 f k)); [contradiction|exact Logic.I].
Qed.

(* ------------------------------------------------------------------ *)
(** * Runs *)

Lemma gen_sim2_from R : forall M T D fl ic, rel2 M T D ->
  (forall k, List.In k (M ++ R) -> List.In k L) -> NoDup (map fst (M ++ R)) ->
  match foldM (gen_step2 J') (map (rn_ik2 f) R) (mkG2 D fl ic), Tfold2 R T with
  | Ok G', Ok T' => rel2 (M ++ R) T' (h_zone G') /\ h_flows G' = fl ++ map (rn_flow f) (flat_map new_flows2 R) /\
                    h_ic G' = ic ++ map (rn_trip f) (flat_map new_ic2 R)
  | Err _, Err _ => True
  | _, _ => False
  end.
Proof.
  induction R as [|k R IH]; intros M T D fl ic HR HL ND.
  - cbn [map foldM Tfold2 flat_map]. rewrite !app_nil_r. split; [exact HR|split; reflexivity].
  - cbn [map foldM Tfold2].
    assert (Hk : List.In k L) by (apply HL; apply in_or_app; right; now left).
    assert (HM : forall k', List.In k' M -> List.In k' L) by (intros k' Hk'; apply HL; apply in_or_app; now left).
    assert (Hnk : ~ List.In (fst k) (map fst M)).
    { rewrite map_app in ND. apply NoDup_remove_2 in ND. intros X. apply ND. apply in_or_app. now left. }
    pose proof (gen_sim2_step M T D fl ic k HR HM Hk Hnk) as S.
    change (foldM (fun H k0 => apply_lops (Bs2 k0) H) (k :: R) T) with
      (match apply_lops (Bs2 k) T with Ok a' => foldM (fun H k0 => apply_lops (Bs2 k0) H) R a' | Err e => Err e end).
    destruct (gen_step2 J' (mkG2 D fl ic) (rn_ik2 f k)) as [G1|], (apply_lops (Bs2 k) T) as [T1|]; try contradiction; [|exact Logic.I].
    destruct S as (R1 & F1 & I1). destruct G1 as [D1 fl1 ic1]. cbn [h_zone h_flows h_ic] in *. subst fl1 ic1.
    assert (E : (M ++ [k]) ++ R = M ++ k :: R) by (rewrite <- app_assoc; reflexivity).
    specialize (IH (M ++ [k]) T1 D1 (fl ++ map (rn_flow f) (new_flows2 k)) (ic ++ map (rn_trip f) (new_ic2 k)) R1).
    rewrite E in IH. specialize (IH HL ND). fold (Tfold2 R T1) in *.
    destruct (foldM (gen_step2 J') (map (rn_ik2 f) R) _) as [G'|], (Tfold2 R T1) as [T'|]; try contradiction; [|exact Logic.I].
    destruct IH as (R2 & F2 & I2). split; [exact R2|]. rewrite F2, I2. cbn [flat_map]. now rewrite !map_app, !app_assoc.
Qed.

Lemma derived2_nil : derived2 [] Z0.
Proof.
  unfold derived2, sect2. cbn [flat_map]. assert (G : forall Z : zone, Forall2 (fun s0 t => run_ops [] s0 = Ok t) Z Z).
  { induction Z as [|a Z IH]; [constructor|constructor; [reflexivity|exact IH]]. }
  apply G.
Qed.

Theorem gen_sim2 M D0 fl ic : zrel f Z0 D0 -> (forall k, List.In k M -> List.In k L) -> NoDup (map fst M) ->
  match foldM (gen_step2 J') (map (rn_ik2 f) M) (mkG2 D0 fl ic), zmap (sect2 M) Z0 with
  | Ok G', Ok T' => zrel f T' (h_zone G') /\ h_flows G' = fl ++ map (rn_flow f) (flat_map new_flows2 M) /\
                    h_ic G' = ic ++ map (rn_trip f) (flat_map new_ic2 M)
  | Err _, Err _ => True
  | _, _ => False
  end.
Proof.
  intros HZ HL ND.
  pose proof (gen_sim2_from M [] Z0 D0 fl ic (conj derived2_nil HZ) HL ND) as S. cbn [app] in S.
  pose proof (Tfold2_sect M) as TS. unfold rsim in TS.
  destruct (foldM (gen_step2 J') (map (rn_ik2 f) M) (mkG2 D0 fl ic)) as [G'|], (Tfold2 M Z0) as [T'|], (zmap (sect2 M) Z0) as [T''|];
    try contradiction; try exact Logic.I.
  subst T''. destruct S as [[_ R] F]. split; assumption.
Qed.
End GenSim2.
