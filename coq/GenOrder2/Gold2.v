(** The gold-standard classes ([Main2.gold_step]: GoldStandardGovernment / GoldStandardCentralBank
    ._GenerateEquations after the base-class part, plus InternationalGold.SetGoldPurchases) as a plan:
      [gold_reform]    gold_step = "compute [gold_plan], then apply it sector by sector";
      [gold_plan_sim]  the plan depends on the zone only through attributes and through the presence of
                       the variables of [Side2.gold_reads]. *)
From Coq Require Import List String Bool ZArith Arith Lia Permutation.
From SFC.Base Require Import Res Str.
From SFC.Gen Require Import Fx Zone.
From SFC.GenMarket Require Import Market MarketProofs.
From SFC.GenTax Require Import Tax Dividends.
From SFC.GenAsset Require Import Common Money Deposit Weighting.
From SFC.GenMain2 Require Import Program Classes Main Program2 Main2 Conflict Conflict2.
From SFC.GenOrder Require Import Ops Plan ReformDefs ReformMarketLib PostPlan Equiv Perm CRel OpsProofs Sim SimTax SimMarket.
From SFC.GenOrder2 Require Import Perm2 CRel2 Plan2 Part Reform2 Side2 Sim2.
Import ListNotations.
Local Open Scope string_scope.

(* ------------------------------------------------------------------ *)
(** * Sector operations as primitive operations *)

Lemma addv_lit s n t : has_substring "__" n = false -> addv s n t = Ok (setv s n (blob_eqn (squeeze t))).
Proof. intros H. unfold addv. rewrite H. reflexivity. Qed.

Lemma addv_ops s n t : has_substring "__" n = false -> addv s n t = run_ops [PSet n (blob_eqn (squeeze t))] s.
Proof. intros H. rewrite run_ops_1. cbn [run_op1]. now apply addv_lit. Qed.

Lemma addvs_ops l : forall s, forallb (fun nt => negb (has_substring "__" (fst nt))) l = true ->
  addvs s l = run_ops (map (fun nt => PSet (fst nt) (blob_eqn (squeeze (snd nt)))) l) s.
Proof.
  induction l as [|[n t] r IH]; intros s H; [reflexivity|].
  cbn [forallb fst] in H. apply andb_true_iff in H as [H1 H2]. apply negb_true_iff in H1.
  cbn [addvs map fst snd]. rewrite run_ops_cons. cbn [run_op1]. rewrite (addv_lit s n t H1). cbn [bind].
  now apply IH.
Qed.

Lemma ensure_ops g n t : has_substring "__" n = false ->
  (if has_var g n then Ok g else addv g n t) = run_op1 g (PEnsure n (blob_eqn (squeeze t))).
Proof. intros H. cbn [run_op1]. rewrite (addv_lit g n t H). now destruct (has_var g n). Qed.

Lemma padd_ops g n t : opt_key (add_term_to_eq g n t) = run_ops [PAdd n t] g.
Proof. now rewrite run_ops_1. Qed.

(* ------------------------------------------------------------------ *)
(** * Passes that touch one sector *)

Definition only (j : nat) (ops : sector -> list pop) (s : sector) : list pop := if Nat.eqb (sid s) j then ops s else [].

Lemma upd_none j (f : sector -> result sector) : forall Z, find_sec j Z = None -> upd j f Z = Err KeyError.
Proof.
  unfold find_sec. induction Z as [|s r IH]; intros H; [reflexivity|]. cbn [find] in H. cbn [upd].
  destruct (Nat.eqb (sid s) j); [discriminate|]. now rewrite IH.
Qed.

(** mutating the object with ID [j] in a zone that kept the attributes of [Z0] *)
Lemma upd_pass Z0 Zk j (f : sector -> result sector) (ops : sector -> list pop) x :
  NoDup (map sid Z0) -> zattrs Z0 Zk -> find_sec j Z0 = Some x ->
  (forall s, sid s = j -> f s = run_ops (ops s) s) ->
  upd j f Zk = apply_lops (only j ops) Zk.
Proof.
  intros ND ZA F Hf. destruct (zattrs_find_some j Z0 Zk x ZA F) as (x' & F' & _).
  apply upd_lops; [now rewrite (zattrs_sids _ _ ZA)|now exists x'|exact Hf].
Qed.

(** a sector the pass has no operation for stays what it is *)
Lemma pass_untouched g k : forall Z Z', apply_lops g Z = Ok Z' -> (forall s, sid s = k -> g s = []) ->
  find_sec k Z' = find_sec k Z.
Proof.
  unfold apply_lops. intros Z Z' H Hg. apply zmap_ok_inv in H. unfold find_sec.
  induction H as [|s s' r r' E _ IH]; [reflexivity|]. cbn [find].
  rewrite (attrs_sid _ _ (run_ops_attrs _ _ _ E)). destruct (Nat.eqb_spec (sid s) k) as [Ek|Ek]; [|exact IH].
  rewrite (Hg s Ek) in E. now injection E as <-.
Qed.

Lemma only_untouched j ops k Z Z' : apply_lops (only j ops) Z = Ok Z' -> k <> j -> find_sec k Z' = find_sec k Z.
Proof.
  intros H N. apply (pass_untouched _ k _ _ H). intros s Es. unfold only.
  destruct (Nat.eqb_spec (sid s) j) as [E|E]; [congruence|reflexivity].
Qed.

Lemma only_attr j ops : attr_fun ops -> attr_fun (only j ops).
Proof. intros H s s' A. unfold only. now rewrite (attrs_sid _ _ A), (H s s' A). Qed.

Lemma const_attr (l : list pop) : attr_fun (fun _ : sector => l).
Proof. intros s s' _. reflexivity. Qed.

Lemma cash_attr t inc : attr_fun (fun s => cash s t inc).
Proof. intros s s' A. unfold cash. now rewrite (attrs_excl _ _ A). Qed.

Lemma xr_full_at J e Zk xr n : j_ext J = Some e -> find_sec (e_xr e) Zk = Some xr -> has_var xr n = true ->
  xr_full J Zk n = Ok (fullcode xr ++ "__" ++ n).
Proof. intros E F H. unfold xr_full. now rewrite E, F, H. Qed.

Lemma ext_distinct_inv e i : ext_distinct e i = true ->
  e_xr e <> e_fx e /\ e_xr e <> e_gold e /\ e_fx e <> e_gold e /\ i <> e_xr e /\ i <> e_fx e /\ i <> e_gold e.
Proof.
  unfold ext_distinct. intros H.
  repeat (apply andb_true_iff in H as [H ?]).
  repeat match goal with X : negb _ = true |- _ => apply negb_true_iff, Nat.eqb_neq in X end.
  tauto.
Qed.

(* ------------------------------------------------------------------ *)
(** * The passes of [gold_step] *)

Section Passes.
Variables (e : ext_ids) (i : nat) (cur balance price xrs full : string).

Definition gP1 : sector -> list pop :=
  only i (fun _ => [PSet "GOLDPURCHASES" (blob_eqn (squeeze ("GOLDPURCHASES - " ++ balance)))]).
Definition gP2 : sector -> list pop :=
  only (e_gold e) (fun _ => [PEnsure "PRICE" (blob_eqn "1.0"); PEnsure "NETOZ" (blob_eqn "")]).
Definition gP3 : sector -> list pop :=
  only i (fun _ => [PSet "GOLDPRICE" (blob_eqn (squeeze (price ++ " / " ++ xrs)));
                    PSet "GOLD" (blob_eqn (squeeze "(LAG_GOLD_OZ * GOLDPRICE) + GOLDPURCHASES"));
                    PSet "LAG_GOLD_OZ" (blob_eqn (squeeze "GOLD_OZ(k-1)"));
                    PSet "GOLD_OZ" (blob_eqn (squeeze "GOLD / GOLDPRICE"))]).
Definition gP4 : sector -> list pop := only (e_fx e) (fun _ => [PAdd ("NET_" ++ cur) (1%Z, [full])]).
Definition gP5 : sector -> list pop := only (e_fx e) (fun _ => [PAdd ("NET_" ++ NUM) ((-1)%Z, [full; xrs])]).
Definition gP6 : sector -> list pop := only i (fun s => cash s ((-1)%Z, ["GOLDPURCHASES"]) false).
Definition gP7 : sector -> list pop := only (e_gold e) (fun _ => [PAdd "NETOZ" (1%Z, [xrs; full])]).

Definition gpasses : list (sector -> list pop) := [gP1; gP2; gP3; gP4; gP5; gP6; gP7].

Lemma gpasses_attr : forall x, List.In x gpasses -> attr_fun x.
Proof.
  intros x H. cbn [gpasses List.In] in H.
  repeat (destruct H as [<-|H]; [apply only_attr; first [apply const_attr|apply cash_attr]|]). destruct H.
Qed.

(** the seven passes, fused, are the plan *)
Lemma gpasses_lops s : ext_distinct e i = true ->
  flat_map (fun x : sector -> list pop => x s) gpasses = gold_lops e i cur balance price xrs full s.
Proof.
  intros D. destruct (ext_distinct_inv e i D) as (N1 & N2 & N3 & N4 & N5 & N6).
  unfold gpasses, gold_lops, gold_self_ops. cbn [flat_map]. unfold gP1, gP2, gP3, gP4, gP5, gP6, gP7, only.
  destruct (Nat.eqb_spec (sid s) i) as [Ei|Ei].
  - destruct (Nat.eqb_spec (sid s) (e_gold e)) as [Eg|Eg]; [congruence|].
    destruct (Nat.eqb_spec (sid s) (e_fx e)) as [Ef|Ef]; [congruence|].
    cbn [app]. now rewrite !app_nil_r.
  - destruct (Nat.eqb_spec (sid s) (e_gold e)) as [Eg|Eg].
    + destruct (Nat.eqb_spec (sid s) (e_fx e)) as [Ef|Ef]; [congruence|]. reflexivity.
    + destruct (Nat.eqb_spec (sid s) (e_fx e)) as [Ef|Ef]; reflexivity.
Qed.
End Passes.

(** [fold_passes] with the attribute condition only on the members of the list *)
Lemma attr_fun_flat_in (L : list (sector -> list pop)) : (forall x, List.In x L -> attr_fun x) ->
  attr_fun (fun s => flat_map (fun x : sector -> list pop => x s) L).
Proof.
  intros Hg s s' A. induction L as [|y L IHL]; [reflexivity|].
  cbn [flat_map]. rewrite (Hg y (or_introl eq_refl) s s' A). f_equal. apply IHL. intros z Hz. apply Hg. now right.
Qed.

Lemma fold_passes_in (L : list (sector -> list pop)) : (forall x, List.In x L -> attr_fun x) ->
  forall Z, rsim (foldM (fun H x => apply_lops x H) L Z) (apply_lops (fun s => flat_map (fun x : sector -> list pop => x s) L) Z).
Proof.
  induction L as [|x L IH]; intros Hg Z.
  - cbn [foldM flat_map]. rewrite apply_lops_nil. reflexivity.
  - cbn [foldM flat_map].
    change (match apply_lops x Z with Ok a' => foldM (fun H x0 => apply_lops x0 H) L a' | Err e => Err e end)
      with (do Z1 <- apply_lops x Z ;; foldM (fun H x0 => apply_lops x0 H) L Z1).
    eapply rsim_trans; [apply rsim_bind_r; intros Z1 _; apply IH; intros y Hy; apply Hg; now right|].
    apply apply_lops_seq_attr. apply attr_fun_flat_in. intros y Hy. apply Hg. now right.
Qed.

(* ------------------------------------------------------------------ *)
(** * gold_step = its plan *)

Lemma rsim_gres (a b : result gstate2) : rsim a b -> gres_ext2 a b.
Proof. destruct a, b; cbn; try tauto. intros <-. apply gs_ext2_refl. Qed.

Theorem gold_reform J Z fl ic i self stock with_ic :
  NoDup (map sid Z) -> find_sec i Z = Some self -> gold_plan J Z i self <> Err OutOfFuel ->
  gres_ext2 (gold_step J i self stock with_ic (mkG2 Z fl ic))
            (do g <- gold_plan J Z i self ;; do Z' <- apply_lops g Z ;;
             Ok (mkG2 Z' fl (ic ++ (if with_ic then [(i, "GOLDPURCHASES", "0.0")] else []) ++
                               [(i, "GOLD_OZ", stock); (i, "LAG_GOLD_OZ", stock)])%list)).
Proof.
  intros ND Fi NF. apply rsim_gres. revert NF. unfold gold_step, gold_plan. cbn [h_zone h_flows h_ic].
  destruct (j_ext J) as [e|] eqn:EJ; [|intros _; exact Logic.I].
  destruct (ext_distinct e i) eqn:D; [intros _|intros NF; now contradiction NF].
  destruct (ext_distinct_inv e i D) as (N1 & N2 & N3 & N4 & N5 & N6).
  set (cur := cur_of_sec J self).
  destruct (find_sec (e_fx e) Z) as [fx|] eqn:Ffx; [|exact Logic.I].
  set (balance := fullcode fx ++ "__" ++ "NET_" ++ cur).
  set (full := fullcode self ++ "__" ++ "GOLDPURCHASES").
  (* the first pass, in all cases *)
  assert (U1 : upd i (fun s => addv s "GOLDPURCHASES" ("GOLDPURCHASES - " ++ balance)) Z = apply_lops (gP1 i balance) Z).
  { apply (upd_pass Z Z i _ _ self ND (zattrs_refl Z) Fi). intros s _. now apply addv_ops. }
  assert (U2 : forall Z1, zattrs Z Z1 -> forall g, find_sec (e_gold e) Z = Some g ->
               upd (e_gold e) (fun g0 => do g1 <- (if has_var g0 "PRICE" then Ok g0 else addv g0 "PRICE" "1.0") ;;
                                         if has_var g1 "NETOZ" then Ok g1 else addv g1 "NETOZ" "") Z1 = apply_lops (gP2 e) Z1).
  { intros Z1 ZA1 g Fg. apply (upd_pass Z Z1 (e_gold e) _ _ g ND ZA1 Fg). intros s _.
    rewrite run_ops_cons. rewrite (ensure_ops s "PRICE" "1.0" eq_refl).
    change (squeeze "1.0") with "1.0". destruct (run_op1 s (PEnsure "PRICE" (blob_eqn "1.0"))) as [s1|]; cbn [bind]; [|reflexivity].
    rewrite run_ops_1. exact (ensure_ops s1 "NETOZ" "" eq_refl). }
  destruct (find_sec (e_gold e) Z) as [g|] eqn:Fg.
  2:{ (* no GOLD sector *)
    destruct (has_var fx ("NET_" ++ cur)); [|exact Logic.I]. rewrite U1.
    destruct (apply_lops (gP1 i balance) Z) as [Z1|] eqn:A1; cbn [bind]; [|exact Logic.I].
    rewrite (upd_none _ _ Z1); [exact Logic.I|]. apply (zattrs_find_none _ Z); [eapply apply_lops_zattrs; exact A1|exact Fg]. }
  destruct (find_sec (e_xr e) Z) as [xr|] eqn:Fx.
  2:{ (* no XR sector *)
    destruct (has_var fx ("NET_" ++ cur)); [|exact Logic.I]. rewrite U1.
    destruct (apply_lops (gP1 i balance) Z) as [Z1|] eqn:A1; cbn [bind]; [|exact Logic.I].
    pose proof (apply_lops_zattrs _ _ _ A1) as ZA1. rewrite (U2 Z1 ZA1 g eq_refl).
    destruct (apply_lops (gP2 e) Z1) as [Z2|] eqn:A2; cbn [bind]; [|exact Logic.I].
    pose proof (zattrs_trans _ _ _ ZA1 (apply_lops_zattrs _ _ _ A2)) as ZA2.
    destruct (zattrs_find_some _ _ _ _ ZA2 Fg) as (g2 & Fg2 & _). rewrite Fg2.
    unfold xr_full. rewrite EJ, (zattrs_find_none _ _ _ ZA2 Fx). exact Logic.I. }
  destruct (has_var fx ("NET_" ++ cur)) eqn:Hnet; [|exact Logic.I]. cbn [andb].
  rewrite U1.
  destruct (has_var xr cur) eqn:Hxr.
  2:{ (* the exchange rate of the currency is missing *)
    destruct (apply_lops (gP1 i balance) Z) as [Z1|] eqn:A1; cbn [bind]; [|exact Logic.I].
    pose proof (apply_lops_zattrs _ _ _ A1) as ZA1. rewrite (U2 Z1 ZA1 g eq_refl).
    destruct (apply_lops (gP2 e) Z1) as [Z2|] eqn:A2; cbn [bind]; [|exact Logic.I].
    pose proof (zattrs_trans _ _ _ ZA1 (apply_lops_zattrs _ _ _ A2)) as ZA2.
    destruct (zattrs_find_some _ _ _ _ ZA2 Fg) as (g2 & Fg2 & _). rewrite Fg2.
    assert (X2 : find_sec (e_xr e) Z2 = Some xr).
    { rewrite (only_untouched _ _ _ _ _ A2 N2), (only_untouched _ _ _ _ _ A1 (not_eq_sym N4)). exact Fx. }
    unfold xr_full. rewrite EJ, X2, Hxr. exact Logic.I. }
  (* the main case *)
  cbn [bind].
  set (price := fullcode g ++ "__" ++ "PRICE").
  set (xrs := fullcode xr ++ "__" ++ cur).
  apply (rsim_trans _ (do Z' <- foldM (fun H x => apply_lops x H) (gpasses e i cur balance price xrs full) Z ;;
                       Ok (mkG2 Z' fl (ic ++ (if with_ic then [(i, "GOLDPURCHASES", "0.0")] else []) ++
                                         [(i, "GOLD_OZ", stock); (i, "LAG_GOLD_OZ", stock)])%list))).
  2:{ apply rsim_bind_l. eapply rsim_trans; [apply fold_passes_in, gpasses_attr|].
      apply rsim_eq, apply_lops_ext. intros s _. now apply gpasses_lops. }
  unfold gpasses. cbn [foldM].
  (* pass 1 *)
  destruct (apply_lops (gP1 i balance) Z) as [Z1|] eqn:A1; cbn [bind]; [|exact Logic.I].
  pose proof (apply_lops_zattrs _ _ _ A1) as ZA1.
  assert (X1 : find_sec (e_xr e) Z1 = Some xr) by (rewrite (only_untouched _ _ _ _ _ A1 (not_eq_sym N4)); exact Fx).
  (* pass 2 *)
  rewrite (U2 Z1 ZA1 g eq_refl).
  destruct (apply_lops (gP2 e) Z1) as [Z2|] eqn:A2; cbn [bind]; [|exact Logic.I].
  pose proof (zattrs_trans _ _ _ ZA1 (apply_lops_zattrs _ _ _ A2)) as ZA2.
  assert (X2 : find_sec (e_xr e) Z2 = Some xr) by (rewrite (only_untouched _ _ _ _ _ A2 N2); exact X1).
  destruct (zattrs_find_some _ _ _ _ ZA2 Fg) as (g2 & Fg2 & Ag2). rewrite Fg2.
  rewrite (attrs_fullcode _ _ Ag2). fold price.
  rewrite (xr_full_at J e Z2 xr cur EJ X2 Hxr). cbn [bind]. fold xrs.
  (* pass 3 *)
  rewrite (upd_pass Z Z2 i _ (fun _ => [PSet "GOLDPRICE" (blob_eqn (squeeze (price ++ " / " ++ xrs)));
                    PSet "GOLD" (blob_eqn (squeeze "(LAG_GOLD_OZ * GOLDPRICE) + GOLDPURCHASES"));
                    PSet "LAG_GOLD_OZ" (blob_eqn (squeeze "GOLD_OZ(k-1)"));
                    PSet "GOLD_OZ" (blob_eqn (squeeze "GOLD / GOLDPRICE"))]) self ND ZA2 Fi).
  2:{ intros s _. rewrite addvs_ops by reflexivity. reflexivity. }
  fold (gP3 i price xrs).
  destruct (apply_lops (gP3 i price xrs) Z2) as [Z3|] eqn:A3; cbn [bind]; [|exact Logic.I].
  pose proof (zattrs_trans _ _ _ ZA2 (apply_lops_zattrs _ _ _ A3)) as ZA3.
  assert (X3 : find_sec (e_xr e) Z3 = Some xr) by (rewrite (only_untouched _ _ _ _ _ A3 (not_eq_sym N4)); exact X2).
  (* passes 4 and 5: _SendMoney *)
  unfold send_money. rewrite (xr_full_at J e Z3 xr cur EJ X3 Hxr). cbn [bind]. fold xrs.
  unfold fx_add. rewrite EJ.
  rewrite (upd_pass Z Z3 (e_fx e) _ (fun _ => [PAdd ("NET_" ++ cur) (1%Z, [full])]) fx ND ZA3 Ffx).
  2:{ intros s _. apply padd_ops. }
  fold (gP4 e cur full).
  destruct (apply_lops (gP4 e cur full) Z3) as [Z4|] eqn:A4; cbn [bind]; [|exact Logic.I].
  pose proof (zattrs_trans _ _ _ ZA3 (apply_lops_zattrs _ _ _ A4)) as ZA4.
  rewrite (upd_pass Z Z4 (e_fx e) _ (fun _ => [PAdd ("NET_" ++ NUM) ((-1)%Z, [full; xrs])]) fx ND ZA4 Ffx).
  2:{ intros s _. apply padd_ops. }
  fold (gP5 e xrs full).
  destruct (apply_lops (gP5 e xrs full) Z4) as [Z5|] eqn:A5; cbn [bind]; [|exact Logic.I].
  pose proof (zattrs_trans _ _ _ ZA4 (apply_lops_zattrs _ _ _ A5)) as ZA5.
  (* pass 6 *)
  rewrite (upd_pass Z Z5 i _ (fun s => cash s ((-1)%Z, ["GOLDPURCHASES"]) false) self ND ZA5 Fi).
  2:{ intros s _. now apply cash_ops. }
  fold (gP6 i).
  destruct (apply_lops (gP6 i) Z5) as [Z6|] eqn:A6; cbn [bind]; [|exact Logic.I].
  pose proof (zattrs_trans _ _ _ ZA5 (apply_lops_zattrs _ _ _ A6)) as ZA6.
  (* pass 7 *)
  rewrite (upd_pass Z Z6 (e_gold e) _ (fun _ => [PAdd "NETOZ" (1%Z, [xrs; full])]) g ND ZA6 Fg).
  2:{ intros s _. apply padd_ops. }
  fold (gP7 e xrs full).
  destruct (apply_lops (gP7 e xrs full) Z6) as [Z7|]; cbn [bind]; [reflexivity|exact Logic.I].
Qed.

(* ------------------------------------------------------------------ *)
(** * The plan under a renaming of creation indices *)

Theorem gold_plan_sim f J J' Z Z' i self self' (rd : sector -> list string) :
  (forall a b, f a = f b -> a = b) -> isim2 f J J' -> uniq_ok Z -> zsim f rd Z Z' ->
  find_sec i Z = Some self -> find_sec (f i) Z' = Some self' -> sim f (rd self) self self' ->
  (forall s n, List.In n (gold_reads J (cur_of_sec J self) s) -> List.In n (rd s)) ->
  plans_sim f rd Z (gold_plan J Z i self) (gold_plan J' Z' (f i) self').
Proof.
  intros Hinj HI [ND _] HZ Fi Fi' Hs Hrd. unfold gold_plan.
  rewrite (is_ext _ _ _ HI). destruct (j_ext J) as [e|] eqn:EJ; [|exact Logic.I].
  destruct (is_ext_fix _ _ _ HI e EJ) as (Ex & Ef & Eg).
  assert (ED : ext_distinct e (f i) = ext_distinct e i).
  { unfold ext_distinct. rewrite <- Ex at 3. rewrite <- Ef at 3. rewrite <- Eg at 3.
    now rewrite !(smk_eqb_inj f Hinj). }
  rewrite ED. destruct (ext_distinct e i); [|exact Logic.I].
  rewrite (cur_sim f J J' HI _ _ _ Hs). set (cur := cur_of_sec J self) in *.
  pose proof (smk_find_sec_zsim f rd Z Z' Hinj ND HZ) as HF.
  pose proof (HF (e_fx e)) as Sfx. pose proof (HF (e_gold e)) as Sg. pose proof (HF (e_xr e)) as Sxr.
  rewrite Ef in Sfx. rewrite Eg in Sg. rewrite Ex in Sxr.
  destruct (find_sec (e_fx e) Z) as [fx|] eqn:Ffx, (find_sec (e_fx e) Z') as [fx'|]; try contradiction; [|exact Logic.I].
  destruct (find_sec (e_gold e) Z) as [g|] eqn:Fg, (find_sec (e_gold e) Z') as [g'|]; try contradiction; [|exact Logic.I].
  destruct (find_sec (e_xr e) Z) as [xr|] eqn:Fxr, (find_sec (e_xr e) Z') as [xr'|]; try contradiction; [|exact Logic.I].
  assert (H1 : has_var fx' ("NET_" ++ cur) = has_var fx ("NET_" ++ cur)).
  { apply (sim_reads _ _ _ _ Sfx). apply Hrd. unfold gold_reads. rewrite EJ, (find_sec_sid _ _ _ Ffx), Nat.eqb_refl.
    apply in_or_app. left. now left. }
  assert (H2 : has_var xr' cur = has_var xr cur).
  { apply (sim_reads _ _ _ _ Sxr). apply Hrd. unfold gold_reads. rewrite EJ, (find_sec_sid _ _ _ Fxr), Nat.eqb_refl.
    apply in_or_app. right. now left. }
  rewrite H1, H2. destruct (has_var fx ("NET_" ++ cur) && has_var xr cur); [|exact Logic.I].
  intros s s' _ Hss.
  rewrite (sim_fullcode f _ _ _ Sfx), (sim_fullcode f _ _ _ Sg), (sim_fullcode f _ _ _ Sxr), (sim_fullcode f _ _ _ Hs).
  unfold gold_lops, gold_self_ops.
  rewrite (sim_sid_eqb f Hinj _ _ _ i Hss).
  pose proof (sim_sid_eqb f Hinj _ _ _ (e_gold e) Hss) as Q1. rewrite Eg in Q1. rewrite Q1.
  pose proof (sim_sid_eqb f Hinj _ _ _ (e_fx e) Hss) as Q2. rewrite Ef in Q2. rewrite Q2.
  rewrite (sim_cash f _ _ _ _ _ Hss). apply ops_eqv_refl.
Qed.
