(** [gen_step2 = pstep2] for the calls that act inside the caller's currency zone: the step of the
    multi-currency model is the step of the single-currency model ([Main.gen_step]) on the zone part,
    written back ([gen_step2_lift]); GenOrder's [reform] (Generation_is_sectorwise) then gives the
    sector-wise form.  Gold standard: Gold2.v.  Foreign suppliers: Foreign.v. *)
From Coq Require Import List String Bool ZArith Arith Lia.
From SFC.Base Require Import Res Str.
From SFC.Gen Require Import Fx Zone.
From SFC.GenMarket Require Import Market MarketProofs.
From SFC.GenTax Require Import Tax TaxProofs Dividends DividendProofs.
From SFC.GenAsset Require Import Common Money Deposit.
From SFC.GenMain2 Require Import Program Classes Main Program2 Main2 Conflict Conflict2.
From SFC.GenOrder Require Import Ops Plan ReformDefs ReformMarketLib ReformMarket Reform ZoneRel.
From SFC.GenOrder2 Require Import Plan2 Part.
Import ListNotations.
Local Open Scope string_scope.
Local Open Scope list_scope.

Definition gs_ext2 (a b : gstate2) : Prop :=
  zone_ext (h_zone a) (h_zone b) /\ h_flows b = h_flows a /\ h_ic b = h_ic a.

Definition gres_ext2 (a b : result gstate2) : Prop :=
  match a, b with
  | Ok x, Ok y => gs_ext2 x y
  | Err _, Err _ => True
  | _, _ => False
  end.

Lemma gs_ext2_refl a : gs_ext2 a a.
Proof. split; [apply zone_ext_refl|split; reflexivity]. Qed.

Lemma gres_ext2_refl a : gres_ext2 a a.
Proof. destruct a; [apply gs_ext2_refl|exact Logic.I]. Qed.

Lemma gres_ext2_eq a b : a = b -> gres_ext2 a b.
Proof. intros ->. apply gres_ext2_refl. Qed.

Lemma gres_ext2_trans a b c : gres_ext2 a b -> gres_ext2 b c -> gres_ext2 a c.
Proof.
  destruct a as [x|], b as [y|], c as [z|]; cbn; try tauto.
  intros (A1 & A2 & A3) (B1 & B2 & B3). split; [eapply zone_ext_trans; eassumption|split; congruence].
Qed.

(* ------------------------------------------------------------------ *)
(** * Classes *)

Lemma class_of_to_old J i : class_of (i_classes (to_old J)) i = old_class (class_of2 (j_classes J) i).
Proof. unfold class_of, class_of2, to_old. cbn [i_classes]. change CGov with (old_class (COld CGov)). apply map_nth. Qed.

Lemma biz_ids_to_old J C : biz_ids (to_old J) C = biz_ids2 J C.
Proof.
  unfold biz_ids, biz_ids2. f_equal. apply filter_ext. intros s. rewrite class_of_to_old.
  destruct (class_of2 (j_classes J) (sid s)) as [k| | | | |]; reflexivity.
Qed.

(* ------------------------------------------------------------------ *)
(** * A market without foreign supplier does not look at the ledger *)

Lemma supply_step_home_gen h a mk H L cr je :
  supply_step h a mk (mkWorld H [] L cr) je = do H' <- hstep mk H je ;; Ok (mkWorld H' [] L cr).
Proof.
  destruct je as [j e]. unfold supply_step, hstep, resolve. cbn [home abroad fxl crosses].
  destruct (find_sec j H) as [sup|]; [|reflexivity].
  destruct (upd (sid mk) (fun s => Ok (set_eqn s (alloc_name sup) e)) H) as [H1|]; cbn [bind]; [|reflexivity].
  destruct (upd j (supplier_local mk (alloc_name sup)) H1); reflexivity.
Qed.

Lemma fold_home_gen h a mk L cr l : forall H,
  foldM (supply_step h a mk) l (mkWorld H [] L cr) = do H' <- foldM (hstep mk) l H ;; Ok (mkWorld H' [] L cr).
Proof.
  induction l as [|je l IH]; intros H; [reflexivity|].
  cbn [foldM]. rewrite supply_step_home_gen. destruct (hstep mk H je) as [H1|]; cbn [bind]; [apply IH|reflexivity].
Qed.

Lemma resolve_fullcodes_home H L cr ids : resolve_fullcodes (mkWorld H [] L cr) ids = resolve_fullcodes (lworld H) ids.
Proof. induction ids as [|i r IH]; [reflexivity|]. cbn [resolve_fullcodes]. unfold resolve. cbn [home abroad lworld]. now rewrite IH. Qed.

Lemma generate_supply_home_gen h a H L cr m r others :
  generate_supply h a (mkWorld H [] L cr) m r others =
  do W <- generate_supply HCUR ACUR (lworld H) m r others ;; Ok (mkWorld (home W) [] L cr).
Proof.
  unfold generate_supply. cbn [home lworld]. destruct (find_sec m H) as [mk|]; [|reflexivity].
  destruct (upd m _ H) as [H0|]; [|reflexivity].
  unfold with_home. cbn [abroad fxl crosses lworld]. rewrite resolve_fullcodes_home.
  change (mkWorld H0 [] None []) with (lworld H0).
  destruct (resolve_fullcodes (lworld H0) (map fst others)) as [fcs|]; [|reflexivity].
  rewrite fold_home_gen. unfold lworld. rewrite fold_home_gen.
  destruct (foldM (hstep mk) _ H0); reflexivity.
Qed.

Lemma market_generate_home_gen h a H L cr m res others :
  market_generate h a (mkWorld H [] L cr) m res others =
  do W <- market_generate HCUR ACUR (lworld H) m res others ;; Ok (mkWorld (home W) [] L cr).
Proof.
  unfold market_generate. cbn [home lworld]. destruct (find_sec m H) as [mk|]; [|reflexivity].
  destruct (the_residual H mk res) as [r|]; [|reflexivity].
  destruct (generate_demand H m) as [H1|]; [|reflexivity].
  unfold with_home. cbn [abroad fxl crosses lworld]. apply generate_supply_home_gen.
Qed.

(* ------------------------------------------------------------------ *)
(** * Storing back an unchanged ledger *)

Lemma set_var_same n e : forall vs, lookup_var n vs = Some e -> set_var n e vs = vs.
Proof.
  induction vs as [|[k e0] r IH]; cbn [lookup_var set_var]; [discriminate|].
  destruct (String.eqb_spec n k) as [->|N]; [intros H; now injection H as <-|]. intros H. now rewrite IH.
Qed.

Lemma store_net_same fx c : has_var fx ("NET_" ++ c) = true -> store_net fx (c, net_of fx c) = fx.
Proof.
  unfold has_var, store_net, net_of. cbn [fst snd]. destruct (lookup_var ("NET_" ++ c) (vars fx)) as [e|] eqn:E; [|discriminate].
  intros _. unfold set_eqn. rewrite set_var_same; [now destruct fx|]. rewrite E. now destruct e.
Qed.

Lemma fold_store_same fx : forall cs, forallb (fun c => has_var fx ("NET_" ++ c)) cs = true ->
  fold_left store_net (map (fun c => (c, net_of fx c)) cs) fx = fx.
Proof.
  induction cs as [|c r IH]; intros H; [reflexivity|]. cbn [forallb] in H. apply andb_true_iff in H as [H1 H2].
  cbn [map fold_left]. rewrite store_net_same by exact H1. now apply IH.
Qed.

Lemma upd_same i (f : sector -> result sector) : forall Z s, find_sec i Z = Some s -> f s = Ok s -> upd i f Z = Ok Z.
Proof.
  unfold find_sec. induction Z as [|x r IH]; intros s H E; [discriminate|]. cbn [find] in H. cbn [upd].
  destruct (Nat.eqb (sid x) i); [injection H as <-; now rewrite E|]. now rewrite (IH s H E).
Qed.

Lemma find_put_back_out q i : forall Z C fx, find_sec i Z = Some fx -> q fx = false -> Forall2 attrs_eq (filter q Z) C ->
  find_sec i (put_back_p q C Z) = Some fx.
Proof.
  unfold find_sec. induction Z as [|s r IH]; intros C fx H Q F; [discriminate|]. cbn [find] in H. cbn [filter] in F. cbn [put_back_p].
  destruct (Nat.eqb (sid s) i) eqn:E.
  - injection H as ->. rewrite Q in *. cbn [find]. now rewrite E.
  - destruct (q s).
    + inversion F as [|? c ? C' Hc Fr]; subst. cbn [find]. rewrite (attrs_sid _ _ Hc), E. now apply IH.
    + cbn [find]. rewrite E. now apply IH.
Qed.

Lemma store_ledger_same J q Z C : fx_outside J Z q = true -> Forall2 attrs_eq (filter q Z) C ->
  store_ledger J (ledger_of J Z) (put_back_p q C Z) = Ok (put_back_p q C Z).
Proof.
  unfold fx_outside, store_ledger, ledger_of. destruct (j_ext J) as [e|]; [|reflexivity].
  destruct (find_sec (e_fx e) Z) as [fx|] eqn:F; [|reflexivity]. intros G FA. apply andb_true_iff in G as [G1 G2].
  apply negb_true_iff in G1. apply (upd_same _ _ _ fx); [now apply find_put_back_out|]. now rewrite fold_store_same.
Qed.

(* ------------------------------------------------------------------ *)
(** * The step of the multi-currency model is the single-currency step on the caller's zone *)

Definition lift (q : sector -> bool) (Z : zone) (ic : list (nat * string * string)) (r : result gstate) : result gstate2 :=
  do G <- r ;; Ok (mkG2 (put_back_p q (g_zone G) Z) (g_flows G) ic).

Definition local_call (J : ginfo2) (Z : zone) (i : nat) (self : sector) (c : cls) : Prop :=
  match c with
  | CMarket => supplier_currencies J Z (cur_of_sec J self) (supplier_ids J i) = [] /\
               fx_outside J Z (inzone J (cur_of_sec J self)) = true /\
               market_plan (to_old J) (filter (inzone J (cur_of_sec J self)) Z) i <> Err OutOfFuel
  | _ => True
  end.

Lemma firm_country_zone J self s : in_country (country self) s = true -> inzone J (cur_of_sec J self) s = true.
Proof. apply in_country_zone. reflexivity. Qed.

Lemma supplier_ids_eq J i : forall res others, sup_of i (j_sup J) = (res, others) ->
  supplier_ids J i = map fst others ++ match res with Some r => [r] | None => [] end.
Proof. intros res others E. unfold supplier_ids. now rewrite E. Qed.

Theorem gen_step2_lift J Z fl ic i self c : NoDup (map sid Z) -> find_sec i Z = Some self -> local_call J Z i self c ->
  gen_step2 J (mkG2 Z fl ic) (i, COld c) =
  lift (inzone J (cur_of_sec J self)) Z ic (gen_step (to_old J) (mkG (filter (inzone J (cur_of_sec J self)) Z) fl) (i, c)).
Proof.
  intros ND F LC. set (q := inzone J (cur_of_sec J self)).
  assert (Fq : find_sec i (filter q Z) = Some self) by (apply find_sec_filter; [exact F|apply inzone_self]).
  assert (Qs : q self = true) by apply inzone_self.
  unfold gen_step2, gen_step, lift. cbn [h_zone h_flows h_ic g_zone g_flows]. rewrite F, Fq.
  destruct c as [| |t|ai af g l|ai af g l|ai af g|mz wage margin lab out|mz wage lab ms|rate paid_to| |issuer|issuer]; cbn [bind g_zone g_flows].
  - now rewrite put_back_filter_id.
  - now rewrite put_back_filter_id.
  - now rewrite put_back_filter_id.
  - rewrite (upd_part q i _ Z self F Qs). destruct (upd i _ (filter q Z)); reflexivity.
  - rewrite (upd_part q i _ Z self F Qs). destruct (upd i _ (filter q Z)); reflexivity.
  - rewrite (upd_part q i _ Z self F Qs). destruct (upd i _ (filter q Z)); reflexivity.
  - (* CBusiness *)
    rewrite (filter_filter_imp (in_country (country self)) q Z (firm_country_zone J self)).
    destruct (find (fun s => String.eqb (code s) out) (filter (in_country (country self)) Z)) as [mk|]; [|reflexivity].
    destruct (has_var mk ("SUP_" ++ out)); [|reflexivity].
    unfold on_part. rewrite biz_ids_to_old.
    destruct (firm_generate _ _ (filter (in_country (country self)) Z)) as [C1|]; cbn [bind]; [|reflexivity].
    rewrite put_back_eq. fold q. cbn [g_zone g_flows]. now rewrite (put_back_p_nest (in_country (country self)) q (firm_country_zone J self)).
  - (* CBusinessMulti *)
    rewrite (upd_part q i _ Z self F Qs). destruct (upd i _ (filter q Z)) as [C1|] eqn:U; cbn [bind]; [|reflexivity].
    assert (LC1 : List.length C1 = List.length (filter q Z)).
    { clear -U. revert C1 U. generalize (filter q Z). induction l as [|x r IH]; intros C1 U; cbn [upd] in U; [discriminate|].
      destruct (Nat.eqb (sid x) i).
      - destruct (apply_resets _ x); [|discriminate]. injection U as <-. reflexivity.
      - destruct (upd i _ r) as [r'|] eqn:E; [|discriminate]. injection U as <-. cbn [List.length]. f_equal. now apply IH. }
    rewrite (filter_put_back_len (in_country (country self)) q (firm_country_zone J self) Z C1 LC1).
    destruct (existsb _ _); reflexivity.
  - (* CTaxFlow *) unfold on_part. change (in_zone (j_countries J) (cur_of_sec J self)) with q. destruct (tax_generate i rate paid_to (filter q Z)); reflexivity.
  - (* CMarket *)
    destruct LC as (LC1 & LC2 & LC3). unfold market_step. cbn [to_old i_sup].
    destruct (sup_of i (j_sup J)) as [res others] eqn:ES.
    rewrite <- (supplier_ids_eq J i res others ES), LC1.
    change (in_zone (j_countries J) (cur_of_sec J self)) with q.
    rewrite market_generate_home_gen. change (mkWorld (filter q Z) [] None []) with (lworld (filter q Z)).
    pose proof (market_reform (to_old J) (filter q Z) i (nodup_filter_sid q Z ND) LC3) as MR. cbn [to_old i_sup] in MR. rewrite ES in MR.
    change (mkWorld (filter q Z) [] None []) with (lworld (filter q Z)) in MR.
    destruct (market_generate HCUR ACUR (lworld (filter q Z)) i res others) as [W|]; cbn [bind home fxl]; [|reflexivity].
    cbn [bind] in MR. destruct (market_plan _ _ _) as [g|]; cbn [bind] in MR; [|contradiction].
    destruct (apply_lops g (filter q Z)) as [T|] eqn:AT; [|contradiction]. cbn in MR.
    rewrite store_ledger_same; [reflexivity|exact LC2|].
    pose proof (apply_lops_zattrs _ _ _ AT) as ZA. clear -MR ZA.
    revert ZA MR. generalize (filter q Z). generalize (home W). clear W. intros HW Zq ZA MR. revert Zq ZA.
    induction MR as [|w t HW T [A _] _ IH]; intros Zq ZA; inversion ZA; subst; constructor.
    + eapply attrs_eq_trans; [eassumption|now apply attrs_eq_sym].
    + now apply IH.
  - unfold on_part. change (in_zone (j_countries J) (cur_of_sec J self)) with q. destruct (money_generate_checked (code self) issuer i (filter q Z)); reflexivity.
  - unfold on_part. change (in_zone (j_countries J) (cur_of_sec J self)) with q. destruct (deposit_generate_checked (code self) issuer i (filter q Z)); reflexivity.
Qed.

(* ------------------------------------------------------------------ *)
(** * ... hence sector-wise *)

Lemma new_flows_old i c : new_flows2 (i, COld c) = new_flows (i, c).
Proof. destruct c; reflexivity. Qed.

Lemma zone_ext_F2 A B : zone_ext A B -> Forall2 sec_ext A B.
Proof. exact (fun H => H). Qed.

Theorem reform2_local J Z fl ic i self c : NoDup (map sid Z) -> find_sec i Z = Some self -> local_call J Z i self c ->
  gres_ext2 (gen_step2 J (mkG2 Z fl ic) (i, COld c))
            (do f <- local_plan J Z self (i, c) ;;
             do Z' <- apply_lops f Z ;;
             Ok (mkG2 Z' (fl ++ new_flows2 (i, COld c)) (ic ++ new_ic2 (i, COld c)))).
Proof.
  intros ND F LC. rewrite (gen_step2_lift J Z fl ic i self c ND F LC).
  set (q := inzone J (cur_of_sec J self)).
  assert (HM : snd (i, c) = CMarket -> market_plan (to_old J) (g_zone (mkG (filter q Z) fl)) (fst (i, c)) <> Err OutOfFuel).
  { cbn [fst snd g_zone]. intros ->. exact (proj2 (proj2 LC)). }
  pose proof (reform (to_old J) (mkG (filter q Z) fl) (i, c) (nodup_filter_sid q Z ND) HM) as RF.
  unfold pstep in RF. cbn [g_zone g_flows] in RF. unfold local_plan. fold q. unfold lift.
  rewrite new_flows_old. cbn [new_ic2 snd]. rewrite app_nil_r.
  destruct (plan (to_old J) (filter q Z) (i, c)) as [g|]; cbn [bind] in *.
  - rewrite apply_lops_part. destruct (apply_lops g (filter q Z)) as [T|]; cbn [bind] in *.
    + destruct (gen_step (to_old J) (mkG (filter q Z) fl) (i, c)) as [G|]; [|contradiction]. cbn [bind].
      destruct RF as [RZ RFl]. cbn [g_zone g_flows] in RZ, RFl. split; [|split; [cbn [h_flows]; now rewrite RFl|reflexivity]].
      cbn [h_zone]. apply put_back_p_ext. exact RZ.
    + destruct (gen_step (to_old J) (mkG (filter q Z) fl) (i, c)); [contradiction|exact Logic.I].
  - destruct (gen_step (to_old J) (mkG (filter q Z) fl) (i, c)); [contradiction|exact Logic.I].
Qed.
