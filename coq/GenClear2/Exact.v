(** What Market._GenerateEquations books on each sector, exactly (group level, for ALL worlds):
    the F equation of a sector of the market's zone is extended (Equation.AddTerm, in this order) by
    - its own demand variable if it is a demander, then + its own supply variable if it is a supplier
      (registered once); a supplier in the other zone gets + allocation * cross rate; every other
    sector of either zone is returned unchanged.  ([Ledger.market_zstep] only gives the kinds.) *)
From Coq Require Import List String Bool ZArith Arith Lia.
From SFC.Base Require Import Res Str.
From SFC.Gen Require Import Fx Zone.
From SFC.GenMarket Require Import Market MarketProofs.
From SFC.GenTax Require Import Tax TaxProofs.
From SFC.GenMain2 Require Import Program Classes Main Ledger Ledger2.
From SFC.GenClear2 Require Import Side2.
Import ListNotations.
Local Open Scope string_scope.

Definition dem_booked (mk s : sector) : list term :=
  if demander mk s then [((-1)%Z, [Market.dem_name mk s])] else [].

Lemma dem_step_exact mk s s' t : dem_step mk s = Ok (s', t) -> lstep s s' (dem_booked mk s).
Proof.
  unfold dem_step, dem_booked, demander. destruct (Nat.eqb (sid s) (sid mk)); simpl.
  - intros H. injection H as <- _. apply lstep_refl.
  - destruct (has_var s (Market.dem_name mk s)).
    + destruct (add_cash_flow s _ (Some "") true) as [s1|] eqn:E; [|discriminate].
      intros H. injection H as <- _. destruct (dem_name_dem mk s) as [r Hr].
      eapply lstep_acf; [| |exact E]; rewrite Hr; [apply dem_not_F|apply dem_not_INC].
    + intros H. injection H as <- _. apply lstep_refl.
Qed.

Lemma mem_nat_In j l : mem_nat j l = true <-> List.In j l.
Proof.
  unfold mem_nat. rewrite existsb_exists. split.
  - intros (x & Hx & E). apply Nat.eqb_eq in E. now subst.
  - intros H. exists j. split; [exact H|apply Nat.eqb_refl].
Qed.

Lemma static_frame s s' : frame s s' -> static s' = static s.
Proof. intros H. rewrite H. reflexivity. Qed.

Section Cash.
Variables (h a : string).

(** a sector of the market's zone other than the market *)
Lemma mg_cash_home W m residual others W' mk r : generated h a W m residual others W' mk r ->
  NoDup (map fst others ++ [r]) ->
  forall j s, j <> m -> find_sec j (home W) = Some s ->
  exists s', find_sec j (home W') = Some s' /\
    lstep s s' (dem_booked mk s ++ (if mem_nat j (map fst others ++ [r]) then [(1%Z, [supply_name mk s])] else []))%list /\
    (mem_nat j (map fst others ++ [r]) = false -> demander mk s = false -> s' = s).
Proof.
  intros [Run Fm Res NM] ND j s Hjm Fs.
  apply mg_unfold in Run as (mk0 & r0 & H1 & mk1 & H0 & fcs & Fm0 & Res0 & GD & Fm1 & U & RF & Fold).
  rewrite Fm in Fm0. injection Fm0 as <-. rewrite Res in Res0. injection Res0 as <-.
  apply generate_demand_spec in GD as (mk0 & md & Fm0 & Fmd & Std & _ & _ & HJ & _ & StH1).
  rewrite Fm in Fm0. injection Fm0 as <-. rewrite Fm1 in Fmd. injection Fmd as <-.
  destruct (names_static _ _ Std) as (N1 & N2 & N3 & N4 & N5 & N6 & N7).
  pose proof (find_sec_sid _ _ _ Fm) as Hsid.
  assert (P : forall x x', (fun s => opt_key (set_rhs_terms s (sup_short mk1) [(1%Z, [dem_short mk1])])) x = Ok x' ->
              static x' = static x).
  { intros x x' E. destruct (set_rhs_terms x (sup_short mk1) _) as [y|] eqn:Ex; [|discriminate]. injection E as <-.
    apply set_rhs_terms_spec in Ex. subst y. reflexivity. }
  apply upd_spec in U as (_ & _ & _ & _ & _ & A4 & _); [|intros x x' E; apply static_sid, P, E].
  assert (NM1 : not_market mk1 (sup_list mk1 others r fcs)) by (apply (not_market_list mk1 m); [congruence|exact NM]).
  assert (ND1 : NoDup (map fst (sup_list mk1 others r fcs))) by (rewrite sup_list_ids; exact ND).
  specialize (HJ j Hjm). rewrite Fs in HJ. destruct (find_sec j H1) as [s1|] eqn:F1; [|contradiction].
  destruct HJ as [t Ds]. pose proof (dem_step_exact _ _ _ _ Ds) as L1.
  pose proof (dem_step_spec _ _ _ _ Ds) as (St1 & _).
  assert (Hjm1 : j <> sid mk1) by congruence.
  destruct (mem_nat j (map fst others ++ [r])) eqn:MJ.
  - apply mem_nat_In in MJ.
    assert (Hin : exists e, List.In (j, e) (sup_list mk1 others r fcs)).
    { rewrite <- (sup_list_ids mk1 others r fcs) in MJ. apply in_map_iff in MJ as ([j' e] & E & Hin).
      simpl in E. subst j'. eauto. }
    destruct Hin as [e Hin].
    assert (R0 : resolve (with_home W H0) j = Ok (true, s1)).
    { unfold resolve. simpl home. now rewrite (A4 j Hjm), F1. }
    pose proof (fold_supplier h a mk1 j e _ _ _ Fold NM1 ND1 Hin _ _ R0) as (s' & F' & SL). cbn beta iota in *.
    exists s'. split; [exact F'|]. split; [|discriminate].
    eapply lstep_trans; [exact L1|].
    apply supplier_local_lstep in SL. rewrite N4 in SL.
    assert (SN : supply_name mk s1 = supply_name mk s).
    { unfold supply_name, share_parent. now rewrite (static_country _ _ St1). }
    now rewrite SN in SL.
  - assert (NI : ~ List.In j (map fst (sup_list mk1 others r fcs))).
    { rewrite sup_list_ids. intros Hin. apply mem_nat_In in Hin. congruence. }
    destruct (fold_others h a mk1 j _ _ _ Fold NM1 NI Hjm1) as [X1 _]. simpl home in X1.
    exists s1. split; [rewrite X1, (A4 j Hjm); exact F1|]. split; [now rewrite app_nil_r|].
    intros _ Dm. eapply dem_step_non; eassumption.
Qed.

(** a sector of the other zone *)
Lemma mg_cash_abroad W m residual others W' mk r : generated h a W m residual others W' mk r ->
  NoDup (map fst others ++ [r]) ->
  forall j s, find_sec j (home W) = None -> find_sec j (abroad W) = Some s ->
  exists s', find_sec j (abroad W') = Some s' /\
    lstep s s' (if mem_nat j (map fst others ++ [r]) then [credited h a (full_name mk (alloc_name s))] else []) /\
    (mem_nat j (map fst others ++ [r]) = false -> s' = s).
Proof.
  intros [Run Fm Res NM] ND j s Fh Fa.
  assert (Hjm : j <> m) by (intros ->; congruence).
  apply mg_unfold in Run as (mk0 & r0 & H1 & mk1 & H0 & fcs & Fm0 & Res0 & GD & Fm1 & U & RF & Fold).
  rewrite Fm in Fm0. injection Fm0 as <-. rewrite Res in Res0. injection Res0 as <-.
  apply generate_demand_spec in GD as (mk0 & md & Fm0 & Fmd & Std & _ & _ & HJ & _ & StH1).
  rewrite Fm in Fm0. injection Fm0 as <-. rewrite Fm1 in Fmd. injection Fmd as <-.
  destruct (names_static _ _ Std) as (N1 & N2 & N3 & N4 & N5 & N6 & N7).
  pose proof (find_sec_sid _ _ _ Fm) as Hsid.
  assert (P : forall x x', (fun s => opt_key (set_rhs_terms s (sup_short mk1) [(1%Z, [dem_short mk1])])) x = Ok x' ->
              static x' = static x).
  { intros x x' E. destruct (set_rhs_terms x (sup_short mk1) _) as [y|] eqn:Ex; [|discriminate]. injection E as <-.
    apply set_rhs_terms_spec in Ex. subst y. reflexivity. }
  apply upd_spec in U as (_ & _ & _ & _ & _ & A4 & _); [|intros x x' E; apply static_sid, P, E].
  assert (NM1 : not_market mk1 (sup_list mk1 others r fcs)) by (apply (not_market_list mk1 m); [congruence|exact NM]).
  assert (ND1 : NoDup (map fst (sup_list mk1 others r fcs))) by (rewrite sup_list_ids; exact ND).
  specialize (HJ j Hjm). rewrite Fh in HJ. destruct (find_sec j H1) as [s1|] eqn:F1; [contradiction|].
  assert (Hjm1 : j <> sid mk1) by congruence.
  destruct (mem_nat j (map fst others ++ [r])) eqn:MJ.
  - apply mem_nat_In in MJ.
    assert (Hin : exists e, List.In (j, e) (sup_list mk1 others r fcs)).
    { rewrite <- (sup_list_ids mk1 others r fcs) in MJ. apply in_map_iff in MJ as ([j' e] & E & Hin).
      simpl in E. subst j'. eauto. }
    destruct Hin as [e Hin].
    assert (R0 : resolve (with_home W H0) j = Ok (false, s)).
    { unfold resolve. simpl home. simpl abroad. now rewrite (A4 j Hjm), F1, Fa. }
    pose proof (fold_supplier h a mk1 j e _ _ _ Fold NM1 ND1 Hin _ _ R0) as (s' & F' & SL). cbn beta iota in *.
    exists s'. split; [exact F'|]. split; [|discriminate].
    apply supplier_foreign_lstep in SL. now rewrite N6 in SL.
  - assert (NI : ~ List.In j (map fst (sup_list mk1 others r fcs))).
    { rewrite sup_list_ids. intros Hin. apply mem_nat_In in Hin. congruence. }
    destruct (fold_others h a mk1 j _ _ _ Fold NM1 NI Hjm1) as [_ X2]. simpl abroad in X2.
    exists s. split; [rewrite X2; exact Fa|]. split; [apply lstep_refl|reflexivity].
Qed.

End Cash.
