(** GenClear2: C04 (markets clear, per currency zone) and the third sentence of C18 for the Gallina model
    [Main2.build_run2] of the whole generator pipeline on MULTI-CURRENCY programs (coq/GenMain2, tied to
    the Python on every run by the whole-program correspondence of harness/gen_main2.py), plus the
    portfolio clause of C04 for single- and multi-currency programs.
    Every theorem quantifies over ALL programs of the language of Program2.v.  Reading guide:
      [build_run2 p = Ok Rn]  the model of Model.main() succeeds; [q_gen Rn] is the trace of the
                              _GenerateEquations calls: ((sector ID, class), state before, state after);
                              [q_final Rn] the final system, [q_info Rn] classes / AddSupplier registrations /
                              (country, currency) list / ExternalSector;
      [sat E v vprev bv]      [v] (current period), [vprev] (previous) and [bv] (opaque expressions) satisfy
                              every row of [E]: all parameters, all periods;
      [zone_of J Z x]         the sectors of the currency zone of sector [x], in Model.GetSectors() order;
      [mkt_demanders J Z mk]  the sectors of the market's zone, other than the market, that own DEM_<code>
                              (same country) resp. DEM_<market full code> (another country of the zone);
      [no_conflict2 p]        the decidable side condition of coq/GenMain2/Conflict2.v (markets supplied from
                              two or more OTHER zones are outside it);
      [no_conflict2b p]       the part of [no_conflict2] these theorems need (its per-step checks of the
                              _GenerateEquations calls), extended to markets supplied from two or more other zones
                              (Side2.multi_market_ok: the group model re-run once per supplier currency and compared
                              with the real step on the market's zone and on that currency's zone; evaluated, not
                              proved); [Main2_no_conflict2_implies_b]: no_conflict2 p = true implies no_conflict2b p = true;
      [no_conflict2c p]       [no_conflict2b] and: every foreign supplier's supply variable was empty when the
                              market ran and its definition is kept as an endogenous row;
      [portfolio_ok2 p]       every GenerateAssetWeighting call's definitions are the ones the final system holds. *)
From Coq Require Import List String Bool ZArith Arith Reals.
From SFC.Base Require Import Res Str.
From SFC.Gen Require Import Fx Zone.
From SFC.GenMarket Require Import Market MarketProofs.
From SFC.GenAsset Require Import Common CommonProofs Money MoneyProofs Deposit Weighting.
From SFC.GenTax Require Import Tax TaxProofs.
From SFC.GenMain2 Require Import Program Classes Main Ledger Conflict Witness Program2 Main2 Conflict2 Witness2.
From SFC.GenClear2 Require Import Side2 Exact Clear2 Portfolio Witness3.
Import ListNotations.
Local Open Scope string_scope.

(* ------------------------------------------------------------------ *)
(** * 0. The side condition of the C01 / C07 theorems is enough *)

Theorem Main2_no_conflict2_implies_b : forall p, no_conflict2 p = true -> no_conflict2b p = true.
Proof. exact no_conflict2_b. Qed.
Print Assumptions Main2_no_conflict2_implies_b.

(* ------------------------------------------------------------------ *)
(** * 1. Goods and labour markets *)

(** total supply = total demand = the sum of the demand variables of exactly the sectors of the market's
    CURRENCY ZONE that own one (no sector of another zone is counted); the amounts allocated to the
    suppliers (AddSupplier list in order, then the residual supplier given or found by _SearchSupplier in
    the zone) add up to total supply *)
Theorem Main2_markets_clear : forall p Rn, build_run2 p = Ok Rn -> no_conflict2b p = true ->
  forall (v vprev : string -> R) (bv : string -> string -> R), sat (q_final Rn) v vprev bv ->
  forall i st st' mk, List.In ((i, COld CMarket), st, st') (q_gen Rn) -> find_sec i (h_zone st) = Some mk ->
    let J := q_info Rn in
    let Z := h_zone st in
    v (full_name mk (sup_short mk)) = v (full_name mk (dem_short mk)) /\
    v (full_name mk (dem_short mk)) = zsum (fun d => v (full_name d (Market.dem_name mk d))) (mkt_demanders J Z mk) /\
    exists r osecs rs,
      the_residual (zone_of J Z mk) mk (fst (sup_of i (j_sup J))) = Ok r /\
      Forall2 (fun j s => find_sec j Z = Some s) (map fst (snd (sup_of i (j_sup J)))) osecs /\
      find_sec r Z = Some rs /\
      zsum (fun s => v (full_name mk (alloc_name s))) (osecs ++ [rs])%list = v (full_name mk (sup_short mk)).
Proof. exact main2_goods_markets_clear. Qed.
Print Assumptions Main2_markets_clear.

(** each supplier's own supply variable (SUP_<code> in the market's country, SUP_<country>_<code> elsewhere)
    equals the amount the market assigns to it; for a supplier in another currency zone that amount times
    the cross rate  EXT_XR__<market currency>_<supplier currency>  ([sup_factor]) *)
Theorem Main2_supplier_amounts : forall p Rn, build_run2 p = Ok Rn -> no_conflict2c p = true ->
  forall (v vprev : string -> R) (bv : string -> string -> R), bv_zero bv -> sat (q_final Rn) v vprev bv ->
  forall i st st' mk, List.In ((i, COld CMarket), st, st') (q_gen Rn) -> find_sec i (h_zone st) = Some mk ->
    let J := q_info Rn in
    let Z := h_zone st in
    forall r, the_residual (zone_of J Z mk) mk (fst (sup_of i (j_sup J))) = Ok r ->
    forall j s, List.In j (sup_ids J i r) -> find_sec j Z = Some s ->
      v (full_name s (supply_name mk s)) =
        (v (full_name mk (alloc_name s)) *
         (if in_zone (j_countries J) (cur_of_sec J mk) s then 1 else v (cross_name (cur_of_sec J mk) (cur_of_sec J s))))%R.
Proof. exact main2_supplier_amounts. Qed.
Print Assumptions Main2_supplier_amounts.

(** the cash flows the market's step books: for every sector other than the market (in the market's zone, or
    outside the FX intermediary's own zone) the F equation is extended, by Equation.AddTerm in this order,
    with exactly [booked]: - its own demand variable (a demander of the zone), + its own supply variable
    (a supplier of the zone), + allocation variable * cross rate (a declared supplier of another zone);
    INC gets a sub-list; and a sector outside the zone that is not a declared supplier is left as it was *)
Theorem Main2_market_cash_flows : forall p Rn, build_run2 p = Ok Rn -> no_conflict2b p = true ->
  forall i st st' mk, List.In ((i, COld CMarket), st, st') (q_gen Rn) -> find_sec i (h_zone st) = Some mk ->
    let J := q_info Rn in
    let Z := h_zone st in
    let inh := in_zone (j_countries J) (cur_of_sec J mk) in
    exists r, the_residual (zone_of J Z mk) mk (fst (sup_of i (j_sup J))) = Ok r /\
      forall j s, j <> i -> find_sec j Z = Some s -> inh s = true \/ in_zone (j_countries J) NUM s = false ->
        exists s', find_sec j (h_zone st') = Some s' /\ lstep s s' (booked J mk (sup_ids J i r) s) /\
          (inh s = false -> mem_nat j (sup_ids J i r) = false -> s' = s).
Proof. exact main2_market_cash_flows. Qed.
Print Assumptions Main2_market_cash_flows.

(* ------------------------------------------------------------------ *)
(** * 2. Money and deposit markets, per currency zone *)

Theorem Main2_money_markets_clear : forall p Rn, build_run2 p = Ok Rn -> no_conflict2b p = true ->
  forall (v vprev : string -> R) (bv : string -> string -> R), sat (q_final Rn) v vprev bv ->
  forall i issuer st st' self, List.In ((i, COld (CMoneyMarket issuer)), st, st') (q_gen Rn) ->
    find_sec i (h_zone st) = Some self ->
    let c := code self in
    let ZZ := zone_of (q_info Rn) (h_zone st) self in
    exists m, market_at i ZZ = Some m /\
      v (fullname m (Common.dem_name c)) =
        CommonProofs.sumR (fun h => v (fullname h (Common.dem_name c))) (filter (money_holder issuer) ZZ) /\
      (forall s, List.In s ZZ -> money_issuer issuer s = true ->
         v (fullname s (Common.sup_name c)) = v (fullname m (Common.dem_name c))) /\
      v (fullname m (Common.sup_name c)) = v (fullname m (Common.dem_name c)).
Proof. exact main2_money_markets_clear. Qed.
Print Assumptions Main2_money_markets_clear.

Theorem Main2_deposit_markets_clear : forall p Rn, build_run2 p = Ok Rn -> no_conflict2b p = true ->
  forall (v vprev : string -> R) (bv : string -> string -> R), sat (q_final Rn) v vprev bv ->
  forall i issuer st st' self, List.In ((i, COld (CDepositMarket issuer)), st, st') (q_gen Rn) ->
    find_sec i (h_zone st) = Some self ->
    let c := code self in
    let ZZ := zone_of (q_info Rn) (h_zone st) self in
    exists m, market_at i ZZ = Some m /\
      v (fullname m (Common.dem_name c)) =
        CommonProofs.sumR (fun h => v (fullname h (Common.dem_name c))) (filter (dep_holder c issuer) ZZ) /\
      (forall s, List.In s ZZ -> dep_issuer issuer s = true ->
         v (fullname s (Common.sup_name c)) = v (fullname m (Common.dem_name c))) /\
      v (fullname m (Common.sup_name c)) = v (fullname m (Common.dem_name c)).
Proof. exact main2_deposit_markets_clear. Qed.
Print Assumptions Main2_deposit_markets_clear.

(* ------------------------------------------------------------------ *)
(** * 3. Portfolios: the asset demands add up to the financial assets *)

(** [asset_demands v sf ws res] = sum over the weighted asset codes (keys of the dict the call builds)
    and the residual asset of v(DEM_<asset>) of sector [sf] *)
Theorem Main2_portfolio_adds_up : forall p Rn, build_run2 p = Ok Rn -> portfolio_ok2 p = true ->
  forall (v vprev : string -> R) (bv : string -> string -> R), sat (q_final Rn) v vprev bv ->
  forall s ws res, List.In (S2Op (UOld (OAssetWeighting s ws res))) p ->
  exists sf, find_sec s (fs_zone (q_final Rn)) = Some sf /\ asset_demands v sf ws res = v (fullname sf "F").
Proof. exact main2_portfolio_adds_up. Qed.
Print Assumptions Main2_portfolio_adds_up.

Theorem Main_portfolio_adds_up : forall p Rn, build_run p = Ok Rn -> portfolio_ok p = true ->
  forall (v vprev : string -> R) (bv : string -> string -> R), sat (r_final Rn) v vprev bv ->
  forall s ws res, List.In (StOp (OAssetWeighting s ws res)) p ->
  exists sf, find_sec s (fs_zone (r_final Rn)) = Some sf /\ asset_demands v sf ws res = v (fullname sf "F").
Proof. exact main_portfolio_adds_up. Qed.
Print Assumptions Main_portfolio_adds_up.

(* ------------------------------------------------------------------ *)
(** * 4. C18, third sentence, for markets *)

(** the demanders a market aggregates are exactly the sectors of ITS zone owning the demand variable, and a
    sector of another zone (the FX intermediary's own zone apart) comes out of the market's step as it went
    in unless it was explicitly declared a supplier *)
Theorem Main2_market_zone_isolation : forall p Rn, build_run2 p = Ok Rn -> no_conflict2b p = true ->
  forall i st st' mk, List.In ((i, COld CMarket), st, st') (q_gen Rn) -> find_sec i (h_zone st) = Some mk ->
    let J := q_info Rn in
    let Z := h_zone st in
    let inh := in_zone (j_countries J) (cur_of_sec J mk) in
    (forall d, List.In d (mkt_demanders J Z mk) -> List.In d Z /\ inh d = true /\ has_var d (Market.dem_name mk d) = true) /\
    (forall d, List.In d Z -> inh d = true -> sid d <> sid mk -> has_var d (Market.dem_name mk d) = true ->
               List.In d (mkt_demanders J Z mk)) /\
    exists r, the_residual (zone_of J Z mk) mk (fst (sup_of i (j_sup J))) = Ok r /\
      forall j s, find_sec j Z = Some s -> inh s = false -> in_zone (j_countries J) NUM s = false ->
        ~ List.In j (sup_ids J i r) -> find_sec j (h_zone st') = Some s.
Proof. exact main2_market_zone_isolation. Qed.
Print Assumptions Main2_market_zone_isolation.

(* ------------------------------------------------------------------ *)
(** * Non-vacuity *)

Example Clear2_example_OPEN : is_ok (build2 p_OPEN) = true /\ no_conflict2c p_OPEN = true.
Proof. exact OPEN_clear. Qed.
Print Assumptions Clear2_example_OPEN.

Example Clear2_example_GOLD : is_ok (build2 p_GOLD) = true /\ no_conflict2c p_GOLD = true.
Proof. exact GOLD_clear. Qed.
Print Assumptions Clear2_example_GOLD.

(** CA's goods market supplied from two other zones (US and JP): outside [no_conflict2], inside [no_conflict2b] *)
Example Clear2_example_THREE : is_ok (build2 p_THREE) = true /\ no_conflict2 p_THREE = false /\
  no_conflict2b p_THREE = true /\ no_conflict2c p_THREE = true.
Proof. exact THREE_clear. Qed.
Print Assumptions Clear2_example_THREE.

Example Clear2_example_SIM_embedded : is_ok (build2 (map embed_step p_SIM)) = true /\ no_conflict2c (map embed_step p_SIM) = true.
Proof. exact SIM_clear. Qed.
Print Assumptions Clear2_example_SIM_embedded.

Example Clear2_example_PC_portfolio :
  no_conflict2c (map embed_step p_PC) = true /\ portfolio_ok2 (map embed_step p_PC) = true /\ portfolio_ok p_PC = true.
Proof. exact PC_portfolio. Qed.
Print Assumptions Clear2_example_PC_portfolio.

(** the membership lists of the open economy: US_HH and US_GOV own DEM_GOOD but are not summed by CA_GOOD *)
Example Clear2_example_OPEN_members : market_members p_OPEN =
  [ mkMembers "CA_LAB" ["CA_BUS__DEM_LAB"] [("CA_HH", true)];
    mkMembers "CA_GOOD" ["CA_GOV__DEM_GOOD"; "CA_HH__DEM_GOOD"] [("US_BUS", false); ("CA_BUS", true)];
    mkMembers "US_LAB" ["US_BUS__DEM_LAB"] [("US_HH", true)];
    mkMembers "US_GOOD" ["US_GOV__DEM_GOOD"; "US_HH__DEM_GOOD"] [("US_BUS", true)] ].
Proof. exact OPEN_members. Qed.
Print Assumptions Clear2_example_OPEN_members.

(** the two-zone miniature with a satisfying valuation: hypotheses of theorems 1 and 2 together *)
Example Clear2_example_mini : build_run2 p_mini = Ok (run_of p_mini) /\ no_conflict2c p_mini = true /\
  sat (q_final (run_of p_mini)) (v_flow 5 5 5) (fun _ => 0%R) bv_mini.
Proof. exact mini_ok. Qed.
Print Assumptions Clear2_example_mini.

(* ------------------------------------------------------------------ *)
(** * The statements are sharp *)

(** summing over every sector of the MODEL that owns the demand variable is wrong: in the miniature US_GOV
    (other zone) owns DEM_CA_GOOD = 3, the market's total demand is 5, not 8 *)
Theorem Main2_markets_clear_all_zones_refuted :
  List.In mini_entry (q_gen (run_of p_mini)) /\ fst (fst mini_entry) = (1%nat, COld CMarket) /\
  find_sec 1 mini_Z = Some mini_mk /\
  map fullcode (demanders mini_mk mini_Z) = ["CA_GOV"; "US_GOV"] /\
  map fullcode (mkt_demanders (q_info (run_of p_mini)) mini_Z mini_mk) = ["CA_GOV"] /\
  v_flow 5 5 5 (full_name mini_mk (dem_short mini_mk)) <>
    zsum (fun d => v_flow 5 5 5 (full_name d (Market.dem_name mini_mk d))) (demanders mini_mk mini_Z).
Proof. exact all_zones_reading_refuted. Qed.
Print Assumptions Main2_markets_clear_all_zones_refuted.

(** [no_conflict2b] is needed for theorem 1: total demand made exogenous by the user *)
Theorem Main2_markets_clear_refuted :
  build_run2 p_mini_d = Ok (run_of p_mini_d) /\ no_conflict2b p_mini_d = false /\
  sat (q_final (run_of p_mini_d)) (v_flow 5 7 7) (fun _ => 0%R) bv_mini /\
  v_flow 5 7 7 "CA_GOOD__DEM_GOOD" <> v_flow 5 7 7 "CA_GOV__DEM_GOOD".
Proof. exact markets_clear_refuted. Qed.
Print Assumptions Main2_markets_clear_refuted.

(** the added part of [no_conflict2c] is needed for theorem 2: [no_conflict2] holds, the foreign supplier's
    own supply variable was made exogenous and is 7 while allocation * cross rate is 5 *)
Theorem Main2_supplier_amounts_refuted :
  build_run2 p_mini_x = Ok (run_of p_mini_x) /\ no_conflict2 p_mini_x = true /\ no_conflict2c p_mini_x = false /\
  bv_zero bv_mini /\ sat (q_final (run_of p_mini_x)) (v_flow 5 5 7) (fun _ => 0%R) bv_mini /\
  v_flow 5 5 7 "US_GOV__SUP_CA_GOOD" <> (v_flow 5 5 7 "CA_GOOD__SUP_US_GOV" * v_flow 5 5 7 "EXT_XR__CA_US")%R.
Proof. exact foreign_supplier_amount_refuted. Qed.
Print Assumptions Main2_supplier_amounts_refuted.

(** [portfolio_ok2] is needed: DEM_DEP overwritten after GenerateAssetWeighting, 7 + 6 <> 10 *)
Theorem Main2_portfolio_adds_up_refuted :
  build_run2 p_pf_bad = Ok (run_of p_pf_bad) /\ portfolio_ok2 p_pf_bad = false /\
  sat (q_final (run_of p_pf_bad)) (v_pf 7) vprev_pf bv_pf /\
  (v_pf 7 "HH__DEM_DEP" + (v_pf 7 "HH__DEM_MON" + 0) <> v_pf 7 "HH__F")%R.
Proof. exact portfolio_adds_up_refuted. Qed.
Print Assumptions Main2_portfolio_adds_up_refuted.
