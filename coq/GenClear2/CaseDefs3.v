(** Boolean comparisons used by the generated cases of harness/gen_clear2.py: the membership lists the
    model predicts for every market of a program against the lists the harness reads from the
    implementation's object model. *)
From Coq Require Import List String Bool ZArith Arith.
From SFC.Base Require Import Res Str.
From SFC.Gen Require Import Fx Zone.
From SFC.GenMain2 Require Import Program Classes Main Conflict Program2 Main2 Conflict2.
From SFC.GenClear2 Require Import Side2.
Import ListNotations.
Local Open Scope string_scope.

Fixpoint sups_eqb (a b : list (string * bool)) : bool :=
  match a, b with
  | [], [] => true
  | (x, p) :: a', (y, q) :: b' => String.eqb x y && Bool.eqb p q && sups_eqb a' b'
  | _, _ => false
  end.

Definition members_eqb (m : members) (x : string * list string * list (string * bool)) : bool :=
  String.eqb (mb_market m) (fst (fst x)) && strs_eqb (mb_demand m) (snd (fst x)) && sups_eqb (mb_supply m) (snd x).

(** [exp]: per market in Model.GetSectors() order (full code, demand variables summed, suppliers) *)
Definition members_case (p : program2) (exp : list (string * list string * list (string * bool))) : bool :=
  forallb2 members_eqb (market_members p) exp.

Definition show_members (p : program2) := (market_members p, no_conflict2 p, no_conflict2b p, no_conflict2c p, portfolio_ok2 p).
