(** C04, last clause, at program level: a sector's demands for the financial assets among which
    Sector.GenerateAssetWeighting allocates its wealth add up to its financial assets, for every
    valuation satisfying the final system, provided the definitions the call installed are the ones
    the final system holds ([Side2.weighting_kept], decidable; evaluated on generated programs).
    For single-currency programs ([Main.build_run]) and multi-currency programs ([Main2.build_run2]). *)
From Coq Require Import List String Bool ZArith Arith Lia Reals Lra.
From SFC.Base Require Import Res Str.
From SFC.Gen Require Import Fx Zone.
From SFC.GenMarket Require Import Market MarketProofs.
From SFC.GenAsset Require Import Common CommonProofs Weighting WeightingProofs.
From SFC.GenTax Require Import Tax TaxProofs.
From SFC.GenAsset Require PropAsset.
From SFC.GenMain2 Require Import Program Classes Main Ledger MainProofs Conflict Balance Program2 Main2 Conflict2.
From SFC.GenClear2 Require Import Side2.
Import ListNotations.
Local Open Scope string_scope.
Local Open Scope R_scope.

Definition asset_demands (v : string -> R) (sf : sector) (ws : list (string * string)) (res : string) : R :=
  fold_right (fun c a => v (fullname sf (Common.dem_name c)) + a) 0 (weighted_codes ws ++ [res])%list.

Lemma weighting_kept_adds_up E v vprev bv s ws res : sat E v vprev bv -> weighting_kept (fs_zone E) s ws res = true ->
  exists sf, find_sec s (fs_zone E) = Some sf /\ asset_demands v sf ws res = v (fullname sf "F").
Proof.
  intros HS HK. unfold weighting_kept in HK. destruct (find_sec s (fs_zone E)) as [sf|] eqn:Fs; [|discriminate].
  destruct (asset_weighting sf ws res false) as [sf'|] eqn:AW; [|discriminate].
  apply andb_true_iff in HK as [NR HK]. rewrite forallb_forall in HK.
  exists sf. split; [reflexivity|].
  pose proof (ls_frame _ _ _ (asset_weighting_lstep _ _ _ _ AW)) as Fr.
  assert (HH : forall n, List.In n (weighting_names ws res) -> holds v bv sf' n).
  { intros n Hn. specialize (HK n Hn). apply andb_true_iff in HK as [E1 E2]. apply oeqn_eqb_eq in E1.
    apply (holds_ext v bv sf sf' n (frame_fullcode _ _ Fr) E1).
    apply (sat_holds v vprev bv E sf n HS (find_sec_In _ _ _ Fs) E2). }
  unfold asset_demands. apply (PropAsset.Weighting_adds_up_dict sf ws res sf' AW) with (bv := bv).
  - intros Hin. apply mem_In in Hin. rewrite Hin in NR. discriminate.
  - apply HH. now left.
  - intros c Hc. apply HH. right. now apply in_map.
Qed.

Lemma weighting_ops_In p s ws res : List.In (S2Op (UOld (OAssetWeighting s ws res))) p -> List.In (s, ws, res) (weighting_ops p).
Proof.
  induction p as [|x p IH]; simpl; [auto|]. intros [->|H]; [now left|].
  specialize (IH H). destruct x as [| | |o]; auto. destruct o as [o|]; auto. destruct o; auto. now right.
Qed.

Lemma weighting_ops1_In p s ws res : List.In (StOp (OAssetWeighting s ws res)) p -> List.In (s, ws, res) (weighting_ops1 p).
Proof.
  induction p as [|x p IH]; simpl; [auto|]. intros [->|H]; [now left|].
  specialize (IH H). destruct x as [| |o]; auto. destruct o; auto. now right.
Qed.

Theorem main2_portfolio_adds_up p Rn : build_run2 p = Ok Rn -> portfolio_ok2 p = true ->
  forall (v vprev : string -> R) (bv : string -> string -> R), sat (q_final Rn) v vprev bv ->
  forall s ws res, List.In (S2Op (UOld (OAssetWeighting s ws res))) p ->
  exists sf, find_sec s (fs_zone (q_final Rn)) = Some sf /\ asset_demands v sf ws res = v (fullname sf "F").
Proof.
  intros HR PO v vprev bv HS s ws res Hin. unfold portfolio_ok2 in PO. rewrite HR in PO. rewrite forallb_forall in PO.
  specialize (PO _ (weighting_ops_In _ _ _ _ Hin)). cbn [fst snd] in PO. eapply weighting_kept_adds_up; eassumption.
Qed.

Theorem main_portfolio_adds_up p Rn : build_run p = Ok Rn -> portfolio_ok p = true ->
  forall (v vprev : string -> R) (bv : string -> string -> R), sat (r_final Rn) v vprev bv ->
  forall s ws res, List.In (StOp (OAssetWeighting s ws res)) p ->
  exists sf, find_sec s (fs_zone (r_final Rn)) = Some sf /\ asset_demands v sf ws res = v (fullname sf "F").
Proof.
  intros HR PO v vprev bv HS s ws res Hin. unfold portfolio_ok in PO. rewrite HR in PO. rewrite forallb_forall in PO.
  specialize (PO _ (weighting_ops1_In _ _ _ _ Hin)). cbn [fst snd] in PO. eapply weighting_kept_adds_up; eassumption.
Qed.
