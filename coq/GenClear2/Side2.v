(** Definitions for the multi-currency C04 theorems (market clearing per currency zone):
    the computable readings the theorem statements use (the market's zone, its demanders, the terms a
    market step books on a sector) and the decidable side conditions:

    - [no_conflict2b]: the part of [Conflict2.no_conflict2] the C04 theorems need (the per-step checks
      [gen_ok2] of the _GenerateEquations calls; implied by [no_conflict2]), EXTENDED to markets supplied
      from two or more other currency zones ([multi_market_ok]; such markets make [no_conflict2] false).
      For such a market the check re-runs the single-foreign-zone group model [market_generate hcur a]
      once per supplier currency [a] and compares: the market's zone and the sectors of zone [a] come out
      as in the real step (evaluated, not proved), and the conditions of the group theorems hold;
    - [no_conflict2c]: [no_conflict2b] plus, for every market with suppliers in other currency zones,
      "the supply variable of each foreign supplier was empty (worth zero) when the market ran and the
      definition the market installed in it is still in place, as an endogenous row, in the final
      system" ([Conflict2.foreign_market_ok] checks this for the suppliers of the market's own zone only);
    - [weighting_kept]: the definitions Sector.GenerateAssetWeighting installs (DEM_<asset> = F*WGT_<asset>,
      WGT_<residual> = 1 - sum) are what the final system holds for that sector, as endogenous rows.

    Nothing here is proved; Clear2.v / Portfolio.v are about these definitions, harness/gen_clear2.py
    evaluates them on generated programs and compares [market_members] with the object model. *)
From Coq Require Import List String Bool ZArith Arith.
From SFC.Base Require Import Res Str.
From SFC.Gen Require Import Fx Zone.
From SFC.GenMarket Require Import Market MarketProofs.
From SFC.GenTax Require Import Tax Dividends.
From SFC.GenAsset Require Import Common Money Deposit Weighting.
From SFC.GenMain2 Require Import Program Classes Main Conflict Program2 Main2 Conflict2.
Import ListNotations.
Local Open Scope string_scope.

(* ------------------------------------------------------------------ *)
(** * Readings *)

(** CurrencyZone.GetSectors() of the currency zone of sector [x], in Model.GetSectors() order *)
Definition zone_of (J : ginfo2) (Z : zone) (x : sector) : zone :=
  filter (in_zone (j_countries J) (cur_of_sec J x)) Z.

(** the sectors whose demand a goods / labour market aggregates: those of ITS zone, other than the
    market, that own DEM_<code> (same country) resp. DEM_<market full code> (another country) *)
Definition mkt_demanders (J : ginfo2) (Z : zone) (mk : sector) : list sector := demanders mk (zone_of J Z mk).

Definition mem_nat (j : nat) (l : list nat) : bool := existsb (Nat.eqb j) l.

(** the suppliers of market [i]: the AddSupplier list followed by the residual supplier *)
Definition sup_ids (J : ginfo2) (i r : nat) : list nat := (map fst (snd (sup_of i (j_sup J))) ++ [r])%list.

(** the terms the _GenerateEquations call of market [mk] books on sector [s] (AddCashFlow, in order):
    a demander of the zone pays its own demand variable; a supplier of the zone receives its own
    supply variable; a supplier in another zone receives the market's allocation variable times
    the cross rate; nobody else is touched *)
Definition booked (J : ginfo2) (mk : sector) (ids : list nat) (s : sector) : list term :=
  let hcur := cur_of_sec J mk in
  if in_zone (j_countries J) hcur s then
    ((if demander mk s then [((-1)%Z, [Market.dem_name mk s])] else []) ++
     (if mem_nat (sid s) ids then [(1%Z, [supply_name mk s])] else []))%list
  else if mem_nat (sid s) ids then [credited hcur (cur_of_sec J s) (full_name mk (alloc_name s))] else [].

(* ------------------------------------------------------------------ *)
(** * Markets supplied from two or more other currency zones *)

Definition in_any (J : ginfo2) (cs : list string) (s : sector) : bool :=
  existsb (fun c => in_zone (j_countries J) c s) cs.

(** one supplier currency [a]: the group model with home = the market's zone, abroad = everything else,
    foreign currency [a], recomputed and compared with the real step on the market's zone and on zone [a] *)
Definition multi_one_ok (J : ginfo2) (Zf : zone) (m : nat) (self : sector) (acurs : list string)
           (res : option nat) (others : list (nat * string)) (Z Z' : zone) (a : string) : bool :=
  let hcur := cur_of_sec J self in
  let inh := in_zone (j_countries J) hcur in
  let ina := in_zone (j_countries J) a in
  let W := mkWorld (filter inh Z) (filter (notb inh) Z) (ledger_of J Z) [] in
  match market_generate hcur a W m res others, find_sec m (filter inh Z) with
  | Ok W', Some mk =>
      match the_residual (filter inh Z) mk res with
      | Err _ => false
      | Ok r =>
          let ids := (map fst others ++ [r])%list in
          match find_all Z (map fst others), find_sec r Z with
          | Some osecs, Some rs =>
              zone_eqb (filter inh Z') (home W') && zone_eqb (filter ina Z') (filter ina (abroad W')) &&
              negb (String.eqb hcur a) &&
              forallb (fun i => negb (Nat.eqb i m)) ids && nodupb ids &&
              no_dunder (dem_short mk) && no_dunder (sup_short mk) &&
              forallb (fun s => no_dunder (alloc_name s)) osecs &&
              forallb (fun s => negb (String.eqb (fullcode s) (code mk))) (osecs ++ [rs])%list &&
              forallb (fun s => negb (inh s) ||
                                (no_dunder (supply_name mk s) && zero_eqn (prior_eqn s (supply_name mk s))))
                      (osecs ++ [rs])%list &&
              forallb (fun s => inh s || mem (cur_of_sec J s) acurs) (osecs ++ [rs])%list &&
              kept (market_sel mk ids rs) (home W') (filter inh Zf)
          | _, _ => false
          end
      end
  | _, _ => false
  end.

Definition multi_market_ok (J : ginfo2) (Zf : zone) (m : nat) (self : sector) (acurs : list string)
           (res : option nat) (others : list (nat * string)) (Z Z' : zone) : bool :=
  let inh := in_zone (j_countries J) (cur_of_sec J self) in
  let outq := fun s => inh s || in_any J acurs s || in_zone (j_countries J) NUM s in
  match acurs with [] => false | _ => true end &&
  forallb (multi_one_ok J Zf m self acurs res others Z Z') acurs &&
  zone_eqb (filter (notb outq) Z') (filter (notb outq) Z).

Definition gen_ok2b (J : ginfo2) (Zf : zone) (x : (nat * cls2) * gstate2 * gstate2) : bool :=
  gen_ok2 J Zf x ||
  let '((i, k), st, st') := x in
  let Z := h_zone st in
  match k, find_sec i Z with
  | COld CMarket, Some self =>
      let hcur := cur_of_sec J self in
      let '(res, others) := sup_of i (j_sup J) in
      let ids := (map fst others ++ match res with Some r => [r] | None => [] end)%list in
      match supplier_currencies J Z hcur ids with
      | a :: b :: l => multi_market_ok J Zf i self (a :: b :: l) res others Z (h_zone st')
      | _ => false
      end
  | _, _ => false
  end.

Definition no_conflict2b (p : program2) : bool :=
  match build_run2 p with
  | Ok Rn => forallb (gen_ok2b (q_info Rn) (fs_zone (q_final Rn))) (q_gen Rn)
  | Err _ => false
  end.

(* ------------------------------------------------------------------ *)
(** * The added side condition for foreign suppliers *)

Definition foreign_sel (mk : sector) (ids : list nat) (s : sector) : list string :=
  if mem_nat (sid s) ids then [supply_name mk s] else [].

(** [abroad_of]: what the world's second zone is (the one foreign zone, or everything outside the market's zone) *)
Definition foreign_sup_ok (J : ginfo2) (Zf : zone) (m : nat) (self : sector) (acur : string)
           (abroad_of : sector -> bool) (res : option nat) (others : list (nat * string)) (Z : zone) : bool :=
  let hcur := cur_of_sec J self in
  let inh := in_zone (j_countries J) hcur in
  let ina := in_zone (j_countries J) acur in
  let W := mkWorld (filter inh Z) (filter abroad_of Z) (ledger_of J Z) [] in
  match market_generate hcur acur W m res others, find_sec m (filter inh Z) with
  | Ok W', Some mk =>
      match the_residual (filter inh Z) mk res with
      | Err _ => false
      | Ok r =>
          let ids := (map fst others ++ [r])%list in
          kept (foreign_sel mk ids) (filter ina (abroad W')) (filter ina Zf) &&
          forallb (fun s => negb (mem_nat (sid s) ids) || zero_eqn (prior_eqn s (supply_name mk s))) (filter ina Z)
      end
  | _, _ => false
  end.

Definition clear_gen_ok (J : ginfo2) (Zf : zone) (x : (nat * cls2) * gstate2 * gstate2) : bool :=
  let '((i, k), st, st') := x in
  let Z := h_zone st in
  match k, find_sec i Z with
  | COld CMarket, Some self =>
      let hcur := cur_of_sec J self in
      let '(res, others) := sup_of i (j_sup J) in
      let ids := (map fst others ++ match res with Some r => [r] | None => [] end)%list in
      match supplier_currencies J Z hcur ids with
      | [] => true
      | [acur] => foreign_sup_ok J Zf i self acur (in_zone (j_countries J) acur) res others Z
      | acurs => forallb (fun a => foreign_sup_ok J Zf i self a (notb (in_zone (j_countries J) hcur)) res others Z) acurs
      end
  | _, _ => true
  end.

Definition clear_ok2 (Rn : run2) : bool :=
  forallb (clear_gen_ok (q_info Rn) (fs_zone (q_final Rn))) (q_gen Rn).

Definition no_conflict2c (p : program2) : bool :=
  no_conflict2b p && match build_run2 p with Ok Rn => clear_ok2 Rn | Err _ => false end.

(* ------------------------------------------------------------------ *)
(** * Portfolios *)

(** the variables GenerateAssetWeighting defines and the identity relies on *)
Definition weighting_names (ws : list (string * string)) (res : string) : list string :=
  wgt_name res :: map Common.dem_name (weighted_codes ws ++ [res])%list.

(** sector [s] of the final zone holds exactly the definitions the call installs, as endogenous rows
    (re-running the call on the final sector changes none of them), and the residual asset is not
    one of the weighted ones *)
Definition weighting_kept (Zf : zone) (s : nat) (ws : list (string * string)) (res : string) : bool :=
  match find_sec s Zf with
  | None => false
  | Some sf =>
      match asset_weighting sf ws res false with
      | Err _ => false
      | Ok sf' =>
          negb (mem res (weighted_codes ws)) &&
          forallb (fun n => oeqn_eqb (lookup_var n (vars sf')) (lookup_var n (vars sf)) && is_kdef sf n)
                  (weighting_names ws res)
      end
  end.

Fixpoint weighting_ops (p : program2) : list (nat * list (string * string) * string) :=
  match p with
  | [] => []
  | S2Op (UOld (OAssetWeighting s ws res)) :: r => (s, ws, res) :: weighting_ops r
  | _ :: r => weighting_ops r
  end.

(** every GenerateAssetWeighting call of the program is still in force at the end *)
Definition portfolio_ok2 (p : program2) : bool :=
  match build_run2 p with
  | Ok Rn => forallb (fun x => weighting_kept (fs_zone (q_final Rn)) (fst (fst x)) (snd (fst x)) (snd x)) (weighting_ops p)
  | Err _ => false
  end.

(** the single-currency language *)
Fixpoint weighting_ops1 (p : program) : list (nat * list (string * string) * string) :=
  match p with
  | [] => []
  | StOp (OAssetWeighting s ws res) :: r => (s, ws, res) :: weighting_ops1 r
  | _ :: r => weighting_ops1 r
  end.

Definition portfolio_ok (p : program) : bool :=
  match build_run p with
  | Ok Rn => forallb (fun x => weighting_kept (fs_zone (r_final Rn)) (fst (fst x)) (snd (fst x)) (snd x)) (weighting_ops1 p)
  | Err _ => false
  end.

(* ------------------------------------------------------------------ *)
(** * What the model predicts a market aggregates (compared with the object model by the harness) *)

Record members := mkMembers {
  mb_market : string;                       (* full code of the market *)
  mb_demand : list string;                  (* full names of the demand variables it sums, in order *)
  mb_supply : list (string * bool)          (* suppliers: full code, in the market's zone? (AddSupplier list, then residual) *)
}.

Definition sup_entry (J : ginfo2) (Z : zone) (mk : sector) (j : nat) : list (string * bool) :=
  match find_sec j Z with
  | Some s => [(fullcode s, in_zone (j_countries J) (cur_of_sec J mk) s)]
  | None => []
  end.

Definition entry_members (J : ginfo2) (x : (nat * cls2) * gstate2 * gstate2) : list members :=
  let '((i, k), st, st') := x in
  let Z := h_zone st in
  match find_sec i Z with
  | None => []
  | Some self =>
      match k with
      | COld CMarket =>
          let r := match the_residual (zone_of J Z self) self (fst (sup_of i (j_sup J))) with Ok r => [r] | Err _ => [] end in
          [mkMembers (fullcode self)
                     (map (fun d => full_name d (Market.dem_name self d)) (mkt_demanders J Z self))
                     (flat_map (sup_entry J Z self) (map fst (snd (sup_of i (j_sup J))) ++ r)%list)]
      | COld (CMoneyMarket issuer) =>
          [mkMembers (fullcode self)
                     (map (fun d => fullname d (Common.dem_name (code self))) (filter (money_holder issuer) (zone_of J Z self)))
                     (map (fun s => (fullcode s, true)) (filter (money_issuer issuer) (zone_of J Z self)))]
      | COld (CDepositMarket issuer) =>
          [mkMembers (fullcode self)
                     (map (fun d => fullname d (Common.dem_name (code self))) (filter (dep_holder (code self) issuer) (zone_of J Z self)))
                     (map (fun s => (fullcode s, true)) (filter (dep_issuer issuer) (zone_of J Z self)))]
      | _ => []
      end
  end.

Definition market_members (p : program2) : list members :=
  match build_run2 p with
  | Ok Rn => flat_map (entry_members (q_info Rn)) (q_gen Rn)
  | Err _ => []
  end.
