(** C04 for the multi-currency pipeline model ([Main2.build_run2]): under [no_conflict2b] (implied by
    [no_conflict2]; covers markets supplied from several other zones), every goods / labour, money and
    deposit market clears in every valuation that satisfies the final system, and its total demand is
    the sum of the demand variables of exactly the sectors of ITS currency zone that own one.  The
    suppliers' own supply variables equal the allocations (times the cross rate for a supplier in
    another zone, [no_conflict2c]); the cash flows a market step books are exactly [Side2.booked];
    sectors outside the market's zone that are not declared suppliers are untouched. *)
From Coq Require Import List String Bool ZArith Arith Lia Reals Lra.
From SFC.Base Require Import Res Str Sorting.
From SFC.Gen Require Import Fx Zone.
From SFC.GenMarket Require Import Market MarketProofs.
From SFC.GenAsset Require Import Common CommonProofs Money MoneyProofs Deposit DepositProofs.
From SFC.GenTax Require Import Tax Dividends TaxProofs DividendProofs.
From SFC.GenMarket Require PropMarket.
From SFC.GenAsset Require PropAsset.
From SFC.GenMain2 Require Import Program Classes Main Ledger MainProofs Names Conflict Balance Clear
                                 Program2 Main2 Ledger2 MainProofs2 Names2 Conflict2 Balance2 Zones.
From SFC.GenClear2 Require Import Side2 Exact.
Import ListNotations.
Local Open Scope string_scope.
Local Open Scope list_scope.
Local Open Scope R_scope.

(* ------------------------------------------------------------------ *)
(** * The run *)

Lemma chain_entry {S B} (f : S -> B -> result S) (pz : S -> zone) :
  (forall st b st', f st b = Ok st' -> Forall2 frame (pz st) (pz st')) ->
  forall tr a a', chain f tr a a' -> forall x, List.In x tr ->
    f (snd (fst x)) (fst (fst x)) = Ok (snd x) /\
    Forall2 frame (pz a) (pz (snd (fst x))) /\ Forall2 frame (pz (snd x)) (pz a').
Proof.
  intros Hf tr a a' C. induction C as [a0|b a0 a1 tr a2 E C IH]; intros x Hx; [contradiction|].
  destruct Hx as [<-|Hx]; cbn [fst snd].
  - split; [exact E|]. split; [apply Forall2_refl_frame|]. apply (chain_frames f pz Hf _ _ _ C).
  - destruct (IH x Hx) as (A1 & A2 & A3). split; [exact A1|]. split; [|exact A3].
    eapply Forall2_trans_frame; [eapply Hf; exact E|exact A2].
Qed.

(** what is known about an entry of the generation trace *)
Record entry_facts (Rn : run2) (x : (nat * cls2) * gstate2 * gstate2) : Prop := mkEF {
  ef_step : gen_step2 (q_info Rn) (snd (fst x)) (fst (fst x)) = Ok (snd x);
  ef_nodup : NoDup (map sid (h_zone (snd (fst x))));
  ef_nodup' : NoDup (map sid (h_zone (snd x)));
  ef_frame : Forall2 frame (h_zone (snd (fst x))) (h_zone (snd x));
  ef_final : Forall2 frame (h_zone (snd x)) (fs_zone (q_final Rn))
}.

Lemma run2_entry p Rn x : build_run2 p = Ok Rn -> List.In x (q_gen Rn) -> entry_facts Rn x.
Proof.
  intros HR Hx.
  destruct (build_run2_inv _ _ HR) as (st & HC & HM).
  pose proof (construct_all2_cinv _ _ HC) as CI.
  destruct (main_run2_inv _ _ HM) as (gfin & Z1 & E0 & EI & C1 & M1 & C2 & C3 & M3 & _).
  set (J := q_info Rn) in *.
  assert (FG : forall st0 b st', gen_step2 J st0 b = Ok st' -> Forall2 frame (h_zone st0) (h_zone st')).
  { intros st0 b st' Hs. apply (zstep_frame _ _ _ (gen_step2_zstep _ _ _ _ Hs)). }
  assert (FFl : forall Z b Z', flow_step2 J Z b = Ok Z' -> Forall2 frame Z Z').
  { intros Z b Z' Hs. apply (zstep_frame _ _ _ (flow2_zstep _ _ _ _ Hs)). }
  pose proof (chain_frames exo_step (fun Z => Z) exo_step_frame _ _ _ C3) as F3.
  pose proof (chain_frames (flow_step2 J) (fun Z => Z) FFl _ _ _ C2) as F2.
  assert (ND0 : NoDup (map sid (zone02 st))).
  { apply NoDup_map_inj; [eapply zone02_nodup; exact CI|].
    intros a b Ha Hb E. apply zone02_In in Ha as (s & Hs & -> & _). apply zone02_In in Hb as (s' & Hs' & -> & _).
    f_equal. simpl in E. apply (NoDup_map_In_inj sid (k_secs st)); [|exact Hs|exact Hs'|exact E].
    rewrite (d_sids _ _ _ _ CI). apply seq_NoDup. }
  destruct (chain_entry (gen_step2 J) h_zone FG _ _ _ C1 x Hx) as (A1 & A2 & A3). cbn [h_zone] in A2.
  assert (NDa : NoDup (map sid (h_zone (snd (fst x))))) by (rewrite (map_frame sid _ _ frame_sid A2); exact ND0).
  pose proof (FG _ _ _ A1) as FR.
  constructor; try assumption.
  - rewrite (map_frame sid _ _ frame_sid FR). exact NDa.
  - eapply Forall2_trans_frame; [exact A3|]. eapply Forall2_trans_frame; eassumption.
Qed.

Lemma no_conflict2b_entry p Rn x : build_run2 p = Ok Rn -> no_conflict2b p = true -> List.In x (q_gen Rn) ->
  gen_ok2b (q_info Rn) (fs_zone (q_final Rn)) x = true.
Proof.
  intros HR NC Hx. unfold no_conflict2b in NC. rewrite HR in NC. rewrite forallb_forall in NC. now apply NC.
Qed.

(** the side condition of the C01 / C07 theorems implies the one used here *)
Lemma no_conflict2_b p : no_conflict2 p = true -> no_conflict2b p = true.
Proof.
  unfold no_conflict2, no_conflict2b. intros NC. apply andb_true_iff in NC as [_ NC].
  destruct (build_run2 p) as [Rn|]; [|discriminate].
  unfold conflict_free2 in NC. repeat (apply andb_true_iff in NC as [NC ?]).
  rewrite forallb_forall in *. intros x Hx. unfold gen_ok2b. now rewrite (NC x Hx).
Qed.

(** [sat] only reads the sector list *)
Lemma sat_sub E v vprev bv (l : zone) : sat E v vprev bv -> (forall s, List.In s l -> List.In s (fs_zone E)) ->
  sat (mkFS l [] []) v vprev bv.
Proof. intros HS Hl s n Hs Hn. cbn in Hs. apply HS; [now apply Hl|exact Hn]. Qed.

Lemma sat_filter E v vprev bv (q : sector -> bool) : sat E v vprev bv -> sat (mkFS (filter q (fs_zone E)) [] []) v vprev bv.
Proof. intros HS. apply (sat_sub E); [exact HS|]. intros s Hs. now apply filter_In in Hs as [Hs _]. Qed.

(* ------------------------------------------------------------------ *)
(** * A step inside one zone *)

Lemma local_ok_inv J Zf i k self Z Z' : NoDup (map sid Z) -> find_sec i Z = Some self ->
  Forall2 frame Z' Zf -> local_ok J Zf i k self Z Z' = true ->
  let p := in_zone (j_countries J) (cur_of_sec J self) in
  exists g, gen_step (to_old J) (mkG (filter p Z) []) (i, k) = Ok g /\
    filter p Z' = g_zone g /\ filter (notb p) Z' = filter (notb p) Z /\
    gen_ok (filter p Zf) (to_old J) ((i, k), mkG (filter p Z) [], g) = true /\
    Forall2 frame (g_zone g) (filter p Zf) /\ find_sec i (filter p Z) = Some self.
Proof.
  intros ND Fs HF HOK p. unfold local_ok in HOK. fold p in HOK.
  destruct (gen_step (to_old J) (mkG (filter p Z) []) (i, k)) as [g|] eqn:GS; [|discriminate].
  apply andb_true_iff in HOK as [HOK FX]. apply andb_true_iff in HOK as [PO GO].
  apply part_ok_spec in PO as [P1 P2]. exists g. repeat split; auto.
  - rewrite <- P1. apply filter_frame; [apply in_zone_stable|exact HF].
  - apply find_filter; [exact ND|]. split; [exact Fs|]. unfold p, in_zone, cur_of_sec. apply String.eqb_refl.
Qed.

Lemma find_outside (q : sector -> bool) Z Z' j s : NoDup (map sid Z) -> NoDup (map sid Z') ->
  filter q Z' = filter q Z -> find_sec j Z = Some s -> q s = true -> find_sec j Z' = Some s.
Proof.
  intros ND ND' E Fs Q.
  assert (F : find_sec j (filter q Z) = Some s) by (apply find_filter; auto).
  rewrite <- E in F. now apply (find_filter q Z' j s ND') in F as [F _].
Qed.

(* ------------------------------------------------------------------ *)
(** * Goods / labour markets at the level of one call *)

Lemma Forall2_any_lookup W ids secs i s : Forall2 (fun i s => find_any W i = Some s) ids secs ->
  List.In i ids -> find_any W i = Some s -> List.In s secs.
Proof.
  intros H. induction H as [|j t ids secs Hj _ IH]; simpl; [contradiction|].
  intros [->|Hi] Hs; [left; congruence|right; now apply IH].
Qed.

Section World.
Variables (v : string -> R) (bv : string -> string -> R) (h a : string).

Lemma world_clears W W' m res others mk r osecs rs mk' :
  market_generate h a W m res others = Ok W' -> find_sec m (home W) = Some mk ->
  the_residual (home W) mk res = Ok r ->
  forallb (fun i => negb (Nat.eqb i m)) (map fst others ++ [r]) = true ->
  suppliers_of W (map fst others) osecs -> find_any W r = Some rs ->
  no_dunder (dem_short mk) = true -> no_dunder (sup_short mk) = true ->
  forallb (fun s => no_dunder (alloc_name s)) osecs = true ->
  forallb (fun s => negb (String.eqb (fullcode s) (code mk))) (osecs ++ [rs]) = true ->
  find_sec m (home W') = Some mk' ->
  holds v bv mk' (sup_short mk) -> holds v bv mk' (dem_short mk) -> holds v bv mk' (alloc_name rs) ->
  v (full_name mk (sup_short mk)) = v (full_name mk (dem_short mk)) /\
  v (full_name mk (dem_short mk)) = zsum (fun d => v (full_name d (Market.dem_name mk d))) (demanders mk (home W)) /\
  zsum (fun s => v (full_name mk (alloc_name s))) (osecs ++ [rs]) = v (full_name mk (sup_short mk)).
Proof.
  intros MG Fm TR K1 HO HR KD KS KA KC Fm' H1 H2 H3.
  set (ids := map fst others ++ [r]) in *.
  assert (ALL : Forall2 (fun i s => find_any W i = Some s) ids (osecs ++ [rs])).
  { unfold ids. apply Forall2_app; [exact HO|]. constructor; [exact HR|constructor]. }
  rewrite forallb_forall in K1, KA, KC.
  assert (NM : Forall (fun j => j <> m) ids).
  { apply Forall_forall. intros j Hj. specialize (K1 j Hj). apply negb_true_iff in K1. now apply Nat.eqb_neq in K1. }
  destruct (PropMarket.Market_clears h a v bv W W' m res others mk mk' r MG Fm TR NM) as [C1 C2]; auto.
  - intros j s Hj Hs. pose proof (Forall2_any_lookup _ _ _ _ _ ALL Hj Hs) as Hin.
    specialize (KC s Hin). apply negb_true_iff in KC. now apply String.eqb_neq in KC.
  - now apply no_dunder_ok.
  - split; [exact C1|]. split; [exact C2|].
    apply (PropMarket.Market_allocated h a v bv W W' m res others mk mk' r osecs rs MG Fm TR NM); auto.
    + now apply no_dunder_ok.
    + apply Forall_forall. intros s Hs. apply no_dunder_ok. now apply KA.
Qed.

End World.

(* ------------------------------------------------------------------ *)
(** * What [no_conflict2] says about one market call (common to the two shapes) *)

Record mfacts (J : ginfo2) (Zf Z : zone) (m : nat) (mk : sector) (res : option nat) (others : list (nat * string))
       (h a : string) (W W' : world) (r : nat) (osecs : list sector) (rs : sector) : Prop := mkMF {
  mf_home : home W = zone_of J Z mk;
  mf_gen : market_generate h a W m res others = Ok W';
  mf_mk : find_sec m (home W) = Some mk;
  mf_res : the_residual (home W) mk res = Ok r;
  mf_nm : forallb (fun i => negb (Nat.eqb i m)) (map fst others ++ [r]) = true;
  mf_nd : NoDup (map fst others ++ [r]);
  mf_kd : no_dunder (dem_short mk) = true;
  mf_ks : no_dunder (sup_short mk) = true;
  mf_ka : forallb (fun s => no_dunder (alloc_name s)) osecs = true;
  mf_kc : forallb (fun s => negb (String.eqb (fullcode s) (code mk))) (osecs ++ [rs]) = true;
  mf_all : Forall2 (fun j s => find_sec j Z = Some s) (map fst others ++ [r]) (osecs ++ [rs]);
  mf_any : Forall2 (fun j s => find_any W j = Some s) (map fst others ++ [r]) (osecs ++ [rs]);
  mf_zero : forall s, List.In s (osecs ++ [rs]) -> in_zone (j_countries J) (cur_of_sec J mk) s = true ->
              no_dunder (supply_name mk s) = true /\ zero_eqn (prior_eqn s (supply_name mk s)) = true;
  mf_kept : kept (market_sel mk (map fst others ++ [r]) rs) (home W') (filter (in_zone (j_countries J) (cur_of_sec J mk)) Zf) = true;
  mf_frame : Forall2 frame (home W') (filter (in_zone (j_countries J) (cur_of_sec J mk)) Zf)
}.

Lemma Forall2_app_inv_last {X Y} (P : X -> Y -> Prop) l x l' y :
  Forall2 P (l ++ [x]) (l' ++ [y]) -> Forall2 P l l' /\ P x y.
Proof.
  intros H. apply Forall2_app_inv_l in H as (l1 & l2 & H1 & H2 & E).
  inversion H2 as [|? y0 ? l3 Pxy H3]; subst. inversion H3; subst.
  apply app_inj_tail in E as [-> ->]. auto.
Qed.

Lemma NM_of m ids : forallb (fun i => negb (Nat.eqb i m)) ids = true -> Forall (fun j => j <> m) ids.
Proof.
  intros K. rewrite forallb_forall in K. apply Forall_forall. intros j Hj. specialize (K j Hj).
  apply negb_true_iff in K. now apply Nat.eqb_neq in K.
Qed.

Section Facts.
Variables (v vprev : string -> R) (bv : string -> string -> R).
Variables (J : ginfo2) (E : final_system) (Z : zone) (m : nat) (mk : sector) (res : option nat) (others : list (nat * string)).
Variables (h a : string) (W W' : world) (r : nat) (osecs : list sector) (rs : sector).
Hypothesis HS : sat E v vprev bv.
Hypothesis MF : mfacts J (fs_zone E) Z m mk res others h a W W' r osecs rs.

Let ids := map fst others ++ [r].
Let inh := in_zone (j_countries J) (cur_of_sec J mk).

Lemma mf_generated : generated h a W m res others W' mk r.
Proof. destruct MF. constructor; auto. now apply NM_of. Qed.

Lemma mf_market' : exists mk', find_sec m (home W') = Some mk' /\ frame mk mk'.
Proof.
  destruct MF. pose proof (market_zstep _ _ _ _ _ _ _ mk mf_gen0 mf_mk0) as ZS.
  apply (find_sec_zstep _ _ _ _ _ ZS mf_mk0).
Qed.

Lemma mf_holds s' n : List.In s' (home W') -> List.In n (market_sel mk ids rs s') -> holds v bv s' n.
Proof.
  destruct MF. apply (kept_holds v vprev bv (mkFS (filter inh (fs_zone E)) [] []) _ (home W')); auto.
  now apply sat_filter.
Qed.

Lemma mf_clears :
  v (full_name mk (sup_short mk)) = v (full_name mk (dem_short mk)) /\
  v (full_name mk (dem_short mk)) = zsum (fun d => v (full_name d (Market.dem_name mk d))) (mkt_demanders J Z mk) /\
  zsum (fun s => v (full_name mk (alloc_name s))) (osecs ++ [rs]) = v (full_name mk (sup_short mk)).
Proof.
  destruct mf_market' as (mk' & Fm' & Fmk). pose proof mf_holds as KH. destruct MF.
  unfold mkt_demanders. rewrite <- mf_home0.
  destruct (Forall2_app_inv_last _ _ _ _ _ mf_any0) as [HO HR].
  assert (MKsel : forall n, List.In n [sup_short mk; dem_short mk; alloc_name rs] -> holds v bv mk' n).
  { intros n Hn. apply KH; [eapply find_sec_In; exact Fm'|]. unfold market_sel.
    rewrite (find_sec_sid _ _ _ Fm'), (find_sec_sid _ _ _ mf_mk0), Nat.eqb_refl. apply in_or_app. now left. }
  apply (world_clears v bv h a W W' m res others mk r osecs rs mk'); auto.
  - apply MKsel. now left.
  - apply MKsel. right. now left.
  - apply MKsel. right. right. now left.
Qed.

(** a supplier of the market's zone: its own supply variable is the amount allocated to it *)
Lemma mf_amount_home j s : bv_zero bv -> List.In j ids -> find_sec j (home W) = Some s -> inh s = true ->
  v (full_name s (supply_name mk s)) = v (full_name mk (alloc_name s)).
Proof.
  intros HB Hj Fs Hz. pose proof mf_generated as G. pose proof mf_holds as KH. destruct MF.
  assert (Hin : List.In s (osecs ++ [rs])).
  { eapply Forall2_any_lookup; [exact mf_any0|exact Hj|]. unfold find_any. now rewrite Fs. }
  destruct (mf_zero0 s Hin Hz) as [Z1 Z2].
  destruct (mg_cash_home h a W m res others W' mk r G mf_nd0 j s) as (s' & Fs' & L & _); [|exact Fs|].
  { pose proof (NM_of _ _ mf_nm0) as NM. rewrite Forall_forall in NM. now apply NM. }
  pose proof (ls_frame _ _ _ L) as Fr.
  destruct (PropMarket.Market_supplier_amount h a v bv W W' m res others mk r j s s') as [A _]; auto.
  - now apply NM_of.
  - now apply no_dunder_ok.
  - apply KH; [eapply find_sec_In; exact Fs'|]. unfold market_sel. apply in_or_app. right.
    assert (T : existsb (Nat.eqb (sid s')) ids = true).
    { apply existsb_exists. exists j. split; [exact Hj|]. rewrite (find_sec_sid _ _ _ Fs'). apply Nat.eqb_refl. }
    rewrite T. left. unfold supply_name, share_parent. now rewrite (frame_country _ _ Fr).
  - rewrite A, (zero_eqn_val v bv s _ HB Z2). lra.
Qed.

End Facts.

(* ------------------------------------------------------------------ *)
(** * The two shapes of a market call *)

Lemma Forall2_find_filter (q : sector -> bool) Z ids secs : NoDup (map sid Z) ->
  Forall2 (fun j s => find_sec j (filter q Z) = Some s) ids secs ->
  Forall2 (fun j s => find_sec j Z = Some s) ids secs /\ Forall (fun s => q s = true) secs.
Proof.
  intros ND H. induction H as [|j s ids secs Hj _ [IH1 IH2]]; [split; constructor|].
  apply (find_filter q Z j s ND) in Hj as [A B]. split; constructor; auto.
Qed.

(** all suppliers in the market's own zone: the single-currency step on the zone *)
Lemma local_market_facts J Zf i mk Z Z' res others :
  NoDup (map sid Z) -> find_sec i Z = Some mk -> Forall2 frame Z' Zf ->
  sup_of i (j_sup J) = (res, others) ->
  local_ok J Zf i CMarket mk Z Z' = true ->
  let p := in_zone (j_countries J) (cur_of_sec J mk) in
  exists W' r osecs rs,
    mfacts J Zf Z i mk res others HCUR ACUR (mkWorld (filter p Z) [] None []) W' r osecs rs /\
    filter p Z' = home W' /\ filter (notb p) Z' = filter (notb p) Z /\ Forall (fun s => p s = true) (osecs ++ [rs]).
Proof.
  intros ND Fs HF SO LO p.
  destruct (local_ok_inv J Zf i CMarket mk Z Z' ND Fs HF LO) as (g & GS & P1 & P2 & GO & FRg & FP). fold p in GS, P1, P2, GO, FRg, FP.
  unfold gen_step in GS. cbn [g_zone g_flows] in GS. rewrite FP in GS.
  change (i_sup (to_old J)) with (j_sup J) in GS. rewrite SO in GS.
  apply (market_flows_inv (mkG (filter p Z) [])) in GS as (W' & MG & HW).
  unfold gen_ok in GO. change (i_sup (to_old J)) with (j_sup J) in GO. rewrite SO in GO. cbn [g_zone] in GO.
  apply andb_true_iff in GO as [MO _]. rewrite <- HW in *. unfold market_ok in MO. rewrite FP in MO.
  destruct (the_residual (filter p Z) mk res) as [r|] eqn:TR; [|discriminate].
  destruct (find_all (filter p Z) (map fst others)) as [osecs|] eqn:FA; [|discriminate].
  destruct (find_sec r (filter p Z)) as [rs|] eqn:Fr; [|discriminate].
  repeat (apply andb_true_iff in MO as [MO ?]).
  rename H into K9, H0 into K8, H1 into K7, H2 into K6, H3 into K5, H4 into K4, H5 into K3, H6 into K2. rename MO into K1.
  apply find_all_spec in FA.
  assert (ALL : Forall2 (fun j s => find_sec j (filter p Z) = Some s) (map fst others ++ [r]) (osecs ++ [rs])).
  { apply Forall2_app; [exact FA|]. constructor; [exact Fr|constructor]. }
  destruct (Forall2_find_filter p Z _ _ ND ALL) as [ALLZ INP].
  exists W', r, osecs, rs. split; [|auto].
  constructor; auto.
  - now apply nodupb_NoDup.
  - eapply Forall2_imp; [|exact ALL]. intros j s Hs. unfold find_any. cbn [home]. now rewrite Hs.
  - intros s Hs _. rewrite forallb_forall in K8. specialize (K8 s Hs). now apply andb_true_iff in K8.
Qed.

(** suppliers in exactly one other zone *)
Lemma foreign_market_facts J Zf i mk acur Z Z' res others :
  NoDup (map sid Z) -> find_sec i Z = Some mk -> Forall2 frame Z' Zf ->
  foreign_market_ok J Zf i mk acur res others Z Z' = true ->
  let hcur := cur_of_sec J mk in
  let inh := in_zone (j_countries J) hcur in
  let ina := in_zone (j_countries J) acur in
  let both3 := fun s => inh s || ina s || in_zone (j_countries J) NUM s in
  exists W' r osecs rs,
    mfacts J Zf Z i mk res others hcur acur (mkWorld (filter inh Z) (filter ina Z) (ledger_of J Z) []) W' r osecs rs /\
    filter inh Z' = home W' /\ filter ina Z' = abroad W' /\
    filter (notb both3) Z' = filter (notb both3) Z /\
    Forall (fun s => inh s || ina s = true) (osecs ++ [rs]) /\ hcur <> acur.
Proof.
  intros ND Fs HF HOK hcur inh ina both3. unfold foreign_market_ok in HOK. fold hcur inh ina in HOK.
  set (both := fun s => inh s || ina s) in *.
  set (W := mkWorld (filter inh Z) (filter ina Z) (ledger_of J Z) []) in *.
  destruct (market_generate hcur acur W i res others) as [W'|] eqn:MG; [|discriminate].
  destruct (find_sec i (filter inh Z)) as [mk0|] eqn:Fm; [|discriminate].
  destruct (the_residual (filter inh Z) mk0 res) as [r|] eqn:TR; [|discriminate].
  destruct (find_all (filter both Z) (map fst others)) as [osecs|] eqn:FA; [|discriminate].
  destruct (find_sec r (filter both Z)) as [rs|] eqn:Fr; [|discriminate].
  repeat (apply andb_true_iff in HOK as [HOK ?]).
  rename H into DQ, H0 into KP, H1 into KF, H2 into KC, H3 into KA, H4 into KS, H5 into KL, H6 into KD, H7 into KN,
         H8 into K1, H9 into Na, H10 into Nh, H11 into Nha, H12 into OPW, H13 into FXO, H14 into LED, H15 into OUT, H16 into ABR.
  rename HOK into HOME.
  apply zone_eqb_eq in HOME, ABR, OUT. apply negb_true_iff in Nha. apply String.eqb_neq in Nha.
  assert (EM : mk0 = mk).
  { apply (find_filter inh Z i mk0 ND) in Fm as [Fm _]. rewrite Fs in Fm. now injection Fm. }
  subst mk0. apply find_all_spec in FA.
  assert (ALL : Forall2 (fun j s => find_sec j (filter both Z) = Some s) (map fst others ++ [r]) (osecs ++ [rs])).
  { apply Forall2_app; [exact FA|]. constructor; [exact Fr|constructor]. }
  destruct (Forall2_find_filter both Z _ _ ND ALL) as [ALLZ INP].
  exists W', r, osecs, rs. split; [|repeat split; auto].
  constructor; auto.
  - now apply nodupb_NoDup.
  - eapply Forall2_imp; [|exact ALL]. intros j s Hs. apply (find_any_parts J inh ina Z j s ND Hs).
  - intros s Hs Hz. rewrite forallb_forall in KF. specialize (KF s Hs). fold hcur inh in Hz. rewrite Hz in KF. simpl in KF.
    now apply andb_true_iff in KF.
  - cbn [home W]. rewrite <- HOME. apply filter_frame; [apply in_zone_stable|exact HF].
Qed.

(** suppliers in two or more other zones: the checks of [multi_market_ok], one fictitious single-foreign-zone
    run per supplier currency *)
Lemma multi_market_facts J Zf i mk acurs Z Z' res others :
  NoDup (map sid Z) -> find_sec i Z = Some mk -> Forall2 frame Z' Zf ->
  multi_market_ok J Zf i mk acurs res others Z Z' = true ->
  let hcur := cur_of_sec J mk in
  let inh := in_zone (j_countries J) hcur in
  let outq := fun s => inh s || in_any J acurs s || in_zone (j_countries J) NUM s in
  acurs <> [] /\ filter (notb outq) Z' = filter (notb outq) Z /\
  forall a, List.In a acurs ->
    exists W' r osecs rs,
      mfacts J Zf Z i mk res others hcur a (mkWorld (filter inh Z) (filter (notb inh) Z) (ledger_of J Z) []) W' r osecs rs /\
      filter inh Z' = home W' /\
      filter (in_zone (j_countries J) a) Z' = filter (in_zone (j_countries J) a) (abroad W') /\ hcur <> a /\
      Forall (fun s => inh s = true \/ List.In (cur_of_sec J s) acurs) (osecs ++ [rs]).
Proof.
  intros ND Fs HF HOK hcur inh outq. unfold multi_market_ok in HOK. fold hcur inh in HOK.
  apply andb_true_iff in HOK as [HOK OUT]. apply andb_true_iff in HOK as [NE ALLA].
  apply zone_eqb_eq in OUT. split; [destruct acurs; [discriminate|discriminate]|]. split; [exact OUT|].
  intros a Ha. rewrite forallb_forall in ALLA. specialize (ALLA a Ha). unfold multi_one_ok in ALLA. fold hcur inh in ALLA.
  set (ina := in_zone (j_countries J) a) in *.
  set (W := mkWorld (filter inh Z) (filter (notb inh) Z) (ledger_of J Z) []) in *.
  destruct (market_generate hcur a W i res others) as [W'|] eqn:MG; [|discriminate].
  destruct (find_sec i (filter inh Z)) as [mk0|] eqn:Fm; [|discriminate].
  destruct (the_residual (filter inh Z) mk0 res) as [r|] eqn:TR; [|discriminate].
  destruct (find_all Z (map fst others)) as [osecs|] eqn:FA; [|discriminate].
  destruct (find_sec r Z) as [rs|] eqn:Fr; [|discriminate].
  repeat (apply andb_true_iff in ALLA as [ALLA ?]).
  rename H into KP, H0 into KZ, H1 into KF, H2 into KC, H3 into KA, H4 into KS, H5 into KD, H6 into KN, H7 into K1,
         H8 into Nha, H9 into ABR. rename ALLA into HOME.
  apply zone_eqb_eq in HOME, ABR. apply negb_true_iff in Nha. apply String.eqb_neq in Nha.
  assert (EM : mk0 = mk).
  { apply (find_filter inh Z i mk0 ND) in Fm as [Fm _]. rewrite Fs in Fm. now injection Fm. }
  subst mk0. apply find_all_spec in FA.
  assert (ALL : Forall2 (fun j s => find_sec j Z = Some s) (map fst others ++ [r]) (osecs ++ [rs])).
  { apply Forall2_app; [exact FA|]. constructor; [exact Fr|constructor]. }
  exists W', r, osecs, rs. split; [|repeat split; auto].
  - constructor; auto.
    + now apply nodupb_NoDup.
    + eapply Forall2_imp; [|exact ALL]. intros j s Hs. apply (find_any_parts J inh (notb inh) Z j s ND).
      apply find_filter; [exact ND|]. split; [exact Hs|]. unfold notb. destruct (inh s); reflexivity.
    + intros s Hs Hz. rewrite forallb_forall in KF. specialize (KF s Hs). fold hcur inh in Hz. rewrite Hz in KF. simpl in KF.
      now apply andb_true_iff in KF.
    + cbn [home W]. rewrite <- HOME. apply filter_frame; [apply in_zone_stable|exact HF].
  - apply Forall_forall. intros s Hs. rewrite forallb_forall in KZ. specialize (KZ s Hs).
    destruct (inh s); [now left|right]. simpl in KZ. now apply mem_In.
Qed.

(* ------------------------------------------------------------------ *)
(** * A supplier / a sector of another zone, against a run with that zone's currency as the foreign one *)

Lemma in_zone_cur J c s : in_zone (j_countries J) c s = true -> cur_of_sec J s = c.
Proof. unfold in_zone, cur_of_sec. apply String.eqb_eq. Qed.

Lemma supply_name_frame mk s s' : frame s s' -> supply_name mk s' = supply_name mk s.
Proof. intros Fr. unfold supply_name, share_parent. now rewrite (frame_country _ _ Fr). Qed.

Lemma mem_nat_false_not_in j l : mem_nat j l = false -> ~ List.In j l.
Proof. intros H Hin. apply mem_nat_In in Hin. congruence. Qed.

Section Abroad.
Variables (J : ginfo2) (E : final_system) (Z Z' : zone) (i : nat) (mk : sector) (res : option nat) (others : list (nat * string)).
Variables (a : string) (abq : sector -> bool) (W' : world) (r : nat) (osecs : list sector) (rs : sector).
Let Zf := fs_zone E.
Let hcur := cur_of_sec J mk.
Let inh := in_zone (j_countries J) hcur.
Let ina := in_zone (j_countries J) a.
Let W := mkWorld (filter inh Z) (filter abq Z) (ledger_of J Z) [].
Let ids := map fst others ++ [r].
Hypothesis ND : NoDup (map sid Z).
Hypothesis ND' : NoDup (map sid Z').
Hypothesis MF : mfacts J Zf Z i mk res others hcur a W W' r osecs rs.
Hypothesis ABR : filter ina Z' = filter ina (abroad W').

Lemma abroad_find j s : find_sec j Z = Some s -> inh s = false -> abq s = true ->
  find_sec j (home W) = None /\ find_sec j (abroad W) = Some s.
Proof.
  intros Fj Hz Hq. split.
  - cbn [home W]. destruct (find_sec j (filter inh Z)) as [s2|] eqn:E0; [|reflexivity].
    apply (find_filter inh Z j s2 ND) in E0 as [E1 E2]. rewrite Fj in E1. injection E1 as <-. congruence.
  - cbn [abroad W]. apply find_filter; auto.
Qed.

(** the cash flow booked on a sector of zone [a] *)
Lemma abroad_cash j s : find_sec j Z = Some s -> inh s = false -> abq s = true -> ina s = true ->
  exists s', find_sec j (abroad W') = Some s' /\ find_sec j Z' = Some s' /\
    lstep s s' (if mem_nat j ids then [credited hcur a (full_name mk (alloc_name s))] else []) /\
    (mem_nat j ids = false -> s' = s).
Proof.
  intros Fj Hz Hq Ha. destruct (abroad_find j s Fj Hz Hq) as [Fh Fa].
  pose proof (mf_generated J E Z i mk res others hcur a W W' r osecs rs MF) as G.
  destruct (mg_cash_abroad hcur a W i res others W' mk r G (mf_nd _ _ _ _ _ _ _ _ _ _ _ _ _ _ MF) j s Fh Fa) as (s' & Fs' & L & U).
  exists s'. split; [exact Fs'|]. split; [|split; [exact L|exact U]].
  destruct (mg_static hcur a W i res others W' mk r G) as [_ SA].
  assert (NDA : NoDup (map sid (abroad W'))).
  { assert (EQ : map sid (abroad W') = map sid (abroad W)).
    { rewrite <- (map_map static (fun x => fst (fst (fst x)))), SA, map_map. reflexivity. }
    rewrite EQ. cbn [abroad W]. now apply NoDup_map_filter_sid. }
  assert (F1 : find_sec j (filter ina (abroad W')) = Some s').
  { apply find_filter; [exact NDA|]. split; [exact Fs'|]. unfold ina. rewrite (in_zone_frame _ _ _ _ (ls_frame _ _ _ L)). exact Ha. }
  rewrite <- ABR in F1. now apply (find_filter ina Z' j s' ND') in F1 as [F1 _].
Qed.

(** a declared supplier in zone [a]: its own supply variable *)
Lemma abroad_amount (v vprev : string -> R) (bv : string -> string -> R) :
  bv_zero bv -> sat E v vprev bv -> Forall2 frame Z' Zf ->
  foreign_sup_ok J Zf i mk a abq res others Z = true ->
  forall j s, List.In j ids -> find_sec j Z = Some s -> inh s = false -> abq s = true -> ina s = true ->
  v (full_name s (supply_name mk s)) = v (full_name mk (alloc_name s)) * v (cross_name hcur a).
Proof.
  intros HB HS HF CG j s Hj Fj Hz Hq Ha. destruct (abroad_find j s Fj Hz Hq) as [Fh Fa].
  destruct (abroad_cash j s Fj Hz Hq Ha) as (s' & Fs' & _ & L & _). pose proof (ls_frame _ _ _ L) as Fr.
  pose proof (mf_gen _ _ _ _ _ _ _ _ _ _ _ _ _ _ MF) as MG. pose proof (mf_mk _ _ _ _ _ _ _ _ _ _ _ _ _ _ MF) as Fm.
  pose proof (mf_res _ _ _ _ _ _ _ _ _ _ _ _ _ _ MF) as TR. pose proof (mf_nd _ _ _ _ _ _ _ _ _ _ _ _ _ _ MF) as NDI.
  cbn [home W] in Fm, TR.
  unfold foreign_sup_ok in CG. cbv zeta in CG.
  assert (CG' : kept (foreign_sel mk ids) (filter ina (abroad W')) (filter ina Zf) &&
                forallb (fun s => negb (mem_nat (sid s) ids) || zero_eqn (prior_eqn s (supply_name mk s))) (filter ina Z) = true).
  { unfold W, ina, inh, hcur in MG, Fm, TR. rewrite MG, Fm, TR in CG. exact CG. }
  clear CG. apply andb_true_iff in CG' as [KP KZ].
  assert (FRA : Forall2 frame (filter ina (abroad W')) (filter ina Zf)).
  { rewrite <- ABR. apply filter_frame; [apply in_zone_stable|exact HF]. }
  assert (Ins' : List.In s' (filter ina (abroad W'))).
  { apply filter_In. split; [eapply find_sec_In; exact Fs'|]. unfold ina. rewrite (in_zone_frame _ _ _ _ Fr). exact Ha. }
  assert (SATF : sat (mkFS (filter ina Zf) [] []) v vprev bv) by (now apply sat_filter).
  assert (HH : holds v bv s' (supply_name mk s)).
  { apply (kept_holds v vprev bv (mkFS (filter ina Zf) [] []) _ _ SATF KP FRA s' _ Ins').
    unfold foreign_sel. rewrite (find_sec_sid _ _ _ Fs'). apply mem_nat_In in Hj. fold ids. rewrite Hj. left. now apply supply_name_frame. }
  rewrite (PropMarket.Market_supplier_amount_foreign hcur a v bv W W' i res others mk r j s s' MG (mf_mk _ _ _ _ _ _ _ _ _ _ _ _ _ _ MF)
             (mf_res _ _ _ _ _ _ _ _ _ _ _ _ _ _ MF) (NM_of _ _ (mf_nm _ _ _ _ _ _ _ _ _ _ _ _ _ _ MF)) NDI Hj Fh Fa Fs' HH).
  rewrite forallb_forall in KZ. assert (Hin : List.In s (filter ina Z)) by (apply filter_In; split; [eapply find_sec_In; exact Fj|exact Ha]).
  specialize (KZ s Hin). rewrite (find_sec_sid _ _ _ Fj) in KZ. apply mem_nat_In in Hj. fold ids in KZ. rewrite Hj in KZ. simpl in KZ.
  rewrite (zero_eqn_val v bv s _ HB KZ). lra.
Qed.

End Abroad.

(* ------------------------------------------------------------------ *)
(** * Every goods / labour market step of a run *)

Lemma market_entry_cases p Rn i st st' mk : build_run2 p = Ok Rn -> no_conflict2b p = true ->
  List.In ((i, COld CMarket), st, st') (q_gen Rn) -> find_sec i (h_zone st) = Some mk ->
  let J := q_info Rn in
  let res := fst (sup_of i (j_sup J)) in
  let others := snd (sup_of i (j_sup J)) in
  let scs := supplier_currencies J (h_zone st) (cur_of_sec J mk)
               (map fst others ++ match res with Some r => [r] | None => [] end) in
  NoDup (map sid (h_zone st)) /\ NoDup (map sid (h_zone st')) /\ Forall2 frame (h_zone st') (fs_zone (q_final Rn)) /\
  ((scs = [] /\ local_ok J (fs_zone (q_final Rn)) i CMarket mk (h_zone st) (h_zone st') = true) \/
   (exists acur, scs = [acur] /\ foreign_market_ok J (fs_zone (q_final Rn)) i mk acur res others (h_zone st) (h_zone st') = true) \/
   (exists a b l, scs = a :: b :: l /\ multi_market_ok J (fs_zone (q_final Rn)) i mk scs res others (h_zone st) (h_zone st') = true)).
Proof.
  intros HR NC Hx Fs J res others scs. destruct (run2_entry _ _ _ HR Hx) as [GS ND ND' FR HF]. cbn [fst snd] in *.
  pose proof (no_conflict2b_entry _ _ _ HR NC Hx) as HOK.
  split; [exact ND|]. split; [exact ND'|]. split; [exact HF|].
  unfold gen_ok2b, gen_ok2 in HOK. rewrite Fs in HOK. fold J in HOK. unfold scs, res, others.
  destruct (sup_of i (j_sup J)) as [res0 others0]. cbn [fst snd].
  destruct (supplier_currencies J (h_zone st) (cur_of_sec J mk) _) as [|acur [|b l]].
  - left. rewrite orb_false_r in HOK. auto.
  - right. left. exists acur. rewrite orb_false_r in HOK. auto.
  - right. right. exists acur, b, l. simpl in HOK. auto.
Qed.

Definition sup_factor (v : string -> R) (J : ginfo2) (mk s : sector) : R :=
  if in_zone (j_countries J) (cur_of_sec J mk) s then 1 else v (cross_name (cur_of_sec J mk) (cur_of_sec J s)).

(** goods / labour markets: total supply = total demand = the sum of the demand variables of exactly
    the sectors of the market's currency zone that own one; the amounts allocated to the suppliers
    (AddSupplier list, then the residual supplier) add up to total supply *)
Theorem main2_goods_markets_clear p Rn : build_run2 p = Ok Rn -> no_conflict2b p = true ->
  forall (v vprev : string -> R) (bv : string -> string -> R), sat (q_final Rn) v vprev bv ->
  forall i st st' mk, List.In ((i, COld CMarket), st, st') (q_gen Rn) -> find_sec i (h_zone st) = Some mk ->
    let J := q_info Rn in
    let Z := h_zone st in
    v (full_name mk (sup_short mk)) = v (full_name mk (dem_short mk)) /\
    v (full_name mk (dem_short mk)) = zsum (fun d => v (full_name d (Market.dem_name mk d))) (mkt_demanders J Z mk) /\
    exists r osecs rs,
      the_residual (zone_of J Z mk) mk (fst (sup_of i (j_sup J))) = Ok r /\
      Forall2 (fun j s => find_sec j Z = Some s) (map fst (snd (sup_of i (j_sup J)))) osecs /\
      find_sec r Z = Some rs /\
      zsum (fun s => v (full_name mk (alloc_name s))) (osecs ++ [rs]) = v (full_name mk (sup_short mk)).
Proof.
  intros HR NC v vprev bv HS i st st' mk Hx Fs J Z.
  destruct (market_entry_cases _ _ _ _ _ _ HR NC Hx Fs) as (ND & ND' & HF & CASES). fold J Z in ND, CASES.
  destruct (sup_of i (j_sup J)) as [res others] eqn:SO. cbn [fst snd] in *.
  assert (G : forall h a W W' r osecs rs, mfacts J (fs_zone (q_final Rn)) Z i mk res others h a W W' r osecs rs ->
    v (full_name mk (sup_short mk)) = v (full_name mk (dem_short mk)) /\
    v (full_name mk (dem_short mk)) = zsum (fun d => v (full_name d (Market.dem_name mk d))) (mkt_demanders J Z mk) /\
    exists r osecs rs,
      the_residual (zone_of J Z mk) mk res = Ok r /\
      Forall2 (fun j s => find_sec j Z = Some s) (map fst others) osecs /\
      find_sec r Z = Some rs /\
      zsum (fun s => v (full_name mk (alloc_name s))) (osecs ++ [rs]) = v (full_name mk (sup_short mk))).
  { intros h a W W' r osecs rs MF.
    destruct (mf_clears v vprev bv J _ Z i mk res others h a W W' r osecs rs HS MF) as (C1 & C2 & C3).
    split; [exact C1|]. split; [exact C2|]. exists r, osecs, rs.
    destruct (Forall2_app_inv_last _ _ _ _ _ (mf_all _ _ _ _ _ _ _ _ _ _ _ _ _ _ MF)) as [A1 A2].
    rewrite <- (mf_home _ _ _ _ _ _ _ _ _ _ _ _ _ _ MF). split; [apply (mf_res _ _ _ _ _ _ _ _ _ _ _ _ _ _ MF)|auto]. }
  destruct CASES as [[_ LO]|[(acur & SC & FO)|(a & b & l & SC & MO)]].
  - destruct (local_market_facts J _ i mk Z _ res others ND Fs HF SO LO) as (W' & r & osecs & rs & MF & _). eapply G; exact MF.
  - destruct (foreign_market_facts J _ i mk acur Z _ res others ND Fs HF FO) as (W' & r & osecs & rs & MF & _). eapply G; exact MF.
  - destruct (multi_market_facts J _ i mk _ Z _ res others ND Fs HF MO) as (_ & _ & ALLA).
    destruct (ALLA a) as (W' & r & osecs & rs & MF & _); [rewrite SC; now left|]. eapply G; exact MF.
Qed.

(* ------------------------------------------------------------------ *)
(** * Each supplier's own supply variable *)

Lemma no_conflict2c_inv p Rn x : build_run2 p = Ok Rn -> no_conflict2c p = true -> List.In x (q_gen Rn) ->
  no_conflict2b p = true /\ clear_gen_ok (q_info Rn) (fs_zone (q_final Rn)) x = true.
Proof.
  intros HR NC Hx. unfold no_conflict2c in NC. rewrite HR in NC. apply andb_true_iff in NC as [N1 N2].
  split; [exact N1|]. unfold clear_ok2 in N2. rewrite forallb_forall in N2. now apply N2.
Qed.

(** each supplier's own supply variable equals the amount the market assigns to it; for a supplier in
    another currency zone, that amount times the cross rate market currency / supplier currency *)
Theorem main2_supplier_amounts p Rn : build_run2 p = Ok Rn -> no_conflict2c p = true ->
  forall (v vprev : string -> R) (bv : string -> string -> R), bv_zero bv -> sat (q_final Rn) v vprev bv ->
  forall i st st' mk, List.In ((i, COld CMarket), st, st') (q_gen Rn) -> find_sec i (h_zone st) = Some mk ->
    let J := q_info Rn in
    let Z := h_zone st in
    forall r, the_residual (zone_of J Z mk) mk (fst (sup_of i (j_sup J))) = Ok r ->
    forall j s, List.In j (sup_ids J i r) -> find_sec j Z = Some s ->
      v (full_name s (supply_name mk s)) = v (full_name mk (alloc_name s)) * sup_factor v J mk s.
Proof.
  intros HR NCC v vprev bv HB HS i st st' mk Hx Fs J Z r0 TR0 j s Hj Fj.
  destruct (no_conflict2c_inv _ _ _ HR NCC Hx) as [NC CG]. fold J in CG.
  destruct (market_entry_cases _ _ _ _ _ _ HR NC Hx Fs) as (ND & ND' & HF & CASES). fold J Z in ND, CASES.
  unfold sup_ids in Hj. unfold clear_gen_ok in CG. rewrite Fs in CG. fold Z in CG.
  destruct (sup_of i (j_sup J)) as [res others] eqn:SO. cbn [fst snd] in *.
  set (inh := in_zone (j_countries J) (cur_of_sec J mk)) in *.
  assert (RR : forall h a W W' r osecs rs, mfacts J (fs_zone (q_final Rn)) Z i mk res others h a W W' r osecs rs -> r = r0).
  { intros h a W W' r osecs rs MF.
    pose proof (mf_res _ _ _ _ _ _ _ _ _ _ _ _ _ _ MF) as T. rewrite (mf_home _ _ _ _ _ _ _ _ _ _ _ _ _ _ MF), TR0 in T. now injection T. }
  assert (HOMEC : forall h a W W' r osecs rs, mfacts J (fs_zone (q_final Rn)) Z i mk res others h a W W' r osecs rs ->
            home W = filter inh Z -> inh s = true ->
            v (full_name s (supply_name mk s)) = v (full_name mk (alloc_name s)) * sup_factor v J mk s).
  { intros h a W W' r osecs rs MF HW Hz. unfold sup_factor. fold inh. rewrite Hz, Rmult_1_r.
    pose proof (RR _ _ _ _ _ _ _ MF). subst r0.
    apply (mf_amount_home v vprev bv J _ Z i mk res others h a W W' r osecs rs HS MF j s HB Hj); [|exact Hz].
    rewrite HW. apply find_filter; auto. }
  assert (FOREIGNC : forall a abq W' r osecs rs,
            mfacts J (fs_zone (q_final Rn)) Z i mk res others (cur_of_sec J mk) a
                   (mkWorld (filter inh Z) (filter abq Z) (ledger_of J Z) []) W' r osecs rs ->
            filter (in_zone (j_countries J) a) (h_zone st') = filter (in_zone (j_countries J) a) (abroad W') ->
            foreign_sup_ok J (fs_zone (q_final Rn)) i mk a abq res others Z = true ->
            inh s = false -> abq s = true -> in_zone (j_countries J) a s = true ->
            v (full_name s (supply_name mk s)) = v (full_name mk (alloc_name s)) * sup_factor v J mk s).
  { intros a abq W' r osecs rs MF ABR FS Hz Hq Ha. pose proof (RR _ _ _ _ _ _ _ MF). subst r0.
    unfold sup_factor. change (in_zone (j_countries J) (cur_of_sec J mk) s) with (inh s). rewrite Hz, (in_zone_cur J a s Ha).
    apply (abroad_amount J (q_final Rn) Z (h_zone st') i mk res others a abq W' r osecs rs ND ND' MF ABR
             v vprev bv HB HS HF FS j s Hj Fj Hz Hq Ha). }
  destruct CASES as [[SC LO]|[(acur & SC & FO)|(a0 & b & l & SC & MO)]].
  - destruct (local_market_facts J _ i mk Z _ res others ND Fs HF SO LO) as (W' & r & osecs & rs & MF & P1 & P2 & INP).
    pose proof (RR _ _ _ _ _ _ _ MF). subst r0.
    pose proof (Forall2_lookup_sec _ _ _ _ _ (mf_all _ _ _ _ _ _ _ _ _ _ _ _ _ _ MF) Hj Fj) as Hin.
    rewrite Forall_forall in INP. eapply HOMEC; [exact MF|reflexivity|now apply INP].
  - rewrite SC in CG.
    destruct (foreign_market_facts J _ i mk acur Z _ res others ND Fs HF FO) as (W' & r & osecs & rs & MF & HOME & ABR & OUT & INP & Nha).
    pose proof (RR _ _ _ _ _ _ _ MF). subst r0.
    pose proof (Forall2_lookup_sec _ _ _ _ _ (mf_all _ _ _ _ _ _ _ _ _ _ _ _ _ _ MF) Hj Fj) as Hin.
    rewrite Forall_forall in INP. specialize (INP s Hin). fold inh in INP.
    destruct (inh s) eqn:Hz; [eapply HOMEC; [exact MF|reflexivity|reflexivity]|]. simpl in INP.
    apply (FOREIGNC acur (in_zone (j_countries J) acur) W' r osecs rs MF); auto.
    rewrite <- ABR. symmetry. apply filter_sub. auto.
  - rewrite SC in CG. rewrite <- SC in CG.
    destruct (multi_market_facts J _ i mk _ Z _ res others ND Fs HF MO) as (_ & _ & ALLA).
    destruct (ALLA a0) as (W0 & r1 & osecs1 & rs1 & MF0 & _ & _ & _ & INP); [rewrite SC; now left|].
    pose proof (RR _ _ _ _ _ _ _ MF0). subst r0.
    pose proof (Forall2_lookup_sec _ _ _ _ _ (mf_all _ _ _ _ _ _ _ _ _ _ _ _ _ _ MF0) Hj Fj) as Hin.
    rewrite Forall_forall in INP. specialize (INP s Hin). fold inh in INP.
    destruct (inh s) eqn:Hz; [eapply HOMEC; [exact MF0|reflexivity|reflexivity]|].
    destruct INP as [INP|INP]; [discriminate|].
    set (a := cur_of_sec J s) in *.
    destruct (ALLA a INP) as (W' & r & osecs & rs & MF & HOME & ABR & Nha & _).
    assert (CGa : foreign_sup_ok J (fs_zone (q_final Rn)) i mk a (notb inh) res others Z = true).
    { assert (CG2 : forallb (fun a => foreign_sup_ok J (fs_zone (q_final Rn)) i mk a (notb inh) res others Z)
                            (supplier_currencies J Z (cur_of_sec J mk) (map fst others ++ match res with Some r => [r] | None => [] end)) = true).
      { revert CG. rewrite SC. intros CG. exact CG. }
      rewrite forallb_forall in CG2. now apply CG2. }
    apply (FOREIGNC a (notb inh) W' r osecs rs MF ABR CGa); auto.
    + unfold notb. now rewrite Hz.
    + unfold a, in_zone, cur_of_sec. apply String.eqb_refl.
Qed.

(* ------------------------------------------------------------------ *)
(** * The cash flows a market step books *)

(** For every sector [s] other than the market, in the market's zone or outside the FX intermediary's
    own zone: the step extends its F equation by exactly [booked] (and INC by a sub-list, nothing else
    of the ledger changes); a sector outside the market's zone that is not a declared supplier is
    returned as it was. *)
Theorem main2_market_cash_flows p Rn : build_run2 p = Ok Rn -> no_conflict2b p = true ->
  forall i st st' mk, List.In ((i, COld CMarket), st, st') (q_gen Rn) -> find_sec i (h_zone st) = Some mk ->
    let J := q_info Rn in
    let Z := h_zone st in
    let inh := in_zone (j_countries J) (cur_of_sec J mk) in
    exists r, the_residual (zone_of J Z mk) mk (fst (sup_of i (j_sup J))) = Ok r /\
      forall j s, j <> i -> find_sec j Z = Some s -> inh s = true \/ in_zone (j_countries J) NUM s = false ->
        exists s', find_sec j (h_zone st') = Some s' /\ lstep s s' (booked J mk (sup_ids J i r) s) /\
          (inh s = false -> mem_nat j (sup_ids J i r) = false -> s' = s).
Proof.
  intros HR NC i st st' mk Hx Fs J Z inh.
  destruct (market_entry_cases _ _ _ _ _ _ HR NC Hx Fs) as (ND & ND' & HF & CASES). fold J Z in ND, CASES.
  unfold sup_ids. destruct (sup_of i (j_sup J)) as [res others] eqn:SO. cbn [fst snd] in *.
  set (Z' := h_zone st') in *.
  (* a sector of the market's zone *)
  assert (HOMEC : forall h a W W' r osecs rs, mfacts J (fs_zone (q_final Rn)) Z i mk res others h a W W' r osecs rs ->
            home W = filter inh Z -> filter inh Z' = home W' ->
            forall j s, j <> i -> find_sec j Z = Some s -> inh s = true ->
            exists s', find_sec j Z' = Some s' /\ lstep s s' (booked J mk (map fst others ++ [r]) s) /\
                       (inh s = false -> mem_nat j (map fst others ++ [r]) = false -> s' = s)).
  { intros h a W W' r osecs rs MF HW HW' j s Hji Fj Hz.
    pose proof (mf_generated J _ Z i mk res others h a W W' r osecs rs MF) as G.
    assert (Fh : find_sec j (home W) = Some s) by (rewrite HW; apply find_filter; auto).
    destruct (mg_cash_home h a W i res others W' mk r G (mf_nd _ _ _ _ _ _ _ _ _ _ _ _ _ _ MF) j s Hji Fh) as (s' & Fs' & L & _).
    exists s'. split; [|split; [|congruence]].
    - rewrite <- HW' in Fs'. now apply (find_filter inh Z' j s' ND') in Fs' as [Fs' _].
    - unfold booked. change (in_zone (j_countries J) (cur_of_sec J mk) s) with (inh s). rewrite Hz, (find_sec_sid _ _ _ Fj). exact L. }
  (* a sector of the zone of a foreign supplier *)
  assert (ABRC : forall a abq W' r osecs rs,
            mfacts J (fs_zone (q_final Rn)) Z i mk res others (cur_of_sec J mk) a
                   (mkWorld (filter inh Z) (filter abq Z) (ledger_of J Z) []) W' r osecs rs ->
            filter (in_zone (j_countries J) a) Z' = filter (in_zone (j_countries J) a) (abroad W') ->
            forall j s, find_sec j Z = Some s -> inh s = false -> abq s = true -> in_zone (j_countries J) a s = true ->
            exists s', find_sec j Z' = Some s' /\ lstep s s' (booked J mk (map fst others ++ [r]) s) /\
                       (inh s = false -> mem_nat j (map fst others ++ [r]) = false -> s' = s)).
  { intros a abq W' r osecs rs MF ABR j s Fj Hz Hq Ha.
    destruct (abroad_cash J (q_final Rn) Z Z' i mk res others a abq W' r osecs rs ND ND' MF ABR j s Fj Hz Hq Ha)
      as (s' & _ & Fs' & L & U).
    exists s'. split; [exact Fs'|]. split; [|intros _; exact U].
    unfold booked. change (in_zone (j_countries J) (cur_of_sec J mk) s) with (inh s).
    rewrite Hz, (find_sec_sid _ _ _ Fj), (in_zone_cur J a s Ha). exact L. }
  (* a sector that the step does not reach *)
  assert (OUTC : forall (q : sector -> bool) r osecs rs,
            Forall2 (fun j s => find_sec j Z = Some s) (map fst others ++ [r]) (osecs ++ [rs]) ->
            filter q Z' = filter q Z -> Forall (fun s => q s = false) (osecs ++ [rs]) ->
            forall j s, find_sec j Z = Some s -> inh s = false -> q s = true ->
            exists s', find_sec j Z' = Some s' /\ lstep s s' (booked J mk (map fst others ++ [r]) s) /\
                       (inh s = false -> mem_nat j (map fst others ++ [r]) = false -> s' = s)).
  { intros q r osecs rs ALL EQ NQ j s Fj Hz Q.
    assert (MJ : mem_nat j (map fst others ++ [r]) = false).
    { destruct (mem_nat j _) eqn:M; [|reflexivity]. apply mem_nat_In in M.
      pose proof (Forall2_lookup_sec _ _ _ _ _ ALL M Fj) as Hin. rewrite Forall_forall in NQ. rewrite (NQ s Hin) in Q. discriminate. }
    exists s. split; [apply (find_outside q Z Z' j s ND ND' EQ Fj Q)|]. split; [|intros _ _; reflexivity].
    unfold booked. change (in_zone (j_countries J) (cur_of_sec J mk) s) with (inh s).
    rewrite Hz, (find_sec_sid _ _ _ Fj), MJ. apply lstep_refl. }
  destruct CASES as [[_ LO]|[(acur & SC & FO)|(a0 & b & l & SC & MO)]].
  - destruct (local_market_facts J _ i mk Z _ res others ND Fs HF SO LO) as (W' & r & osecs & rs & MF & P1 & P2 & INP).
    exists r. split; [rewrite <- (mf_home _ _ _ _ _ _ _ _ _ _ _ _ _ _ MF); apply (mf_res _ _ _ _ _ _ _ _ _ _ _ _ _ _ MF)|].
    intros j s Hji Fj _. assert (Hz : inh s = true \/ inh s = false) by (destruct (inh s); auto). destruct Hz as [Hz|Hz].
    + eapply HOMEC; try eassumption; reflexivity.
    + apply (OUTC (notb inh) r osecs rs (mf_all _ _ _ _ _ _ _ _ _ _ _ _ _ _ MF) P2); auto.
      * eapply Forall_impl; [|exact INP]. intros x Hx0. unfold notb. fold inh in Hx0. now rewrite Hx0.
      * unfold notb. now rewrite Hz.
  - destruct (foreign_market_facts J _ i mk acur Z _ res others ND Fs HF FO) as (W' & r & osecs & rs & MF & HOME & ABR & OUT & INP & Nha).
    exists r. split; [rewrite <- (mf_home _ _ _ _ _ _ _ _ _ _ _ _ _ _ MF); apply (mf_res _ _ _ _ _ _ _ _ _ _ _ _ _ _ MF)|].
    set (ina := in_zone (j_countries J) acur) in *. fold inh in HOME, OUT, INP, MF.
    intros j s Hji Fj Hzone. assert (Hz : inh s = true \/ inh s = false) by (destruct (inh s); auto).
    destruct Hz as [Hz|Hz]; [eapply HOMEC; try eassumption; reflexivity|].
    destruct Hzone as [Hzone|NN]; [congruence|].
    destruct (ina s) eqn:Ha.
    + apply (ABRC acur ina W' r osecs rs MF); auto. rewrite <- ABR. symmetry. apply filter_sub. auto.
    + apply (OUTC (notb (fun x => inh x || ina x || in_zone (j_countries J) NUM x)) r osecs rs (mf_all _ _ _ _ _ _ _ _ _ _ _ _ _ _ MF) OUT); auto.
      * eapply Forall_impl; [|exact INP]. intros x Hx0. unfold notb. cbn beta in Hx0. now rewrite Hx0.
      * unfold notb. now rewrite Hz, Ha, NN.
  - destruct (multi_market_facts J _ i mk _ Z _ res others ND Fs HF MO) as (_ & OUT & ALLA). fold inh in OUT, ALLA.
    set (scs := supplier_currencies J Z (cur_of_sec J mk) (map fst others ++ match res with Some r => [r] | None => [] end)) in *.
    destruct (ALLA a0) as (W0 & r & osecs & rs & MF0 & HOME0 & _ & _ & INP); [rewrite SC; now left|].
    exists r. split; [rewrite <- (mf_home _ _ _ _ _ _ _ _ _ _ _ _ _ _ MF0); apply (mf_res _ _ _ _ _ _ _ _ _ _ _ _ _ _ MF0)|].
    intros j s Hji Fj Hzone. assert (Hz : inh s = true \/ inh s = false) by (destruct (inh s); auto).
    destruct Hz as [Hz|Hz]; [eapply HOMEC; try eassumption; reflexivity|].
    destruct Hzone as [Hzone|NN]; [congruence|].
    destruct (mem (cur_of_sec J s) scs) eqn:MS.
    + apply mem_In in MS. set (a := cur_of_sec J s) in *.
      destruct (ALLA a MS) as (W' & r' & osecs' & rs' & MF & _ & ABR & _ & _).
      assert (r' = r).
      { pose proof (mf_res _ _ _ _ _ _ _ _ _ _ _ _ _ _ MF) as T1. pose proof (mf_res _ _ _ _ _ _ _ _ _ _ _ _ _ _ MF0) as T2.
        cbn [home] in T1, T2. rewrite T1 in T2. now injection T2. }
      subst r'.
      apply (ABRC a (notb inh) W' r osecs' rs' MF ABR); auto.
      * unfold notb. now rewrite Hz.
      * unfold a, in_zone, cur_of_sec. apply String.eqb_refl.
    + apply (OUTC (notb (fun x => inh x || in_any J scs x || in_zone (j_countries J) NUM x)) r osecs rs (mf_all _ _ _ _ _ _ _ _ _ _ _ _ _ _ MF0) OUT); auto.
      * eapply Forall_impl; [|exact INP]. intros x [Hx0|Hx0]; unfold notb.
        -- now rewrite Hx0.
        -- assert (T : in_any J scs x = true).
           { unfold in_any. apply existsb_exists. exists (cur_of_sec J x). split; [exact Hx0|]. unfold in_zone, cur_of_sec. apply String.eqb_refl. }
           rewrite T, orb_true_r. reflexivity.
      * unfold notb. rewrite Hz, NN.
        assert (T : in_any J scs s = false).
        { unfold in_any. destruct (existsb _ scs) eqn:EX; [|reflexivity]. apply existsb_exists in EX as (c & Hc & Hzc).
          rewrite <- (in_zone_cur J c s Hzc) in Hc. apply mem_In in Hc. congruence. }
        now rewrite T.
Qed.

(** C18, third sentence, for markets: the demanders a market aggregates are sectors of its own currency
    zone, and a sector of another zone (the FX intermediary's own zone apart) is not touched by the
    market's step unless it was explicitly declared a supplier *)
Corollary main2_market_zone_isolation p Rn : build_run2 p = Ok Rn -> no_conflict2b p = true ->
  forall i st st' mk, List.In ((i, COld CMarket), st, st') (q_gen Rn) -> find_sec i (h_zone st) = Some mk ->
    let J := q_info Rn in
    let Z := h_zone st in
    let inh := in_zone (j_countries J) (cur_of_sec J mk) in
    (forall d, List.In d (mkt_demanders J Z mk) -> List.In d Z /\ inh d = true /\ has_var d (Market.dem_name mk d) = true) /\
    (forall d, List.In d Z -> inh d = true -> sid d <> sid mk -> has_var d (Market.dem_name mk d) = true ->
               List.In d (mkt_demanders J Z mk)) /\
    exists r, the_residual (zone_of J Z mk) mk (fst (sup_of i (j_sup J))) = Ok r /\
      forall j s, find_sec j Z = Some s -> inh s = false -> in_zone (j_countries J) NUM s = false ->
        ~ List.In j (sup_ids J i r) -> find_sec j (h_zone st') = Some s.
Proof.
  intros HR NC i st st' mk Hx Fs J Z inh. split; [|split].
  - intros d Hd. unfold mkt_demanders, demanders, zone_of in Hd. apply filter_In in Hd as [Hd D]. apply filter_In in Hd as [Hd Hz].
    unfold demander in D. apply andb_true_iff in D as [_ D]. auto.
  - intros d Hd Hz Hn Hv. unfold mkt_demanders, demanders, zone_of. apply filter_In. split; [apply filter_In; auto|].
    unfold demander. rewrite Hv, andb_true_r. apply negb_true_iff. now apply Nat.eqb_neq.
  - destruct (main2_market_cash_flows _ _ HR NC _ _ _ _ Hx Fs) as (r & TR & CF). exists r. split; [exact TR|].
    intros j s Fj Hz NN NI.
    assert (Hji : j <> i).
    { intros ->. fold Z in Fj. unfold Z in Fj. rewrite Fs in Fj. injection Fj as <-. unfold inh, in_zone, cur_of_sec in Hz.
      rewrite String.eqb_refl in Hz. discriminate. }
    destruct (CF j s Hji Fj (or_intror NN)) as (s' & Fs' & _ & U). rewrite Fs'. f_equal. apply U; [exact Hz|].
    destruct (mem_nat j _) eqn:M; [|reflexivity]. apply mem_nat_In in M. contradiction.
Qed.

(* ------------------------------------------------------------------ *)
(** * Money and deposit markets, per currency zone *)

Lemma asset_entry p Rn i k st st' self : build_run2 p = Ok Rn -> no_conflict2b p = true ->
  List.In ((i, COld k), st, st') (q_gen Rn) -> find_sec i (h_zone st) = Some self ->
  (match k with CMoneyMarket _ | CDepositMarket _ => True | _ => False end) ->
  let J := q_info Rn in
  let p := in_zone (j_countries J) (cur_of_sec J self) in
  exists g, gen_step (to_old J) (mkG (zone_of J (h_zone st) self) []) (i, k) = Ok g /\
    gen_ok (filter p (fs_zone (q_final Rn))) (to_old J) ((i, k), mkG (zone_of J (h_zone st) self) [], g) = true /\
    Forall2 frame (g_zone g) (filter p (fs_zone (q_final Rn))) /\ find_sec i (zone_of J (h_zone st) self) = Some self.
Proof.
  intros HR NC Hx Fs Hk J q. destruct (run2_entry _ _ _ HR Hx) as [GS ND ND' FR HF]. cbn [fst snd] in *.
  pose proof (no_conflict2b_entry _ _ _ HR NC Hx) as HOK.
  unfold gen_ok2b, gen_ok2 in HOK. rewrite Fs in HOK. fold J in HOK.
  assert (LO : local_ok J (fs_zone (q_final Rn)) i k self (h_zone st) (h_zone st') = true).
  { destruct k; try contradiction; rewrite orb_false_r in HOK; exact HOK. }
  destruct (local_ok_inv J _ i k self _ _ ND Fs HF LO) as (g & G1 & _ & _ & G2 & G3 & G4). exists g. auto.
Qed.

(** money markets: total demand = the sum of the demands of the holders of the market's currency zone
    (every sector of the zone with F other than the issuer); the issuer's and the market's supply equal it *)
Theorem main2_money_markets_clear p Rn : build_run2 p = Ok Rn -> no_conflict2b p = true ->
  forall (v vprev : string -> R) (bv : string -> string -> R), sat (q_final Rn) v vprev bv ->
  forall i issuer st st' self, List.In ((i, COld (CMoneyMarket issuer)), st, st') (q_gen Rn) ->
    find_sec i (h_zone st) = Some self ->
    let c := code self in
    let ZZ := zone_of (q_info Rn) (h_zone st) self in
    exists m, market_at i ZZ = Some m /\
      v (fullname m (Common.dem_name c)) =
        CommonProofs.sumR (fun h => v (fullname h (Common.dem_name c))) (filter (money_holder issuer) ZZ) /\
      (forall s, List.In s ZZ -> money_issuer issuer s = true ->
         v (fullname s (Common.sup_name c)) = v (fullname m (Common.dem_name c))) /\
      v (fullname m (Common.sup_name c)) = v (fullname m (Common.dem_name c)).
Proof.
  intros HR NC v vprev bv HS i issuer st st' self Hx Fs c ZZ.
  destruct (asset_entry _ _ _ _ _ _ _ HR NC Hx Fs I) as (g & GS & HOK & HF & FP). fold ZZ in GS, HOK, FP.
  unfold gen_ok in HOK. cbn [g_zone] in HOK. rewrite FP in HOK. apply andb_true_iff in HOK as [K _].
  unfold gen_step in GS. cbn [g_zone] in GS. rewrite FP in GS. apply (same_flows_inv (mkG ZZ [])) in GS.
  apply money_generate_checked_ok in GS as [GS ISS].
  destruct (PropAsset.Money_clears c issuer i _ _ GS v bv) as (m & M1 & M2 & M3 & M4).
  - intros s' Hs'. split; eapply (kept_holds v vprev bv (mkFS _ [] []) _ _ (sat_filter _ _ _ _ _ HS) K HF s' _ Hs'); unfold asset_sel; simpl; auto.
  - exists m. repeat split; auto.
Qed.

(** deposit markets, likewise *)
Theorem main2_deposit_markets_clear p Rn : build_run2 p = Ok Rn -> no_conflict2b p = true ->
  forall (v vprev : string -> R) (bv : string -> string -> R), sat (q_final Rn) v vprev bv ->
  forall i issuer st st' self, List.In ((i, COld (CDepositMarket issuer)), st, st') (q_gen Rn) ->
    find_sec i (h_zone st) = Some self ->
    let c := code self in
    let ZZ := zone_of (q_info Rn) (h_zone st) self in
    exists m, market_at i ZZ = Some m /\
      v (fullname m (Common.dem_name c)) =
        CommonProofs.sumR (fun h => v (fullname h (Common.dem_name c))) (filter (dep_holder c issuer) ZZ) /\
      (forall s, List.In s ZZ -> dep_issuer issuer s = true ->
         v (fullname s (Common.sup_name c)) = v (fullname m (Common.dem_name c))) /\
      v (fullname m (Common.sup_name c)) = v (fullname m (Common.dem_name c)).
Proof.
  intros HR NC v vprev bv HS i issuer st st' self Hx Fs c ZZ.
  destruct (asset_entry _ _ _ _ _ _ _ HR NC Hx Fs I) as (g & GS & HOK & HF & FP). fold ZZ in GS, HOK, FP.
  unfold gen_ok in HOK. cbn [g_zone] in HOK. rewrite FP in HOK. apply andb_true_iff in HOK as [HOK _].
  unfold deposit_ok in HOK. repeat (apply andb_true_iff in HOK as [HOK ?]). rename HOK into K.
  unfold gen_step in GS. cbn [g_zone] in GS. rewrite FP in GS. apply (same_flows_inv (mkG ZZ [])) in GS.
  apply deposit_generate_checked_ok in GS as [GS (i0 & ISS)].
  destruct (PropAsset.Deposit_clears c issuer i _ _ GS v bv) as (m & M1 & M2 & M3 & M4).
  - intros s' Hs'. split; eapply (kept_holds v vprev bv (mkFS _ [] []) _ _ (sat_filter _ _ _ _ _ HS) K HF s' _ Hs'); unfold asset_sel; simpl; auto.
  - exists m. repeat split; auto. apply M4. exists i0.
    assert (Hin : List.In i0 (filter (dep_issuer issuer) ZZ)) by (rewrite ISS; now left).
    apply filter_In in Hin. exact Hin.
Qed.
