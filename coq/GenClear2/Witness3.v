(** Concrete programs for the multi-currency C04 theorems: the side conditions hold on the open-economy,
    gold-standard and embedded single-currency examples; miniatures in which they fail and so do the
    conclusions (a foreign supplier's supply variable made exogenous; a market's total demand made
    exogenous; a portfolio demand overwritten); and a two-zone miniature showing that summing the demand
    variables of ALL sectors of the model (instead of the market's zone) is wrong. *)
From Coq Require Import List String Bool ZArith Arith Lia Reals Lra.
From SFC.Base Require Import Res Str Sorting.
From SFC.Gen Require Import Fx Zone.
From SFC.GenMarket Require Import Market MarketProofs.
From SFC.GenAsset Require Import Common Weighting.
From SFC.GenMain2 Require Import Program Classes Main Conflict Balance Witness Program2 Main2 Conflict2 Witness2.
From SFC.GenClear2 Require Import Side2 Portfolio.
Import ListNotations.
Local Open Scope string_scope.

(* ------------------------------------------------------------------ *)
(** * The side conditions hold on the example programs *)

Lemma OPEN_clear : is_ok (build2 p_OPEN) = true /\ no_conflict2c p_OPEN = true.
Proof. vm_compute. split; reflexivity. Qed.
Lemma GOLD_clear : is_ok (build2 p_GOLD) = true /\ no_conflict2c p_GOLD = true.
Proof. vm_compute. split; reflexivity. Qed.
Lemma SIM_clear : is_ok (build2 (map embed_step p_SIM)) = true /\ no_conflict2c (map embed_step p_SIM) = true.
Proof. vm_compute. split; reflexivity. Qed.
Lemma PC_portfolio : no_conflict2c (map embed_step p_PC) = true /\ portfolio_ok2 (map embed_step p_PC) = true /\ portfolio_ok p_PC = true.
Proof. vm_compute. repeat split; reflexivity. Qed.

(** a third zone JP whose firm also supplies CA's goods market: CA_GOOD is supplied from TWO other zones,
    [no_conflict2] is false (outside it), [no_conflict2b] / [no_conflict2c] hold *)
Definition jp_ops : list step2 :=
  [ S2Op (UOld (OSetExogenous 15 "DEM_GOOD" "[22.0]*40"));
    S2Op (UOld (OAddSupplier 5 17 (Some "0.05*DEM_GOOD"))) ].
Definition p_THREE : program2 := (p_OPEN ++ [S2Country "JP" None false] ++ economy 3 (COld CGov) ++ jp_ops)%list.

Lemma THREE_clear : is_ok (build2 p_THREE) = true /\ no_conflict2 p_THREE = false /\
  no_conflict2b p_THREE = true /\ no_conflict2c p_THREE = true.
Proof. vm_compute. repeat split; reflexivity. Qed.

(** what the markets of the open economy aggregate: US_HH and US_GOV own DEM_GOOD too, but CA's goods
    market sums the two CA demands only; its suppliers are US_BUS (other zone, declared) and CA_BUS *)
Lemma OPEN_members : market_members p_OPEN =
  [ mkMembers "CA_LAB" ["CA_BUS__DEM_LAB"] [("CA_HH", true)];
    mkMembers "CA_GOOD" ["CA_GOV__DEM_GOOD"; "CA_HH__DEM_GOOD"] [("US_BUS", false); ("CA_BUS", true)];
    mkMembers "US_LAB" ["US_BUS__DEM_LAB"] [("US_HH", true)];
    mkMembers "US_GOOD" ["US_GOV__DEM_GOOD"; "US_HH__DEM_GOOD"] [("US_BUS", true)] ].
Proof. vm_compute. reflexivity. Qed.

(* ------------------------------------------------------------------ *)
(** * A two-zone miniature: CA's goods market supplied by a US sector *)

(** CA_GOV demands 5 of the good of CA's market; US_GOV (another currency zone) is the market's only
    supplier; US_GOV also owns a variable DEM_CA_GOOD (it would be a demander if it were in CA's zone) *)
Definition p_mini : program2 :=
  [ S2Country "CA" None false; S2Sector 0 "GOV" (COld CGov); S2Sector 0 "GOOD" (COld CMarket);
    S2External;
    S2Country "US" None false; S2Sector 2 "GOV" (COld CGov);
    S2Op (UOld (OAddVariable 0 "DEM_GOOD" "5."));
    S2Op (UOld (OAddVariable 5 "DEM_CA_GOOD" "3."));
    S2Op (UOld (OAddSupplier 1 5 None)) ].

Definition run_of (p : program2) : run2 :=
  match build_run2 p with Ok r => r | Err _ => mkRun2 (mkI2 [] [] [] None) [] [] [] [] (mkFS [] [] []) end.

Local Open Scope R_scope.

Definition bv_mini (fc b : string) : R :=
  if String.eqb b "5." then 5 else if String.eqb b "3." then 3 else if String.eqb b "1.0" then 1
  else if String.eqb b "CA/US" then 1 else 0.

(** demand [d] flows through the market to the supplier; [own] is the supplier's own supply variable *)
Definition v_flow (gov d own : R) (x : string) : R :=
  if String.eqb x "CA_GOV__DEM_GOOD" then gov else if String.eqb x "CA_GOV__F" then - gov
  else if String.eqb x "CA_GOV__INC" then - gov
  else if String.eqb x "CA_GOOD__DEM_GOOD" then d else if String.eqb x "CA_GOOD__SUP_GOOD" then d
  else if String.eqb x "CA_GOOD__SUP_US_GOV" then d
  else if String.eqb x "EXT_XR__CA" then 1 else if String.eqb x "EXT_XR__US" then 1
  else if String.eqb x "EXT_XR__NUMERAIRE" then 1 else if String.eqb x "EXT_XR__CA_US" then 1
  else if String.eqb x "EXT_FX__NET_CA" then d else if String.eqb x "EXT_FX__NET_US" then - d
  else if String.eqb x "US_GOV__F" then d else if String.eqb x "US_GOV__INC" then d
  else if String.eqb x "US_GOV__DEM_CA_GOOD" then 3 else if String.eqb x "US_GOV__SUP_CA_GOOD" then own
  else 0.

Lemma bv_mini_zero : bv_zero bv_mini.
Proof. intros fc. split; reflexivity. Qed.

Ltac sat_by_rows Rn :=
  apply sat_intro; let L := fresh "L" in set (L := compiled (q_final Rn)); vm_compute in L; subst L;
  repeat constructor; unfold sem1, eqn_val, v_flow, bv_mini; simpl; unfold tval_in; simpl; lra.

(** the well-formed miniature: every condition holds, the valuation satisfies the system *)
Lemma mini_ok : build_run2 p_mini = Ok (run_of p_mini) /\ no_conflict2c p_mini = true /\
  sat (q_final (run_of p_mini)) (v_flow 5 5 5) (fun _ => 0) bv_mini.
Proof.
  split; [vm_compute; reflexivity|]. split; [vm_compute; reflexivity|]. sat_by_rows (run_of p_mini).
Qed.

(** ... and in it, summing the demand variables of every sector of the MODEL that owns one (US_GOV's
    DEM_CA_GOOD = 3 included) does not give the market's total demand: the zone restriction of
    [main2_goods_markets_clear] is what the code does *)
Definition mini_entry : (nat * cls2) * gstate2 * gstate2 :=
  nth 1 (q_gen (run_of p_mini)) ((0%nat, CXR), mkG2 [] [] [], mkG2 [] [] []).
Definition mini_Z : zone := h_zone (snd (fst mini_entry)).
Definition mini_mk : sector := match find_sec 1 mini_Z with Some s => s | None => dummy "" end.

Theorem all_zones_reading_refuted :
  List.In mini_entry (q_gen (run_of p_mini)) /\ fst (fst mini_entry) = (1%nat, COld CMarket) /\
  find_sec 1 mini_Z = Some mini_mk /\
  map fullcode (demanders mini_mk mini_Z) = ["CA_GOV"; "US_GOV"] /\
  map fullcode (mkt_demanders (q_info (run_of p_mini)) mini_Z mini_mk) = ["CA_GOV"] /\
  v_flow 5 5 5 (full_name mini_mk (dem_short mini_mk)) <>
    zsum (fun d => v_flow 5 5 5 (full_name d (Market.dem_name mini_mk d))) (demanders mini_mk mini_Z).
Proof.
  split; [unfold mini_entry; apply nth_In; vm_compute; lia|]. split; [vm_compute; reflexivity|].
  split; [vm_compute; reflexivity|]. split; [vm_compute; reflexivity|]. split; [vm_compute; reflexivity|].
  set (L := demanders mini_mk mini_Z). vm_compute in L. subst L.
  set (M := mini_mk). vm_compute in M. subst M.
  unfold zsum, full_name, Market.dem_name, share_parent, dem_short, dem_long. simpl. unfold v_flow. simpl. lra.
Qed.

(** the supplier's supply variable made exogenous after the fact: [no_conflict2] still holds (the
    bookings do not use that variable) but [no_conflict2c] does not, and the variable is free *)
Definition p_mini_x : program2 := (p_mini ++ [S2Op (UOld (OSetExogenous 5 "SUP_CA_GOOD" "[7.0]*10"))])%list.

Theorem foreign_supplier_amount_refuted :
  build_run2 p_mini_x = Ok (run_of p_mini_x) /\ no_conflict2 p_mini_x = true /\ no_conflict2c p_mini_x = false /\
  bv_zero bv_mini /\ sat (q_final (run_of p_mini_x)) (v_flow 5 5 7) (fun _ => 0) bv_mini /\
  v_flow 5 5 7 "US_GOV__SUP_CA_GOOD" <> v_flow 5 5 7 "CA_GOOD__SUP_US_GOV" * v_flow 5 5 7 "EXT_XR__CA_US".
Proof.
  split; [vm_compute; reflexivity|]. split; [vm_compute; reflexivity|]. split; [vm_compute; reflexivity|].
  split; [exact bv_mini_zero|]. split; [sat_by_rows (run_of p_mini_x)|]. unfold v_flow. simpl. lra.
Qed.

(** the market's total demand made exogenous: [no_conflict2b] fails, and total demand is no longer the
    sum of the demands *)
Definition p_mini_d : program2 := (p_mini ++ [S2Op (UOld (OSetExogenous 1 "DEM_GOOD" "[7.0]*10"))])%list.

Theorem markets_clear_refuted :
  build_run2 p_mini_d = Ok (run_of p_mini_d) /\ no_conflict2b p_mini_d = false /\
  sat (q_final (run_of p_mini_d)) (v_flow 5 7 7) (fun _ => 0) bv_mini /\
  v_flow 5 7 7 "CA_GOOD__DEM_GOOD" <> v_flow 5 7 7 "CA_GOV__DEM_GOOD".
Proof.
  split; [vm_compute; reflexivity|]. split; [vm_compute; reflexivity|].
  split; [sat_by_rows (run_of p_mini_d)|]. unfold v_flow. simpl. lra.
Qed.

(* ------------------------------------------------------------------ *)
(** * A portfolio demand overwritten after GenerateAssetWeighting *)

Definition p_pf : program2 :=
  [ S2Country "CA" None false; S2Sector 0 "HH" (COld CGov);
    S2Op (UOld (OAssetWeighting 0 [("DEP", "0.4")] "MON")) ].
Definition p_pf_bad : program2 := (p_pf ++ [S2Op (UOld (OAddVariable 0 "DEM_DEP" "7."))])%list.

Definition bv_pf (fc b : string) : R := if String.eqb b "0.4" then 4 / 10 else if String.eqb b "7." then 7 else 0.
Definition v_pf (dep : R) (x : string) : R :=
  if String.eqb x "HH__F" then 10 else if String.eqb x "HH__LAG_F" then 10
  else if String.eqb x "HH__WGT_DEP" then 4 / 10 else if String.eqb x "HH__WGT_MON" then 6 / 10
  else if String.eqb x "HH__DEM_DEP" then dep else if String.eqb x "HH__DEM_MON" then 6 else 0.
Definition vprev_pf (x : string) : R := if String.eqb x "HH__F" then 10 else 0.

Ltac sat_pf Rn :=
  apply sat_intro; let L := fresh "L" in set (L := compiled (q_final Rn)); vm_compute in L; subst L;
  repeat constructor; unfold sem1, eqn_val, v_pf, vprev_pf, bv_pf; simpl; unfold tval_in; simpl; lra.

Lemma pf_ok : build_run2 p_pf = Ok (run_of p_pf) /\ portfolio_ok2 p_pf = true /\
  sat (q_final (run_of p_pf)) (v_pf 4) vprev_pf bv_pf /\ v_pf 4 "HH__DEM_DEP" + (v_pf 4 "HH__DEM_MON" + 0) = v_pf 4 "HH__F".
Proof.
  split; [vm_compute; reflexivity|]. split; [vm_compute; reflexivity|]. split; [sat_pf (run_of p_pf)|].
  unfold v_pf. simpl. lra.
Qed.

Theorem portfolio_adds_up_refuted :
  build_run2 p_pf_bad = Ok (run_of p_pf_bad) /\ portfolio_ok2 p_pf_bad = false /\
  sat (q_final (run_of p_pf_bad)) (v_pf 7) vprev_pf bv_pf /\
  v_pf 7 "HH__DEM_DEP" + (v_pf 7 "HH__DEM_MON" + 0) <> v_pf 7 "HH__F".
Proof.
  split; [vm_compute; reflexivity|]. split; [vm_compute; reflexivity|]. split; [sat_pf (run_of p_pf_bad)|].
  unfold v_pf. simpl. lra.
Qed.
