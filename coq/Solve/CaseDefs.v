(** Boolean comparison helpers used by the generated correspondence cases (C02, C10, C11). *)
From Coq Require Import List String Bool Arith PrimFloat.
From SFC.Base Require Import Res Str Expr.
From SFC.Solve Require Import Types Init Step Run Orig Validate.
Import ListNotations.

Fixpoint list_eqb {A} (eqb : A -> A -> bool) (a b : list A) : bool :=
  match a, b with
  | [], [] => true
  | x :: a', y :: b' => eqb x y && list_eqb eqb a' b'
  | _, _ => false
  end.

Definition opt_err_eqb (a b : option err) : bool :=
  match a, b with
  | None, None => true
  | Some e, Some f => err_eqb e f
  | _, _ => false
  end.

(** same keys, and bit-identical series under every key *)
Definition ts_eqb (model py : tseries) : bool :=
  Nat.eqb (List.length model) (List.length py) &&
  forallb (fun xv => match lookup (fst xv) model with
                     | Some ms => list_eqb same_float ms (snd xv)
                     | None => false
                     end) py.

(** the public step trace of period [tp]: number of sweeps started and the
    'iteration_error' column (1.0, then the error of every sweep but the last started) *)
Definition trace_ok (r : run_res) (tp : nat) (sweeps : nat) (errs : list float) : bool :=
  match nth_error (rr_sweeps r) (tp - 1), nth_error (rr_traces r) (tp - 1) with
  | Some m, Some tr =>
      Nat.eqb m sweeps &&
      list_eqb same_float (firstn m (1%float :: map fst tr)) errs
  | _, _ => false
  end.

(** One solve: outcome class, the series as they stand, and (when a period was traced and
    reached) its sweep count and error column. *)
Definition solve_case_gen (r : run_res) (oe : option err) (ts : tseries)
           (traced : option (nat * nat * list float)) : bool :=
  opt_err_eqb (rr_err r) oe && ts_eqb (rr_ts r) ts &&
  match traced with
  | None => true
  | Some (tp, m, errs) => trace_ok r tp m errs
  end.

Definition solve_case (p : pstate) := solve_case_gen (run p).
Definition solve_case_orig (p : pstate) := solve_case_gen (run_orig p).

(** ValidateInputs on the parser's AllEquations/Tokens with the interpreter's reserved lists *)
Definition validate_case (alleqs : list (string * list string)) (bad_vars bad_tokens : list string)
           (oe : option err) : bool :=
  opt_err_eqb (match validate alleqs bad_vars bad_tokens with Ok _ => None | Err e => Some e end) oe.
