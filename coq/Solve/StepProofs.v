(** Facts about one period ([_SolveStep], Step.v). *)
From Coq Require Import List String Bool Arith Lia PrimFloat Permutation.
From SFC.Base Require Import Res Str Expr.
From SFC.Solve Require Import Types Maps Step.
Import ListNotations.
Local Open Scope string_scope.
Local Open Scope list_scope.

(* ------------------------------------------------------------------ append_all *)
Lemma append_all_spec names e k : forall ts ts',
  append_all names e k ts = (ts', None) ->
  NoDup names /\
  (forall x, In x names -> exists l, lookup x ts = Some l /\ List.length l = k /\
                                     lookup x ts' = Some (l ++ [getv x e])) /\
  (forall x, ~ In x names -> lookup x ts' = lookup x ts).
Proof.
  induction names as [|y r IH]; simpl; intros ts ts' H.
  - inversion H; subst. split; [constructor|]. split; [tauto|auto].
  - destruct (lookup y ts) as [l|] eqn:El; [|discriminate].
    destruct (Nat.eqb (List.length l) k) eqn:Ek; [|discriminate].
    apply Nat.eqb_eq in Ek.
    destruct (IH _ _ H) as [I1 [I2 I3]].
    assert (Hy : ~ In y r).
    { intros Hin. destruct (I2 y Hin) as [l' [Hl' [Hlen _]]].
      rewrite lookup_set_eq in Hl'. inversion Hl'; subst l'. rewrite app_length in Hlen. simpl in Hlen. lia. }
    split; [now constructor|]. split.
    + intros x [<-|Hin].
      * exists l. repeat split; auto. rewrite (I3 y Hy). apply lookup_set_eq.
      * destruct (I2 x Hin) as [l' [Hl' [Hlen Hts']]].
        assert (x <> y) by (intros ->; tauto).
        rewrite lookup_set_neq in Hl' by congruence. eauto.
    + intros x Hn. rewrite I3 by tauto. apply lookup_set_neq. intros ->; tauto.
Qed.

Lemma append_all_ok names e k : forall ts,
  NoDup names ->
  (forall x, In x names -> exists l, lookup x ts = Some l /\ List.length l = k) ->
  snd (append_all names e k ts) = None.
Proof.
  induction names as [|y r IH]; simpl; intros ts Hnd Hl; [reflexivity|].
  inversion Hnd as [|? ? Hy Hnd']; subst.
  destruct (Hl y (or_introl eq_refl)) as [l [El Ek]]. rewrite El.
  apply Nat.eqb_eq in Ek. rewrite Ek. apply IH; [assumption|].
  intros x Hin. destruct (Hl x (or_intror Hin)) as [l' [El' Ek']].
  exists l'. split; [|assumption]. rewrite lookup_set_neq; [assumption|]. intros ->; tauto.
Qed.

(* ------------------------------------------------------------------ starting environment *)
Lemma pin_exo_spec exo ts k : forall ini ini',
  pin_exo exo ts k ini = Ok ini' ->
  (forall x, In x (map fst exo) -> exists v, nth_ts ts x k = Ok v /\ lookup x ini' = Some v) /\
  (forall x, ~ In x (map fst exo) -> lookup x ini' = lookup x ini).
Proof.
  induction exo as [|[y s] r IH]; simpl; intros ini ini' H.
  - inversion H; subst. split; [tauto|auto].
  - destruct (nth_ts ts y k) as [v|] eqn:Ev; [|discriminate].
    destruct (IH _ _ H) as [I1 I2]. split.
    + intros x [<-|Hin].
      * destruct (in_dec string_dec y (map fst r)) as [Hi|Hni]; [now apply I1|].
        exists v. split; [exact Ev|]. rewrite (I2 y Hni). apply lookup_set_eq.
      * eauto.
    + intros x Hn. rewrite I2 by tauto. apply lookup_set_neq. intros ->; tauto.
Qed.

Lemma pin_lag_spec lagged ts k : forall ini ini',
  pin_lag lagged ts k ini = Ok ini' ->
  (NoDup (map fst lagged) -> forall x src, In (x, src) lagged ->
      exists v, nth_ts ts src (k - 1) = Ok v /\ lookup x ini' = Some v) /\
  (forall x, ~ In x (map fst lagged) -> lookup x ini' = lookup x ini).
Proof.
  induction lagged as [|[y s] r IH]; simpl; intros ini ini' H.
  - inversion H; subst. split; [tauto|auto].
  - destruct (nth_ts ts s (k - 1)) as [v|] eqn:Ev; [|discriminate].
    destruct (IH _ _ H) as [I1 I2]. split.
    + intros Hnd x src [Heq|Hin]; inversion Hnd as [|? ? Hy Hnd']; subst.
      * inversion Heq; subst. exists v. split; [assumption|]. rewrite (I2 x Hy). apply lookup_set_eq.
      * eauto.
    + intros x Hn. rewrite I2 by tauto. apply lookup_set_neq. intros ->; tauto.
Qed.

Lemma guess_spec endo ts k : forall ini ini',
  guess endo ts k ini = Ok ini' ->
  (forall x, In x (map fst endo) -> exists v, nth_ts ts x (k - 1) = Ok v /\ lookup x ini' = Some v) /\
  (forall x, ~ In x (map fst endo) -> lookup x ini' = lookup x ini).
Proof.
  induction endo as [|[y s] r IH]; simpl; intros ini ini' H.
  - inversion H; subst. split; [tauto|auto].
  - destruct (nth_ts ts y (k - 1)) as [v|] eqn:Ev; [|discriminate].
    destruct (IH _ _ H) as [I1 I2]. split.
    + intros x [<-|Hin].
      * destruct (in_dec string_dec y (map fst r)) as [Hi|Hni]; [now apply I1|].
        exists v. split; [exact Ev|]. rewrite (I2 y Hni). apply lookup_set_eq.
      * eauto.
    + intros x Hn. rewrite I2 by tauto. apply lookup_set_neq. intros ->; tauto.
Qed.

Record start_facts (p : pstate) (exo : list (string * exo_spec)) (ts : tseries) (k : nat) (ini : env) : Prop := {
  sf_endo : forall x, In x (endo_names p) -> exists v, nth_ts ts x (k - 1) = Ok v /\ lookup x ini = Some v;
  sf_lag : NoDup (lag_names p) -> forall x src, In (x, src) (p_lagged p) -> ~ In x (endo_names p) ->
             exists v, nth_ts ts src (k - 1) = Ok v /\ lookup x ini = Some v;
  sf_exo : forall x, In x (map fst exo) -> ~ In x (lag_names p) -> ~ In x (endo_names p) ->
             exists v, nth_ts ts x k = Ok v /\ lookup x ini = Some v;
  sf_keys : forall x, has x ini = true -> In x (map fst exo) \/ In x (lag_names p) \/ In x (endo_names p)
}.

Lemma start_env_facts p exo ts k ini : start_env p exo ts k = Ok ini -> start_facts p exo ts k ini.
Proof.
  unfold start_env. intros H.
  destruct (pin_exo exo ts k []) as [i1|] eqn:E1; [|discriminate].
  destruct (pin_lag (p_lagged p) ts k i1) as [i2|] eqn:E2; [|discriminate].
  destruct (pin_exo_spec _ _ _ _ _ E1) as [X1 X2].
  destruct (pin_lag_spec _ _ _ _ _ E2) as [L1 L2].
  destruct (guess_spec _ _ _ _ _ H) as [G1 G2].
  constructor.
  - exact G1.
  - intros Hnd x src Hin Hne. destruct (L1 Hnd x src Hin) as [v [Hv Hl]].
    exists v. split; [assumption|]. unfold endo_names in Hne. now rewrite (G2 x Hne).
  - intros x Hin Hnl Hne. destruct (X1 x Hin) as [v [Hv Hl]].
    exists v. split; [assumption|]. unfold endo_names, lag_names in *. now rewrite (G2 x Hne), (L2 x Hnl).
  - intros x Hh. unfold endo_names, lag_names.
    destruct (in_dec string_dec x (map fst (p_endo p))) as [Hie|Hne]; [auto|].
    destruct (in_dec string_dec x (map fst (p_lagged p))) as [Hil|Hnl]; [auto|].
    destruct (in_dec string_dec x (map fst exo)) as [Hix|Hnx]; [auto|].
    exfalso. apply has_true_iff in Hh. destruct Hh as [v Hv].
    rewrite (G2 x Hne), (L2 x Hnl), (X2 x Hnx) in Hv. discriminate.
Qed.

(* ------------------------------------------------------------------ one sweep *)
Lemma eval_eq_had old x e had v had' : eval_eq old x e had = Ok (v, had') -> had = true -> had' = true.
Proof.
  unfold eval_eq. destruct (evalF (envf old) e) as [w|er].
  - intros H; inversion H; subst; auto.
  - destruct (tolerated er); intros H; inversion H; auto.
Qed.

Lemma eval_eq_err old x e had er : eval_eq old x e had = Err er -> er = NameError /\ evalF (envf old) e = Err NameError.
Proof.
  unfold eval_eq. destruct (evalF (envf old) e) as [w|er'] eqn:E; [discriminate|].
  destruct (evalF_err_class _ _ _ E) as [-> | [-> | ->]]; simpl; intros H; inversion H; auto.
Qed.

Lemma sweep_eqs_frame endo old : forall new rel had new' rel' had',
  sweep_eqs endo old new rel had = Ok (new', rel', had') ->
  forall x, ~ In x (map fst endo) -> lookup x new' = lookup x new.
Proof.
  induction endo as [|[y e] r IH]; simpl; intros new rel had new' rel' had' H x Hn.
  - inversion H; reflexivity.
  - destruct (eval_eq old y e had) as [[nv h]|]; [|discriminate].
    rewrite (IH _ _ _ _ _ _ H x) by tauto. apply lookup_set_neq. intros ->; tauto.
Qed.

Lemma sweep_eqs_keys endo old : forall new rel had new' rel' had',
  sweep_eqs endo old new rel had = Ok (new', rel', had') ->
  forall x, has x new' = true <-> (has x new = true \/ In x (map fst endo)).
Proof.
  induction endo as [|[y e] r IH]; simpl; intros new rel had new' rel' had' H x.
  - inversion H; subst. tauto.
  - destruct (eval_eq old y e had) as [[nv h]|]; [|discriminate].
    rewrite (IH _ _ _ _ _ _ H x), has_set.
    destruct (String.eqb_spec x y) as [->|Hn]; simpl; [tauto|].
    split; [intros [?|?]; auto|intros [?|[?|?]]; auto]; try congruence.
Qed.

Lemma sweep_eqs_had endo old : forall new rel had new' rel' had',
  sweep_eqs endo old new rel had = Ok (new', rel', had') -> had = true -> had' = true.
Proof.
  induction endo as [|[y e] r IH]; simpl; intros new rel had new' rel' had' H Hh.
  - inversion H; subst; auto.
  - destruct (eval_eq old y e had) as [[nv h]|] eqn:E; [|discriminate].
    eapply IH; [exact H|]. eapply eval_eq_had; eauto.
Qed.

(** with no evaluation error every new value is the value of its equation on the old vector *)
Lemma sweep_eqs_vals endo old : forall new rel had new' rel',
  sweep_eqs endo old new rel had = Ok (new', rel', false) -> NoDup (map fst endo) ->
  forall x e, In (x, e) endo -> exists v, evalF (envf old) e = Ok v /\ lookup x new' = Some v.
Proof.
  induction endo as [|[y e'] r IH]; simpl; intros new rel had new' rel' H Hnd x e Hin; [tauto|].
  inversion Hnd as [|? ? Hy Hnd']; subst.
  destruct (eval_eq old y e' had) as [[nv h]|] eqn:E; [|discriminate].
  destruct Hin as [Heq|Hin]; [|eauto].
  inversion Heq; subst.
  destruct h; [pose proof (sweep_eqs_had _ _ _ _ _ _ _ _ H eq_refl); discriminate|].
  unfold eval_eq in E. destruct (evalF (envf old) e) as [w|er]; [|destruct (tolerated er); discriminate].
  inversion E; subst. exists nv. split; [reflexivity|].
  rewrite (sweep_eqs_frame _ _ _ _ _ _ _ _ H x Hy). apply lookup_set_eq.
Qed.

Lemma sweep_eqs_err endo old : forall new rel had er,
  sweep_eqs endo old new rel had = Err er -> er = NameError.
Proof.
  induction endo as [|[y e] r IH]; simpl; intros new rel had er H; [discriminate|].
  destruct (eval_eq old y e had) as [[nv h]|er'] eqn:E; [eauto|].
  inversion H; subst. now destruct (eval_eq_err _ _ _ _ _ E).
Qed.

Lemma sweep_err p old er : sweep p old = Err er -> er = NameError.
Proof. unfold sweep. apply sweep_eqs_err. Qed.

(* ------------------------------------------------------------------ damping *)
Lemma damp_frame endo old : forall new x, ~ In x (map fst endo) -> lookup x (damp endo old new) = lookup x new.
Proof.
  induction endo as [|[y e] r IH]; simpl; intros new x Hn; [reflexivity|].
  rewrite IH by tauto. apply lookup_set_neq. intros ->; tauto.
Qed.

Lemma damp_keys endo old : forall new x, has x (damp endo old new) = true <-> (has x new = true \/ In x (map fst endo)).
Proof.
  induction endo as [|[y e] r IH]; simpl; intros new x; [tauto|].
  rewrite IH, has_set. destruct (String.eqb_spec x y) as [->|Hn]; simpl; [tauto|].
  split; [intros [?|?]; auto|intros [?|[?|?]]; auto]; try congruence.
Qed.

Lemma damp_val endo old : forall new x, NoDup (map fst endo) -> In x (map fst endo) ->
  lookup x (damp endo old new) = Some ((getv x new + getv x old) / 2)%float.
Proof.
  induction endo as [|[y e] r IH]; simpl; intros new x Hnd Hin; [tauto|].
  inversion Hnd as [|? ? Hy Hnd']; subst.
  destruct Hin as [<-|Hin].
  - rewrite damp_frame by assumption. apply lookup_set_eq.
  - rewrite IH by assumption. assert (x <> y) by (intros ->; tauto).
    unfold getv at 1. rewrite lookup_set_neq by congruence. reflexivity.
Qed.

(* ------------------------------------------------------------------ the sweep loop *)
Definition next_env (p : pstate) (cur new : env) (n : nat) : env :=
  if Nat.ltb 10 n then damp (p_endo p) cur new else new.

Lemma loop_eq fuel p cur rel had n tr :
  loop fuel p cur rel had n tr =
  if keep_going rel (p_tol p) then
    match fuel with
    | 0 => mkLR cur tr n (Some OutOfFuel)
    | S f =>
        match sweep p cur with
        | Err e => mkLR cur tr (S n) (Some e)
        | Ok (new, rel', had') =>
            let new' := next_env p cur new n in
            let tr' := tr ++ [(rel', had')] in
            if Nat.ltb (p_maxiter p) (S n)
            then mkLR new' tr' (S n) (Some (if had' then ValueError else ConvergenceError))
            else loop f p new' rel' had' (S n) tr'
        end
    end
  else mkLR cur tr n (if had then Some ValueError else None).
Proof. destruct fuel; reflexivity. Qed.

Section LoopInv.
Variable p : pstate.
Variable I : env -> nat -> Prop.
Hypothesis Hpres : forall cur n new rel had,
  I cur n -> sweep p cur = Ok (new, rel, had) -> I (next_env p cur new n) (S n).

Lemma loop_inv : forall fuel cur rel had n tr,
  I cur n -> exists n', I (lr_env (loop fuel p cur rel had n tr)) n'.
Proof.
  induction fuel as [|f IH]; intros cur rel had n tr HI; rewrite loop_eq.
  - destruct (keep_going rel (p_tol p)); simpl; eauto.
  - destruct (keep_going rel (p_tol p)); simpl; [|eauto].
    destruct (sweep p cur) as [[[new rel'] had']|e] eqn:Es; simpl; [|eauto].
    destruct (Nat.ltb (p_maxiter p) (S n)); simpl; [eauto|].
    apply IH. eapply Hpres; eauto.
Qed.

(** a period that leaves the loop without error did so right after a sweep whose error
    measure passed the stop test and which had no evaluation error (or did no sweep at all) *)
Lemma loop_witness : forall fuel cur rel had n tr,
  I cur n -> lr_err (loop fuel p cur rel had n tr) = None ->
  (keep_going rel (p_tol p) = false /\ had = false /\
   lr_env (loop fuel p cur rel had n tr) = cur /\ lr_trace (loop fuel p cur rel had n tr) = tr /\
   lr_sweeps (loop fuel p cur rel had n tr) = n) \/
  (exists u w r m pre, I u m /\ sweep p u = Ok (w, r, false) /\ keep_going r (p_tol p) = false /\
     lr_env (loop fuel p cur rel had n tr) = next_env p u w m /\ n <= m /\
     lr_trace (loop fuel p cur rel had n tr) = tr ++ pre ++ [(r, false)] /\
     lr_sweeps (loop fuel p cur rel had n tr) = S m).
Proof.
  induction fuel as [|f IH]; intros cur rel had n tr HI; rewrite loop_eq.
  - destruct (keep_going rel (p_tol p)) eqn:Ek; simpl; [discriminate|].
    destruct had; [discriminate|]. intros _. left. auto.
  - destruct (keep_going rel (p_tol p)) eqn:Ek; simpl.
    2:{ destruct had; [discriminate|]. intros _. left. auto. }
    destruct (sweep p cur) as [[[new rel'] had']|e] eqn:Es; simpl; [|discriminate].
    destruct (Nat.ltb (p_maxiter p) (S n)); simpl; [discriminate|].
    intros Hn. right.
    assert (HI' : I (next_env p cur new n) (S n)) by (eapply Hpres; eauto).
    destruct (IH _ _ _ _ _ HI' Hn) as [[K1 [K2 [K3 [K4 K5]]]]|[u [w [r [m [pre [W1 [W2 [W3 [W4 [W5 [W6 W7]]]]]]]]]]]].
    + subst had'. exists cur, new, rel', n, []. rewrite K3, K4, K5. simpl. repeat split; auto.
    + exists u, w, r, m, ((rel', had') :: pre). rewrite W4, W6, W7. rewrite <- app_assoc. simpl.
      repeat split; auto. lia.
Qed.
End LoopInv.

(** the loop is structurally bounded by the cap: fuel MaxIterations+1 is never exhausted *)
Lemma loop_bound p : forall fuel cur rel had n tr,
  fuel + n = S (p_maxiter p) -> n <= p_maxiter p ->
  lr_sweeps (loop fuel p cur rel had n tr) <= S (p_maxiter p) /\
  n <= lr_sweeps (loop fuel p cur rel had n tr) /\
  lr_err (loop fuel p cur rel had n tr) <> Some OutOfFuel.
Proof.
  induction fuel as [|f IH]; intros cur rel had n tr Hf Hn; [lia|]. rewrite loop_eq.
  destruct (keep_going rel (p_tol p)); simpl.
  2:{ repeat split; try lia. destruct had; discriminate. }
  destruct (sweep p cur) as [[[new rel'] had']|e] eqn:Es; simpl.
  - destruct (Nat.ltb (p_maxiter p) (S n)) eqn:Ec; simpl.
    + repeat split; try lia. destruct had'; discriminate.
    + apply Nat.ltb_ge in Ec.
      destruct (IH (next_env p cur new n) rel' had' (S n) (tr ++ [(rel', had')])) as [B1 [B2 B3]]; try lia.
      repeat split; auto; lia.
  - repeat split; try lia. rewrite (sweep_err _ _ _ Es). discriminate.
Qed.

(** classification of a failing period *)
Lemma loop_fail p : forall fuel cur rel had n tr e,
  fuel + n = S (p_maxiter p) -> n <= p_maxiter p ->
  lr_err (loop fuel p cur rel had n tr) = Some e ->
  (e = NameError /\ exists u, sweep p u = Err NameError) \/
  (lr_sweeps (loop fuel p cur rel had n tr) = S (p_maxiter p) /\
   exists pre r h, lr_trace (loop fuel p cur rel had n tr) = pre ++ [(r, h)] /\
                   e = (if h then ValueError else ConvergenceError)) \/
  (lr_sweeps (loop fuel p cur rel had n tr) <= p_maxiter p /\ e = ValueError /\
   exists r, keep_going r (p_tol p) = false /\
     ((lr_trace (loop fuel p cur rel had n tr) = tr /\ r = rel /\ had = true) \/
      exists pre, lr_trace (loop fuel p cur rel had n tr) = pre ++ [(r, true)])).
Proof.
  induction fuel as [|f IH]; intros cur rel had n tr e Hf Hn; [lia|]. rewrite loop_eq.
  destruct (keep_going rel (p_tol p)) eqn:Ek; simpl.
  2:{ destruct had; [|discriminate]. intros H; inversion H; subst.
      right; right. repeat split; auto. exists rel. split; [assumption|]. left; auto. }
  destruct (sweep p cur) as [[[new rel'] had']|e'] eqn:Es; simpl.
  - destruct (Nat.ltb (p_maxiter p) (S n)) eqn:Ec; simpl.
    + intros H; inversion H; subst. right; left. apply Nat.ltb_lt in Ec.
      split; [lia|]. exists tr, rel', had'. auto.
    + apply Nat.ltb_ge in Ec. intros H.
      assert (Hf' : f + S n = S (p_maxiter p)) by lia.
      destruct (IH (next_env p cur new n) rel' had' (S n) (tr ++ [(rel', had')]) e Hf' Ec H) as [F|[F|F]];
        [left; exact F|right; left; exact F|].
      right; right. destruct F as [F1 [F2 [r [F3 F4]]]]. repeat split; auto. exists r. split; [assumption|].
      destruct F4 as [[F4 [F5 F6]]|F4]; [|right; exact F4].
      right. exists tr. rewrite F4. subst. reflexivity.
  - intros H; inversion H; subst. left. pose proof (sweep_err _ _ _ Es) as He. subst e. eauto.
Qed.

(* ------------------------------------------------------------------ decorative pass *)
Lemma NoDup_fst_fun {A} (l : list (string * A)) x a b :
  NoDup (map fst l) -> In (x, a) l -> In (x, b) l -> a = b.
Proof.
  intros Hnd Ha Hb. apply NoDup_lookup in Ha; [|assumption]. apply NoDup_lookup in Hb; [|assumption]. congruence.
Qed.

Lemma deco_round_err todo : forall ini computed failed e,
  deco_round todo ini computed failed = Err e -> e = ValueError.
Proof.
  induction todo as [|[x ex] r IH]; simpl; intros ini computed failed e H; [discriminate|].
  destruct (evalF (envf ini) ex) as [v|er] eqn:E; [eauto|].
  destruct (evalF_err_class _ _ _ E) as [-> | [-> | ->]]; simpl in H; [eauto| |]; now inversion H.
Qed.

Lemma deco_round_spec todo : forall ini computed failed ini' computed' failed',
  deco_round todo ini computed failed = Ok (ini', computed', failed') ->
  exists newc newf,
    computed' = computed ++ newc /\ failed' = failed ++ newf /\
    Permutation (map fst todo) (newc ++ map fst newf) /\ incl newf todo /\
    (forall x, has x ini' = true <-> (has x ini = true \/ In x newc)) /\
    (NoDup (map fst todo) -> (forall x, In x (map fst todo) -> has x ini = false) ->
       env_le ini ini' /\
       forall x e, In (x, e) todo -> In x newc -> evalF (envf ini') e = Ok (getv x ini')).
Proof.
  induction todo as [|[x ex] r IH]; simpl; intros ini computed failed ini' computed' failed' H.
  - inversion H; subst. exists [], []. rewrite !app_nil_r.
    split; [reflexivity|]. split; [reflexivity|]. split; [constructor|].
    split; [intros y Hy; exact Hy|]. split; [intros y; simpl; tauto|].
    intros _ _. split; [apply env_le_refl|intros y e []].
  - destruct (evalF (envf ini) ex) as [v|er] eqn:E.
    + destruct (IH _ _ _ _ _ _ H) as [newc [newf [C1 [C2 [C3 [C4 [C5 C6]]]]]]].
      exists (x :: newc), newf. rewrite <- app_assoc in C1. simpl in C1.
      split; [exact C1|]. split; [exact C2|]. split; [simpl; now constructor|].
      split; [intros y Hy; right; now apply C4|]. split.
      * intros y. rewrite C5, has_set. simpl.
        destruct (String.eqb_spec y x) as [->|Hn]; simpl; [tauto|].
        split; [intros [?|?]; auto|intros [?|[?|?]]; auto]; congruence.
      * intros Hnd Hfresh. inversion Hnd as [|? ? Hx Hnd']; subst.
        assert (Hle1 : env_le ini (set x v ini)) by (apply env_le_set_fresh, Hfresh; now left).
        destruct C6 as [C6a C6b]; [assumption| |].
        { intros y Hy. rewrite has_set. destruct (String.eqb_spec y x) as [->|Hn]; [tauto|].
          simpl. apply Hfresh. now right. }
        split; [eapply env_le_trans; eauto|].
        intros y e [Heq|Hin] Hyc.
        -- inversion Heq; subst. rewrite (evalF_mono _ _ _ _ (env_le_trans _ _ _ Hle1 C6a) E).
           unfold getv. rewrite (C6a y v); [reflexivity|apply lookup_set_eq].
        -- destruct Hyc as [<-|Hyc]; [exfalso; apply Hx; apply (in_map fst) in Hin; exact Hin|].
           now apply C6b.
    + destruct (evalF_err_class _ _ _ E) as [-> | [-> | ->]]; simpl in H; [|discriminate|discriminate].
      destruct (IH _ _ _ _ _ _ H) as [newc [newf [C1 [C2 [C3 [C4 [C5 C6]]]]]]].
      exists newc, ((x, ex) :: newf). rewrite <- app_assoc in C2. simpl in C2.
      split; [exact C1|]. split; [exact C2|]. split; [simpl; now apply Permutation_cons_app|].
      split; [intros y [<-|Hy]; [now left|right; now apply C4]|]. split; [exact C5|].
      intros Hnd Hfresh. inversion Hnd as [|? ? Hx Hnd']; subst.
      destruct C6 as [C6a C6b]; [assumption|intros y Hy; apply Hfresh; now right|].
      split; [exact C6a|].
      intros y e [Heq|Hin] Hyc; [|now apply C6b].
      inversion Heq; subst. exfalso. apply Hx.
      eapply Permutation_in; [apply Permutation_sym; exact C3|]. apply in_or_app. now left.
Qed.

Lemma deco_pass_eq f todo ini computed : todo <> [] ->
  deco_pass (S f) todo ini computed =
  match deco_round todo ini computed [] with
  | Err e => Err e
  | Ok (ini', computed', failed) =>
      if Nat.eqb (List.length failed) (List.length todo) then Err ValueError
      else deco_pass f failed ini' computed'
  end.
Proof. destruct todo; [congruence|reflexivity]. Qed.

Lemma deco_pass_err : forall fuel todo ini computed e,
  List.length todo < fuel -> deco_pass fuel todo ini computed = Err e -> e = ValueError.
Proof.
  induction fuel as [|f IH]; intros todo ini computed e Hl; [lia|].
  destruct todo as [|t0 todo']; [discriminate|].
  rewrite deco_pass_eq by discriminate.
  remember (t0 :: todo') as todo.
  destruct (deco_round todo ini computed []) as [[[ini' computed'] failed]|e'] eqn:Er.
  - destruct (deco_round_spec _ _ _ _ _ _ _ Er) as [newc [newf [C1 [C2 [C3 _]]]]].
    simpl in C2. subst failed.
    destruct (Nat.eqb (List.length newf) (List.length todo)) eqn:El; [intros H; now inversion H|].
    apply Nat.eqb_neq in El. apply IH.
    apply Permutation_length in C3. rewrite app_length, !map_length in C3. lia.
  - intros H; inversion H; subst. eapply deco_round_err; eauto.
Qed.

Lemma deco_pass_spec : forall fuel todo ini computed e' computed',
  deco_pass fuel todo ini computed = Ok (e', computed') ->
  exists newc,
    computed' = computed ++ newc /\ Permutation (map fst todo) newc /\
    (forall x, has x e' = true <-> (has x ini = true \/ In x newc)) /\
    (NoDup (map fst todo) -> (forall x, In x (map fst todo) -> has x ini = false) ->
       env_le ini e' /\ forall x e, In (x, e) todo -> evalF (envf e') e = Ok (getv x e')).
Proof.
  induction fuel as [|f IH]; intros todo ini computed e' computed'.
  { destruct todo; simpl; [|discriminate]. intros H; inversion H; subst.
    exists []. rewrite app_nil_r. split; [reflexivity|]. split; [constructor|].
    split; [intros y; simpl; tauto|]. intros _ _. split; [apply env_le_refl|intros y e []]. }
  destruct todo as [|t0 todo'].
  { simpl. intros H; inversion H; subst.
    exists []. rewrite app_nil_r. split; [reflexivity|]. split; [constructor|].
    split; [intros y; simpl; tauto|]. intros _ _. split; [apply env_le_refl|intros y e []]. }
  rewrite deco_pass_eq by discriminate.
  remember (t0 :: todo') as todo.
  destruct (deco_round todo ini computed []) as [[[ini1 comp1] failed]|] eqn:Er; [|discriminate].
  destruct (deco_round_spec _ _ _ _ _ _ _ Er) as [newc1 [newf [C1 [C2 [C3 [C4 [C5 C6]]]]]]].
  simpl in C2. subst failed.
  destruct (Nat.eqb (List.length newf) (List.length todo)); [discriminate|].
  intros H. destruct (IH _ _ _ _ _ H) as [newc2 [D1 [D2 [D3 D4]]]].
  exists (newc1 ++ newc2). subst comp1. rewrite <- app_assoc in D1.
  split; [exact D1|]. split.
  { eapply perm_trans; [exact C3|]. now apply Permutation_app_head. }
  split.
  { intros x. rewrite D3, C5, in_app_iff. tauto. }
  intros Hnd Hfresh.
  assert (Hnd2 : NoDup (newc1 ++ map fst newf)) by (eapply Permutation_NoDup; eauto).
  destruct (C6 Hnd Hfresh) as [C6a C6b].
  assert (Hfresh2 : forall x, In x (map fst newf) -> has x ini1 = false).
  { intros x Hx. destruct (has x ini1) eqn:Eh; [|reflexivity]. apply C5 in Eh.
    destruct Eh as [Eh|Eh].
    - rewrite Hfresh in Eh; [discriminate|]. apply in_map_iff in Hx. destruct Hx as [[y e] [<- Hy]].
      apply C4 in Hy. apply (in_map fst) in Hy. exact Hy.
    - exfalso. eapply NoDup_app_disj; eauto. }
  destruct D4 as [D4a D4b]; [eapply NoDup_app_r; eauto|exact Hfresh2|].
  split; [eapply env_le_trans; eauto|].
  intros x e Hin.
  assert (Hx : In x (newc1 ++ map fst newf)).
  { eapply Permutation_in; [exact C3|]. apply (in_map fst) in Hin. exact Hin. }
  apply in_app_or in Hx. destruct Hx as [Hx|Hx].
  - rewrite (evalF_mono _ _ _ _ D4a (C6b x e Hin Hx)).
    assert (Hh : has x ini1 = true) by (apply C5; now right).
    apply has_true_iff in Hh. destruct Hh as [v Hv].
    unfold getv. now rewrite Hv, (D4a x v Hv).
  - apply in_map_iff in Hx. destruct Hx as [[y e2] [Heq Hy]]. simpl in Heq. subst y.
    assert (e2 = e) by (eapply NoDup_fst_fun; [exact Hnd|apply C4; exact Hy|exact Hin]). subst e2.
    now apply D4b.
Qed.

(* ------------------------------------------------------------------ the whole period *)
Definition nonexo_names (p : pstate) : list string := endo_names p ++ lag_names p ++ deco_names p.

Lemma step_ok_inv p exo k ts :
  sr_err (step p exo k ts) = None ->
  exists ini e' computed,
    start_env p exo ts k = Ok ini /\ lr_err (run_loop p ini) = None /\
    deco_pass (S (List.length (p_deco p))) (p_deco p) (lr_env (run_loop p ini)) [] = Ok (e', computed) /\
    forallb (fun x => is_finite (getv x e')) (endo_names p ++ lag_names p ++ computed) = true /\
    append_all (endo_names p ++ lag_names p ++ computed) e' k ts = (sr_ts (step p exo k ts), None) /\
    sr_env (step p exo k ts) = e' /\ sr_trace (step p exo k ts) = lr_trace (run_loop p ini) /\
    sr_sweeps (step p exo k ts) = lr_sweeps (run_loop p ini).
Proof.
  unfold step. destruct (start_env p exo ts k) as [ini|] eqn:Es; [|discriminate].
  destruct (lr_err (run_loop p ini)) eqn:El; [discriminate|].
  destruct (deco_pass _ _ _ _) as [[e' computed]|] eqn:Ed; [|discriminate].
  destruct (forallb _ _) eqn:Ef; [|discriminate].
  destruct (append_all _ e' k ts) as [ts' oe] eqn:Ea. simpl. intros ->.
  exists ini, e', computed. repeat split; auto.
Qed.

(** what the loop leaves alone: everything but the endogenous names *)
Definition off_endo (p : pstate) (ini : env) (cur : env) (n : nat) : Prop :=
  (forall x, ~ In x (endo_names p) -> lookup x cur = lookup x ini) /\
  (forall x, In x (endo_names p) -> has x ini = true -> has x cur = true).

Lemma off_endo_pres p ini : forall cur n new rel had,
  off_endo p ini cur n -> sweep p cur = Ok (new, rel, had) -> off_endo p ini (next_env p cur new n) (S n).
Proof.
  intros cur n new rel had [H1 H2] Hs. unfold sweep in Hs. unfold next_env, off_endo, endo_names in *.
  split.
  - intros x Hx. destruct (Nat.ltb 10 n).
    + rewrite damp_frame by assumption. rewrite (sweep_eqs_frame _ _ _ _ _ _ _ _ Hs x Hx). auto.
    + rewrite (sweep_eqs_frame _ _ _ _ _ _ _ _ Hs x Hx). auto.
  - intros x Hx Hh. destruct (Nat.ltb 10 n).
    + apply damp_keys. now right.
    + apply (sweep_eqs_keys _ _ _ _ _ _ _ _ Hs). now right.
Qed.

Record step_facts (p : pstate) (exo : list (string * exo_spec)) (k : nat) (ts ts' : tseries) (e' : env) : Prop := {
  st_nodup : NoDup (nonexo_names p);
  st_disj : forall x, In x (nonexo_names p) -> ~ In x (map fst exo);
  st_app : forall x, In x (nonexo_names p) ->
             exists l, lookup x ts = Some l /\ List.length l = k /\ lookup x ts' = Some (l ++ [getv x e']);
  st_frame : forall x, ~ In x (nonexo_names p) -> lookup x ts' = lookup x ts;
  st_fin : forall x, In x (nonexo_names p) -> is_finite (getv x e') = true;
  st_exo : forall x, In x (map fst exo) -> exists v, nth_ts ts x k = Ok v /\ lookup x e' = Some v;
  st_lag : forall x src, In (x, src) (p_lagged p) -> exists v, nth_ts ts src (k - 1) = Ok v /\ lookup x e' = Some v;
  st_deco : forall d rhs, In (d, rhs) (p_deco p) -> evalF (envf e') rhs = Ok (getv d e');
  st_keys : forall x, has x e' = true -> In x (map fst exo) \/ In x (nonexo_names p);
  st_stop : keep_going 1%float (p_tol p) = true ->
            forall I : env -> nat -> Prop,
            (forall cur n new rel had, I cur n -> sweep p cur = Ok (new, rel, had) -> I (next_env p cur new n) (S n)) ->
            (forall ini, start_env p exo ts k = Ok ini -> I ini 0) ->
            exists u w r m, I u m /\ sweep p u = Ok (w, r, false) /\ leb r (p_tol p) = true /\
              (forall x, In x (endo_names p) -> lookup x e' = lookup x (next_env p u w m)) /\
              (forall x, ~ In x (endo_names p) -> has x u = true -> lookup x u = lookup x e')
}.

Lemma step_ok_facts p exo k ts :
  (forall x, In x (map fst exo) -> exists l, lookup x ts = Some l /\ List.length l = S (p_maxtime p)) ->
  k <= p_maxtime p ->
  sr_err (step p exo k ts) = None ->
  step_facts p exo k ts (sr_ts (step p exo k ts)) (sr_env (step p exo k ts)).
Proof.
  intros Hexo Hk Hok.
  destruct (step_ok_inv _ _ _ _ Hok) as [ini [e' [computed [Es [El [Ed [Ef [Ea [-> _]]]]]]]]].
  pose proof (start_env_facts _ _ _ _ _ Es) as SF.
  destruct (deco_pass_spec _ _ _ _ _ _ Ed) as [newc [D1 [D2 [D3 D4]]]]. simpl in D1. subst newc.
  destruct (append_all_spec _ _ _ _ _ Ea) as [A1 [A2 A3]].
  set (ts' := sr_ts (step p exo k ts)) in *.
  assert (Hperm : Permutation (nonexo_names p) (endo_names p ++ lag_names p ++ computed)).
  { unfold nonexo_names, deco_names. now repeat apply Permutation_app_head. }
  assert (Hin : forall x, In x (nonexo_names p) <-> In x (endo_names p ++ lag_names p ++ computed)).
  { intros x; split; apply Permutation_in; [exact Hperm|apply Permutation_sym, Hperm]. }
  assert (Hnd : NoDup (nonexo_names p)).
  { eapply Permutation_NoDup; [apply Permutation_sym, Hperm|exact A1]. }
  assert (Hdisj : forall x, In x (nonexo_names p) -> ~ In x (map fst exo)).
  { intros x Hx Hxe. apply Hin in Hx. destruct (A2 x Hx) as [l [Hl [Hlen _]]].
    destruct (Hexo x Hxe) as [l' [Hl' Hlen']]. rewrite Hl in Hl'. inversion Hl'; subst. lia. }
  (* pieces of the name discipline *)
  assert (Hnd_endo : NoDup (endo_names p)) by (eapply NoDup_app_l; exact Hnd).
  assert (Hnd_rest : NoDup (lag_names p ++ deco_names p)) by (eapply NoDup_app_r; exact Hnd).
  assert (Hnd_lag : NoDup (lag_names p)) by (eapply NoDup_app_l; exact Hnd_rest).
  assert (Hnd_deco : NoDup (deco_names p)) by (eapply NoDup_app_r; exact Hnd_rest).
  assert (Hlag_endo : forall x, In x (lag_names p) -> ~ In x (endo_names p)).
  { intros x Hl He. eapply NoDup_app_disj; [exact Hnd|exact He|apply in_or_app; now left]. }
  assert (Hdeco_endo : forall x, In x (deco_names p) -> ~ In x (endo_names p)).
  { intros x Hl He. eapply NoDup_app_disj; [exact Hnd|exact He|apply in_or_app; now right]. }
  assert (Hdeco_lag : forall x, In x (deco_names p) -> ~ In x (lag_names p)).
  { intros x Hd Hl. eapply NoDup_app_disj; [exact Hnd_rest|exact Hl|exact Hd]. }
  (* the loop keeps everything but the endogenous names *)
  assert (HI0 : off_endo p ini ini 0) by (split; auto).
  destruct (loop_inv p (off_endo p ini) (off_endo_pres p ini) (S (p_maxiter p)) ini 1%float false 0 [] HI0)
    as [n' [L1 L2]]. fold (run_loop p ini) in L1, L2.
  (* freshness of the decorative names *)
  assert (Hfresh : forall x, In x (map fst (p_deco p)) -> has x (lr_env (run_loop p ini)) = false).
  { intros x Hx. fold (deco_names p) in Hx.
    destruct (has x (lr_env (run_loop p ini))) eqn:Eh; [|reflexivity]. exfalso.
    assert (Hh : has x ini = true).
    { apply has_true_iff in Eh. destruct Eh as [v Hv]. rewrite (L1 x (Hdeco_endo x Hx)) in Hv.
      apply has_true_iff. eauto. }
    destruct (sf_keys _ _ _ _ _ SF x Hh) as [H|[H|H]].
    - apply (Hdisj x); [|exact H]. unfold nonexo_names. apply in_or_app; right; apply in_or_app; now right.
    - exact (Hdeco_lag x Hx H).
    - exact (Hdeco_endo x Hx H). }
  destruct (D4 Hnd_deco Hfresh) as [D4a D4b].
  assert (Hoff : forall x v, ~ In x (endo_names p) -> lookup x ini = Some v -> lookup x e' = Some v).
  { intros x v Hx Hv. apply D4a. now rewrite (L1 x Hx). }
  constructor; auto.
  - intros x Hx. apply Hin in Hx. exact (A2 x Hx).
  - intros x Hx. apply A3. intros H. apply Hx. now apply Hin.
  - intros x Hx. apply Hin in Hx. rewrite forallb_forall in Ef. exact (Ef x Hx).
  - intros x Hx.
    assert (Hnl : ~ In x (lag_names p)).
    { intros H. apply (Hdisj x); [|exact Hx]. unfold nonexo_names. apply in_or_app; right; apply in_or_app; now left. }
    assert (Hne : ~ In x (endo_names p)).
    { intros H. apply (Hdisj x); [|exact Hx]. unfold nonexo_names. apply in_or_app; now left. }
    destruct (sf_exo _ _ _ _ _ SF x Hx Hnl Hne) as [v [Hv Hl]]. eauto.
  - intros x src Hx.
    assert (Hxl : In x (lag_names p)) by (apply (in_map fst) in Hx; exact Hx).
    destruct (sf_lag _ _ _ _ _ SF Hnd_lag x src Hx (Hlag_endo x Hxl)) as [v [Hv Hl]]. eauto.
  - intros x Hh. apply D3 in Hh. destruct Hh as [Hh|Hh].
    + assert (Hh' : has x ini = true \/ In x (endo_names p)).
      { destruct (in_dec string_dec x (endo_names p)) as [Hi|Hni]; [now right|left].
        apply has_true_iff in Hh. destruct Hh as [v Hv]. rewrite (L1 x Hni) in Hv. apply has_true_iff; eauto. }
      destruct Hh' as [Hh'|Hh']; [|right; unfold nonexo_names; apply in_or_app; now left].
      destruct (sf_keys _ _ _ _ _ SF x Hh') as [H|[H|H]]; [now left| |];
        right; unfold nonexo_names; apply in_or_app; [right; apply in_or_app; now left|now left].
    + right. apply Hin. apply in_or_app; right; apply in_or_app; now right.
  - intros Hkg I HIp HIi.
    assert (Hpres2 : forall cur n new rel had,
              (off_endo p ini cur n /\ I cur n) -> sweep p cur = Ok (new, rel, had) ->
              (off_endo p ini (next_env p cur new n) (S n) /\ I (next_env p cur new n) (S n))).
    { intros cur n new rel had [Ha Hb] Hsw. split; [eapply off_endo_pres; eauto|eapply HIp; eauto]. }
    assert (HI02 : off_endo p ini ini 0 /\ I ini 0) by (split; [exact HI0|apply HIi; exact Es]).
    destruct (loop_witness p (fun c n => off_endo p ini c n /\ I c n) Hpres2 (S (p_maxiter p)) ini 1%float false 0 [] HI02 El)
      as [[K1 _]|[u [w [r [m [pre [[[W1a W1b] WI] [W2 [W3 [W4 _]]]]]]]]]]; [congruence|].
    fold (run_loop p ini) in W4.
    exists u, w, r, m. split; [exact WI|]. split; [exact W2|]. split.
    { unfold keep_going in W3. now apply negb_false_iff in W3. }
    split.
    + intros x Hx. rewrite <- W4.
      assert (Hh : has x (lr_env (run_loop p ini)) = true).
      { apply L2; [exact Hx|]. destruct (sf_endo _ _ _ _ _ SF x Hx) as [v [_ Hv]]. apply has_true_iff; eauto. }
      apply has_true_iff in Hh. destruct Hh as [v Hv]. rewrite Hv. now apply D4a.
    + intros x Hx Hh. apply has_true_iff in Hh. destruct Hh as [v Hv]. rewrite Hv.
      symmetry. apply Hoff; [exact Hx|]. now rewrite <- (W1a x Hx).
Qed.

(** the new value of every equation after a sweep (evaluation errors keep the old value) *)
Lemma sweep_eqs_vals_gen endo old : forall new rel had new' rel' had',
  sweep_eqs endo old new rel had = Ok (new', rel', had') -> NoDup (map fst endo) ->
  forall x e, In (x, e) endo -> exists v h h', eval_eq old x e h = Ok (v, h') /\ lookup x new' = Some v.
Proof.
  induction endo as [|[y e'] r IH]; simpl; intros new rel had new' rel' had' H Hnd x e Hin; [tauto|].
  inversion Hnd as [|? ? Hy Hnd']; subst.
  destruct (eval_eq old y e' had) as [[nv h]|] eqn:E; [|discriminate].
  destruct Hin as [Heq|Hin]; [|eauto].
  inversion Heq; subst. exists nv, had, h. split; [exact E|].
  rewrite (sweep_eqs_frame _ _ _ _ _ _ _ _ H x Hy). apply lookup_set_eq.
Qed.
