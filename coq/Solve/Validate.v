(** [EquationParser.ValidateInputs] (sfc_models/equation_parser.py:162-199): the keys of
    AllEquations with their token lists (Python's tokenizer, trusted) are checked against
    the two reserved lists, which the harness reads from the live interpreter
    ([get_invalid_variable_names()], [get_invalid_tokens()]). *)
From Coq Require Import List String Bool.
From SFC.Base Require Import Res Str.
From SFC.Solve Require Import Types Init Step Run.
Import ListNotations.

Fixpoint validate (alleqs : list (string * list string)) (bad_vars bad_tokens : list string) : result unit :=
  match alleqs with
  | [] => Ok tt
  | (x, toks) :: r =>
      if mem x bad_vars then Err NameError
      else if existsb (fun t => mem t bad_tokens) toks then Err NameError
      else validate r bad_vars bad_tokens
  end.

(** Parse-validate-solve as [EquationSolver.ParseString] + [SolveEquation] order it:
    nothing is evaluated unless validation passed. *)
Definition validate_then_run (alleqs : list (string * list string)) (bad_vars bad_tokens : list string)
           (p : pstate) : run_res :=
  match validate alleqs bad_vars bad_tokens with
  | Err e => mkRR [] [] [] (Some e)
  | Ok _ => run p
  end.

Lemma validate_err alleqs bv bt e : validate alleqs bv bt = Err e -> e = NameError.
Proof.
  induction alleqs as [|[x toks] r IH]; simpl; [discriminate|].
  destruct (mem x bv); [intros H; now inversion H|].
  destruct (existsb (fun t => mem t bt) toks); [intros H; now inversion H|exact IH].
Qed.

Lemma validate_rejects alleqs bv bt :
  (exists x toks, In (x, toks) alleqs /\ (In x bv \/ exists t, In t toks /\ In t bt)) ->
  validate alleqs bv bt = Err NameError.
Proof.
  intros [x [toks [Hin Hbad]]].
  destruct (validate alleqs bv bt) as [[]|e] eqn:E; [|now rewrite (validate_err _ _ _ _ E)].
  exfalso. induction alleqs as [|[y ty] r IH]; simpl in *; [tauto|].
  destruct (mem y bv) eqn:Ey; [discriminate|].
  destruct (existsb (fun t => mem t bt) ty) eqn:Et; [discriminate|].
  destruct Hin as [Heq|Hin]; [|auto].
  inversion Heq; subst. destruct Hbad as [Hb|[t [Ht Hb]]].
  - apply mem_In in Hb. congruence.
  - assert (existsb (fun t => mem t bt) toks = true); [|congruence].
    apply existsb_exists. exists t. split; [exact Ht|now apply mem_In].
Qed.
