(** [EquationSolver.SolveEquation] (sfc_models/equation_solver.py:441-450): variable list,
    initial conditions, periods 1..MaxTime.  On failure the result keeps the time series
    as they stand (the Python object keeps them). *)
From Coq Require Import List String Bool Arith PrimFloat.
From SFC.Base Require Import Res Str Expr.
From SFC.Solve Require Import Types Init Step.
Import ListNotations.

Record run_res := mkRR {
  rr_ts : tseries;
  rr_sweeps : list nat;                      (* sweeps started, per period attempted *)
  rr_traces : list (list (float * bool));    (* completed sweeps, per period attempted *)
  rr_err : option err }.

Fixpoint steps (n : nat) (p : pstate) (exo : list (string * exo_spec)) (k : nat) (ts : tseries)
         (sw : list nat) (trs : list (list (float * bool))) : run_res :=
  match n with
  | 0 => mkRR ts sw trs None
  | S n' =>
      let r := step p exo k ts in
      match sr_err r with
      | Some e => mkRR (sr_ts r) (sw ++ [sr_sweeps r]) (trs ++ [sr_trace r]) (Some e)
      | None => steps n' p exo (S k) (sr_ts r) (sw ++ [sr_sweeps r]) (trs ++ [sr_trace r])
      end
  end.

Definition run (p : pstate) : run_res :=
  match init p with
  | Err e => mkRR [] [] [] (Some e)
  | Ok (ts0, exo') => steps (p_maxtime p) p exo' 1 ts0 [] []
  end.

Definition solve (p : pstate) : result tseries :=
  let r := run p in match rr_err r with None => Ok (rr_ts r) | Some e => Err e end.
