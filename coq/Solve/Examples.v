(** Concrete parser states used by the Examples / refutations of the property files. *)
From Coq Require Import List String Bool Arith PrimFloat Floats.
From SFC.Base Require Import Res Str Expr.
From SFC.Solve Require Import Types Init Step Run Orig.
Import ListNotations.
Local Open Scope string_scope.

Definition tol6 : float := 0x1.0c6f7a0b5ed8dp-20%float.   (* 1e-6 *)

(** x = 0.5*x + G + 0.1*LAG_x ; t = k ; LAG_x = x(k-1) ; d = 2*x (decorative) ; x(0) = 2 ;
    G = [1,2,3,4,5] exogenous ; MaxTime = 3 *)
Definition ex1 : pstate :=
  mkP [("x", EAdd (EAdd (EMul (ENum 0.5%float) (EVar "x")) (EVar "G")) (EMul (ENum 0x1.999999999999ap-4%float) (EVar "LAG_x")));
       ("t", EVar "k")]
      [("LAG_x", "x")]
      [("G", ExoList [1%float; 2%float; 3%float; 4%float; 5%float])]
      [("d", EMul (ENum 2%float) (EVar "x"))]
      [("x", ICVal 2%float)]
      3 tol6 400.

(** D02a: x = x*x + 2 *)
Definition ex_overflow : pstate :=
  mkP [("x", EAdd (EMul (EVar "x") (EVar "x")) (ENum 2%float)); ("t", EVar "k")] [] [] [] [] 2 tol6 400.

(** D02b: x = 1e308*G ; d = x*10 ; G = [0.1, 1, 1] *)
Definition ex_deco_inf : pstate :=
  mkP [("x", EMul (ENum 0x1.1ccf385ebc8ap+1023%float) (EVar "G")); ("t", EVar "k")] []
      [("G", ExoList [0x1.999999999999ap-4%float; 1%float; 1%float])]
      [("d", EMul (EVar "x") (ENum 10%float))] [] 2 tol6 400.

(** D11: x = LAG_x - 1 ; LAG_x = x(k-1) ; x(0) = 2 ; d = 1/x ; MaxTime = 4 *)
Definition ex_deco_pole : pstate :=
  mkP [("x", ESub (EVar "LAG_x") (ENum 1%float)); ("t", EVar "k")] [("LAG_x", "x")] []
      [("d", EDiv (ENum 1%float) (EVar "x"))] [("x", ICVal 2%float)] 4 tol6 400.

(** D02c: x = 1e308*G ; G = [10, 0.1, 0.1] *)
Definition ex_zero_inf : pstate :=
  mkP [("x", EMul (ENum 0x1.1ccf385ebc8ap+1023%float) (EVar "G")); ("t", EVar "k")] []
      [("G", ExoList [10%float; 0x1.999999999999ap-4%float; 0x1.999999999999ap-4%float])] [] [] 2 tol6 400.

(** D11b: x = max(y - y, 0.0) ; y = 1e308*w ; w = 10 - 10*v ; v = 1 ; ICs x=0,y=0,w=10,v=0 *)
Definition ex_measure : pstate :=
  mkP [("x", ECall2 Fmax (ESub (EVar "y") (EVar "y")) (ENum 0%float));
       ("y", EMul (ENum 0x1.1ccf385ebc8ap+1023%float) (EVar "w"));
       ("w", ESub (ENum 10%float) (EMul (ENum 10%float) (EVar "v")));
       ("v", ENum 1%float); ("t", EVar "k")] [] [] []
      [("x", ICVal 0%float); ("y", ICVal 0%float); ("w", ICVal 10%float); ("v", ICVal 0%float)] 2 tol6 400.

(** D11b on the unfixed code: x = 0.0 with x(0) = NaN (bare ZeroDivisionError from NaN / 0.0) *)
Definition ex_measure_nan : pstate :=
  mkP [("x", ENum 0%float); ("t", EVar "k")] [] [] [] [("x", ICVal nan)] 1 tol6 400.
