(** Facts about whole runs ([SolveEquation], Run.v): induction over the periods. *)
From Coq Require Import List String Bool Arith Lia PrimFloat Floats Permutation.
From SFC.Base Require Import Res Str Sorting Expr.
From SFC.Solve Require Import Types Maps Init Step Run InitProofs StepProofs.
Import ListNotations.
Local Open Scope string_scope.
Local Open Scope list_scope.

(** the values of period [k] as an environment *)
Definition row (ts : tseries) (k : nat) : string -> option float :=
  fun x => match lookup x ts with Some l => nth_error l k | None => None end.

(** series only ever grow at the end *)
Definition prefix (a b : tseries) : Prop :=
  forall x l, lookup x a = Some l -> exists suf, lookup x b = Some (l ++ suf).

Lemma prefix_refl a : prefix a a.
Proof. intros x l H. exists []. now rewrite app_nil_r. Qed.

Lemma prefix_trans a b c : prefix a b -> prefix b c -> prefix a c.
Proof.
  intros H1 H2 x l H. destruct (H1 x l H) as [s1 Hs1]. destruct (H2 _ _ Hs1) as [s2 Hs2].
  exists (s1 ++ s2). now rewrite app_assoc.
Qed.

Lemma prefix_nth a b x l i v :
  prefix a b -> lookup x a = Some l -> nth_error l i = Some v -> row b i x = Some v.
Proof.
  intros Hp Hl Hn. destruct (Hp x l Hl) as [suf Hs]. unfold row. rewrite Hs.
  rewrite nth_error_app1; [exact Hn|]. apply nth_error_Some. congruence.
Qed.

Lemma prefix_row a b i x v : prefix a b -> row a i x = Some v -> row b i x = Some v.
Proof.
  unfold row at 1. intros Hp H. destruct (lookup x a) as [l|] eqn:El; [|discriminate].
  eapply prefix_nth; eauto.
Qed.

Section Run.
Variable p : pstate.
Variable exo : list (string * exo_spec).

(** exogenous series are complete from the start *)
Definition pre (ts : tseries) : Prop :=
  forall x, In x (map fst exo) -> exists l, lookup x ts = Some l /\ List.length l = S (p_maxtime p).

(** [reached k ts j ts']: periods k .. j-1 were solved without error, leading from ts to ts' *)
Inductive reached (k : nat) (ts : tseries) : nat -> tseries -> Prop :=
| reached_refl : reached k ts k ts
| reached_step j ts' : reached k ts j ts' -> sr_err (step p exo j ts') = None ->
                       reached k ts (S j) (sr_ts (step p exo j ts')).

Lemma reached_le k ts j ts' : reached k ts j ts' -> k <= j.
Proof. induction 1; lia. Qed.

Lemma reached_trans k ts j ts' n ts'' : reached k ts j ts' -> reached j ts' n ts'' -> reached k ts n ts''.
Proof. intros H1 H2. induction H2; [exact H1|]. now constructor. Qed.

Lemma step_prefix k ts : pre ts -> k <= p_maxtime p -> sr_err (step p exo k ts) = None ->
  prefix ts (sr_ts (step p exo k ts)) /\ pre (sr_ts (step p exo k ts)) /\
  (forall x, In x (map fst exo) -> lookup x (sr_ts (step p exo k ts)) = lookup x ts).
Proof.
  intros Hpre Hk Hok. pose proof (step_ok_facts _ _ _ _ Hpre Hk Hok) as F.
  assert (Hexo : forall x, In x (map fst exo) -> lookup x (sr_ts (step p exo k ts)) = lookup x ts).
  { intros x Hx. apply (st_frame _ _ _ _ _ _ F). intros H. exact (st_disj _ _ _ _ _ _ F x H Hx). }
  split; [|split; [|exact Hexo]].
  - intros x l Hl. destruct (in_dec string_dec x (nonexo_names p)) as [Hi|Hni].
    + destruct (st_app _ _ _ _ _ _ F x Hi) as [l' [Hl' [_ Hts']]]. rewrite Hl in Hl'. inversion Hl'; subst. eauto.
    + exists []. rewrite app_nil_r. now rewrite (st_frame _ _ _ _ _ _ F x Hni).
  - intros x Hx. rewrite (Hexo x Hx). exact (Hpre x Hx).
Qed.

Lemma reached_facts k ts j ts' : reached k ts j ts' -> pre ts -> j <= S (p_maxtime p) ->
  pre ts' /\ prefix ts ts' /\ (forall x, In x (map fst exo) -> lookup x ts' = lookup x ts) /\
  (k < j -> forall x, In x (nonexo_names p) -> exists l, lookup x ts' = Some l /\ List.length l = j).
Proof.
  induction 1 as [|j ts' Hr IH Hok]; intros Hpre Hj.
  - repeat split; auto; [apply prefix_refl|lia].
  - destruct IH as [I1 [I2 [I3 I4]]]; [assumption|lia|].
    assert (Hjk : j <= p_maxtime p) by lia.
    destruct (step_prefix _ _ I1 Hjk Hok) as [S1 [S2 S3]].
    split; [exact S2|]. split; [eapply prefix_trans; eauto|]. split.
    + intros x Hx. now rewrite (S3 x Hx), (I3 x Hx).
    + intros _ x Hx. pose proof (step_ok_facts _ _ _ _ I1 Hjk Hok) as F.
      destruct (st_app _ _ _ _ _ _ F x Hx) as [l [_ [Hlen Hts']]].
      eexists; split; [exact Hts'|]. rewrite app_length. simpl. lia.
Qed.

Lemma reached_split k ts n tsn : reached k ts n tsn ->
  forall j, k <= j < n -> exists tsj, reached k ts j tsj /\ sr_err (step p exo j tsj) = None /\
                                      reached (S j) (sr_ts (step p exo j tsj)) n tsn.
Proof.
  induction 1 as [|n ts' Hr IH Hok]; intros j Hj; [lia|].
  destruct (Nat.eq_dec j n) as [->|Hne].
  - exists ts'. repeat split; auto. constructor.
  - destruct (IH j) as [tsj [R1 [R2 R3]]]; [lia|].
    exists tsj. repeat split; auto. now constructor.
Qed.

(** [steps] either reaches the end or stops at the first failing period, keeping that period's series *)
Lemma steps_char n : forall k ts sw trs,
  match rr_err (steps n p exo k ts sw trs) with
  | None => reached k ts (k + n) (rr_ts (steps n p exo k ts sw trs))
  | Some e => exists j tsj, k <= j < k + n /\ reached k ts j tsj /\
                            sr_err (step p exo j tsj) = Some e /\
                            rr_ts (steps n p exo k ts sw trs) = sr_ts (step p exo j tsj)
  end.
Proof.
  induction n as [|n IH]; intros k ts sw trs; simpl.
  - rewrite Nat.add_0_r. constructor.
  - destruct (sr_err (step p exo k ts)) as [e|] eqn:Ee; simpl.
    + exists k, ts. repeat split; auto; try lia. constructor.
    + specialize (IH (S k) (sr_ts (step p exo k ts)) (sw ++ [sr_sweeps (step p exo k ts)])
                     (trs ++ [sr_trace (step p exo k ts)])).
      destruct (rr_err (steps n p exo (S k) _ _ _)) as [e|].
      * destruct IH as [j [tsj [Hj [Hr [He Hts]]]]]. exists j, tsj. repeat split; auto; try lia.
        eapply reached_trans; [|exact Hr]. constructor; [constructor|exact Ee].
      * replace (k + S n) with (S k + n) by lia.
        eapply reached_trans; [|exact IH]. constructor; [constructor|exact Ee].
Qed.

(** sweeps per period never exceed the cap + 1 *)
Lemma step_sweeps_bound k ts : sr_sweeps (step p exo k ts) <= S (p_maxiter p).
Proof.
  unfold step. destruct (start_env p exo ts k) as [ini|]; [|simpl; lia].
  assert (B : lr_sweeps (run_loop p ini) <= S (p_maxiter p)).
  { unfold run_loop. apply loop_bound; lia. }
  destruct (lr_err (run_loop p ini)); [exact B|].
  destruct (deco_pass (S (List.length (p_deco p))) (p_deco p) (lr_env (run_loop p ini)) []) as [[e' computed]|];
    [|exact B].
  destruct (forallb (fun x => is_finite (getv x e')) (endo_names p ++ lag_names p ++ computed)); [|exact B].
  destruct (append_all (endo_names p ++ lag_names p ++ computed) e' k ts); exact B.
Qed.

Lemma steps_sweeps_bound n : forall k ts sw trs,
  Forall (fun m => m <= S (p_maxiter p)) sw ->
  Forall (fun m => m <= S (p_maxiter p)) (rr_sweeps (steps n p exo k ts sw trs)).
Proof.
  induction n as [|n IH]; intros k ts sw trs Hsw; simpl; [exact Hsw|].
  assert (Hsw' : Forall (fun m => m <= S (p_maxiter p)) (sw ++ [sr_sweeps (step p exo k ts)])).
  { apply Forall_app. split; [exact Hsw|]. constructor; [apply step_sweeps_bound|constructor]. }
  destruct (sr_err (step p exo k ts)); simpl; [exact Hsw'|]. now apply IH.
Qed.
End Run.

(* ------------------------------------------------------------------ successful runs *)
Lemma run_ok p ts :
  solve p = Ok ts ->
  exists ts0 exo', init p = Ok (ts0, exo') /\ reached p exo' 1 ts0 (S (p_maxtime p)) ts.
Proof.
  unfold solve, run. destruct (init p) as [[ts0 exo']|e] eqn:Ei; simpl; [|discriminate].
  pose proof (steps_char p exo' (p_maxtime p) 1 ts0 [] []) as Hc.
  destruct (rr_err (steps (p_maxtime p) p exo' 1 ts0 [] [])); [discriminate|].
  intros H; inversion H; subst. eauto.
Qed.

Lemma exo_names_sub p ts0 exo' x : init_facts p ts0 exo' -> In x (exo_names p) -> In x (map fst exo').
Proof.
  intros F Hx. destruct (if_exo _ _ _ F) as [[_ ->]|[_ ->]]; [exact Hx|].
  rewrite map_app. apply in_or_app. now left.
Qed.

Lemma exo'_names p ts0 exo' x : init_facts p ts0 exo' -> In x (map fst exo') -> In x (exo_names p) \/ (x = "k" /\ ~ In "k" (varlist p)).
Proof.
  intros F Hx. destruct (if_exo _ _ _ F) as [[_ ->]|[Hk ->]]; [now left|].
  rewrite map_app in Hx. apply in_app_or in Hx. destruct Hx as [Hx|[<-|[]]]; auto.
Qed.

Lemma exo'_NoDup p ts0 exo' : init_facts p ts0 exo' -> NoDup (exo_names p) -> NoDup (map fst exo').
Proof.
  intros F Hnd. destruct (if_exo _ _ _ F) as [[_ ->]|[Hk ->]]; [exact Hnd|].
  rewrite map_app. simpl. apply NoDup_app_snoc; [exact Hnd|].
  intros Hin. apply Hk. apply varlist_In. apply in_or_app; right; apply in_or_app; right; apply in_or_app; now left.
Qed.

Lemma varlist_cases p ts0 exo' x : init_facts p ts0 exo' -> In x (varlist p) ->
  In x (map fst exo') \/ In x (nonexo_names p).
Proof.
  intros F Hx. apply varlist_In in Hx. unfold nonexo_names.
  apply in_app_or in Hx. destruct Hx as [Hx|Hx]; [right; apply in_or_app; now left|].
  apply in_app_or in Hx. destruct Hx as [Hx|Hx]; [right; apply in_or_app; right; apply in_or_app; now left|].
  apply in_app_or in Hx. destruct Hx as [Hx|Hx]; [left; eapply exo_names_sub; eauto|].
  right; apply in_or_app; right; apply in_or_app; now right.
Qed.

(** C10: every variable has exactly MaxTime+1 values *)
Lemma solve_lengths p ts :
  solve p = Ok ts ->
  forall x, In x (varlist p) \/ x = "k" -> List.length (series x ts) = S (p_maxtime p).
Proof.
  intros Hs x Hx. destruct (run_ok _ _ Hs) as [ts0 [exo' [Ei Hr]]].
  destruct (init_facts_ok _ _ _ Ei) as [F _].
  assert (Hpre : pre p exo' ts0) by exact (if_exo_len _ _ _ F).
  destruct (reached_facts _ _ _ _ _ _ Hr Hpre (le_n _)) as [R1 [R2 [R3 R4]]].
  assert (Hcase : In x (map fst exo') \/ In x (nonexo_names p)).
  { destruct Hx as [Hx | ->]; [eapply varlist_cases; eauto|].
    destruct (in_dec string_dec "k" (varlist p)) as [Hi|Hni]; [eapply varlist_cases; eauto|].
    left. destruct (if_exo _ _ _ F) as [[Hk _]|[_ ->]]; [tauto|]. rewrite map_app. apply in_or_app. right. now left. }
  unfold series. destruct Hcase as [Hc|Hc].
  - destruct (R1 x Hc) as [l [-> Hl]]. exact Hl.
  - destruct (in_dec string_dec x (map fst exo')) as [Hi|Hni].
    { destruct (R1 x Hi) as [l [-> Hl]]. exact Hl. }
    destruct (Nat.eq_dec (p_maxtime p) 0) as [E0|E0].
    + rewrite E0 in *. inversion Hr as [E1 E2|j ts' Hr' Hok E1 E2]; subst.
      * assert (Hv : In x (varlist p)).
        { apply varlist_In. unfold nonexo_names in Hc. apply in_app_or in Hc. destruct Hc as [Hc|Hc]; [apply in_or_app; now left|].
          apply in_app_or in Hc. destruct Hc as [Hc|Hc]; apply in_or_app; right; apply in_or_app; [now left|right; apply in_or_app; now right]. }
        destruct (if_other _ _ _ F x Hv Hni) as [v [-> _]]. reflexivity.
      * apply reached_le in Hr'. lia.
    + destruct (R4 ltac:(lia) x Hc) as [l [-> Hl]]. exact Hl.
Qed.

(** C10: exogenous series are the supplied values, truncated / broadcast *)
Lemma solve_exo p ts :
  solve p = Ok ts -> NoDup (exo_names p) ->
  forall x s, In (x, s) (p_exo p) ->
    exists val, exo_values (p_maxtime p) s = Ok val /\ lookup x ts = Some (firstn (S (p_maxtime p)) val).
Proof.
  intros Hs Hnd x s Hin. destruct (run_ok _ _ Hs) as [ts0 [exo' [Ei Hr]]].
  destruct (init_facts_ok _ _ _ Ei) as [F _].
  assert (Hpre : pre p exo' ts0) by exact (if_exo_len _ _ _ F).
  destruct (reached_facts _ _ _ _ _ _ Hr Hpre (le_n _)) as [R1 [R2 [R3 R4]]].
  assert (Hin' : In (x, s) exo').
  { destruct (if_exo _ _ _ F) as [[_ ->]|[_ ->]]; [exact Hin|apply in_or_app; now left]. }
  destruct (if_exo_val _ _ _ F (exo'_NoDup _ _ _ F Hnd) x s Hin') as [val [Hv [Hl Hts0]]].
  exists val. split; [exact Hv|]. rewrite R3; [exact Hts0|]. apply (in_map fst) in Hin'. exact Hin'.
Qed.

(** C10: the time index *)
Lemma kseries_nth T i : i <= T -> nth_error (kseries T) i = Some (float_of_nat i).
Proof.
  intros Hi. unfold kseries. rewrite nth_error_map. rewrite nth_error_nth' with (d := 0) by (rewrite seq_length; lia).
  rewrite seq_nth by lia. reflexivity.
Qed.

Lemma solve_k p ts :
  solve p = Ok ts -> ~ In "k" (varlist p) -> lookup "k" ts = Some (kseries (p_maxtime p)).
Proof.
  intros Hs Hk. destruct (run_ok _ _ Hs) as [ts0 [exo' [Ei Hr]]].
  destruct (init_facts_ok _ _ _ Ei) as [F _].
  assert (Hpre : pre p exo' ts0) by exact (if_exo_len _ _ _ F).
  destruct (reached_facts _ _ _ _ _ _ Hr Hpre (le_n _)) as [R1 [R2 [R3 R4]]].
  destruct (if_exo _ _ _ F) as [[Hk' _]|[_ He]]; [tauto|].
  assert (Hin : In ("k", ExoList (kseries (p_maxtime p))) exo') by (rewrite He; apply in_or_app; right; now left).
  assert (Hkn : In "k" (map fst exo')) by (apply (in_map fst) in Hin; exact Hin).
  destruct (R1 "k" Hkn) as [l [Hl Hlen]].
  destruct (if_exo_len _ _ _ F "k" Hkn) as [l0 [Hl0 Hlen0]].
  (* the k entry is the last one, so its series is what pass 2 wrote last *)
  rewrite R3 by exact Hkn.
  (* use the value lemma on the sub-list consisting of the k entry alone is not available
     without NoDup; instead read it off: "k" is not an exogenous name of the parser *)
  assert (Hnd : ~ In "k" (exo_names p)).
  { intros H. apply Hk. apply varlist_In. apply in_or_app; right; apply in_or_app; right; apply in_or_app; now left. }
  clear - Ei He Hnd.
  unfold init in Ei. destruct (init_passes p) as [[ts1 e1]|] eqn:Ep; [|discriminate].
  destruct (all_finite_ts ts1); [|discriminate]. inversion Ei; subst ts1 e1. clear Ei.
  unfold init_passes in Ep.
  destruct (pass1 (p_ics p) (varlist p) [] []) as [[v1 z1]|] eqn:E1; [|discriminate].
  destruct (pass2 (p_maxtime p) (exo_with_k p v1) v1 z1) as [[v2 z2]|] eqn:E2; [|discriminate].
  destruct (pass3 _ _ _ v2 z2) as [[v3 z3]|] eqn:E3; [|discriminate].
  destruct (pass4 _ _ v3 z3) as [[v4 z4]|] eqn:E4; [|discriminate].
  injection Ep as Ev4 Eexo. subst v4. rewrite He in Eexo.
  assert (Hk2 : lookup "k" v2 = Some (kseries (p_maxtime p)) /\ has "k" z2 = true).
  { rewrite Eexo in E2. clear - E2 Hnd. unfold exo_names in Hnd.
    revert v1 z1 E2. induction (p_exo p) as [|[y s] r IH]; intros v1 z1 E2;
      cbn -[kseries Nat.ltb firstn hd] in E2.
    - assert (Hl : Nat.ltb (List.length (kseries (p_maxtime p))) (S (p_maxtime p)) = false).
      { apply Nat.ltb_ge. unfold kseries. rewrite map_length, seq_length. lia. }
      rewrite Hl in E2.
      assert (Ev2 : v2 = set "k" (firstn (S (p_maxtime p)) (kseries (p_maxtime p))) v1) by congruence.
      assert (Ez2 : z2 = set "k" (hd 0%float (kseries (p_maxtime p))) z1) by congruence.
      rewrite Ev2, Ez2. rewrite lookup_set_eq.
      split; [|apply has_true_iff; rewrite lookup_set_eq; eauto].
      f_equal. apply firstn_all2. unfold kseries. rewrite map_length, seq_length. lia.
    - destruct (exo_values (p_maxtime p) s) as [val|]; [|discriminate].
      destruct (Nat.ltb (List.length val) (S (p_maxtime p))); [discriminate|].
      eapply IH; [|exact E2]. simpl in Hnd. tauto. }
  destruct Hk2 as [Hk2 Hh2].
  destruct (pass3_spec _ _ _ _ _ _ _ E3) as [P3a P3b].
  unfold pass4 in E4. destruct (pass3_spec _ _ _ _ _ _ _ E4) as [P4a P4b].
  assert (Hh3 : has "k" z3 = true) by (apply has_true_iff; rewrite (P3a _ Hh2); now apply has_true_iff).
  destruct (P4b "k") as [->|[Hf _]]; [|congruence].
  destruct (P3b "k") as [->|[Hf _]]; [exact Hk2|congruence].
Qed.

(** C10: an initial condition on a non-exogenous variable is its k=0 value *)
Lemma solve_ic p ts :
  solve p = Ok ts ->
  forall x c, In x (varlist p) -> ~ In x (exo_names p) -> lookup x (p_ics p) = Some (ICVal c) ->
    nth_error (series x ts) 0 = Some c.
Proof.
  intros Hs x c Hx Hnx Hic. destruct (run_ok _ _ Hs) as [ts0 [exo' [Ei Hr]]].
  destruct (init_facts_ok _ _ _ Ei) as [F _].
  assert (Hpre : pre p exo' ts0) by exact (if_exo_len _ _ _ F).
  destruct (reached_facts _ _ _ _ _ _ Hr Hpre (le_n _)) as [R1 [R2 [R3 R4]]].
  assert (Hnx' : ~ In x (map fst exo')).
  { intros H. destruct (exo'_names _ _ _ _ F H) as [H'|[-> H']]; tauto. }
  destruct (if_other _ _ _ F x Hx Hnx') as [v [Hv Hc]]. rewrite (Hc c Hic) in Hv.
  destruct (R2 x _ Hv) as [suf Hsuf]. unfold series. rewrite Hsuf. reflexivity.
Qed.

(* ------------------------------------------------------------------ one period of a successful run *)
Lemma period_facts p ts :
  solve p = Ok ts -> forall k, 1 <= k <= p_maxtime p ->
  exists ts0 exo' tsa,
    init p = Ok (ts0, exo') /\ reached p exo' 1 ts0 k tsa /\ pre p exo' tsa /\
    sr_err (step p exo' k tsa) = None /\
    step_facts p exo' k tsa (sr_ts (step p exo' k tsa)) (sr_env (step p exo' k tsa)) /\
    prefix tsa (sr_ts (step p exo' k tsa)) /\ prefix (sr_ts (step p exo' k tsa)) ts /\
    (forall x, In x (map fst exo') -> lookup x ts = lookup x tsa).
Proof.
  intros Hs k Hk. destruct (run_ok _ _ Hs) as [ts0 [exo' [Ei Hr]]].
  destruct (init_facts_ok _ _ _ Ei) as [F _].
  assert (Hpre : pre p exo' ts0) by exact (if_exo_len _ _ _ F).
  destruct (reached_split _ _ _ _ _ _ Hr k ltac:(lia)) as [tsa [R1 [R2 R3]]].
  destruct (reached_facts _ _ _ _ _ _ R1 Hpre ltac:(lia)) as [A1 [A2 [A3 _]]].
  assert (Hk' : k <= p_maxtime p) by lia.
  destruct (step_prefix _ _ _ _ A1 Hk' R2) as [S1 [S2 S3]].
  destruct (reached_facts _ _ _ _ _ _ R3 S2 (le_n _)) as [B1 [B2 [B3 _]]].
  exists ts0, exo', tsa.
  split; [exact Ei|]. split; [exact R1|]. split; [exact A1|]. split; [exact R2|].
  split; [apply step_ok_facts; auto|]. split; [exact S1|]. split; [exact B2|].
  intros x Hx. now rewrite (B3 x Hx), (S3 x Hx).
Qed.

(** the row of period k extends that period's final environment *)
Lemma env_in_row p exo' k tsa ts :
  pre p exo' tsa ->
  step_facts p exo' k tsa (sr_ts (step p exo' k tsa)) (sr_env (step p exo' k tsa)) ->
  prefix (sr_ts (step p exo' k tsa)) ts ->
  (forall x, In x (map fst exo') -> lookup x ts = lookup x tsa) ->
  forall x v, lookup x (sr_env (step p exo' k tsa)) = Some v -> row ts k x = Some v.
Proof.
  intros Hpre F Hp Hexo x v Hv.
  assert (Hh : has x (sr_env (step p exo' k tsa)) = true) by (apply has_true_iff; eauto).
  destruct (in_dec string_dec x (nonexo_names p)) as [Hi|Hni].
  - destruct (st_app _ _ _ _ _ _ F x Hi) as [l [Hl [Hlen Hts']]].
    eapply prefix_nth; [exact Hp|exact Hts'|]. rewrite (nth_error_snoc' _ _ _ Hlen).
    unfold getv. now rewrite Hv.
  - destruct (st_keys _ _ _ _ _ _ F x Hh) as [Hx|Hx]; [|tauto].
    destruct (st_exo _ _ _ _ _ _ F x Hx) as [v' [Hn Hv']]. rewrite Hv in Hv'. inversion Hv'; subst v'.
    unfold row. rewrite (Hexo x Hx). unfold nth_ts in Hn.
    destruct (lookup x tsa) as [l|]; [|discriminate]. destruct (nth_error l k); inversion Hn; reflexivity.
Qed.

(** C10 / C02: a lagged variable at k is its source at k-1, bit for bit *)
Lemma solve_lag p ts :
  solve p = Ok ts -> forall k x src, 1 <= k <= p_maxtime p -> In (x, src) (p_lagged p) ->
  exists v, row ts k x = Some v /\ row ts (k - 1) src = Some v.
Proof.
  intros Hs k x src Hk Hin.
  destruct (period_facts _ _ Hs k Hk) as [ts0 [exo' [tsa [Ei [Hr [Hpre [Hok [F [P1 [P2 Hexo]]]]]]]]]].
  destruct (st_lag _ _ _ _ _ _ F x src Hin) as [v [Hn Hv]]. exists v. split.
  - eapply env_in_row; eauto.
  - unfold nth_ts in Hn. destruct (lookup src tsa) as [l|] eqn:El; [|discriminate].
    destruct (nth_error l (k - 1)) as [w|] eqn:En; inversion Hn; subst w.
    eapply prefix_nth; [eapply prefix_trans; [exact P1|exact P2]|exact El|exact En].
Qed.

(** C02: decorative variables satisfy their equations exactly on the reported row *)
Lemma solve_deco p ts :
  solve p = Ok ts -> forall k d rhs, 1 <= k <= p_maxtime p -> In (d, rhs) (p_deco p) ->
  exists v, row ts k d = Some v /\ evalF (row ts k) rhs = Ok v.
Proof.
  intros Hs k d rhs Hk Hin.
  destruct (period_facts _ _ Hs k Hk) as [ts0 [exo' [tsa [Ei [Hr [Hpre [Hok [F [P1 [P2 Hexo]]]]]]]]]].
  pose proof (st_deco _ _ _ _ _ _ F d rhs Hin) as He.
  assert (Hd : In d (nonexo_names p)).
  { unfold nonexo_names. apply in_or_app; right; apply in_or_app; right. apply (in_map fst) in Hin. exact Hin. }
  destruct (st_app _ _ _ _ _ _ F d Hd) as [l [Hl [Hlen Hts']]].
  exists (getv d (sr_env (step p exo' k tsa))). split.
  - eapply prefix_nth; [exact P2|exact Hts'|]. now apply nth_error_snoc'.
  - eapply evalF_mono_fun; [|exact He]. intros x w Hw. eapply env_in_row; eauto.
Qed.

(** C02: exogenous values of period k are the supplied ones *)
Lemma solve_exo_row p ts :
  solve p = Ok ts -> NoDup (exo_names p) ->
  forall k x s, k <= p_maxtime p -> In (x, s) (p_exo p) ->
    exists val, exo_values (p_maxtime p) s = Ok val /\ row ts k x = nth_error val k.
Proof.
  intros Hs Hnd k x s Hk Hin. destruct (solve_exo _ _ Hs Hnd x s Hin) as [val [Hv Hl]].
  exists val. split; [exact Hv|]. unfold row. rewrite Hl. apply nth_error_firstn_lt. lia.
Qed.

(** C02: stop test.  With a tolerance below 1 (so that the loop is entered), the reported
    endogenous values of every period come out of a sweep without evaluation errors whose
    error measure was <= tolerance (hence not NaN): they are that sweep's result [w], or
    the half-way point between [w] and its input [u] once damping is active; [u] carries
    the period's pinned exogenous and lagged values. *)
Lemma solve_stop_test p ts :
  solve p = Ok ts -> keep_going 1%float (p_tol p) = true ->
  forall k, 1 <= k <= p_maxtime p ->
  exists u w r m,
    sweep p u = Ok (w, r, false) /\ leb r (p_tol p) = true /\
    (forall x, In x (endo_names p) -> row ts k x = lookup x (next_env p u w m)) /\
    (forall x v, ~ In x (endo_names p) -> lookup x u = Some v -> row ts k x = Some v).
Proof.
  intros Hs Htol k Hk.
  destruct (period_facts _ _ Hs k Hk) as [ts0 [exo' [tsa [Ei [Hr [Hpre [Hok [F [P1 [P2 Hexo]]]]]]]]]].
  destruct (st_stop _ _ _ _ _ _ F Htol (fun _ _ => True) (fun _ _ _ _ _ _ _ => I) (fun _ _ => I))
    as [u [w [r [m [_ [W1 [W2 [W3 W4]]]]]]]].
  exists u, w, r, m. repeat split; auto.
  - intros x Hx. rewrite <- (W3 x Hx).
    assert (Hd : In x (nonexo_names p)) by (unfold nonexo_names; apply in_or_app; now left).
    destruct (st_app _ _ _ _ _ _ F x Hd) as [l [Hl [Hlen Hts']]].
    assert (Hrow : row ts k x = Some (getv x (sr_env (step p exo' k tsa)))).
    { eapply prefix_nth; [exact P2|exact Hts'|]. now apply nth_error_snoc'. }
    rewrite Hrow. unfold getv.
    destruct (lookup x (sr_env (step p exo' k tsa))) as [v|] eqn:Ev; [reflexivity|].
    (* the endogenous name is bound in the final environment *)
    exfalso. rewrite (W3 x Hx) in Ev. unfold next_env in Ev.
    assert (Hh : has x w = true).
    { unfold sweep in W1. apply (sweep_eqs_keys _ _ _ _ _ _ _ _ W1). now right. }
    destruct (Nat.ltb 10 m).
    + assert (Hh' : has x (damp (p_endo p) u w) = true) by (apply damp_keys; now left).
      apply has_true_iff in Hh'. destruct Hh'; congruence.
    + apply has_true_iff in Hh. destruct Hh; congruence.
  - intros x v Hx Hv. eapply env_in_row; eauto.
    rewrite <- (W4 x Hx); [exact Hv|]. apply has_true_iff; eauto.
Qed.

(** C02: every reported value of a solved period is finite (checked before anything is appended),
    and so are the time-zero and exogenous values (checked by SetInitialConditions) *)
Lemma all_finite_lookup ts x l v : all_finite_ts ts = true -> lookup x ts = Some l -> In v l -> is_finite v = true.
Proof.
  unfold all_finite_ts. rewrite forallb_forall. intros H Hl Hv.
  apply lookup_In in Hl. specialize (H _ Hl). simpl in H. rewrite forallb_forall in H. auto.
Qed.

Lemma reached_finite p exo' k ts j ts' :
  reached p exo' k ts j ts' -> pre p exo' ts -> j <= S (p_maxtime p) ->
  (forall x l v, lookup x ts = Some l -> In v l -> is_finite v = true) ->
  (forall x l v, lookup x ts' = Some l -> In v l -> is_finite v = true).
Proof.
  induction 1 as [|j ts' Hr IH Hok]; intros Hpre Hj Hfin; [exact Hfin|].
  destruct (reached_facts _ _ _ _ _ _ Hr Hpre ltac:(lia)) as [A1 _].
  assert (Hjk : j <= p_maxtime p) by lia.
  pose proof (step_ok_facts _ _ _ _ A1 Hjk Hok) as F.
  specialize (IH Hpre ltac:(lia) Hfin).
  intros x l v Hl Hv. destruct (in_dec string_dec x (nonexo_names p)) as [Hi|Hni].
  - destruct (st_app _ _ _ _ _ _ F x Hi) as [l0 [Hl0 [_ Hts']]]. rewrite Hl in Hts'. inversion Hts'; subst l.
    apply in_app_or in Hv. destruct Hv as [Hv|[<-|[]]]; [eapply IH; eauto|].
    exact (st_fin _ _ _ _ _ _ F x Hi).
  - rewrite (st_frame _ _ _ _ _ _ F x Hni) in Hl. eapply IH; eauto.
Qed.

Lemma solve_finite p ts :
  solve p = Ok ts -> forall x l v, lookup x ts = Some l -> In v l -> is_finite v = true.
Proof.
  intros Hs. destruct (run_ok _ _ Hs) as [ts0 [exo' [Ei Hr]]].
  destruct (init_facts_ok _ _ _ Ei) as [F Hfin].
  eapply reached_finite; [exact Hr|exact (if_exo_len _ _ _ F)|lia|].
  intros x l v. now apply all_finite_lookup.
Qed.

(** C10: the time axis.  The parser's default equation [t = k] (endogenous, or decorative after
    reduction): [t] equals [k] in every solved period.  For an endogenous [t] the damped update
    computes (k + k) / 2, so the statement carries the (decidable, checked in PropC10.v for
    horizons up to 5000) side condition that this is exact for the period indices. *)
Definition half_exact (T : nat) : Prop :=
  forall i, i <= T -> ((float_of_nat i + float_of_nat i) / 2)%float = float_of_nat i.

Lemma solve_t_endo p ts :
  solve p = Ok ts -> keep_going 1%float (p_tol p) = true ->
  In ("t", EVar "k") (p_endo p) -> ~ In "k" (varlist p) -> half_exact (p_maxtime p) ->
  forall k, 1 <= k <= p_maxtime p -> row ts k "t" = Some (float_of_nat k).
Proof.
  intros Hs Htol Ht Hk Hhalf k Hkk.
  destruct (period_facts _ _ Hs k Hkk) as [ts0 [exo' [tsa [Ei [Hr [Hpre [Hok [F [P1 [P2 Hexo]]]]]]]]]].
  destruct (init_facts_ok _ _ _ Ei) as [IF _].
  assert (Hkin : In "k" (map fst exo')).
  { destruct (if_exo _ _ _ IF) as [[Hk' _]|[_ ->]]; [tauto|]. rewrite map_app. apply in_or_app. right. now left. }
  set (fk := float_of_nat k).
  assert (Hkrow : row ts k "k" = Some fk).
  { unfold row. rewrite (solve_k _ _ Hs Hk). apply kseries_nth. lia. }
  assert (Hkn : ~ In "k" (nonexo_names p)) by (intros H; exact (st_disj _ _ _ _ _ _ F _ H Hkin)).
  assert (Hke : ~ In "k" (endo_names p)) by (intros H; apply Hkn; unfold nonexo_names; apply in_or_app; now left).
  assert (Hnd_endo : NoDup (map fst (p_endo p))) by (eapply NoDup_app_l; exact (st_nodup _ _ _ _ _ _ F)).
  assert (Hte : In "t" (endo_names p)) by (apply (in_map fst) in Ht; exact Ht).
  (* value of k in the period's environments *)
  assert (Hkv : forall ini, start_env p exo' tsa k = Ok ini -> lookup "k" ini = Some fk).
  { intros ini Hini. pose proof (start_env_facts _ _ _ _ _ Hini) as SF.
    assert (Hnl : ~ In "k" (lag_names p)).
    { intros H; apply Hkn; unfold nonexo_names; apply in_or_app; right; apply in_or_app; now left. }
    destruct (sf_exo _ _ _ _ _ SF "k" Hkin Hnl Hke) as [v [Hv Hl]]. rewrite Hl. f_equal.
    unfold row in Hkrow. rewrite (Hexo "k" Hkin) in Hkrow. unfold nth_ts in Hv.
    destruct (lookup "k" tsa) as [l|]; [|discriminate]. rewrite Hkrow in Hv. now inversion Hv. }
  set (I := fun (c : env) (n : nat) => lookup "k" c = Some fk /\ (1 <= n -> lookup "t" c = Some fk)).
  assert (HIp : forall cur n new rel had, I cur n -> sweep p cur = Ok (new, rel, had) -> I (next_env p cur new n) (S n)).
  { intros cur n new rel had [Ik It] Hsw. unfold sweep in Hsw.
    assert (Hnk : lookup "k" new = Some fk) by (rewrite (sweep_eqs_frame _ _ _ _ _ _ _ _ Hsw "k" Hke); exact Ik).
    assert (Hnt : lookup "t" new = Some fk).
    { destruct (sweep_eqs_vals_gen _ _ _ _ _ _ _ _ Hsw Hnd_endo "t" (EVar "k") Ht) as [v [h [h' [He Hv]]]].
      unfold eval_eq in He. simpl in He. unfold envf in He. rewrite Ik in He. inversion He; subst. exact Hv. }
    unfold next_env, I. destruct (Nat.ltb 10 n) eqn:En.
    - split; [rewrite damp_frame by exact Hke; exact Hnk|]. intros _.
      rewrite (damp_val _ _ _ _ Hnd_endo Hte). apply Nat.ltb_lt in En.
      unfold getv. rewrite Hnt, (It ltac:(lia)). f_equal. apply Hhalf. lia.
    - split; [exact Hnk|intros _; exact Hnt]. }
  assert (HIi : forall ini, start_env p exo' tsa k = Ok ini -> I ini 0).
  { intros ini Hini. split; [now apply Hkv|lia]. }
  destruct (st_stop _ _ _ _ _ _ F Htol I HIp HIi) as [u [w [r [m [HIu [W1 [W2 [W3 W4]]]]]]]].
  destruct (HIp _ _ _ _ _ HIu W1) as [_ Hfin]. rewrite <- (W3 "t" Hte) in Hfin.
  eapply env_in_row; eauto. apply Hfin. lia.
Qed.

Lemma solve_t_deco p ts :
  solve p = Ok ts -> In ("t", EVar "k") (p_deco p) -> ~ In "k" (varlist p) ->
  forall k, 1 <= k <= p_maxtime p -> row ts k "t" = Some (float_of_nat k).
Proof.
  intros Hs Ht Hk k Hkk. destruct (solve_deco _ _ Hs k "t" (EVar "k") Hkk Ht) as [v [Hv He]].
  simpl in He. unfold row in He at 1. rewrite (solve_k _ _ Hs Hk), kseries_nth in He by lia.
  inversion He; subst. exact Hv.
Qed.

(* ------------------------------------------------------------------ traces of the periods *)
Definition passed (tol : float) (tr : list (float * bool)) : Prop :=
  exists r, In (r, false) tr /\ leb r tol = true.

Lemma step_trace_ok p exo k ts :
  keep_going 1%float (p_tol p) = true -> sr_err (step p exo k ts) = None ->
  passed (p_tol p) (sr_trace (step p exo k ts)).
Proof.
  intros Htol Hok. destruct (step_ok_inv _ _ _ _ Hok) as [ini [e' [computed [Es [El [_ [_ [_ [_ [Htr _]]]]]]]]]].
  rewrite Htr. unfold run_loop in *.
  destruct (loop_witness p (fun _ _ => True) (fun _ _ _ _ _ _ _ => I) (S (p_maxiter p)) ini 1%float false 0 [] I El)
    as [[K1 _]|[u [w [r [m [pre0 [_ [_ [W3 [_ [_ [W6 _]]]]]]]]]]]]; [congruence|].
  exists r. split.
  - rewrite W6. simpl. apply in_or_app. right. now left.
  - unfold keep_going in W3. now apply negb_false_iff in W3.
Qed.

Lemma steps_traces p exo n : forall k ts sw trs,
  keep_going 1%float (p_tol p) = true ->
  Forall (passed (p_tol p)) trs ->
  rr_err (steps n p exo k ts sw trs) = None ->
  Forall (passed (p_tol p)) (rr_traces (steps n p exo k ts sw trs)).
Proof.
  induction n as [|n IH]; intros k ts sw trs Htol Htrs; simpl; [auto|].
  destruct (sr_err (step p exo k ts)) eqn:Ee; simpl; [discriminate|].
  apply IH; [exact Htol|]. apply Forall_app. split; [exact Htrs|].
  constructor; [now apply step_trace_ok|constructor].
Qed.

(** C02: a run in which some period had no sweep passing the stop test is an error *)
Lemma run_no_diverged p :
  keep_going 1%float (p_tol p) = true ->
  forall tr, In tr (rr_traces (run p)) -> (forall r h, In (r, h) tr -> leb r (p_tol p) = false) ->
  rr_err (run p) <> None.
Proof.
  intros Htol tr Hin Hall Hnone. unfold run in *.
  destruct (init p) as [[ts0 exo']|]; simpl in *; [|discriminate].
  pose proof (steps_traces p exo' (p_maxtime p) 1 ts0 [] [] Htol (Forall_nil _) Hnone) as HF.
  rewrite Forall_forall in HF. destruct (HF tr Hin) as [r [Hr Hl]].
  rewrite (Hall r false Hr) in Hl. discriminate.
Qed.

Lemma run_sweeps_bound p : Forall (fun m => m <= S (p_maxiter p)) (rr_sweeps (run p)).
Proof.
  unfold run. destruct (init p) as [[ts0 exo']|]; simpl; [|constructor].
  apply steps_sweeps_bound. constructor.
Qed.

(** decidable form of [half_exact] *)
Definition half_exactb (T : nat) : bool :=
  forallb (fun i => Leibniz.eqb ((float_of_nat i + float_of_nat i) / 2)%float (float_of_nat i)) (seq 0 (S T)).

Lemma half_exactb_sound T : half_exactb T = true -> half_exact T.
Proof.
  unfold half_exactb, half_exact. rewrite forallb_forall. intros H i Hi.
  apply Leibniz.eqb_spec. apply H. apply in_seq. lia.
Qed.

Lemma half_exact_mono T T' : T' <= T -> half_exact T -> half_exact T'.
Proof. intros Hle H i Hi. apply H. lia. Qed.

