(** The few IEEE facts the stop test needs, from the specification axioms of [FloatAxioms]
    ([leb_spec], [eqb_spec]: primitive comparisons agree with [SpecFloat.SFcompare]). *)
From Coq Require Import ZArith PArith Bool Floats.
From SFC.Base Require Import Expr.

Lemma SFcompare_refl x : x <> S754_nan -> SFcompare x x = Some Eq.
Proof.
  destruct x as [s|s| |s m e]; simpl; intros H; try congruence.
  - destruct s; reflexivity.
  - rewrite Z.compare_refl, Pos.compare_cont_refl. destruct s; reflexivity.
Qed.

(** [r <= t] can only hold when [r] is a number *)
Lemma leb_true_not_nan r t : PrimFloat.leb r t = true -> is_nan r = false.
Proof.
  intros H. unfold is_nan. rewrite leb_spec in H. rewrite eqb_spec.
  unfold SFleb in H. unfold SFeqb.
  destruct (Prim2SF r) eqn:E; try (rewrite SFcompare_refl by congruence; reflexivity).
  simpl in H. discriminate.
Qed.

