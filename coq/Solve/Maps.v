(** Lemmas about association maps ([lookup] / [set]) and list helpers. *)
From Coq Require Import List String Bool Arith Lia PrimFloat.
From SFC.Base Require Import Res Str Expr.
From SFC.Solve Require Import Types.
Import ListNotations.

Section Maps.
Context {A : Type}.
Implicit Types (m : amap A) (x y : string).

Lemma lookup_set_eq x (v : A) m : lookup x (set x v m) = Some v.
Proof.
  induction m as [|[y w] m IH]; simpl.
  - now rewrite String.eqb_refl.
  - destruct (String.eqb x y) eqn:E; simpl; rewrite E; [reflexivity|exact IH].
Qed.

Lemma lookup_set_neq x y (v : A) m : x <> y -> lookup y (set x v m) = lookup y m.
Proof.
  intros Hn. induction m as [|[z w] m IH]; simpl.
  - destruct (String.eqb_spec y x); [congruence|reflexivity].
  - destruct (String.eqb_spec x z) as [->|Hxz]; simpl.
    + destruct (String.eqb_spec y z); [congruence|reflexivity].
    + destruct (String.eqb y z); [reflexivity|exact IH].
Qed.

Lemma lookup_set x y (v : A) m :
  lookup y (set x v m) = if String.eqb y x then Some v else lookup y m.
Proof.
  destruct (String.eqb_spec y x) as [->|Hn]; [apply lookup_set_eq|].
  apply lookup_set_neq. congruence.
Qed.

Lemma has_set x y (v : A) m : has y (set x v m) = String.eqb y x || has y m.
Proof. unfold has. rewrite lookup_set. destruct (String.eqb y x); reflexivity. Qed.

Lemma has_true_iff x m : has x m = true <-> exists v, lookup x m = Some v.
Proof. unfold has. destruct (lookup x m); split; intros H; eauto; try discriminate. destruct H; discriminate. Qed.

Lemma has_false_iff x m : has x m = false <-> lookup x m = None.
Proof. unfold has. destruct (lookup x m); split; intros H; congruence. Qed.

Lemma lookup_In x m (v : A) : lookup x m = Some v -> In (x, v) m.
Proof.
  induction m as [|[y w] m IH]; simpl; [discriminate|].
  destruct (String.eqb_spec x y) as [->|Hn]; intros H.
  - inversion H; subst. now left.
  - right. now apply IH.
Qed.

Lemma lookup_In_fst x m (v : A) : lookup x m = Some v -> In x (map fst m).
Proof. intros H. apply lookup_In in H. apply (in_map fst) in H. exact H. Qed.

Lemma In_fst_lookup x m : In x (map fst m) -> exists v, lookup x m = Some v.
Proof.
  induction m as [|[y w] m IH]; simpl; [tauto|].
  intros [->|H].
  - rewrite String.eqb_refl. eauto.
  - destruct (String.eqb x y); eauto.
Qed.

Lemma lookup_None_notin x m : lookup x m = None <-> ~ In x (map fst m).
Proof.
  split.
  - intros H Hin. apply In_fst_lookup in Hin. destruct Hin as [v Hv]. congruence.
  - intros H. destruct (lookup x m) eqn:E; [|reflexivity]. exfalso. apply H. eapply lookup_In_fst; eauto.
Qed.

Lemma NoDup_lookup x (v : A) m : NoDup (map fst m) -> In (x, v) m -> lookup x m = Some v.
Proof.
  induction m as [|[y w] m IH]; simpl; [tauto|].
  intros Hnd [Heq|Hin]; inversion Hnd as [|? ? Hnotin Hnd']; subst.
  - inversion Heq; subst. now rewrite String.eqb_refl.
  - destruct (String.eqb_spec x y) as [->|Hn].
    + exfalso. apply Hnotin. apply (in_map fst) in Hin. exact Hin.
    + now apply IH.
Qed.

Lemma keys_set x (v : A) m y : In y (map fst (set x v m)) <-> y = x \/ In y (map fst m).
Proof.
  induction m as [|[z w] m IH]; simpl.
  - split; [intros [H|[]]; auto|intros [H|[]]; auto].
  - destruct (String.eqb_spec x z) as [->|Hn]; simpl.
    + split; [intros [H|H]; auto|intros [H|[H|H]]; auto].
    + rewrite IH. split; [intros [H|[H|H]]; auto|intros [H|[H|H]]; auto].
Qed.
End Maps.

(** extension order on environments *)
Definition env_le (a b : env) : Prop := forall x v, lookup x a = Some v -> lookup x b = Some v.

Lemma env_le_refl a : env_le a a.
Proof. intros x v H; exact H. Qed.

Lemma env_le_trans a b c : env_le a b -> env_le b c -> env_le a c.
Proof. intros H1 H2 x v H. apply H2, H1, H. Qed.

Lemma env_le_set_fresh a x v : has x a = false -> env_le a (set x v a).
Proof.
  intros Hf y w Hy. rewrite lookup_set.
  destruct (String.eqb_spec y x) as [->|Hn]; [|exact Hy].
  apply has_false_iff in Hf. congruence.
Qed.

(** [evalF] only raises NameError, ZeroDivisionError or ValueError ... *)
Lemma evalF_err_class env e er :
  evalF env e = Err er -> er = NameError \/ er = ZeroDiv \/ er = ValueError.
Proof.
  revert er. induction e; simpl; intros er H; try discriminate.
  - destruct (env s); [discriminate|]. inversion H; auto.
  - destruct (evalF env e); simpl in H; [discriminate|]. inversion H; subst; eauto.
  - eauto.
  - destruct (evalF env e1); simpl in H; [|inversion H; subst; eauto].
    destruct (evalF env e2); simpl in H; [discriminate|inversion H; subst; eauto].
  - destruct (evalF env e1); simpl in H; [|inversion H; subst; eauto].
    destruct (evalF env e2); simpl in H; [discriminate|inversion H; subst; eauto].
  - destruct (evalF env e1); simpl in H; [|inversion H; subst; eauto].
    destruct (evalF env e2); simpl in H; [discriminate|inversion H; subst; eauto].
  - destruct (evalF env e1); simpl in H; [|inversion H; subst; eauto].
    destruct (evalF env e2) as [y|]; simpl in H; [|inversion H; subst; eauto].
    destruct (is_zero y); inversion H; auto.
  - destruct (evalF env e); simpl in H; [|inversion H; subst; eauto].
    destruct f; simpl in H; try discriminate.
    match type of H with context [PrimFloat.ltb ?a ?b] => destruct (PrimFloat.ltb a b) end; inversion H; auto.
  - destruct (evalF env e1); simpl in H; [|inversion H; subst; eauto].
    destruct (evalF env e2); simpl in H; [discriminate|inversion H; subst; eauto].
Qed.

(** ... and a successful evaluation is stable under extension of the environment
    (every name it read is bound). *)
Lemma evalF_mono (a b : env) e v :
  env_le a b -> evalF (envf a) e = Ok v -> evalF (envf b) e = Ok v.
Proof.
  intros Hle. revert v. induction e; simpl; intros v H; try exact H.
  - unfold envf in *. destruct (lookup s a) eqn:E; [|discriminate]. now rewrite (Hle _ _ E).
  - destruct (evalF (envf a) e); simpl in H; [|discriminate]. now rewrite (IHe _ eq_refl).
  - eauto.
  - destruct (evalF (envf a) e1); simpl in H; [|discriminate]. rewrite (IHe1 _ eq_refl). simpl.
    destruct (evalF (envf a) e2); simpl in H; [|discriminate]. now rewrite (IHe2 _ eq_refl).
  - destruct (evalF (envf a) e1); simpl in H; [|discriminate]. rewrite (IHe1 _ eq_refl). simpl.
    destruct (evalF (envf a) e2); simpl in H; [|discriminate]. now rewrite (IHe2 _ eq_refl).
  - destruct (evalF (envf a) e1); simpl in H; [|discriminate]. rewrite (IHe1 _ eq_refl). simpl.
    destruct (evalF (envf a) e2); simpl in H; [|discriminate]. now rewrite (IHe2 _ eq_refl).
  - destruct (evalF (envf a) e1); simpl in H; [|discriminate]. rewrite (IHe1 _ eq_refl). simpl.
    destruct (evalF (envf a) e2); simpl in H; [|discriminate]. now rewrite (IHe2 _ eq_refl).
  - destruct (evalF (envf a) e); simpl in H; [|discriminate]. now rewrite (IHe _ eq_refl).
  - destruct (evalF (envf a) e1); simpl in H; [|discriminate]. rewrite (IHe1 _ eq_refl). simpl.
    destruct (evalF (envf a) e2); simpl in H; [|discriminate]. now rewrite (IHe2 _ eq_refl).
Qed.

(** every name of a successfully evaluated expression is bound *)
Lemma evalF_ok_names (a : env) e v :
  evalF (envf a) e = Ok v -> forall x, In x (names e) -> has x a = true.
Proof.
  revert v. induction e; simpl; intros v H x Hin; try tauto.
  - destruct Hin as [<-|[]]. unfold envf, has in *. destruct (lookup s a); [reflexivity|discriminate].
  - destruct (evalF (envf a) e); simpl in H; [|discriminate]. eauto.
  - eauto.
  - destruct (evalF (envf a) e1); simpl in H; [|discriminate].
    destruct (evalF (envf a) e2); simpl in H; [|discriminate].
    apply in_app_or in Hin. destruct Hin; eauto.
  - destruct (evalF (envf a) e1); simpl in H; [|discriminate].
    destruct (evalF (envf a) e2); simpl in H; [|discriminate].
    apply in_app_or in Hin. destruct Hin; eauto.
  - destruct (evalF (envf a) e1); simpl in H; [|discriminate].
    destruct (evalF (envf a) e2); simpl in H; [|discriminate].
    apply in_app_or in Hin. destruct Hin; eauto.
  - destruct (evalF (envf a) e1); simpl in H; [|discriminate].
    destruct (evalF (envf a) e2); simpl in H; [|discriminate].
    apply in_app_or in Hin. destruct Hin; eauto.
  - destruct (evalF (envf a) e); simpl in H; [|discriminate]. eauto.
  - destruct (evalF (envf a) e1); simpl in H; [|discriminate].
    destruct (evalF (envf a) e2); simpl in H; [|discriminate].
    apply in_app_or in Hin. destruct Hin; eauto.
Qed.

(** a NameError means some name of the expression is unbound *)
Lemma evalF_closed_no_NameError (a : env) e :
  (forall x, In x (names e) -> has x a = true) -> evalF (envf a) e <> Err NameError.
Proof.
  induction e; simpl; intros Hc H; try discriminate.
  - unfold envf in H. specialize (Hc s (or_introl eq_refl)). unfold has in Hc.
    destruct (lookup s a); discriminate.
  - destruct (evalF (envf a) e) eqn:E; simpl in H; [discriminate|]. inversion H; subst. now apply IHe.
  - now apply IHe.
  - destruct (evalF (envf a) e1) eqn:E1; simpl in H.
    + destruct (evalF (envf a) e2) eqn:E2; simpl in H; [discriminate|]. inversion H; subst.
      apply IHe2; [|reflexivity]. intros; apply Hc, in_or_app; auto.
    + inversion H; subst. apply IHe1; [|reflexivity]. intros; apply Hc, in_or_app; auto.
  - destruct (evalF (envf a) e1) eqn:E1; simpl in H.
    + destruct (evalF (envf a) e2) eqn:E2; simpl in H; [discriminate|]. inversion H; subst.
      apply IHe2; [|reflexivity]. intros; apply Hc, in_or_app; auto.
    + inversion H; subst. apply IHe1; [|reflexivity]. intros; apply Hc, in_or_app; auto.
  - destruct (evalF (envf a) e1) eqn:E1; simpl in H.
    + destruct (evalF (envf a) e2) eqn:E2; simpl in H; [discriminate|]. inversion H; subst.
      apply IHe2; [|reflexivity]. intros; apply Hc, in_or_app; auto.
    + inversion H; subst. apply IHe1; [|reflexivity]. intros; apply Hc, in_or_app; auto.
  - destruct (evalF (envf a) e1) eqn:E1; simpl in H.
    + destruct (evalF (envf a) e2) as [y|] eqn:E2; simpl in H.
      * destruct (is_zero y); discriminate.
      * inversion H; subst. apply IHe2; [|reflexivity]. intros; apply Hc, in_or_app; auto.
    + inversion H; subst. apply IHe1; [|reflexivity]. intros; apply Hc, in_or_app; auto.
  - destruct (evalF (envf a) e) eqn:E; simpl in H.
    + destruct f; simpl in H; try discriminate.
      match type of H with context [PrimFloat.ltb ?a ?b] => destruct (PrimFloat.ltb a b) end; discriminate.
    + inversion H; subst. now apply IHe.
  - destruct (evalF (envf a) e1) eqn:E1; simpl in H.
    + destruct (evalF (envf a) e2) eqn:E2; simpl in H; [discriminate|]. inversion H; subst.
      apply IHe2; [|reflexivity]. intros; apply Hc, in_or_app; auto.
    + inversion H; subst. apply IHe1; [|reflexivity]. intros; apply Hc, in_or_app; auto.
Qed.

(* list helpers *)
Lemma nth_error_app_l {A} (l s : list A) i : i < List.length l -> nth_error (l ++ s)%list i = nth_error l i.
Proof. intros H. now apply nth_error_app1. Qed.

Lemma nth_error_snoc {A} (l : list A) v : nth_error (l ++ [v])%list (List.length l) = Some v.
Proof. rewrite nth_error_app2 by lia. now rewrite Nat.sub_diag. Qed.

Lemma NoDup_app_disj {A} (a b : list A) x : NoDup (a ++ b)%list -> In x a -> In x b -> False.
Proof.
  induction a as [|y a IH]; simpl; [tauto|].
  intros H [->|Hi] Hb; inversion H as [|? ? Hn Hd]; subst.
  - apply Hn. apply in_or_app. now right.
  - eauto.
Qed.

Lemma NoDup_app_r {A} (a b : list A) : NoDup (a ++ b)%list -> NoDup b.
Proof. induction a as [|y a IH]; simpl; [auto|]. intros H. inversion H; auto. Qed.

Lemma NoDup_app_l {A} (a b : list A) : NoDup (a ++ b)%list -> NoDup a.
Proof.
  induction a as [|y a IH]; simpl; [constructor|]. intros H. inversion H as [|? ? Hn Hd]; subst.
  constructor; [|auto]. intros Hi. apply Hn. apply in_or_app. now left.
Qed.

(** monotonicity of a successful evaluation, for environments given as functions *)
Lemma evalF_mono_fun (f g : string -> option float) e v :
  (forall x w, f x = Some w -> g x = Some w) -> evalF f e = Ok v -> evalF g e = Ok v.
Proof.
  intros Hle. revert v. induction e; simpl; intros v H; try exact H.
  - destruct (f s) eqn:E; [|discriminate]. now rewrite (Hle _ _ E).
  - destruct (evalF f e); simpl in H; [|discriminate]. now rewrite (IHe _ eq_refl).
  - eauto.
  - destruct (evalF f e1); simpl in H; [|discriminate]. rewrite (IHe1 _ eq_refl). simpl.
    destruct (evalF f e2); simpl in H; [|discriminate]. now rewrite (IHe2 _ eq_refl).
  - destruct (evalF f e1); simpl in H; [|discriminate]. rewrite (IHe1 _ eq_refl). simpl.
    destruct (evalF f e2); simpl in H; [|discriminate]. now rewrite (IHe2 _ eq_refl).
  - destruct (evalF f e1); simpl in H; [|discriminate]. rewrite (IHe1 _ eq_refl). simpl.
    destruct (evalF f e2); simpl in H; [|discriminate]. now rewrite (IHe2 _ eq_refl).
  - destruct (evalF f e1); simpl in H; [|discriminate]. rewrite (IHe1 _ eq_refl). simpl.
    destruct (evalF f e2); simpl in H; [|discriminate]. now rewrite (IHe2 _ eq_refl).
  - destruct (evalF f e); simpl in H; [|discriminate]. now rewrite (IHe _ eq_refl).
  - destruct (evalF f e1); simpl in H; [|discriminate]. rewrite (IHe1 _ eq_refl). simpl.
    destruct (evalF f e2); simpl in H; [|discriminate]. now rewrite (IHe2 _ eq_refl).
Qed.

Lemma NoDup_app_snoc {A} (a : list A) x : NoDup a -> ~ In x a -> NoDup (a ++ [x])%list.
Proof.
  induction a as [|y a IH]; simpl; intros Hnd Hx.
  - constructor; [tauto|constructor].
  - inversion Hnd as [|? ? Hn Hd]; subst. constructor.
    + intros Hi. apply in_app_or in Hi. destruct Hi as [Hi|[Hi|[]]]; [tauto|]. subst. tauto.
    + apply IH; tauto.
Qed.

Lemma nth_error_snoc' {A} (l : list A) v k : List.length l = k -> nth_error (l ++ [v])%list k = Some v.
Proof. intros <-. apply nth_error_snoc. Qed.

Lemma nth_error_firstn_lt {A} (l : list A) : forall n k, k < n -> nth_error (firstn n l) k = nth_error l k.
Proof.
  induction l as [|a l IH]; intros n k Hk.
  - now rewrite firstn_nil.
  - destruct n; [lia|]. destruct k; simpl; [reflexivity|]. apply IH. lia.
Qed.
