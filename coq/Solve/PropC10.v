(** C10 — exogenous paths, initial conditions and horizon are honoured verbatim.
    Model: Init.v / Step.v / Run.v ([solve] = SolveEquation on a parser state). *)
From Coq Require Import List String Bool Arith Lia PrimFloat Floats.
From SFC.Base Require Import Res Str Sorting Expr.
From SFC.Solve Require Import Types Maps Init Step Run Orig InitProofs StepProofs RunProofs Examples.
Import ListNotations.
Local Open Scope string_scope.

(** every variable (and the injected time index k) has exactly MaxTime+1 values *)
Theorem C10_lengths : forall p ts, solve p = Ok ts ->
  forall x, In x (varlist p) \/ x = "k" -> List.length (series x ts) = S (p_maxtime p).
Proof. exact solve_lengths. Qed.
Print Assumptions C10_lengths.

(** an exogenous series is the first MaxTime+1 supplied values; a float scalar is broadcast *)
Theorem C10_exo : forall p ts, solve p = Ok ts -> NoDup (exo_names p) ->
  forall x,
    (forall l, In (x, ExoList l) (p_exo p) -> lookup x ts = Some (firstn (S (p_maxtime p)) l)) /\
    (forall c, In (x, ExoScalarFloat c) (p_exo p) -> lookup x ts = Some (repeat c (S (p_maxtime p)))).
Proof.
  intros p ts Hs Hnd x. split.
  - intros l Hin. destruct (solve_exo _ _ Hs Hnd x _ Hin) as [val [Hv Hl]]. simpl in Hv. now inversion Hv; subst.
  - intros c Hin. destruct (solve_exo _ _ Hs Hnd x _ Hin) as [val [Hv Hl]]. simpl in Hv. inversion Hv; subst.
    rewrite Hl. f_equal. apply firstn_all2. rewrite repeat_length. lia.
Qed.
Print Assumptions C10_exo.

(** a stated initial condition on a non-exogenous variable is exactly its k=0 value *)
Theorem C10_ic : forall p ts, solve p = Ok ts ->
  forall x c, In x (varlist p) -> ~ In x (exo_names p) -> lookup x (p_ics p) = Some (ICVal c) ->
    nth_error (series x ts) 0 = Some c.
Proof. exact solve_ic. Qed.
Print Assumptions C10_ic.

(** a lagged variable at k is its source at k-1 (the same double) *)
Theorem C10_lag : forall p ts, solve p = Ok ts ->
  forall k x src, 1 <= k <= p_maxtime p -> In (x, src) (p_lagged p) ->
    exists v, row ts k x = Some v /\ row ts (k - 1) src = Some v.
Proof. exact solve_lag. Qed.
Print Assumptions C10_lag.

(** the time axis: k = 0.0, 1.0, ...; the default equation t = k (decorative after reduction,
    endogenous otherwise) makes t equal to k in every solved period *)
Theorem C10_time : forall p ts, solve p = Ok ts -> ~ In "k" (varlist p) ->
  (forall i, i <= p_maxtime p -> row ts i "k" = Some (float_of_nat i)) /\
  (In ("t", EVar "k") (p_deco p) ->
     forall k, 1 <= k <= p_maxtime p -> row ts k "t" = Some (float_of_nat k)) /\
  (In ("t", EVar "k") (p_endo p) -> keep_going 1%float (p_tol p) = true -> half_exact (p_maxtime p) ->
     forall k, 1 <= k <= p_maxtime p -> row ts k "t" = Some (float_of_nat k)).
Proof.
  intros p ts Hs Hk. split; [|split].
  - intros i Hi. unfold row. rewrite (solve_k _ _ Hs Hk). now apply kseries_nth.
  - intros Ht. now apply solve_t_deco.
  - intros Ht Htol Hh. now apply solve_t_endo.
Qed.
Print Assumptions C10_time.

(** the side condition of C10_time holds for every horizon up to 5000 periods *)
Theorem C10_time_half_exact_5000 : forall T, T <= 5000 -> half_exact T.
Proof. intros T HT. apply (half_exact_mono 5000); [exact HT|]. apply half_exactb_sound. vm_compute. reflexivity. Qed.
Print Assumptions C10_time_half_exact_5000.

(** a short exogenous list, an exogenous specification that cannot be evaluated or is not a list,
    or an initial condition that cannot be evaluated: ValueError, and no period is attempted *)
Theorem C10_reject : forall p,
  (exists x, In x (varlist p) /\ lookup x (p_ics p) = Some ICBad) \/
  (exists x s, In (x, s) (p_exo p) /\
     match exo_values (p_maxtime p) s with Ok val => List.length val < S (p_maxtime p) | Err _ => True end) ->
  run p = mkRR [] [] [] (Some ValueError).
Proof. intros p H. unfold run. now rewrite (init_rejects p H). Qed.
Print Assumptions C10_reject.

(* ---- the hypotheses are satisfiable on a non-trivial state, and the conclusions are not vacuous *)
Example C10_example_solves : exists ts, solve ex1 = Ok ts /\
  lookup "G" ts = Some [1%float; 2%float; 3%float; 4%float] /\
  nth_error (series "x" ts) 0 = Some 2%float /\
  row ts 2 "LAG_x" = row ts 1 "x" /\ row ts 3 "t" = Some 3%float.
Proof. eexists. split; [vm_compute; reflexivity|]. vm_compute. repeat split; reflexivity. Qed.
Print Assumptions C10_example_solves.

Example C10_example_hyps : NoDup (exo_names ex1) /\ ~ In "k" (varlist ex1) /\
  keep_going 1%float (p_tol ex1) = true /\ In ("t", EVar "k") (p_endo ex1).
Proof.
  split; [repeat constructor; simpl; tauto|]. split; [vm_compute; intuition discriminate|].
  split; [vm_compute; reflexivity|simpl; tauto].
Qed.
Print Assumptions C10_example_hyps.

Example C10_example_reject :
  run (mkP [("x", EVar "G")] [] [("G", ExoList [1%float; 2%float])] [] [] 2 tol6 400)
  = mkRR [] [] [] (Some ValueError).
Proof. apply C10_reject. right. exists "G", (ExoList [1%float; 2%float]). split; [now left|simpl; lia]. Qed.
Print Assumptions C10_example_reject.

(** D02c, before the fix: a time-zero overflow was stored and reported *)
Theorem C10_C02_time_zero_orig_refuted :
  exists ts, solve_orig ex_zero_inf = Ok ts /\ nth_error (series "x" ts) 0 = Some infinity.
Proof. eexists. split; vm_compute; reflexivity. Qed.
Print Assumptions C10_C02_time_zero_orig_refuted.
