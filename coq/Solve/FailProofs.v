(** Failing runs (C11): error classes, bounded work, the periods already solved stay intact. *)
From Coq Require Import List String Bool Arith Lia PrimFloat Permutation.
From SFC.Base Require Import Res Str Sorting Expr.
From SFC.Solve Require Import Types Maps Init Step Run InitProofs StepProofs RunProofs.
Import ListNotations.
Local Open Scope string_scope.
Local Open Scope list_scope.

(** Well-formed parser state: every name is defined once, and lags refer to defined variables.
    (A state that violates this makes the Python code fail an [assert] or raise KeyError.) *)
Record wf (p : pstate) : Prop := {
  wf_nodup : NoDup (nonexo_names p);
  wf_disj : forall x, In x (nonexo_names p) -> ~ In x (exo_names p);
  wf_lagsrc : forall x src, In (x, src) (p_lagged p) -> In src (varlist p) \/ src = "k"
}.

(** every name an endogenous equation mentions is a variable of the period's environment *)
Definition closed (p : pstate) : Prop :=
  forall x e y, In (x, e) (p_endo p) -> In y (names e) ->
    In y (endo_names p) \/ In y (lag_names p) \/ In y (exo_names p) \/ y = "k".

Section Fail.
Variable p : pstate.
Variable exo : list (string * exo_spec).

(** the state at the start of period k: complete exogenous series, everything else of length k *)
Definition ready (k : nat) (ts : tseries) : Prop :=
  pre p exo ts /\ forall x, In x (nonexo_names p) -> exists l, lookup x ts = Some l /\ List.length l = k.

Hypothesis Hnd : NoDup (nonexo_names p).
Hypothesis Hdisj : forall x, In x (nonexo_names p) -> ~ In x (map fst exo).
Hypothesis Hsrc : forall x src, In (x, src) (p_lagged p) -> In src (map fst exo) \/ In src (nonexo_names p).

Lemma nth_ts_ok ts x i l : lookup x ts = Some l -> i < List.length l -> exists v, nth_ts ts x i = Ok v.
Proof.
  intros Hl Hi. unfold nth_ts. rewrite Hl. destruct (nth_error l i) eqn:E; [eauto|].
  apply nth_error_None in E. lia.
Qed.

Lemma pin_exo_ok ts k : pre p exo ts -> k <= p_maxtime p ->
  forall l ini, (forall x, In x (map fst l) -> In x (map fst exo)) -> exists ini', pin_exo l ts k ini = Ok ini'.
Proof.
  intros Hpre Hk. induction l as [|[y s] r IH]; simpl; intros ini Hsub; [eauto|].
  destruct (Hpre y (Hsub y (or_introl eq_refl))) as [ly [Hly Hlen]].
  destruct (nth_ts_ok ts y k ly Hly ltac:(lia)) as [v ->]. apply IH. intros x Hx. apply Hsub. now right.
Qed.

Lemma start_env_ok k ts : ready k ts -> 1 <= k <= p_maxtime p -> exists ini, start_env p exo ts k = Ok ini.
Proof.
  intros [Hpre Hlen] Hk. unfold start_env.
  destruct (pin_exo_ok ts k Hpre ltac:(lia) exo [] (fun x H => H)) as [i1 ->].
  assert (Hlag : forall l ini, (forall x src, In (x, src) l -> In (x, src) (p_lagged p)) ->
                   exists ini', pin_lag l ts k ini = Ok ini').
  { induction l as [|[y s] r IH]; simpl; intros ini Hsub; [eauto|].
    assert (Hs : exists ls, lookup s ts = Some ls /\ k - 1 < List.length ls).
    { destruct (Hsrc y s (Hsub y s (or_introl eq_refl))) as [H|H].
      - destruct (Hpre s H) as [ls [Hls Hl]]. exists ls. split; [assumption|lia].
      - destruct (Hlen s H) as [ls [Hls Hl]]. exists ls. split; [assumption|lia]. }
    destruct Hs as [ls [Hls Hl]]. destruct (nth_ts_ok ts s (k - 1) ls Hls Hl) as [v ->].
    apply IH. intros x src Hx. apply Hsub. now right. }
  destruct (Hlag (p_lagged p) i1 (fun x src H => H)) as [i2 ->].
  assert (Hg : forall l ini, (forall x, In x (map fst l) -> In x (endo_names p)) ->
                 exists ini', guess l ts k ini = Ok ini').
  { induction l as [|[y s] r IH]; simpl; intros ini Hsub; [eauto|].
    assert (Hy : In y (nonexo_names p)) by (unfold nonexo_names; apply in_or_app; left; apply Hsub; now left).
    destruct (Hlen y Hy) as [ly [Hly Hl]]. destruct (nth_ts_ok ts y (k - 1) ly Hly ltac:(lia)) as [v ->].
    apply IH. intros x Hx. apply Hsub. now right. }
  exact (Hg (p_endo p) i2 (fun x H => H)).
Qed.

(** A failing period of a well-formed state: nothing was appended, and the error is one of
    NameError (an endogenous equation mentions an unbound name), ConvergenceError, ValueError. *)
Lemma step_fail k ts e : ready k ts -> 1 <= k <= p_maxtime p ->
  sr_err (step p exo k ts) = Some e ->
  sr_ts (step p exo k ts) = ts /\
  ((e = NameError /\ exists u, sweep p u = Err NameError) \/ e = ConvergenceError \/ e = ValueError).
Proof.
  intros Hready Hk. destruct (start_env_ok k ts Hready Hk) as [ini Hini].
  unfold step. rewrite Hini.
  destruct (lr_err (run_loop p ini)) as [e0|] eqn:El.
  { simpl. intros H; inversion H; subst e0. split; [reflexivity|].
    unfold run_loop in El.
    destruct (loop_fail p (S (p_maxiter p)) ini 1%float false 0 [] e ltac:(lia) ltac:(lia) El)
      as [[-> Hu]|[[_ [pre0 [r [h [_ ->]]]]]|[_ [-> _]]]]; auto.
    destruct h; auto. }
  destruct (deco_pass (S (List.length (p_deco p))) (p_deco p) (lr_env (run_loop p ini)) []) as [[e' computed]|e0] eqn:Ed.
  2:{ simpl. intros H; inversion H; subst e0. split; [reflexivity|]. right; right.
      eapply deco_pass_err; [|exact Ed]. lia. }
  destruct (forallb (fun x => is_finite (getv x e')) (endo_names p ++ lag_names p ++ computed)) eqn:Ef.
  2:{ simpl. intros H; inversion H. auto. }
  (* the appends cannot fail on a ready state *)
  destruct (deco_pass_spec _ _ _ _ _ _ Ed) as [newc [D1 [D2 _]]]. simpl in D1. subst newc.
  assert (Hperm : Permutation (nonexo_names p) (endo_names p ++ lag_names p ++ computed)).
  { unfold nonexo_names, deco_names. now repeat apply Permutation_app_head. }
  pose proof (append_all_ok (endo_names p ++ lag_names p ++ computed) e' k ts
                (Permutation_NoDup Hperm Hnd)) as Ha.
  destruct (append_all (endo_names p ++ lag_names p ++ computed) e' k ts) as [ts' oe] eqn:Ea.
  simpl. simpl in Ha. rewrite Ha; [discriminate|].
  intros x Hx. apply (proj2 Hready). eapply Permutation_in; [apply Permutation_sym; exact Hperm|exact Hx].
Qed.

Lemma step_ready k ts : ready k ts -> 1 <= k <= p_maxtime p -> sr_err (step p exo k ts) = None ->
  ready (S k) (sr_ts (step p exo k ts)).
Proof.
  intros [Hpre Hlen] Hk Hok. assert (Hk' : k <= p_maxtime p) by lia.
  destruct (step_prefix _ _ _ _ Hpre Hk' Hok) as [_ [S2 _]].
  split; [exact S2|]. intros x Hx.
  pose proof (step_ok_facts _ _ _ _ Hpre Hk' Hok) as F.
  destruct (st_app _ _ _ _ _ _ F x Hx) as [l [_ [Hl Hts']]].
  eexists; split; [exact Hts'|]. rewrite app_length. simpl. lia.
Qed.

Lemma reached_ready k ts j ts' : reached p exo k ts j ts' -> ready k ts -> 1 <= k -> j <= S (p_maxtime p) -> ready j ts'.
Proof.
  induction 1 as [|j ts' Hr IH Hok]; intros Hready Hk Hj; [exact Hready|].
  apply step_ready; [apply IH; auto; lia| |exact Hok]. apply reached_le in Hr. lia.
Qed.
End Fail.

(** the initial state of a well-formed parser state is ready for period 1 *)
Lemma init_ready p ts0 exo' : wf p -> init p = Ok (ts0, exo') ->
  ready p exo' 1 ts0 /\
  (forall x, In x (nonexo_names p) -> ~ In x (map fst exo')) /\
  (forall x src, In (x, src) (p_lagged p) -> In src (map fst exo') \/ In src (nonexo_names p)).
Proof.
  intros W Ei. destruct (init_facts_ok _ _ _ Ei) as [F _].
  assert (Hsubv : forall x, In x (nonexo_names p) -> In x (varlist p)).
  { intros x Hx. apply varlist_In. unfold nonexo_names in Hx.
    apply in_app_or in Hx. destruct Hx as [Hx|Hx]; [apply in_or_app; now left|].
    apply in_app_or in Hx. destruct Hx as [Hx|Hx]; apply in_or_app; right; apply in_or_app; [now left|].
    right. apply in_or_app. now right. }
  assert (Hd : forall x, In x (nonexo_names p) -> ~ In x (map fst exo')).
  { intros x Hx Hxe. destruct (exo'_names _ _ _ _ F Hxe) as [H|[-> H]].
    - exact (wf_disj _ W x Hx H).
    - apply H. now apply Hsubv. }
  split; [split|split].
  - exact (if_exo_len _ _ _ F).
  - intros x Hx. destruct (if_other _ _ _ F x (Hsubv x Hx) (Hd x Hx)) as [v [Hv _]]. eauto.
  - exact Hd.
  - intros x src Hin. destruct (wf_lagsrc _ W x src Hin) as [H| ->].
    + destruct (varlist_cases _ _ _ _ F H); auto.
    + destruct (in_dec string_dec "k" (varlist p)) as [Hi|Hni].
      * destruct (varlist_cases _ _ _ _ F Hi); auto.
      * left. destruct (if_exo _ _ _ F) as [[Hk _]|[_ ->]]; [tauto|]. rewrite map_app. apply in_or_app. right. now left.
Qed.

(** shape of a failing run *)
Lemma run_fail p e :
  rr_err (run p) = Some e ->
  (init p = Err e /\ e = ValueError /\ rr_ts (run p) = [] /\ rr_sweeps (run p) = []) \/
  (exists ts0 exo' j tsj, init p = Ok (ts0, exo') /\ 1 <= j <= p_maxtime p /\
     reached p exo' 1 ts0 j tsj /\ sr_err (step p exo' j tsj) = Some e /\
     rr_ts (run p) = sr_ts (step p exo' j tsj)).
Proof.
  unfold run. destruct (init p) as [[ts0 exo']|e0] eqn:Ei; simpl.
  - intros He. right. pose proof (steps_char p exo' (p_maxtime p) 1 ts0 [] []) as Hc.
    rewrite He in Hc. destruct Hc as [j [tsj [Hj [Hr [Hs Hts]]]]].
    exists ts0, exo', j, tsj. repeat split; auto; lia.
  - intros H; inversion H; subst e0. left. repeat split; auto. eapply init_err; eauto.
Qed.

(** C11: the error class of a failing solve; the series of the periods already solved stay
    as they were and all non-exogenous series have the same length *)
Lemma run_fail_wf p e : wf p ->
  rr_err (run p) = Some e ->
  (e = ValueError /\ rr_ts (run p) = []) \/
  (exists ts0 exo' j, init p = Ok (ts0, exo') /\ 1 <= j <= p_maxtime p /\
     reached p exo' 1 ts0 j (rr_ts (run p)) /\
     (forall x, In x (nonexo_names p) -> List.length (series x (rr_ts (run p))) = j) /\
     (forall x, In x (map fst exo') -> List.length (series x (rr_ts (run p))) = S (p_maxtime p)) /\
     ((e = NameError /\ exists u, sweep p u = Err NameError) \/ e = ConvergenceError \/ e = ValueError)).
Proof.
  intros W He. destruct (run_fail _ _ He) as [[_ [-> [Hts _]]]|[ts0 [exo' [j [tsj [Ei [Hj [Hr [Hs Hts]]]]]]]]]; [auto|].
  right. destruct (init_ready _ _ _ W Ei) as [R0 [Hd Hsrc]].
  assert (Rj : ready p exo' j tsj).
  { eapply reached_ready; eauto; try lia. }
  destruct (step_fail p exo' (wf_nodup _ W) Hsrc j tsj e Rj Hj Hs) as [Hsame Hcls].
  rewrite Hts, Hsame. exists ts0, exo', j. repeat split; auto; try lia.
  - intros x Hx. destruct (proj2 Rj x Hx) as [l [Hl Hlen]]. unfold series. now rewrite Hl.
  - intros x Hx. destruct (proj1 Rj x Hx) as [l [Hl Hlen]]. unfold series. now rewrite Hl.
Qed.


(** the fuel of the model's loops is never exhausted: [OutOfFuel] is not an outcome *)
Lemma nth_ts_not_fuel ts x i e : nth_ts ts x i = Err e -> e <> OutOfFuel.
Proof.
  unfold nth_ts. destruct (lookup x ts) as [l|]; [|intros H; inversion H; discriminate].
  destruct (nth_error l i); intros H; inversion H; discriminate.
Qed.

Lemma start_env_not_fuel p exo ts k e : start_env p exo ts k = Err e -> e <> OutOfFuel.
Proof.
  unfold start_env.
  assert (Hx : forall l ini e, pin_exo l ts k ini = Err e -> e <> OutOfFuel).
  { induction l as [|[y s] r IH]; simpl; intros ini e0 H; [discriminate|].
    destruct (nth_ts ts y k) eqn:E; [eauto|]. inversion H; subst. eapply nth_ts_not_fuel; eauto. }
  assert (Hl : forall l ini e, pin_lag l ts k ini = Err e -> e <> OutOfFuel).
  { induction l as [|[y s] r IH]; simpl; intros ini e0 H; [discriminate|].
    destruct (nth_ts ts s (k - 1)) eqn:E; [eauto|]. inversion H; subst. eapply nth_ts_not_fuel; eauto. }
  assert (Hg : forall l ini e, guess l ts k ini = Err e -> e <> OutOfFuel).
  { induction l as [|[y s] r IH]; simpl; intros ini e0 H; [discriminate|].
    destruct (nth_ts ts y (k - 1)) eqn:E; [eauto|]. inversion H; subst. eapply nth_ts_not_fuel; eauto. }
  destruct (pin_exo exo ts k []) as [i1|e1] eqn:E1; [|intros H; inversion H; subst; eauto].
  destruct (pin_lag (p_lagged p) ts k i1) as [i2|e2] eqn:E2; [|intros H; inversion H; subst; eauto].
  eauto.
Qed.

Lemma append_all_not_fuel names e k : forall ts, snd (append_all names e k ts) <> Some OutOfFuel.
Proof.
  induction names as [|x r IH]; intros ts; simpl; [discriminate|].
  destruct (lookup x ts) as [l|]; [|simpl; discriminate].
  destruct (Nat.eqb (List.length l) k); [apply IH|simpl; discriminate].
Qed.

Lemma step_not_fuel p exo k ts : sr_err (step p exo k ts) <> Some OutOfFuel.
Proof.
  unfold step. destruct (start_env p exo ts k) as [ini|e] eqn:Es.
  2:{ simpl. intros H; inversion H; subst. eapply start_env_not_fuel; eauto. }
  destruct (lr_err (run_loop p ini)) as [e|] eqn:El.
  { simpl. intros H; inversion H; subst. unfold run_loop in El.
    destruct (loop_bound p (S (p_maxiter p)) ini 1%float false 0 [] ltac:(lia) ltac:(lia)) as [_ [_ B]]. congruence. }
  destruct (deco_pass (S (List.length (p_deco p))) (p_deco p) (lr_env (run_loop p ini)) []) as [[e' computed]|e] eqn:Ed.
  2:{ simpl. intros H; inversion H; subst. assert (OutOfFuel = ValueError); [|discriminate].
      eapply deco_pass_err; [|exact Ed]. lia. }
  destruct (forallb (fun x => is_finite (getv x e')) (endo_names p ++ lag_names p ++ computed)); [|simpl; discriminate].
  pose proof (append_all_not_fuel (endo_names p ++ lag_names p ++ computed) e' k ts) as Ha.
  destruct (append_all (endo_names p ++ lag_names p ++ computed) e' k ts). exact Ha.
Qed.

Lemma run_not_fuel p : rr_err (run p) <> Some OutOfFuel.
Proof.
  intros H. destruct (run_fail _ _ H) as [[_ [E _]]|[ts0 [exo' [j [tsj [_ [_ [_ [Hs _]]]]]]]]]; [discriminate|].
  exact (step_not_fuel _ _ _ _ Hs).
Qed.
