(** [EquationSolver._SolveStep] (sfc_models/equation_solver.py:312-439) over IEEE doubles,
    with the proposed fixes D02a (a NaN error is not convergence), D11b (error measure
    never divides by zero; OverflowError tolerated like ZeroDivisionError) and D02b/D11
    (decorative values first, arithmetic errors and non-finite values become ValueError,
    nothing is appended unless the whole period is known).  The code before the fixes is
    in Orig.v. *)
From Coq Require Import List String Bool Arith PrimFloat.
From SFC.Base Require Import Res Str Expr.
From SFC.Solve Require Import Types.
Import ListNotations.
Local Open Scope string_scope.
Local Open Scope list_scope.

Definition nth_ts (ts : tseries) (x : string) (i : nat) : result float :=
  match lookup x ts with
  | None => Err KeyError
  | Some l => match nth_error l i with Some v => Ok v | None => Err IndexError end
  end.

(** initial[var] = TimeSeries[var][step] for the exogenous variables *)
Fixpoint pin_exo (exo : list (string * exo_spec)) (ts : tseries) (k : nat) (ini : env) : result env :=
  match exo with
  | [] => Ok ini
  | (x, _) :: r => match nth_ts ts x k with Err e => Err e | Ok v => pin_exo r ts k (set x v ini) end
  end.

(** initial[lag_var] = TimeSeries[original_var][step-1] *)
Fixpoint pin_lag (lagged : list (string * string)) (ts : tseries) (k : nat) (ini : env) : result env :=
  match lagged with
  | [] => Ok ini
  | (x, src) :: r => match nth_ts ts src (k - 1) with Err e => Err e | Ok v => pin_lag r ts k (set x v ini) end
  end.

(** initial guess: the previous period *)
Fixpoint guess (endo : list (string * expr float)) (ts : tseries) (k : nat) (ini : env) : result env :=
  match endo with
  | [] => Ok ini
  | (x, _) :: r => match nth_ts ts x (k - 1) with Err e => Err e | Ok v => guess r ts k (set x v ini) end
  end.

Definition start_env (p : pstate) (exo : list (string * exo_spec)) (ts : tseries) (k : nat) : result env :=
  match pin_exo exo ts k [] with
  | Err e => Err e
  | Ok i1 => match pin_lag (p_lagged p) ts k i1 with
             | Err e => Err e
             | Ok i2 => guess (p_endo p) ts k i2
             end
  end.

(** exception classes the sweep steps over (remembered in [had_evaluation_errors]) *)
Definition tolerated (e : err) : bool :=
  match e with ZeroDiv | ValueError | OverflowError => true | _ => false end.

Definition small : float := 0x1.0624dd2f1a9fcp-10%float.   (* 1e-3 *)

(** one variable's contribution to the error measure (fixed: never raises) *)
Definition measure_term (nv ov : float) : float :=
  let d := abs (nv - ov) in
  if ltb d small then d
  else let sc := py_max (abs nv) (abs ov) in
       if ltb 0 sc then (d / sc)%float else d.

(** value of one equation on the OLD vector; a tolerated error keeps the old value *)
Definition eval_eq (old : env) (x : string) (e : expr float) (had : bool) : result (float * bool) :=
  match evalF (envf old) e with
  | Ok v => Ok (v, had)
  | Err er => if tolerated er then Ok (getv x old, true) else Err er
  end.

(** one Jacobi sweep: returns (new_value, relative_error, had_evaluation_errors) *)
Fixpoint sweep_eqs (endo : list (string * expr float)) (old new : env) (rel : float) (had : bool)
  : result (env * float * bool) :=
  match endo with
  | [] => Ok (new, rel, had)
  | (x, e) :: r =>
      match eval_eq old x e had with
      | Err er => Err er
      | Ok (nv, had') => sweep_eqs r old (set x nv new) (rel + measure_term nv (getv x old))%float had'
      end
  end.

Definition sweep (p : pstate) (old : env) := sweep_eqs (p_endo p) old old 0%float false.

(** half-step damping *)
Fixpoint damp (endo : list (string * expr float)) (old new : env) : env :=
  match endo with
  | [] => new
  | (x, _) :: r => damp r old (set x ((getv x new + getv x old) / 2)%float new)
  end.

(** loop test, fixed: [while not (relative_error <= err_toler)] *)
Definition keep_going (rel tol : float) : bool := negb (leb rel tol).

Record loop_res := mkLR {
  lr_env : env;                      (* [initial] when the loop is left *)
  lr_trace : list (float * bool);    (* (relative_error, had_evaluation_errors) of every completed sweep *)
  lr_sweeps : nat;                   (* sweeps started *)
  lr_err : option err }.

Fixpoint loop (fuel : nat) (p : pstate) (cur : env) (rel : float) (had : bool) (n : nat)
         (tr : list (float * bool)) : loop_res :=
  if keep_going rel (p_tol p) then
    match fuel with
    | 0 => mkLR cur tr n (Some OutOfFuel)
    | S f =>
        match sweep p cur with
        | Err e => mkLR cur tr (S n) (Some e)
        | Ok (new, rel', had') =>
            let new' := if Nat.ltb 10 n then damp (p_endo p) cur new else new in
            let tr' := tr ++ [(rel', had')] in
            if Nat.ltb (p_maxiter p) (S n)
            then mkLR new' tr' (S n) (Some (if had' then ValueError else ConvergenceError))
            else loop f p new' rel' had' (S n) tr'
        end
    end
  else mkLR cur tr n (if had then Some ValueError else None).

Definition run_loop (p : pstate) (ini : env) : loop_res :=
  loop (S (p_maxiter p)) p ini 1%float false 0 [].

(** decorative pass: one round over the equations still to compute *)
Fixpoint deco_round (todo : list (string * expr float)) (ini : env) (computed : list string)
         (failed : list (string * expr float)) : result (env * list string * list (string * expr float)) :=
  match todo with
  | [] => Ok (ini, computed, failed)
  | (x, e) :: r =>
      match evalF (envf ini) e with
      | Ok v => deco_round r (set x v ini) (computed ++ [x]) failed
      | Err NameError => deco_round r ini computed (failed ++ [(x, e)])
      | Err er => if tolerated er then Err ValueError else Err er
      end
  end.

Fixpoint deco_pass (fuel : nat) (todo : list (string * expr float)) (ini : env) (computed : list string)
  : result (env * list string) :=
  match todo with
  | [] => Ok (ini, computed)
  | _ :: _ =>
      match fuel with
      | 0 => Err OutOfFuel
      | S f =>
          match deco_round todo ini computed [] with
          | Err e => Err e
          | Ok (ini', computed', failed) =>
              if Nat.eqb (List.length failed) (List.length todo) then Err ValueError
              else deco_pass f failed ini' computed'
          end
      end
  end.

(** [assert len(TimeSeries[var]) == step; TimeSeries[var].append(initial[var])] for each name;
    on a failed assertion the series stay as they are at that point. *)
Fixpoint append_all (names : list string) (e : env) (k : nat) (ts : tseries) : tseries * option err :=
  match names with
  | [] => (ts, None)
  | x :: r =>
      match lookup x ts with
      | None => (ts, Some KeyError)
      | Some l => if Nat.eqb (List.length l) k then append_all r e k (set x (l ++ [getv x e]) ts)
                  else (ts, Some OtherError)     (* AssertionError *)
      end
  end.

Record step_res := mkSR {
  sr_ts : tseries;                  (* TimeSeries after the call (also after an exception) *)
  sr_env : env;                     (* the period's final [initial] dict *)
  sr_trace : list (float * bool);
  sr_sweeps : nat;
  sr_err : option err }.

Definition step (p : pstate) (exo : list (string * exo_spec)) (k : nat) (ts : tseries) : step_res :=
  match start_env p exo ts k with
  | Err e => mkSR ts [] [] 0 (Some e)
  | Ok ini =>
      let lr := run_loop p ini in
      match lr_err lr with
      | Some e => mkSR ts (lr_env lr) (lr_trace lr) (lr_sweeps lr) (Some e)
      | None =>
          match deco_pass (S (List.length (p_deco p))) (p_deco p) (lr_env lr) [] with
          | Err e => mkSR ts (lr_env lr) (lr_trace lr) (lr_sweeps lr) (Some e)
          | Ok (e', computed) =>
              let names := (endo_names p ++ lag_names p ++ computed)%list in
              if forallb (fun x => is_finite (getv x e')) names then
                match append_all names e' k ts with
                | (ts', oe) => mkSR ts' e' (lr_trace lr) (lr_sweeps lr) oe
                end
              else mkSR ts e' (lr_trace lr) (lr_sweeps lr) (Some ValueError)
          end
      end
  end.
