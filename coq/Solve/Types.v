(** Shared types of the solver model: association maps (Python dicts read by key),
    the parser state handed over by the harness, float helpers. *)
From Coq Require Import List String Bool Arith PrimFloat Uint63 ZArith.
From SFC.Base Require Import Res Str Sorting Expr.
Import ListNotations.

Definition amap (A : Type) := list (string * A).

Fixpoint lookup {A} (x : string) (m : amap A) : option A :=
  match m with
  | [] => None
  | (y, v) :: r => if String.eqb x y then Some v else lookup x r
  end.

(** [d[x] = v]: overwrite in place, or insert at the end. *)
Fixpoint set {A} (x : string) (v : A) (m : amap A) : amap A :=
  match m with
  | [] => [(x, v)]
  | (y, w) :: r => if String.eqb x y then (y, v) :: r else (y, w) :: set x v r
  end.

Definition has {A} (x : string) (m : amap A) : bool :=
  match lookup x m with Some _ => true | None => false end.

Definition env := amap float.
Definition tseries := amap (list float).
Definition envf (e : env) : string -> option float := fun x => lookup x e.
Definition getv (x : string) (e : env) : float := match lookup x e with Some v => v | None => 0%float end.
Definition series (x : string) (ts : tseries) : list float := match lookup x ts with Some l => l | None => [] end.

(** Exogenous specifications and initial conditions arrive already evaluated by Python's
    [eval] (trusted): a list of numbers, a float scalar (broadcast), a value [list()] rejects,
    or a string that does not evaluate. *)
Inductive exo_spec := ExoList (l : list float) | ExoScalarFloat (x : float) | ExoNotList | ExoUnevaluable.
Inductive ic_spec := ICVal (x : float) | ICBad.

Record pstate := mkP {
  p_endo : list (string * expr float);     (* Parser.Endogenous, in order *)
  p_lagged : list (string * string);       (* Parser.Lagged: (lagged name, source name) *)
  p_exo : list (string * exo_spec);        (* Parser.Exogenous *)
  p_deco : list (string * expr float);     (* Parser.Decoration *)
  p_ics : amap ic_spec;                    (* Parser.InitialConditions *)
  p_maxtime : nat;                         (* Parser.MaxTime (>= 0) *)
  p_tol : float;                           (* float(Parser.Err_Tolerance) or ParameterErrorTolerance *)
  p_maxiter : nat                          (* solver.MaxIterations (>= 0) *)
}.

Definition set_maxtime (p : pstate) (T : nat) : pstate :=
  mkP (p_endo p) (p_lagged p) (p_exo p) (p_deco p) (p_ics p) T (p_tol p) (p_maxiter p).

(** Python [float(i)] for a small non-negative int. *)
Definition float_of_nat (n : nat) : float := PrimFloat.of_uint63 (Uint63.of_Z (Z.of_nat n)).

Definition all_finite_ts (ts : tseries) : bool :=
  forallb (fun xl => forallb is_finite (snd xl)) ts.

(** names that get a value appended in every period *)
Definition endo_names (p : pstate) := map fst (p_endo p).
Definition lag_names (p : pstate) := map fst (p_lagged p).
Definition deco_names (p : pstate) := map fst (p_deco p).
Definition exo_names (p : pstate) := map fst (p_exo p).
