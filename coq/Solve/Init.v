(** [EquationSolver.ExtractVariableList] and [SetInitialConditions]
    (sfc_models/equation_solver.py:97-193), with the time-zero finiteness check of the
    proposed fix D02c.  [init_orig] is the code before that fix. *)
From Coq Require Import List String Bool Arith PrimFloat.
From SFC.Base Require Import Res Str Sorting Expr.
From SFC.Solve Require Import Types.
Import ListNotations.
Local Open Scope string_scope.
Local Open Scope list_scope.

Definition varlist (p : pstate) : list string :=
  sort (endo_names p ++ lag_names p ++ exo_names p ++ deco_names p).

(** First pass: initial condition or 0.0 for every entry of VariableList. *)
Fixpoint pass1 (ics : amap ic_spec) (vl : list string) (vars : tseries) (tzc : env)
  : result (tseries * env) :=
  match vl with
  | [] => Ok (vars, tzc)
  | x :: r =>
      match lookup x ics with
      | Some (ICVal c) => pass1 ics r (set x [c] vars) (set x c tzc)
      | Some ICBad => Err ValueError
      | None => pass1 ics r (set x [0%float] vars) tzc
      end
  end.

Definition kseries (T : nat) : list float := map float_of_nat (seq 0 (S T)).

(** The parser's Exogenous list after the injection of the [k] series. *)
Definition exo_with_k (p : pstate) (vars : tseries) : list (string * exo_spec) :=
  if has "k" vars then p_exo p else p_exo p ++ [("k", ExoList (kseries (p_maxtime p)))].

Definition exo_values (T : nat) (s : exo_spec) : result (list float) :=
  match s with
  | ExoUnevaluable => Err ValueError
  | ExoNotList => Err ValueError
  | ExoScalarFloat c => Ok (repeat c (S T))
  | ExoList l => Ok l
  end.

(** Second pass: exogenous series (truncated to MaxTime+1), their k=0 value is a constant. *)
Fixpoint pass2 (T : nat) (exo : list (string * exo_spec)) (vars : tseries) (tzc : env)
  : result (tseries * env) :=
  match exo with
  | [] => Ok (vars, tzc)
  | (x, s) :: r =>
      match exo_values T s with
      | Err e => Err e
      | Ok val =>
          if Nat.ltb (List.length val) (S T) then Err ValueError
          else pass2 T r (set x (firstn (S T) val) vars) (set x (hd 0%float val) tzc)
      end
  end.

(** Third pass: constant endogenous variables, repeated while anything changed. *)
Fixpoint pass3_round (ics : amap ic_spec) (endo : list (string * expr float))
         (vars : tseries) (tzc : env) (changed : bool) : tseries * env * bool :=
  match endo with
  | [] => (vars, tzc, changed)
  | (x, e) :: r =>
      if has x tzc || has x ics then pass3_round ics r vars tzc changed
      else match evalF (envf tzc) e with
           | Ok v => pass3_round ics r (set x [v] vars) (set x v tzc) true
           | Err _ => pass3_round ics r vars tzc changed
           end
  end.

Fixpoint pass3 (fuel : nat) (ics : amap ic_spec) (endo : list (string * expr float))
         (vars : tseries) (tzc : env) : result (tseries * env) :=
  match fuel with
  | 0 => Err OutOfFuel
  | S f =>
      match pass3_round ics endo vars tzc false with
      | (vars', tzc', true) => pass3 f ics endo vars' tzc'
      | (vars', tzc', false) => Ok (vars', tzc')
      end
  end.

(** Fourth pass: constant decorative variables (no initial-condition test here). *)
Definition pass4_round := pass3_round [].
Definition pass4 (fuel : nat) := pass3 fuel [].

Definition init_passes (p : pstate) : result (tseries * list (string * exo_spec)) :=
  match pass1 (p_ics p) (varlist p) [] [] with
  | Err e => Err e
  | Ok (v1, z1) =>
      let exo' := exo_with_k p v1 in
      match pass2 (p_maxtime p) exo' v1 z1 with
      | Err e => Err e
      | Ok (v2, z2) =>
          match pass3 (S (List.length (p_endo p))) (p_ics p) (p_endo p) v2 z2 with
          | Err e => Err e
          | Ok (v3, z3) =>
              match pass4 (S (List.length (p_deco p))) (p_deco p) v3 z3 with
              | Err e => Err e
              | Ok (v4, _) => Ok (v4, exo')
              end
          end
      end
  end.

Definition init_orig := init_passes.

(** D02c: a time-zero or exogenous value that is not a finite number is refused. *)
Definition init (p : pstate) : result (tseries * list (string * exo_spec)) :=
  match init_passes p with
  | Err e => Err e
  | Ok (ts, exo') => if all_finite_ts ts then Ok (ts, exo') else Err ValueError
  end.
