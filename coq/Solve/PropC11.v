(** C11 — unsolvable or invalid input fails loudly and in bounded work.
    Model: Step.v / Run.v ([run] = SolveEquation keeping the series as they stand on failure),
    Validate.v ([validate] = EquationParser.ValidateInputs).  Orig.v is the code before the
    proposed fixes D02a, D02b/D11, D02c, D11b. *)
From Coq Require Import List String Bool Arith Lia PrimFloat Floats Reals Lra.
From SFC.Base Require Import Res Str Sorting Expr.
From SFC.Solve Require Import Types Maps Init Step Run Orig Validate InitProofs StepProofs RunProofs FailProofs Truncate RealInstance Examples.
Import ListNotations.
Local Open Scope string_scope.

(** every period, solved or abandoned, used at most MaxIterations+1 sweeps *)
Theorem C11_sweeps : forall p, Forall (fun m => m <= S (p_maxiter p)) (rr_sweeps (run p)).
Proof. exact run_sweeps_bound. Qed.
Print Assumptions C11_sweeps.

(** ... and the sweep loop never runs out of its structural fuel (the fuel is the cap) *)
Theorem C11_loop_fuel : forall p ini,
  lr_sweeps (run_loop p ini) <= S (p_maxiter p) /\ lr_err (run_loop p ini) <> Some OutOfFuel.
Proof.
  intros p ini. unfold run_loop.
  destruct (loop_bound p (S (p_maxiter p)) ini 1%float false 0 [] ltac:(lia) ltac:(lia)) as [H1 [_ H3]]. auto.
Qed.
Print Assumptions C11_loop_fuel.

(** no loop of the model ever runs out of fuel: every outcome of [run] is a Python outcome *)
Theorem C11_no_out_of_fuel : forall p, rr_err (run p) <> Some OutOfFuel.
Proof. exact run_not_fuel. Qed.
Print Assumptions C11_no_out_of_fuel.

(** error class of a period's iteration: an unbound name propagates at once (NameError);
    the cap is hit after exactly MaxIterations+1 sweeps with ConvergenceError, or ValueError
    when the last sweep had an evaluation error; a sweep that meets the tolerance while an
    evaluation error persists gives ValueError *)
Theorem C11_fail_class : forall p ini e, lr_err (run_loop p ini) = Some e ->
  (e = NameError /\ exists u, sweep p u = Err NameError) \/
  (lr_sweeps (run_loop p ini) = S (p_maxiter p) /\
   exists pre r h, lr_trace (run_loop p ini) = (pre ++ [(r, h)])%list /\
                   e = (if h then ValueError else ConvergenceError)) \/
  (lr_sweeps (run_loop p ini) <= p_maxiter p /\ e = ValueError /\
   exists pre r, lr_trace (run_loop p ini) = (pre ++ [(r, true)])%list /\ keep_going r (p_tol p) = false).
Proof.
  intros p ini e H. unfold run_loop in *.
  destruct (loop_fail p (S (p_maxiter p)) ini 1%float false 0 [] e ltac:(lia) ltac:(lia) H) as [F|[F|F]]; auto.
  right; right. destruct F as [F1 [F2 [r [F3 [[_ [_ F4]]|[pre F4]]]]]]; [discriminate|].
  repeat split; auto. exists pre, r. auto.
Qed.
Print Assumptions C11_fail_class.

(** a failing solve of a well-formed parser state: either the initial conditions were refused
    (ValueError, nothing stored) or period j failed with NameError (unbound name in an endogenous
    equation) / ConvergenceError / ValueError; the stored series are exactly the state reached
    after the j-1 solved periods (nothing of period j was appended): all non-exogenous series
    have the same length j, the exogenous ones MaxTime+1 *)
Theorem C11_intact : forall p e, wf p -> rr_err (run p) = Some e ->
  (e = ValueError /\ rr_ts (run p) = []) \/
  (exists ts0 exo' j, init p = Ok (ts0, exo') /\ 1 <= j <= p_maxtime p /\
     reached p exo' 1 ts0 j (rr_ts (run p)) /\
     (forall x, In x (nonexo_names p) -> List.length (series x (rr_ts (run p))) = j) /\
     (forall x, In x (map fst exo') -> List.length (series x (rr_ts (run p))) = S (p_maxtime p)) /\
     ((e = NameError /\ exists u, sweep p u = Err NameError) \/ e = ConvergenceError \/ e = ValueError)).
Proof. exact run_fail_wf. Qed.
Print Assumptions C11_intact.

(** ... and rows 0..j-1 of every series are exactly what a run with MaxTime = j-1 returns
    (which succeeds); [trunc j] keeps the first j values of every series, i.e. it only cuts the
    exogenous ones, the others have length j already *)
Theorem C11_intact_prefix : forall p e, wf p -> rr_err (run p) = Some e -> rr_ts (run p) <> [] ->
  exists j, 1 <= j <= p_maxtime p /\
    solve (set_maxtime p (j - 1)) = Ok (trunc j (rr_ts (run p))) /\
    (forall x, In x (nonexo_names p) -> List.length (series x (rr_ts (run p))) = j).
Proof. exact intact_maxtime. Qed.
Print Assumptions C11_intact_prefix.

(** reserved or shadowing names: NameError before anything is evaluated *)
Theorem C11_names : forall alleqs bad_vars bad_tokens p,
  (exists x toks, In (x, toks) alleqs /\ (In x bad_vars \/ exists t, In t toks /\ In t bad_tokens)) ->
  validate alleqs bad_vars bad_tokens = Err NameError /\
  validate_then_run alleqs bad_vars bad_tokens p = mkRR [] [] [] (Some NameError).
Proof.
  intros alleqs bv bt p H. pose proof (validate_rejects alleqs bv bt H) as Hv.
  split; [exact Hv|]. unfold validate_then_run. now rewrite Hv.
Qed.
Print Assumptions C11_names.

(** exact-arithmetic instance (over R) of the sweep loop ([loopR]: same stop test, damping after
    10 sweeps, cap test): a sup-norm contraction with factor <= 0.8 in at most 12 variables,
    constants bounded by 1e3 and a starting vector bounded by 5e3 (the previous period's solution
    of such a system), tolerance >= 1e-8, is solved within the default cap of 400 sweeps.
    The float/real gap is NOT closed (the oracle of harness/c11.py checks thousands of random
    float instances). *)
Theorem C11_contraction : forall (n : nat) (F : vec -> vec) (q tol : R) (u0 : vec),
  (n <= 12)%nat -> (0 <= q <= 4 / 5)%R -> lipschitz n F q -> (1 / 100000000 <= tol)%R ->
  (forall i, (i < n)%nat -> (Rabs (F (fun _ => 0%R) i) <= 1000)%R) ->
  (forall i, (i < n)%nat -> (Rabs (u0 i) <= 5000)%R) ->
  exists v m, run_loopR n F tol 400 u0 = OkR v m /\ (m <= 400)%nat.
Proof.
  intros n F q tol u0 Hn Hq Hlip Htol Hc Hu.
  apply (contraction_converges n F q tol 10000 u0); auto; [lra|].
  now apply (first_residual_bound n F q u0).
Qed.
Print Assumptions C11_contraction.

(* ---- satisfiable hypotheses / non-vacuity *)
(** x = 0.5*y + 100 ; y = 0.3*x - 50 as a map on vectors *)
Definition exF : vec -> vec := fun u i => match i with O => (0.5 * u 1%nat + 100)%R | _ => (0.3 * u 0%nat - 50)%R end.

Example C11_contraction_example :
  exists v m, run_loopR 2 exF (1 / 1000000) 400 (fun _ => 0%R) = OkR v m /\ (m <= 400)%nat.
Proof.
  apply (C11_contraction 2 exF 0.5); try lia; try lra.
  - intros a b D HD i Hi. unfold exF. destruct i as [|i].
    + replace (0.5 * a 1%nat + 100 - (0.5 * b 1%nat + 100))%R with (0.5 * (a 1%nat - b 1%nat))%R by ring.
      rewrite Rabs_mult, (Rabs_right 0.5) by lra. specialize (HD 1%nat ltac:(lia)). lra.
    + replace (0.3 * a 0%nat - 50 - (0.3 * b 0%nat - 50))%R with (0.3 * (a 0%nat - b 0%nat))%R by ring.
      rewrite Rabs_mult, (Rabs_right 0.3) by lra. specialize (HD 0%nat ltac:(lia)).
      assert (0 <= Rabs (a 0%nat - b 0%nat))%R by apply Rabs_pos. lra.
  - intros i Hi. unfold exF. destruct i; rewrite Rmult_0_r.
    + rewrite Rplus_0_l, Rabs_right; lra.
    + unfold Rminus. rewrite Rplus_0_l, Rabs_Ropp, Rabs_right; lra.
  - intros i Hi. rewrite Rabs_R0. lra.
Qed.
Print Assumptions C11_contraction_example.

Example C11_example_wf : wf ex_deco_pole /\ wf ex1.
Proof.
  split; constructor; simpl.
  - repeat constructor; simpl; intuition discriminate.
  - intros x _ H; exact H.
  - intros x src [H|[]]. inversion H; subst. left. vm_compute. tauto.
  - repeat constructor; simpl; intuition discriminate.
  - unfold nonexo_names, exo_names; simpl. intros x H [<-|[]]. intuition discriminate.
  - intros x src [H|[]]. inversion H; subst. left. vm_compute. tauto.
Qed.
Print Assumptions C11_example_wf.

(** the fixed solver on D11's witness: ValueError at period 2, every series of length 2 *)
Example C11_example_fail :
  rr_err (run ex_deco_pole) = Some ValueError /\
  map (fun x => List.length (series x (rr_ts (run ex_deco_pole)))) ["x"; "LAG_x"; "d"; "t"] = [2; 2; 2; 2] /\
  rr_sweeps (run ex_deco_pole) = [2; 2].
Proof. vm_compute. repeat split; reflexivity. Qed.
Print Assumptions C11_example_fail.

Example C11_example_prefix :
  solve (set_maxtime ex_deco_pole 1) = Ok (trunc 2 (rr_ts (run ex_deco_pole))).
Proof. vm_compute. reflexivity. Qed.
Print Assumptions C11_example_prefix.

Example C11_example_cap :
  rr_err (run (mkP (p_endo ex_overflow) [] [] [] [] 2 tol6 3)) = Some ConvergenceError /\
  rr_sweeps (run (mkP (p_endo ex_overflow) [] [] [] [] 2 tol6 3)) = [4].
Proof. vm_compute. split; reflexivity. Qed.
Print Assumptions C11_example_cap.

Example C11_example_names :
  validate [("x", ["y"; "import"]); ("y", [])] ["self"; "k"; "yield"] ["self"; "import"] = Err NameError.
Proof. refine (proj1 (C11_names _ _ _ ex1 _)). exists "x", ["y"; "import"]. split; [now left|]. right. exists "import". simpl. tauto. Qed.
Print Assumptions C11_example_names.

(* ---- the code before the fixes *)
(** D11: a decorative ZeroDivisionError escaped bare after the endogenous values of the
    period had been appended: series of unequal length *)
Theorem C11_intact_orig_refuted :
  rr_err (run_orig ex_deco_pole) = Some ZeroDiv /\
  List.length (series "x" (rr_ts (run_orig ex_deco_pole))) = 3 /\
  List.length (series "d" (rr_ts (run_orig ex_deco_pole))) = 2.
Proof. vm_compute. repeat split; reflexivity. Qed.
Print Assumptions C11_intact_orig_refuted.

(** D11b: the error measure divided NaN by 0.0: a bare ZeroDivisionError *)
Theorem C11_fail_class_orig_refuted : rr_err (run_orig ex_measure_nan) = Some ZeroDiv.
Proof. vm_compute. reflexivity. Qed.
Print Assumptions C11_fail_class_orig_refuted.
