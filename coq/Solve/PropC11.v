(** C11 — unsolvable or invalid input fails loudly and in bounded work.
    Model: Step.v / Run.v ([run] = SolveEquation keeping the series as they stand on failure),
    Validate.v ([validate] = EquationParser.ValidateInputs).  Orig.v is the code before the
    proposed fixes D02a, D02b/D11, D02c, D11b. *)
From Coq Require Import List String Bool Arith Lia PrimFloat Floats.
From SFC.Base Require Import Res Str Sorting Expr.
From SFC.Solve Require Import Types Maps Init Step Run Orig Validate InitProofs StepProofs RunProofs FailProofs Examples.
Import ListNotations.
Local Open Scope string_scope.

(** every period, solved or abandoned, used at most MaxIterations+1 sweeps *)
Theorem C11_sweeps : forall p, Forall (fun m => m <= S (p_maxiter p)) (rr_sweeps (run p)).
Proof. exact run_sweeps_bound. Qed.
Print Assumptions C11_sweeps.

(** ... and the sweep loop never runs out of its structural fuel (the fuel is the cap) *)
Theorem C11_loop_fuel : forall p ini,
  lr_sweeps (run_loop p ini) <= S (p_maxiter p) /\ lr_err (run_loop p ini) <> Some OutOfFuel.
Proof.
  intros p ini. unfold run_loop.
  destruct (loop_bound p (S (p_maxiter p)) ini 1%float false 0 [] ltac:(lia) ltac:(lia)) as [H1 [_ H3]]. auto.
Qed.
Print Assumptions C11_loop_fuel.

(** error class of a period's iteration: an unbound name propagates at once (NameError);
    the cap is hit after exactly MaxIterations+1 sweeps with ConvergenceError, or ValueError
    when the last sweep had an evaluation error; a sweep that meets the tolerance while an
    evaluation error persists gives ValueError *)
Theorem C11_fail_class : forall p ini e, lr_err (run_loop p ini) = Some e ->
  (e = NameError /\ exists u, sweep p u = Err NameError) \/
  (lr_sweeps (run_loop p ini) = S (p_maxiter p) /\
   exists pre r h, lr_trace (run_loop p ini) = (pre ++ [(r, h)])%list /\
                   e = (if h then ValueError else ConvergenceError)) \/
  (lr_sweeps (run_loop p ini) <= p_maxiter p /\ e = ValueError /\
   exists pre r, lr_trace (run_loop p ini) = (pre ++ [(r, true)])%list /\ keep_going r (p_tol p) = false).
Proof.
  intros p ini e H. unfold run_loop in *.
  destruct (loop_fail p (S (p_maxiter p)) ini 1%float false 0 [] e ltac:(lia) ltac:(lia) H) as [F|[F|F]]; auto.
  right; right. destruct F as [F1 [F2 [r [F3 [[_ [_ F4]]|[pre F4]]]]]]; [discriminate|].
  repeat split; auto. exists pre, r. auto.
Qed.
Print Assumptions C11_fail_class.

(** a failing solve of a well-formed parser state: either the initial conditions were refused
    (ValueError, nothing stored) or period j failed with NameError (unbound name in an endogenous
    equation) / ConvergenceError / ValueError; the stored series are exactly the state reached
    after the j-1 solved periods (nothing of period j was appended): all non-exogenous series
    have the same length j, the exogenous ones MaxTime+1 *)
Theorem C11_intact : forall p e, wf p -> rr_err (run p) = Some e ->
  (e = ValueError /\ rr_ts (run p) = []) \/
  (exists ts0 exo' j, init p = Ok (ts0, exo') /\ 1 <= j <= p_maxtime p /\
     reached p exo' 1 ts0 j (rr_ts (run p)) /\
     (forall x, In x (nonexo_names p) -> List.length (series x (rr_ts (run p))) = j) /\
     (forall x, In x (map fst exo') -> List.length (series x (rr_ts (run p))) = S (p_maxtime p)) /\
     ((e = NameError /\ exists u, sweep p u = Err NameError) \/ e = ConvergenceError \/ e = ValueError)).
Proof. exact run_fail_wf. Qed.
Print Assumptions C11_intact.

(** reserved or shadowing names: NameError before anything is evaluated *)
Theorem C11_names : forall alleqs bad_vars bad_tokens p,
  (exists x toks, In (x, toks) alleqs /\ (In x bad_vars \/ exists t, In t toks /\ In t bad_tokens)) ->
  validate alleqs bad_vars bad_tokens = Err NameError /\
  validate_then_run alleqs bad_vars bad_tokens p = mkRR [] [] [] (Some NameError).
Proof.
  intros alleqs bv bt p H. pose proof (validate_rejects alleqs bv bt H) as Hv.
  split; [exact Hv|]. unfold validate_then_run. now rewrite Hv.
Qed.
Print Assumptions C11_names.

(* ---- satisfiable hypotheses / non-vacuity *)
Example C11_example_wf : wf ex_deco_pole /\ wf ex1.
Proof.
  split; constructor; simpl.
  - repeat constructor; simpl; intuition discriminate.
  - intros x _ H; exact H.
  - intros x src [H|[]]. inversion H; subst. left. vm_compute. tauto.
  - repeat constructor; simpl; intuition discriminate.
  - unfold nonexo_names, exo_names; simpl. intros x H [<-|[]]. intuition discriminate.
  - intros x src [H|[]]. inversion H; subst. left. vm_compute. tauto.
Qed.
Print Assumptions C11_example_wf.

(** the fixed solver on D11's witness: ValueError at period 2, every series of length 2 *)
Example C11_example_fail :
  rr_err (run ex_deco_pole) = Some ValueError /\
  map (fun x => List.length (series x (rr_ts (run ex_deco_pole)))) ["x"; "LAG_x"; "d"; "t"] = [2; 2; 2; 2] /\
  rr_sweeps (run ex_deco_pole) = [2; 2].
Proof. vm_compute. repeat split; reflexivity. Qed.
Print Assumptions C11_example_fail.

Example C11_example_cap :
  rr_err (run (mkP (p_endo ex_overflow) [] [] [] [] 2 tol6 3)) = Some ConvergenceError /\
  rr_sweeps (run (mkP (p_endo ex_overflow) [] [] [] [] 2 tol6 3)) = [4].
Proof. vm_compute. split; reflexivity. Qed.
Print Assumptions C11_example_cap.

Example C11_example_names :
  validate [("x", ["y"; "import"]); ("y", [])] ["self"; "k"; "yield"] ["self"; "import"] = Err NameError.
Proof. refine (proj1 (C11_names _ _ _ ex1 _)). exists "x", ["y"; "import"]. split; [now left|]. right. exists "import". simpl. tauto. Qed.
Print Assumptions C11_example_names.

(* ---- the code before the fixes *)
(** D11: a decorative ZeroDivisionError escaped bare after the endogenous values of the
    period had been appended: series of unequal length *)
Theorem C11_intact_orig_refuted :
  rr_err (run_orig ex_deco_pole) = Some ZeroDiv /\
  List.length (series "x" (rr_ts (run_orig ex_deco_pole))) = 3 /\
  List.length (series "d" (rr_ts (run_orig ex_deco_pole))) = 2.
Proof. vm_compute. repeat split; reflexivity. Qed.
Print Assumptions C11_intact_orig_refuted.

(** D11b: the error measure divided NaN by 0.0: a bare ZeroDivisionError *)
Theorem C11_fail_class_orig_refuted : rr_err (run_orig ex_measure_nan) = Some ZeroDiv.
Proof. vm_compute. reflexivity. Qed.
Print Assumptions C11_fail_class_orig_refuted.
