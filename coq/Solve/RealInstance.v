(** The exact-arithmetic instance (over R) of the sweep loop of Step.v: the same error measure,
    the same damping rule after 10 sweeps, the same cap test; the one-sweep map is an arbitrary
    total function F on vectors indexed by i < n (no evaluation errors over R).
    Used by C02_residual_R and C11_contraction.  Nothing here talks about floats. *)
From Coq Require Import Reals Lra Lia List Arith Psatz.
Local Open Scope R_scope.

Definition vec := nat -> R.

(** sup-norm Lipschitz condition on the index set [0, n) *)
Definition lipschitz (n : nat) (F : vec -> vec) (L : R) : Prop :=
  forall a b D, (forall j, (j < n)%nat -> Rabs (a j - b j) <= D) ->
                forall i, (i < n)%nat -> Rabs (F a i - F b i) <= L * D.

(** one variable's contribution: absolute below 1e-3, else relative to the larger magnitude *)
Definition termR (nv ov : R) : R :=
  let d := Rabs (nv - ov) in
  if Rlt_dec d (1 / 1000) then d else d / Rmax (Rabs nv) (Rabs ov).

Fixpoint errsumR (n : nat) (w u : vec) : R :=
  match n with O => 0 | S m => errsumR m w u + termR (w m) (u m) end.

(** the vector handed on / reported after a sweep u -> w *)
Definition reportedR (damped : bool) (w u : vec) : vec :=
  fun i => if damped then (w i + u i) / 2 else w i.

Lemma termR_nonneg nv ov : 0 <= termR nv ov.
Proof.
  unfold termR. destruct (Rlt_dec (Rabs (nv - ov)) (1 / 1000)).
  - apply Rabs_pos.
  - assert (H : 1 / 1000 <= Rabs (nv - ov)) by lra.
    assert (Hm : 0 < Rmax (Rabs nv) (Rabs ov)).
    { destruct (Rle_lt_dec (Rmax (Rabs nv) (Rabs ov)) 0) as [Hle|]; [|assumption].
      pose proof (Rmax_l (Rabs nv) (Rabs ov)). pose proof (Rmax_r (Rabs nv) (Rabs ov)).
      pose proof (Rabs_pos nv). pose proof (Rabs_pos ov).
      assert (Rabs nv = 0) by lra. assert (Rabs ov = 0) by lra.
      pose proof (Rabs_triang nv (- ov)). rewrite Rabs_Ropp in *. unfold Rminus in H. lra. }
    apply Rmult_le_pos; [apply Rabs_pos|]. left. now apply Rinv_0_lt_compat.
Qed.

Lemma errsumR_nonneg n w u : 0 <= errsumR n w u.
Proof. induction n; simpl; [lra|]. pose proof (termR_nonneg (w n) (u n)). lra. Qed.

Lemma errsumR_term n w u i : (i < n)%nat -> termR (w i) (u i) <= errsumR n w u.
Proof.
  induction n; intros Hi; [lia|]. simpl.
  destruct (Nat.eq_dec i n) as [->|Hne].
  - pose proof (errsumR_nonneg n w u). lra.
  - pose proof (termR_nonneg (w n) (u n)). specialize (IHn ltac:(lia)). lra.
Qed.

(** a term bounds the absolute change, scaled by the magnitudes *)
Lemma term_bounds_diff nv ov M tol :
  0 <= tol -> Rabs nv <= M -> Rabs ov <= M -> termR nv ov <= tol -> Rabs (nv - ov) <= tol * Rmax 1 M.
Proof.
  intros Htol Hn Ho Ht. unfold termR in Ht.
  pose proof (Rmax_l 1 M). pose proof (Rmax_r 1 M).
  destruct (Rlt_dec (Rabs (nv - ov)) (1 / 1000)) as [Hs|Hs].
  - assert (tol * 1 <= tol * Rmax 1 M) by (apply Rmult_le_compat_l; lra). lra.
  - assert (Hd : 1 / 1000 <= Rabs (nv - ov)) by lra.
    set (m := Rmax (Rabs nv) (Rabs ov)) in *.
    assert (Hm : 0 < m).
    { destruct (Rle_lt_dec m 0) as [Hle|]; [|assumption]. unfold m in Hle.
      pose proof (Rmax_l (Rabs nv) (Rabs ov)). pose proof (Rmax_r (Rabs nv) (Rabs ov)).
      pose proof (Rabs_pos nv). pose proof (Rabs_pos ov).
      pose proof (Rabs_triang nv (- ov)). rewrite Rabs_Ropp in *. unfold Rminus in Hd. lra. }
    assert (HmM : m <= M) by (unfold m; apply Rmax_lub; assumption).
    assert (Hdm : Rabs (nv - ov) <= tol * m).
    { unfold Rdiv in Ht. apply (Rmult_le_compat_r m) in Ht; [|lra].
      rewrite Rmult_assoc, Rinv_l in Ht by lra. lra. }
    assert (tol * m <= tol * Rmax 1 M) by (apply Rmult_le_compat_l; lra). lra.
Qed.

Theorem residual_R : forall (n : nat) (F : vec -> vec) (L tol M : R) (u : vec) (damped : bool),
  0 <= L -> 0 <= tol ->
  lipschitz n F L ->
  (forall i, (i < n)%nat -> Rabs (u i) <= M /\ Rabs (F u i) <= M) ->
  errsumR n (F u) u <= tol ->
  forall i, (i < n)%nat ->
    Rabs (F (reportedR damped (F u) u) i - reportedR damped (F u) u i)
      <= Rmax L ((L + 1) / 2) * tol * Rmax 1 M.
Proof.
  intros n F L tol M u damped HL Htol Hlip HM Herr i Hi.
  set (delta := tol * Rmax 1 M).
  assert (Hdelta : 0 <= delta).
  { unfold delta. apply Rmult_le_pos; [assumption|]. pose proof (Rmax_l 1 M). lra. }
  assert (Hd : forall j, (j < n)%nat -> Rabs (F u j - u j) <= delta).
  { intros j Hj. destruct (HM j Hj) as [Hu Hw]. apply term_bounds_diff; auto.
    pose proof (errsumR_term n (F u) u j Hj). lra. }
  pose proof (Rmax_l L ((L + 1) / 2)) as Hl1. pose proof (Rmax_r L ((L + 1) / 2)) as Hl2.
  replace (Rmax L ((L + 1) / 2) * tol * Rmax 1 M) with (Rmax L ((L + 1) / 2) * delta) by (unfold delta; ring).
  clearbody delta.
  destruct damped; unfold reportedR.
  - (* damped: v = (w+u)/2;  F v - v = (F v - F u) + (w - u)/2 *)
    assert (Hvu : forall j, (j < n)%nat -> Rabs ((F u j + u j) / 2 - u j) <= delta / 2).
    { intros j Hj. replace ((F u j + u j) / 2 - u j) with ((F u j - u j) / 2) by field.
      unfold Rdiv. rewrite Rabs_mult, (Rabs_right (/ 2)) by lra. specialize (Hd j Hj). lra. }
    pose proof (Hlip (fun j => (F u j + u j) / 2) u (delta / 2) Hvu i Hi) as H1.
    replace (F (fun i0 => (F u i0 + u i0) / 2) i - (F u i + u i) / 2)
      with ((F (fun i0 => (F u i0 + u i0) / 2) i - F u i) + (F u i - u i) / 2) by field.
    eapply Rle_trans; [apply Rabs_triang|].
    assert (H2 : Rabs ((F u i - u i) / 2) <= delta / 2).
    { unfold Rdiv. rewrite Rabs_mult, (Rabs_right (/ 2)) by lra. specialize (Hd i Hi). lra. }
    assert (H3 : (L + 1) / 2 * delta <= Rmax L ((L + 1) / 2) * delta) by (apply Rmult_le_compat_r; assumption).
    set (A := Rabs (F (fun i0 : nat => (F u i0 + u i0) / 2) i - F u i)) in *.
    set (B := Rabs ((F u i - u i) / 2)) in *. lra.
  - (* undamped: v = w = F u;  F v - v = F w - F u *)
    pose proof (Hlip (F u) u delta Hd i Hi) as H1.
    assert (H3 : L * delta <= Rmax L ((L + 1) / 2) * delta) by (apply Rmult_le_compat_r; assumption).
    eapply Rle_trans; [exact H1|exact H3].
Qed.

(* ------------------------------------------------------------------ contraction implies success *)
(** one step of the residual estimate: a sweep (damped or not) shrinks the sup-norm residual *)
Lemma residual_step (n : nat) (F : vec -> vec) (L delta : R) (u : vec) (damped : bool) :
  0 <= L -> 0 <= delta -> lipschitz n F L ->
  (forall j, (j < n)%nat -> Rabs (F u j - u j) <= delta) ->
  forall i, (i < n)%nat ->
    Rabs (F (reportedR damped (F u) u) i - reportedR damped (F u) u i)
      <= (if damped then (L + 1) / 2 else L) * delta.
Proof.
  intros HL Hdelta Hlip Hd i Hi. destruct damped; unfold reportedR.
  - assert (Hvu : forall j, (j < n)%nat -> Rabs ((F u j + u j) / 2 - u j) <= delta / 2).
    { intros j Hj. replace ((F u j + u j) / 2 - u j) with ((F u j - u j) / 2) by field.
      unfold Rdiv. rewrite Rabs_mult, (Rabs_right (/ 2)) by lra. specialize (Hd j Hj). lra. }
    pose proof (Hlip (fun j => (F u j + u j) / 2) u (delta / 2) Hvu i Hi) as H1.
    replace (F (fun i0 => (F u i0 + u i0) / 2) i - (F u i + u i) / 2)
      with ((F (fun i0 => (F u i0 + u i0) / 2) i - F u i) + (F u i - u i) / 2) by field.
    eapply Rle_trans; [apply Rabs_triang|].
    assert (H2 : Rabs ((F u i - u i) / 2) <= delta / 2).
    { unfold Rdiv. rewrite Rabs_mult, (Rabs_right (/ 2)) by lra. specialize (Hd i Hi). lra. }
    set (A := Rabs (F (fun i0 : nat => (F u i0 + u i0) / 2) i - F u i)) in *.
    set (B := Rabs ((F u i - u i) / 2)) in *. lra.
  - pose proof (Hlip (F u) u delta Hd i Hi) as H1. exact H1.
Qed.

(** the sweep loop of Step.v over R: same stop test, same damping rule, same cap test *)
Inductive outR := OkR (v : vec) (sweeps : nat) | ConvergenceErrorR | OutOfFuelR.

Fixpoint loopR (fuel n : nat) (F : vec -> vec) (tol : R) (cap : nat) (cur : vec) (rel : R) (j : nat) : outR :=
  if Rle_dec rel tol then OkR cur j
  else match fuel with
       | O => OutOfFuelR
       | S f =>
           let w := F cur in
           let rel' := errsumR n w cur in
           let new' := reportedR (Nat.ltb 10 j) w cur in
           if Nat.ltb cap (S j) then ConvergenceErrorR
           else loopR f n F tol cap new' rel' (S j)
       end.

Definition run_loopR (n : nat) (F : vec -> vec) (tol : R) (cap : nat) (ini : vec) : outR :=
  loopR (S cap) n F tol cap ini 1 0.

(** bound on the residual at the start of sweep j: factor q while undamped (sweeps 0..10),
    (q+1)/2 afterwards *)
Fixpoint resbound (q D : R) (j : nat) : R :=
  match j with
  | O => D
  | S i => (if Nat.ltb 10 i then (q + 1) / 2 else q) * resbound q D i
  end.

Lemma resbound_nonneg q D j : 0 <= q -> 0 <= D -> 0 <= resbound q D j.
Proof.
  intros Hq HD. induction j; simpl; [assumption|].
  apply Rmult_le_pos; [|assumption]. destruct (Nat.ltb 10 j); lra.
Qed.

Lemma errsumR_small n w u d :
  0 <= d -> d < 1 / 1000 -> (forall i, (i < n)%nat -> Rabs (w i - u i) <= d) -> errsumR n w u <= INR n * d.
Proof.
  intros Hd Hs. induction n; intros H.
  - simpl. lra.
  - rewrite S_INR. simpl errsumR. assert (IH : errsumR n w u <= INR n * d) by (apply IHn; intros i Hi; apply H; lia).
    assert (Ht : termR (w n) (u n) <= d).
    { unfold termR. specialize (H n ltac:(lia)). destruct (Rlt_dec (Rabs (w n - u n)) (1 / 1000)); [exact H|lra]. }
    lra.
Qed.

Lemma loopR_converges n F q tol cap D :
  0 <= q -> 0 <= D -> lipschitz n F q -> (1 <= cap)%nat ->
  resbound q D (cap - 1) < 1 / 1000 -> INR n * resbound q D (cap - 1) <= tol ->
  forall fuel j cur rel,
    (fuel + j = S cap)%nat -> (j <= cap)%nat ->
    ((j < cap)%nat -> forall i, (i < n)%nat -> Rabs (F cur i - cur i) <= resbound q D j) ->
    (j = cap -> rel <= tol) ->
    exists v m, loopR fuel n F tol cap cur rel j = OkR v m /\ (m <= cap)%nat.
Proof.
  intros Hq HD Hlip Hcap Hs Ht. induction fuel as [|f IH]; intros j cur rel Hf Hj Hinv Hlast.
  - assert (j = S cap) by lia. lia.
  - simpl. destruct (Rle_dec rel tol) as [Hr|Hr]; [eauto|].
    assert (Hjc : (j < cap)%nat).
    { destruct (Nat.eq_dec j cap) as [E|E]; [exfalso; apply Hr; now apply Hlast|lia]. }
    assert (Hc : Nat.ltb cap (S j) = false) by (apply Nat.ltb_ge; lia). rewrite Hc.
    apply IH; try lia.
    + intros Hlt i Hi.
      pose proof (residual_step n F q (resbound q D j) cur (Nat.ltb 10 j) Hq (resbound_nonneg q D j Hq HD) Hlip (Hinv Hjc) i Hi) as Hstep.
      simpl resbound. exact Hstep.
    + intros E. assert (Ej : j = (cap - 1)%nat) by lia. subst j.
      eapply Rle_trans; [|exact Ht].
      apply errsumR_small; [apply resbound_nonneg; assumption|exact Hs|exact (Hinv Hjc)].
Qed.

(* numeric part: with q <= 4/5, D <= 1e4, n <= 12 the bound after 399 sweeps is far below 1e-8 *)
Lemma resbound_mono q q' D D' j : 0 <= q <= q' -> 0 <= D <= D' -> resbound q D j <= resbound q' D' j.
Proof.
  intros Hq HD. induction j; simpl; [lra|].
  assert (H0 : 0 <= resbound q D j) by (apply resbound_nonneg; lra).
  destruct (Nat.ltb 10 j).
  - apply Rmult_le_compat; lra.
  - apply Rmult_le_compat; lra.
Qed.

Lemma resbound_tail q D m : resbound q D (m + 11) = ((q + 1) / 2) ^ m * resbound q D 11.
Proof.
  induction m.
  - change (0 + 11)%nat with 11%nat. simpl pow. ring.
  - change (S m + 11)%nat with (S (m + 11)).
    change (resbound q D (S (m + 11))) with ((if Nat.ltb 10 (m + 11) then (q + 1) / 2 else q) * resbound q D (m + 11)).
    replace (Nat.ltb 10 (m + 11)) with true by (symmetry; apply Nat.ltb_lt; lia).
    rewrite IHm. simpl pow. ring.
Qed.

Lemma pow_9_10_22 : (9 / 10) ^ 22 <= 1 / 10.
Proof. simpl. lra. Qed.

Lemma resbound_399 : resbound (4 / 5) 10000 399 <= 1 / 1000000000000.
Proof.
  replace 399%nat with (388 + 11)%nat by reflexivity. rewrite resbound_tail.
  replace ((4 / 5 + 1) / 2) with (9 / 10) by field.
  assert (H11 : resbound (4 / 5) 10000 11 <= 10000).
  { simpl. lra. }
  assert (H11p : 0 <= resbound (4 / 5) 10000 11) by (apply resbound_nonneg; lra).
  replace 388%nat with (22 * 17 + 14)%nat by reflexivity.
  rewrite pow_add, pow_mult.
  assert (Ha : ((9 / 10) ^ 22) ^ 17 <= (1 / 10) ^ 17).
  { apply pow_incr. split; [apply pow_le; lra|exact pow_9_10_22]. }
  assert (Hb : (9 / 10) ^ 14 <= 1).
  { replace 1 with (1 ^ 14) by (apply pow1). apply pow_incr. lra. }
  assert (Ha0 : 0 <= ((9 / 10) ^ 22) ^ 17) by (apply pow_le, pow_le; lra).
  assert (Hb0 : 0 <= (9 / 10) ^ 14) by (apply pow_le; lra).
  assert (Hc : (1 / 10) ^ 17 = 1 / 100000000000000000) by (simpl; field).
  rewrite Hc in Ha.
  assert (Hprod : ((9 / 10) ^ 22) ^ 17 * (9 / 10) ^ 14 <= 1 / 100000000000000000 * 1).
  { apply Rmult_le_compat; assumption. }
  assert (Hfin : ((9 / 10) ^ 22) ^ 17 * (9 / 10) ^ 14 * resbound (4 / 5) 10000 11 <= 1 / 100000000000000000 * 1 * 10000).
  { apply Rmult_le_compat; try assumption. apply Rmult_le_pos; assumption. }
  lra.
Qed.

(** C11: a sup-norm contraction with factor <= 0.8 in at most 12 variables, whose first residual
    is at most 1e4 (e.g. constants bounded by 1e3 and a starting point bounded by 5e3), is solved
    within the default cap of 400 whenever the tolerance is at least 1e-8. *)
Theorem contraction_converges (n : nat) (F : vec -> vec) (q tol D : R) (u0 : vec) :
  (n <= 12)%nat -> 0 <= q <= 4 / 5 -> lipschitz n F q -> 1 / 100000000 <= tol ->
  0 <= D <= 10000 -> (forall i, (i < n)%nat -> Rabs (F u0 i - u0 i) <= D) ->
  exists v m, run_loopR n F tol 400 u0 = OkR v m /\ (m <= 400)%nat.
Proof.
  intros Hn Hq Hlip Htol HD H0. unfold run_loopR.
  assert (Hb : resbound q D 399 <= 1 / 1000000000000).
  { eapply Rle_trans; [apply (resbound_mono q (4 / 5) D 10000); lra|exact resbound_399]. }
  assert (Hb0 : 0 <= resbound q D 399) by (apply resbound_nonneg; lra).
  apply (loopR_converges n F q tol 400 D); try lia; try lra; auto.
  - simpl Nat.sub. lra.
  - simpl Nat.sub. assert (Hn' : INR n <= 12).
    { replace 12 with (INR 12) by (simpl; lra). apply le_INR. exact Hn. }
    assert (0 <= INR n) by apply pos_INR.
    assert (INR n * resbound q D 399 <= 12 * (1 / 1000000000000)) by (apply Rmult_le_compat; lra).
    lra.
Qed.

(** the first residual is at most 1e4 when the constants are bounded by 1e3 and the starting
    point (the previous period's solution) by 5e3 *)
Lemma first_residual_bound (n : nat) (F : vec -> vec) (q : R) (u0 : vec) :
  0 <= q <= 4 / 5 -> lipschitz n F q ->
  (forall i, (i < n)%nat -> Rabs (F (fun _ => 0) i) <= 1000) ->
  (forall i, (i < n)%nat -> Rabs (u0 i) <= 5000) ->
  forall i, (i < n)%nat -> Rabs (F u0 i - u0 i) <= 10000.
Proof.
  intros Hq Hlip Hc Hu i Hi.
  assert (H1 : Rabs (F u0 i - F (fun _ => 0) i) <= q * 5000).
  { apply (Hlip u0 (fun _ => 0) 5000); [|exact Hi]. intros j Hj. rewrite Rminus_0_r. now apply Hu. }
  replace (F u0 i - u0 i) with ((F u0 i - F (fun _ => 0) i) + F (fun _ => 0) i + - u0 i) by ring.
  eapply Rle_trans; [apply Rabs_triang|]. eapply Rle_trans; [apply Rplus_le_compat_r, Rabs_triang|].
  rewrite Rabs_Ropp. specialize (Hc i Hi). specialize (Hu i Hi).
  assert (q * 5000 <= 4000) by lra. lra.
Qed.
