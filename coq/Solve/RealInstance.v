(** The exact-arithmetic instance (over R) of the sweep loop of Step.v: the same error measure,
    the same damping rule after 10 sweeps, the same cap test; the one-sweep map is an arbitrary
    total function F on vectors indexed by i < n (no evaluation errors over R).
    Used by C02_residual_R and C11_contraction.  Nothing here talks about floats. *)
From Coq Require Import Reals Lra Lia List Arith Psatz.
Local Open Scope R_scope.

Definition vec := nat -> R.

(** sup-norm Lipschitz condition on the index set [0, n) *)
Definition lipschitz (n : nat) (F : vec -> vec) (L : R) : Prop :=
  forall a b D, (forall j, (j < n)%nat -> Rabs (a j - b j) <= D) ->
                forall i, (i < n)%nat -> Rabs (F a i - F b i) <= L * D.

(** one variable's contribution: absolute below 1e-3, else relative to the larger magnitude *)
Definition termR (nv ov : R) : R :=
  let d := Rabs (nv - ov) in
  if Rlt_dec d (1 / 1000) then d else d / Rmax (Rabs nv) (Rabs ov).

Fixpoint errsumR (n : nat) (w u : vec) : R :=
  match n with O => 0 | S m => errsumR m w u + termR (w m) (u m) end.

(** the vector handed on / reported after a sweep u -> w *)
Definition reportedR (damped : bool) (w u : vec) : vec :=
  fun i => if damped then (w i + u i) / 2 else w i.

Lemma termR_nonneg nv ov : 0 <= termR nv ov.
Proof.
  unfold termR. destruct (Rlt_dec (Rabs (nv - ov)) (1 / 1000)).
  - apply Rabs_pos.
  - assert (H : 1 / 1000 <= Rabs (nv - ov)) by lra.
    assert (Hm : 0 < Rmax (Rabs nv) (Rabs ov)).
    { destruct (Rle_lt_dec (Rmax (Rabs nv) (Rabs ov)) 0) as [Hle|]; [|assumption].
      pose proof (Rmax_l (Rabs nv) (Rabs ov)). pose proof (Rmax_r (Rabs nv) (Rabs ov)).
      pose proof (Rabs_pos nv). pose proof (Rabs_pos ov).
      assert (Rabs nv = 0) by lra. assert (Rabs ov = 0) by lra.
      pose proof (Rabs_triang nv (- ov)). rewrite Rabs_Ropp in *. unfold Rminus in H. lra. }
    apply Rmult_le_pos; [apply Rabs_pos|]. left. now apply Rinv_0_lt_compat.
Qed.

Lemma errsumR_nonneg n w u : 0 <= errsumR n w u.
Proof. induction n; simpl; [lra|]. pose proof (termR_nonneg (w n) (u n)). lra. Qed.

Lemma errsumR_term n w u i : (i < n)%nat -> termR (w i) (u i) <= errsumR n w u.
Proof.
  induction n; intros Hi; [lia|]. simpl.
  destruct (Nat.eq_dec i n) as [->|Hne].
  - pose proof (errsumR_nonneg n w u). lra.
  - pose proof (termR_nonneg (w n) (u n)). specialize (IHn ltac:(lia)). lra.
Qed.

(** a term bounds the absolute change, scaled by the magnitudes *)
Lemma term_bounds_diff nv ov M tol :
  0 <= tol -> Rabs nv <= M -> Rabs ov <= M -> termR nv ov <= tol -> Rabs (nv - ov) <= tol * Rmax 1 M.
Proof.
  intros Htol Hn Ho Ht. unfold termR in Ht.
  pose proof (Rmax_l 1 M). pose proof (Rmax_r 1 M).
  destruct (Rlt_dec (Rabs (nv - ov)) (1 / 1000)) as [Hs|Hs].
  - assert (tol * 1 <= tol * Rmax 1 M) by (apply Rmult_le_compat_l; lra). lra.
  - assert (Hd : 1 / 1000 <= Rabs (nv - ov)) by lra.
    set (m := Rmax (Rabs nv) (Rabs ov)) in *.
    assert (Hm : 0 < m).
    { destruct (Rle_lt_dec m 0) as [Hle|]; [|assumption]. unfold m in Hle.
      pose proof (Rmax_l (Rabs nv) (Rabs ov)). pose proof (Rmax_r (Rabs nv) (Rabs ov)).
      pose proof (Rabs_pos nv). pose proof (Rabs_pos ov).
      pose proof (Rabs_triang nv (- ov)). rewrite Rabs_Ropp in *. unfold Rminus in Hd. lra. }
    assert (HmM : m <= M) by (unfold m; apply Rmax_lub; assumption).
    assert (Hdm : Rabs (nv - ov) <= tol * m).
    { unfold Rdiv in Ht. apply (Rmult_le_compat_r m) in Ht; [|lra].
      rewrite Rmult_assoc, Rinv_l in Ht by lra. lra. }
    assert (tol * m <= tol * Rmax 1 M) by (apply Rmult_le_compat_l; lra). lra.
Qed.

Theorem residual_R : forall (n : nat) (F : vec -> vec) (L tol M : R) (u : vec) (damped : bool),
  0 <= L -> 0 <= tol ->
  lipschitz n F L ->
  (forall i, (i < n)%nat -> Rabs (u i) <= M /\ Rabs (F u i) <= M) ->
  errsumR n (F u) u <= tol ->
  forall i, (i < n)%nat ->
    Rabs (F (reportedR damped (F u) u) i - reportedR damped (F u) u i)
      <= Rmax L ((L + 1) / 2) * tol * Rmax 1 M.
Proof.
  intros n F L tol M u damped HL Htol Hlip HM Herr i Hi.
  set (delta := tol * Rmax 1 M).
  assert (Hdelta : 0 <= delta).
  { unfold delta. apply Rmult_le_pos; [assumption|]. pose proof (Rmax_l 1 M). lra. }
  assert (Hd : forall j, (j < n)%nat -> Rabs (F u j - u j) <= delta).
  { intros j Hj. destruct (HM j Hj) as [Hu Hw]. apply term_bounds_diff; auto.
    pose proof (errsumR_term n (F u) u j Hj). lra. }
  pose proof (Rmax_l L ((L + 1) / 2)) as Hl1. pose proof (Rmax_r L ((L + 1) / 2)) as Hl2.
  replace (Rmax L ((L + 1) / 2) * tol * Rmax 1 M) with (Rmax L ((L + 1) / 2) * delta) by (unfold delta; ring).
  clearbody delta.
  destruct damped; unfold reportedR.
  - (* damped: v = (w+u)/2;  F v - v = (F v - F u) + (w - u)/2 *)
    assert (Hvu : forall j, (j < n)%nat -> Rabs ((F u j + u j) / 2 - u j) <= delta / 2).
    { intros j Hj. replace ((F u j + u j) / 2 - u j) with ((F u j - u j) / 2) by field.
      unfold Rdiv. rewrite Rabs_mult, (Rabs_right (/ 2)) by lra. specialize (Hd j Hj). lra. }
    pose proof (Hlip (fun j => (F u j + u j) / 2) u (delta / 2) Hvu i Hi) as H1.
    replace (F (fun i0 => (F u i0 + u i0) / 2) i - (F u i + u i) / 2)
      with ((F (fun i0 => (F u i0 + u i0) / 2) i - F u i) + (F u i - u i) / 2) by field.
    eapply Rle_trans; [apply Rabs_triang|].
    assert (H2 : Rabs ((F u i - u i) / 2) <= delta / 2).
    { unfold Rdiv. rewrite Rabs_mult, (Rabs_right (/ 2)) by lra. specialize (Hd i Hi). lra. }
    assert (H3 : (L + 1) / 2 * delta <= Rmax L ((L + 1) / 2) * delta) by (apply Rmult_le_compat_r; assumption).
    set (A := Rabs (F (fun i0 : nat => (F u i0 + u i0) / 2) i - F u i)) in *.
    set (B := Rabs ((F u i - u i) / 2)) in *. lra.
  - (* undamped: v = w = F u;  F v - v = F w - F u *)
    pose proof (Hlip (F u) u delta Hd i Hi) as H1.
    assert (H3 : L * delta <= Rmax L ((L + 1) / 2) * delta) by (apply Rmult_le_compat_r; assumption).
    eapply Rle_trans; [exact H1|exact H3].
Qed.
