(** A run with a shorter horizon is the truncation of the longer run (used by C11_intact:
    the periods solved before a failure are what a successful run with MaxTime = j-1 gives). *)
From Coq Require Import List String Bool Arith Lia PrimFloat Permutation.
From SFC.Base Require Import Res Str Sorting Expr.
From SFC.Solve Require Import Types Maps Init Step Run InitProofs StepProofs RunProofs FailProofs.
Import ListNotations.
Local Open Scope string_scope.
Local Open Scope list_scope.

Definition trunc (K : nat) (ts : tseries) : tseries := map (fun xl => (fst xl, firstn K (snd xl))) ts.

Lemma lookup_trunc K ts x : lookup x (trunc K ts) = option_map (firstn K) (lookup x ts).
Proof.
  induction ts as [|[y l] ts IH]; simpl; [reflexivity|]. destruct (String.eqb x y); [reflexivity|exact IH].
Qed.

Lemma trunc_set K x l ts : trunc K (set x l ts) = set x (firstn K l) (trunc K ts).
Proof.
  induction ts as [|[y l'] ts IH]; simpl; [reflexivity|].
  destruct (String.eqb x y); simpl; [reflexivity|now rewrite IH].
Qed.

Lemma has_trunc K ts x : has x (trunc K ts) = has x ts.
Proof. unfold has. rewrite lookup_trunc. destruct (lookup x ts); reflexivity. Qed.

Lemma all_finite_trunc K ts : all_finite_ts ts = true -> all_finite_ts (trunc K ts) = true.
Proof.
  unfold all_finite_ts, trunc. rewrite !forallb_forall. intros H xl Hin.
  apply in_map_iff in Hin. destruct Hin as [[y l] [<- Hy]]. simpl.
  specialize (H _ Hy). simpl in H. rewrite forallb_forall in *. intros v Hv. apply H.
  rewrite <- (firstn_skipn K l). apply in_or_app. now left.
Qed.

Lemma nth_ts_trunc K ts x i : i < K -> nth_ts (trunc K ts) x i = nth_ts ts x i.
Proof.
  intros Hi. unfold nth_ts. rewrite lookup_trunc. destruct (lookup x ts) as [l|]; simpl; [|reflexivity].
  now rewrite nth_error_firstn_lt.
Qed.

(* ---- the step does not look at MaxTime, nor at the exogenous specifications *)
Lemma loop_set_maxtime T' p : forall fuel cur rel had n tr,
  loop fuel (set_maxtime p T') cur rel had n tr = loop fuel p cur rel had n tr.
Proof.
  induction fuel as [|f IH]; intros; [reflexivity|]. simpl.
  change (p_tol (set_maxtime p T')) with (p_tol p).
  destruct (keep_going rel (p_tol p)); [|reflexivity].
  change (sweep (set_maxtime p T') cur) with (sweep p cur).
  destruct (sweep p cur) as [[[new rel'] had']|]; [|reflexivity].
  change (p_maxiter (set_maxtime p T')) with (p_maxiter p).
  change (p_endo (set_maxtime p T')) with (p_endo p).
  destruct (Nat.ltb (p_maxiter p) (S n)); [reflexivity|apply IH].
Qed.

Lemma step_set_maxtime T' p exo k ts : step (set_maxtime p T') exo k ts = step p exo k ts.
Proof.
  unfold step, start_env, run_loop.
  change (p_lagged (set_maxtime p T')) with (p_lagged p).
  change (p_endo (set_maxtime p T')) with (p_endo p).
  change (p_deco (set_maxtime p T')) with (p_deco p).
  change (p_maxiter (set_maxtime p T')) with (p_maxiter p).
  change (endo_names (set_maxtime p T')) with (endo_names p).
  change (lag_names (set_maxtime p T')) with (lag_names p).
  destruct (pin_exo exo ts k []) as [i1|]; [|reflexivity].
  destruct (pin_lag (p_lagged p) ts k i1) as [i2|]; [|reflexivity].
  destruct (guess (p_endo p) ts k i2) as [ini|]; [|reflexivity].
  rewrite loop_set_maxtime. reflexivity.
Qed.

Lemma pin_exo_names a b ts k : map fst a = map fst b -> forall ini, pin_exo a ts k ini = pin_exo b ts k ini.
Proof.
  revert b. induction a as [|[x s] a IH]; intros [|[y s'] b] H ini; simpl in *; try discriminate; [reflexivity|].
  inversion H; subst. destruct (nth_ts ts y k); [apply IH; assumption|reflexivity].
Qed.

Lemma step_exo_names p a b k ts : map fst a = map fst b -> step p a k ts = step p b k ts.
Proof. intros H. unfold step, start_env. now rewrite (pin_exo_names a b ts k H). Qed.

(* ---- one period on truncated series *)
Lemma pin_exo_trunc K exo ts k : k < K -> forall ini, pin_exo exo (trunc K ts) k ini = pin_exo exo ts k ini.
Proof.
  intros Hk. induction exo as [|[x s] r IH]; intros ini; simpl; [reflexivity|].
  rewrite nth_ts_trunc by assumption. destruct (nth_ts ts x k); [apply IH|reflexivity].
Qed.

Lemma pin_lag_trunc K lagged ts k : k - 1 < K -> forall ini, pin_lag lagged (trunc K ts) k ini = pin_lag lagged ts k ini.
Proof.
  intros Hk. induction lagged as [|[x s] r IH]; intros ini; simpl; [reflexivity|].
  rewrite nth_ts_trunc by assumption. destruct (nth_ts ts s (k - 1)); [apply IH|reflexivity].
Qed.

Lemma guess_trunc K endo ts k : k - 1 < K -> forall ini, guess endo (trunc K ts) k ini = guess endo ts k ini.
Proof.
  intros Hk. induction endo as [|[x s] r IH]; intros ini; simpl; [reflexivity|].
  rewrite nth_ts_trunc by assumption. destruct (nth_ts ts x (k - 1)); [apply IH|reflexivity].
Qed.

Lemma append_all_trunc K names e k : k < K -> forall ts,
  append_all names e k (trunc K ts) = (trunc K (fst (append_all names e k ts)), snd (append_all names e k ts)).
Proof.
  intros Hk. induction names as [|x r IH]; intros ts; simpl; [reflexivity|].
  rewrite lookup_trunc. destruct (lookup x ts) as [l|]; simpl; [|reflexivity].
  rewrite firstn_length.
  destruct (Nat.eqb (List.length l) k) eqn:E.
  - apply Nat.eqb_eq in E. replace (Nat.eqb (Nat.min K (List.length l)) k) with true by (symmetry; apply Nat.eqb_eq; lia).
    rewrite (firstn_all2 l) by lia.
    rewrite <- IH. f_equal. rewrite trunc_set. f_equal. rewrite firstn_all2; [reflexivity|]. rewrite app_length. simpl. lia.
  - apply Nat.eqb_neq in E. replace (Nat.eqb (Nat.min K (List.length l)) k) with false by (symmetry; apply Nat.eqb_neq; lia).
    reflexivity.
Qed.

Lemma step_trunc K p exo k ts : 1 <= k < K ->
  sr_ts (step p exo k (trunc K ts)) = trunc K (sr_ts (step p exo k ts)) /\
  sr_err (step p exo k (trunc K ts)) = sr_err (step p exo k ts).
Proof.
  intros Hk. unfold step, start_env.
  rewrite pin_exo_trunc by lia.
  destruct (pin_exo exo ts k []) as [i1|]; [|auto].
  rewrite pin_lag_trunc by lia.
  destruct (pin_lag (p_lagged p) ts k i1) as [i2|]; [|auto].
  rewrite guess_trunc by lia.
  destruct (guess (p_endo p) ts k i2) as [ini|]; [|auto].
  destruct (lr_err (run_loop p ini)); [auto|].
  destruct (deco_pass (S (List.length (p_deco p))) (p_deco p) (lr_env (run_loop p ini)) []) as [[e' computed]|]; [|auto].
  destruct (forallb (fun x => is_finite (getv x e')) (endo_names p ++ lag_names p ++ computed)); [|auto].
  rewrite append_all_trunc by lia.
  destruct (append_all (endo_names p ++ lag_names p ++ computed) e' k ts) as [ts' oe]. auto.
Qed.

Lemma reached_trunc K p exo ts0 j tsj :
  reached p exo 1 ts0 j tsj -> j <= K -> reached p exo 1 (trunc K ts0) j (trunc K tsj).
Proof.
  induction 1 as [|j ts' Hr IH Hok]; intros Hj; [constructor|].
  assert (Hk : 1 <= j < K) by (apply reached_le in Hr; lia).
  destruct (step_trunc K p exo j ts' Hk) as [E1 E2].
  rewrite <- E1. constructor; [apply IH; lia|]. now rewrite E2.
Qed.

(* ---- SetInitialConditions with a shorter horizon *)
Lemma firstn_repeat {A} (c : A) n m : n <= m -> firstn n (repeat c m) = repeat c n.
Proof.
  revert m. induction n; intros m H; [reflexivity|]. destruct m; [lia|]. simpl. f_equal. apply IHn. lia.
Qed.

Lemma firstn_seq' n : forall s len, firstn n (seq s len) = seq s (Nat.min n len).
Proof.
  induction n; intros s len; [reflexivity|]. destruct len; [reflexivity|]. simpl. f_equal. apply IHn.
Qed.

Lemma firstn_kseries K T : 1 <= K <= S T -> firstn K (kseries T) = kseries (K - 1).
Proof.
  intros H. unfold kseries. rewrite firstn_map, firstn_seq'. f_equal. f_equal. lia.
Qed.

(** specifications of the shorter run: the same, except for the injected k series *)
Definition spec_short (K T : nat) (a b : string * exo_spec) : Prop :=
  fst a = fst b /\ (snd a = snd b \/ (snd a = ExoList (kseries (K - 1)) /\ snd b = ExoList (kseries T))).

Lemma pass2_trunc K T : 1 <= K <= S T -> forall exo_s exo_b, Forall2 (spec_short K T) exo_s exo_b ->
  forall vb zb vb' zb', pass2 T exo_b vb zb = Ok (vb', zb') ->
  pass2 (K - 1) exo_s (trunc K vb) zb = Ok (trunc K vb', zb').
Proof.
  intros HK. induction 1 as [|[x s] [y s'] rs rb [Hxy Hs] Hrest IH]; intros vb zb vb' zb' H; cbn [pass2] in *.
  - now inversion H.
  - simpl fst in *. simpl snd in *. subst y. replace (S (K - 1)) with K by lia.
    destruct (exo_values T s') as [valb|] eqn:Evb; [|discriminate].
    destruct (Nat.ltb (List.length valb) (S T)) eqn:Elb; [discriminate|]. apply Nat.ltb_ge in Elb.
    assert (Hv : exists vals, exo_values (K - 1) s = Ok vals /\ K <= List.length vals /\
                   firstn K vals = firstn K (firstn (S T) valb) /\ hd 0%float vals = hd 0%float valb).
    { destruct Hs as [Hs|[Hs1 Hs2]].
      - subst s'. destruct s as [l|c| |]; unfold exo_values in Evb; try discriminate.
        + inversion Evb; subst valb. exists l. repeat split; auto; [lia|].
          rewrite firstn_firstn. f_equal. lia.
        + assert (Hvb : valb = repeat c (S T)) by congruence. subst valb. exists (repeat c K).
          rewrite repeat_length. split; [unfold exo_values; replace (S (K - 1)) with K by lia; reflexivity|].
          split; [lia|]. split.
          * rewrite firstn_firstn. replace (Nat.min K (S T)) with K by lia.
            rewrite !firstn_repeat by lia. reflexivity.
          * destruct K; [lia|reflexivity].
      - subst s s'. unfold exo_values in Evb. assert (Hvb : valb = kseries T) by congruence. subst valb.
        exists (kseries (K - 1)).
        split; [reflexivity|]. split; [unfold kseries; rewrite map_length, seq_length; lia|]. split.
        + rewrite firstn_firstn. replace (Nat.min K (S T)) with K by lia.
          rewrite (firstn_kseries K T) by lia. apply firstn_all2. unfold kseries. rewrite map_length, seq_length. lia.
        + reflexivity. }
    destruct Hv as [vals [Evs [Hls [Hf Hh]]]]. rewrite Evs.
    replace (Nat.ltb (List.length vals) K) with false by (symmetry; apply Nat.ltb_ge; lia).
    rewrite Hh. rewrite <- (IH _ _ _ _ H). f_equal. rewrite trunc_set. f_equal. congruence.
Qed.

Lemma pass3_round_trunc K ics endo : 1 <= K -> forall vars tzc ch,
  pass3_round ics endo (trunc K vars) tzc ch =
  (let '(v', z', c') := pass3_round ics endo vars tzc ch in (trunc K v', z', c')).
Proof.
  intros HK. induction endo as [|[x e] r IH]; intros vars tzc ch; simpl; [reflexivity|].
  destruct (has x tzc || has x ics); [apply IH|].
  destruct (evalF (envf tzc) e) as [v|]; [|apply IH].
  rewrite <- IH. f_equal. rewrite trunc_set. f_equal. destruct K; [lia|simpl; now rewrite firstn_nil].
Qed.

Lemma pass3_trunc K ics endo : 1 <= K -> forall fuel vars tzc v' z',
  pass3 fuel ics endo vars tzc = Ok (v', z') -> pass3 fuel ics endo (trunc K vars) tzc = Ok (trunc K v', z').
Proof.
  intros HK. induction fuel as [|f IH]; intros vars tzc v' z' H; simpl in *; [discriminate|].
  rewrite pass3_round_trunc by assumption.
  destruct (pass3_round ics endo vars tzc false) as [[v1 z1] c1]. destruct c1.
  - now apply IH.
  - now inversion H.
Qed.

Lemma varlist_set_maxtime p T' : varlist (set_maxtime p T') = varlist p.
Proof. reflexivity. Qed.

Lemma init_trunc p K ts0 exo' : 1 <= K <= S (p_maxtime p) -> init p = Ok (ts0, exo') ->
  exists exo_s, init (set_maxtime p (K - 1)) = Ok (trunc K ts0, exo_s) /\ map fst exo_s = map fst exo'.
Proof.
  intros HK. unfold init, init_passes.
  change (p_ics (set_maxtime p (K - 1))) with (p_ics p).
  change (p_endo (set_maxtime p (K - 1))) with (p_endo p).
  change (p_deco (set_maxtime p (K - 1))) with (p_deco p).
  change (p_maxtime (set_maxtime p (K - 1))) with (K - 1).
  rewrite varlist_set_maxtime.
  destruct (pass1 (p_ics p) (varlist p) [] []) as [[v1 z1]|] eqn:E1; [|discriminate].
  destruct (pass2 (p_maxtime p) (exo_with_k p v1) v1 z1) as [[v2 z2]|] eqn:E2; [|discriminate].
  destruct (pass3 (S (List.length (p_endo p))) (p_ics p) (p_endo p) v2 z2) as [[v3 z3]|] eqn:E3; [|discriminate].
  destruct (pass4 (S (List.length (p_deco p))) (p_deco p) v3 z3) as [[v4 z4]|] eqn:E4; [|discriminate].
  destruct (all_finite_ts v4) eqn:Ef; [|discriminate]. intros H. inversion H; subst ts0 exo'. clear H.
  (* pass 1 produces singletons only *)
  assert (Hv1 : trunc K v1 = v1).
  { assert (Hgen : forall vl vars tzc vars' tzc', pass1 (p_ics p) vl vars tzc = Ok (vars', tzc') ->
                     trunc K vars = vars -> trunc K vars' = vars').
    { induction vl as [|y r IH]; simpl; intros vars tzc vars' tzc' Hp Ht; [now inversion Hp; subst|].
      destruct (lookup y (p_ics p)) as [[c|]|]; [|discriminate|];
        (eapply IH; [exact Hp|]; rewrite trunc_set, Ht; f_equal; destruct K; [lia|simpl; now rewrite firstn_nil]). }
    eapply Hgen; [exact E1|reflexivity]. }
  set (exo_s := exo_with_k (set_maxtime p (K - 1)) v1).
  assert (HF : Forall2 (spec_short K (p_maxtime p)) exo_s (exo_with_k p v1)).
  { unfold exo_s, exo_with_k. change (p_exo (set_maxtime p (K - 1))) with (p_exo p).
    change (p_maxtime (set_maxtime p (K - 1))) with (K - 1).
    assert (Hsame : Forall2 (spec_short K (p_maxtime p)) (p_exo p) (p_exo p)).
    { induction (p_exo p); constructor; [split; auto|assumption]. }
    destruct (has "k" v1); [exact Hsame|].
    apply Forall2_app; [exact Hsame|]. constructor; [|constructor]. split; [reflexivity|right; auto]. }
  exists exo_s. split.
  - pose proof (pass2_trunc K (p_maxtime p) HK _ _ HF _ _ _ _ E2) as P2. rewrite Hv1 in P2.
    fold exo_s. rewrite P2.
    rewrite (pass3_trunc K _ _ ltac:(lia) _ _ _ _ _ E3).
    unfold pass4 in *. rewrite (pass3_trunc K _ _ ltac:(lia) _ _ _ _ _ E4).
    rewrite (all_finite_trunc K _ Ef). reflexivity.
  - clear - HF. induction HF as [|a b ra rb [Hab _] _ IH]; simpl; [reflexivity|]. now rewrite Hab, IH.
Qed.

(* ---- steps from reached *)
Lemma reached_same p exo k ts ts' : reached p exo k ts k ts' -> ts' = ts.
Proof.
  intros H. inversion H as [|j t Hr Hok Ej Et]; [reflexivity|].
  apply reached_le in Hr. lia.
Qed.

Lemma reached_head p exo k ts n ts' : reached p exo k ts n ts' -> k < n ->
  sr_err (step p exo k ts) = None /\ reached p exo (S k) (sr_ts (step p exo k ts)) n ts'.
Proof.
  intros Hr Hk. destruct (reached_split _ _ _ _ _ _ Hr k ltac:(lia)) as [tsk [R1 [R2 R3]]].
  apply reached_same in R1. subst tsk. auto.
Qed.

Lemma steps_of_reached p exo n : forall k ts ts' sw trs,
  reached p exo k ts (k + n) ts' ->
  rr_err (steps n p exo k ts sw trs) = None /\ rr_ts (steps n p exo k ts sw trs) = ts'.
Proof.
  induction n as [|n IH]; intros k ts ts' sw trs Hr; simpl.
  - rewrite Nat.add_0_r in Hr. apply reached_same in Hr. auto.
  - destruct (reached_head _ _ _ _ _ _ Hr ltac:(lia)) as [Hok Hr'].
    rewrite Hok. apply IH. replace (S k + n) with (k + S n) by lia. exact Hr'.
Qed.

Lemma reached_change p T' a b k ts j ts' :
  map fst a = map fst b -> reached p b k ts j ts' -> reached (set_maxtime p T') a k ts j ts'.
Proof.
  intros Hn. induction 1 as [|i t Hr IH Hok]; [constructor|].
  rewrite <- (step_exo_names p a b i t Hn), <- (step_set_maxtime T').
  constructor; [exact IH|]. now rewrite step_set_maxtime, (step_exo_names p a b i t Hn).
Qed.

(** C11: the prefix of a failing run is a successful run with the horizon cut before the
    failing period *)
Theorem intact_maxtime p e : wf p -> rr_err (run p) = Some e -> rr_ts (run p) <> [] ->
  exists j, 1 <= j <= p_maxtime p /\
    solve (set_maxtime p (j - 1)) = Ok (trunc j (rr_ts (run p))) /\
    (forall x, In x (nonexo_names p) -> List.length (series x (rr_ts (run p))) = j).
Proof.
  intros W He Hne.
  destruct (run_fail_wf p e W He) as [[_ Hnil]|[ts0 [exo' [j [Ei [Hj [Hr [Hlen _]]]]]]]]; [congruence|].
  exists j. split; [exact Hj|]. split; [|exact Hlen].
  destruct (init_trunc p j ts0 exo' ltac:(lia) Ei) as [exo_s [Eis Hnames]].
  pose proof (reached_trunc j p exo' ts0 j _ Hr (le_n _)) as Hrt.
  unfold solve, run. rewrite Eis.
  change (p_maxtime (set_maxtime p (j - 1))) with (j - 1).
  assert (Hrs : reached (set_maxtime p (j - 1)) exo_s 1 (trunc j ts0) (1 + (j - 1)) (trunc j (rr_ts (run p)))).
  { replace (1 + (j - 1)) with j by lia. now apply (reached_change p (j - 1) exo_s exo'). }
  destruct (steps_of_reached _ _ _ _ _ _ [] [] Hrs) as [S1 S2]. rewrite S1, S2. reflexivity.
Qed.
