(** Facts about [SetInitialConditions] (Init.v). *)
From Coq Require Import List String Bool Arith Lia PrimFloat Permutation.
From SFC.Base Require Import Res Str Sorting Expr.
From SFC.Solve Require Import Types Maps Init.
Import ListNotations.
Local Open Scope string_scope.
Local Open Scope list_scope.

(* ------------------------------------------------------------------ pass 1 *)
Lemma pass1_err ics vl vars tzc e : pass1 ics vl vars tzc = Err e -> e = ValueError.
Proof.
  revert vars tzc. induction vl as [|y r IH]; simpl; intros vars tzc H; [discriminate|].
  destruct (lookup y ics) as [[c|]|]; eauto. now inversion H.
Qed.

Lemma pass1_spec ics vl : forall vars tzc vars' tzc',
  pass1 ics vl vars tzc = Ok (vars', tzc') ->
  (forall x, In x vl ->
     match lookup x ics with
     | Some (ICVal c) => lookup x vars' = Some [c] /\ lookup x tzc' = Some c
     | Some ICBad => False
     | None => lookup x vars' = Some [0%float] /\ lookup x tzc' = lookup x tzc
     end) /\
  (forall x, ~ In x vl -> lookup x vars' = lookup x vars /\ lookup x tzc' = lookup x tzc).
Proof.
  induction vl as [|y r IH]; simpl; intros vars tzc vars' tzc' H.
  - inversion H; subst. split; [tauto|auto].
  - destruct (lookup y ics) as [[c|]|] eqn:Ey; [| discriminate |].
    + destruct (IH _ _ _ _ H) as [IH1 IH2]. split.
      * intros x [<-|Hin].
        -- rewrite Ey. destruct (in_dec string_dec y r) as [Hi|Hni].
           ++ specialize (IH1 y Hi). now rewrite Ey in IH1.
           ++ destruct (IH2 y Hni) as [-> ->]. now rewrite !lookup_set_eq.
        -- specialize (IH1 x Hin). destruct (lookup x ics) as [[c'|]|] eqn:Ex; auto.
           destruct IH1 as [-> ->]. split; [reflexivity|].
           apply lookup_set_neq. intros ->. congruence.
      * intros x Hn. destruct (IH2 x) as [-> ->]; [tauto|].
        rewrite !lookup_set_neq; [auto| |]; intros ->; tauto.
    + destruct (IH _ _ _ _ H) as [IH1 IH2]. split.
      * intros x [<-|Hin].
        -- rewrite Ey. destruct (in_dec string_dec y r) as [Hi|Hni].
           ++ specialize (IH1 y Hi). now rewrite Ey in IH1.
           ++ destruct (IH2 y Hni) as [-> ->]. now rewrite lookup_set_eq.
        -- exact (IH1 x Hin).
      * intros x Hn. destruct (IH2 x) as [-> ->]; [tauto|].
        rewrite lookup_set_neq; [auto|]; intros ->; tauto.
Qed.

(* ------------------------------------------------------------------ pass 2 *)
Lemma exo_values_err T s e : exo_values T s = Err e -> e = ValueError.
Proof. destruct s; simpl; intros H; inversion H; reflexivity. Qed.

Lemma pass2_err T exo vars tzc e : pass2 T exo vars tzc = Err e -> e = ValueError.
Proof.
  revert vars tzc. induction exo as [|[y s] r IH]; simpl; intros vars tzc H; [discriminate|].
  destruct (exo_values T s) as [val|e'] eqn:Ev; [|inversion H; subst; eapply exo_values_err; eauto].
  destruct (Nat.ltb (List.length val) (S T)); [now inversion H|eauto].
Qed.

Lemma pass2_frame T exo : forall vars tzc vars' tzc',
  pass2 T exo vars tzc = Ok (vars', tzc') ->
  forall x, ~ In x (map fst exo) -> lookup x vars' = lookup x vars /\ lookup x tzc' = lookup x tzc.
Proof.
  induction exo as [|[y s] r IH]; simpl; intros vars tzc vars' tzc' H x Hn.
  - inversion H; auto.
  - destruct (exo_values T s) as [val|]; [|discriminate].
    destruct (Nat.ltb (List.length val) (S T)); [discriminate|].
    destruct (IH _ _ _ _ H x) as [-> ->]; [tauto|].
    rewrite !lookup_set_neq; [auto| |]; intros ->; tauto.
Qed.

Lemma pass2_all_good T exo : forall vars tzc vars' tzc',
  pass2 T exo vars tzc = Ok (vars', tzc') ->
  forall x s, In (x, s) exo -> exists val, exo_values T s = Ok val /\ S T <= List.length val.
Proof.
  induction exo as [|[y s'] r IH]; simpl; intros vars tzc vars' tzc' H x s Hin; [tauto|].
  destruct (exo_values T s') as [val|] eqn:Ev; [|discriminate].
  destruct (Nat.ltb (List.length val) (S T)) eqn:El; [discriminate|].
  destruct Hin as [Heq|Hin]; [|eauto].
  inversion Heq; subst. exists val. split; [assumption|]. apply Nat.ltb_ge in El. lia.
Qed.

Lemma pass2_values T exo : forall vars tzc vars' tzc',
  pass2 T exo vars tzc = Ok (vars', tzc') -> NoDup (map fst exo) ->
  forall x s, In (x, s) exo ->
    exists val, exo_values T s = Ok val /\ S T <= List.length val /\
                lookup x vars' = Some (firstn (S T) val) /\ lookup x tzc' = Some (hd 0%float val).
Proof.
  induction exo as [|[y s'] r IH]; simpl; intros vars tzc vars' tzc' H Hnd x s Hin; [tauto|].
  inversion Hnd as [|? ? Hnotin Hnd']; subst.
  destruct (exo_values T s') as [val|] eqn:Ev; [|discriminate].
  destruct (Nat.ltb (List.length val) (S T)) eqn:El; [discriminate|].
  destruct Hin as [Heq|Hin]; [|eauto].
  inversion Heq; subst. exists val. apply Nat.ltb_ge in El.
  destruct (pass2_frame _ _ _ _ _ _ H x Hnotin) as [-> ->].
  rewrite !lookup_set_eq. repeat split; auto; lia.
Qed.

Lemma pass2_lengths T exo : forall vars tzc vars' tzc',
  pass2 T exo vars tzc = Ok (vars', tzc') ->
  forall x, In x (map fst exo) ->
    has x tzc' = true /\ exists l, lookup x vars' = Some l /\ List.length l = S T.
Proof.
  induction exo as [|[y s'] r IH]; simpl; intros vars tzc vars' tzc' H x Hin; [tauto|].
  destruct (exo_values T s') as [val|] eqn:Ev; [|discriminate].
  destruct (Nat.ltb (List.length val) (S T)) eqn:El; [discriminate|].
  apply Nat.ltb_ge in El.
  destruct (in_dec string_dec x (map fst r)) as [Hi|Hni]; [eauto|].
  destruct Hin as [<-|Hin]; [|tauto].
  destruct (pass2_frame _ _ _ _ _ _ H y Hni) as [E1 E2].
  split.
  - apply has_true_iff. rewrite E2, lookup_set_eq. eauto.
  - rewrite E1, lookup_set_eq. exists (firstn (S T) val). split; [reflexivity|]. rewrite firstn_length. lia.
Qed.

(* ------------------------------------------------------------------ passes 3 and 4 *)
Definition changed_only_fresh (ics : amap ic_spec) (vars vars' : tseries) (tzc : env) : Prop :=
  forall x, lookup x vars' = lookup x vars \/
            (has x tzc = false /\ has x ics = false /\ exists v, lookup x vars' = Some [v]).

Lemma pass3_round_spec ics endo : forall vars tzc ch vars' tzc' ch',
  pass3_round ics endo vars tzc ch = (vars', tzc', ch') ->
  (forall x, has x tzc = true -> lookup x tzc' = lookup x tzc) /\
  changed_only_fresh ics vars vars' tzc.
Proof.
  induction endo as [|[y e] r IH]; simpl; intros vars tzc ch vars' tzc' ch' H.
  - inversion H; subst. split; [auto|]. intros x. now left.
  - destruct (has y tzc || has y ics) eqn:Es; [eauto|].
    apply orb_false_iff in Es. destruct Es as [Es1 Es2].
    destruct (evalF (envf tzc) e) as [v|]; [|eauto].
    destruct (IH _ _ _ _ _ _ H) as [IH1 IH2]. split.
    + intros x Hx. rewrite IH1.
      * apply lookup_set_neq. intros ->. congruence.
      * rewrite has_set, Hx. apply orb_true_r.
    + intros x. destruct (IH2 x) as [Ha|[Hb1 [Hb2 Hb3]]].
      * destruct (String.eqb_spec x y) as [->|Hn].
        -- right. rewrite Ha, lookup_set_eq. eauto.
        -- left. rewrite Ha. apply lookup_set_neq. congruence.
      * right. rewrite has_set in Hb1. apply orb_false_iff in Hb1. tauto.
Qed.

Lemma pass3_spec ics endo : forall fuel vars tzc vars' tzc',
  pass3 fuel ics endo vars tzc = Ok (vars', tzc') ->
  (forall x, has x tzc = true -> lookup x tzc' = lookup x tzc) /\
  changed_only_fresh ics vars vars' tzc.
Proof.
  induction fuel as [|f IH]; simpl; intros vars tzc vars' tzc' H; [discriminate|].
  destruct (pass3_round ics endo vars tzc false) as [[v1 z1] ch] eqn:Er.
  destruct (pass3_round_spec _ _ _ _ _ _ _ _ Er) as [R1 R2].
  destruct ch.
  - destruct (IH _ _ _ _ H) as [I1 I2]. split.
    + intros x Hx. rewrite I1; [now apply R1|].
      apply has_true_iff. rewrite (R1 x Hx). now apply has_true_iff.
    + intros x. destruct (R2 x) as [Ra|[Rb1 [Rb2 Rb3]]]; destruct (I2 x) as [Ia|[Ib1 [Ib2 Ib3]]].
      * left. congruence.
      * right. split; [|auto]. destruct (has x tzc) eqn:Hx; [|reflexivity].
        assert (Hx1 : has x z1 = true) by (apply has_true_iff; rewrite (R1 x Hx); now apply has_true_iff).
        congruence.
      * right. rewrite Ia. auto.
      * right. auto.
  - inversion H; subst. auto.
Qed.

(** the fuel [S (length endo)] is enough: every round that changes something binds a new name *)
Definition unbound (endo : list (string * expr float)) (tzc : env) : nat :=
  List.length (filter (fun xe => negb (has (fst xe) tzc)) endo).

Definition has_le (a b : env) : Prop := forall x, has x a = true -> has x b = true.

Lemma unbound_le L a b : has_le a b -> unbound L b <= unbound L a.
Proof.
  intros Hle. unfold unbound. induction L as [|[y e] L IH]; simpl; [lia|].
  destruct (has y a) eqn:Ea; simpl.
  - rewrite (Hle _ Ea). simpl. exact IH.
  - destruct (has y b); simpl; lia.
Qed.

Lemma unbound_lt L a b x :
  has_le a b -> In x (map fst L) -> has x a = false -> has x b = true -> unbound L b < unbound L a.
Proof.
  intros Hle Hin Ha Hb. unfold unbound. induction L as [|[y e] L IH]; simpl in *; [tauto|].
  destruct Hin as [->|Hin].
  - rewrite Ha, Hb. simpl. pose proof (unbound_le L a b Hle) as Hl. unfold unbound in Hl. lia.
  - specialize (IH Hin). destruct (has y a) eqn:Ea; simpl.
    + rewrite (Hle _ Ea). simpl. exact IH.
    + destruct (has y b); simpl; lia.
Qed.

Lemma pass3_round_progress ics endo : forall vars tzc ch vars' tzc' ch',
  pass3_round ics endo vars tzc ch = (vars', tzc', ch') ->
  has_le tzc tzc' /\
  (ch' = true -> ch = true \/ exists x, In x (map fst endo) /\ has x tzc = false /\ has x tzc' = true).
Proof.
  induction endo as [|[y e] r IH]; simpl; intros vars tzc ch vars' tzc' ch' H.
  - inversion H; subst. split; [intros x Hx; exact Hx|auto].
  - destruct (has y tzc || has y ics) eqn:Es.
    { destruct (IH _ _ _ _ _ _ H) as [I1 I2]. split; [exact I1|].
      intros Hc. destruct (I2 Hc) as [?|[x [? ?]]]; eauto. }
    apply orb_false_iff in Es. destruct Es as [Es1 Es2].
    destruct (evalF (envf tzc) e) as [v|].
    + destruct (IH _ _ _ _ _ _ H) as [I1 I2]. split.
      * intros x Hx. apply I1. rewrite has_set, Hx. apply orb_true_r.
      * intros _. right. exists y. split; [now left|]. split; [exact Es1|].
        apply I1. rewrite has_set, String.eqb_refl. reflexivity.
    + destruct (IH _ _ _ _ _ _ H) as [I1 I2]. split; [exact I1|].
      intros Hc. destruct (I2 Hc) as [?|[x [? ?]]]; eauto.
Qed.

Lemma pass3_fuel ics endo : forall fuel vars tzc e,
  unbound endo tzc < fuel -> pass3 fuel ics endo vars tzc <> Err e.
Proof.
  induction fuel as [|f IH]; simpl; intros vars tzc e Hlt; [lia|].
  destruct (pass3_round ics endo vars tzc false) as [[v1 z1] ch] eqn:Er.
  destruct (pass3_round_progress _ _ _ _ _ _ _ _ Er) as [P1 P2].
  destruct ch; [|discriminate].
  apply IH. destruct (P2 eq_refl) as [?|[x [Hin [Ha Hb]]]]; [discriminate|].
  pose proof (unbound_lt endo tzc z1 x P1 Hin Ha Hb). lia.
Qed.

Lemma unbound_bound endo tzc : unbound endo tzc <= List.length endo.
Proof. unfold unbound. induction endo as [|a l IH]; simpl; [lia|]. destruct (negb (has (fst a) tzc)); simpl; lia. Qed.

Lemma pass3_never_errs ics endo vars tzc e :
  pass3 (S (List.length endo)) ics endo vars tzc <> Err e.
Proof. apply pass3_fuel. pose proof (unbound_bound endo tzc). lia. Qed.

(* ------------------------------------------------------------------ the whole of init *)
Lemma varlist_In p x :
  In x (varlist p) <-> In x (endo_names p ++ lag_names p ++ exo_names p ++ deco_names p).
Proof. unfold varlist. apply sort_In. Qed.

Lemma init_passes_err p e : init_passes p = Err e -> e = ValueError.
Proof.
  unfold init_passes. intros H.
  destruct (pass1 (p_ics p) (varlist p) [] []) as [[v1 z1]|e1] eqn:E1;
    [|inversion H; subst; eapply pass1_err; eauto].
  destruct (pass2 (p_maxtime p) (exo_with_k p v1) v1 z1) as [[v2 z2]|e2] eqn:E2;
    [|inversion H; subst; eapply pass2_err; eauto].
  destruct (pass3 (S (List.length (p_endo p))) (p_ics p) (p_endo p) v2 z2) as [[v3 z3]|e3] eqn:E3;
    [|exfalso; eapply pass3_never_errs; eauto].
  destruct (pass4 (S (List.length (p_deco p))) (p_deco p) v3 z3) as [[v4 z4]|e4] eqn:E4;
    [discriminate|exfalso; eapply pass3_never_errs; eauto].
Qed.

Lemma init_err p e : init p = Err e -> e = ValueError.
Proof.
  unfold init. destruct (init_passes p) as [[ts exo']|e'] eqn:E.
  - destruct (all_finite_ts ts); intros H; inversion H; reflexivity.
  - intros H; inversion H; subst. eapply init_passes_err; eauto.
Qed.

Record init_facts (p : pstate) (ts0 : tseries) (exo' : list (string * exo_spec)) : Prop := {
  if_exo : (In "k" (varlist p) /\ exo' = p_exo p) \/
           (~ In "k" (varlist p) /\ exo' = p_exo p ++ [("k", ExoList (kseries (p_maxtime p)))]);
  if_exo_len : forall x, In x (map fst exo') ->
                 exists l, lookup x ts0 = Some l /\ List.length l = S (p_maxtime p);
  if_exo_val : NoDup (map fst exo') -> forall x s, In (x, s) exo' ->
                 exists val, exo_values (p_maxtime p) s = Ok val /\ S (p_maxtime p) <= List.length val /\
                             lookup x ts0 = Some (firstn (S (p_maxtime p)) val);
  if_exo_good : forall x s, In (x, s) exo' ->
                 exists val, exo_values (p_maxtime p) s = Ok val /\ S (p_maxtime p) <= List.length val;
  if_ic_good : forall x, In x (varlist p) -> lookup x (p_ics p) <> Some ICBad;
  if_other : forall x, In x (varlist p) -> ~ In x (map fst exo') ->
                 exists v, lookup x ts0 = Some [v] /\
                           (forall c, lookup x (p_ics p) = Some (ICVal c) -> v = c)
}.

Lemma init_passes_facts p ts0 exo' : init_passes p = Ok (ts0, exo') -> init_facts p ts0 exo'.
Proof.
  unfold init_passes. intros H.
  destruct (pass1 (p_ics p) (varlist p) [] []) as [[v1 z1]|e1] eqn:E1; [|discriminate].
  destruct (pass2 (p_maxtime p) (exo_with_k p v1) v1 z1) as [[v2 z2]|e2] eqn:E2; [|discriminate].
  destruct (pass3 (S (List.length (p_endo p))) (p_ics p) (p_endo p) v2 z2) as [[v3 z3]|e3] eqn:E3; [|discriminate].
  destruct (pass4 (S (List.length (p_deco p))) (p_deco p) v3 z3) as [[v4 z4]|e4] eqn:E4; [|discriminate].
  inversion H; subst ts0 exo'. clear H.
  destruct (pass1_spec _ _ _ _ _ _ E1) as [P1a P1b].
  destruct (pass3_spec _ _ _ _ _ _ _ E3) as [P3a P3b].
  unfold pass4 in E4. destruct (pass3_spec _ _ _ _ _ _ _ E4) as [P4a P4b].
  assert (Hk : has "k" v1 = true <-> In "k" (varlist p)).
  { split; intros Hh.
    - destruct (in_dec string_dec "k" (varlist p)) as [Hi|Hni]; [exact Hi|].
      destruct (P1b _ Hni) as [Hl _]. simpl in Hl. apply has_true_iff in Hh. destruct Hh as [l Hl']. congruence.
    - specialize (P1a _ Hh). apply has_true_iff.
      destruct (lookup "k" (p_ics p)) as [[c|]|]; [destruct P1a; eauto|tauto|destruct P1a; eauto]. }
  (* exogenous names keep their series through passes 3 and 4 *)
  assert (Hexo : forall x, In x (map fst (exo_with_k p v1)) -> lookup x v4 = lookup x v2).
  { intros x Hin. destruct (pass2_lengths _ _ _ _ _ _ E2 x Hin) as [Hh _].
    assert (Hh3 : has x z3 = true) by (apply has_true_iff; rewrite (P3a x Hh); now apply has_true_iff).
    destruct (P4b x) as [->|[Hf _]]; [|congruence].
    destruct (P3b x) as [->|[Hf _]]; [reflexivity|congruence]. }
  constructor.
  - unfold exo_with_k. destruct (has "k" v1) eqn:Eh.
    + left. split; [now apply Hk|reflexivity].
    + right. split; [|reflexivity]. intros Hin. apply Hk in Hin. congruence.
  - intros x Hin. rewrite (Hexo x Hin). exact (proj2 (pass2_lengths _ _ _ _ _ _ E2 x Hin)).
  - intros Hnd x s Hin. destruct (pass2_values _ _ _ _ _ _ E2 Hnd x s Hin) as [val [Hv [Hl [Hs _]]]].
    exists val. repeat split; auto. rewrite Hexo; [exact Hs|]. apply (in_map fst) in Hin. exact Hin.
  - intros x s Hin. exact (pass2_all_good _ _ _ _ _ _ E2 x s Hin).
  - intros x Hin Hbad. specialize (P1a x Hin). now rewrite Hbad in P1a.
  - intros x Hin Hnexo.
    destruct (pass2_frame _ _ _ _ _ _ E2 x Hnexo) as [F1 F2].
    specialize (P1a x Hin).
    destruct (lookup x (p_ics p)) as [[c|]|] eqn:Eic; [|tauto|].
    + destruct P1a as [Hv1 Hz1].
      assert (Hh2 : has x z2 = true) by (apply has_true_iff; rewrite F2; eauto).
      assert (Hh3 : has x z3 = true) by (apply has_true_iff; rewrite (P3a x Hh2); now apply has_true_iff).
      exists c. split; [|intros c' Hc'; congruence].
      destruct (P4b x) as [->|[Hf _]]; [|congruence].
      destruct (P3b x) as [->|[Hf _]]; [congruence|congruence].
    + destruct P1a as [Hv1 _].
      destruct (P4b x) as [E4x|[_ [_ [v Hv]]]].
      * destruct (P3b x) as [E3x|[_ [_ [v Hv]]]].
        -- exists 0%float. split; [congruence|discriminate].
        -- exists v. split; [congruence|discriminate].
      * exists v. split; [exact Hv|discriminate].
Qed.

Lemma init_facts_ok p ts0 exo' :
  init p = Ok (ts0, exo') -> init_facts p ts0 exo' /\ all_finite_ts ts0 = true.
Proof.
  unfold init. destruct (init_passes p) as [[ts e']|] eqn:E; [|discriminate].
  destruct (all_finite_ts ts) eqn:Ef; intros H; inversion H; subst.
  split; [now apply init_passes_facts|exact Ef].
Qed.

(** a malformed specification is refused *)
Lemma init_rejects p :
  (exists x, In x (varlist p) /\ lookup x (p_ics p) = Some ICBad) \/
  (exists x s, In (x, s) (p_exo p) /\
     match exo_values (p_maxtime p) s with
     | Ok val => List.length val < S (p_maxtime p)
     | Err _ => True
     end) ->
  init p = Err ValueError.
Proof.
  intros Hbad. destruct (init p) as [[ts0 exo']|e] eqn:E.
  - exfalso. destruct (init_facts_ok _ _ _ E) as [F _].
    destruct Hbad as [[x [Hin Hb]]|[x [s [Hin Hb]]]].
    + exact (if_ic_good _ _ _ F x Hin Hb).
    + assert (Hin' : In (x, s) exo').
      { destruct (if_exo _ _ _ F) as [[_ ->]|[_ ->]]; [exact Hin|apply in_or_app; now left]. }
      destruct (if_exo_good _ _ _ F x s Hin') as [val [Hv Hl]]. rewrite Hv in Hb. lia.
  - now rewrite (init_err _ _ E).
Qed.
