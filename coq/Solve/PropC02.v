(** C02 — what the solver returns satisfies the submitted equations.
    Model: Init.v / Step.v / Run.v over IEEE doubles ([solve] = SolveEquation on a parser state,
    with the proposed fixes D02a, D02b/D11, D02c, D11b); Orig.v is the code before them. *)
From Coq Require Import List String Bool Arith Lia PrimFloat Floats Reals Lra.
From SFC.Base Require Import Res Str Sorting Expr.
From SFC.Solve Require Import Types Maps Init Step Run Orig InitProofs StepProofs RunProofs Ieee RealInstance Examples.
Import ListNotations.
Local Open Scope string_scope.

(** lagged, exogenous and decorative variables satisfy their equations exactly (bit for bit)
    on the reported row of every period *)
Theorem C02_exact_parts : forall p ts, solve p = Ok ts -> forall k, 1 <= k <= p_maxtime p ->
  (forall x src, In (x, src) (p_lagged p) -> exists v, row ts k x = Some v /\ row ts (k - 1) src = Some v) /\
  (NoDup (exo_names p) -> forall x s, In (x, s) (p_exo p) ->
     exists val, exo_values (p_maxtime p) s = Ok val /\ row ts k x = nth_error val k) /\
  (forall d rhs, In (d, rhs) (p_deco p) -> exists v, row ts k d = Some v /\ evalF (row ts k) rhs = Ok v).
Proof.
  intros p ts Hs k Hk. split; [|split].
  - intros x src Hin. now apply (solve_lag p ts Hs k x src).
  - intros Hnd x s Hin. apply (solve_exo_row p ts Hs Hnd k x s); [lia|exact Hin].
  - intros d rhs Hin. now apply (solve_deco p ts Hs k d rhs).
Qed.
Print Assumptions C02_exact_parts.

(** stop test: the reported endogenous values of every period come out of a sweep [u -> w]
    that had no evaluation error and whose error measure [r] is <= the tolerance, in particular
    a number; they are [w], or half-way between [w] and [u] once damping is on (sweep index
    m > 10); [u] carries the period's exogenous and lagged values.  (Tolerance below 1: with a
    tolerance >= 1 the Python loop is never entered.) *)
Theorem C02_stop_test : forall p ts, solve p = Ok ts -> keep_going 1%float (p_tol p) = true ->
  forall k, 1 <= k <= p_maxtime p ->
  exists u w r m,
    sweep p u = Ok (w, r, false) /\ PrimFloat.leb r (p_tol p) = true /\ is_nan r = false /\
    (forall x, In x (endo_names p) -> row ts k x = lookup x (next_env p u w m)) /\
    (forall x v, ~ In x (endo_names p) -> lookup x u = Some v -> row ts k x = Some v).
Proof.
  intros p ts Hs Htol k Hk.
  destruct (solve_stop_test p ts Hs Htol k Hk) as [u [w [r [m [H1 [H2 [H3 H4]]]]]]].
  exists u, w, r, m. repeat split; auto. eapply leb_true_not_nan; eauto.
Qed.
Print Assumptions C02_stop_test.

(** what a sweep without evaluation error computes: every equation evaluated on the OLD vector *)
Theorem C02_sweep_result : forall p u w r, sweep p u = Ok (w, r, false) -> NoDup (endo_names p) ->
  forall x e, In (x, e) (p_endo p) -> exists v, evalF (envf u) e = Ok v /\ lookup x w = Some v.
Proof. intros p u w r H Hnd x e Hin. unfold sweep in H. eapply sweep_eqs_vals; eauto. Qed.
Print Assumptions C02_sweep_result.

(** a period in which no sweep passed the stop test (error NaN or above the tolerance every
    time) is never reported as solved: the run ends in an error *)
Theorem C02_no_diverged_period : forall p, keep_going 1%float (p_tol p) = true ->
  forall tr, In tr (rr_traces (run p)) -> (forall r h, In (r, h) tr -> PrimFloat.leb r (p_tol p) = false) ->
  exists e, solve p = Err e.
Proof.
  intros p Htol tr Hin Hall. pose proof (run_no_diverged p Htol tr Hin Hall) as H.
  unfold solve. destruct (rr_err (run p)) as [e|]; [eauto|congruence].
Qed.
Print Assumptions C02_no_diverged_period.

(** every reported value is a finite number *)
Theorem C02_finite : forall p ts, solve p = Ok ts ->
  forall x l v, lookup x ts = Some l -> In v l -> is_finite v = true.
Proof. exact solve_finite. Qed.
Print Assumptions C02_finite.

(** exact-arithmetic instance (over R) of the same sweep: if the one-sweep map F is
    L-Lipschitz in the sup norm and the error measure of the accepted sweep u -> w = F u is
    <= tol, then at the reported vector v (= w, or (w+u)/2 when damped) every simultaneous
    equation holds with residual |F_i(v) - v_i| <= max L ((L+1)/2) * tol * max 1 M,
    M bounding the magnitudes of u and w.  The float/real gap (rounding inside F) is NOT closed. *)
Theorem C02_residual_R : forall (n : nat) (F : (nat -> R) -> nat -> R) (L tol M : R) (u : nat -> R) (damped : bool),
  (0 <= L)%R -> (0 <= tol)%R ->
  lipschitz n F L ->
  (forall i, (i < n)%nat -> (Rabs (u i) <= M)%R /\ (Rabs (F u i) <= M)%R) ->
  (errsumR n (F u) u <= tol)%R ->
  forall i, (i < n)%nat ->
    (Rabs (F (reportedR damped (F u) u) i - reportedR damped (F u) u i)
       <= Rmax L ((L + 1) / 2) * tol * Rmax 1 M)%R.
Proof. exact residual_R. Qed.
Print Assumptions C02_residual_R.

(* ---- satisfiable hypotheses *)
Example C02_example : exists ts v, solve ex1 = Ok ts /\ keep_going 1%float (p_tol ex1) = true /\
  NoDup (exo_names ex1) /\ row ts 2 "d" = Some v /\ evalF (row ts 2) (EMul (ENum 2%float) (EVar "x")) = Ok v /\
  PrimFloat.ltb 13%float v = true.
Proof.
  eexists. eexists. split; [vm_compute; reflexivity|]. split; [vm_compute; reflexivity|].
  split; [repeat constructor; simpl; tauto|]. split; [vm_compute; reflexivity|]. split; vm_compute; reflexivity.
Qed.
Print Assumptions C02_example.

Example C02_example_diverging : solve ex_overflow = Err ConvergenceError.
Proof. vm_compute. reflexivity. Qed.
Print Assumptions C02_example_diverging.

(* ---- the code before the fixes *)
(** D02a: x = x*x + 2 was "solved" with x = inf (a NaN error left the loop) *)
Theorem C02_orig_refuted : exists ts, solve_orig ex_overflow = Ok ts /\ row ts 1 "x" = Some infinity.
Proof. eexists. split; vm_compute; reflexivity. Qed.
Print Assumptions C02_orig_refuted.

(** D02b: x = 1e308*G, d = x*10: the decorative value inf was reported *)
Theorem C02_deco_orig_refuted : exists ts, solve_orig ex_deco_inf = Ok ts /\ row ts 1 "d" = Some infinity.
Proof. eexists. split; vm_compute; reflexivity. Qed.
Print Assumptions C02_deco_orig_refuted.
