(** The solver as it is WITHOUT the proposed fixes D02a, D02b/D11, D02c, D11b
    (/repo at 3c51ca0): kept for the [_orig_refuted] theorems and to tie the model to the
    unchanged tree as well. *)
From Coq Require Import List String Bool Arith PrimFloat.
From SFC.Base Require Import Res Str Expr.
From SFC.Solve Require Import Types Init Step Run.
Import ListNotations.

(** error measure: [difference / max(abs(new), abs(old))] can divide by zero (NaN / 0.0) *)
Definition measure_term_orig (nv ov : float) : result float :=
  let d := abs (nv - ov) in
  if ltb d small then Ok d
  else let sc := py_max (abs nv) (abs ov) in
       if is_zero sc then Err ZeroDiv else Ok (d / sc)%float.

Definition tolerated_orig (e : err) : bool :=
  match e with ZeroDiv | ValueError => true | _ => false end.

Definition eval_eq_orig (old : env) (x : string) (e : expr float) (had : bool) : result (float * bool) :=
  match evalF (envf old) e with
  | Ok v => Ok (v, had)
  | Err er => if tolerated_orig er then Ok (getv x old, true) else Err er
  end.

Fixpoint sweep_eqs_orig (endo : list (string * expr float)) (old new : env) (rel : float) (had : bool)
  : result (env * float * bool) :=
  match endo with
  | [] => Ok (new, rel, had)
  | (x, e) :: r =>
      match eval_eq_orig old x e had with
      | Err er => Err er
      | Ok (nv, had') =>
          match measure_term_orig nv (getv x old) with
          | Err er => Err er
          | Ok t => sweep_eqs_orig r old (set x nv new) (rel + t)%float had'
          end
      end
  end.

(** [while relative_error > err_toler]: a NaN error leaves the loop *)
Definition keep_going_orig (rel tol : float) : bool := ltb tol rel.

Fixpoint loop_orig (fuel : nat) (p : pstate) (cur : env) (rel : float) (had : bool) (n : nat)
         (tr : list (float * bool)) : loop_res :=
  if keep_going_orig rel (p_tol p) then
    match fuel with
    | 0 => mkLR cur tr n (Some OutOfFuel)
    | S f =>
        match sweep_eqs_orig (p_endo p) cur cur 0%float false with
        | Err e => mkLR cur tr (S n) (Some e)
        | Ok (new, rel', had') =>
            let new' := if Nat.ltb 10 n then damp (p_endo p) cur new else new in
            let tr' := tr ++ [(rel', had')] in
            if Nat.ltb (p_maxiter p) (S n)
            then mkLR new' tr' (S n) (Some (if had' then ValueError else ConvergenceError))
            else loop_orig f p new' rel' had' (S n) tr'
        end
    end
  else mkLR cur tr n (if had then Some ValueError else None).

(** decorative pass: values are appended as they are computed; only NameError is caught *)
Fixpoint deco_round_orig (todo : list (string * expr float)) (ini : env) (k : nat) (ts : tseries)
         (failed : list (string * expr float))
  : env * tseries * list (string * expr float) * option err :=
  match todo with
  | [] => (ini, ts, failed, None)
  | (x, e) :: r =>
      match lookup x ts with
      | None => (ini, ts, failed, Some KeyError)
      | Some l =>
          if Nat.eqb (List.length l) k then
            match evalF (envf ini) e with
            | Ok v => deco_round_orig r (set x v ini) k (set x (l ++ [v]) ts) failed
            | Err NameError => deco_round_orig r ini k ts (failed ++ [(x, e)])
            | Err er => (ini, ts, failed, Some er)
            end
          else (ini, ts, failed, Some OtherError)
      end
  end.

Fixpoint deco_pass_orig (fuel : nat) (todo : list (string * expr float)) (ini : env) (k : nat) (ts : tseries)
  : env * tseries * option err :=
  match todo with
  | [] => (ini, ts, None)
  | _ :: _ =>
      match fuel with
      | 0 => (ini, ts, Some OutOfFuel)
      | S f =>
          match deco_round_orig todo ini k ts [] with
          | (ini', ts', failed, Some e) => (ini', ts', Some e)
          | (ini', ts', failed, None) =>
              if Nat.eqb (List.length failed) (List.length todo) then (ini', ts', Some ValueError)
              else deco_pass_orig f failed ini' k ts'
          end
      end
  end.

Definition step_orig (p : pstate) (exo : list (string * exo_spec)) (k : nat) (ts : tseries) : step_res :=
  match start_env p exo ts k with
  | Err e => mkSR ts [] [] 0 (Some e)
  | Ok ini =>
      let lr := loop_orig (S (p_maxiter p)) p ini 1%float false 0 [] in
      match lr_err lr with
      | Some e => mkSR ts (lr_env lr) (lr_trace lr) (lr_sweeps lr) (Some e)
      | None =>
          match append_all (endo_names p ++ lag_names p)%list (lr_env lr) k ts with
          | (ts1, Some e) => mkSR ts1 (lr_env lr) (lr_trace lr) (lr_sweeps lr) (Some e)
          | (ts1, None) =>
              match deco_pass_orig (S (List.length (p_deco p))) (p_deco p) (lr_env lr) k ts1 with
              | (e', ts2, oe) => mkSR ts2 e' (lr_trace lr) (lr_sweeps lr) oe
              end
          end
      end
  end.

Fixpoint steps_orig (n : nat) (p : pstate) (exo : list (string * exo_spec)) (k : nat) (ts : tseries)
         (sw : list nat) (trs : list (list (float * bool))) : run_res :=
  match n with
  | 0 => mkRR ts sw trs None
  | S n' =>
      let r := step_orig p exo k ts in
      match sr_err r with
      | Some e => mkRR (sr_ts r) (sw ++ [sr_sweeps r]) (trs ++ [sr_trace r]) (Some e)
      | None => steps_orig n' p exo (S k) (sr_ts r) (sw ++ [sr_sweeps r]) (trs ++ [sr_trace r])
      end
  end.

Definition run_orig (p : pstate) : run_res :=
  match init_orig p with
  | Err e => mkRR [] [] [] (Some e)
  | Ok (ts0, exo') => steps_orig (p_maxtime p) p exo' 1 ts0 [] []
  end.

Definition solve_orig (p : pstate) : result tseries :=
  let r := run_orig p in match rr_err r with None => Ok (rr_ts r) | Some e => Err e end.
