(** Proofs about the code-generator model [Gen.v], part 1: error classes (no NameError on closed
    blocks, fuel is never exhausted), generic list / attribute lemmas. *)
From Coq Require Import List String Bool Arith PrimFloat Lia.
From SFC.Base Require Import Res Str Expr.
From SFC.Codegen Require Import Gen.
Import ListNotations.
Local Open Scope string_scope.

(* ------------------------------------------------------------------ *)
(** * result / mapM *)

Lemma bind_err {A B} (r : result A) (f : A -> result B) e :
  bind r f = Err e -> r = Err e \/ exists a, r = Ok a /\ f a = Err e.
Proof. destruct r as [a|e0]; simpl; intros H; [right; eauto | left; injection H as <-; reflexivity]. Qed.

Lemma bind_ok {A B} (r : result A) (f : A -> result B) b :
  bind r f = Ok b -> exists a, r = Ok a /\ f a = Ok b.
Proof. destruct r as [a|e0]; simpl; intros H; [eauto | discriminate]. Qed.

Lemma mapM_err {A B} (f : A -> result B) l e :
  mapM f l = Err e -> exists a, List.In a l /\ f a = Err e.
Proof.
  induction l as [|a l IH]; simpl; intros H; [discriminate|].
  apply bind_err in H. destruct H as [H|[x [Hx H]]]; [exists a; auto|].
  apply bind_err in H. destruct H as [H|[xs [Hxs H]]]; [|discriminate].
  destruct (IH H) as [a' [Hin Ha]]. exists a'; auto.
Qed.

Lemma mapM_ok {A B} (f : A -> result B) l r :
  mapM f l = Ok r -> Forall2 (fun a x => f a = Ok x) l r.
Proof.
  revert r. induction l as [|a l IH]; simpl; intros r H.
  - injection H as <-. constructor.
  - apply bind_ok in H. destruct H as [x [Hx H]]. apply bind_ok in H. destruct H as [xs [Hxs H]].
    injection H as <-. constructor; auto.
Qed.

Lemma mapM_length {A B} (f : A -> result B) l r : mapM f l = Ok r -> List.length r = List.length l.
Proof. intros H. apply mapM_ok in H. induction H; simpl; congruence. Qed.

Lemma mapM_app {A B} (f : A -> result B) l1 l2 :
  mapM f (l1 ++ l2) = do x <- mapM f l1;; do y <- mapM f l2;; Ok (x ++ y)%list.
Proof.
  induction l1 as [|a l1 IH]; simpl.
  - destruct (mapM f l2); reflexivity.
  - destruct (f a); simpl; [|reflexivity]. rewrite IH.
    destruct (mapM f l1); simpl; [|reflexivity]. destruct (mapM f l2); reflexivity.
Qed.

Lemma mapM_ext {A B} (f g : A -> result B) l :
  (forall a, List.In a l -> f a = g a) -> mapM f l = mapM g l.
Proof.
  induction l as [|a l IH]; simpl; intros H; [reflexivity|].
  rewrite (H a) by auto. rewrite IH by auto. reflexivity.
Qed.

Lemma mapM_map {A B C} (f : B -> result C) (g : A -> B) l : mapM f (map g l) = mapM (fun a => f (g a)) l.
Proof. induction l as [|a l IH]; simpl; [reflexivity|]. rewrite IH. reflexivity. Qed.

(* ------------------------------------------------------------------ *)
(** * evalF error classes *)

Lemma evalF_errs env e x : evalF env e = Err x -> x = NameError \/ x = ZeroDiv \/ x = ValueError.
Proof.
  induction e; simpl; intros H.
  - discriminate.
  - destruct (env s); [discriminate|]. injection H as <-. auto.
  - apply bind_err in H. destruct H as [H|[a [_ H]]]; [auto|discriminate].
  - auto.
  - apply bind_err in H. destruct H as [H|[a [_ H]]]; [auto|].
    apply bind_err in H. destruct H as [H|[b [_ H]]]; [auto|discriminate].
  - apply bind_err in H. destruct H as [H|[a [_ H]]]; [auto|].
    apply bind_err in H. destruct H as [H|[b [_ H]]]; [auto|discriminate].
  - apply bind_err in H. destruct H as [H|[a [_ H]]]; [auto|].
    apply bind_err in H. destruct H as [H|[b [_ H]]]; [auto|discriminate].
  - apply bind_err in H. destruct H as [H|[a [_ H]]]; [auto|].
    apply bind_err in H. destruct H as [H|[b [_ H]]]; [auto|].
    destruct (is_zero b); [|discriminate]. injection H as <-. auto.
  - apply bind_err in H. destruct H as [H|[a [_ H]]]; [auto|].
    destruct f; simpl in H; try discriminate.
    destruct (PrimFloat.ltb a 0); [|discriminate]. injection H as <-. auto.
  - apply bind_err in H. destruct H as [H|[a [_ H]]]; [auto|].
    apply bind_err in H. destruct H as [H|[b [_ H]]]; [auto|discriminate].
Qed.

Lemma evalF_NameError env e :
  evalF env e = Err NameError -> exists x, List.In x (names e) /\ env x = None.
Proof.
  induction e; simpl; intros H.
  - discriminate.
  - destruct (env s) eqn:E; [discriminate|]. exists s; auto.
  - apply bind_err in H. destruct H as [H|[a [_ H]]]; [auto|discriminate].
  - auto.
  - apply bind_err in H. destruct H as [H|[a [_ H]]].
    + destruct (IHe1 H) as [x [Hx Hn]]. exists x; split; [apply in_or_app; auto|auto].
    + apply bind_err in H. destruct H as [H|[b [_ H]]]; [|discriminate].
      destruct (IHe2 H) as [x [Hx Hn]]. exists x; split; [apply in_or_app; auto|auto].
  - apply bind_err in H. destruct H as [H|[a [_ H]]].
    + destruct (IHe1 H) as [x [Hx Hn]]. exists x; split; [apply in_or_app; auto|auto].
    + apply bind_err in H. destruct H as [H|[b [_ H]]]; [|discriminate].
      destruct (IHe2 H) as [x [Hx Hn]]. exists x; split; [apply in_or_app; auto|auto].
  - apply bind_err in H. destruct H as [H|[a [_ H]]].
    + destruct (IHe1 H) as [x [Hx Hn]]. exists x; split; [apply in_or_app; auto|auto].
    + apply bind_err in H. destruct H as [H|[b [_ H]]]; [|discriminate].
      destruct (IHe2 H) as [x [Hx Hn]]. exists x; split; [apply in_or_app; auto|auto].
  - apply bind_err in H. destruct H as [H|[a [_ H]]].
    + destruct (IHe1 H) as [x [Hx Hn]]. exists x; split; [apply in_or_app; auto|auto].
    + apply bind_err in H. destruct H as [H|[b [_ H]]].
      * destruct (IHe2 H) as [x [Hx Hn]]. exists x; split; [apply in_or_app; auto|auto].
      * destruct (is_zero b); discriminate.
  - apply bind_err in H. destruct H as [H|[a [_ H]]]; [auto|].
    destruct f; simpl in H; try discriminate. destruct (PrimFloat.ltb a 0); discriminate.
  - apply bind_err in H. destruct H as [H|[a [_ H]]].
    + destruct (IHe1 H) as [x [Hx Hn]]. exists x; split; [apply in_or_app; auto|auto].
    + apply bind_err in H. destruct H as [H|[b [_ H]]]; [|discriminate].
      destruct (IHe2 H) as [x [Hx Hn]]. exists x; split; [apply in_or_app; auto|auto].
Qed.

(* ------------------------------------------------------------------ *)
(** * lookup / get *)

Lemma lookup_In x v (l : list (string * float)) : List.In (x, v) l -> lookup x l <> None.
Proof.
  induction l as [|[b y] l IH]; simpl; intros H; [contradiction|].
  destruct (String.eqb x b) eqn:E; [discriminate|].
  destruct H as [H|H]; [|auto]. injection H as -> ->. rewrite String.eqb_refl in E. discriminate.
Qed.

Lemma lookup_In_NoDup x v (l t : list (string * float)) :
  NoDup (map fst l) -> List.In (x, v) l -> lookup x (l ++ t) = Some v.
Proof.
  induction l as [|[b y] l IH]; simpl; intros Hnd H; [contradiction|].
  inversion Hnd as [|? ? Hni Hnd']; subst.
  destruct H as [H|H].
  - injection H as -> ->. now rewrite String.eqb_refl.
  - destruct (String.eqb x b) eqn:E; [|auto].
    apply String.eqb_eq in E. subst b. exfalso. apply Hni. apply (in_map fst) in H. exact H.
Qed.

Lemma lookup_notin x (l t : list (string * float)) :
  ~ List.In x (map fst l) -> lookup x (l ++ t) = lookup x t.
Proof.
  induction l as [|[b y] l IH]; simpl; intros H; [reflexivity|].
  destruct (String.eqb x b) eqn:E.
  - apply String.eqb_eq in E. subst. exfalso. auto.
  - apply IH. auto.
Qed.

Lemma combine_In_exists {A B} (x : A) (l : list A) (r : list B) :
  List.In x l -> List.length l <= List.length r -> exists v, List.In (x, v) (combine l r).
Proof.
  revert r. induction l as [|a l IH]; simpl; intros r H Hl; [contradiction|].
  destruct r as [|b r]; simpl in Hl; [lia|].
  destruct H as [H|H]; [subst; exists b; simpl; auto|].
  destruct (IH r H) as [v Hv]; [lia|]. exists v; simpl; auto.
Qed.

Lemma map_fst_combine {A B} (l : list A) (r : list B) :
  List.length l = List.length r -> map fst (combine l r) = l.
Proof.
  revert r. induction l as [|a l IH]; intros [|b r] H; simpl in *; try reflexivity; try discriminate.
  f_equal. apply IH. lia.
Qed.

Lemma lookup_env_of_bound x vars vals :
  List.In x vars -> List.length vars <= List.length vals -> lookup x (env_of vars vals) <> None.
Proof.
  intros H Hl. destruct (combine_In_exists x vars vals H Hl) as [v Hv].
  unfold env_of. eapply lookup_In. apply -> in_rev. exact Hv.
Qed.

Lemma lookup_cons_bound y k (v : float) env : lookup y env <> None -> lookup y ((k, v) :: env) <> None.
Proof. intros H. cbn [lookup]. destruct (String.eqb y k); [discriminate|exact H]. Qed.

(* ------------------------------------------------------------------ *)
(** * No NameError *)

Definition closed (p : gprog) : Prop :=
  forall e, List.In e (g_eqs p) -> forall x, List.In x (names e) -> List.In x (g_vars p).

Lemma sweep_eqs_noNE es : forall vs env,
  (forall e, List.In e es -> forall x, List.In x (names e) -> lookup x env <> None) ->
  sweep_eqs env vs es <> Err NameError.
Proof.
  induction es as [|e es IH]; intros vs env Hb.
  - destruct vs; simpl; discriminate.
  - destruct vs as [|v vs]; simpl; [discriminate|].
    destruct (evalF (fun n => lookup n env) e) as [x|er] eqn:E; simpl.
    + apply IH. intros e' He' y Hy. apply lookup_cons_bound. apply (Hb e'); simpl; auto.
    + intros H. injection H as ->. apply evalF_NameError in E. destruct E as [y [Hy Hn]].
      apply (Hb e (or_introl eq_refl) y Hy). exact Hn.
Qed.

Lemma sweep_length p u v : sweep p u = Ok v -> List.length v = List.length (g_vars p).
Proof.
  unfold sweep. intros H. apply bind_ok in H. destruct H as [env [_ H]]. injection H as <-.
  apply map_length.
Qed.

Lemma sweep_noNE p u : closed p -> List.length u = List.length (g_vars p) -> sweep p u <> Err NameError.
Proof.
  intros Hc Hl H. unfold sweep in H. apply bind_err in H. destruct H as [H|[env [_ H]]]; [|discriminate].
  revert H. apply sweep_eqs_noNE. intros e He x Hx. apply lookup_env_of_bound; [eapply Hc; eauto|lia].
Qed.

Lemma sweep_eqs_errs es : forall vs env x,
  sweep_eqs env vs es = Err x -> x = NameError \/ x = ZeroDiv \/ x = ValueError.
Proof.
  induction es as [|e es IH]; intros vs env x H.
  - destruct vs; discriminate.
  - destruct vs as [|v vs]; [discriminate|]. simpl in H.
    apply bind_err in H. destruct H as [H|[y [_ H]]]; [eapply evalF_errs; eauto|eapply IH; eauto].
Qed.

Lemma sweep_errs p u x : sweep p u = Err x -> x = NameError \/ x = ZeroDiv \/ x = ValueError.
Proof.
  unfold sweep. intros H. apply bind_err in H. destruct H as [H|[env [_ H]]]; [|discriminate].
  eapply sweep_eqs_errs; eauto.
Qed.

Lemma iterate_length nf p fuel : forall cnt err u v,
  List.length u = List.length (g_vars p) -> iterate nf p fuel cnt err u = Ok v ->
  List.length v = List.length (g_vars p).
Proof.
  induction fuel as [|f IH]; intros cnt err u v Hl H; simpl in H.
  - destruct (continue_ nf p err); [discriminate|]. injection H as <-. exact Hl.
  - destruct (continue_ nf p err); [|injection H as <-; exact Hl].
    apply bind_ok in H. destruct H as [w [Hw H]].
    destruct (Nat.ltb (g_maxiter p) (S cnt)); [discriminate|].
    eapply IH; [|exact H]. eapply sweep_length; eauto.
Qed.

Lemma iterate_noNE nf p fuel : forall cnt err u,
  closed p -> List.length u = List.length (g_vars p) -> iterate nf p fuel cnt err u <> Err NameError.
Proof.
  induction fuel as [|f IH]; intros cnt err u Hc Hl; simpl.
  - destruct (continue_ nf p err); discriminate.
  - destruct (continue_ nf p err); [|discriminate].
    destruct (sweep p u) as [w|er] eqn:E; simpl.
    + destruct (Nat.ltb (g_maxiter p) (S cnt)); [discriminate|].
      apply IH; [exact Hc|]. eapply sweep_length; eauto.
    + intros H. injection H as ->. revert E. apply sweep_noNE; assumption.
Qed.

(** fuel [MaxIterations + 2] is never exhausted *)
Lemma iterate_fuel nf p fuel : forall cnt err u,
  fuel + cnt = g_maxiter p + 2 -> cnt <= g_maxiter p -> iterate nf p fuel cnt err u <> Err OutOfFuel.
Proof.
  induction fuel as [|f IH]; intros cnt err u Hf Hc; simpl.
  - lia.
  - destruct (continue_ nf p err); [|discriminate].
    destruct (sweep p u) as [w|er] eqn:E; simpl.
    + destruct (Nat.ltb (g_maxiter p) (S cnt)) eqn:L; [discriminate|].
      apply Nat.ltb_ge in L. apply IH; lia.
    + intros H. injection H as ->. apply sweep_errs in E. destruct E as [E|[E|E]]; discriminate.
Qed.

Lemma pack_endo_errs st v e : pack_endo st v = Err e -> e = OtherError \/ e = IndexError.
Proof.
  unfold pack_endo. destruct (get v st) as [l|]; [|intros H; injection H as <-; auto].
  destruct (nth_error l (List.length l - 1)); [discriminate|]. intros H; injection H as <-; auto.
Qed.

Lemma pack_at_errs st i v e : pack_at st i v = Err e -> e = OtherError \/ e = IndexError.
Proof.
  unfold pack_at. destruct (get v st) as [l|]; [|intros H; injection H as <-; auto].
  destruct (nth_error l i); [discriminate|]. intros H; injection H as <-; auto.
Qed.

Lemma pack_errs p st step e : pack p st step = Err e -> e = OtherError \/ e = IndexError.
Proof.
  unfold pack. intros H.
  apply bind_err in H. destruct H as [H|[a [_ H]]].
  { apply mapM_err in H. destruct H as [v [_ H]]. eapply pack_endo_errs; eauto. }
  apply bind_err in H. destruct H as [H|[b [_ H]]].
  { apply mapM_err in H. destruct H as [v [_ H]]. eapply pack_at_errs; eauto. }
  apply bind_err in H. destruct H as [H|[c [_ H]]]; [|discriminate].
  apply mapM_err in H. destruct H as [v [_ H]]. eapply pack_at_errs; eauto.
Qed.

Lemma by_name_length vars vals : List.length (by_name vars vals) = List.length vars.
Proof. unfold by_name. apply map_length. Qed.

Lemma pack_length p st step pk : pack p st step = Ok pk -> List.length pk = List.length (g_vars p).
Proof.
  unfold pack. intros H.
  apply bind_ok in H. destruct H as [a [_ H]]. apply bind_ok in H. destruct H as [b [_ H]].
  apply bind_ok in H. destruct H as [c [_ H]]. injection H as <-. apply by_name_length.
Qed.

Definition bad_err (e : err) : Prop := e = NameError \/ e = OutOfFuel.

Lemma one_step_good nf p st step e :
  closed p -> one_step nf p st step = Err e -> e <> NameError /\ e <> OutOfFuel.
Proof.
  intros Hc H. unfold one_step in H.
  apply bind_err in H. destruct H as [H|[pk [Hpk H]]].
  { apply pack_errs in H. destruct H as [-> | ->]; split; discriminate. }
  apply bind_err in H. destruct H as [H|[vk [_ H]]]; [|discriminate].
  split; intros ->.
  - revert H. apply iterate_noNE; [exact Hc|]. eapply pack_length; eauto.
  - revert H. apply iterate_fuel; lia.
Qed.

Lemma steps_good nf p n : forall step st e,
  closed p -> steps nf p n step st = Err e -> e <> NameError /\ e <> OutOfFuel.
Proof.
  induction n as [|n IH]; intros step st e Hc H; simpl in H; [discriminate|].
  apply bind_err in H. destruct H as [H|[r [_ H]]]; [eapply one_step_good; eauto|].
  apply bind_err in H. destruct H as [H|[r' [_ H]]]; [eapply IH; eauto|discriminate].
Qed.

Theorem run_good nf p e :
  closed p -> (forall e', g_init p = Err e' -> e' = TypeError) ->
  run_v nf p = Err e -> e <> NameError /\ e <> OutOfFuel.
Proof.
  intros Hc Hi H. unfold run_v, run_trace in H.
  apply bind_err in H. destruct H as [H|[r [_ H]]]; [|discriminate].
  apply bind_err in H. destruct H as [H|[st0 [_ H]]].
  - rewrite (Hi _ H). split; discriminate.
  - eapply steps_good; eauto.
Qed.

(* ------------------------------------------------------------------ *)
(** * The generator produces closed programs from closed blocks *)

Definition closed_block (b : block) : Prop :=
  forall e, List.In e (endo_rhs b) -> forall x, List.In x (names e) -> List.In x (var_names b) \/ x = "k".

Lemma gen_of_vars b : g_vars (gen_of b) = var_names b.
Proof. reflexivity. Qed.

Lemma init_errs b e : init b = Err e -> e = TypeError.
Proof. unfold init. destruct (scalar_visible (b_exo b)); [intros H; injection H as <-; reflexivity|discriminate]. Qed.

Lemma closed_gen_of b :
  (forall e, List.In e (endo_rhs b) -> forall x, List.In x (names e) -> List.In x (var_names b)) ->
  closed (gen_of b).
Proof.
  intros H e He x Hx. rewrite gen_of_vars. simpl in He.
  apply in_app_or in He. destruct He as [He|He]; [eapply H; eauto|].
  unfold var_names. apply in_app_or in He. destruct He as [He|He]; apply in_map_iff in He;
    destruct He as [v [<- Hv]]; simpl in Hx; destruct Hx as [<-|[]]; apply in_or_app; right; apply in_or_app; auto.
Qed.

Lemma existsb_mem_k (l : list (expr float)) e :
  List.In e l -> List.In "k" (names e) -> existsb (fun e => mem "k" (names e)) l = true.
Proof. intros He Hk. apply existsb_exists. exists e. split; [exact He|]. apply mem_In. exact Hk. Qed.

Theorem closed_gen b : closed_block b -> closed (gen b).
Proof.
  intros Hc. unfold gen, define_step.
  destruct (mem "k" (var_names b)) eqn:Ek.
  - apply closed_gen_of. intros e He x Hx. destruct (Hc e He x Hx) as [H| ->]; [exact H|]. now apply mem_In.
  - destruct (uses_k b) eqn:Eu.
    + apply closed_gen_of. unfold var_names, endo_names, lag_names, exo_names, endo_rhs; simpl.
      intros e He x Hx. destruct (Hc e He x Hx) as [H| ->].
      * unfold var_names in H. apply in_app_or in H. destruct H as [H|H]; [apply in_or_app; auto|].
        apply in_app_or in H. destruct H as [H|H]; apply in_or_app; right; apply in_or_app; [auto|].
        right. rewrite map_app. apply in_or_app. auto.
      * apply in_or_app; right; apply in_or_app; right. rewrite map_app. apply in_or_app. right. simpl. auto.
    + apply closed_gen_of. intros e He x Hx. destruct (Hc e He x Hx) as [H| ->]; [exact H|].
      exfalso. unfold uses_k in Eu. apply orb_false_iff in Eu. destruct Eu as [_ Eu].
      rewrite (existsb_mem_k _ e He Hx) in Eu. discriminate.
Qed.

Theorem runs_no_NameError nf b : closed_block b -> run_v nf (gen b) <> Err NameError.
Proof.
  intros Hc H. apply (run_good nf (gen b) NameError) in H; [destruct H as [H _]; auto|apply closed_gen; exact Hc|].
  intros e'. unfold gen, gen_of; simpl. apply init_errs.
Qed.

Theorem runs_no_OutOfFuel nf b : closed_block b -> run_v nf (gen b) <> Err OutOfFuel.
Proof.
  intros Hc H. apply (run_good nf (gen b) OutOfFuel) in H; [destruct H as [_ H]; auto|apply closed_gen; exact Hc|].
  intros e'. unfold gen, gen_of; simpl. apply init_errs.
Qed.
