(** Exact-arithmetic (real-number) instance: two stopping rules on a contracting sweep map report
    rows that are close to each other and to the unique fixed point.

    [sweepR] is the real-number reading of the generated [Iterator]: every equation of the
    program evaluated in the environment of the current vector ([Base/Expr.evalR], literals
    interpreted by an arbitrary [lit]).  The distance is the absolute error sum [CalcError]
    computes. *)
From Coq Require Import List String Reals Lra PrimFloat.
From SFC.Base Require Import Res Expr.
From SFC.Codegen Require Import Gen.
Import ListNotations.
Local Open Scope R_scope.

Definition dist1 (u v : list R) : R :=
  fold_right Rplus 0 (map (fun q => Rabs (fst q - snd q)) (combine u v)).

Lemma dist1_nonneg u v : 0 <= dist1 u v.
Proof.
  unfold dist1. induction (combine u v) as [|q l IH]; simpl; [lra|].
  pose proof (Rabs_pos (fst q - snd q)). lra.
Qed.

Lemma dist1_sym u : forall v, dist1 u v = dist1 v u.
Proof.
  unfold dist1. induction u as [|a u IH]; intros [|b v]; simpl; try reflexivity.
  rewrite IH. f_equal. apply Rabs_minus_sym.
Qed.

Lemma dist1_tri u : forall v w,
  List.length u = List.length v -> List.length v = List.length w ->
  dist1 u w <= dist1 u v + dist1 v w.
Proof.
  unfold dist1. induction u as [|a u IH]; intros [|b v] [|c w] H1 H2; simpl in *; try discriminate; try lra.
  injection H1 as H1. injection H2 as H2. specialize (IH v w H1 H2).
  replace (a - c) with ((a - b) + (b - c)) by ring.
  pose proof (Rabs_triang (a - b) (b - c)). lra.
Qed.

Section Contraction.
Variable F : list R -> list R.
Variable S : list R -> Prop.            (** the vectors with the period's lagged / exogenous components *)
Variable n : nat.
Variable q : R.
Hypothesis Hq : 0 <= q < 1.
Hypothesis Slen : forall x, S x -> List.length x = n.
Hypothesis Sclosed : forall x, S x -> S (F x).
Hypothesis contr : forall x y, S x -> S y -> dist1 (F x) (F y) <= q * dist1 x y.

(** two vectors with small residuals are close *)
Theorem small_residuals_close a b ea eb :
  S a -> S b -> dist1 a (F a) <= ea -> dist1 b (F b) <= eb -> dist1 a b <= (ea + eb) / (1 - q).
Proof.
  intros Sa Sb Ha Hb.
  pose proof (Slen a Sa) as La. pose proof (Slen b Sb) as Lb.
  pose proof (Slen _ (Sclosed a Sa)) as LFa. pose proof (Slen _ (Sclosed b Sb)) as LFb.
  pose proof (dist1_tri a (F a) b) as T1. pose proof (dist1_tri (F a) (F b) b) as T2.
  pose proof (contr a b Sa Sb) as C. rewrite (dist1_sym (F b) b) in T2.
  assert (H : (1 - q) * dist1 a b <= ea + eb).
  { specialize (T1 ltac:(congruence) ltac:(congruence)). specialize (T2 ltac:(congruence) ltac:(congruence)). lra. }
  apply Rmult_le_reg_l with (r := 1 - q); [lra|].
  replace ((1 - q) * ((ea + eb) / (1 - q))) with (ea + eb) by (field; lra). exact H.
Qed.

(** the residual of a swept vector is at most [q] times the change of that sweep *)
Lemma residual_after_sweep u : S u -> dist1 (F u) (F (F u)) <= q * dist1 u (F u).
Proof. intros Su. apply contr; auto. Qed.

(** the row reported by the generated module ([F u] with error sum [<= tol]) against any row [b]
    with residual [<= eb] (what the in-process solver's stop test gives for its reported row) *)
Theorem reported_rows_agree u b tol eb :
  S u -> S b -> dist1 u (F u) <= tol -> dist1 b (F b) <= eb ->
  dist1 (F u) b <= (q * tol + eb) / (1 - q).
Proof.
  intros Su Sb Hu Hb. apply small_residuals_close; auto.
  pose proof (residual_after_sweep u Su) as H. pose proof (dist1_nonneg u (F u)).
  assert (q * dist1 u (F u) <= q * tol) by (apply Rmult_le_compat_l; lra). lra.
Qed.

(** distance to a fixed point, and uniqueness *)
Corollary reported_row_near_fixed_point u x tol :
  S u -> S x -> F x = x -> dist1 u (F u) <= tol -> dist1 (F u) x <= q * tol / (1 - q).
Proof.
  intros Su Sx Hx Hu. pose proof (reported_rows_agree u x tol 0 Su Sx Hu) as H.
  rewrite Hx in H. replace (q * tol / (1 - q)) with ((q * tol + 0) / (1 - q)) by (field; lra).
  apply H. unfold dist1. clear. induction x as [|a x IH]; simpl; [lra|].
  replace (a - a) with 0 by ring. rewrite Rabs_R0. lra.
Qed.

End Contraction.

(** The real-number sweep of a generated program. *)
Fixpoint lookupR (a : string) (env : list (string * R)) : R :=
  match env with
  | [] => 0
  | (b, x) :: r => if String.eqb a b then x else lookupR a r
  end.

Definition sweepR (lit : float -> R) (p : gprog) (u : list R) : list R :=
  map (evalR lit (fun n => lookupR n (combine (g_vars p) u))) (g_eqs p).

Theorem agrees (lit : float -> R) (p : gprog) (S : list R -> Prop) (n : nat) (q tol eb : R) (u b : list R) :
  0 <= q < 1 ->
  (forall x, S x -> List.length x = n) -> (forall x, S x -> S (sweepR lit p x)) ->
  (forall x y, S x -> S y -> dist1 (sweepR lit p x) (sweepR lit p y) <= q * dist1 x y) ->
  S u -> S b -> dist1 u (sweepR lit p u) <= tol -> dist1 b (sweepR lit p b) <= eb ->
  dist1 (sweepR lit p u) b <= (q * tol + eb) / (1 - q).
Proof. intros. eapply reported_rows_agree; eauto. Qed.
