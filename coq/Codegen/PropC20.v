(** C20 — The generated stand-alone solver agrees with the in-process solver.
    Property theorems only; proofs are in GenProofs.v (error classes), GenSat.v (what a run
    reports), Agree.v (real-number agreement), Table.v (header).  Model: Gen.v
    ([gen] = data flow of IterativeMachineGenerator, [run] = semantics of the emitted template). *)
From Coq Require Import List String Bool Arith PrimFloat Reals Permutation.
From SFC.Base Require Import Res Str Expr.
From SFC.Out Require Import Csv.
From SFC.Codegen Require Import Gen GenProofs GenSat Agree Table.
Import ListNotations.
Local Open Scope string_scope.

(** For every block whose equations mention only variables of the block and the step number k
    (a "closed" block in the equation language), the generated module never dies with a
    NameError.  (Since the D20 fix the generator supplies k itself.) *)
Theorem C20_runs : forall b : block,
  closed_block b -> run (gen b) <> Err NameError.
Proof. exact (runs_no_NameError true). Qed.
Print Assumptions C20_runs.

(** The model's fuel is never exhausted: [OutOfFuel] is not an outcome. *)
Theorem C20_fuel : forall b : block,
  closed_block b -> run (gen b) <> Err OutOfFuel.
Proof. exact (runs_no_OutOfFuel true). Qed.
Print Assumptions C20_fuel.

(** If every lag source is a stored (endogenous or exogenous) variable, the generated module
    never dies with an AttributeError (class [OtherError] in the model).  The hypothesis
    excludes the recorded finding D20b (a lag of a lagged variable). *)
Theorem C20_no_attribute_error : forall b : block,
  lag_sources_stored b -> run (gen b) <> Err OtherError.
Proof. exact (no_attribute_error true). Qed.
Print Assumptions C20_no_attribute_error.

(** A successful run, period by period ([period_ok] is spelled out in GenSat.v): the lagged
    components were packed from the module's own row k-1, the exogenous ones are the supplied
    paths at k (exactly), and the reported endogenous row is one sweep [F u] of a vector [u] with
    those same components whose absolute error sum [CalcError u (F u)] is [<= Err_Tolerance]
    (or no sweep was needed because [1. <= Err_Tolerance]).
    Hypotheses: every variable is defined once, no equation refers to a [NEW_x] local of the
    generated [Iterator]. *)
Theorem C20_satisfies : forall (b : block) (fin : attrs),
  NoDup (var_names b) -> no_new_refs (gen b) -> run (gen b) = Ok fin ->
  (forall x l, List.In (x, ExList l) (b_exo (define_step b)) ->
               get x fin = Some (firstn (S (b_maxtime b)) l)) /\
  forall k, 1 <= k <= b_maxtime b ->
  exists A B C A' : list float,
    List.length A = List.length (g_endo (gen b)) /\ List.length A' = List.length (g_endo (gen b)) /\
    Forall2 (fun q x => exists l, get (snd q) fin = Some l /\ nth_error l (k - 1) = Some x) (g_lagged (gen b)) B /\
    Forall2 (fun v x => exists l, get v fin = Some l /\ nth_error l k = Some x) (g_exo (gen b)) C /\
    Forall2 (fun v x => exists l, get v fin = Some l /\ nth_error l k = Some x) (g_endo (gen b)) A' /\
    ((A' = A /\ PrimFloat.leb 1 (g_tol (gen b)) = true) \/
     exists A0, List.length A0 = List.length (g_endo (gen b)) /\
                sweep (gen b) (A0 ++ B ++ C) = Ok (A' ++ B ++ C)%list /\
                PrimFloat.leb (calc_error (A0 ++ B ++ C) (A' ++ B ++ C)) (g_tol (gen b)) = true).
Proof. exact satisfies. Qed.
Print Assumptions C20_satisfies.

(** On success every endogenous attribute has MaxTime+1 entries. *)
Theorem C20_lengths : forall (b : block) (fin : attrs),
  NoDup (var_names b) -> run (gen b) = Ok fin ->
  forall v, List.In v (endo_names b) -> exists l, get v fin = Some l /\ List.length l = S (b_maxtime b).
Proof. exact (lengths true). Qed.
Print Assumptions C20_lengths.

(** Exact-arithmetic instance: if the real-number sweep map of the program is a contraction
    with factor q < 1 (in the error-sum distance, on the set S of vectors carrying the period's
    lagged and exogenous components), the row the generated module reports ([sweepR u] with
    error sum <= tol) and any row b whose residual is <= eb (what the in-process solver's stop
    test yields for its reported row) differ by at most (q*tol + eb)/(1-q). *)
Theorem C20_agrees : forall (lit : float -> R) (p : gprog) (S : list R -> Prop) (n : nat) (q tol eb : R) (u b : list R),
  (0 <= q < 1)%R ->
  (forall x, S x -> List.length x = n) -> (forall x, S x -> S (sweepR lit p x)) ->
  (forall x y, S x -> S y -> (dist1 (sweepR lit p x) (sweepR lit p y) <= q * dist1 x y)%R) ->
  S u -> S b -> (dist1 u (sweepR lit p u) <= tol)%R -> (dist1 b (sweepR lit p b) <= eb)%R ->
  (dist1 (sweepR lit p u) b <= (q * tol + eb) / (1 - q))%R.
Proof. exact agrees. Qed.
Print Assumptions C20_agrees.

(** ... and the reported row is within q*tol/(1-q) of the fixed point of the sweep map. *)
Theorem C20_near_fixed_point : forall (F : list R -> list R) (S : list R -> Prop) (n : nat) (q : R),
  (0 <= q < 1)%R ->
  (forall x, S x -> List.length x = n) -> (forall x, S x -> S (F x)) ->
  (forall x y, S x -> S y -> (dist1 (F x) (F y) <= q * dist1 x y)%R) ->
  forall u x tol, S u -> S x -> F x = x -> (dist1 u (F u) <= tol)%R ->
  (dist1 (F u) x <= q * tol / (1 - q))%R.
Proof. exact reported_row_near_fixed_point. Qed.
Print Assumptions C20_near_fixed_point.

(** The table: the header of [CreateCsvString] on the module's variable list is a permutation
    of the non-lagged variables, lists each once when each is defined once, starts with [t] when
    [t] is a variable, is the first line of the text, and the call is repeatable. *)
Theorem C20_table : forall (b : block) (cells : list (string * list string)),
  let vl := g_nonlagged (gen b) in
  Permutation vl (reorder vl) /\
  (NoDup vl -> NoDup (reorder vl)) /\
  (List.In "t" vl -> exists rest, reorder vl = "t" :: rest) /\
  (forall text, fst (create_csv vl cells) = Ok text -> exists body, text = (line (reorder vl) ++ body)%string) /\
  snd (create_csv vl cells) = vl /\
  fst (create_csv (snd (create_csv vl cells)) cells) = fst (create_csv vl cells).
Proof. intros b cells. exact (table_header (g_nonlagged (gen b)) cells). Qed.
Print Assumptions C20_table.

(* ------------------------------------------------------------------ *)
(** Non-vacuity: the witness of D20 (DESIGN.md section 7), with its default time axis. *)

Definition ex_block : block :=
  mkBlock [("x", EAdd (EMul (ENum 0.5%float) (EVar "LAG_x")) (EVar "G"), None);
           ("t", EVar "k", None)]
          [("LAG_x", "x")]
          [("G", ExList [1%float; 2%float; 3%float; 4%float])]
          [] 3 1e-8%float 400.

Example C20_example_hypotheses :
  closed_block ex_block /\ NoDup (var_names ex_block) /\ no_new_refs (gen ex_block) /\ lag_sources_stored ex_block.
Proof.
  split; [apply closed_block_b_sound; vm_compute; reflexivity|].
  split; [apply nodup_b_sound; vm_compute; reflexivity|].
  split; [apply no_new_refs_b_sound; vm_compute; reflexivity|].
  apply lag_sources_stored_b_sound; vm_compute; reflexivity.
Qed.
Print Assumptions C20_example_hypotheses.

(** x, t, G and the added k, as the generated module reports them *)
Example C20_example_run :
  g_nonlagged (gen ex_block) = ["x"; "t"; "G"; "k"] /\
  observe (gen ex_block) (run (gen ex_block)) =
  Ok [[0%float; 2%float; 4%float; 6%float]; [0%float; 1%float; 2%float; 3%float];
      [1%float; 2%float; 3%float; 4%float]; [0%float; 1%float; 2%float; 3%float]] /\
  reorder (g_nonlagged (gen ex_block)) = ["t"; "x"; "G"; "k"].
Proof. vm_compute. repeat split. Qed.
Print Assumptions C20_example_run.

(** The generator before the D20 fix (commit c963a6f): the same closed block dies with NameError. *)
Theorem C20_runs_orig_refuted :
  exists b : block, closed_block b /\ run_orig (gen_orig b) = Err NameError /\ run (gen_orig b) = Err NameError.
Proof.
  exists ex_block. split; [apply closed_block_b_sound; vm_compute; reflexivity|]. vm_compute. split; reflexivity.
Qed.
Print Assumptions C20_runs_orig_refuted.

(** The template before the D20c fix ([while err > tol]): x = x*x + 2 overflows, the error sum
    becomes NaN, the loop ends and the run "succeeds" with x = [0; inf; inf], so the stop test
    of [C20_satisfies] fails; with the fix the same block raises ValueError('No Convergence!'). *)
Definition ex_nan : block :=
  mkBlock [("x", EAdd (EMul (EVar "x") (EVar "x")) (ENum 2%float), None);
           ("t", EAdd (EVar "LAG_t") (ENum 1%float), None)]
          [("LAG_t", "t")] [] [] 2 1e-8%float 400.

Theorem C20_nan_orig_refuted :
  closed_block ex_nan /\ NoDup (var_names ex_nan) /\ no_new_refs (gen ex_nan) /\
  observe (gen ex_nan) (run_orig (gen ex_nan)) =
    Ok [[0%float; infinity; infinity]; [0%float; 1%float; 2%float]] /\
  run (gen ex_nan) = Err ValueError.
Proof.
  split; [apply closed_block_b_sound; vm_compute; reflexivity|].
  split; [apply nodup_b_sound; vm_compute; reflexivity|].
  split; [apply no_new_refs_b_sound; vm_compute; reflexivity|].
  vm_compute. split; reflexivity.
Qed.
Print Assumptions C20_nan_orig_refuted.

(** Recorded finding D20b: a lagged variable as the source of another lag (accepted by the
    parser, solved by the in-process solver) makes the generated module raise AttributeError,
    because lagged variables are not stored as attributes. *)
Definition ex_laglag : block :=
  mkBlock [("x", EAdd (EMul (ENum 0.5%float) (EVar "LAG2")) (ENum 1%float), None);
           ("t", EAdd (EVar "LT") (ENum 1%float), None)]
          [("LAG_x", "x"); ("LAG2", "LAG_x"); ("LT", "t")] [] [] 3 1e-8%float 400.

Theorem C20_lag_of_lagged_refuted :
  closed_block ex_laglag /\ NoDup (var_names ex_laglag) /\ run (gen ex_laglag) = Err OtherError.
Proof.
  split; [apply closed_block_b_sound; vm_compute; reflexivity|].
  split; [apply nodup_b_sound; vm_compute; reflexivity|]. vm_compute. reflexivity.
Qed.
Print Assumptions C20_lag_of_lagged_refuted.
