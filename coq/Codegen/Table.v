(** The table header of the generated module: [BaseSolver.CreateCsvString] ([Out/Csv.v]) on the
    generator's [NonLagged] list. *)
From Coq Require Import List String Bool Permutation.
From SFC.Base Require Import Res Str.
From SFC.Out Require Import Csv CsvProofs.
From SFC.Codegen Require Import Gen GenProofs.
Import ListNotations.
Local Open Scope string_scope.

Lemma reorder_perm vl : Permutation vl (reorder vl).
Proof.
  unfold reorder. destruct (mem "t" vl) eqn:E; [|apply Permutation_refl].
  apply remove_first_perm. now apply mem_In.
Qed.

Lemma reorder_NoDup vl : NoDup vl -> NoDup (reorder vl).
Proof. intros H. eapply Permutation_NoDup; [apply reorder_perm|exact H]. Qed.

Lemma reorder_t_first vl : List.In "t" vl -> exists rest, reorder vl = "t" :: rest.
Proof. intros H. unfold reorder. apply mem_In in H. rewrite H. eauto. Qed.

Lemma reorder_no_t vl : ~ List.In "t" vl -> reorder vl = vl.
Proof.
  intros H. unfold reorder. destruct (mem "t" vl) eqn:E; [|reflexivity]. apply mem_In in E. contradiction.
Qed.

Lemma csv_header vl attrs text :
  fst (create_csv vl attrs) = Ok text -> exists body, text = line (reorder vl) ++ body.
Proof.
  unfold create_csv, csv_body. cbn [fst]. destruct (reorder vl) as [|v0 r]; [discriminate|].
  intros H. apply bind_ok in H. destruct H as [body [_ H]]. injection H as <-. eauto.
Qed.

Theorem table_header vl attrs :
  Permutation vl (reorder vl) /\
  (NoDup vl -> NoDup (reorder vl)) /\
  (List.In "t" vl -> exists rest, reorder vl = "t" :: rest) /\
  (forall text, fst (create_csv vl attrs) = Ok text -> exists body, text = line (reorder vl) ++ body) /\
  snd (create_csv vl attrs) = vl /\
  fst (create_csv (snd (create_csv vl attrs)) attrs) = fst (create_csv vl attrs).
Proof.
  split; [apply reorder_perm|]. split; [apply reorder_NoDup|]. split; [apply reorder_t_first|].
  split; [intros text; apply csv_header|]. split; reflexivity.
Qed.
