(** Model of the deprecated code generator [IterativeMachineGenerator]
    (sfc_models/deprecated/iterative_machine_generator.py) and of the module it emits.

    (i)  [gen]: the generator's data flow.  Input is what [IterativeMachineGenerator(block)] holds
         after [ParseString] (read from the implementation by the harness): [Endogenous]
         (= parser.Endogenous + parser.Decoration), [Lagged], [Exogenous], [InitialConditions],
         [MaxTime], [Err_Tolerance], [MaxIterations]; right-hand sides are [Base/Expr.v] ASTs,
         exogenous value strings and initial conditions are pre-evaluated by Python.
         Output is an abstract program [gprog]: [DefineStepVariable] (the D20 fix),
         [GenerateEquations] (AllVariables, EquationList, NonLagged), [GenerateVarDeclaration]
         (the attributes of the object after [__init__]).
    (ii) [run]: the semantics of the template: [main] / [RunOneStep] (pack, Jacobi iteration of the
         whole vector with the absolute error sum, iteration cap, unpack) on the object's attributes.
    The text templating itself is not modelled; the harness executes the generated module and
    compares it with [run (gen b)].

    [*_orig] is the behaviour of /repo before the fixes D20 (commit c963a6f; no variable k) and
    D20c (commit e6449a4; loop [while err > tol], left by a NaN error sum).  D20d (91a2a19, raw
    docstring) concerns the text of the module only and has no counterpart in the model. *)
From Coq Require Import List String Bool Arith PrimFloat.
From SFC.Base Require Import Res Str Expr.
Import ListNotations.
Local Open Scope string_scope.

(* ------------------------------------------------------------------ *)
(** * The parsed block *)

(** An exogenous value string evaluates to a list (of floats) or to a bare float. *)
Inductive exoval := ExList (l : list float) | ExScalar (c : float).

Record block := mkBlock {
  b_endo : list (string * expr float * option float);
      (** name, right-hand side, and [Some c] when Python's [float(rhs.strip())] accepts the text *)
  b_lagged : list (string * string);          (** lagged variable, its source *)
  b_exo : list (string * exoval);
  b_ic : list (string * float);               (** the InitialConditions dict (unique keys) *)
  b_maxtime : nat;
  b_tol : float;
  b_maxiter : nat }.

Definition endo_names (b : block) : list string := map (fun t => fst (fst t)) (b_endo b).
Definition endo_rhs (b : block) : list (expr float) := map (fun t => snd (fst t)) (b_endo b).
Definition lag_names (b : block) : list string := map fst (b_lagged b).
Definition exo_names (b : block) : list string := map fst (b_exo b).
Definition var_names (b : block) : list string := endo_names b ++ lag_names b ++ exo_names b.

(* ------------------------------------------------------------------ *)
(** * Object attributes *)

Definition attrs := list (string * list float).

(** [getattr]: the most recent assignment is at the front. *)
Fixpoint get (a : string) (st : attrs) : option (list float) :=
  match st with
  | [] => None
  | (b, l) :: r => if String.eqb a b then Some l else get a r
  end.

(** [self.a.append(x)] *)
Fixpoint app1 (a : string) (x : float) (st : attrs) : attrs :=
  match st with
  | [] => []
  | (b, l) :: r => if String.eqb a b then (b, (l ++ [x])%list) :: r else (b, l) :: app1 a x r
  end.

Fixpoint lookup (a : string) (env : list (string * float)) : option float :=
  match env with
  | [] => None
  | (b, x) :: r => if String.eqb a b then Some x else lookup a r
  end.

(* ------------------------------------------------------------------ *)
(** * (i) The generator *)

(** [[float(x) for x in range(0, n)]] *)
Fixpoint count_from (x : float) (n : nat) : list float :=
  match n with O => [] | S m => x :: count_from (x + 1)%float m end.

(** [DefineStepVariable] (fix D20): if some endogenous right-hand side uses the token k
    (or some lagged variable has source k) and no variable is called k, add the exogenous series
    k = 0., 1., ..., MaxTime. *)
Definition uses_k (b : block) : bool :=
  mem "k" (map snd (b_lagged b)) || existsb (fun e => mem "k" (names e)) (endo_rhs b).

Definition define_step (b : block) : block :=
  if mem "k" (var_names b) then b
  else if uses_k b then
    mkBlock (b_endo b) (b_lagged b)
            (b_exo b ++ [("k", ExList (count_from 0%float (S (b_maxtime b))))])%list
            (b_ic b) (b_maxtime b) (b_tol b) (b_maxiter b)
  else b.

(** [GenerateVarDeclaration], executed: a right-hand side that [float()] accepts initialises
    k=0 to that literal, else the initial condition, else 0.; then the exogenous assignments, then
    [self.x = self.x[0:MaxTime+1]] for every exogenous name ([TypeError] on a bare float). *)
Definition init_value (b : block) (t : string * expr float * option float) : float :=
  match snd t with
  | Some c => c
  | None => match lookup (fst (fst t)) (b_ic b) with Some c => c | None => 0%float end
  end.

Definition exo_list (b : block) (q : string * exoval) : string * list float :=
  (fst q, match snd q with ExList l => firstn (S (b_maxtime b)) l | ExScalar _ => [] end).

(** an exogenous name whose last assignment is a bare float *)
Fixpoint scalar_visible (l : list (string * exoval)) : bool :=
  match l with
  | [] => false
  | (v, x) :: r =>
      (match x with ExScalar _ => negb (mem v (map fst r)) | ExList _ => false end) || scalar_visible r
  end.

Definition init_attrs (b : block) : attrs :=
  (rev (map (exo_list b) (b_exo b)) ++ rev (map (fun t => (fst (fst t), [init_value b t])) (b_endo b)))%list.

Definition init (b : block) : result attrs :=
  if scalar_visible (b_exo b) then Err TypeError else Ok (init_attrs b).

(** The abstract program. *)
Record gprog := mkG {
  g_endo : list string;
  g_lagged : list (string * string);
  g_exo : list string;
  g_eqs : list (expr float);         (** EquationList *)
  g_init : result attrs;             (** the attributes after [__init__] *)
  g_maxtime : nat;
  g_tol : float;
  g_maxiter : nat }.

Definition g_vars (p : gprog) : list string := (g_endo p ++ map fst (g_lagged p) ++ g_exo p)%list.  (* AllVariables *)
Definition g_nonlagged (p : gprog) : list string := (g_endo p ++ g_exo p)%list.                       (* NonLagged *)

Definition gen_of (b : block) : gprog :=
  mkG (endo_names b) (b_lagged b) (exo_names b)
      (endo_rhs b ++ map (fun v => EVar v) (lag_names b) ++ map (fun v => EVar v) (exo_names b))%list
      (init b) (b_maxtime b) (b_tol b) (b_maxiter b).

Definition gen (b : block) : gprog := gen_of (define_step b).
Definition gen_orig (b : block) : gprog := gen_of b.

(* ------------------------------------------------------------------ *)
(** * (ii) The template *)

Fixpoint mapM {A B} (f : A -> result B) (l : list A) : result (list B) :=
  match l with
  | [] => Ok []
  | a :: r => do x <- f a;; do xs <- mapM f r;; Ok (x :: xs)
  end.

(** Python tuple packing / unpacking goes through local names: with a repeated name the last
    assignment wins for every position that mentions it. *)
Definition env_of (vars : list string) (vals : list float) : list (string * float) :=
  rev (combine vars vals).

Definition by_name (vars : list string) (vals : list float) : list float :=
  map (fun v => match lookup v (env_of vars vals) with Some x => x | None => 0%float end) vars.

Section Template.
Variable nanfix : bool.     (** true: loop [while not (err <= tol)] (D20c); false: [while err > tol] *)
Variable p : gprog.

(** <PACK_VARS>: [x = self.x[-1]], [LAG_x = self.x[self.STEP -1]], [G = self.G[self.STEP]] *)
Definition pack_endo (st : attrs) (v : string) : result float :=
  match get v st with
  | None => Err OtherError                         (* AttributeError *)
  | Some l => match nth_error l (List.length l - 1) with Some x => Ok x | None => Err IndexError end
  end.

Definition pack_at (st : attrs) (i : nat) (v : string) : result float :=
  match get v st with
  | None => Err OtherError
  | Some l => match nth_error l i with Some x => Ok x | None => Err IndexError end
  end.

Definition pack (st : attrs) (step : nat) : result (list float) :=
  do a <- mapM (pack_endo st) (g_endo p);;
  do b <- mapM (fun q => pack_at st (step - 1) (snd q)) (g_lagged p);;
  do c <- mapM (pack_at st step) (g_exo p);;
  Ok (by_name (g_vars p) (a ++ b ++ c)%list).

(** [Iterator]: unpack the vector into locals, evaluate [NEW_x = <rhs>] in order (each assignment
    becomes a local too), return the [NEW_] locals. *)
Fixpoint sweep_eqs (env : list (string * float)) (vs : list string) (es : list (expr float))
  : result (list (string * float)) :=
  match vs, es with
  | v :: vs', e :: es' =>
      do x <- evalF (fun n => lookup n env) e;;
      sweep_eqs (("NEW_" ++ v, x) :: env) vs' es'
  | _, _ => Ok env
  end.

Definition sweep (u : list float) : result (list float) :=
  do env <- sweep_eqs (env_of (g_vars p) u) (g_vars p) (g_eqs p);;
  Ok (map (fun v => match lookup ("NEW_" ++ v) env with Some x => x | None => 0%float end) (g_vars p)).

(** [CalcError]: [err = 0.; for a, b in zip(..): err += abs(a - b)] *)
Definition calc_error (u v : list float) : float :=
  fold_left (fun acc q => (acc + abs (fst q - snd q))%float) (combine u v) 0%float.

Definition continue_ (err : float) : bool :=
  if nanfix then negb (leb err (g_tol p)) else ltb (g_tol p) err.

(** the [while] loop of [RunOneStep]; [cnt] sweeps done so far.  At most [MaxIterations + 1]
    sweeps happen, so fuel [MaxIterations + 2] is never exhausted. *)
Fixpoint iterate (fuel cnt : nat) (err : float) (u : list float) : result (list float) :=
  if continue_ err then
    match fuel with
    | O => Err OutOfFuel
    | S f =>
        do v <- sweep u;;
        if Nat.ltb (g_maxiter p) (S cnt) then Err ValueError      (* 'No Convergence!' *)
        else iterate f (S cnt) (calc_error u v) v
    end
  else Ok u.

(** <UNPACK_VARS>: [x = orig_vector[i]; self.x.append(x)] for the endogenous variables *)
Definition unpack (st : attrs) (v : list float) : attrs :=
  fold_left (fun s q => app1 (fst q) (snd q) s) (combine (g_endo p) v) st.

(** [RunOneStep] with [self.STEP] already incremented to [step]; also returns the packed vector
    and the final vector (for the statements of the theorems). *)
Definition one_step (st : attrs) (step : nat) : result (attrs * (list float * list float)) :=
  do pk <- pack st step;;
  do vk <- iterate (S (S (g_maxiter p))) O 1%float pk;;
  Ok (unpack st vk, (pk, vk)).

(** [main]: [while self.STEP < self.MaxTime: self.RunOneStep()] — [n] steps remain, [step] done. *)
Fixpoint steps (n step : nat) (st : attrs) : result (attrs * list (list float * list float)) :=
  match n with
  | O => Ok (st, [])
  | S m =>
      do r <- one_step st (S step);;
      do r' <- steps m (S step) (fst r);;
      Ok (fst r', snd r :: snd r')
  end.

Definition run_trace : result (attrs * list (list float * list float)) :=
  do st0 <- g_init p;; steps (g_maxtime p) 0 st0.

Definition run_v : result attrs := do r <- run_trace;; Ok (fst r).

End Template.

Definition run (p : gprog) : result attrs := run_v true p.
Definition run_orig (p : gprog) : result attrs := run_v false p.

(** What the harness observes: the series of the variables of [VariableList] (= NonLagged). *)
Definition observe (p : gprog) (r : result attrs) : result (list (list float)) :=
  do st <- r;; Ok (map (fun v => match get v st with Some l => l | None => [] end) (g_nonlagged p)).
