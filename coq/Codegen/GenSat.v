(** Proofs about the code-generator model [Gen.v], part 2: what a successful run reports
    (stop test, own lags, supplied exogenous paths, series lengths). *)
From Coq Require Import List String Bool Arith PrimFloat Lia Permutation.
From SFC.Base Require Import Res Str Expr.
From SFC.Codegen Require Import Gen GenProofs.
Import ListNotations.
Local Open Scope string_scope.

(* ------------------------------------------------------------------ *)
(** * lists *)

Lemma map_fst_combine_le {A B} (l : list A) (r : list B) :
  List.length l <= List.length r -> map fst (combine l r) = l.
Proof.
  revert r. induction l as [|a l IH]; intros [|b r] H; simpl in *; try reflexivity; try lia.
  f_equal. apply IH. lia.
Qed.

Lemma combine_app_eq {A B} (l1 l2 : list A) (r1 r2 : list B) :
  List.length l1 = List.length r1 -> combine (l1 ++ l2) (r1 ++ r2) = (combine l1 r1 ++ combine l2 r2)%list.
Proof.
  revert r1. induction l1 as [|a l1 IH]; intros [|b r1] H; simpl in *; try reflexivity; try discriminate.
  f_equal. apply IH. lia.
Qed.

Lemma combine_app_l {A B} (l : list A) (r1 r2 : list B) :
  List.length l = List.length r1 -> combine l (r1 ++ r2) = combine l r1.
Proof.
  intros H. rewrite <- (app_nil_r l) at 1. rewrite combine_app_eq by exact H. simpl. apply app_nil_r.
Qed.

Lemma combine_map_l {A A' B} (f : A -> A') (l : list A) (r : list B) :
  combine (map f l) r = map (fun q => (f (fst q), snd q)) (combine l r).
Proof. revert r. induction l as [|a l IH]; intros [|b r]; simpl; try reflexivity. f_equal. apply IH. Qed.

Lemma Forall2_combine {A B} (P : A -> B -> Prop) (l : list A) (r : list B) :
  List.length l = List.length r -> (forall a b, List.In (a, b) (combine l r) -> P a b) -> Forall2 P l r.
Proof.
  revert r. induction l as [|a l IH]; intros [|b r] H HP; simpl in *; try discriminate; constructor.
  - apply HP. auto.
  - apply IH; [lia|]. intros; apply HP; auto.
Qed.

Lemma Forall2_len {A B} (P : A -> B -> Prop) l r : Forall2 P l r -> List.length l = List.length r.
Proof. induction 1; simpl; congruence. Qed.

Lemma Forall2_impl {A B} (P Q : A -> B -> Prop) l r :
  (forall a b, P a b -> Q a b) -> Forall2 P l r -> Forall2 Q l r.
Proof. intros H. induction 1; constructor; auto. Qed.

Lemma map_lookup (f : string -> string) (env : list (string * float)) : forall ks rs,
  List.length ks = List.length rs ->
  (forall k r, List.In (k, r) (combine ks rs) -> lookup (f k) env = Some r) ->
  map (fun k => match lookup (f k) env with Some x => x | None => 0%float end) ks = rs.
Proof.
  induction ks as [|k ks IH]; intros [|r rs] Hl H; simpl in *; try reflexivity; try discriminate.
  rewrite (H k r) by auto. f_equal. apply IH; [lia|]. intros; apply H; auto.
Qed.

Lemma NoDup_map_new (vars : list string) : NoDup vars -> NoDup (map (append "NEW_") vars).
Proof.
  induction 1 as [|v vars Hni Hnd IH]; simpl; constructor; [|exact IH].
  intros H. apply in_map_iff in H. destruct H as [w [Hw Hin]]. simpl in Hw. injection Hw as ->. auto.
Qed.

Lemma NoDup_sub3 {A} (a b c : list A) : NoDup (a ++ b ++ c) -> NoDup (a ++ c).
Proof.
  induction b as [|x b IH]; simpl; intros H; [exact H|].
  apply IH. eapply NoDup_remove_1; eauto.
Qed.

(* ------------------------------------------------------------------ *)
(** * attributes *)

Definition appended (a : string) (l : list (string * float)) : list float :=
  map snd (filter (fun q => String.eqb a (fst q)) l).

Lemma get_app1 a k x st :
  get a (app1 k x st) = if String.eqb a k then option_map (fun l => (l ++ [x])%list) (get a st) else get a st.
Proof.
  induction st as [|[c l] st IH]; simpl.
  - destruct (String.eqb a k); reflexivity.
  - destruct (String.eqb k c) eqn:Ekc; simpl.
    + apply String.eqb_eq in Ekc. subst c. destruct (String.eqb a k); reflexivity.
    + rewrite IH. destruct (String.eqb a c) eqn:Eac; [|reflexivity].
      apply String.eqb_eq in Eac. subst c.
      destruct (String.eqb a k) eqn:Eak; [|reflexivity].
      apply String.eqb_eq in Eak. subst k. rewrite String.eqb_refl in Ekc. discriminate.
Qed.

Lemma get_fold_app1 l : forall st a,
  get a (fold_left (fun s q => app1 (fst q) (snd q) s) l st) =
  option_map (fun x => (x ++ appended a l)%list) (get a st).
Proof.
  induction l as [|[k x] l IH]; intros st a; simpl.
  - unfold appended; simpl. destruct (get a st); simpl; [rewrite app_nil_r|]; reflexivity.
  - rewrite IH, get_app1. unfold appended; simpl.
    destruct (String.eqb a k); [|reflexivity].
    destruct (get a st); simpl; [|reflexivity]. rewrite <- app_assoc. reflexivity.
Qed.

Lemma appended_notin a l : ~ List.In a (map fst l) -> appended a l = [].
Proof.
  unfold appended. induction l as [|[k x] l IH]; simpl; intros H; [reflexivity|].
  destruct (String.eqb a k) eqn:E.
  - apply String.eqb_eq in E. subst. exfalso. auto.
  - apply IH. auto.
Qed.

Lemma appended_in a x l : NoDup (map fst l) -> List.In (a, x) l -> appended a l = [x].
Proof.
  induction l as [|[k y] l IH]; simpl; intros Hnd H; [contradiction|].
  inversion Hnd as [|? ? Hni Hnd']; subst.
  destruct H as [H|H].
  - injection H as -> ->. unfold appended; simpl. rewrite String.eqb_refl. simpl. f_equal.
    apply appended_notin. exact Hni.
  - unfold appended; simpl. destruct (String.eqb a k) eqn:E.
    + apply String.eqb_eq in E. subst. exfalso. apply Hni. apply (in_map fst) in H. exact H.
    + apply IH; assumption.
Qed.

Definition extends (st st' : attrs) : Prop :=
  forall a l, get a st = Some l -> exists l', get a st' = Some (l ++ l')%list.

Lemma extends_refl st : extends st st.
Proof. intros a l H. exists []. now rewrite app_nil_r. Qed.

Lemma extends_trans s1 s2 s3 : extends s1 s2 -> extends s2 s3 -> extends s1 s3.
Proof.
  intros H1 H2 a l H. destruct (H1 a l H) as [l1 H1']. destruct (H2 a _ H1') as [l2 H2'].
  exists (l1 ++ l2)%list. now rewrite app_assoc.
Qed.

Lemma extends_nth st st' a l i x :
  extends st st' -> get a st = Some l -> nth_error l i = Some x ->
  exists l', get a st' = Some l' /\ nth_error l' i = Some x.
Proof.
  intros He Hg Hn. destruct (He a l Hg) as [l' Hl']. exists (l ++ l')%list. split; [exact Hl'|].
  rewrite nth_error_app1; [exact Hn|]. apply nth_error_Some. congruence.
Qed.

Lemma get_In_NoDup (st : attrs) a l : NoDup (map fst st) -> List.In (a, l) st -> get a st = Some l.
Proof.
  induction st as [|[b y] st IH]; simpl; intros Hnd H; [contradiction|].
  inversion Hnd as [|? ? Hni Hnd']; subst.
  destruct H as [H|H].
  - injection H as -> ->. now rewrite String.eqb_refl.
  - destruct (String.eqb a b) eqn:E; [|auto].
    apply String.eqb_eq in E. subst b. exfalso. apply Hni. apply (in_map fst) in H. exact H.
Qed.

Lemma pack_at_ok st i v x :
  pack_at st i v = Ok x <-> exists l, get v st = Some l /\ nth_error l i = Some x.
Proof.
  unfold pack_at. split.
  - destruct (get v st) as [l|]; [|discriminate]. destruct (nth_error l i) eqn:E; [|discriminate].
    intros H; injection H as <-. eauto.
  - intros [l [-> ->]]. reflexivity.
Qed.

(* ------------------------------------------------------------------ *)
(** * One sweep, under "every variable is defined once" and "no reference to a NEW_ local" *)

Definition no_new_refs (p : gprog) : Prop :=
  forall e, List.In e (g_eqs p) -> forall x, List.In x (names e) ->
  forall w, List.In w (g_vars p) -> x <> "NEW_" ++ w.

(** the equation list is the endogenous right-hand sides followed by the identities of the
    lagged and exogenous variables (what [GenerateEquations] builds) *)
Definition eq_shape (p : gprog) (ee : list (expr float)) : Prop :=
  g_eqs p = (ee ++ map (fun v => EVar v) (map fst (g_lagged p)) ++ map (fun v => EVar v) (g_exo p))%list /\
  List.length ee = List.length (g_endo p).

Lemma sweep_eqs_simple (base : list (string * float)) es : forall vs news,
  List.length vs = List.length es ->
  (forall e, List.In e es -> forall x, List.In x (names e) ->
     ~ List.In x (map fst news) /\ forall w, List.In w vs -> x <> "NEW_" ++ w) ->
  sweep_eqs (news ++ base) vs es =
  do rs <- mapM (evalF (fun n => lookup n base)) es;;
  Ok (rev (combine (map (append "NEW_") vs) rs) ++ news ++ base)%list.
Proof.
  induction es as [|e es IH]; intros vs news Hl H.
  - destruct vs; [reflexivity|discriminate].
  - destruct vs as [|v vs]; [discriminate|]. simpl in Hl. cbn [sweep_eqs mapM].
    assert (Hev : evalF (fun n => lookup n (news ++ base)%list) e = evalF (fun n => lookup n base) e).
    { apply evalF_ext. intros x Hx. apply lookup_notin. apply (H e (or_introl eq_refl) x Hx). }
    rewrite Hev. destruct (evalF (fun n => lookup n base) e) as [x|er]; [|reflexivity]. cbn [bind].
    change ((String.append "NEW_" v, x) :: (news ++ base)%list) with (((String.append "NEW_" v, x) :: news) ++ base)%list.
    rewrite IH; [|lia|].
    + destruct (mapM (evalF (fun n => lookup n base)) es) as [rs|er]; [|reflexivity]. cbn [bind map combine rev].
      f_equal. rewrite <- app_assoc. reflexivity.
    + intros e' He' y Hy. destruct (H e' (or_intror He') y Hy) as [Hn Hw]. split.
      * simpl. intros [Hc|Hc]; [|auto]. apply (Hw v); [left; reflexivity|]. symmetry. exact Hc.
      * intros w Hin. apply Hw. right. exact Hin.
Qed.

Section Sweep.
Variable p : gprog.
Hypothesis ND : NoDup (g_vars p).
Hypothesis NN : no_new_refs p.
Variable ee : list (expr float).
Hypothesis SH : eq_shape p ee.

Lemma eqs_length : List.length (g_eqs p) = List.length (g_vars p).
Proof.
  destruct SH as [-> Hl]. unfold g_vars. rewrite !app_length, !map_length. lia.
Qed.

Lemma sweep_simple u :
  sweep p u = mapM (evalF (fun n => lookup n (env_of (g_vars p) u))) (g_eqs p).
Proof.
  unfold sweep. set (base := env_of (g_vars p) u).
  pose proof (sweep_eqs_simple base (g_eqs p) (g_vars p) []) as H. simpl in H.
  rewrite H; [|symmetry; apply eqs_length|].
  - destruct (mapM (evalF (fun n => lookup n base)) (g_eqs p)) as [rs|er] eqn:E; [|reflexivity].
    cbn [bind]. f_equal. apply map_lookup.
    + apply mapM_length in E. rewrite E. symmetry. apply eqs_length.
    + intros k r Hin. apply lookup_In_NoDup.
      * rewrite map_rev. apply NoDup_rev. rewrite map_fst_combine_le.
        -- apply NoDup_map_new. exact ND.
        -- rewrite map_length. apply mapM_length in E. rewrite E, eqs_length. lia.
      * apply -> in_rev. rewrite combine_map_l. apply in_map_iff. exists (k, r). split; [reflexivity|exact Hin].
  - intros e He x Hx. split; [auto|]. intros w Hw. eapply NN; eauto.
Qed.

Lemma mapM_vars (base : list (string * float)) : forall ns vs,
  List.length ns = List.length vs ->
  (forall n v, List.In (n, v) (combine ns vs) -> lookup n base = Some v) ->
  mapM (fun n => evalF (fun m => lookup m base) (EVar n)) ns = Ok vs.
Proof.
  induction ns as [|n ns IH]; intros [|v vs] Hl H; simpl in *; try reflexivity; try discriminate.
  rewrite (H n v) by auto. simpl. rewrite (IH vs); [reflexivity|lia|]. intros; apply H; auto.
Qed.

Lemma lookup_env_of n v u :
  List.length u = List.length (g_vars p) -> List.In (n, v) (combine (g_vars p) u) ->
  lookup n (env_of (g_vars p) u) = Some v.
Proof.
  intros Hl Hin. unfold env_of. rewrite <- (app_nil_r (rev _)). apply lookup_In_NoDup.
  - rewrite map_rev. apply NoDup_rev. rewrite map_fst_combine by (symmetry; exact Hl). exact ND.
  - apply -> in_rev. exact Hin.
Qed.

(** the lagged and exogenous components are frozen by a sweep *)
Lemma sweep_frozen A B C :
  List.length A = List.length (g_endo p) -> List.length B = List.length (g_lagged p) ->
  List.length C = List.length (g_exo p) ->
  sweep p (A ++ B ++ C) =
  do A' <- mapM (evalF (fun n => lookup n (env_of (g_vars p) (A ++ B ++ C)))) ee;; Ok (A' ++ B ++ C)%list.
Proof.
  intros HA HB HC. rewrite sweep_simple. destruct SH as [Heq Hee]. rewrite Heq.
  set (base := env_of (g_vars p) (A ++ B ++ C)).
  assert (Hlen : List.length (A ++ B ++ C) = List.length (g_vars p)).
  { unfold g_vars. rewrite !app_length, map_length. lia. }
  assert (Hcomb : combine (g_vars p) (A ++ B ++ C) =
                  (combine (g_endo p) A ++ combine (map fst (g_lagged p)) B ++ combine (g_exo p) C)%list).
  { unfold g_vars. rewrite combine_app_eq by (symmetry; exact HA).
    rewrite combine_app_eq by (rewrite map_length; symmetry; exact HB). reflexivity. }
  rewrite !mapM_app.
  rewrite (mapM_map _ (fun v => EVar v) (map fst (g_lagged p))), (mapM_map _ (fun v => EVar v) (g_exo p)).
  destruct (mapM (evalF (fun n => lookup n base)) ee) as [A'|er]; [|reflexivity]. cbn [bind].
  rewrite (mapM_vars base (map fst (g_lagged p)) B).
  - rewrite (mapM_vars base (g_exo p) C).
    + reflexivity.
    + symmetry; exact HC.
    + intros n v Hin. apply lookup_env_of; [exact Hlen|]. rewrite Hcomb. apply in_or_app; right; apply in_or_app; right; exact Hin.
  - rewrite map_length. symmetry; exact HB.
  - intros n v Hin. apply lookup_env_of; [exact Hlen|]. rewrite Hcomb. apply in_or_app; right; apply in_or_app; left; exact Hin.
Qed.

End Sweep.

(* ------------------------------------------------------------------ *)
(** * One step and the whole run *)

Section Run.
Variable nf : bool.
Variable p : gprog.
Hypothesis ND : NoDup (g_vars p).
Hypothesis NN : no_new_refs p.
Variable ee : list (expr float).
Hypothesis SH : eq_shape p ee.

(** How the loop of [RunOneStep] ended on the packed vector [A ++ B ++ C]: either no sweep was
    made (the initial error 1. already passes the test), or the reported vector is one sweep of a
    vector [A0 ++ B ++ C] (same lagged and exogenous components) whose error sum against it
    passes the test. *)
Definition stopped (err0 : float) (A B C A' : list float) : Prop :=
  (A' = A /\ continue_ nf p err0 = false) \/
  exists A0, List.length A0 = List.length (g_endo p) /\
             sweep p (A0 ++ B ++ C) = Ok (A' ++ B ++ C)%list /\
             continue_ nf p (calc_error (A0 ++ B ++ C) (A' ++ B ++ C)) = false.

Lemma iterate_spec B C fuel :
  List.length B = List.length (g_lagged p) -> List.length C = List.length (g_exo p) ->
  forall cnt err A v,
  List.length A = List.length (g_endo p) ->
  iterate nf p fuel cnt err (A ++ B ++ C) = Ok v ->
  exists A', v = (A' ++ B ++ C)%list /\ List.length A' = List.length (g_endo p) /\ stopped err A B C A'.
Proof.
  intros HB HC. induction fuel as [|f IH]; intros cnt err A v HA H; simpl in H.
  - destruct (continue_ nf p err) eqn:Ec; [discriminate|]. injection H as <-.
    exists A. split; [reflexivity|]. split; [exact HA|]. left. auto.
  - destruct (continue_ nf p err) eqn:Ec.
    + apply bind_ok in H. destruct H as [w [Hw H]].
      destruct (Nat.ltb (g_maxiter p) (S cnt)); [discriminate|].
      pose proof Hw as Hw'. rewrite (sweep_frozen p ND NN ee SH A B C HA HB HC) in Hw'.
      apply bind_ok in Hw'. destruct Hw' as [A1 [HA1 Hw']]. injection Hw' as <-.
      assert (HlA1 : List.length A1 = List.length (g_endo p)).
      { apply mapM_length in HA1. destruct SH as [_ Hl]. congruence. }
      destruct (IH _ _ A1 v HlA1 H) as [A' [Hv [HlA' Hst]]].
      exists A'. split; [exact Hv|]. split; [exact HlA'|].
      destruct Hst as [[-> Hc]|Hst]; [|right; exact Hst].
      right. exists A. split; [exact HA|]. split; [exact Hw|exact Hc].
    + injection H as <-. exists A. split; [reflexivity|]. split; [exact HA|]. left. auto.
Qed.

Lemma by_name_id vals : List.length vals = List.length (g_vars p) -> by_name (g_vars p) vals = vals.
Proof.
  intros Hl. unfold by_name. apply (map_lookup (fun k => k)); [symmetry; exact Hl|].
  intros k r Hin. apply lookup_env_of; assumption.
Qed.

Lemma pack_spec st step pk :
  pack p st step = Ok pk ->
  exists A B C, pk = (A ++ B ++ C)%list /\ List.length A = List.length (g_endo p) /\
    Forall2 (fun q x => pack_at st (step - 1) (snd q) = Ok x) (g_lagged p) B /\
    Forall2 (fun v x => pack_at st step v = Ok x) (g_exo p) C.
Proof.
  unfold pack. intros H.
  apply bind_ok in H. destruct H as [a [Ha H]]. apply bind_ok in H. destruct H as [b [Hb H]].
  apply bind_ok in H. destruct H as [c [Hc H]]. injection H as <-.
  exists a, b, c. rewrite by_name_id.
  - split; [reflexivity|]. split; [eapply mapM_length; eauto|].
    split; [apply mapM_ok in Hb; exact Hb|apply mapM_ok in Hc; exact Hc].
  - apply mapM_length in Ha, Hb, Hc. unfold g_vars. rewrite !app_length, map_length. lia.
Qed.

Lemma NoDup_endo : NoDup (g_endo p).
Proof.
  unfold g_vars in ND. rewrite <- (app_nil_r (g_endo p)).
  apply (NoDup_sub3 _ (map fst (g_lagged p) ++ g_exo p)%list []). rewrite app_nil_r. exact ND.
Qed.

Lemma unpack_other st v a : ~ List.In a (g_endo p) -> get a (unpack p st v) = get a st.
Proof.
  intros H. unfold unpack. rewrite get_fold_app1. rewrite appended_notin.
  - destruct (get a st); simpl; [rewrite app_nil_r|]; reflexivity.
  - intros Hin. apply H. apply in_map_iff in Hin. destruct Hin as [[k x] [<- Hin]]. simpl.
    eapply in_combine_l; eauto.
Qed.

Lemma unpack_endo st A' R a x :
  List.length A' = List.length (g_endo p) -> List.In (a, x) (combine (g_endo p) A') ->
  get a (unpack p st (A' ++ R)) = option_map (fun l => (l ++ [x])%list) (get a st).
Proof.
  intros Hl Hin. unfold unpack. rewrite get_fold_app1. rewrite combine_app_l by (symmetry; exact Hl).
  rewrite (appended_in a x); [reflexivity| |exact Hin].
  rewrite map_fst_combine by (symmetry; exact Hl). apply NoDup_endo.
Qed.

Lemma unpack_extends st v : extends st (unpack p st v).
Proof.
  intros a l H. unfold unpack. rewrite get_fold_app1, H. simpl. eauto.
Qed.

(** every endogenous attribute holds [j+1] values *)
Definition endo_len (j : nat) (st : attrs) : Prop :=
  forall v, List.In v (g_endo p) -> exists l, get v st = Some l /\ List.length l = S j.

(** what step [k] did, read off the final attributes [fin] *)
Definition step_ok (fin : attrs) (k : nat) (pk vk : list float) : Prop :=
  exists A B C A',
    pk = (A ++ B ++ C)%list /\ vk = (A' ++ B ++ C)%list /\
    List.length A = List.length (g_endo p) /\ List.length A' = List.length (g_endo p) /\
    Forall2 (fun q x => exists l, get (snd q) fin = Some l /\ nth_error l (k - 1) = Some x) (g_lagged p) B /\
    Forall2 (fun v x => exists l, get v fin = Some l /\ nth_error l k = Some x) (g_exo p) C /\
    Forall2 (fun v x => exists l, get v fin = Some l /\ nth_error l k = Some x) (g_endo p) A' /\
    stopped 1%float A B C A'.

Lemma steps_spec n : forall j st fin tr,
  endo_len j st -> steps nf p n j st = Ok (fin, tr) ->
  extends st fin /\ endo_len (j + n) fin /\
  (forall a, ~ List.In a (g_endo p) -> get a fin = get a st) /\
  List.length tr = n /\
  forall i, i < n -> exists pk vk, nth_error tr i = Some (pk, vk) /\ step_ok fin (j + 1 + i) pk vk.
Proof.
  induction n as [|n IH]; intros j st fin tr Hlen H; simpl in H.
  - injection H as <- <-. split; [apply extends_refl|]. split; [rewrite Nat.add_0_r; exact Hlen|].
    split; [reflexivity|]. split; [reflexivity|]. intros i Hi. lia.
  - apply bind_ok in H. destruct H as [[st1 [pk vk]] [H1 H]].
    apply bind_ok in H. destruct H as [[fin' tr'] [H2 H]]. simpl in H2, H. injection H as <- <-.
    unfold one_step in H1.
    apply bind_ok in H1. destruct H1 as [pk' [Hpk H1]]. apply bind_ok in H1. destruct H1 as [vk' [Hvk H1]].
    injection H1 as <- <- <-.
    destruct (pack_spec _ _ _ Hpk) as [A [B [C [-> [HA [HB HC]]]]]].
    pose proof (Forall2_len _ _ _ HB) as HlB. pose proof (Forall2_len _ _ _ HC) as HlC.
    destruct (iterate_spec B C _ (eq_sym HlB) (eq_sym HlC) _ _ A vk' HA Hvk) as [A' [-> [HA' Hst]]].
    set (st1 := unpack p st (A' ++ B ++ C)) in *.
    assert (Hlen1 : endo_len (S j) st1).
    { intros v Hv. destruct (Hlen v Hv) as [l [Hg Hl]].
      destruct (combine_In_exists v (g_endo p) A' Hv) as [x Hx]; [lia|].
      exists (l ++ [x])%list. split.
      - unfold st1. rewrite (unpack_endo st A' (B ++ C) v x HA' Hx), Hg. reflexivity.
      - rewrite app_length. simpl. lia. }
    destruct (IH (S j) st1 fin' tr' Hlen1 H2) as [Hext [Hlenf [Hoth [Hltr Hsteps]]]].
    pose proof (unpack_extends st (A' ++ B ++ C)) as Hext0. fold st1 in Hext0.
    split; [eapply extends_trans; eauto|].
    split; [replace (j + S n) with (S j + n) by lia; exact Hlenf|].
    split; [intros a Ha; rewrite (Hoth a Ha); unfold st1; apply unpack_other; exact Ha|].
    split; [simpl; congruence|].
    intros [|i] Hi.
    + exists (A ++ B ++ C)%list, (A' ++ B ++ C)%list. split; [reflexivity|].
      exists A, B, C, A'. split; [reflexivity|]. split; [reflexivity|]. split; [exact HA|]. split; [exact HA'|].
      replace (j + 1 + 0) with (S j) by lia. replace (S j - 1) with j in * by lia.
      split; [|split; [|split; [|exact Hst]]].
      * eapply Forall2_impl; [|exact HB]. intros q x Hq. apply pack_at_ok in Hq. destruct Hq as [l [Hg Hn]].
        eapply extends_nth; [eapply extends_trans; [exact Hext0|exact Hext]|exact Hg|exact Hn].
      * eapply Forall2_impl; [|exact HC]. intros v x Hq. apply pack_at_ok in Hq. destruct Hq as [l [Hg Hn]].
        eapply extends_nth; [eapply extends_trans; [exact Hext0|exact Hext]|exact Hg|exact Hn].
      * apply Forall2_combine; [symmetry; exact HA'|]. intros v x Hx.
        assert (Hv : List.In v (g_endo p)) by (eapply in_combine_l; eauto).
        destruct (Hlen v Hv) as [l [Hg Hl]].
        eapply (extends_nth st1 fin' v (l ++ [x])%list); [exact Hext| |].
        -- unfold st1. rewrite (unpack_endo st A' (B ++ C) v x HA' Hx), Hg. reflexivity.
        -- rewrite nth_error_app2 by lia. replace (S j - List.length l) with 0 by lia. reflexivity.
    + destruct (Hsteps i) as [pk [vk [Hn Hok]]]; [lia|]. exists pk, vk. split; [exact Hn|].
      replace (j + 1 + S i) with (S j + 1 + i) by lia. exact Hok.
Qed.

End Run.

(* ------------------------------------------------------------------ *)
(** * The program produced by the generator *)

Lemma gen_of_shape b : eq_shape (gen_of b) (endo_rhs b).
Proof. split; [reflexivity|]. unfold endo_rhs, gen_of, endo_names; simpl. now rewrite !map_length. Qed.

Lemma init_attrs_keys b :
  map fst (init_attrs b) = (rev (exo_names b) ++ rev (endo_names b))%list.
Proof.
  unfold init_attrs, exo_names, endo_names. rewrite map_app, !map_rev, !map_map. reflexivity.
Qed.

Lemma init_attrs_NoDup b : NoDup (var_names b) -> NoDup (map fst (init_attrs b)).
Proof.
  intros H. rewrite init_attrs_keys. unfold var_names in H. apply NoDup_sub3 in H.
  eapply Permutation_NoDup; [|exact H].
  eapply Permutation_trans; [apply Permutation_app_comm|].
  apply Permutation_app; apply Permutation_rev.
Qed.

Lemma init_endo_len b st0 :
  NoDup (var_names b) -> init b = Ok st0 -> endo_len (gen_of b) 0 st0.
Proof.
  intros Hnd H. unfold init in H. destruct (scalar_visible (b_exo b)); [discriminate|]. injection H as <-.
  intros v Hv. simpl in Hv. unfold endo_names in Hv. apply in_map_iff in Hv. destruct Hv as [t [<- Ht]].
  exists [init_value b t]. split; [|reflexivity].
  apply get_In_NoDup; [apply init_attrs_NoDup; exact Hnd|].
  unfold init_attrs. apply in_or_app. right. apply -> in_rev.
  apply in_map_iff. exists t. auto.
Qed.

Lemma init_exo_path b st0 x l :
  NoDup (var_names b) -> init b = Ok st0 -> List.In (x, ExList l) (b_exo b) ->
  get x st0 = Some (firstn (S (b_maxtime b)) l).
Proof.
  intros Hnd H Hin. unfold init in H. destruct (scalar_visible (b_exo b)); [discriminate|]. injection H as <-.
  apply get_In_NoDup; [apply init_attrs_NoDup; exact Hnd|].
  unfold init_attrs. apply in_or_app. left. apply -> in_rev.
  apply in_map_iff. exists (x, ExList l). auto.
Qed.

(** [run_trace] of a generated program: final attributes and, per step, the packed and the
    reported vector. *)
Theorem run_trace_spec nf b fin tr :
  NoDup (var_names b) -> no_new_refs (gen_of b) ->
  run_trace nf (gen_of b) = Ok (fin, tr) ->
  List.length tr = b_maxtime b /\
  endo_len (gen_of b) (b_maxtime b) fin /\
  (forall x l, List.In (x, ExList l) (b_exo b) -> get x fin = Some (firstn (S (b_maxtime b)) l)) /\
  forall k, 1 <= k <= b_maxtime b ->
    exists pk vk, nth_error tr (k - 1) = Some (pk, vk) /\ step_ok nf (gen_of b) fin k pk vk.
Proof.
  intros Hnd Hnn H. unfold run_trace in H. apply bind_ok in H. destruct H as [st0 [Hi H]].
  change (g_init (gen_of b)) with (init b) in Hi. change (g_maxtime (gen_of b)) with (b_maxtime b) in H.
  pose proof (init_endo_len b st0 Hnd Hi) as Hlen.
  destruct (steps_spec nf (gen_of b) Hnd Hnn (endo_rhs b) (gen_of_shape b) _ _ _ _ _ Hlen H)
    as [Hext [Hlenf [Hoth [Hltr Hsteps]]]].
  split; [exact Hltr|]. split; [exact Hlenf|]. split.
  - intros x l Hin. rewrite Hoth; [eapply init_exo_path; eauto|].
    intros Hc. change (g_endo (gen_of b)) with (endo_names b) in Hc.
    unfold var_names in Hnd. apply NoDup_sub3 in Hnd.
    assert (Hx : List.In x (exo_names b)) by (unfold exo_names; apply in_map_iff; exists (x, ExList l); auto).
    clear - Hnd Hc Hx. induction (endo_names b) as [|a r IH]; [contradiction|].
    simpl in Hnd. inversion Hnd as [|? ? Hni Hnd']; subst. destruct Hc as [->|Hc]; [|auto].
    apply Hni. apply in_or_app. right. exact Hx.
  - intros k Hk. destruct (Hsteps (k - 1)) as [pk [vk [Hn Hok]]]; [lia|].
    exists pk, vk. split; [exact Hn|]. replace (0 + 1 + (k - 1)) with k in Hok by lia. exact Hok.
Qed.

Lemma run_v_trace nf p fin : run_v nf p = Ok fin -> exists tr, run_trace nf p = Ok (fin, tr).
Proof.
  unfold run_v. intros H. apply bind_ok in H. destruct H as [[f tr] [Hr H]]. injection H as <-. eauto.
Qed.

(** [DefineStepVariable] keeps "defined once" *)
Lemma define_step_NoDup b : NoDup (var_names b) -> NoDup (var_names (define_step b)).
Proof.
  intros H. unfold define_step. destruct (mem "k" (var_names b)) eqn:E; [exact H|].
  destruct (uses_k b); [|exact H].
  unfold var_names, endo_names, lag_names, exo_names in *; simpl. rewrite map_app. simpl.
  rewrite !app_assoc. rewrite <- !app_assoc.
  assert (Hk : ~ List.In "k" (map (fun t => fst (fst t)) (b_endo b) ++ map fst (b_lagged b) ++ map fst (b_exo b))%list).
  { intros Hin. apply mem_In in Hin. unfold var_names, endo_names, lag_names, exo_names in E. congruence. }
  rewrite !app_assoc. apply (Permutation_NoDup (l := ("k" :: ((map (fun t => fst (fst t)) (b_endo b) ++ map fst (b_lagged b)) ++ map fst (b_exo b)))%list)).
  - apply Permutation_cons_append.
  - constructor; [rewrite <- app_assoc; exact Hk|rewrite <- app_assoc; exact H].
Qed.

(* ------------------------------------------------------------------ *)
(** * Lengths (needs only "defined once") *)

Lemma unpack_endo_gen p st v a :
  NoDup (g_endo p) -> List.length (g_endo p) <= List.length v -> List.In a (g_endo p) ->
  exists x, get a (unpack p st v) = option_map (fun l => (l ++ [x])%list) (get a st).
Proof.
  intros Hnd Hl Hin. destruct (combine_In_exists a (g_endo p) v Hin Hl) as [x Hx]. exists x.
  unfold unpack. rewrite get_fold_app1. rewrite (appended_in a x); [reflexivity| |exact Hx].
  rewrite map_fst_combine_le by exact Hl. exact Hnd.
Qed.

Lemma steps_len nf p n : forall j st fin tr,
  NoDup (g_endo p) -> endo_len p j st -> steps nf p n j st = Ok (fin, tr) -> endo_len p (j + n) fin.
Proof.
  induction n as [|n IH]; intros j st fin tr Hnd Hlen H; simpl in H.
  - injection H as <- <-. rewrite Nat.add_0_r. exact Hlen.
  - apply bind_ok in H. destruct H as [[st1 [pk vk]] [H1 H]].
    apply bind_ok in H. destruct H as [[fin' tr'] [H2 H]]. simpl in H2, H. injection H as <- <-.
    unfold one_step in H1.
    apply bind_ok in H1. destruct H1 as [pk' [Hpk H1]]. apply bind_ok in H1. destruct H1 as [vk' [Hvk H1]].
    injection H1 as <- <- <-.
    replace (j + S n) with (S j + n) by lia. eapply IH; [exact Hnd| |exact H2].
    assert (Hl : List.length (g_endo p) <= List.length vk').
    { rewrite (iterate_length nf p _ _ _ _ _ (pack_length _ _ _ _ Hpk) Hvk).
      unfold g_vars. rewrite app_length. lia. }
    intros v Hv. destruct (Hlen v Hv) as [l [Hg Hll]].
    destruct (unpack_endo_gen p st vk' v Hnd Hl Hv) as [x Hx].
    exists (l ++ [x])%list. split; [rewrite Hx, Hg; reflexivity|]. rewrite app_length. simpl. lia.
Qed.

Lemma define_step_maxtime b : b_maxtime (define_step b) = b_maxtime b.
Proof. unfold define_step. destruct (mem "k" (var_names b)); [reflexivity|]. destruct (uses_k b); reflexivity. Qed.

Lemma define_step_endo b : b_endo (define_step b) = b_endo b.
Proof. unfold define_step. destruct (mem "k" (var_names b)); [reflexivity|]. destruct (uses_k b); reflexivity. Qed.

Theorem lengths nf b fin :
  NoDup (var_names b) -> run_v nf (gen b) = Ok fin ->
  forall v, List.In v (endo_names b) -> exists l, get v fin = Some l /\ List.length l = S (b_maxtime b).
Proof.
  intros Hnd H v Hv. apply run_v_trace in H. destruct H as [tr H].
  unfold gen, run_trace in H. apply bind_ok in H. destruct H as [st0 [Hi H]].
  set (b' := define_step b) in *.
  change (g_init (gen_of b')) with (init b') in Hi. change (g_maxtime (gen_of b')) with (b_maxtime b') in H.
  pose proof (define_step_NoDup b Hnd) as Hnd'. fold b' in Hnd'.
  pose proof (init_endo_len b' st0 Hnd' Hi) as Hlen.
  assert (He : NoDup (g_endo (gen_of b'))).
  { change (g_endo (gen_of b')) with (endo_names b'). unfold var_names in Hnd'.
    rewrite <- (app_nil_r (endo_names b')). apply (NoDup_sub3 _ (lag_names b' ++ exo_names b')%list []).
    rewrite app_nil_r. exact Hnd'. }
  pose proof (steps_len nf _ _ _ _ _ _ He Hlen H) as Hf. simpl in Hf.
  unfold b' in Hf. rewrite define_step_maxtime in Hf. apply Hf.
  change (g_endo (gen_of (define_step b))) with (endo_names (define_step b)).
  unfold endo_names. rewrite define_step_endo. exact Hv.
Qed.

(* ------------------------------------------------------------------ *)
(** * No AttributeError when every lag source is a stored variable *)

Definition has_attrs (names : list string) (st : attrs) : Prop :=
  forall v, List.In v names -> get v st <> None.

Lemma get_In_keys (st : attrs) a : List.In a (map fst st) -> get a st <> None.
Proof.
  induction st as [|[b l] st IH]; simpl; intros H; [contradiction|].
  destruct (String.eqb a b) eqn:E; [discriminate|]. destruct H as [H|H]; [|auto].
  subst. rewrite String.eqb_refl in E. discriminate.
Qed.

Lemma unpack_has_attrs p names st v : has_attrs names st -> has_attrs names (unpack p st v).
Proof.
  intros H a Ha. unfold unpack. rewrite get_fold_app1. specialize (H a Ha).
  destruct (get a st); [discriminate|contradiction].
Qed.

Lemma pack_no_attr_error p st step :
  has_attrs (g_endo p ++ map snd (g_lagged p) ++ g_exo p) st -> pack p st step <> Err OtherError.
Proof.
  intros Hh H. unfold pack in H.
  apply bind_err in H. destruct H as [H|[a [_ H]]].
  { apply mapM_err in H. destruct H as [v [Hv H]]. unfold pack_endo in H.
    assert (Hg : get v st <> None) by (apply Hh; apply in_or_app; auto).
    destruct (get v st) as [l|]; [|contradiction]. destruct (nth_error l (List.length l - 1)); discriminate. }
  apply bind_err in H. destruct H as [H|[b [_ H]]].
  { apply mapM_err in H. destruct H as [q [Hq H]]. unfold pack_at in H.
    assert (Hg : get (snd q) st <> None).
    { apply Hh. apply in_or_app; right; apply in_or_app; left. apply in_map. exact Hq. }
    destruct (get (snd q) st) as [l|]; [|contradiction]. destruct (nth_error l (step - 1)); discriminate. }
  apply bind_err in H. destruct H as [H|[c [_ H]]]; [|discriminate].
  apply mapM_err in H. destruct H as [v [Hv H]]. unfold pack_at in H.
  assert (Hg : get v st <> None) by (apply Hh; apply in_or_app; right; apply in_or_app; auto).
  destruct (get v st) as [l|]; [|contradiction]. destruct (nth_error l step); discriminate.
Qed.

Lemma iterate_no_attr_error nf p fuel : forall cnt err u, iterate nf p fuel cnt err u <> Err OtherError.
Proof.
  induction fuel as [|f IH]; intros cnt err u; simpl.
  - destruct (continue_ nf p err); discriminate.
  - destruct (continue_ nf p err); [|discriminate].
    destruct (sweep p u) as [w|er] eqn:E; simpl.
    + destruct (Nat.ltb (g_maxiter p) (S cnt)); [discriminate|apply IH].
    + intros H. injection H as ->. apply sweep_errs in E. destruct E as [E|[E|E]]; discriminate.
Qed.

Lemma steps_no_attr_error nf p n : forall j st,
  has_attrs (g_endo p ++ map snd (g_lagged p) ++ g_exo p) st -> steps nf p n j st <> Err OtherError.
Proof.
  induction n as [|n IH]; intros j st Hh H; simpl in H; [discriminate|].
  apply bind_err in H. destruct H as [H|[r [Hr H]]].
  - unfold one_step in H. apply bind_err in H. destruct H as [H|[pk [_ H]]].
    + revert H. apply pack_no_attr_error. exact Hh.
    + apply bind_err in H. destruct H as [H|[vk [_ H]]]; [|discriminate].
      revert H. apply iterate_no_attr_error.
  - apply bind_err in H. destruct H as [H|[r' [_ H]]]; [|discriminate].
    revert H. apply IH. unfold one_step in Hr.
    apply bind_ok in Hr. destruct Hr as [pk [_ Hr]]. apply bind_ok in Hr. destruct Hr as [vk [_ Hr]].
    injection Hr as <-. simpl. apply unpack_has_attrs. exact Hh.
Qed.

(** every lag source is an endogenous or an exogenous variable (after [DefineStepVariable]) *)
Definition lag_sources_stored (b : block) : Prop :=
  forall q, List.In q (b_lagged (define_step b)) ->
  List.In (snd q) (endo_names (define_step b) ++ exo_names (define_step b)).

Theorem no_attribute_error nf b : lag_sources_stored b -> run_v nf (gen b) <> Err OtherError.
Proof.
  intros Hs H. unfold run_v in H. apply bind_err in H. destruct H as [H|[r [_ H]]]; [|discriminate].
  unfold run_trace, gen in H. set (b' := define_step b) in *.
  apply bind_err in H. destruct H as [H|[st0 [Hi H]]].
  - change (g_init (gen_of b')) with (init b') in H. apply init_errs in H. discriminate.
  - revert H. apply steps_no_attr_error.
    change (g_init (gen_of b')) with (init b') in Hi. unfold init in Hi.
    destruct (scalar_visible (b_exo b')); [discriminate|]. injection Hi as <-.
    assert (Hk : forall v, List.In v (endo_names b' ++ exo_names b') -> get v (init_attrs b') <> None).
    { intros v Hv. apply get_In_keys. rewrite init_attrs_keys.
      apply in_app_or in Hv. apply in_or_app. destruct Hv as [Hv|Hv]; [right|left]; apply -> in_rev; exact Hv. }
    intros v Hv. apply Hk. simpl in Hv.
    apply in_app_or in Hv. destruct Hv as [Hv|Hv]; [apply in_or_app; auto|].
    apply in_app_or in Hv. destruct Hv as [Hv|Hv]; [|apply in_or_app; auto].
    apply in_map_iff in Hv. destruct Hv as [q [<- Hq]]. apply Hs. exact Hq.
Qed.

(* ------------------------------------------------------------------ *)
(** * Boolean checkers for the hypotheses (used by the examples) *)

Fixpoint nodup_b (l : list string) : bool :=
  match l with [] => true | x :: r => negb (mem x r) && nodup_b r end.

Lemma nodup_b_sound l : nodup_b l = true -> NoDup l.
Proof.
  induction l as [|x r IH]; simpl; intros H; constructor; apply andb_true_iff in H; destruct H as [H1 H2].
  - intros Hin. apply mem_In in Hin. rewrite Hin in H1. discriminate.
  - auto.
Qed.

Definition closed_block_b (b : block) : bool :=
  forallb (fun e => forallb (fun x => mem x (var_names b) || String.eqb x "k") (names e)) (endo_rhs b).

Lemma closed_block_b_sound b : closed_block_b b = true -> closed_block b.
Proof.
  intros H e He x Hx. unfold closed_block_b in H. rewrite forallb_forall in H. specialize (H e He).
  rewrite forallb_forall in H. specialize (H x Hx). apply orb_true_iff in H.
  destruct H as [H|H]; [left; now apply mem_In|right; now apply String.eqb_eq].
Qed.

Definition no_new_refs_b (p : gprog) : bool :=
  forallb (fun e => forallb (fun x => forallb (fun w => negb (String.eqb x ("NEW_" ++ w))) (g_vars p)) (names e)) (g_eqs p).

Lemma no_new_refs_b_sound p : no_new_refs_b p = true -> no_new_refs p.
Proof.
  intros H e He x Hx w Hw. unfold no_new_refs_b in H. rewrite forallb_forall in H. specialize (H e He).
  rewrite forallb_forall in H. specialize (H x Hx). rewrite forallb_forall in H. specialize (H w Hw).
  apply negb_true_iff in H. now apply String.eqb_neq.
Qed.

Definition lag_sources_stored_b (b : block) : bool :=
  forallb (fun q => mem (snd q) (endo_names (define_step b) ++ exo_names (define_step b)))
          (b_lagged (define_step b)).

Lemma lag_sources_stored_b_sound b : lag_sources_stored_b b = true -> lag_sources_stored b.
Proof.
  intros H q Hq. unfold lag_sources_stored_b in H. rewrite forallb_forall in H. apply mem_In. apply H. exact Hq.
Qed.

(* ------------------------------------------------------------------ *)
(** * The statement of C20_satisfies *)

Lemma continue_fixed p e : continue_ true p e = false -> PrimFloat.leb e (g_tol p) = true.
Proof. unfold continue_. intros H. now apply negb_false_iff in H. Qed.

Lemma continue_orig p e : continue_ false p e = false -> PrimFloat.ltb (g_tol p) e = false.
Proof. unfold continue_. auto. Qed.

(** Period [k] of a successful run of the generated module, read off its final attributes [fin]:
    there are vectors [A] (the initial guess), [B] (lagged components), [C] (exogenous components)
    and [A'] (the reported endogenous row) with
    - [B] = the module's own row [k-1] of the lag sources, [C] = row [k] of the exogenous
      attributes (which are the supplied paths, see [exo_paths]), [A'] = row [k] of the
      endogenous attributes;
    - either no sweep was made because the initial error [1.] already passes [1. <= tol], or
      [A' ++ B ++ C] is one sweep [F u] of a vector [u = A0 ++ B ++ C] with the same lagged and
      exogenous components and [CalcError u (F u) <= tol]. *)
Definition period_ok (p : gprog) (fin : attrs) (k : nat) : Prop :=
  exists A B C A' : list float,
    List.length A = List.length (g_endo p) /\ List.length A' = List.length (g_endo p) /\
    Forall2 (fun q x => exists l, get (snd q) fin = Some l /\ nth_error l (k - 1) = Some x) (g_lagged p) B /\
    Forall2 (fun v x => exists l, get v fin = Some l /\ nth_error l k = Some x) (g_exo p) C /\
    Forall2 (fun v x => exists l, get v fin = Some l /\ nth_error l k = Some x) (g_endo p) A' /\
    ((A' = A /\ PrimFloat.leb 1 (g_tol p) = true) \/
     exists A0, List.length A0 = List.length (g_endo p) /\
                sweep p (A0 ++ B ++ C) = Ok (A' ++ B ++ C)%list /\
                PrimFloat.leb (calc_error (A0 ++ B ++ C) (A' ++ B ++ C)) (g_tol p) = true).

Theorem satisfies b fin :
  NoDup (var_names b) -> no_new_refs (gen b) -> run (gen b) = Ok fin ->
  (forall x l, List.In (x, ExList l) (b_exo (define_step b)) -> get x fin = Some (firstn (S (b_maxtime b)) l)) /\
  forall k, 1 <= k <= b_maxtime b -> period_ok (gen b) fin k.
Proof.
  intros Hnd Hnn H. apply run_v_trace in H. destruct H as [tr H]. unfold gen in *.
  destruct (run_trace_spec true (define_step b) fin tr (define_step_NoDup b Hnd) Hnn H) as [_ [_ [Hp Hs]]].
  rewrite define_step_maxtime in *. split; [exact Hp|].
  intros k Hk. destruct (Hs k Hk) as [pk [vk [_ Hok]]].
  destruct Hok as [A [B [C [A' [_ [_ [HA [HA' [HB [HC [HR Hst]]]]]]]]]]].
  exists A, B, C, A'. repeat (split; [assumption|]).
  destruct Hst as [[-> Hc]|[A0 [HA0 [Hsw Hc]]]].
  - left. split; [reflexivity|]. now apply continue_fixed in Hc.
  - right. exists A0. split; [exact HA0|]. split; [exact Hsw|]. now apply continue_fixed in Hc.
Qed.
