(** Boolean comparison helpers used by the generated correspondence cases of C20. *)
From Coq Require Import List String Bool PrimFloat.
From SFC.Base Require Import Res Expr.
From SFC.Out Require Import Csv.
From SFC.Codegen Require Import Gen.
Import ListNotations.

Fixpoint list_eqb {A} (eqb : A -> A -> bool) (a b : list A) : bool :=
  match a, b with
  | [], [] => true
  | x :: a', y :: b' => eqb x y && list_eqb eqb a' b'
  | _, _ => false
  end.

Definition res_eqb {A} (eqb : A -> A -> bool) (a b : result A) : bool :=
  match a, b with
  | Ok x, Ok y => eqb x y
  | Err e, Err f => err_eqb e f
  | _, _ => false
  end.

Definition sl_eqb := list_eqb String.eqb.
Definition fl_eqb := list_eqb same_float.

(** One generated module.  [allvars], [nonlagged]: the generator's lists after [main()];
    [expected]: the series of the variables of [VariableList] after [obj.main()] (or the class of
    the exception raised by import / construction / run); [table]: on success the cells of these
    series rendered by Python's [str], and the text returned by [CreateCsvString()]. *)
Definition c20_case (b : block) (allvars nonlagged : list string)
           (expected : result (list (list float)))
           (table : option (list (string * list string) * string)) : bool :=
  let p := gen b in
  sl_eqb (g_vars p) allvars && sl_eqb (g_nonlagged p) nonlagged &&
  res_eqb (list_eqb fl_eqb) (observe p (run p)) expected &&
  match table with
  | None => true
  | Some (cells, text) => res_eqb String.eqb (fst (create_csv (g_nonlagged p) cells)) (Ok text)
  end.
