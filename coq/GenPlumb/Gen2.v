(** The top-level arguments of GenMain2/Zones.v (C01 per currency zone, C07) with the facts about the
    _GenerateEquations calls abstracted: whatever is known about a call, all that is used is
    "it leaves the potential of every real currency zone unchanged" (C01) and "the NET term lists
    evolve by FX operations between registered real currencies, in send/receive pairs unless it is a
    gold purchase" (C07).  Zones.v's theorems are the instance [gen_ok2]; Multi.v instantiates them
    for markets supplied from several other zones. *)
From Coq Require Import List String Bool ZArith Arith Lia Reals Lra.
From SFC.Base Require Import Res Str Sorting.
From SFC.Gen Require Import Fx Flows Zone.
From SFC.GenMarket Require Import Market MarketProofs.
From SFC.GenTax Require Import Tax Dividends TaxProofs DividendProofs.
From SFC.GenMain2 Require Import Program Classes Main Ledger MainProofs Names Conflict Balance
                                 Program2 Main2 Ledger2 MainProofs2 Names2 Conflict2 Balance2 Zones.
Import ListNotations.
Local Open Scope string_scope.
Local Open Scope list_scope.
Local Open Scope R_scope.

(** what C01 needs to know about one _GenerateEquations call *)
Definition gen_pot_ok (Rn : run2) (v : string -> R) (bv : string -> string -> R) (x : (nat * cls2) * gstate2 * gstate2) : Prop :=
  let J := q_info Rn in
  let bizsG := all_biz (to_old J) (fs_zone (q_final Rn)) in
  let '((i, k), sa, sb) := x in
  k = class_of2 (j_classes J) i ->
  Forall2 frame (h_zone sb) (fs_zone (q_final Rn)) -> NoDup (map sid (h_zone sa)) ->
  (forall s, List.In s (h_zone sa) -> existsb (Nat.eqb (sid s)) bizsG = is_fmb (class_of (i_classes (to_old J)) (sid s))) ->
  forall c, c <> NUM -> pot2 v bv J bizsG c (h_zone sb) = pot2 v bv J bizsG c (h_zone sa).

Theorem c01_general p Rn : build_run2 p = Ok Rn -> ledger_untouched2_b p = true ->
  forallb (flow_ok2 (q_info Rn)) (q_flows Rn) = true -> forallb (exo_ok2 (q_info Rn)) (q_exo Rn) = true ->
  final_ok2 (q_info Rn) (q_zone0 Rn) (fs_zone (q_final Rn)) = true ->
  forall (v vprev : string -> R) (bv : string -> string -> R),
    sat (q_final Rn) v vprev bv ->
    (forall x, List.In x (q_gen Rn) -> gen_pot_ok Rn v bv x) ->
    forall c, c <> NUM -> List.In c (zones_of (j_countries (q_info Rn))) ->
      ledger_sum v (filter (in_zone (j_countries (q_info Rn)) c) (fs_zone (q_final Rn))) + net_value Rn v c = 0.
Proof.
  intros HR LU FLOK XOK FOK v vprev bv HS GOK c Hc Hz.
  apply ledger_untouched2_b_ok in LU.
  pose proof (main2_ledger_decomposition _ _ HR LU) as LD.
  destruct (build_run2_inv _ _ HR) as (st & HC & HM).
  pose proof (construct_all2_cinv _ _ HC) as CI.
  destruct (main_run2_inv _ _ HM) as (gfin & Z1 & E0 & EI & C1 & M1 & C2 & C3 & M3 & _).
  rewrite forallb_forall in FLOK, XOK.
  set (Zf := fs_zone (q_final Rn)) in *. set (J := q_info Rn) in *. set (bizsG := all_biz (to_old J) Zf).
  assert (FG : forall st0 b st', gen_step2 J st0 b = Ok st' -> Forall2 frame (h_zone st0) (h_zone st')).
  { intros st0 b st' Hs. apply (zstep_frame _ _ _ (gen_step2_zstep _ _ _ _ Hs)). }
  assert (FFl : forall Z b Z', flow_step2 J Z b = Ok Z' -> Forall2 frame Z Z').
  { intros Z b Z' Hs. apply (zstep_frame _ _ _ (flow2_zstep _ _ _ _ Hs)). }
  pose proof (chain_frames exo_step (fun Z => Z) exo_step_frame _ _ _ C3) as F3.
  pose proof (chain_frames (flow_step2 J) (fun Z => Z) FFl _ _ _ C2) as F2.
  pose proof (chain_frames (gen_step2 J) h_zone FG _ _ _ C1) as F1. cbn [h_zone] in F1.
  assert (ND0 : NoDup (map sid (zone02 st))).
  { apply NoDup_map_inj; [eapply zone02_nodup; exact CI|].
    intros x y Hx Hy E. apply zone02_In in Hx as (s & Hs & -> & _). apply zone02_In in Hy as (s' & Hs' & -> & _).
    f_equal. simpl in E. apply (NoDup_map_In_inj sid (k_secs st)); [|exact Hs|exact Hs'|exact E].
    rewrite (d_sids _ _ _ _ CI). apply seq_NoDup. }
  assert (NDg : NoDup (map sid (h_zone gfin))) by (rewrite (map_frame sid _ _ frame_sid F1); exact ND0).
  assert (ND1 : NoDup (map sid Z1)) by (rewrite (map_frame sid _ _ frame_sid F2); exact NDg).
  assert (BZ : forall Z, Forall2 frame Z Zf -> forall s, List.In s Z ->
                existsb (Nat.eqb (sid s)) bizsG = is_fmb (class_of (i_classes (to_old J)) (sid s))).
  { intros Z HF s Hs. apply all_biz_member. rewrite (map_frame sid _ _ frame_sid HF). now apply in_map. }
  assert (P3 : pot2 v bv J bizsG c Zf = pot2 v bv J bizsG c Z1).
  { apply (chain_pot exo_step (fun Z => Z) (pot2 v bv J bizsG c) Zf exo_step_frame _ _ _ C3); [|apply Forall2_refl_frame|exact ND1].
    intros [[x Za] Zb] Hx HF _. cbn [fst snd].
    apply (exo2_pot v bv J bizsG x Za Zb (chain_In _ _ _ _ _ C3 Hx) (XOK _ Hx)). }
  assert (P2 : pot2 v bv J bizsG c Z1 = pot2 v bv J bizsG c (h_zone gfin)).
  { apply (chain_pot (flow_step2 J) (fun Z => Z) (pot2 v bv J bizsG c) Z1 FFl _ _ _ C2); [|apply Forall2_refl_frame|exact NDg].
    intros [[fl Za] Zb] Hx HF ND. cbn [fst snd] in *.
    pose proof (chain_In _ _ _ _ _ C2 Hx) as FS. cbn [fst snd] in FS.
    apply (flow2_pot v bv J bizsG fl Za Zb ND (FFl _ _ _ FS) (FLOK _ Hx) c Hc). }
  assert (P1 : pot2 v bv J bizsG c (h_zone gfin) = pot2 v bv J bizsG c (zone02 st)).
  { apply (chain_pot (gen_step2 J) h_zone (pot2 v bv J bizsG c) Zf FG _ _ _ C1); [| |exact ND0].
    2:{ eapply Forall2_trans_frame; [exact F2|exact F3]. }
    intros [[[i k] sa] sb] Hx HF ND. cbn [fst snd] in *.
    pose proof (chain_In _ _ _ _ _ C1 Hx) as GS. cbn [fst snd] in GS.
    apply (GOK _ Hx); [|exact HF|exact ND| |exact Hc].
    - assert (Hm : List.In (i, k) (map (fun x => fst (fst x)) (q_gen Rn))) by (apply in_map_iff; exists (i, k, sa, sb); auto).
      rewrite M1 in Hm. apply in_map_iff in Hm as (s0 & E & _). injection E as <- <-. fold J. rewrite EI. reflexivity.
    - apply BZ. eapply Forall2_trans_frame; [apply (FG _ _ _ GS)|exact HF]. }
  rewrite E0 in LD.
  pose proof (Forall2_trans_frame _ _ _ F1 (Forall2_trans_frame _ _ _ F2 F3)) as FA. fold Zf in FA.
  set (inzc := in_zone (j_countries J) c) in *.
  assert (FAc : Forall2 frame (filter inzc (zone02 st)) (filter inzc Zf)) by (apply filter_frame; [apply in_zone_stable|exact FA]).
  destruct (net_final Rn v vprev bv c HS FOK Hz) as [NF N0]. fold J Zf in NF, N0. rewrite E0 in N0.
  assert (START : pot2 v bv J bizsG c (zone02 st) = sum_lag v (filter inzc (zone02 st))).
  { unfold pot2. rewrite N0. fold inzc. change (inz J c) with inzc. rewrite pot_start; [lra|].
    pose proof (zone02_ledger_init _ _ CI LU) as LI. rewrite Forall_forall in *. intros s Hs. apply filter_In in Hs as [Hs _]. now apply LI. }
  assert (FIN : pot2 v bv J bizsG c Zf = sum_F v (filter inzc Zf) + net_value Rn v c).
  { unfold pot2. rewrite NF. change (inz J c) with inzc. f_equal.
    apply andb_true_iff in FOK as [FOK1 _].
    apply (pot_fin v vprev bv (to_old J) (q_final Rn) (filter inzc Zf) HS FOK1).
    - intros sf Hsf. now apply filter_In in Hsf as [Hsf _].
    - intros sf Hsf. apply filter_In in Hsf as [Hsf _].
      destruct (Forall2_In_r _ _ _ _ LD Hsf) as (s & Hs & (Fr & tss & _ & HH)).
      rewrite (frame_hasF _ _ Fr). destruct (hasF s); [destruct HH as (HH & _); eauto|tauto]. }
  rewrite ledger_sum_split, (sum_lag_frames v _ _ FAc).
  assert (TOT : pot2 v bv J bizsG c Zf = pot2 v bv J bizsG c (zone02 st)) by (rewrite P3, P2, P1; reflexivity).
  rewrite FIN, START in TOT. lra.
Qed.

(** what C07 needs to know about one _GenerateEquations call *)
Definition gen_fx_ok (Rn : run2) (x : (nat * cls2) * gstate2 * gstate2) : Prop :=
  step_fx (q_info Rn) (is_gold (snd (fst (fst x)))) (h_zone (snd (fst x))) (h_zone (snd x)).

Theorem c07_general p Rn : build_run2 p = Ok Rn ->
  forallb (flow_ok2 (q_info Rn)) (q_flows Rn) = true -> forallb (exo_ok2 (q_info Rn)) (q_exo Rn) = true ->
  final_ok2 (q_info Rn) (q_zone0 Rn) (fs_zone (q_final Rn)) = true ->
  (forall x, List.In x (q_gen Rn) -> gen_fx_ok Rn x) ->
  j_ext (q_info Rn) <> None ->
  forall (v vprev : string -> R) (bv : string -> string -> R), sat (q_final Rn) v vprev bv ->
    let zs := zones_of (j_countries (q_info Rn)) in
    (rates_ok2 zs v -> TaxProofs.sumR (fun c => v (net_key c) * rate v c) zs = 0) /\
    (forallb (fun x => negb (is_gold (snd (fst (fst x))))) (q_gen Rn) = true -> List.In NUM zs -> v (net_key NUM) = 0).
Proof.
  intros HR FLOK XOK FOK GOK EX v vprev bv HS zs.
  destruct (build_run2_inv _ _ HR) as (st & HC & HM).
  destruct (main_run2_inv _ _ HM) as (gfin & Z1 & E0 & EI & C1 & M1 & C2 & C3 & M3 & _).
  rewrite forallb_forall in FLOK, XOK.
  set (Zf := fs_zone (q_final Rn)) in *. set (J := q_info Rn) in *.
  assert (ALLC : forall c, List.In c zs -> netv v J Zf c = net_value Rn v c).
  { intros c Hc. apply (net_final Rn v vprev bv c HS FOK Hc). }
  pose proof FOK as FOK'. unfold final_ok2 in FOK'. apply andb_true_iff in FOK' as [_ FOK'].
  fold J in FOK'. destruct (j_ext J) as [e|] eqn:EJ; [|congruence].
  fold Zf in FOK'. destruct (find_sec (e_fx e) Zf) as [fx|] eqn:Ffx; [|discriminate]. destruct (find_sec (e_xr e) Zf) as [xr|]; [|discriminate].
  destruct (ledger_of J (q_zone0 Rn)) as [L0|] eqn:EL0; [|discriminate].
  repeat (apply andb_true_iff in FOK' as [FOK' ?]). rename H0 into KE.
  destruct (valued_all_empty v L0 KE) as [V0 N0].
  assert (LF : ledger_of J Zf = Some (map (fun c => (c, net_of fx c)) zs)).
  { unfold ledger_of. rewrite EJ. now rewrite Ffx. }
  assert (NETC : forall c, List.In c zs -> v (net_key c) = tsum v (net_of fx c)).
  { intros c Hc. specialize (ALLC c Hc). unfold netv, net_value in ALLC. fold J in ALLC. rewrite EJ, LF in ALLC.
    cbn [net_terms] in ALLC. rewrite (lookup_zones (net_of fx) c _ Hc) in ALLC. now rewrite ALLC. }
  split.
  - intros RT.
    assert (INV : VAL v J Zf = VAL v J (q_zone0 Rn)).
    { rewrite E0.
      rewrite (chain_inv exo_step (fun Z => Z) (VAL v J) _ _ _ C3).
      2:{ intros [[x Za] Zb] Hx. cbn [fst snd]. eapply (step_val v J RT). apply (exo_ok2_fx _ _ _ _ (XOK _ Hx)). }
      rewrite (chain_inv (flow_step2 J) (fun Z => Z) (VAL v J) _ _ _ C2).
      2:{ intros [[x Za] Zb] Hx. cbn [fst snd]. eapply (step_val v J RT). apply (flow_ok2_fx _ _ _ _ (FLOK _ Hx)). }
      apply (chain_inv (gen_step2 J) h_zone (VAL v J) _ _ _ C1).
      intros x Hx. eapply (step_val v J RT). apply (GOK _ Hx). }
    unfold VAL in INV. rewrite LF, EL0, valued_zones, V0 in INV. rewrite <- INV.
    apply TaxProofs.sumR_ext. intros c Hc. now rewrite (NETC c Hc).
  - intros NG HN.
    rewrite forallb_forall in NG.
    assert (INV : NUMS v J Zf = NUMS v J (q_zone0 Rn)).
    { rewrite E0.
      rewrite (chain_inv exo_step (fun Z => Z) (NUMS v J) _ _ _ C3).
      2:{ intros [[x Za] Zb] Hx. cbn [fst snd]. apply (step_nums v J). apply (exo_ok2_fx _ _ _ _ (XOK _ Hx)). }
      rewrite (chain_inv (flow_step2 J) (fun Z => Z) (NUMS v J) _ _ _ C2).
      2:{ intros [[x Za] Zb] Hx. cbn [fst snd]. apply (step_nums v J). apply (flow_ok2_fx _ _ _ _ (FLOK _ Hx)). }
      apply (chain_inv (gen_step2 J) h_zone (NUMS v J) _ _ _ C1).
      intros x Hx. apply (step_nums v J).
      pose proof (GOK _ Hx) as SF. unfold gen_fx_ok in SF. specialize (NG _ Hx).
      apply negb_true_iff in NG. now rewrite NG in SF. }
    unfold NUMS in INV. rewrite LF, EL0, N0 in INV. rewrite (num_sum_zones v (net_of fx) zs (NoDup_nodup _ _)) in INV.
    apply mem_In in HN. rewrite HN in INV. now rewrite (NETC NUM (proj1 (mem_In _ _) HN)).
Qed.
