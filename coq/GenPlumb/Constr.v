(** Construction invariants of [Main2.construct_all2] the plumbing proofs need (beyond MainProofs2.cinv2):
    - every equation of a variable whose name starts with NET_ has an empty term list until main() runs;
    - when the ExternalSector exists: its three sectors are where [k_ext] says, in country EXT with
      currency NUMERAIRE, and the FX sector owns NET_<c> for every currency of the model. *)
From Coq Require Import List String Ascii Bool ZArith Arith Lia.
From SFC.Base Require Import Res Str.
From SFC.Gen Require Import Fx Zone.
From SFC.GenMarket Require Import Market MarketProofs.
From SFC.GenAsset Require Import Common Weighting.
From SFC.GenTax Require Import Tax TaxProofs.
From SFC.GenMain2 Require Import Program Classes Main Ledger MainProofs Program2 Main2 Ledger2 MainProofs2.
From SFC.GenPlumb Require Import FootDefs.
Import ListNotations.
Local Open Scope string_scope.

(* ------------------------------------------------------------------ *)
(** * Per-sector relation of a construction step *)

(** NET_* variables have no parsed terms *)
Definition nt (s : sector) : Prop :=
  forall n e, is_net n = true -> lookup_var n (vars s) = Some e -> terms e = [].

Record cq (s s' : sector) : Prop := mkCq {
  cq_frame : frame s s';
  cq_mono : forall n, has_var s n = true -> has_var s' n = true;
  cq_nt : nt s -> nt s'
}.

Lemma cq_refl s : cq s s.
Proof. split; [apply frame_refl|auto|auto]. Qed.

Lemma cq_trans a b c : cq a b -> cq b c -> cq a c.
Proof. intros [F1 M1 N1] [F2 M2 N2]. split; [eapply frame_trans; eassumption|auto|auto]. Qed.

Lemma cq_set_var s n e : is_net n = false \/ terms e = [] -> cq s (with_vars s (set_var n e (vars s))).
Proof.
  intros H. split; [apply frame_with_vars| |].
  - intros m. unfold has_var. cbn. apply has_set_var.
  - intros N m e0 Hm. cbn. destruct (String.eqb_spec n m) as [->|Nm].
    + rewrite lookup_set_same. intros E. injection E as <-. destruct H as [H|H]; [congruence|exact H].
    + rewrite (lookup_set_other n m e _ Nm). now apply N.
Qed.

Lemma cq_add_variable s n b : cq s (add_variable s n b).
Proof. apply cq_set_var. now right. Qed.

Lemma cq_addv s n t s' : addv s n t = Ok s' -> cq s s'.
Proof. unfold addv. destruct (has_substring "__" n); [discriminate|]. intros H. injection H as <-. apply cq_add_variable. Qed.

Lemma cq_addvs : forall l s s', addvs s l = Ok s' -> cq s s'.
Proof.
  induction l as [|[n t] l IH]; intros s s' H; simpl in H; [injection H as <-; apply cq_refl|].
  destruct (addv s n t) as [s1|] eqn:E; [|discriminate]. simpl in H.
  eapply cq_trans; [eapply cq_addv; exact E|now apply IH].
Qed.

Lemma cq_set_rhs s n b s' : set_rhs s n b = Some s' -> cq s s'.
Proof.
  unfold set_rhs. destruct (lookup_var n (vars s)); [|discriminate]. intros H. injection H as <-. apply cq_set_var. now right.
Qed.

Lemma cq_add_term_to_eq s n t s' : is_net n = false -> add_term_to_eq s n t = Some s' -> cq s s'.
Proof.
  unfold add_term_to_eq. intros Hn. destruct (lookup_var n (vars s)); [|discriminate]. intros H. injection H as <-.
  apply cq_set_var. now left.
Qed.

Lemma cq_def_variable s n ts : is_net n = false -> cq s (def_variable s n ts).
Proof. intros H. apply cq_set_var. now left. Qed.

Lemma cq_add_market s m s' : add_market s m = Ok s' -> cq s s'.
Proof.
  unfold add_market. set (t := if String.eqb (snd m) (country s) then "SUP_" ++ fst m else "SUP_" ++ snd m ++ "_" ++ fst m).
  intros H. destruct (addv s t "") as [s1|] eqn:E1; [|discriminate]. cbn [bind] in H.
  destruct (add_term_to_eq s1 "SUP" (1%Z, [t])) as [s2|] eqn:E2; [|discriminate]. injection H as <-.
  eapply cq_trans; [eapply cq_addv; exact E1|eapply cq_add_term_to_eq; [|exact E2]; reflexivity].
Qed.

Lemma cq_add_markets : forall l s s', add_markets s l = Ok s' -> cq s s'.
Proof.
  induction l as [|m l IH]; intros s s' H; simpl in H; [injection H as <-; apply cq_refl|].
  destruct (add_market s m) as [s1|] eqn:E; [|discriminate]. cbn [bind] in H.
  eapply cq_trans; [eapply cq_add_market; exact E|now apply IH].
Qed.

Lemma cq_weighting_loop : forall d s resid s' r', weighting_loop s d resid = Ok (s', r') -> cq s s'.
Proof.
  induction d as [|[c w] d IH]; intros s resid s' r' H; cbn [weighting_loop] in H; [injection H as <- _; apply cq_refl|].
  destruct (has_substring "__" (wgt_name c)); [discriminate|]. destruct (has_substring "__" (dem_name c)); [discriminate|].
  apply IH in H. eapply cq_trans; [|exact H].
  eapply cq_trans; [apply cq_add_variable|apply cq_def_variable; reflexivity].
Qed.

Lemma cq_asset_weighting s ws res s' : asset_weighting s ws res false = Ok s' -> cq s s'.
Proof.
  unfold asset_weighting.
  destruct (weighting_loop s (dict_of_pairs ws) [(1%Z, [])]) as [[s1 resid]|] eqn:E; [|discriminate]. cbn [bind].
  destruct (has_substring "__" (wgt_name res)); [discriminate|].
  destruct (has_substring "__" (dem_name res)); [discriminate|].
  intros H. injection H as <-.
  eapply cq_trans; [eapply cq_weighting_loop; exact E|].
  eapply cq_trans; apply cq_def_variable; reflexivity.
Qed.

Lemma nt_base i c cc f t m ex : nt (base_sector i c cc f t m ex).
Proof.
  intros n e Hn. unfold base_sector. cbn [vars]. destruct f; cbn [ledger_vars lookup_var]; [|discriminate].
  destruct (String.eqb_spec n "F") as [->|_]; [discriminate Hn|].
  destruct (String.eqb_spec n "INC") as [->|_]; [discriminate Hn|].
  destruct (String.eqb_spec n "LAG_F") as [->|_]; [discriminate Hn|]. discriminate.
Qed.

Lemma construct_nt i cc c k mrefs s : construct i cc c k mrefs = Ok s -> nt s.
Proof.
  assert (BH : forall ai af good s0, base_household i c cc ai af good = Ok s0 -> nt s0).
  { intros ai af good s0 H. unfold base_household in H. apply cq_addvs in H. apply (cq_nt _ _ H). apply nt_base. }
  assert (BM : forall s0, base_market i c cc = Ok s0 -> nt s0).
  { intros s0 H. unfold base_market in H. apply cq_addvs in H. apply (cq_nt _ _ H). apply nt_base. }
  destruct k; unfold construct; intros H.
  - apply cq_addvs in H. apply (cq_nt _ _ H). apply nt_base.
  - apply cq_addvs in H. apply (cq_nt _ _ H). apply nt_base.
  - apply cq_addvs in H. apply (cq_nt _ _ H). apply nt_base.
  - bind_step H s1 E. apply cq_addv in H. apply (cq_nt _ _ H). eapply BH; exact E.
  - bind_step H s1 E. bind_step H s2 E2. destruct (set_rhs s2 _ _) as [s3|] eqn:E3; [|discriminate].
    apply cq_addvs in H. apply (cq_nt _ _ H). apply cq_set_rhs in E3. apply (cq_nt _ _ E3).
    apply cq_addv in E2. apply (cq_nt _ _ E2). eapply BH; exact E.
  - bind_step H s1 E. apply cq_addv in H. apply (cq_nt _ _ H). eapply BH; exact E.
  - apply cq_addvs in H. apply (cq_nt _ _ H). apply nt_base.
  - bind_step H s1 E. bind_step H s2 E2. apply cq_addvs in H. apply (cq_nt _ _ H).
    apply cq_add_markets in E2. apply (cq_nt _ _ E2). apply cq_addv in E. apply (cq_nt _ _ E). apply nt_base.
  - apply cq_addvs in H. apply (cq_nt _ _ H). apply nt_base.
  - now apply BM.
  - now apply BM.
  - bind_step H s1 E. apply cq_addvs in H. apply (cq_nt _ _ H). now apply BM.
Qed.

Lemma construct2_nt i cc c k mrefs s : construct2 i cc c k mrefs = Ok s -> nt s.
Proof.
  destruct k; unfold construct2; try apply construct_nt.
  all: intros H; injection H as <-; apply nt_base.
Qed.

(* ------------------------------------------------------------------ *)
(** * Lists of sectors *)

Lemma F2_find {R : sector -> sector -> Prop} (HR : forall s s', R s s' -> sid s' = sid s) i :
  forall Z Z', Forall2 R Z Z' -> forall s, find_sec i Z = Some s -> exists s', find_sec i Z' = Some s' /\ R s s'.
Proof.
  intros Z Z' H. induction H as [|a b l l' Hab _ IH]; intros s Hs; [discriminate|].
  unfold find_sec in *. cbn [find] in *. rewrite (HR _ _ Hab). destruct (Nat.eqb (sid a) i).
  - injection Hs as <-. eauto.
  - now apply IH.
Qed.

Lemma F2_find_none {R : sector -> sector -> Prop} (HR : forall s s', R s s' -> sid s' = sid s) i :
  forall Z Z', Forall2 R Z Z' -> find_sec i Z = None -> find_sec i Z' = None.
Proof.
  intros Z Z' H. induction H as [|a b l l' Hab _ IH]; intros Hs; [reflexivity|].
  unfold find_sec in *. cbn [find] in *. rewrite (HR _ _ Hab). destruct (Nat.eqb (sid a) i); [discriminate|now apply IH].
Qed.

Lemma cq_sid s s' : cq s s' -> sid s' = sid s.
Proof. intros [F _ _]. now apply frame_sid. Qed.

Lemma pq_sid P s s' : pq P s s' -> sid s' = sid s.
Proof. intros [F _ _]. now apply frame_sid. Qed.

Lemma upd_cq i f : (forall s s', f s = Ok s' -> cq s s') -> forall Z Z', upd i f Z = Ok Z' -> Forall2 cq Z Z'.
Proof.
  intros Hf. induction Z as [|a r IH]; intros Z' H; simpl in H; [discriminate|].
  destruct (Nat.eqb (sid a) i).
  - destruct (f a) as [a'|] eqn:Fa; [|discriminate]. injection H as <-. constructor; [now apply Hf|].
    clear. induction r; constructor; [apply cq_refl|assumption].
  - destruct (upd i f r) as [r'|]; [|discriminate]. injection H as <-. constructor; [apply cq_refl|now apply IH].
Qed.

Lemma on_sector_cq i f Z Z' : (forall s s', f s = Ok s' -> cq s s') -> on_sector i f Z = Ok Z' -> Forall2 cq Z Z'.
Proof. unfold on_sector. intros Hf. destruct (find_sec i Z); [|discriminate]. now apply upd_cq. Qed.

Lemma F2_cq_refl Z : Forall2 cq Z Z.
Proof. induction Z; constructor; [apply cq_refl|assumption]. Qed.

Lemma F2_cq_trans A B C : Forall2 cq A B -> Forall2 cq B C -> Forall2 cq A C.
Proof.
  intros H1. revert C. induction H1 as [|a b A B Hab _ IH]; intros C H2; inversion H2; subst; constructor.
  - eapply cq_trans; eassumption.
  - now apply IH.
Qed.

Lemma F2_cq_nt Z Z' : Forall2 cq Z Z' -> Forall nt Z -> Forall nt Z'.
Proof. intros H. induction H as [|a b l l' Hab _ IH]; intros HN; inversion HN; subst; constructor; [now apply (cq_nt _ _ Hab)|auto]. Qed.

Lemma find_sec_app_l i Z Y s : find_sec i Z = Some s -> find_sec i (Z ++ Y)%list = Some s.
Proof.
  unfold find_sec. induction Z as [|a r IH]; [discriminate|]. cbn [find app]. destruct (Nat.eqb (sid a) i); auto.
Qed.

Lemma find_sec_seq_none Z i : map sid Z = seq 0 (List.length Z) -> List.length Z <= i -> find_sec i Z = None.
Proof.
  intros HS Hi. unfold find_sec. destruct (find (fun s => Nat.eqb (sid s) i) Z) as [s|] eqn:E; [|reflexivity].
  apply find_some in E as [E1 E2]. apply Nat.eqb_eq in E2.
  assert (Hin : List.In (sid s) (map sid Z)) by now apply in_map. rewrite HS in Hin. apply in_seq in Hin. lia.
Qed.

Lemma find_sec_app_r i Z Y : find_sec i Z = None -> find_sec i (Z ++ Y)%list = find_sec i Y.
Proof.
  unfold find_sec. induction Z as [|a r IH]; [reflexivity|]. cbn [find app]. destruct (Nat.eqb (sid a) i); [discriminate|auto].
Qed.

(* ------------------------------------------------------------------ *)
(** * The external sector *)

Definition ext_ok (e : ext_ids) (cs : list (string * string)) (SL : list sector) : Prop :=
  e_fx e = S (e_xr e) /\ e_gold e = S (S (e_xr e)) /\ List.In ("EXT", NUM) cs /\
  exists xr fx, find_sec (e_xr e) SL = Some xr /\ country xr = "EXT" /\ code xr = "XR" /\
                find_sec (e_fx e) SL = Some fx /\ country fx = "EXT" /\ code fx = "FX" /\
                forall c, List.In c (map snd cs) -> has_var fx ("NET_" ++ c) = true.

Lemma ext_ok_cq e cs SL SL' : ext_ok e cs SL -> Forall2 cq SL SL' -> ext_ok e cs SL'.
Proof.
  intros (E1 & E2 & E3 & xr & fx & F1 & C1 & D1 & F2 & C2 & D2 & HN) H.
  destruct (F2_find cq_sid _ _ _ H _ F1) as (xr' & F1' & Q1). destruct (F2_find cq_sid _ _ _ H _ F2) as (fx' & F2' & Q2).
  split; [exact E1|]. split; [exact E2|]. split; [exact E3|]. exists xr', fx'.
  rewrite (frame_country _ _ (cq_frame _ _ Q1)), (frame_code _ _ (cq_frame _ _ Q1)),
          (frame_country _ _ (cq_frame _ _ Q2)), (frame_code _ _ (cq_frame _ _ Q2)).
  repeat split; auto. intros c Hc. apply (cq_mono _ _ Q2). now apply HN.
Qed.

Lemma ext_ok_app e cs SL s : ext_ok e cs SL -> ext_ok e cs (SL ++ [s])%list.
Proof.
  intros (E1 & E2 & E3 & xr & fx & F1 & C1 & D1 & F2 & C2 & D2 & HN).
  split; [exact E1|]. split; [exact E2|]. split; [exact E3|]. exists xr, fx.
  repeat split; auto; now apply find_sec_app_l.
Qed.

Lemma register_currency_cq e cur SL SL' : register_currency e cur SL = Ok SL' -> Forall2 cq SL SL'.
Proof.
  unfold register_currency. intros H. bind_step H S1 E1.
  eapply F2_cq_trans; [eapply on_sector_cq; [|exact E1]|eapply on_sector_cq; [|exact H]].
  - intros s s'. apply cq_addv.
  - intros s s'. apply cq_addvs.
Qed.

Lemma addvs_has : forall l s s', addvs s l = Ok s' -> forall n, List.In n (map fst l) -> has_var s' n = true.
Proof.
  induction l as [|[n t] l IH]; intros s s' H m Hm; simpl in *; [contradiction|].
  destruct (addv s n t) as [s1|] eqn:E; [|discriminate]. simpl in H. destruct Hm as [<-|Hm]; [|eapply IH; eassumption].
  apply cq_addvs in H. apply (cq_mono _ _ H). unfold addv in E. destruct (has_substring "__" n); [discriminate|].
  injection E as <-. unfold has_var, add_variable. cbn. now rewrite lookup_set_same.
Qed.

Lemma upd_find_spec i f : (forall a a', f a = Ok a' -> sid a' = sid a) ->
  forall Z Z' s, upd i f Z = Ok Z' -> find_sec i Z = Some s -> exists s', f s = Ok s' /\ find_sec i Z' = Some s'.
Proof.
  intros Hf. unfold find_sec. induction Z as [|a r IH]; intros Z' s H Hs; cbn [upd find] in *; [discriminate|].
  destruct (Nat.eqb (sid a) i) eqn:E.
  - injection Hs as <-. destruct (f a) as [a'|] eqn:Fa; [|discriminate]. injection H as <-. exists a'. split; [reflexivity|].
    cbn [find]. now rewrite (Hf _ _ Fa), E.
  - destruct (upd i f r) as [r'|] eqn:U; [|discriminate]. injection H as <-. cbn [find]. rewrite E. eapply IH; [reflexivity|exact Hs].
Qed.

Lemma register_currency_has e cur SL SL' fx : register_currency e cur SL = Ok SL' -> e_fx e <> e_xr e ->
  find_sec (e_fx e) SL = Some fx -> exists fx', find_sec (e_fx e) SL' = Some fx' /\ has_var fx' ("NET_" ++ cur) = true.
Proof.
  unfold register_currency. intros H NE F.
  destruct (on_sector (e_xr e) (fun s => addv s cur "1.0") SL) as [S1|] eqn:E1; [|discriminate]. cbv beta iota delta [bind] in H.
  assert (Q1 : Forall2 cq SL S1) by (eapply on_sector_cq; [|exact E1]; intros s s'; apply cq_addv).
  destruct (F2_find cq_sid _ _ _ Q1 _ F) as (fx1 & F1 & _).
  unfold on_sector in H. rewrite F1 in H.
  destruct (upd_find_spec _ _ (fun a a' Ha => cq_sid _ _ (cq_addvs _ _ _ Ha)) _ _ _ H F1) as (fx' & Hf & F').
  exists fx'. split; [exact F'|]. eapply addvs_has; [exact Hf|]. now left.
Qed.

Lemma register_all_cq e : forall curs SL SL', register_all e curs SL = Ok SL' -> Forall2 cq SL SL'.
Proof.
  induction curs as [|c r IH]; intros SL SL' H; simpl in H; [injection H as <-; apply F2_cq_refl|].
  bind_step H S1 E1. eapply F2_cq_trans; [eapply register_currency_cq; exact E1|now apply IH].
Qed.

Lemma register_all_has e : e_fx e <> e_xr e -> forall curs SL SL' fx, register_all e curs SL = Ok SL' ->
  find_sec (e_fx e) SL = Some fx ->
  exists fx', find_sec (e_fx e) SL' = Some fx' /\ forall c, List.In c curs -> has_var fx' ("NET_" ++ c) = true.
Proof.
  intros NE. induction curs as [|c r IH]; intros SL SL' fx H F; simpl in H.
  - injection H as <-. exists fx. split; [exact F|intros c []].
  - bind_step H S1 E1. destruct (register_currency_has _ _ _ _ _ E1 NE F) as (fx1 & F1 & H1).
    destruct (IH _ _ _ H F1) as (fx2 & F2 & H2). exists fx2. split; [exact F2|].
    intros c0 [<-|Hc]; [|now apply H2].
    pose proof (register_all_cq _ _ _ _ H) as Q. destruct (F2_find cq_sid _ _ _ Q _ F1) as (fx2' & F2' & Q2).
    rewrite F2 in F2'. injection F2' as <-. now apply (cq_mono _ _ Q2).
Qed.

(* ------------------------------------------------------------------ *)
(** * The invariant *)

Record einv (st : kstate) : Prop := mkE {
  ei_nt : Forall nt (k_secs st);
  ei_ext : forall e, k_ext st = Some e -> ext_ok e (k_countries st) (k_secs st)
}.

Lemma einv_init : einv k_init.
Proof. split; [constructor|discriminate]. Qed.

Lemma ext_ok_countries e cs cs' SL : ext_ok e cs SL -> (forall x, List.In x cs -> List.In x cs') ->
  (forall c, List.In c (map snd cs') -> List.In c (map snd cs) \/
             exists fx, find_sec (e_fx e) SL = Some fx /\ has_var fx ("NET_" ++ c) = true) ->
  ext_ok e cs' SL.
Proof.
  intros (E1 & E2 & E3 & xr & fx & F1 & C1 & D1 & F2 & C2 & D2 & HN) Hsub Hnew.
  split; [exact E1|]. split; [exact E2|]. split; [now apply Hsub|]. exists xr, fx. repeat split; auto.
  intros c Hc. destruct (Hnew c Hc) as [Hold|(fx' & F' & H')]; [now apply HN|]. rewrite F2 in F'. now injection F' as <-.
Qed.

Lemma add_country_einv st code cur st' : einv st -> add_country st code cur = Ok st' -> einv st'.
Proof.
  intros [N X] H. unfold add_country in H. destruct (mem code (map fst (k_countries st))); [discriminate|].
  bind_step H SL E. injection H as <-. cbn.
  destruct (k_ext st) as [e|] eqn:EX.
  - specialize (X e eq_refl). destruct (negb (mem cur (map snd (k_countries st)))) eqn:NZ.
    + pose proof (register_currency_cq _ _ _ _ E) as Q. split; cbn; [eapply F2_cq_nt; eassumption|].
      intros e0 He0. injection He0 as <-. pose proof (ext_ok_cq _ _ _ _ X Q) as X'.
      eapply ext_ok_countries; [exact X'| |].
      * intros x Hx. apply in_or_app. now left.
      * intros c Hc. rewrite map_app in Hc. apply in_app_or in Hc as [Hc|[<-|[]]]; [now left|]. right.
        destruct X as (E1 & _ & _ & xr & fx & _ & _ & _ & F2 & _).
        eapply register_currency_has; [exact E|lia|exact F2].
    + injection E as <-. split; cbn; [exact N|]. intros e0 He0. injection He0 as <-.
      eapply ext_ok_countries; [exact X| |].
      * intros x Hx. apply in_or_app. now left.
      * intros c Hc. rewrite map_app in Hc. apply in_app_or in Hc as [Hc|[<-|[]]]; [now left|]. left.
        apply negb_false_iff in NZ. now apply mem_In in NZ.
  - injection E as <-. split; cbn; [exact N|discriminate].
Qed.

Lemma add_sector_einv st ci c k st' : einv st -> add_sector st ci c k = Ok st' -> einv st'.
Proof.
  intros [N X] H. unfold add_sector in H. destruct (nth_error (k_countries st) ci) as [[cc cur]|]; [|discriminate].
  destruct (existsb _ (k_secs st)); [discriminate|]. bind_step H mrefs E1. bind_step H s E2. injection H as <-. split; cbn.
  - apply Forall_app. split; [exact N|]. constructor; [eapply construct2_nt; exact E2|constructor].
  - intros e He. apply ext_ok_app. now apply X.
Qed.

Lemma run_op2_einv st o st' : einv st -> run_op2 st o = Ok st' -> einv st'.
Proof.
  intros [N X] H.
  assert (K : forall SL, Forall2 cq (k_secs st) SL -> einv (upd_k st SL)).
  { intros SL Q. split; cbn; [eapply F2_cq_nt; eassumption|]. intros e He. eapply ext_ok_cq; [now apply X|exact Q]. }
  assert (K0 : forall st'', k_secs st'' = k_secs st -> k_ext st'' = k_ext st -> k_countries st'' = k_countries st -> einv st'').
  { intros st'' A B C. split; [now rewrite A|]. intros e He. rewrite A, C. apply X. congruence. }
  destruct o as [[s n t|s n spec|src tgt var a b|m sup text|s ws res|s n value|cb tre]|s m]; simpl in H.
  - bind_step H SL E. injection H as <-. apply K. eapply on_sector_cq; [|exact E]. intros x x'. apply cq_addv.
  - destruct (find_sec s (k_secs st)); [|discriminate]. injection H as <-. now apply K0.
  - destruct (find_sec src (k_secs st)); [|discriminate]. destruct (find_sec tgt (k_secs st)); [|discriminate].
    injection H as <-. now apply K0.
  - destruct (find_sec m (k_secs st)); [|discriminate]. destruct (find_sec sup (k_secs st)); [|discriminate].
    destruct (has_add_supplier2 _); [|discriminate]. destruct (sup_of m (k_sup st)) as [res others].
    injection H as <-. now apply K0.
  - bind_step H SL E. injection H as <-. apply K. eapply on_sector_cq; [|exact E]. intros x x'. apply cq_asset_weighting.
  - destruct (find_sec s (k_secs st)); [|discriminate]. injection H as <-. now apply K0.
  - destruct (find_sec cb (k_secs st)); [|discriminate]. destruct (find_sec tre (k_secs st)); [|discriminate].
    injection H as <-. now apply K0.
  - destruct (find_sec m (k_secs st)) as [mk|]; [|discriminate]. bind_step H SL E. injection H as <-. apply K.
    eapply on_sector_cq; [|exact E]. intros x x'. apply cq_add_market.
Qed.

Lemma add_sector_last st ci c k st' : add_sector st ci c k = Ok st' ->
  exists cc cur s, nth_error (k_countries st) ci = Some (cc, cur) /\ k_secs st' = (k_secs st ++ [s])%list /\
                   sid s = List.length (k_secs st) /\ code s = c /\ country s = cc /\
                   k_countries st' = k_countries st /\ k_ext st' = k_ext st.
Proof.
  intros H. destruct (add_sector_spec _ _ _ _ _ H) as (cc & cur & s & A1 & A2 & _ & A3 & A4 & A5 & _ & _ & _ & A6 & A7 & _).
  exists cc, cur, s. auto 10.
Qed.

Lemma run_step2_einv p st x st' : cinv2 p st -> einv st -> run_step2 st x = Ok st' -> einv st'.
Proof.
  intros CI EI H. destruct x as [c cur rg| |ci c k|o]; simpl in H.
  - eapply add_country_einv; eassumption.
  - destruct (k_ext st) eqn:EX; [discriminate|].
    bind_step H st1 E1. bind_step H st2 E2. bind_step H st3 E3. bind_step H st4 E4. bind_step H SL E5. injection H as <-.
    pose proof (add_country_einv _ _ _ _ EI E1) as I1.
    pose proof (add_sector_einv _ _ _ _ _ I1 E2) as I2. pose proof (add_sector_einv _ _ _ _ _ I2 E3) as I3.
    pose proof (add_sector_einv _ _ _ _ _ I3 E4) as I4.
    destruct (add_country_spec _ _ _ _ E1) as (EC & _ & FR1 & _ & EX1 & _).
    assert (S1 : k_secs st1 = k_secs st).
    { unfold add_country in E1. destruct (mem _ _); [discriminate|]. rewrite EX in E1. cbn [bind] in E1. now injection E1 as <-. }
    destruct (add_sector_last _ _ _ _ _ E2) as (c2 & u2 & s2 & N2 & L2 & D2 & O2 & Y2 & K2 & X2).
    destruct (add_sector_last _ _ _ _ _ E3) as (c3 & u3 & s3 & N3 & L3 & D3 & O3 & Y3 & K3 & X3).
    destruct (add_sector_last _ _ _ _ _ E4) as (c4 & u4 & s4 & N4 & L4 & D4 & O4 & Y4 & K4 & X4).
    set (n := List.length (k_secs st1)) in *.
    assert (CC : c2 = "EXT" /\ c3 = "EXT").
    { rewrite K3, K2 in *. rewrite EC in N2, N3. rewrite nth_error_app2 in N2, N3 by lia. rewrite Nat.sub_diag in N2, N3.
      simpl in N2, N3. split; congruence. }
    destruct CC as [-> ->].
    assert (SID : map sid (k_secs st1) = seq 0 n) by (unfold n; rewrite S1; apply (d_sids _ _ _ _ CI)).
    assert (FN : forall j, n <= j -> find_sec j (k_secs st1) = None) by (intros j Hj; now apply find_sec_seq_none).
    assert (Fxr : find_sec n (k_secs st4) = Some s2).
    { rewrite L4, L3, L2, <- !app_assoc. rewrite find_sec_app_r by (apply FN; lia). unfold find_sec. cbn [find app].
      rewrite D2. fold n. now rewrite Nat.eqb_refl. }
    assert (Ffx : find_sec (S n) (k_secs st4) = Some s3).
    { rewrite L4, L3, L2, <- !app_assoc. rewrite find_sec_app_r by (apply FN; lia). unfold find_sec. cbn [find app].
      rewrite D2, D3, L2, app_length. fold n. cbn [List.length].
      replace (Nat.eqb n (S n)) with false by (symmetry; apply Nat.eqb_neq; lia). replace (Nat.eqb (n + 1) (S n)) with true by (symmetry; apply Nat.eqb_eq; lia).
      reflexivity. }
    pose proof (register_all_cq _ _ _ _ E5) as Q.
    split; cbn; [eapply F2_cq_nt; [exact Q|apply (ei_nt _ I4)]|].
    intros e He. injection He as <-.
    destruct (F2_find cq_sid _ _ _ Q _ Fxr) as (xr' & Fxr' & Qx).
    destruct (register_all_has (mkExt n (S n) (S (S n))) (fun E => n_Sn _ (eq_sym E)) _ _ _ _ E5 Ffx) as (fx' & Ffx' & HN).
    destruct (F2_find cq_sid _ _ _ Q _ Ffx) as (fx'' & Ffx'' & Qf). cbn [e_fx] in *. rewrite Ffx' in Ffx''. injection Ffx'' as <-.
    split; [reflexivity|]. split; [reflexivity|]. split.
    { rewrite K4, K3, K2, EC. apply in_or_app. right. now left. }
    exists xr', fx'. cbn [e_xr e_fx].
    rewrite (frame_country _ _ (cq_frame _ _ Qx)), (frame_code _ _ (cq_frame _ _ Qx)),
            (frame_country _ _ (cq_frame _ _ Qf)), (frame_code _ _ (cq_frame _ _ Qf)).
    repeat split; auto. intros c Hc. apply HN. unfold zones_of. apply nodup_In. exact Hc.
  - eapply add_sector_einv; eassumption.
  - eapply run_op2_einv; eassumption.
Qed.

Theorem construct_all2_einv p st : construct_all2 p = Ok st -> einv st.
Proof.
  unfold construct_all2. revert st. induction p as [|x p IH] using rev_ind; intros st H.
  - simpl in H. injection H as <-. apply einv_init.
  - apply foldM_app in H as (st1 & H1 & H2). simpl in H2.
    destruct (run_step2 st1 x) as [st2|] eqn:E; [|discriminate]. injection H2 as <-.
    eapply run_step2_einv; [apply construct_all2_cinv; exact H1|apply IH; exact H1|exact E].
Qed.
