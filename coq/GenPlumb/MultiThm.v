(** Task 2: C01 per currency zone and C07 for programs with markets supplied from ANY number of other
    currency zones, under the semantic side condition [sem_ok2_multi]. *)
From Coq Require Import List String Ascii Bool ZArith Arith Lia Reals Lra.
From SFC.Base Require Import Res Str.
From SFC.Gen Require Import Fx Flows Zone.
From SFC.GenMarket Require Import Market MarketProofs.
From SFC.GenTax Require Import Tax TaxProofs Dividends.
From SFC.GenMain2 Require Import Program Classes Main Ledger MainProofs Names Conflict Balance
                                 Program2 Main2 Ledger2 MainProofs2 Names2 Conflict2 Balance2 Zones.
From SFC.GenPlumb Require Import FootDefs Foot Foot2 Constr Inv FxBook Split2 Join2 Final Plumb2 Sem2 Gen2 Multi MultiSim MultiPot.
Import ListNotations.
Local Open Scope string_scope.

(** every _GenerateEquations call of a run succeeded from a state satisfying the run invariant *)
Lemma run_gen_facts p Rn : build_run2 p = Ok Rn ->
  forall x, List.In x (q_gen Rn) ->
    winv (q_info Rn) (h_zone (snd (fst x))) /\ gen_step2 (q_info Rn) (snd (fst x)) (fst (fst x)) = Ok (snd x).
Proof.
  intros HR. destruct (build_run2_inv _ _ HR) as (st & HC & HM).
  pose proof (construct_all2_cinv _ _ HC) as CI. pose proof (construct_all2_einv _ _ HC) as EI.
  destruct (main_run2_inv _ _ HM) as (gfin & Z1 & E0 & EI2 & C1 & _).
  set (J := q_info Rn) in *.
  pose proof (winv_zone02 _ _ CI EI) as W0. rewrite <- EI2 in W0. fold J in W0.
  destruct (chain_carry (gen_step2 J) (fun s => winv J (h_zone s))
              (fun x => winv J (h_zone (snd (fst x))) /\ gen_step2 J (snd (fst x)) (fst (fst x)) = Ok (snd x))
              (fun b a a' Hs Pa => ltac:(destruct b as [i k]; split;
                 [eapply winv_zq; [exact Pa|eapply gen_step2_zq_none; exact Hs]|split; [exact Pa|exact Hs]]))
              _ _ _ C1 W0) as [_ G]. rewrite Forall_forall in G. exact G.
Qed.

(** the checks of Conflict2.v on the steps that are not markets supplied from several zones *)
Lemma gen_ok2_of_sem p Rn x : build_run2 p = Ok Rn -> List.In x (q_gen Rn) ->
  is_multi_market (q_info Rn) x = None -> gen_sem2m (q_info Rn) (fs_zone (q_final Rn)) x = true ->
  gen_ok2 (q_info Rn) (fs_zone (q_final Rn)) x = true.
Proof.
  intros HR Hx NM HS. unfold gen_sem2m in HS. rewrite NM in HS. apply gen_join2; [exact HS|].
  pose proof (plumbing2_run_holds _ _ HR) as P. unfold plumb_free2 in P. apply andb_true_iff in P as [P _]. apply andb_true_iff in P as [P _].
  rewrite forallb_forall in P. now apply P.
Qed.

Lemma multi_market_inv J x self acurs res others : is_multi_market J x = Some (self, acurs, res, others) ->
  exists i st st' a b l, x = ((i, COld CMarket), st, st') /\ find_sec i (h_zone st) = Some self /\
    sup_of i (j_sup J) = (res, others) /\ acurs = a :: b :: l /\
    supplier_currencies J (h_zone st) (cur_of_sec J self) (map fst others ++ match res with Some r => [r] | None => [] end)%list = acurs.
Proof.
  destruct x as [[[i k] st] st']. unfold is_multi_market.
  destruct k as [k0| | | | |]; try discriminate. destruct k0; try discriminate.
  destruct (find_sec i (h_zone st)) as [s|] eqn:F; [|discriminate].
  destruct (sup_of i (j_sup J)) as [r o] eqn:ES.
  destruct (supplier_currencies J (h_zone st) (cur_of_sec J s) _) as [|a [|b l]] eqn:SC; try discriminate.
  intros H. injection H as <- <- <- <-. exists i, st, st', a, b, l. auto 10.
Qed.

Lemma market_step_of J st i st' self : find_sec i (h_zone st) = Some self -> gen_step2 J st (i, COld CMarket) = Ok st' ->
  market_step J i self (h_zone st) = Ok (h_zone st').
Proof. intros F GS. unfold gen_step2 in GS. rewrite F in GS. now apply same2_inv in GS. Qed.

Lemma sem2m_parts p Rn : build_run2 p = Ok Rn -> sem_ok2_multi p = true ->
  ledger_untouched2_b p = true /\
  (forall x, List.In x (q_gen Rn) -> gen_sem2m (q_info Rn) (fs_zone (q_final Rn)) x = true) /\
  forallb (flow_ok2 (q_info Rn)) (q_flows Rn) = true /\ forallb (exo_ok2 (q_info Rn)) (q_exo Rn) = true /\
  final_ok2 (q_info Rn) (q_zone0 Rn) (fs_zone (q_final Rn)) = true.
Proof.
  intros HR HS. unfold sem_ok2_multi in HS. rewrite HR in HS. apply andb_true_iff in HS as [LU HS]. unfold sem_free2m in HS.
  repeat (apply andb_true_iff in HS as [HS ?]).
  pose proof (plumbing2_run_holds _ _ HR) as P. unfold plumb_free2 in P. apply andb_true_iff in P as [P PF]. apply andb_true_iff in P as [_ PFl].
  split; [exact LU|]. split; [rewrite forallb_forall in HS; exact HS|].
  split; [eapply forallb_join; [apply flow_join2|eassumption|exact PFl]|]. split; [assumption|].
  apply final_join2; assumption.
Qed.

(** C01 per currency zone, markets supplied from any number of other zones included *)
Theorem main2_stock_flow_consistent_multi p Rn : build_run2 p = Ok Rn -> sem_ok2_multi p = true ->
  forall (v vprev : string -> R) (bv bvp : string -> string -> R),
    bv_zero bv -> sat (q_final Rn) v vprev bv -> stock_consistent2 Rn vprev bvp ->
    forall c, c <> NUM -> List.In c (zones_of (j_countries (q_info Rn))) ->
      (ledger_sum v (filter (in_zone (j_countries (q_info Rn)) c) (fs_zone (q_final Rn))) + net_value Rn v c = 0)%R.
Proof.
  intros HR HSem v vprev bv bvp HB HS SC.
  destruct (sem2m_parts _ _ HR HSem) as (LU & GS & FL & XO & FO).
  apply (c01_general p Rn HR LU FL XO FO v vprev bv HS).
  intros x Hx. destruct (run_gen_facts _ _ HR x Hx) as [WI STEP].
  destruct (is_multi_market (q_info Rn) x) as [[[[self acurs] res] others]|] eqn:IM.
  - destruct (multi_market_inv _ _ _ _ _ _ IM) as (i & st & st' & a & b & l & -> & Fs & ES & EA & SCu).
    cbn [fst snd] in *. unfold gen_pot_ok. intros CL HF ND HBZ c Hc.
    pose proof (GS _ Hx) as MS. unfold gen_sem2m in MS. rewrite IM in MS. cbn [fst snd] in MS.
    eapply (multi_market_pot multi_home_sim multi_abroad_pot multi_ledger_ops v vprev bv (q_info Rn) _ (q_final Rn) i self acurs res others a b l);
      try eassumption.
    + apply (zstep_frame _ _ _ (gen_step2_zstep _ _ _ _ STEP)).
    + eapply market_step_of; eassumption.
    + eapply gen_step2_div_quiet; [exact STEP|reflexivity].
  - pose proof (gen_ok2_of_sem _ _ _ HR Hx IM (GS _ Hx)) as OK.
    destruct x as [[[i k] sa] sb]. cbn [fst snd] in *. unfold gen_pot_ok. intros CL HF ND HBZ c Hc.
    apply (gen_step2_pot v vprev bv bvp (q_info Rn) _ Rn i k sa sb HS HB SC Hx STEP CL OK HF ND HBZ c Hc).
Qed.

(** C07, markets supplied from any number of other zones included *)
Theorem main2_fx_valued_zero_multi p Rn : build_run2 p = Ok Rn -> sem_ok2_multi p = true ->
  j_ext (q_info Rn) <> None ->
  forall (v vprev : string -> R) (bv : string -> string -> R), sat (q_final Rn) v vprev bv ->
    let zs := zones_of (j_countries (q_info Rn)) in
    (rates_ok2 zs v -> TaxProofs.sumR (fun c => v (net_key c) * rate v c) zs = 0)%R /\
    (forallb (fun x => negb (is_gold (snd (fst (fst x))))) (q_gen Rn) = true -> List.In NUM zs -> v (net_key NUM) = 0%R).
Proof.
  intros HR HSem EX.
  destruct (sem2m_parts _ _ HR HSem) as (LU & GS & FL & XO & FO).
  apply (c07_general p Rn HR FL XO FO); [|exact EX].
  intros x Hx. destruct (run_gen_facts _ _ HR x Hx) as [WI STEP]. unfold gen_fx_ok.
  destruct (is_multi_market (q_info Rn) x) as [[[[self acurs] res] others]|] eqn:IM.
  - destruct (multi_market_inv _ _ _ _ _ _ IM) as (i & st & st' & a & b & l & -> & Fs & ES & EA & SCu).
    cbn [fst snd is_gold] in *.
    pose proof (GS _ Hx) as MS. unfold gen_sem2m in MS. rewrite IM in MS. cbn [fst snd] in MS.
    unfold multi_sem in MS. apply andb_true_iff in MS as [MS _]. apply andb_true_iff in MS as [N1 N2].
    apply negb_true_iff in N1. apply String.eqb_neq in N1.
    assert (NaN : Forall (fun a0 => a0 <> NUM) acurs).
    { apply Forall_forall. intros a0 Ha0. rewrite forallb_forall in N2. specialize (N2 a0 Ha0). apply negb_true_iff in N2. now apply String.eqb_neq in N2. }
    eapply (multi_market_fx multi_ledger_ops (q_info Rn) (h_zone st) i self res others acurs WI Fs SCu N1 NaN a b l); [exact EA|exact ES|].
    eapply market_step_of; eassumption.
  - pose proof (gen_ok2_of_sem _ _ _ HR Hx IM (GS _ Hx)) as OK.
    destruct x as [[[i k] sa] sb]. cbn [fst snd] in *. exact (gen_ok2_fx _ _ _ _ _ _ OK).
Qed.
