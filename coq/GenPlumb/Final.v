(** Plumbing of the final system: at the start of main() every NET_<c> term list of EXT_FX is empty, and
    at the end every term of every NET_<c> equation is a product of FULL names (the FX bookkeeping only
    ever adds such terms; every other step leaves the NET_* equations alone or resets them to an
    opaque text).  Invariant [nf] = "the terms of every NET_* equation are products of full names",
    for every step of main() and every program. *)
From Coq Require Import List String Ascii Bool ZArith Arith Lia.
From SFC.Base Require Import Res Str.
From SFC.Gen Require Import Fx Zone.
From SFC.GenMarket Require Import Market MarketProofs.
From SFC.GenTax Require Import Tax TaxProofs Dividends.
From SFC.GenAsset Require Import Common Money Deposit.
From SFC.GenMain2 Require Import Program Classes Main Ledger MainProofs Conflict Program2 Main2 Ledger2 MainProofs2 Conflict2.
From SFC.GenPlumb Require Import FootDefs Foot Foot2 Constr Inv FxBook Split2.
Import ListNotations.
Local Open Scope string_scope.

Definition full_terms (l : list term) : bool := forallb full_term_b l.

Definition nf (s : sector) : Prop :=
  forall n e, is_net n = true -> lookup_var n (vars s) = Some e -> full_terms (terms e) = true.

Definition nfr (s s' : sector) : Prop := nf s -> nf s'.

Lemma nt_nf s : nt s -> nf s.
Proof. intros H n e Hn He. now rewrite (H n e Hn He). Qed.

Lemma nfr_refl s : nfr s s.
Proof. intros H; exact H. Qed.

Lemma nfr_pq d s s' : pq (protP d) s s' -> nfr s s'.
Proof.
  intros Q N n e Hn He. apply (N n e Hn). rewrite <- He. symmetry. apply (pq_keep _ _ _ Q).
  unfold protP. rewrite Hn. apply orb_true_r.
Qed.

Definition znf (Z Z' : zone) : Prop := Forall2 nfr Z Z'.

Lemma znf_refl Z : znf Z Z.
Proof. induction Z; constructor; [apply nfr_refl|assumption]. Qed.

Lemma znf_trans A B C : znf A B -> znf B C -> znf A C.
Proof.
  intros H1. revert C. induction H1 as [|a b A B Hab _ IH]; intros C H2; inversion H2; subst; constructor.
  - intros N. auto.
  - now apply IH.
Qed.

Lemma znf_zq d Z Z' : zq (protP d) Z Z' -> znf Z Z'.
Proof. intros H. eapply Forall2_impl; [|exact H]. intros s s'. apply nfr_pq. Qed.

Lemma znf_apply Z Z' : znf Z Z' -> Forall nf Z -> Forall nf Z'.
Proof. intros H. induction H as [|a b l l' Hab _ IH]; intros HN; inversion HN; subst; constructor; auto. Qed.

Lemma znf_upd i f Z Z' : upd i f Z = Ok Z' -> (forall s s', f s = Ok s' -> nfr s s') -> znf Z Z'.
Proof.
  intros H Hf. revert Z' H. induction Z as [|a r IH]; intros Z' H; simpl in H; [discriminate|].
  destruct (Nat.eqb (sid a) i).
  - destruct (f a) as [a'|] eqn:Fa; [|discriminate]. injection H as <-. constructor; [now apply Hf|apply znf_refl].
  - destruct (upd i f r) as [r'|]; [|discriminate]. injection H as <-. constructor; [apply nfr_refl|now apply IH].
Qed.

Lemma znf_put_back (q : sector -> bool) Z C : znf (filter q Z) C -> znf Z (put_back_p q C Z).
Proof. apply put_back_p_rel. apply nfr_refl. Qed.

(* ------------------------------------------------------------------ *)
(** * Writes that keep [nf] *)

Lemma nfr_set_var s n e : is_net n = false \/ full_terms (terms e) = true -> nfr s (with_vars s (set_var n e (vars s))).
Proof.
  intros H N m e0 Hm. cbn. destruct (String.eqb_spec n m) as [->|Nm].
  - rewrite lookup_set_same. intros E. injection E as <-. destruct H as [H|H]; [congruence|exact H].
  - rewrite (lookup_set_other n m e _ Nm). now apply N.
Qed.

Lemma nfr_add_variable s n b : nfr s (add_variable s n b).
Proof. apply nfr_set_var. now right. Qed.

Lemma nfr_addv s n t s' : addv s n t = Ok s' -> nfr s s'.
Proof. unfold addv. destruct (has_substring "__" n); [discriminate|]. intros H. injection H as <-. apply nfr_add_variable. Qed.

Lemma nfr_set_rhs s n b s' : set_rhs s n b = Some s' -> nfr s s'.
Proof. unfold set_rhs. destruct (lookup_var n (vars s)); [|discriminate]. intros H. injection H as <-. apply nfr_set_var. now right. Qed.

Lemma add_term_full t l : full_term_b t = true -> full_terms l = true -> full_terms (add_term t l) = true.
Proof.
  intros Ht. induction l as [|[c f] r IH]; cbn [add_term full_terms forallb]; [now rewrite Ht|].
  intros H. apply andb_true_iff in H as [H1 H2]. destruct (factors_eqb (snd t) f) eqn:E.
  - cbn [forallb]. apply andb_true_iff. split; [exact H1|exact H2].
  - cbn [forallb]. apply andb_true_iff. split; [exact H1|now apply IH].
Qed.

Lemma nfr_add_term_to_eq s n t s' : full_term_b t = true -> add_term_to_eq s n t = Some s' -> nfr s s'.
Proof.
  unfold add_term_to_eq. intros Ht. destruct (lookup_var n (vars s)) as [e|] eqn:E; [|discriminate]. intros H. injection H as <-.
  intros N. apply nfr_set_var; [|exact N]. destruct (is_net n) eqn:Hn; [|now left]. right. cbn [terms].
  apply add_term_full; [exact Ht|]. exact (N n e Hn E).
Qed.

Lemma full1 x : has_substring "__" x = true -> full_term_b (1%Z, [x]) = true.
Proof. intros H. unfold full_term_b. cbn. now rewrite H. Qed.

Lemma full2 c x y : has_substring "__" x = true -> has_substring "__" y = true -> full_term_b (c, [x; y]) = true.
Proof. intros H1 H2. unfold full_term_b. cbn. now rewrite H1, H2. Qed.

Lemma znf_fx_add J cur t Z Z' : full_term_b t = true -> fx_add J cur t Z = Ok Z' -> znf Z Z'.
Proof.
  unfold fx_add. intros Ht. destruct (j_ext J) as [e|]; [|discriminate]. intros H. eapply znf_upd; [exact H|].
  intros s s' E. unfold opt_key in E. destruct (add_term_to_eq s _ t) as [x|] eqn:A; [|discriminate]. injection E as <-.
  eapply nfr_add_term_to_eq; eassumption.
Qed.

Lemma xr_full_sub J Z n x : xr_full J Z n = Ok x -> has_substring "__" x = true.
Proof.
  unfold xr_full. destruct (j_ext J) as [e|]; [|discriminate]. destruct (find_sec (e_xr e) Z) as [xr|]; [|discriminate].
  destruct (has_var xr n); [|discriminate]. intros H. injection H as <-. apply has_sub_full.
Qed.

Lemma znf_send_money J cur x Z Z' : has_substring "__" x = true -> send_money J cur x Z = Ok Z' -> znf Z Z'.
Proof.
  unfold send_money. intros Hx H. bind_step H xr E0. bind_step H Z1 E1. pose proof (xr_full_sub _ _ _ _ E0) as Hr.
  eapply znf_trans; [eapply znf_fx_add; [|exact E1]; now apply full1|eapply znf_fx_add; [|exact H]; now apply full2].
Qed.

Lemma znf_ensure_cross J a b Z Z' : ensure_cross J a b Z = Ok Z' -> znf Z Z'.
Proof.
  unfold ensure_cross. destruct (j_ext J) as [e|]; [|discriminate]. intros H. eapply znf_upd; [exact H|].
  intros s s' E. cbv beta in E. destruct (has_var s (a ++ "_" ++ b)); [injection E as <-; apply nfr_refl|eapply nfr_addv; exact E].
Qed.

Lemma znf_ensure_crosses J h codes : forall acurs Z Z', ensure_crosses J h codes acurs Z = Ok Z' -> znf Z Z'.
Proof.
  induction acurs as [|a r IH]; intros Z Z' H; simpl in H; [injection H as <-; apply znf_refl|].
  destruct (if mem (cross_code h a) codes then ensure_cross J h a Z else Ok Z) as [Z1|] eqn:E; [|discriminate]. simpl in H.
  eapply znf_trans; [|eapply IH; exact H]. destruct (mem _ codes); [eapply znf_ensure_cross; exact E|injection E as <-; apply znf_refl].
Qed.

Lemma znf_receive_money J a b x Z Z' t : has_substring "__" x = true -> receive_money J a b x Z = Ok (Z', t) -> znf Z Z'.
Proof.
  unfold receive_money. intros Hx H. bind_step H Z1 E1. bind_step H cross E2. bind_step H Z2 E3. bind_step H xr E4. bind_step H Z3 E5.
  injection H as <- _. pose proof (xr_full_sub _ _ _ _ E2) as Hc. pose proof (xr_full_sub _ _ _ _ E4) as Hr.
  eapply znf_trans; [eapply znf_ensure_cross; exact E1|].
  eapply znf_trans; [eapply znf_fx_add; [|exact E3]; now apply full2|eapply znf_fx_add; [|exact E5]; now apply full2].
Qed.

(* ------------------------------------------------------------------ *)
(** * Ledgers whose terms are full *)

Definition ledger_full (L : ledger) : bool := forallb (fun ct => full_terms (snd ct)) L.
Definition oledger_full (o : option ledger) : bool := match o with Some L => ledger_full L | None => true end.

Lemma add_to_full cur t : full_term_b t = true -> forall L, ledger_full L = true -> ledger_full (add_to cur t L) = true.
Proof.
  intros Ht. induction L as [|[c ts] r IH]; cbn [add_to ledger_full forallb snd]; [intros _; unfold full_terms; cbn; now rewrite Ht|].
  intros H. apply andb_true_iff in H as [H1 H2]. destruct (String.eqb cur c); cbn [forallb snd]; apply andb_true_iff; split; auto.
  now apply add_term_full.
Qed.

Lemma xr_name_sub c : has_substring "__" (xr_name c) = true.
Proof. change (xr_name c) with ("EXT_XR" ++ "__" ++ c). apply has_sub_full. Qed.

Lemma fx_step_full L o : ledger_full L = true ->
  has_substring "__" (match o with Send _ x => x | Receive _ _ x => x end) = true -> ledger_full (fx_step L o) = true.
Proof.
  intros HL Hx. destruct o as [src x|src tgt x]; cbn [fx_step].
  - apply add_to_full; [apply full2; [exact Hx|apply xr_name_sub]|]. apply add_to_full; [now apply full1|exact HL].
  - apply add_to_full; [apply full2; [exact Hx|apply xr_name_sub]|].
    apply add_to_full; [apply full2; [exact Hx|apply cross_name_qualified]|exact HL].
Qed.

Lemma supply_step_full h a mk W ie W' : supply_step h a mk W ie = Ok W' -> oledger_full (fxl W) = true -> oledger_full (fxl W') = true.
Proof.
  destruct ie as [i e]. unfold supply_step. destruct (resolve W i) as [[b sup]|]; [|discriminate].
  destruct (upd (sid mk) _ (home W)) as [H1|]; [|discriminate]. destruct b.
  - destruct (upd i _ H1); [|discriminate]. intros H. now injection H as <-.
  - destruct (fxl W) as [L|]; [|discriminate]. destruct (upd i _ (abroad W)); [|discriminate]. intros H HL. injection H as <-.
    change (ledger_full (fx_step (fx_step L (Send h (full_name mk (alloc_name sup)))) (Receive h a (full_name mk (alloc_name sup)))) = true).
    change (ledger_full L = true) in HL. apply fx_step_full; [apply fx_step_full; [exact HL|]|]; apply full_name_qualified.
Qed.

Lemma supply_fold_full h a mk : forall l W W', foldM (supply_step h a mk) l W = Ok W' -> oledger_full (fxl W) = true -> oledger_full (fxl W') = true.
Proof.
  induction l as [|x l IH]; intros W W' H HL; simpl in H; [now injection H as <-|].
  destruct (supply_step h a mk W x) as [W1|] eqn:E; [|discriminate]. eapply IH; [exact H|eapply supply_step_full; eassumption].
Qed.

Lemma supply_multi_full h cur_of mk : forall l W W', supply_multi h cur_of mk W l = Ok W' -> oledger_full (fxl W) = true -> oledger_full (fxl W') = true.
Proof.
  induction l as [|x l IH]; intros W W' H HL; simpl in H; [now injection H as <-|].
  destruct (supply_step h (cur_of (fst x)) mk W x) as [W1|] eqn:E; [|discriminate]. simpl in H. eapply IH; [exact H|eapply supply_step_full; eassumption].
Qed.

Lemma market_generate_full h a W m res others W' : market_generate h a W m res others = Ok W' ->
  oledger_full (fxl W) = true -> oledger_full (fxl W') = true.
Proof.
  intros H. apply mg_unfold in H as (mk & r & H1 & mk1 & H0 & fcs & _ & _ & _ & _ & _ & _ & FM).
  intros HL. eapply supply_fold_full; [exact FM|exact HL].
Qed.

Lemma market_generate_multi_full h cur_of W m res others W' : market_generate_multi h cur_of W m res others = Ok W' ->
  oledger_full (fxl W) = true -> oledger_full (fxl W') = true.
Proof.
  unfold market_generate_multi. intros H. destruct (find_sec m (home W)) as [mk|]; [|discriminate].
  bind_step H r E0. bind_step H H1 GD. destruct (find_sec m H1) as [mk1|]; [|discriminate]. bind_step H H0 U. bind_step H fcs E3.
  intros HL. eapply supply_multi_full; [exact H|exact HL].
Qed.

Lemma forallb_map' {A B} (f : A -> B) (p : B -> bool) l : forallb p (map f l) = forallb (fun x => p (f x)) l.
Proof. induction l as [|a l IH]; [reflexivity|]. cbn. now rewrite IH. Qed.

Lemma ledger_of_full J Z : Forall nf Z -> oledger_full (ledger_of J Z) = true.
Proof.
  intros HN. unfold ledger_of. destruct (j_ext J) as [e|]; [|reflexivity]. destruct (find_sec (e_fx e) Z) as [fx|] eqn:F; [|reflexivity].
  cbn [oledger_full]. unfold ledger_full. rewrite forallb_map'. apply forallb_forall. intros c _. cbn [snd]. unfold net_of.
  destruct (lookup_var ("NET_" ++ c) (vars fx)) as [e0|] eqn:E; [|reflexivity].
  rewrite Forall_forall in HN. apply (HN fx (find_sec_In _ _ _ F) ("NET_" ++ c) e0); [reflexivity|exact E].
Qed.

Lemma nfr_store_net fx ct : full_terms (snd ct) = true -> nfr fx (store_net fx ct).
Proof.
  intros H. unfold store_net. destruct (lookup_var _ (vars fx)); apply nfr_set_var; right; exact H.
Qed.

Lemma nfr_fold_store : forall l fx, ledger_full l = true -> nfr fx (fold_left store_net l fx).
Proof.
  induction l as [|ct l IH]; intros fx H; simpl; [apply nfr_refl|]. cbn [ledger_full forallb] in H. apply andb_true_iff in H as [H1 H2].
  intros N. apply IH; [exact H2|]. now apply nfr_store_net.
Qed.

Lemma znf_store_ledger J L Z Z' : oledger_full L = true -> store_ledger J L Z = Ok Z' -> znf Z Z'.
Proof.
  unfold store_ledger. intros HL. destruct (j_ext J) as [e|]; [|intros H; injection H as <-; apply znf_refl].
  destruct L as [l|]; [|intros H; injection H as <-; apply znf_refl].
  intros H. eapply znf_upd; [exact H|]. intros s s' E. injection E as <-. now apply nfr_fold_store.
Qed.

(* ------------------------------------------------------------------ *)
(** * The steps of main() *)

Lemma market_step_znf J i self Z Z' : Forall nf Z -> market_step J i self Z = Ok Z' -> znf Z Z'.
Proof.
  intros HN. unfold market_step. intros H.
  set (hcur := cur_of_sec J self) in *. destruct (sup_of i (j_sup J)) as [res others].
  set (inh := in_zone (j_countries J) hcur) in *.
  pose proof (ledger_of_full J Z HN) as LF.
  assert (K : forall (ina : sector -> bool) W (Z1 : zone) acurs,
            (forall s s', frame s s' -> ina s' = ina s) -> (forall s, inh s = true -> ina s = false) ->
            zq (protP true) (filter inh Z) (home W) -> zq (protP true) (filter ina Z) (abroad W) -> oledger_full (fxl W) = true ->
            store_ledger J (fxl W) (put_back_p ina (abroad W) (put_back_p inh (home W) Z)) = Ok Z1 ->
            ensure_crosses J hcur (crosses W) acurs Z1 = Ok Z' -> znf Z Z').
  { intros ina W Z1 acurs Hq D ZH ZA FL SL EC.
    eapply znf_trans; [apply znf_put_back; eapply znf_zq; exact ZH|].
    eapply znf_trans; [apply znf_put_back; rewrite (filter_put_back_disjoint inh ina Hq D _ _ (zq_frame _ _ _ ZH)); eapply znf_zq; exact ZA|].
    eapply znf_trans; [eapply znf_store_ledger; [exact FL|exact SL]|eapply znf_ensure_crosses; exact EC]. }
  destruct (supplier_currencies J Z hcur _) as [|a [|b l]] eqn:SC.
  - bind_step H W MG. pose proof (market_generate_full _ _ _ _ _ _ _ MG LF) as FL.
    apply market_generate_zq in MG as [MG _]. cbn [home] in MG.
    eapply znf_trans; [apply znf_put_back; eapply znf_zq; exact MG|eapply znf_store_ledger; [exact FL|exact H]].
  - bind_step H W MG. bind_step H Z1 SL. pose proof (market_generate_full _ _ _ _ _ _ _ MG LF) as FL.
    assert (Na : a <> hcur).
    { assert (Hin : List.In a (supplier_currencies J Z hcur (map fst others ++ match res with Some r => [r] | None => [] end))) by (rewrite SC; now left).
      unfold supplier_currencies in Hin. apply nodup_In in Hin. apply in_flat_map in Hin as (j & _ & Hj).
      destruct (find_sec j Z) as [sj|]; [|contradiction]. destruct (String.eqb_spec (cur_of_sec J sj) hcur) as [|Ne]; [contradiction|].
      destruct Hj as [<-|[]]. exact Ne. }
    apply market_generate_zq in MG as [M1 M2]. cbn [home abroad] in M1, M2.
    eapply (K (in_zone (j_countries J) a) W Z1 [a]); try eassumption.
    + intros s s'. apply in_zone_frame.
    + intros s Hs. unfold inh, in_zone in *. apply String.eqb_eq in Hs. rewrite Hs. apply String.eqb_neq. congruence.
  - bind_step H W MG. bind_step H Z1 SL. pose proof (market_generate_multi_full _ _ _ _ _ _ _ MG LF) as FL.
    apply market_generate_multi_zq in MG as [M1 M2]. cbn [home abroad] in M1, M2.
    eapply (K (fun s => negb (inh s)) W Z1 (a :: b :: l)); try eassumption.
    + intros s s' Fr. unfold inh. now rewrite (in_zone_frame _ _ _ _ Fr).
    + intros s Hs. now rewrite Hs.
Qed.

Lemma gold_step_znf J i self stock b st st' : gold_step J i self stock b st = Ok st' -> znf (h_zone st) (h_zone st').
Proof.
  unfold gold_step. destruct (j_ext J) as [e|] eqn:EJ; [|discriminate].
  destruct (find_sec (e_fx e) (h_zone st)) as [fx|]; [|discriminate].
  destruct (has_var fx _); [|discriminate]. intros H. cbv zeta in H.
  bstep H Za E1. bstep H Zb Eb.
  destruct (find_sec (e_gold e) Zb) as [g|]; [|discriminate]. cbv zeta in H.
  bstep H xr E3. bstep H Zc E4. bstep H Zd E5. bstep H Ze E6. bstep H Zf E7.
  injection H as <-. cbn [h_zone].
  eapply znf_trans; [eapply znf_zq; eapply (zq_upd (protP true)); [exact E1|]|].
  { intros s s' E. eapply addv_pq; [|exact E]. reflexivity. }
  eapply znf_trans; [eapply znf_zq; eapply (zq_upd (protP true)); [exact Eb|]|].
  { intros s s' E. cbv beta in E. bstep E g1 G1.
    eapply pq_trans.
    - destruct (has_var s "PRICE"); [injection G1 as <-; apply pq_refl|eapply addv_pq; [|exact G1]; reflexivity].
    - destruct (has_var g1 "NETOZ"); [injection E as <-; apply pq_refl|eapply addv_pq; [|exact E]; reflexivity]. }
  eapply znf_trans; [eapply znf_zq; eapply (zq_upd (protP true)); [exact E4|]|].
  { intros s s' E. eapply addvs_pq; [|exact E]. reflexivity. }
  eapply znf_trans; [eapply znf_send_money; [|exact E5]; apply has_sub_full|].
  eapply znf_trans; [eapply znf_zq; eapply (zq_upd (protP true)); [exact E6|]|eapply znf_zq; eapply (zq_upd (protP true)); [exact E7|]].
  - intros s s' E. unfold opt_key in E.
    destruct (add_cash_flow s _ None false) as [x|] eqn:E8; [|discriminate]. injection E as <-.
    eapply pq_acf_none; [| |exact E8]; reflexivity.
  - intros s s' E. unfold opt_key in E. destruct (add_term_to_eq s "NETOZ" _) as [x|] eqn:E8; [|discriminate].
    injection E as <-. eapply pq_add_term_to_eq; [|exact E8]. reflexivity.
Qed.

Theorem gen_step2_znf J st i k st' : Forall nf (h_zone st) -> gen_step2 J st (i, k) = Ok st' -> znf (h_zone st) (h_zone st').
Proof.
  intros HN. unfold gen_step2.
  destruct (find_sec i (h_zone st)) as [self|] eqn:Fs; [|discriminate].
  assert (HH : forall ai af, (do Z' <- upd i (apply_resets [("AlphaIncome", ai); ("AlphaFin", af)]) (h_zone st) ;;
                             Ok (mkG2 Z' (h_flows st) (h_ic st))) = Ok st' -> znf (h_zone st) (h_zone st')).
  { intros ai af H. apply same2_inv in H. eapply znf_zq. eapply (zq_upd (protP true)); [exact H|].
    intros s s' E. eapply pq_apply_resets; [|exact E]. reflexivity. }
  destruct k as [k|stock|t stock| | |].
  2:{ intros H. eapply gold_step_znf; exact H. }
  2:{ intros H. apply gold_step_znf in H. exact H. }
  2,3,4: intros H; injection H as <-; apply znf_refl.
  destruct k as [| |t|ai af good lab|ai af good lab|ai af good|mz wage margin lab out|mz wage lab ms|rate paid|
                 |issuer|issuer]; intros H.
  - injection H as <-. apply znf_refl.
  - injection H as <-. apply znf_refl.
  - injection H as <-. apply znf_refl.
  - eapply HH; exact H.
  - eapply HH; exact H.
  - eapply HH; exact H.
  - destruct (find _ _) as [mk|]; [|discriminate]. destruct (has_var mk _); [|discriminate].
    apply same2_inv in H. eapply znf_zq. eapply (on_part_zq (protP false)); [exact H|]. intros C C' E.
    eapply firm_generate_zq; [|exact E]. cbn [snd]. unfold wage_resets. destruct mz; reflexivity.
  - destruct (upd i _ (h_zone st)) as [Z1|] eqn:U; [|discriminate]. cbn [bind] in H.
    destruct (existsb _ _); [discriminate|]. injection H as <-. cbn [h_zone].
    eapply znf_zq. eapply (zq_upd (protP true)); [exact U|]. intros s s' E.
    eapply pq_apply_resets; [|exact E]. reflexivity.
  - apply same2_inv in H. eapply znf_zq. eapply on_part_zq; [exact H|]. intros C C' E. eapply tax_generate_zq. exact E.
  - apply same2_inv in H. eapply market_step_znf; [exact HN|exact H].
  - apply same2_inv in H. eapply znf_zq. eapply on_part_zq; [exact H|]. intros C C' E. eapply money_generate_checked_zq. exact E.
  - apply same2_inv in H. eapply znf_zq. eapply on_part_zq; [exact H|]. intros C C' E. eapply deposit_generate_checked_zq. exact E.
Qed.

Theorem flow_step2_znf J Z f Z' : flow_step2 J Z f = Ok Z' -> znf Z Z'.
Proof.
  destruct f as [[[[src tgt] var] a] b]. unfold flow_step2. destruct tgt as [tg|]; [|discriminate].
  destruct (find_sec src Z) as [s0|] eqn:Fs; [|discriminate].
  destruct (find_sec tg Z) as [t0|]; [|discriminate].
  destruct (_ && _); [discriminate|].
  destruct (has_var s0 var); [|discriminate]. intros H. bind_step H Z1 U1.
  assert (S1 : znf Z Z1).
  { eapply znf_zq. eapply (zq_upd (protP true)); [exact U1|]. intros s s' E. unfold opt_key in E.
    destruct (add_cash_flow s _ None a) as [x|] eqn:E2; [|discriminate]. injection E as <-.
    eapply pq_acf_none; [| |exact E2]; reflexivity. }
  assert (TG : forall t Zx Zy, upd tg (fun x => opt_key (add_cash_flow x t None b)) Zx = Ok Zy -> znf Zx Zy).
  { intros t Zx Zy U. eapply znf_zq. eapply (zq_upd (protP true)); [exact U|]. intros s s' E. unfold opt_key in E.
    destruct (add_cash_flow s t None b) as [x|] eqn:E2; [|discriminate]. injection E as <-.
    eapply pq_acf_none; [| |exact E2]; reflexivity. }
  eapply znf_trans; [exact S1|].
  destruct (negb _).
  - bind_step H Z2 E2. bind_step H zt E3. destruct zt as [Z3 t]. cbn [fst snd] in H.
    eapply znf_trans; [eapply znf_send_money; [|exact E2]; apply has_sub_full|].
    eapply znf_trans; [eapply znf_receive_money; [|exact E3]; apply has_sub_full|].
    eapply TG; exact H.
  - eapply TG; exact H.
Qed.

Theorem exo_step_znf Z x Z' : exo_step Z x = Ok Z' -> znf Z Z'.
Proof.
  destruct x as [[s n] spec]. unfold exo_step. destruct (find_sec s Z); [|discriminate]. intros H.
  eapply znf_upd; [exact H|]. intros y y' E. unfold opt_key in E. destruct (set_rhs y n _) as [z|] eqn:S; [|discriminate].
  injection E as <-. eapply nfr_set_rhs; exact S.
Qed.

(* ------------------------------------------------------------------ *)
(** * Every step keeps attributes and never deletes a variable *)

Theorem gen_step2_zq_none J st i k st' : gen_step2 J st (i, k) = Ok st' -> zq P_none (h_zone st) (h_zone st').
Proof.
  intros H. destruct (match k with COld c => is_fmb c | _ => false end) eqn:B.
  - destruct k as [c| | | | |]; try discriminate B. destruct c as [| | | | | |mz wage margin lab out| | | | |]; try discriminate B.
    unfold gen_step2 in H. destruct (find_sec i (h_zone st)) as [self|]; [|discriminate].
    destruct (find _ _) as [mk|]; [|discriminate]. destruct (has_var mk _); [|discriminate].
    apply same2_inv in H. eapply zq_none. eapply (on_part_zq (protP false)); [exact H|]. intros C C' E.
    eapply firm_generate_zq; [|exact E]. cbn [snd]. unfold wage_resets. destruct mz; reflexivity.
  - eapply zq_none. eapply gen_step2_zq_div; eassumption.
Qed.

Theorem flow_step2_zq_none J Z f Z' : flow_step2 J Z f = Ok Z' -> zq P_none Z Z'.
Proof. intros H. eapply zq_none. eapply flow_step2_zq_div. exact H. Qed.

Theorem exo_step_zq_none Z x Z' : exo_step Z x = Ok Z' -> zq P_none Z Z'.
Proof.
  destruct x as [[s n] spec]. unfold exo_step. destruct (find_sec s Z); [|discriminate]. intros H.
  eapply zq_upd; [exact H|]. intros y y' E. unfold opt_key in E. destruct (set_rhs y n _) as [z|] eqn:S; [|discriminate].
  injection E as <-. eapply pq_set_rhs; [reflexivity|exact S].
Qed.

(* ------------------------------------------------------------------ *)
(** * The final checks *)

Theorem final_plumb2_holds J Z0 Zf : winv J Z0 -> winv J Zf -> Forall nt Z0 -> Forall nf Zf -> final_plumb2 J Z0 Zf = true.
Proof.
  intros W0 Wf N0 Nf. unfold final_plumb2. destruct (j_ext J) as [e|] eqn:He; [|reflexivity].
  destruct (w_ext _ _ Wf e He) as (_ & _ & _ & xr & fx & F1 & _ & _ & F2 & _ & _ & HN). rewrite F2, F1.
  destruct (w_ext _ _ W0 e He) as (_ & _ & _ & xr0 & fx0 & _ & _ & _ & F20 & _ & _ & HN0).
  unfold ledger_of. rewrite He, F20. apply andb_true_iff. split.
  - rewrite forallb_map'. apply forallb_forall. intros c _. cbn [snd]. unfold net_of.
    destruct (lookup_var ("NET_" ++ c) (vars fx0)) as [e0|] eqn:E; [|reflexivity].
    rewrite Forall_forall in N0. now rewrite (N0 fx0 (find_sec_In _ _ _ F20) ("NET_" ++ c) e0 eq_refl E).
  - apply forallb_forall. intros c Hc. assert (Hc' : List.In c (map snd (j_countries J))) by (unfold zones_of in Hc; now apply nodup_In in Hc).
    specialize (HN c Hc'). unfold has_var in HN. destruct (lookup_var ("NET_" ++ c) (vars fx)) as [e0|] eqn:E; [|discriminate].
    rewrite Forall_forall in Nf. exact (Nf fx (find_sec_In _ _ _ F2) ("NET_" ++ c) e0 eq_refl E).
Qed.
