(** Plumbing of the gold purchases of a gold-standard government / central bank ([Conflict2.gold_ok])
    and of the registered cash flows, inside one zone or across two ([Split2.flow_plumb2]): the
    recomputation checks hold for EVERY successful step.

    The exact bookkeeping: [ez g Z Z'] says that sector [s] of [Z] became the sector at the same
    position of [Z'] by an [Ledger.lstep] with EXACTLY the terms [g (sid s)] ([Ledger.zstep] only gives
    their kind); the FX sector's books across the step are followed with [FxBook.send_money_ledger] /
    [receive_money_ledger] and [ledger_of_zq] for the operations that protect the NET_* names. *)
From Coq Require Import List String Ascii Bool ZArith Arith Lia.
From SFC.Base Require Import Res Str.
From SFC.Gen Require Import Fx Zone.
From SFC.GenMarket Require Import Market MarketProofs.
From SFC.GenTax Require Import Tax TaxProofs.
From SFC.GenMain2 Require Import Program Classes Main Ledger MainProofs Conflict Program2 Main2 Ledger2 MainProofs2 Conflict2 Balance2 Zones.
From SFC.GenOrder2 Require Import Part Foreign1.
From SFC.GenPlumb Require Import FootDefs Foot Foot2 Constr Inv FxBook Local Split2.
Import ListNotations.
Local Open Scope string_scope.

(* ------------------------------------------------------------------ *)
(** * Exact ledger steps of a zone *)

Definition ez (g : nat -> list term) (Z Z' : zone) : Prop :=
  Forall2 (fun s s' => lstep s s' (g (sid s))) Z Z'.

Lemma ez_frame g Z Z' : ez g Z Z' -> Forall2 frame Z Z'.
Proof. intros H. eapply Forall2_impl; [|exact H]. intros s s' L. apply (ls_frame _ _ _ L). Qed.

Lemma ez_quiet g Z : (forall s, List.In s Z -> g (sid s) = []) -> ez g Z Z.
Proof.
  induction Z as [|a r IH]; intros H; constructor.
  - rewrite (H a (or_introl eq_refl)). apply lstep_refl.
  - apply IH. intros s Hs. apply H. now right.
Qed.

Lemma ez_refl Z : ez (fun _ => []) Z Z.
Proof. apply ez_quiet. reflexivity. Qed.

Lemma ez_trans g h Z Z1 Z2 : ez g Z Z1 -> ez h Z1 Z2 -> ez (fun i => (g i ++ h i)%list) Z Z2.
Proof.
  intros H1. revert Z2. induction H1 as [|s s1 Z Z1 La _ IH]; intros Z2 H2; inversion H2 as [|? s2 ? Z2' Lb Ht]; subst; constructor.
  - rewrite (frame_sid _ _ (ls_frame _ _ _ La)) in Lb. eapply lstep_trans; eassumption.
  - now apply IH.
Qed.

Lemma ez_ext g h Z Z' : (forall i, g i = h i) -> ez g Z Z' -> ez h Z Z'.
Proof. intros E H. eapply Forall2_impl; [|exact H]. intros s s'. cbv beta. now rewrite E. Qed.

(** a step that books nothing *)
Lemma ez_nothing Z Z' : zstep nothing Z Z' -> ez (fun _ => []) Z Z'.
Proof.
  intros H. eapply Forall2_impl; [|exact H]. intros s s' (ts & L & F). cbv beta.
  destruct ts as [|t ts]; [exact L|]. inversion F as [|? ? []].
Qed.

(** mutating the object with ID [i] *)
Lemma ez_upd i f ts : forall Z Z', upd i f Z = Ok Z' -> NoDup (map sid Z) ->
  (forall s s', f s = Ok s' -> lstep s s' ts) ->
  ez (fun j => if Nat.eqb j i then ts else []) Z Z'.
Proof.
  induction Z as [|a r IH]; intros Z' H ND Hf; cbn [upd] in H; [discriminate|].
  cbn [map] in ND. inversion ND as [|? ? Hn ND']; subst.
  destruct (Nat.eqb_spec (sid a) i) as [E|N].
  - destruct (f a) as [a'|] eqn:Fa; [|discriminate]. injection H as <-. constructor.
    + cbv beta. rewrite E, Nat.eqb_refl. now apply Hf.
    + apply (ez_quiet (fun j => if Nat.eqb j i then ts else [])). intros s Hs. cbv beta. destruct (Nat.eqb_spec (sid s) i) as [E2|]; [|reflexivity].
      exfalso. apply Hn. rewrite E, <- E2. now apply in_map.
  - destruct (upd i f r) as [r'|] eqn:U; [|discriminate]. injection H as <-. constructor.
    + cbv beta. destruct (Nat.eqb_spec (sid a) i); [contradiction|apply lstep_refl].
    + now apply IH.
Qed.

(** footprint and exact terms of one [upd] together *)
Lemma upd_both P i f ts Z Z' : upd i f Z = Ok Z' -> NoDup (map sid Z) ->
  (forall s s', f s = Ok s' -> pq P s s' /\ lstep s s' ts) ->
  zq P Z Z' /\ ez (fun j => if Nat.eqb j i then ts else []) Z Z'.
Proof.
  intros H ND Hf. split.
  - eapply zq_upd; [exact H|]. intros s s' E. apply (Hf s s' E).
  - eapply ez_upd; [exact H|exact ND|]. intros s s' E. apply (Hf s s' E).
Qed.

(** [F_ext_ok] reads [ls_F] *)
Lemma F_ext_of_lstep ts s s' : lstep s s' ts -> F_ext_ok ts s s' = true.
Proof.
  intros L. pose proof (ls_F _ _ _ L) as E. unfold F_ext_ok, F_of, ext_eq in *.
  destruct (lookup_var "F" (vars s)) as [e|].
  - rewrite E. apply eqn_eqb_refl.
  - destruct E as [-> ->]. reflexivity.
Qed.

Lemma ez_F_ext g Z Z' : ez g Z Z' -> forallb2 (fun s s' => F_ext_ok (g (sid s)) s s') Z Z' = true.
Proof.
  intros H. induction H as [|s s' Z Z' L _ IH]; [reflexivity|]. cbn [forallb2].
  now rewrite (F_ext_of_lstep _ _ _ L), IH.
Qed.

(* ------------------------------------------------------------------ *)
(** * Facts read off the invariant *)

Lemma winv_ledger J Z e : winv J Z -> j_ext J = Some e -> exists L, ledger_of J Z = Some L.
Proof.
  intros W He. destruct (w_ext _ _ W e He) as (_ & _ & _ & xr & fx & _ & _ & _ & F2 & _).
  unfold ledger_of. rewrite He, F2. eauto.
Qed.

Lemma winv_fx_xr J Z e : winv J Z -> j_ext J = Some e -> e_fx e <> e_xr e.
Proof. intros W He. destruct (w_ext _ _ W e He) as (E1 & _). lia. Qed.

Lemma winv_xr J Z e : winv J Z -> j_ext J = Some e -> multi_j J = true ->
  exists xr, find_sec (e_xr e) Z = Some xr /\ fullcode xr = "EXT_XR".
Proof. intros W He HM. destruct (w_full _ _ W e He HM) as (xr & fx & F1 & C1 & _). eauto. Qed.

Lemma apply_ops_some L ops : apply_ops (Some L) ops = Some (fold_left fx_step ops L).
Proof. reflexivity. Qed.

Lemma mem_of x l : List.In x l -> mem x l = true.
Proof. apply mem_In. Qed.

Lemma neqb a b : a <> b -> String.eqb a b = false.
Proof. apply String.eqb_neq. Qed.

(* ------------------------------------------------------------------ *)
(** * Gold purchases *)

Lemma gold_step_exact J i self stock b st st' :
  winv J (h_zone st) -> find_sec i (h_zone st) = Some self -> cur_of_sec J self <> NUM ->
  gold_step J i self stock b st = Ok st' ->
  (exists L, ledger_of J (h_zone st) = Some L /\
             ledger_of J (h_zone st') =
             Some (fx_step L (Send (cur_of_sec J self) (fullcode self ++ "__" ++ "GOLDPURCHASES")))) /\
  ez (fun j => if Nat.eqb j i then [((-1)%Z, ["GOLDPURCHASES"])] else []) (h_zone st) (h_zone st').
Proof.
  intros W Fs Hc. unfold gold_step. destruct (j_ext J) as [e|] eqn:EJ; [|discriminate].
  destruct (winv_ledger _ _ _ W EJ) as (L & HL).
  pose proof (find_sec_In _ _ _ Fs) as SelfZ.
  pose proof (winv_multi _ _ _ _ W EJ SelfZ Hc) as HM.
  pose proof (winv_cur_zone _ _ _ W SelfZ) as CZ.
  pose proof (winv_num_zone _ _ _ W EJ) as NZ.
  destruct (find_sec (e_fx e) (h_zone st)) as [fx|]; [|discriminate].
  destruct (has_var fx _); [|discriminate]. intros H. cbv zeta in H.
  bstep H Za E1. bstep H Zb Eb.
  destruct (find_sec (e_gold e) Zb) as [g|]; [|discriminate]. cbv zeta in H.
  bstep H xr E3. bstep H Zc E4. bstep H Zd E5. bstep H Ze E6. bstep H Zf E7.
  injection H as <-. cbn [h_zone].
  (* GOLDPURCHASES *)
  destruct (upd_both (protP true) _ _ [] _ _ E1 (w_nodup _ _ W)) as [Q1 X1].
  { intros s s' E. split; [eapply addv_pq; [|exact E]; reflexivity|eapply addv_lstep; [| |exact E]; discriminate]. }
  pose proof (winv_zq _ _ _ _ W Q1) as W1.
  (* GOLD.PRICE, GOLD.NETOZ *)
  destruct (upd_both (protP true) _ _ [] _ _ Eb (w_nodup _ _ W1)) as [Q2 X2].
  { intros s s' E. cbv beta in E. bstep E g1 G1. split.
    - eapply pq_trans.
      + destruct (has_var s "PRICE"); [injection G1 as <-; apply pq_refl|eapply addv_pq; [|exact G1]; reflexivity].
      + destruct (has_var g1 "NETOZ"); [injection E as <-; apply pq_refl|eapply addv_pq; [|exact E]; reflexivity].
    - eapply lstep_nil_l.
      + destruct (has_var s "PRICE"); [injection G1 as <-; apply lstep_refl|eapply addv_lstep; [| |exact G1]; discriminate].
      + destruct (has_var g1 "NETOZ"); [injection E as <-; apply lstep_refl|eapply addv_lstep; [| |exact E]; discriminate]. }
  pose proof (winv_zq _ _ _ _ W1 Q2) as W2.
  (* GOLDPRICE, GOLD, LAG_GOLD_OZ, GOLD_OZ *)
  destruct (upd_both (protP true) _ _ [] _ _ E4 (w_nodup _ _ W2)) as [Q3 X3].
  { intros s s' E. split; [eapply addvs_pq; [|exact E]; reflexivity|eapply addvs_lstep; [|exact E]; reflexivity]. }
  pose proof (winv_zq _ _ _ _ W2 Q3) as W3.
  (* _SendMoney *)
  pose proof (send_money_zq _ _ _ _ _ E5) as Q4. pose proof (ez_nothing _ _ (send_money_zstep _ _ _ _ _ E5)) as X4.
  pose proof (winv_zq _ _ _ _ W3 Q4) as W4.
  (* AddCashFlow(-GOLDPURCHASES) *)
  destruct (upd_both (protP true) _ _ [((-1)%Z, ["GOLDPURCHASES"])] _ _ E6 (w_nodup _ _ W4)) as [Q5 X5].
  { intros s s' E. unfold opt_key in E.
    destruct (add_cash_flow s _ None false) as [x|] eqn:E8; [|discriminate]. injection E as <-.
    split; [eapply pq_acf_none; [| |exact E8]; reflexivity|eapply lstep_acf_none; exact E8]. }
  pose proof (winv_zq _ _ _ _ W4 Q5) as W5.
  (* GOLD.NETOZ += xr * full *)
  destruct (upd_both (protP true) _ _ [] _ _ E7 (w_nodup _ _ W5)) as [Q6 X6].
  { intros s s' E. unfold opt_key in E. destruct (add_term_to_eq s "NETOZ" _) as [x|] eqn:E8; [|discriminate].
    injection E as <-. split; [eapply pq_add_term_to_eq; [|exact E8]; reflexivity|eapply lstep_add_term_to_eq; [| |exact E8]; discriminate]. }
  split.
  - exists L. split; [exact HL|].
    rewrite (ledger_of_zq _ J _ _ Q6), (ledger_of_zq _ J _ _ Q5).
    destruct (winv_xr _ _ _ W3 EJ HM) as (xr3 & F3 & C3).
    eapply send_money_ledger; [exact E5|exact EJ|exact F3|exact C3| |exact CZ|exact NZ].
    now rewrite (ledger_of_zq _ J _ _ Q3), (ledger_of_zq _ J _ _ Q2), (ledger_of_zq _ J _ _ Q1).
  - pose proof (ez_trans _ _ _ _ _ (ez_trans _ _ _ _ _ (ez_trans _ _ _ _ _ (ez_trans _ _ _ _ _ (ez_trans _ _ _ _ _ X1 X2) X3) X4) X5) X6) as X.
    eapply ez_ext; [|exact X]. intros j. cbv beta.
    destruct (Nat.eqb j i); destruct (Nat.eqb j (e_gold e)); reflexivity.
Qed.

(* Zones.is_gold k = true  iff  k = CGoldGov _ or CGoldCB _ _ *)
Theorem gold_plumb_holds J st i k self st' :
  winv J (h_zone st) -> find_sec i (h_zone st) = Some self -> is_gold k = true ->
  gen_step2 J st (i, k) = Ok st' -> cur_of_sec J self <> NUM ->
  gold_ok J i self (h_zone st) (h_zone st') = true.
Proof.
  intros W Fs G H Hc.
  assert (DQ : div_quiet (h_zone st) (h_zone st') = true).
  { eapply gen_step2_div_quiet; [exact H|]. destruct k; try discriminate G; reflexivity. }
  assert (GS : exists stock b st0, h_zone st0 = h_zone st /\ gold_step J i self stock b st0 = Ok st').
  { unfold gen_step2 in H. rewrite Fs in H. destruct k as [k|stock|t stock| | |]; try discriminate G.
    - exists stock, true, st. split; [reflexivity|exact H].
    - eexists stock, false, _. split; [|exact H]. reflexivity. }
  destruct GS as (stock & b & st0 & EZ & GS). rewrite <- EZ in W, Fs.
  destruct (gold_step_exact _ _ _ _ _ _ _ W Fs Hc GS) as ((L & HL & HL') & X). rewrite EZ in *.
  pose proof (find_sec_In _ _ _ Fs) as SelfZ.
  unfold gold_ok, fx_ok. rewrite HL, HL', DQ, apply_ops_some. cbn [fold_left forallb op_real op_in].
  rewrite (oledger_eqb_of _ _ eq_refl), (neqb _ _ Hc), (mem_of _ _ (winv_cur_zone _ _ _ W SelfZ)).
  cbn [negb andb]. change (no_dunder "GOLDPURCHASES") with true. cbn [andb].
  exact (ez_F_ext _ _ _ X).
Qed.

(* ------------------------------------------------------------------ *)
(** * Registered cash flows *)

Lemma acf_both s t b s' : opt_key (add_cash_flow s t None b) = Ok s' -> pq (protP true) s s' /\ lstep s s' [t].
Proof.
  unfold opt_key. destruct (add_cash_flow s t None b) as [x|] eqn:E; [|discriminate]. intros H. injection H as <-.
  split; [eapply pq_acf_none; [| |exact E]; reflexivity|eapply lstep_acf_none; exact E].
Qed.

(** inside one zone: the two bookings are those of [Main.flow_step] on the zone *)
Lemma flow_same J Z src tg var a b s t Z1 Z' :
  find_sec src Z = Some s -> find_sec tg Z = Some t -> cur_of_sec J s = cur_of_sec J t -> has_var s var = true ->
  upd src (fun x => opt_key (add_cash_flow x ((-1)%Z, [fullcode s ++ "__" ++ var]) None a)) Z = Ok Z1 ->
  upd tg (fun x => opt_key (add_cash_flow x (1%Z, [fullcode s ++ "__" ++ var]) None b)) Z1 = Ok Z' ->
  let p := in_zone (j_countries J) (cur_of_sec J s) in
  exists C', flow_step (filter p Z) (src, Some tg, var, a, b) = Ok C' /\
             filter p Z' = C' /\ filter (notb p) Z' = filter (notb p) Z.
Proof.
  intros Fs Ft EC Hv U1 U2 p.
  assert (Ps : p s = true) by (unfold p, in_zone, cur_of_sec; apply String.eqb_refl).
  assert (Pt : p t = true) by (unfold p, in_zone; rewrite EC; unfold cur_of_sec; apply String.eqb_refl).
  assert (Hp : forall x x', frame x x' -> p x' = p x) by (intros x x'; apply in_zone_frame).
  rewrite (upd_part p src _ Z s Fs Ps) in U1. bind_step U1 C1 UC1. injection U1 as <-.
  assert (QC1 : zq (protP true) (filter p Z) C1).
  { eapply zq_upd; [exact UC1|]. intros x x' E. apply (acf_both _ _ _ _ E). }
  destruct (put_back_parts p Z C1 Hp (zq_frame _ _ _ QC1)) as [P1 P1'].
  pose proof (put_back_zq _ p Z _ QC1) as QZ1.
  destruct (F2_find (pq_sid _) _ _ _ QZ1 _ Ft) as (t1 & Ft1 & Qt).
  assert (Pt1 : p t1 = true) by (rewrite (Hp _ _ (pq_frame _ _ _ Qt)); exact Pt).
  rewrite (upd_part p tg _ _ t1 Ft1 Pt1), P1 in U2. bind_step U2 C' UC2. injection U2 as <-.
  assert (QC2 : zq (protP true) C1 C').
  { eapply zq_upd; [exact UC2|]. intros x x' E. apply (acf_both _ _ _ _ E). }
  assert (FR2 : Forall2 frame (filter p (put_back_p p C1 Z)) C') by (rewrite P1; exact (zq_frame _ _ _ QC2)).
  destruct (put_back_parts p _ C' Hp FR2) as [P2 P2'].
  exists C'. split; [|split; [exact P2|now rewrite P2']].
  unfold flow_step. rewrite (find_sec_filter p _ _ _ Fs Ps), (find_sec_filter p _ _ _ Ft Pt), Hv.
  cbv zeta. rewrite UC1. cbn [bind]. exact UC2.
Qed.

Theorem flow_plumb_holds J Z f Z' : winv J Z -> flow_step2 J Z f = Ok Z' -> flow_plumb2 J (f, Z, Z') = true.
Proof.
  intros W H. pose proof (flow_step2_div_quiet _ _ _ _ H) as DQ.
  destruct f as [[[[src tgt] var] a] b]. unfold flow_plumb2, flow_ok2. unfold flow_step2 in H.
  destruct tgt as [tg|]; [|discriminate].
  destruct (find_sec src Z) as [s|] eqn:Fs; [|discriminate].
  destruct (find_sec tg Z) as [t|] eqn:Ft; [|discriminate].
  cbv zeta in H |- *. rewrite DQ. cbn [andb].
  pose proof (find_sec_In _ _ _ Fs) as InS. pose proof (find_sec_In _ _ _ Ft) as InT.
  destruct (String.eqb_spec (cur_of_sec J s) (cur_of_sec J t)) as [EC|NE]; cbn [negb andb orb] in H |- *.
  - (* one zone *)
    destruct (has_var s var) eqn:Hv; [|discriminate]. bind_step H Z1 U1.
    destruct (flow_same J Z src tg var a b s t Z1 Z' Fs Ft EC Hv U1 H) as (C' & HF & P1 & P2).
    rewrite HF, (part_ok_of _ _ _ _ P1 P2). cbn [andb].
    apply fx_ok_nil_of. apply (ledger_of_zq true).
    eapply zq_trans; (eapply zq_upd; [eassumption|]); intros x x' E; apply (acf_both _ _ _ _ E).
  - (* two zones *)
    destruct (String.eqb_spec (cur_of_sec J s) NUM) as [|N1]; [reflexivity|].
    destruct (String.eqb_spec (cur_of_sec J t) NUM) as [|N2]; [reflexivity|]. cbn [orb].
    destruct (j_ext J) as [e|] eqn:EJ; [|discriminate].
    destruct (has_var s var) eqn:Hv; [|discriminate].
    set (full := fullcode s ++ "__" ++ var) in *.
    bind_step H Z1 U1. bind_step H Z2 SM. bind_step H zt RM. destruct zt as [Z3 tm]. cbn [fst snd] in H.
    destruct (winv_ledger _ _ _ W EJ) as (L & HL).
    pose proof (winv_multi _ _ _ _ W EJ InS N1) as HM.
    pose proof (winv_cur_zone _ _ _ W InS) as CS. pose proof (winv_cur_zone _ _ _ W InT) as CT.
    pose proof (winv_num_zone _ _ _ W EJ) as NZ.
    (* the sender's booking *)
    destruct (upd_both (protP true) _ _ [((-1)%Z, [full])] _ _ U1 (w_nodup _ _ W)) as [Q1 X1].
    { intros x x' E. apply (acf_both _ _ _ _ E). }
    pose proof (winv_zq _ _ _ _ W Q1) as W1.
    (* _SendMoney *)
    pose proof (send_money_zq _ _ _ _ _ SM) as Q2. pose proof (ez_nothing _ _ (send_money_zstep _ _ _ _ _ SM)) as X2.
    pose proof (winv_zq _ _ _ _ W1 Q2) as W2.
    (* _ReceiveMoney *)
    pose proof (receive_money_zq _ _ _ _ _ _ _ RM) as Q3. pose proof (ez_nothing _ _ (receive_money_zstep _ _ _ _ _ _ _ RM)) as X3.
    pose proof (winv_zq _ _ _ _ W2 Q3) as W3.
    (* the receiver's booking *)
    destruct (upd_both (protP true) _ _ [tm] _ _ H (w_nodup _ _ W3)) as [Q4 X4].
    { intros x x' E. apply (acf_both _ _ _ _ E). }
    (* the books *)
    assert (L1 : ledger_of J Z1 = Some L) by (now rewrite (ledger_of_zq _ J _ _ Q1)).
    destruct (winv_xr _ _ _ W1 EJ HM) as (xr1 & F1 & C1).
    pose proof (send_money_ledger _ _ _ _ _ _ _ _ SM EJ F1 C1 L1 CS NZ) as L2.
    destruct (winv_xr _ _ _ W2 EJ HM) as (xr2 & F2 & C2).
    destruct (receive_money_ledger _ _ _ _ _ _ _ _ _ _ RM EJ (winv_fx_xr _ _ _ W EJ) F2 C2 L2 CT NZ) as [L3 Etm].
    assert (L4 : ledger_of J Z' = Some (fx_step (fx_step L (Send (cur_of_sec J s) full)) (Receive (cur_of_sec J s) (cur_of_sec J t) full)))
      by (now rewrite (ledger_of_zq _ J _ _ Q4)).
    unfold fx_ok. rewrite HL, L4, apply_ops_some. cbn [fold_left forallb op_real op_in].
    rewrite (oledger_eqb_of _ _ eq_refl), (neqb _ _ N1), (neqb _ _ N2), (neqb _ _ NE), (mem_of _ _ CS), (mem_of _ _ CT).
    cbn [negb andb].
    pose proof (ez_trans _ _ _ _ _ (ez_trans _ _ _ _ _ (ez_trans _ _ _ _ _ X1 X2) X3) X4) as X.
    apply (ez_F_ext (fun j => ((if Nat.eqb j src then [((-1)%Z, [full])] else []) ++
                               (if Nat.eqb j tg then [(1%Z, [full; cross_name (cur_of_sec J s) (cur_of_sec J t)])] else []))%list)).
    eapply ez_ext; [|exact X]. intros j. cbv beta. rewrite Etm. unfold credited.
    destruct (Nat.eqb j src); destruct (Nat.eqb j tg); reflexivity.
Qed.

Print Assumptions gold_plumb_holds.
Print Assumptions flow_plumb_holds.
