(** Task 1, single-currency: the plumbing part of [Conflict.no_conflict] is "a step that is not a
    dividend step leaves every DIV definition and every DIV booking alone" ([div_quiet] inside [gen_ok]
    for tax flows, markets, asset markets, households ..., and the whole of [flow_ok]).  It holds for
    every program (Foot.v), so the C01 / C04 theorems of GenMain2/PropMain.v need [sem_ok] only. *)
From Coq Require Import List String Ascii Bool ZArith Arith Lia Reals.
From SFC.Base Require Import Res Str.
From SFC.Gen Require Import Fx Zone.
From SFC.GenMarket Require Import Market MarketProofs.
From SFC.GenAsset Require Import Common CommonProofs Money MoneyProofs Deposit.
From SFC.GenTax Require Import Tax TaxProofs.
From SFC.GenMain2 Require Import Program Classes Main Ledger MainProofs Names Conflict Balance Clear.
From SFC.GenPlumb Require Import FootDefs Foot Split2 Join2 Plumb2.
Import ListNotations.
Local Open Scope string_scope.

Definition sem_free (Rn : run) : bool :=
  let Zf := fs_zone (r_final Rn) in
  forallb (gen_sem Zf (r_info Rn)) (r_gen Rn) && forallb exo_ok (r_exo Rn) && final_ok (r_info Rn) Zf.

(** the semantic side condition of the single-currency C01 / C04 theorems *)
Definition sem_ok (p : program) : bool :=
  ledger_untouched_b p && match build_run p with Ok Rn => sem_free Rn | Err _ => false end.

Definition plumb_free (Rn : run) : bool := forallb gen_plumb (r_gen Rn) && forallb flow_ok (r_flows Rn).

Definition plumbing (p : program) : bool := match build_run p with Ok Rn => plumb_free Rn | Err _ => true end.

Lemma gen_plumb_holds I st i k st' : gen_step I st (i, k) = Ok st' -> gen_plumb ((i, k), st, st') = true.
Proof.
  intros GS. unfold gen_plumb.
  assert (F : exists self, find_sec i (g_zone st) = Some self).
  { unfold gen_step in GS. destruct (find_sec i (g_zone st)) as [self|]; [eauto|discriminate]. }
  destruct F as [self F]. rewrite F.
  destruct k; try reflexivity; apply (gen_step_div_quiet _ _ _ _ _ GS); reflexivity.
Qed.

Theorem plumbing_run p Rn : build_run p = Ok Rn -> plumb_free Rn = true.
Proof.
  intros HR. destruct (build_run_inv _ _ HR) as (st & HC & HM).
  destruct (main_run_inv _ _ HM) as (gfin & Z1 & _ & _ & C1 & _ & C2 & _).
  destruct (chain_carry (gen_step (r_info Rn)) (fun _ => True) (fun x => gen_plumb x = true)
              (fun b a a' Hs _ => ltac:(destruct b as [i k]; split; [exact Logic.I|eapply gen_plumb_holds; exact Hs]))
              _ _ _ C1 Logic.I) as [_ G1].
  destruct (chain_carry flow_step (fun _ => True) (fun x => flow_ok x = true)
              (fun b a a' Hs _ => ltac:(split; [exact Logic.I|unfold flow_ok; eapply flow_step_div_quiet; exact Hs]))
              _ _ _ C2 Logic.I) as [_ G2].
  unfold plumb_free. apply andb_true_iff. split; apply forallb_forall; [rewrite Forall_forall in G1; exact G1|rewrite Forall_forall in G2; exact G2].
Qed.

Theorem plumbing_holds p : plumbing p = true.
Proof. unfold plumbing. destruct (build_run p) as [Rn|] eqn:E; [|reflexivity]. eapply plumbing_run; exact E. Qed.

Theorem sem_ok_no_conflict p : sem_ok p = true -> no_conflict p = true.
Proof.
  unfold sem_ok, no_conflict. intros H. apply andb_true_iff in H as [LU H]. rewrite LU. cbn [andb].
  destruct (build_run p) as [Rn|] eqn:E; [|discriminate]. pose proof (plumbing_run _ _ E) as P.
  unfold sem_free in H. unfold plumb_free in P. unfold conflict_free.
  apply andb_true_iff in H as [H F]. apply andb_true_iff in H as [G X]. apply andb_true_iff in P as [GP FP].
  rewrite FP, X, F, !andb_true_r. eapply forallb_join; [apply gen_join|exact G|exact GP].
Qed.

Theorem no_conflict_sem_ok p : no_conflict p = true -> sem_ok p = true.
Proof.
  unfold sem_ok, no_conflict. intros H. apply andb_true_iff in H as [LU H]. rewrite LU. cbn [andb].
  destruct (build_run p) as [Rn|]; [|discriminate]. unfold conflict_free in H. unfold sem_free.
  repeat (apply andb_true_iff in H as [H ?]). rewrite H0, H1, !andb_true_r.
  rewrite forallb_forall in *. intros x Hx. apply Join2.gen_ok_sem. now apply H.
Qed.

Theorem no_conflict_is_sem_ok p : no_conflict p = sem_ok p.
Proof.
  destruct (sem_ok p) eqn:S; [now apply sem_ok_no_conflict|].
  destruct (no_conflict p) eqn:N; [|reflexivity]. apply no_conflict_sem_ok in N. congruence.
Qed.

(* ------------------------------------------------------------------ *)
(** * The theorems of PropMain.v under [sem_ok] *)

Theorem main_stock_flow_consistent_sem p Rn : build_run p = Ok Rn -> sem_ok p = true ->
  forall (v vprev : string -> R) (bv bvp : string -> string -> R),
    bv_zero bv -> sat (r_final Rn) v vprev bv -> stock_consistent Rn vprev bvp ->
    ledger_sum v (fs_zone (r_final Rn)) = 0%R.
Proof. intros HR HS. apply (main_stock_flow_consistent p Rn HR (sem_ok_no_conflict p HS)). Qed.

Theorem main_stock_flow_two_periods_sem p Rn : build_run p = Ok Rn -> sem_ok p = true ->
  forall (v vprev vpp : string -> R) (bv bvp : string -> string -> R),
    bv_zero bv -> sat (r_final Rn) v vprev bv -> sat (r_final Rn) vprev vpp bvp ->
    ledger_sum v (fs_zone (r_final Rn)) = 0%R.
Proof. intros HR HS. apply (main_stock_flow_two_periods p Rn HR (sem_ok_no_conflict p HS)). Qed.

Theorem main_markets_clear_sem p Rn : build_run p = Ok Rn -> sem_ok p = true ->
  forall (v vprev : string -> R) (bv : string -> string -> R), sat (r_final Rn) v vprev bv ->
  forall i st st' mk, List.In ((i, CMarket), st, st') (r_gen Rn) -> find_sec i (g_zone st) = Some mk ->
    v (full_name mk (sup_short mk)) = v (full_name mk (dem_short mk)) /\
    v (full_name mk (dem_short mk)) =
      zsum (fun d => v (full_name d (Market.dem_name mk d))) (demanders mk (g_zone st)) /\
    exists r osecs rs,
      the_residual (g_zone st) mk (fst (sup_of i (i_sup (r_info Rn)))) = Ok r /\
      Forall2 (fun j s => find_sec j (g_zone st) = Some s) (map fst (snd (sup_of i (i_sup (r_info Rn))))) osecs /\
      find_sec r (g_zone st) = Some rs /\
      zsum (fun s => v (full_name mk (alloc_name s))) (osecs ++ [rs])%list = v (full_name mk (sup_short mk)).
Proof. intros HR HS. apply (main_goods_markets_clear p Rn HR (sem_ok_no_conflict p HS)). Qed.

Theorem main_money_markets_clear_sem p Rn : build_run p = Ok Rn -> sem_ok p = true ->
  forall (v vprev : string -> R) (bv : string -> string -> R), sat (r_final Rn) v vprev bv ->
  forall i issuer st st' self, List.In ((i, CMoneyMarket issuer), st, st') (r_gen Rn) ->
    find_sec i (g_zone st) = Some self ->
    let c := code self in
    exists m, MoneyProofs.market_at i (g_zone st) = Some m /\
      v (fullname m (Common.dem_name c)) =
        CommonProofs.sumR (fun h => v (fullname h (Common.dem_name c))) (filter (money_holder issuer) (g_zone st)) /\
      (forall s, List.In s (g_zone st) -> money_issuer issuer s = true ->
         v (fullname s (Common.sup_name c)) = v (fullname m (Common.dem_name c))) /\
      v (fullname m (Common.sup_name c)) = v (fullname m (Common.dem_name c)).
Proof. intros HR HS. apply (main_money_markets_clear p Rn HR (sem_ok_no_conflict p HS)). Qed.

Theorem main_deposit_markets_clear_sem p Rn : build_run p = Ok Rn -> sem_ok p = true ->
  forall (v vprev : string -> R) (bv : string -> string -> R), sat (r_final Rn) v vprev bv ->
  forall i issuer st st' self, List.In ((i, CDepositMarket issuer), st, st') (r_gen Rn) ->
    find_sec i (g_zone st) = Some self ->
    let c := code self in
    exists m, MoneyProofs.market_at i (g_zone st) = Some m /\
      v (fullname m (Common.dem_name c)) =
        CommonProofs.sumR (fun h => v (fullname h (Common.dem_name c))) (filter (dep_holder c issuer) (g_zone st)) /\
      (forall s, List.In s (g_zone st) -> dep_issuer issuer s = true ->
         v (fullname s (Common.sup_name c)) = v (fullname m (Common.dem_name c))) /\
      v (fullname m (Common.sup_name c)) = v (fullname m (Common.dem_name c)).
Proof. intros HR HS. apply (main_deposit_markets_clear p Rn HR (sem_ok_no_conflict p HS)). Qed.
