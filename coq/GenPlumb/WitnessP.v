(** Concrete programs: the semantic side conditions hold on the open-economy, gold-standard, embedded
    single-currency and three-zone examples (the last one has a goods market supplied from TWO other
    zones: outside [sem_ok2] / [no_conflict2], inside [sem_ok2_multi]); they fail on the miniatures of
    GenMain2 in which the conclusions fail. *)
From Coq Require Import List String Bool ZArith Arith Reals.
From SFC.Base Require Import Res Str.
From SFC.Gen Require Import Fx Flows Zone.
From SFC.GenTax Require Import Tax TaxProofs.
From SFC.GenMain2 Require Import Program Classes Main Conflict Balance Witness Program2 Main2 Conflict2 Zones Witness2.
From SFC.GenClear2 Require Import Witness3.
From SFC.GenPlumb Require Import Split2 Sem1 Sem2 Multi.
Import ListNotations.
Local Open Scope string_scope.

Lemma OPEN_sem : is_ok (build2 p_OPEN) = true /\ sem_ok2 p_OPEN = true /\ plumbing2 p_OPEN = true.
Proof. vm_compute. repeat split; reflexivity. Qed.

Lemma GOLD_sem : is_ok (build2 p_GOLD) = true /\ sem_ok2 p_GOLD = true /\ plumbing2 p_GOLD = true.
Proof. vm_compute. repeat split; reflexivity. Qed.

Lemma SIM_embedded_sem : is_ok (build2 (map embed_step p_SIM)) = true /\ sem_ok2 (map embed_step p_SIM) = true.
Proof. vm_compute. split; reflexivity. Qed.

(** CA's goods market supplied by US_BUS and JP_BUS *)
Lemma THREE_sem : is_ok (build2 p_THREE) = true /\ no_conflict2 p_THREE = false /\ sem_ok2 p_THREE = false /\
  sem_ok2_multi p_THREE = true /\ plumbing2 p_THREE = true.
Proof. vm_compute. repeat split; reflexivity. Qed.

Lemma SIM_sem : is_ok (build p_SIM) = true /\ sem_ok p_SIM = true.
Proof. vm_compute. split; reflexivity. Qed.
Lemma PC_sem : is_ok (build p_PC) = true /\ sem_ok p_PC = true.
Proof. vm_compute. split; reflexivity. Qed.
Lemma REG_sem : is_ok (build p_REG) = true /\ sem_ok p_REG = true.
Proof. vm_compute. split; reflexivity. Qed.

(** the semantic conditions are still needed: GenMain2's refutations are refutations of [sem_ok] / [sem_ok2] *)
Local Open Scope R_scope.

Theorem overwritten_tax_sem_refuted :
  build_run p_bad = Ok R_bad /\ sem_ok p_bad = false /\ bv_zero bv_bad /\
  sat (r_final R_bad) v_bad (fun _ => 0) bv_bad /\
  stock_consistent R_bad (fun _ => 0) (fun _ _ => 0) /\
  ledger_sum v_bad (fs_zone (r_final R_bad)) = -5.
Proof.
  destruct overwritten_tax_refuted as (A & B & C). split; [exact A|]. split; [|exact C]. now rewrite <- no_conflict_is_sem_ok.
Qed.

Theorem overwritten_net_sem_refuted :
  build_run2 p_bad2 = Ok R_bad2 /\ sem_ok2 p_bad2 = false /\ sem_ok2_multi p_bad2 = false /\
  sat (q_final R_bad2) v_bad2 (fun _ => 0) bv_bad2 /\
  rates_ok2 ["CA"; "NUMERAIRE"] v_bad2 /\
  TaxProofs.sumR (fun c => v_bad2 (net_key c) * rate v_bad2 c) (zones_of (j_countries (q_info R_bad2))) = 5.
Proof.
  destruct overwritten_net_refuted as (A & B & C). split; [exact A|]. split; [now rewrite <- no_conflict2_is_sem_ok2|].
  split; [vm_compute; reflexivity|exact C].
Qed.
