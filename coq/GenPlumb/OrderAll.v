(** Task 3, single-currency: GenOrder's side condition [order_ok] equals its semantic part [order_sem]
    (Order1.v) and is invariant under admissible permutations (OrderPerm.v); hence the order-invariance
    theorems with ONE semantic hypothesis. *)
From Coq Require Import List String Bool ZArith Arith.
From SFC.Base Require Import Res Str.
From SFC.Gen Require Import Fx Zone.
From SFC.GenMain2 Require Import Program Classes Main Conflict.
From SFC.GenOrder Require Import Perm Equiv Static2 SysEquiv Constr Order OrderThm.
From SFC.GenPlumb Require Import Order1 OrderPerm.
Import ListNotations.

Theorem order_sem_perm p p' : admissible_perm p p' -> order_sem p = true -> order_sem p' = true.
Proof. rewrite <- !order_ok_eq_sem. apply order_ok_perm. Qed.

Theorem order_sem_perm_eq p p' : admissible_perm p p' -> order_sem p' = order_sem p.
Proof.
  intros A. destruct (order_sem p) eqn:S.
  - now apply (order_sem_perm p p' A).
  - destruct (order_sem p') eqn:S'; [|reflexivity]. apply (order_sem_perm p' p (admissible_sym _ _ A)) in S'. congruence.
Qed.

(** success does not depend on the declaration order: one hypothesis *)
Theorem main_order_errors_sem_one p p' : admissible_perm p p' -> order_sem p = true -> is_ok (build p') = is_ok (build p).
Proof. intros A O. apply main_order_errors_one; [exact A|now apply order_sem_order_ok]. Qed.
