(** GenPlumb: the PLUMBING conjuncts of the side conditions [no_conflict] / [no_conflict2] of the program-level
    C01 / C04 / C07 theorems (coq/GenMain2/PropMain.v, PropMain2.v) are PROVED for every program instead
    of evaluated per program, and C01 / C07 are extended to markets supplied from two or more other
    currency zones.

    Reading guide:
      [no_conflict2 p]   (GenMain2/Conflict2.v) = semantic conjuncts + recomputation checks;
      [sem_ok2 p]        (Split2.v) the semantic conjuncts only: freshness when a booking group ran, installed
                         definitions kept and endogenous at the end, suppliers registered once, names without "__",
                         the FX operations of a step are between REAL currencies (no gold sector / foreign supplier /
                         flow end in the numeraire zone), no user step wrote a NET_<c> equation of EXT_FX or gave it an
                         opaque part, the model has a country besides EXT (so that EXT_FX is spelled EXT_FX);
      [plumbing2 p]      (Split2.v) every recomputation check of [no_conflict2]: the step recomputed on the part of
                         the sector list it acts on succeeds and gives that part of the state after the step, every
                         other sector is untouched, the NET_<c> term lists after the step are [fold fx_step ops] of
                         those before, F was extended by exactly the listed terms, lookups of participants succeed,
                         DIV untouched by non-dividend steps, NET_<c> empty at the start and made of full names at
                         the end;
      [sem_ok p], [plumbing p]   (Sem1.v) the same split of the single-currency [no_conflict] (its plumbing part is
                         "a step that is not a dividend step leaves DIV definitions and DIV bookings alone");
      [sem_ok2_multi p]  (Multi.v) [sem_ok2] with markets supplied from several other zones admitted under the
                         conditions of the one-foreign-zone case ([multi_sem]). *)
From Coq Require Import List String Bool ZArith Arith Reals.
From SFC.Base Require Import Res Str.
From SFC.Gen Require Import Fx Flows Zone.
From SFC.GenMarket Require Import Market MarketProofs.
From SFC.GenAsset Require Import Common CommonProofs Money MoneyProofs Deposit.
From SFC.GenTax Require Import Tax TaxProofs.
From SFC.GenMain2 Require Import Program Classes Main Ledger MainProofs Names Conflict Balance Clear Witness
                                 Program2 Main2 Ledger2 MainProofs2 Names2 Conflict2 Balance2 Zones Witness2.
From SFC.GenClear2 Require Import Witness3.
From SFC.GenPlumb Require Import Split2 Join2 Sem1 Sem2 Multi MultiThm WitnessP.
Import ListNotations.
Local Open Scope string_scope.

(* ------------------------------------------------------------------ *)
(** * 1. The plumbing conjuncts hold for every program *)

Theorem Main2_plumbing_holds : forall p, plumbing2 p = true.
Proof. exact plumbing2_holds. Qed.
Print Assumptions Main2_plumbing_holds.

Theorem Main2_no_conflict2_is_semantic : forall p, no_conflict2 p = sem_ok2 p.
Proof. exact no_conflict2_is_sem_ok2. Qed.
Print Assumptions Main2_no_conflict2_is_semantic.

Theorem Main2_sem_plumb_split : forall p, sem_ok2 p = true -> plumbing2 p = true -> no_conflict2 p = true.
Proof. exact sem_plumb_no_conflict2. Qed.
Print Assumptions Main2_sem_plumb_split.

Theorem Main_plumbing_holds : forall p, plumbing p = true.
Proof. exact plumbing_holds. Qed.
Print Assumptions Main_plumbing_holds.

Theorem Main_no_conflict_is_semantic : forall p, no_conflict p = sem_ok p.
Proof. exact no_conflict_is_sem_ok. Qed.
Print Assumptions Main_no_conflict_is_semantic.

(* ------------------------------------------------------------------ *)
(** * 2. C01 / C07 for multi-currency programs under the semantic conditions only *)

Theorem Main2_stock_flow_consistent_sem : forall p Rn, build_run2 p = Ok Rn -> sem_ok2 p = true ->
  forall (v vprev : string -> R) (bv bvp : string -> string -> R),
    bv_zero bv -> sat (q_final Rn) v vprev bv -> stock_consistent2 Rn vprev bvp ->
    forall c, c <> NUM -> List.In c (zones_of (j_countries (q_info Rn))) ->
      (ledger_sum v (filter (in_zone (j_countries (q_info Rn)) c) (fs_zone (q_final Rn))) + net_value Rn v c = 0)%R.
Proof. exact main2_stock_flow_consistent_sem. Qed.
Print Assumptions Main2_stock_flow_consistent_sem.

Theorem Main2_fx_valued_zero_sem : forall p Rn, build_run2 p = Ok Rn -> sem_ok2 p = true ->
  j_ext (q_info Rn) <> None ->
  forall (v vprev : string -> R) (bv : string -> string -> R), sat (q_final Rn) v vprev bv ->
    let zs := zones_of (j_countries (q_info Rn)) in
    (rates_ok2 zs v -> TaxProofs.sumR (fun c => v (net_key c) * rate v c) zs = 0)%R /\
    (forallb (fun x => negb (is_gold (snd (fst (fst x))))) (q_gen Rn) = true -> List.In NUM zs -> v (net_key NUM) = 0%R).
Proof. exact main2_fx_valued_zero_sem. Qed.
Print Assumptions Main2_fx_valued_zero_sem.

(* ------------------------------------------------------------------ *)
(** * 3. C01 / C04 for single-currency programs under the semantic conditions only *)

Theorem Main_stock_flow_consistent_sem : forall p Rn, build_run p = Ok Rn -> sem_ok p = true ->
  forall (v vprev : string -> R) (bv bvp : string -> string -> R),
    bv_zero bv -> sat (r_final Rn) v vprev bv -> stock_consistent Rn vprev bvp ->
    ledger_sum v (fs_zone (r_final Rn)) = 0%R.
Proof. exact main_stock_flow_consistent_sem. Qed.
Print Assumptions Main_stock_flow_consistent_sem.

Theorem Main_stock_flow_two_periods_sem : forall p Rn, build_run p = Ok Rn -> sem_ok p = true ->
  forall (v vprev vpp : string -> R) (bv bvp : string -> string -> R),
    bv_zero bv -> sat (r_final Rn) v vprev bv -> sat (r_final Rn) vprev vpp bvp ->
    ledger_sum v (fs_zone (r_final Rn)) = 0%R.
Proof. exact main_stock_flow_two_periods_sem. Qed.
Print Assumptions Main_stock_flow_two_periods_sem.

Theorem Main_markets_clear_sem : forall p Rn, build_run p = Ok Rn -> sem_ok p = true ->
  forall (v vprev : string -> R) (bv : string -> string -> R), sat (r_final Rn) v vprev bv ->
  forall i st st' mk, List.In ((i, CMarket), st, st') (r_gen Rn) -> find_sec i (g_zone st) = Some mk ->
    v (full_name mk (sup_short mk)) = v (full_name mk (dem_short mk)) /\
    v (full_name mk (dem_short mk)) =
      zsum (fun d => v (full_name d (Market.dem_name mk d))) (demanders mk (g_zone st)) /\
    exists r osecs rs,
      the_residual (g_zone st) mk (fst (sup_of i (i_sup (r_info Rn)))) = Ok r /\
      Forall2 (fun j s => find_sec j (g_zone st) = Some s) (map fst (snd (sup_of i (i_sup (r_info Rn))))) osecs /\
      find_sec r (g_zone st) = Some rs /\
      zsum (fun s => v (full_name mk (alloc_name s))) (osecs ++ [rs])%list = v (full_name mk (sup_short mk)).
Proof. exact main_markets_clear_sem. Qed.
Print Assumptions Main_markets_clear_sem.

Theorem Main_money_markets_clear_sem : forall p Rn, build_run p = Ok Rn -> sem_ok p = true ->
  forall (v vprev : string -> R) (bv : string -> string -> R), sat (r_final Rn) v vprev bv ->
  forall i issuer st st' self, List.In ((i, CMoneyMarket issuer), st, st') (r_gen Rn) ->
    find_sec i (g_zone st) = Some self ->
    let c := code self in
    exists m, MoneyProofs.market_at i (g_zone st) = Some m /\
      v (fullname m (Common.dem_name c)) =
        CommonProofs.sumR (fun h => v (fullname h (Common.dem_name c))) (filter (money_holder issuer) (g_zone st)) /\
      (forall s, List.In s (g_zone st) -> money_issuer issuer s = true ->
         v (fullname s (Common.sup_name c)) = v (fullname m (Common.dem_name c))) /\
      v (fullname m (Common.sup_name c)) = v (fullname m (Common.dem_name c)).
Proof. exact main_money_markets_clear_sem. Qed.
Print Assumptions Main_money_markets_clear_sem.

Theorem Main_deposit_markets_clear_sem : forall p Rn, build_run p = Ok Rn -> sem_ok p = true ->
  forall (v vprev : string -> R) (bv : string -> string -> R), sat (r_final Rn) v vprev bv ->
  forall i issuer st st' self, List.In ((i, CDepositMarket issuer), st, st') (r_gen Rn) ->
    find_sec i (g_zone st) = Some self ->
    let c := code self in
    exists m, MoneyProofs.market_at i (g_zone st) = Some m /\
      v (fullname m (Common.dem_name c)) =
        CommonProofs.sumR (fun h => v (fullname h (Common.dem_name c))) (filter (dep_holder c issuer) (g_zone st)) /\
      (forall s, List.In s (g_zone st) -> dep_issuer issuer s = true ->
         v (fullname s (Common.sup_name c)) = v (fullname m (Common.dem_name c))) /\
      v (fullname m (Common.sup_name c)) = v (fullname m (Common.dem_name c)).
Proof. exact main_deposit_markets_clear_sem. Qed.
Print Assumptions Main_deposit_markets_clear_sem.

(* ------------------------------------------------------------------ *)
(** * 4. Markets supplied from two or more other currency zones *)

Theorem Main2_sem_ok2_multi_extends : forall p, sem_ok2 p = true -> sem_ok2_multi p = true.
Proof. exact sem_ok2_multi_of. Qed.
Print Assumptions Main2_sem_ok2_multi_extends.

Theorem Main2_stock_flow_consistent_multi : forall p Rn, build_run2 p = Ok Rn -> sem_ok2_multi p = true ->
  forall (v vprev : string -> R) (bv bvp : string -> string -> R),
    bv_zero bv -> sat (q_final Rn) v vprev bv -> stock_consistent2 Rn vprev bvp ->
    forall c, c <> NUM -> List.In c (zones_of (j_countries (q_info Rn))) ->
      (ledger_sum v (filter (in_zone (j_countries (q_info Rn)) c) (fs_zone (q_final Rn))) + net_value Rn v c = 0)%R.
Proof. exact main2_stock_flow_consistent_multi. Qed.
Print Assumptions Main2_stock_flow_consistent_multi.

Theorem Main2_fx_valued_zero_multi : forall p Rn, build_run2 p = Ok Rn -> sem_ok2_multi p = true ->
  j_ext (q_info Rn) <> None ->
  forall (v vprev : string -> R) (bv : string -> string -> R), sat (q_final Rn) v vprev bv ->
    let zs := zones_of (j_countries (q_info Rn)) in
    (rates_ok2 zs v -> TaxProofs.sumR (fun c => v (net_key c) * rate v c) zs = 0)%R /\
    (forallb (fun x => negb (is_gold (snd (fst (fst x))))) (q_gen Rn) = true -> List.In NUM zs -> v (net_key NUM) = 0%R).
Proof. exact main2_fx_valued_zero_multi. Qed.
Print Assumptions Main2_fx_valued_zero_multi.

(* ------------------------------------------------------------------ *)
(** * Non-vacuity *)

Example Plumb_example_OPEN : is_ok (build2 p_OPEN) = true /\ sem_ok2 p_OPEN = true /\ plumbing2 p_OPEN = true.
Proof. exact OPEN_sem. Qed.
Print Assumptions Plumb_example_OPEN.

Example Plumb_example_GOLD : is_ok (build2 p_GOLD) = true /\ sem_ok2 p_GOLD = true /\ plumbing2 p_GOLD = true.
Proof. exact GOLD_sem. Qed.
Print Assumptions Plumb_example_GOLD.

Example Plumb_example_SIM_embedded :
  is_ok (build2 (map embed_step p_SIM)) = true /\ sem_ok2 (map embed_step p_SIM) = true.
Proof. exact SIM_embedded_sem. Qed.
Print Assumptions Plumb_example_SIM_embedded.

(** three currency zones; CA's goods market is supplied by US_BUS and JP_BUS: outside [no_conflict2] and [sem_ok2],
    inside [sem_ok2_multi] *)
Example Plumb_example_THREE : is_ok (build2 p_THREE) = true /\ no_conflict2 p_THREE = false /\ sem_ok2 p_THREE = false /\
  sem_ok2_multi p_THREE = true /\ plumbing2 p_THREE = true.
Proof. exact THREE_sem. Qed.
Print Assumptions Plumb_example_THREE.

Example Plumb_example_SIM : is_ok (build p_SIM) = true /\ sem_ok p_SIM = true.
Proof. exact SIM_sem. Qed.
Print Assumptions Plumb_example_SIM.

Example Plumb_example_PC : is_ok (build p_PC) = true /\ sem_ok p_PC = true.
Proof. exact PC_sem. Qed.
Print Assumptions Plumb_example_PC.

(* ------------------------------------------------------------------ *)
(** * The semantic conditions are still needed *)

(** a user AddVariable gives the household a T of its own: [sem_ok] is false, every row of the final system is
    satisfied, the financial assets do not balance *)
Theorem Main_stock_flow_consistent_sem_refuted :
  build_run p_bad = Ok R_bad /\ sem_ok p_bad = false /\ bv_zero bv_bad /\
  sat (r_final R_bad) v_bad (fun _ => 0%R) bv_bad /\
  stock_consistent R_bad (fun _ => 0%R) (fun _ _ => 0%R) /\
  ledger_sum v_bad (fs_zone (r_final R_bad)) = (-5)%R.
Proof. exact overwritten_tax_sem_refuted. Qed.
Print Assumptions Main_stock_flow_consistent_sem_refuted.

(** a user AddVariable gives NET_CA an opaque part of 5: [sem_ok2] and [sem_ok2_multi] are false, every row is
    satisfied with unit rates, the valued position is 5 *)
Theorem Main2_fx_valued_zero_sem_refuted :
  build_run2 p_bad2 = Ok R_bad2 /\ sem_ok2 p_bad2 = false /\ sem_ok2_multi p_bad2 = false /\
  sat (q_final R_bad2) v_bad2 (fun _ => 0%R) bv_bad2 /\
  rates_ok2 ["CA"; "NUMERAIRE"] v_bad2 /\
  (TaxProofs.sumR (fun c => v_bad2 (net_key c) * rate v_bad2 c) (zones_of (j_countries (q_info R_bad2))) = 5)%R.
Proof. exact overwritten_net_sem_refuted. Qed.
Print Assumptions Main2_fx_valued_zero_sem_refuted.
