(** Footprints: which variable names a step writes.

    [pq P s s']: sector [s'] has the attributes of [s] and the equation of every variable whose
    name satisfies [P] (the PROTECTED names) is what it was.  The booking groups only ever write
    names spelled T, TaxRate, DEM_*, SUP_*, LAG_*, INT*, PROF, Alpha*, F, INC and (dividend steps)
    DIV; so the names NET_<currency> of the FX intermediary and, outside dividend steps, DIV are
    protected.  Primitive lemmas here; the booking groups in Foot.v. *)
From Coq Require Import List String Ascii Bool ZArith Arith.
From SFC.Base Require Import Res Str.
From SFC.Gen Require Import Fx Zone.
From SFC.GenMarket Require Import Market.
From SFC.GenTax Require Import Tax TaxProofs Dividends.
From SFC.GenAsset Require Import Common.
Import ListNotations.
Local Open Scope string_scope.

(** protected names: NET_<anything>, and DIV when [d] *)
Definition is_net (n : string) : bool :=
  match n with
  | String a (String b (String c (String d _))) =>
      Ascii.eqb a "N" && Ascii.eqb b "E" && Ascii.eqb c "T" && Ascii.eqb d "_"
  | _ => false
  end.

Definition protP (d : bool) (n : string) : bool := (String.eqb n "DIV" && d) || is_net n.

Definition P_div (n : string) : bool := String.eqb n "DIV".

Record pq (P : string -> bool) (s s' : sector) : Prop := mkPq {
  pq_frame : frame s s';
  pq_keep : forall n, P n = true -> lookup_var n (vars s') = lookup_var n (vars s);
  pq_mono : forall n, has_var s n = true -> has_var s' n = true        (* no variable is ever deleted *)
}.

Lemma pq_refl P s : pq P s s.
Proof. split; [apply frame_refl|reflexivity|auto]. Qed.

Lemma pq_trans P a b c : pq P a b -> pq P b c -> pq P a c.
Proof.
  intros [F1 K1 M1] [F2 K2 M2]. split; [eapply frame_trans; eassumption| |auto].
  intros n Hn. rewrite (K2 n Hn). now apply K1.
Qed.

Lemma pq_weaken (P Q : string -> bool) s s' : (forall n, Q n = true -> P n = true) -> pq P s s' -> pq Q s s'.
Proof. intros H [F K M]. split; [exact F| |exact M]. intros n Hn. apply K. now apply H. Qed.

Lemma has_set_var n e vs m : (match lookup_var m vs with Some _ => true | None => false end) = true ->
  (match lookup_var m (set_var n e vs) with Some _ => true | None => false end) = true.
Proof.
  destruct (String.eqb_spec n m) as [->|N]; [now rewrite lookup_set_same|now rewrite (lookup_set_other n m e vs N)].
Qed.

Lemma protP_div n : P_div n = true -> protP true n = true.
Proof. unfold P_div, protP. intros ->. reflexivity. Qed.

Lemma protP_mono d n : protP d n = true -> protP true n = true.
Proof. unfold protP. destruct d; [auto|]. rewrite andb_false_r. cbn [orb]. intros ->. apply orb_true_r. Qed.

Lemma protP_net d c : protP d ("NET_" ++ c) = true.
Proof. unfold protP. apply orb_true_iff. right. reflexivity. Qed.

(** dict assignment of an unprotected name *)
Lemma pq_set_var P s n e : P n = false -> pq P s (with_vars s (set_var n e (vars s))).
Proof.
  intros Hn. split; [apply frame_with_vars| |].
  - intros m Hm. cbn. apply lookup_set_other. intros ->. congruence.
  - intros m. unfold has_var. cbn. apply has_set_var.
Qed.

Lemma pq_install P s n e : P n = false -> pq P s (install s n e).
Proof. apply pq_set_var. Qed.
Lemma pq_add_variable P s n b : P n = false -> pq P s (add_variable s n b).
Proof. apply pq_set_var. Qed.
Lemma pq_def_variable P s n l : P n = false -> pq P s (def_variable s n l).
Proof. apply pq_set_var. Qed.
Lemma pq_set_eqn P s n e : P n = false -> pq P s (set_eqn s n e).
Proof. apply pq_set_var. Qed.

Lemma pq_set_rhs P s n b s' : P n = false -> set_rhs s n b = Some s' -> pq P s s'.
Proof.
  unfold set_rhs. intros Hn H. destruct (lookup_var n (vars s)); [|discriminate]. injection H as <-. now apply pq_set_var.
Qed.

Lemma pq_set_struct P s n e s' : P n = false -> set_struct s n e = Some s' -> pq P s s'.
Proof.
  unfold set_struct. intros Hn H. destruct (lookup_var n (vars s)); [|discriminate]. injection H as <-. now apply pq_install.
Qed.

Lemma pq_set_rhs_terms P s n ts s' : P n = false -> set_rhs_terms s n ts = Some s' -> pq P s s'.
Proof.
  unfold set_rhs_terms. intros Hn H. destruct (lookup_var n (vars s)); [|discriminate]. injection H as <-. now apply pq_set_eqn.
Qed.

Lemma pq_add_term_to_eq P s n t s' : P n = false -> add_term_to_eq s n t = Some s' -> pq P s s'.
Proof.
  unfold add_term_to_eq. intros Hn H. destruct (lookup_var n (vars s)); [|discriminate]. injection H as <-. now apply pq_set_var.
Qed.

Lemma pq_ensure_var P s n : P n = false -> pq P s (ensure_var s n).
Proof. intros Hn. unfold ensure_var. destruct (has_var s n); [apply pq_refl|now apply pq_add_variable]. Qed.

(** Sector.AddCashFlow: writes F, INC and (with a defining expression) the flow variable *)
Lemma pq_add_cash_flow P s t def b s' : P "F" = false -> P "INC" = false ->
  (def <> None -> P (String.concat "*" (snd t)) = false) ->
  add_cash_flow s t def b = Some s' -> pq P s s'.
Proof.
  intros HF HI HD. unfold add_cash_flow.
  destruct (add_term_to_eq s "F" t) as [s1|] eqn:E1; [|discriminate].
  pose proof (pq_add_term_to_eq P _ _ _ _ HF E1) as Q1.
  destruct (if b && negb (mem (String.concat "*" (snd t)) (excl s)) then add_term_to_eq s1 "INC" t else Some s1) as [s2|] eqn:E2; [|discriminate].
  assert (Q2 : pq P s1 s2).
  { destruct (b && negb _); [eapply pq_add_term_to_eq; eassumption|injection E2 as <-; apply pq_refl]. }
  destruct def as [d|].
  - assert (HN : P (String.concat "*" (snd t)) = false) by (apply HD; discriminate).
    destruct (lookup_var _ (vars s2)) as [e|].
    + destruct (renders_empty e).
      * intros H. eapply pq_trans; [exact Q1|]. eapply pq_trans; [exact Q2|]. eapply pq_set_rhs; eassumption.
      * intros H. injection H as <-. eapply pq_trans; eassumption.
    + intros H. injection H as <-. eapply pq_trans; [exact Q1|]. eapply pq_trans; [exact Q2|]. now apply pq_add_variable.
  - intros H. injection H as <-. eapply pq_trans; eassumption.
Qed.

Lemma protP_F d : protP d "F" = false.
Proof. reflexivity. Qed.
Lemma protP_INC d : protP d "INC" = false.
Proof. reflexivity. Qed.

(** zones *)
Definition zq (P : string -> bool) (Z Z' : zone) : Prop := Forall2 (pq P) Z Z'.

Lemma zq_refl P Z : zq P Z Z.
Proof. induction Z; constructor; [apply pq_refl|assumption]. Qed.

Lemma zq_trans P A B C : zq P A B -> zq P B C -> zq P A C.
Proof.
  intros H1. revert C. induction H1 as [|a b A B Hab _ IH]; intros C H2; inversion H2; subst; constructor.
  - eapply pq_trans; eassumption.
  - now apply IH.
Qed.

Lemma zq_weaken (P Q : string -> bool) Z Z' : (forall n, Q n = true -> P n = true) -> zq P Z Z' -> zq Q Z Z'.
Proof. intros H HF. eapply Forall2_impl; [|exact HF]. intros s s'. now apply pq_weaken. Qed.

Lemma zq_frame P Z Z' : zq P Z Z' -> Forall2 frame Z Z'.
Proof. intros H. eapply Forall2_impl; [|exact H]. intros s s' [F _ _]. exact F. Qed.

Lemma zq_app P A A' B B' : zq P A A' -> zq P B B' -> zq P (A ++ B)%list (A' ++ B')%list.
Proof. apply Forall2_app. Qed.

Lemma zq_upd P i f Z Z' : upd i f Z = Ok Z' -> (forall s s', f s = Ok s' -> pq P s s') -> zq P Z Z'.
Proof.
  intros H Hf. revert Z' H. induction Z as [|a r IH]; intros Z' H; simpl in H; [discriminate|].
  destruct (Nat.eqb (sid a) i).
  - destruct (f a) as [a'|] eqn:Fa; [|discriminate]. injection H as <-. constructor; [now apply Hf|apply zq_refl].
  - destruct (upd i f r) as [r'|]; [|discriminate]. injection H as <-. constructor; [apply pq_refl|now apply IH].
Qed.

Lemma zq_update_where P p f : forall Z Z', update_where p f Z = Ok Z' -> (forall s s', f s = Ok s' -> pq P s s') -> zq P Z Z'.
Proof.
  induction Z as [|a r IH]; intros Z' H Hf; simpl in H; [injection H as <-; constructor|].
  destruct (if p a then f a else Ok a) as [a'|] eqn:E; [|discriminate]. simpl in H.
  destruct (update_where p f r) as [r'|] eqn:E2; [|discriminate]. simpl in H. injection H as <-.
  constructor; [|now apply IH]. destruct (p a); [now apply Hf|injection E as <-; apply pq_refl].
Qed.
