(** The side condition [order_ok] of the order-invariance theorem (coq/GenOrder) is itself invariant
    under admissible permutations of the declarations; hence success of [build] does not depend
    on the declaration order under the single hypothesis [order_ok p]. *)
(* ------------------------------------------------------------------ *)
(** * Part 0: the equation block of every sector of an emitted system has unique keys

    [Main.sector_rows] reads [vars] as a dict "whose keys are unique in every state the pipeline
    reaches"; this module proves that remark for [Main.build] (every write goes through
    [set_var], which overwrites in place or appends).  [texts_ok] inspects every entry of the
    association list, so the invariance of [order_ok] needs it. *)
From Coq Require Import List String Bool ZArith Arith Lia.
From SFC.Base Require Import Res Str.
From SFC.Gen Require Import Fx Zone.
From SFC.GenMarket Require Import Market.
From SFC.GenTax Require Import Tax Dividends.
From SFC.GenAsset Require Import Common Money Deposit Weighting.
From SFC.GenMain2 Require Import Program Classes Main.
Import ListNotations.
Local Open Scope string_scope.

Module Keys.

Definition keys_ok (s : sector) : Prop := NoDup (map fst (vars s)).

(* ------------------------------------------------------------------ *)
(** * The association list *)

Lemma lookup_none_notin n vs : lookup_var n vs = None -> ~ In n (map fst vs).
Proof.
  induction vs as [|[k e] r IH]; simpl; [tauto|].
  destruct (String.eqb_spec n k); [discriminate|]. intros H [E|E]; [congruence|now apply IH].
Qed.

Lemma set_var_keys_in n e vs : In n (map fst vs) -> map fst (set_var n e vs) = map fst vs.
Proof.
  induction vs as [|[k e'] r IH]; simpl; [tauto|].
  destruct (String.eqb_spec n k); [reflexivity|]. intros [E|E]; [congruence|]. simpl. now rewrite IH.
Qed.

Lemma set_var_keys_notin n e vs : ~ In n (map fst vs) -> map fst (set_var n e vs) = (map fst vs ++ [n])%list.
Proof.
  induction vs as [|[k e'] r IH]; simpl; [reflexivity|].
  destruct (String.eqb_spec n k); [intros H; exfalso; apply H; now left|].
  intros H. simpl. rewrite IH; [reflexivity|tauto].
Qed.

Lemma NoDup_snoc {A} (l : list A) a : NoDup l -> ~ In a l -> NoDup (l ++ [a]).
Proof.
  induction 1 as [|x l Hx Hl IH]; simpl; intros Ha.
  - constructor; [tauto|constructor].
  - constructor; [|apply IH; tauto]. rewrite in_app_iff. simpl. intros [I|[I|[]]]; [tauto|]. apply Ha. now left.
Qed.

Lemma set_var_keys n e vs : NoDup (map fst vs) -> NoDup (map fst (set_var n e vs)).
Proof.
  intros H. destruct (in_dec string_dec n (map fst vs)) as [I|I].
  - now rewrite set_var_keys_in.
  - rewrite set_var_keys_notin by assumption. now apply NoDup_snoc.
Qed.

(* ------------------------------------------------------------------ *)
(** * Sector primitives *)

Lemma k_set s n e : keys_ok s -> keys_ok (with_vars s (set_var n e (vars s))).
Proof. unfold keys_ok. simpl. apply set_var_keys. Qed.

Lemma k_add_variable s n b : keys_ok s -> keys_ok (add_variable s n b).
Proof. apply k_set. Qed.
Lemma k_install s n e : keys_ok s -> keys_ok (install s n e).
Proof. apply k_set. Qed.
Lemma k_set_eqn s n e : keys_ok s -> keys_ok (set_eqn s n e).
Proof. apply k_set. Qed.
Lemma k_def_variable s n l : keys_ok s -> keys_ok (def_variable s n l).
Proof. apply k_set. Qed.

Lemma k_set_rhs s n b s' : set_rhs s n b = Some s' -> keys_ok s -> keys_ok s'.
Proof. unfold set_rhs. destruct (lookup_var n (vars s)); [|discriminate]. intros H; injection H as <-. apply k_set. Qed.

Lemma k_atte s n t s' : add_term_to_eq s n t = Some s' -> keys_ok s -> keys_ok s'.
Proof. unfold add_term_to_eq. destruct (lookup_var n (vars s)); [|discriminate]. intros H; injection H as <-. apply k_set. Qed.

Lemma k_set_struct s n e s' : set_struct s n e = Some s' -> keys_ok s -> keys_ok s'.
Proof. unfold set_struct. destruct (lookup_var n (vars s)); [|discriminate]. intros H; injection H as <-. apply k_set. Qed.

Lemma k_set_rhs_terms s n ts s' : set_rhs_terms s n ts = Some s' -> keys_ok s -> keys_ok s'.
Proof. unfold set_rhs_terms. destruct (lookup_var n (vars s)); [|discriminate]. intros H; injection H as <-. apply k_set. Qed.

Lemma k_acf s t def b s' : add_cash_flow s t def b = Some s' -> keys_ok s -> keys_ok s'.
Proof.
  unfold add_cash_flow. intros H K.
  destruct (add_term_to_eq s "F" t) as [s1|] eqn:E1; [|discriminate].
  assert (K1 : keys_ok s1) by (eapply k_atte; eassumption).
  match type of H with match ?x with _ => _ end = _ => destruct x as [s2|] eqn:E2; [|discriminate] end.
  assert (K2 : keys_ok s2).
  { destruct (_ && _) in E2; [eapply k_atte; eassumption|now injection E2 as <-]. }
  destruct def as [d|]; [|now injection H as <-].
  destruct (lookup_var _ (vars s2)) as [e|].
  - destruct (renders_empty e); [eapply k_set_rhs; eassumption|now injection H as <-].
  - injection H as <-. now apply k_add_variable.
Qed.

Lemma k_acfs s t def b s' : add_cash_flow_struct s t def b = Some s' -> keys_ok s -> keys_ok s'.
Proof.
  unfold add_cash_flow_struct. intros H K.
  destruct (add_cash_flow s t None b) as [s2|] eqn:E; [|discriminate].
  assert (K2 : keys_ok s2) by (eapply k_acf; eassumption).
  injection H as <-. destruct (lookup_var _ (vars s2)) as [e|]; [destruct (renders_empty e)|];
    try assumption; now apply k_install.
Qed.

Lemma k_install_def s n d : keys_ok s -> keys_ok (install_def s n d).
Proof.
  intros K. unfold install_def. destruct (lookup_var n (vars s)) as [e|]; [destruct (renders_empty e)|];
    try assumption; now apply k_def_variable.
Qed.

Lemma k_acf_def s t d b s' : add_cash_flow_def s t d b = Some s' -> keys_ok s -> keys_ok s'.
Proof.
  unfold add_cash_flow_def. destruct (add_cash_flow s t None b) as [s2|] eqn:E; [|discriminate].
  simpl. intros H K. injection H as <-. apply k_install_def. eapply k_acf; eassumption.
Qed.

Lemma k_ensure_var s n : keys_ok s -> keys_ok (ensure_var s n).
Proof. intros K. unfold ensure_var. destruct (has_var s n); [assumption|now apply k_add_variable]. Qed.

Lemma k_apply_resets rs : forall s s', apply_resets rs s = Ok s' -> keys_ok s -> keys_ok s'.
Proof.
  induction rs as [|[k txt] rs IH]; intros s s' H K; simpl in H.
  - now injection H as <-.
  - destruct (set_rhs s k txt) as [s1|] eqn:E; [|discriminate]. eapply IH; [exact H|]. eapply k_set_rhs; eassumption.
Qed.

Lemma k_addv s n t s' : addv s n t = Ok s' -> keys_ok s -> keys_ok s'.
Proof. unfold addv. destruct (has_substring "__" n); [discriminate|]. intros H; injection H as <-. apply k_add_variable. Qed.

Lemma k_addvs l : forall s s', addvs s l = Ok s' -> keys_ok s -> keys_ok s'.
Proof.
  induction l as [|[n t] l IH]; intros s s' H K; simpl in H.
  - now injection H as <-.
  - destruct (addv s n t) as [s1|] eqn:E; [|discriminate]. simpl in H. eapply IH; [exact H|]. eapply k_addv; eassumption.
Qed.

Lemma k_add_market s m s' : add_market s m = Ok s' -> keys_ok s -> keys_ok s'.
Proof.
  unfold add_market. intros H K.
  destruct (addv s _ "") as [s1|] eqn:E; [|discriminate]. cbn [bind] in H.
  destruct (add_term_to_eq s1 "SUP" _) as [s2|] eqn:E2; [|discriminate]. injection H as <-.
  eapply k_atte; [exact E2|]. eapply k_addv; eassumption.
Qed.

Lemma k_add_markets l : forall s s', add_markets s l = Ok s' -> keys_ok s -> keys_ok s'.
Proof.
  induction l as [|m l IH]; intros s s' H K; simpl in H.
  - now injection H as <-.
  - destruct (add_market s m) as [s1|] eqn:E; [|discriminate]. simpl in H. eapply IH; [exact H|]. eapply k_add_market; eassumption.
Qed.

(* ------------------------------------------------------------------ *)
(** * Constructors *)

Lemma k_base_sector i c cc hf tx mk ex : keys_ok (base_sector i c cc hf tx mk ex).
Proof.
  unfold keys_ok, base_sector. simpl. destruct hf; simpl; [|constructor].
  repeat constructor; simpl; intuition discriminate.
Qed.

Ltac kbind H x E := match type of H with
  | bind ?r _ = Ok _ => destruct r as [x|] eqn:E; [cbn [bind] in H|discriminate H] end.

Lemma k_base_household i c cc ai af good s : base_household i c cc ai af good = Ok s -> keys_ok s.
Proof. unfold base_household. intros H. eapply k_addvs; [exact H|apply k_base_sector]. Qed.

Lemma k_base_market i c cc s : base_market i c cc = Ok s -> keys_ok s.
Proof. unfold base_market. intros H. eapply k_addvs; [exact H|apply k_base_sector]. Qed.

Theorem k_construct i cc c k mrefs s : construct i cc c k mrefs = Ok s -> keys_ok s.
Proof.
  destruct k; cbn [construct]; intros H;
    try (eapply k_addvs; [exact H|apply k_base_sector]);
    try (eapply k_base_market; exact H).
  - kbind H s0 E. eapply k_addv; [exact H|]. eapply k_base_household; exact E.
  - kbind H s0 E. kbind H s1 E1.
    destruct (set_rhs s1 _ _) as [s2|] eqn:E2; [|discriminate].
    eapply k_addvs; [exact H|]. eapply k_set_rhs; [exact E2|]. eapply k_addv; [exact E1|].
    eapply k_base_household; exact E.
  - kbind H s0 E. eapply k_addv; [exact H|]. eapply k_base_household; exact E.
  - kbind H s0 E. kbind H s1 E1. eapply k_addvs; [exact H|]. eapply k_add_markets; [exact E1|].
    eapply k_addv; [exact E|apply k_base_sector].
  - kbind H s0 E. eapply k_addvs; [exact H|]. eapply k_base_market; exact E.
Qed.

(* ------------------------------------------------------------------ *)
(** * Zone combinators *)

Definition zkeys (Z : zone) : Prop := Forall keys_ok Z.

Lemma k_upd i f Z Z' : upd i f Z = Ok Z' ->
  (forall s s', f s = Ok s' -> keys_ok s -> keys_ok s') -> zkeys Z -> zkeys Z'.
Proof.
  intros H Hf. revert Z' H. induction Z as [|a r IH]; intros Z' H K; simpl in H; [discriminate|].
  inversion K as [|? ? Ka Kr]; subst.
  destruct (Nat.eqb (sid a) i).
  - destruct (f a) as [a'|] eqn:Fa; [|discriminate]. injection H as <-. constructor; [eapply Hf; eassumption|assumption].
  - destruct (upd i f r) as [r'|]; [|discriminate]. injection H as <-. constructor; [assumption|now apply IH].
Qed.

Lemma k_update_where p f Z Z' : update_where p f Z = Ok Z' ->
  (forall s s', f s = Ok s' -> keys_ok s -> keys_ok s') -> zkeys Z -> zkeys Z'.
Proof.
  intros H Hf. revert Z' H. induction Z as [|a r IH]; intros Z' H K; simpl in H.
  - injection H as <-. constructor.
  - inversion K as [|? ? Ka Kr]; subst.
    kbind H a' Ea. kbind H r' Er. injection H as <-. constructor; [|now apply IH].
    destruct (p a); [eapply Hf; eassumption|now injection Ea as <-].
Qed.

Lemma k_opt_key (o : option sector) s' : opt_key o = Ok s' -> o = Some s'.
Proof. destruct o; simpl; intros H; [now injection H as <-|discriminate]. Qed.

Lemma k_filter p Z : zkeys Z -> zkeys (filter p Z).
Proof. intros K. apply Forall_forall. intros s Hs. apply filter_In in Hs as [Hs _]. revert s Hs. now apply Forall_forall. Qed.

Lemma k_put_back cc : forall Z C, zkeys C -> zkeys Z -> zkeys (put_back cc C Z).
Proof.
  induction Z as [|s r IH]; intros C KC KZ; simpl; [constructor|].
  inversion KZ as [|? ? Ks Kr]; subst.
  destruct (in_country cc s).
  - destruct C as [|c C']; [constructor; [assumption|now apply IH]|].
    inversion KC; subst. constructor; [assumption|now apply IH].
  - constructor; [assumption|now apply IH].
Qed.

Lemma k_find {p : sector -> bool} Z s : find p Z = Some s -> zkeys Z -> keys_ok s.
Proof. intros H K. apply find_some in H as [H _]. revert s H. now apply Forall_forall. Qed.

Lemma k_foldM {A B} (P : A -> Prop) (f : A -> B -> result A) :
  (forall a b a', f a b = Ok a' -> P a -> P a') -> forall l a a', foldM f l a = Ok a' -> P a -> P a'.
Proof.
  intros Hf. induction l as [|b l IH]; intros a a' H Pa; simpl in H.
  - now injection H as <-.
  - destruct (f a b) as [a1|] eqn:E; [|discriminate]. eapply IH; [exact H|]. eapply Hf; eassumption.
Qed.

Lemma k_run_trace {A B} (P : A -> Prop) (f : A -> B -> result A) :
  (forall a b a', f a b = Ok a' -> P a -> P a') -> forall l a x, run_trace f l a = Ok x -> P a -> P (snd x).
Proof.
  intros Hf. induction l as [|b l IH]; intros a x H Pa; simpl in H.
  - now injection H as <-.
  - kbind H a1 E. kbind H y R. injection H as <-. simpl. eapply IH; [exact R|]. eapply Hf; eassumption.
Qed.

(* ------------------------------------------------------------------ *)
(** * TaxFlow *)

Lemma k_pay_tax rm s s' : pay_tax rm s = Ok s' -> keys_ok s -> keys_ok s'.
Proof.
  unfold pay_tax. destruct (has_var s "INC"); [|discriminate].
  destruct (add_cash_flow_struct s _ _ false) as [x|] eqn:E; [|discriminate].
  intros H; injection H as <-. eapply k_acfs; exact E.
Qed.

Lemma k_tax_loop me rm : forall Z zt, tax_loop me rm Z = Ok zt -> zkeys Z -> zkeys (fst zt).
Proof.
  induction Z as [|s r IH]; intros zt H K; simpl in H.
  - injection H as <-. constructor.
  - inversion K as [|? ? Ks Kr]; subst. kbind H s' Es. kbind H zr Er. injection H as <-. simpl.
    constructor; [|now apply IH]. destruct (is_payer me s); [eapply k_pay_tax; eassumption|now injection Es as <-].
Qed.

Lemma k_self_update rt ts s s' : self_update rt ts s = Ok s' -> keys_ok s -> keys_ok s'.
Proof.
  unfold self_update. destruct (set_rhs s "TaxRate" rt) as [s1|] eqn:E1; [|discriminate].
  destruct (set_struct s1 "T" _) as [s2|] eqn:E2; [|discriminate]. intros H K; injection H as <-.
  eapply k_set_struct; [exact E2|]. eapply k_set_rhs; eassumption.
Qed.

Lemma k_receive_tax tf g g' : receive_tax tf g = Ok g' -> keys_ok g -> keys_ok g'.
Proof.
  unfold receive_tax. destruct (set_struct g "T" _) as [g1|] eqn:E1; [|discriminate].
  destruct (add_cash_flow g1 _ _ true) as [g2|] eqn:E2; [|discriminate]. intros H K; injection H as <-.
  eapply k_acf; [exact E2|]. eapply k_set_struct; eassumption.
Qed.

Theorem k_tax_generate me rt pt Z Z' : tax_generate me rt pt Z = Ok Z' -> zkeys Z -> zkeys Z'.
Proof.
  unfold tax_generate. intros H K. destruct (find (sid_is me) Z) as [self|]; [|discriminate].
  kbind H zt E1. kbind H Z2 E2.
  destruct (count_code pt Z2) as [|[|n]]; try discriminate.
  eapply k_update_where; [exact H|apply k_receive_tax|].
  eapply k_update_where; [exact E2|apply k_self_update|].
  eapply k_tax_loop; eassumption.
Qed.

(* ------------------------------------------------------------------ *)
(** * Dividends *)

Lemma k_pay_div s s' : pay_div s = Ok s' -> keys_ok s -> keys_ok s'.
Proof.
  unfold pay_div. destruct (add_cash_flow_struct s _ _ false) as [x|] eqn:E; [|discriminate].
  intros H; injection H as <-. eapply k_acfs; exact E.
Qed.

Lemma k_receive_div rb pf r r' : receive_div rb pf r = Ok r' -> keys_ok r -> keys_ok r'.
Proof.
  unfold receive_div. destruct (f_has_div r) as [booked|]; [|discriminate].
  destruct (booked && negb rb).
  - destruct (lookup_var "DIV" (vars r)); [|discriminate]. intros H; injection H as <-. apply k_install.
  - destruct (add_cash_flow_struct r _ _ true) as [x|] eqn:E; [|discriminate].
    intros H; injection H as <-. eapply k_acfs; exact E.
Qed.

Lemma k_div_pass cnd rb p pf : forall C found C', div_pass cnd rb p pf found C = Ok C' -> zkeys C -> zkeys C'.
Proof.
  induction C as [|s r IH]; intros found C' H K; simpl in H.
  - injection H as <-. constructor.
  - inversion K as [|? ? Ks Kr]; subst. kbind H s1 E1. kbind H s2 E2. kbind H r' Er. injection H as <-.
    constructor; [|eapply IH; eassumption].
    assert (K1 : keys_ok s1) by (destruct (sid_is p s); [eapply k_pay_div; eassumption|now injection E1 as <-]).
    destruct (negb found && cnd s); [eapply k_receive_div; eassumption|now injection E2 as <-].
Qed.

Theorem k_firm_generate bizs pr C C' : firm_generate bizs pr C = Ok C' -> zkeys C -> zkeys C'.
Proof.
  unfold firm_generate. intros H K. kbind H C1 U.
  assert (K1 : zkeys C1) by (eapply k_update_where; [exact U|apply k_apply_resets|exact K]).
  unfold div_step in H. destruct (existsb _ C1); [|now injection H as <-].
  destruct (find (sid_is (fst pr)) C1) as [self|]; [|discriminate].
  destruct (has_var self "PROF"); [|discriminate].
  eapply k_div_pass; eassumption.
Qed.

(* ------------------------------------------------------------------ *)
(** * Goods / labour market *)

Lemma k_dem_step mk s s' t : dem_step mk s = Ok (s', t) -> keys_ok s -> keys_ok s'.
Proof.
  unfold dem_step. destruct (Nat.eqb (sid s) (sid mk)); [intros H; now injection H as <- _|].
  destruct (has_var s _); [|intros H; now injection H as <- _].
  destruct (add_cash_flow s _ (Some "") true) as [s1|] eqn:E; [|discriminate].
  intros H; injection H as <- _. eapply k_acf; exact E.
Qed.

Lemma k_dem_loop mk : forall Z Z' ts, dem_loop mk Z = Ok (Z', ts) -> zkeys Z -> zkeys Z'.
Proof.
  induction Z as [|s r IH]; intros Z' ts H K; simpl in H.
  - injection H as <- _. constructor.
  - inversion K as [|? ? Ks Kr]; subst.
    destruct (dem_step mk s) as [[s' t1]|] eqn:E1; [|discriminate].
    destruct (dem_loop mk r) as [[r' t2]|] eqn:E2; [|discriminate].
    injection H as <- _. constructor; [eapply k_dem_step; eassumption|eapply IH; [reflexivity|assumption]].
Qed.

Lemma k_generate_demand Z m Z' : generate_demand Z m = Ok Z' -> zkeys Z -> zkeys Z'.
Proof.
  unfold generate_demand. intros H K. destruct (find_sec m Z) as [mk|]; [|discriminate].
  destruct (upd m _ Z) as [Za|] eqn:U1; [|discriminate].
  destruct (dem_loop mk Za) as [[Zb fulls]|] eqn:DL; [|discriminate].
  eapply k_upd; [exact H| |].
  - intros s s' E. apply k_opt_key in E. eapply k_set_rhs_terms; exact E.
  - eapply k_dem_loop; [exact DL|]. eapply k_upd; [exact U1| |exact K].
    intros s s' E. injection E as <-. apply k_add_variable.
Qed.

Lemma k_supplier_local mk ln s s' : supplier_local mk ln s = Ok s' -> keys_ok s -> keys_ok s'.
Proof.
  unfold supplier_local. destruct (add_term_to_eq _ _ _) as [s2|] eqn:E1; [|discriminate].
  intros H K. apply k_opt_key in H. eapply k_acf; [exact H|]. eapply k_atte; [exact E1|]. now apply k_ensure_var.
Qed.

Lemma k_supplier_foreign mk t s s' : supplier_foreign mk t s = Ok s' -> keys_ok s -> keys_ok s'.
Proof.
  unfold supplier_foreign. destruct (add_term_to_eq _ _ _) as [s2|] eqn:E1; [|discriminate].
  intros H K. apply k_opt_key in H. eapply k_acf; [exact H|]. eapply k_atte; [exact E1|]. now apply k_ensure_var.
Qed.

Definition wkeys (W : world) : Prop := zkeys (home W) /\ zkeys (abroad W).

Lemma k_supply_step h a mk W ie W' : supply_step h a mk W ie = Ok W' -> wkeys W -> wkeys W'.
Proof.
  destruct ie as [i e]. unfold supply_step. intros H [KH KA].
  destruct (resolve W i) as [[b sup]|]; [|discriminate].
  destruct (upd (sid mk) _ (home W)) as [H1|] eqn:U1; [|discriminate].
  assert (K1 : zkeys H1).
  { eapply k_upd; [exact U1| |exact KH]. intros s s' E. injection E as <-. apply k_set_eqn. }
  destruct b.
  - destruct (upd i (supplier_local mk (alloc_name sup)) H1) as [H2|] eqn:U2; [|discriminate].
    injection H as <-. split; simpl; [|exact KA]. eapply k_upd; [exact U2|apply k_supplier_local|exact K1].
  - destruct (fxl W) as [L|]; [|discriminate].
    destruct (upd i _ (abroad W)) as [A2|] eqn:U2; [|discriminate].
    injection H as <-. split; simpl; [exact K1|]. eapply k_upd; [exact U2|apply k_supplier_foreign|exact KA].
Qed.

Lemma k_generate_supply h a W m res others W' : generate_supply h a W m res others = Ok W' -> wkeys W -> wkeys W'.
Proof.
  unfold generate_supply. intros H [KH KA]. destruct (find_sec m (home W)) as [mk|]; [|discriminate].
  destruct (upd m _ (home W)) as [H0|] eqn:U; [|discriminate].
  destruct (resolve_fullcodes _ _) as [fcs|]; [|discriminate].
  eapply (k_foldM wkeys); [|exact H|].
  - intros W1 b W2. apply k_supply_step.
  - split; simpl; [|exact KA]. eapply k_upd; [exact U| |exact KH].
    intros s s' E. apply k_opt_key in E. eapply k_set_rhs_terms; exact E.
Qed.

Theorem k_market_generate h a W m residual others W' :
  market_generate h a W m residual others = Ok W' -> wkeys W -> wkeys W'.
Proof.
  unfold market_generate. intros H [KH KA]. destruct (find_sec m (home W)) as [mk|]; [|discriminate].
  destruct (the_residual _ _ _) as [r|]; [|discriminate].
  destruct (generate_demand (home W) m) as [H1|] eqn:GD; [|discriminate].
  eapply k_generate_supply; [exact H|]. split; simpl; [|exact KA]. eapply k_generate_demand; eassumption.
Qed.

(* ------------------------------------------------------------------ *)
(** * Money and deposit markets, asset weighting *)

Lemma k_of_option (o : option sector) s' : of_option o = Ok s' -> o = Some s'.
Proof. destruct o; simpl; intros H; [now injection H as <-|discriminate]. Qed.

Lemma k_split_sid mk : forall z pre m post, split_sid mk z = Some (pre, m, post) ->
  zkeys z -> zkeys pre /\ keys_ok m /\ zkeys post.
Proof.
  induction z as [|s r IH]; intros pre m post H K; simpl in H; [discriminate|].
  inversion K as [|? ? Ks Kr]; subst.
  destruct (Nat.eqb (sid s) mk).
  - injection H as <- <- <-. repeat split; [constructor|assumption|assumption].
  - destruct (split_sid mk r) as [[[pre' m'] post']|]; [|discriminate]. injection H as <- <- <-.
    destruct (IH _ _ _ eq_refl Kr) as (A & B & C). repeat split; [constructor|..]; assumption.
Qed.

Lemma k_money_step c issuer m s ms : money_step c issuer m s = Ok ms ->
  keys_ok m -> keys_ok s -> keys_ok (fst ms) /\ keys_ok (snd ms).
Proof.
  unfold money_step. intros H Km Ks.
  destruct (negb (hasF s)); [injection H as <-; now split|].
  destruct (String.eqb (code s) issuer).
  - destruct (has_var m (dem_name c)); [|discriminate]. injection H as <-. simpl.
    split; now apply k_def_variable.
  - destruct (has_var s (dem_name c)).
    + kbind H m1 E. apply k_of_option in E. injection H as <-. simpl. split; [eapply k_atte; eassumption|assumption].
    + destruct (has_var s "F"); [|discriminate].
      kbind H m1 E. apply k_of_option in E. injection H as <-. simpl.
      split; [eapply k_atte; eassumption|now apply k_def_variable].
Qed.

Lemma k_money_loop c issuer : forall l m mr, money_loop c issuer m l = Ok mr ->
  keys_ok m -> zkeys l -> keys_ok (fst mr) /\ zkeys (snd mr).
Proof.
  induction l as [|s r IH]; intros m mr H Km Kl; simpl in H.
  - injection H as <-. simpl. split; [assumption|constructor].
  - inversion Kl as [|? ? Ks Kr]; subst. kbind H ms E1. kbind H mr' E2. injection H as <-. simpl.
    destruct (k_money_step _ _ _ _ _ E1 Km Ks) as [A B].
    destruct (IH _ _ E2 A Kr) as [C D]. split; [assumption|now constructor].
Qed.

Lemma k_money_generate c issuer mk z z' : money_generate c issuer mk z = Ok z' -> zkeys z -> zkeys z'.
Proof.
  unfold money_generate. intros H K.
  destruct (split_sid mk z) as [[[pre m] post]|] eqn:S; [|discriminate].
  destruct (k_split_sid _ _ _ _ _ S K) as (Kp & Km & Kq).
  destruct (hasF m); [discriminate|]. kbind H r1 E1. kbind H r2 E2. injection H as <-.
  destruct (k_money_loop _ _ _ _ _ E1 (k_add_variable _ _ _ Km) Kp) as [A B].
  destruct (k_money_loop _ _ _ _ _ E2 A Kq) as [C D].
  apply Forall_app. split; [assumption|now constructor].
Qed.

Theorem k_money_generate_checked c issuer mk z z' : money_generate_checked c issuer mk z = Ok z' -> zkeys z -> zkeys z'.
Proof.
  unfold money_generate_checked. destruct (split_sid mk z) as [[[pre m] post]|]; [|discriminate].
  destruct (hasF m); [discriminate|]. destruct (Nat.eqb _ 1); [|discriminate]. apply k_money_generate.
Qed.

Lemma k_deposit_out c issuer mfull s s' : deposit_out c issuer mfull s = Some s' -> keys_ok s -> keys_ok s'.
Proof.
  unfold deposit_out. intros H K. destruct (is_market s); [now injection H as <-|].
  destruct (String.eqb (code s) issuer).
  - eapply k_acf_def; [exact H|]. apply k_add_variable. now apply k_def_variable.
  - destruct (has_var s (dem_name c)); [|now injection H as <-].
    eapply k_acf_def; [exact H|]. now apply k_add_variable.
Qed.

Lemma k_deposit_step c issuer m s acc x : deposit_step c issuer m s acc = Ok x ->
  keys_ok m -> keys_ok s -> keys_ok (fst (fst x)) /\ keys_ok (snd (fst x)).
Proof.
  unfold deposit_step. intros H Km Ks.
  destruct (is_market s); [injection H as <-; now split|].
  destruct (String.eqb (code s) issuer).
  - destruct (_ && _); [|discriminate]. kbind H s3 E. apply k_of_option in E. injection H as <-. simpl.
    split; [now apply k_def_variable|eapply k_deposit_out; eassumption].
  - destruct (has_var s (dem_name c)); [|injection H as <-; now split].
    destruct (has_var m "LAG_r"); [|discriminate]. kbind H s2 E. apply k_of_option in E. injection H as <-. simpl.
    split; [assumption|eapply k_deposit_out; eassumption].
Qed.

Lemma k_deposit_loop c issuer : forall l m acc y, deposit_loop c issuer m l acc = Ok y ->
  keys_ok m -> zkeys l -> keys_ok (fst (fst y)) /\ zkeys (snd (fst y)).
Proof.
  induction l as [|s r IH]; intros m acc y H Km Kl; simpl in H.
  - injection H as <-. simpl. split; [assumption|constructor].
  - inversion Kl as [|? ? Ks Kr]; subst. kbind H x E1. destruct x as [[m1 s1] acc1].
    kbind H y' E2. destruct y' as [[m2 r2] acc2]. injection H as <-. simpl.
    destruct (k_deposit_step _ _ _ _ _ _ E1 Km Ks) as [A B]. simpl in A, B.
    destruct (IH _ _ _ E2 A Kr) as [C D]. simpl in C, D. split; [assumption|now constructor].
Qed.

Lemma k_deposit_generate c issuer mk z z' : deposit_generate c issuer mk z = Ok z' -> zkeys z -> zkeys z'.
Proof.
  unfold deposit_generate. intros H K.
  destruct (split_sid mk z) as [[[pre m] post]|] eqn:S; [|discriminate].
  destruct (k_split_sid _ _ _ _ _ S K) as (Kp & Km & Kq).
  destruct (negb (is_market m)); [discriminate|]. kbind H x E1. destruct x as [[m1 pre'] acc1].
  kbind H y E2. destruct y as [[m2 post'] acc2]. injection H as <-.
  destruct (k_deposit_loop _ _ _ _ _ _ E1 Km Kp) as [A B]. simpl in A, B.
  destruct (k_deposit_loop _ _ _ _ _ _ E2 A Kq) as [C D]. simpl in C, D.
  apply Forall_app. split; [assumption|]. constructor; [now apply k_def_variable|assumption].
Qed.

Theorem k_deposit_generate_checked c issuer mk z z' : deposit_generate_checked c issuer mk z = Ok z' -> zkeys z -> zkeys z'.
Proof.
  unfold deposit_generate_checked. destruct (split_sid mk z) as [[[pre m] post]|]; [|discriminate].
  destruct (negb (is_market m)); [discriminate|]. destruct (Nat.eqb _ 1); [|discriminate]. apply k_deposit_generate.
Qed.

Lemma k_weighting_loop : forall d s resid x, weighting_loop s d resid = Ok x -> keys_ok s -> keys_ok (fst x).
Proof.
  induction d as [|[c w] d IH]; intros s resid x H K; cbn [weighting_loop] in H.
  - now injection H as <-.
  - destruct (has_substring "__" (wgt_name c)); [discriminate|].
    destruct (has_substring "__" (dem_name c)); [discriminate|].
    eapply IH; [exact H|]. apply k_def_variable. now apply k_add_variable.
Qed.

Theorem k_asset_weighting s ws res ab s' : asset_weighting s ws res ab = Ok s' -> keys_ok s -> keys_ok s'.
Proof.
  unfold asset_weighting. intros H K. destruct ab; [discriminate|]. kbind H x E. destruct x as [s1 resid].
  destruct (has_substring "__" (wgt_name res)); [discriminate|].
  destruct (has_substring "__" (dem_name res)); [discriminate|].
  injection H as <-. apply k_def_variable. apply k_def_variable. apply (k_weighting_loop _ _ _ _ E K).
Qed.

(* ------------------------------------------------------------------ *)
(** * The pipeline *)

Theorem k_gen_step I st ik st' : gen_step I st ik = Ok st' -> zkeys (g_zone st) -> zkeys (g_zone st').
Proof.
  destruct ik as [i k]. unfold gen_step. intros H K.
  destruct (find_sec i (g_zone st)) as [self|] eqn:Fs; [|discriminate].
  assert (RS : forall ai af Z', upd i (apply_resets [("AlphaIncome", ai); ("AlphaFin", af)]) (g_zone st) = Ok Z' -> zkeys Z').
  { intros ai af Z' U. eapply k_upd; [exact U|apply k_apply_resets|exact K]. }
  destruct k.
  - now injection H as <-.
  - now injection H as <-.
  - now injection H as <-.
  - kbind H Z' U. injection H as <-. simpl. eapply RS; exact U.
  - kbind H Z' U. injection H as <-. simpl. eapply RS; exact U.
  - kbind H Z' U. injection H as <-. simpl. eapply RS; exact U.
  - destruct (find _ _) as [mk|]; [|discriminate]. destruct (has_var mk _); [|discriminate].
    kbind H Z' U. injection H as <-. simpl. kbind U C' FG. injection U as <-.
    apply k_put_back; [|exact K]. eapply k_firm_generate; [exact FG|]. now apply k_filter.
  - kbind H Z1 U. destruct (existsb _ _); [discriminate|]. injection H as <-. simpl.
    eapply k_upd; [exact U|apply k_apply_resets|exact K].
  - kbind H Z' U. injection H as <-. simpl. eapply k_tax_generate; eassumption.
  - destruct (sup_of i (i_sup I)) as [res others]. kbind H Z' U. injection H as <-. simpl.
    kbind U W MG. injection U as <-.
    apply (k_market_generate _ _ _ _ _ _ _ MG). split; simpl; [exact K|constructor].
  - kbind H Z' U. injection H as <-. simpl. eapply k_money_generate_checked; eassumption.
  - kbind H Z' U. injection H as <-. simpl. eapply k_deposit_generate_checked; eassumption.
Qed.

Theorem k_flow_step Z f Z' : flow_step Z f = Ok Z' -> zkeys Z -> zkeys Z'.
Proof.
  destruct f as [[[[src tgt] var] a] b]. unfold flow_step. destruct tgt as [tg|]; [|discriminate].
  destruct (find_sec src Z) as [s0|]; [|discriminate].
  destruct (find_sec tg Z) as [t0|]; [|discriminate].
  destruct (has_var s0 var); [|discriminate].
  intros H K. kbind H Z1 U1.
  eapply k_upd; [exact H| |eapply k_upd; [exact U1| |exact K]];
    intros s s' E; apply k_opt_key in E; eapply k_acf; exact E.
Qed.

Theorem k_exo_step Z x Z' : exo_step Z x = Ok Z' -> zkeys Z -> zkeys Z'.
Proof.
  destruct x as [[s n] spec]. unfold exo_step. destruct (find_sec s Z); [|discriminate].
  intros U K. eapply k_upd; [exact U| |exact K].
  intros y y' E. apply k_opt_key in E. eapply k_set_rhs; exact E.
Qed.

Lemma k_on_sector i f SL SL' : on_sector i f SL = Ok SL' ->
  (forall s s', f s = Ok s' -> keys_ok s -> keys_ok s') -> zkeys SL -> zkeys SL'.
Proof. unfold on_sector. destruct (find_sec i SL); [|discriminate]. apply k_upd. Qed.

Lemma k_run_op st o st' : run_op st o = Ok st' -> zkeys (c_secs st) -> zkeys (c_secs st').
Proof.
  destruct o; cbn [run_op]; intros H K.
  - kbind H SL U. injection H as <-. simpl. eapply k_on_sector; [exact U| |exact K].
    intros x x'. apply k_addv.
  - destruct (find_sec _ _); [|discriminate]. now injection H as <-.
  - destruct (find_sec _ _); [|discriminate]. destruct (find_sec _ _); [|discriminate]. now injection H as <-.
  - destruct (find_sec _ _); [|discriminate]. destruct (find_sec _ _); [|discriminate].
    destruct (has_add_supplier _); [|discriminate]. destruct (sup_of _ _). now injection H as <-.
  - kbind H SL U. injection H as <-. simpl. eapply k_on_sector; [exact U| |exact K].
    intros x x'. apply k_asset_weighting.
  - destruct (find_sec _ _); [|discriminate]. now injection H as <-.
  - destruct (find_sec _ _); [|discriminate]. destruct (find_sec _ _); [|discriminate]. now injection H as <-.
Qed.

Lemma k_run_step st x st' : run_step st x = Ok st' -> zkeys (c_secs st) -> zkeys (c_secs st').
Proof.
  destruct x as [c|ci c k|o]; cbn [run_step]; intros H K.
  - destruct (mem c _); [discriminate|]. now injection H as <-.
  - destruct (nth_error _ ci) as [cc|]; [|discriminate]. destruct (existsb _ _); [discriminate|].
    kbind H mrefs R. kbind H s C. injection H as <-. simpl.
    apply Forall_app. split; [exact K|]. constructor; [eapply k_construct; exact C|constructor].
  - eapply k_run_op; eassumption.
Qed.

Theorem k_construct_all p st : construct_all p = Ok st -> zkeys (c_secs st).
Proof.
  unfold construct_all. intros H.
  apply (k_foldM (fun st => zkeys (c_secs st)) run_step k_run_step _ _ _ H). constructor.
Qed.

Lemma k_set_fullcode multi s : keys_ok s -> keys_ok (set_fullcode multi s).
Proof. intros K. exact K. Qed.

Lemma k_zone_order cs SL : zkeys SL -> zkeys (zone_order cs SL).
Proof.
  intros K. unfold zone_order. apply Forall_forall. intros s Hs.
  apply in_flat_map in Hs as (cc & _ & Hs). apply filter_In in Hs as [Hs _].
  revert s Hs. now apply Forall_forall.
Qed.

Theorem k_main_run st R : main_run st = Ok R -> zkeys (c_secs st) -> zkeys (fs_zone (r_final R)).
Proof.
  unfold main_run. intros H K.
  set (multi := Nat.ltb 1 (List.length (c_countries st))) in *.
  set (Z0 := zone_order (c_countries st) (map (set_fullcode multi) (c_secs st))) in *.
  assert (K0 : zkeys Z0).
  { apply k_zone_order. apply Forall_forall. intros s Hs. apply in_map_iff in Hs as (s0 & <- & Hs).
    apply k_set_fullcode. revert s0 Hs. now apply Forall_forall. }
  kbind H g E1. kbind H f E2. kbind H x E3. kbind H ics E4.
  apply (k_run_trace (fun g => zkeys (g_zone g)) _ (k_gen_step _)) in E1; [|exact K0].
  apply (k_run_trace zkeys _ k_flow_step) in E2; [|exact E1].
  apply (k_run_trace zkeys _ k_exo_step) in E3; [|exact E2].
  destruct (zone_rows (snd x)); [destruct ics; [discriminate|]|]; injection H as <-; exact E3.
Qed.

Theorem build_keys_ok p E : build p = Ok E -> Forall keys_ok (fs_zone E).
Proof.
  unfold build, build_run. intros H. kbind H r R. injection H as <-. kbind R st C.
  eapply k_main_run; [exact R|]. eapply k_construct_all; exact C.
Qed.

(** consequence: the [nodup] in [Main.keys] (the set of local names read by _CreateFinalEquations) is
    the identity on every sector of the final system *)
Corollary build_keys_eq p E : build p = Ok E -> Forall (fun s => keys s = map fst (vars s)) (fs_zone E).
Proof.
  intros H. apply build_keys_ok in H. eapply Forall_impl; [|exact H].
  intros s K. unfold keys. now apply nodup_fixed_point.
Qed.
End Keys.

From Coq Require Import List String Bool ZArith Arith Lia Permutation.
From SFC.Base Require Import Res Str Sorting.
From SFC.Gen Require Import Fx Zone.
From SFC.GenMarket Require Import Market MarketProofs.
From SFC.GenTax Require Import Tax Dividends.
From SFC.GenAsset Require Import Common Money Deposit.
From SFC.GenMain2 Require Import Program Classes Main MainProofs Names Conflict.
From SFC.GenOrder Require Import Ops Plan Check ReformDefs Static Equiv Perm CRel OpsProofs OpsComm Sim Static2 SimFirm SimAll GenBase
     Gen Gen2 Gen3 Facts ConstrBase ConstrInv ConstrStep Constr ZoneRel Post KindDefs Kind SysEquiv OrderBase Order OrderThm.
Import ListNotations.
Local Open Scope string_scope.
Local Open Scope list_scope.

(* ------------------------------------------------------------------ *)
(** * Lists *)

Lemma forallb_map' {A B} (h : A -> B) (p : B -> bool) l : forallb p (map h l) = forallb (fun x => p (h x)) l.
Proof. induction l as [|x l IH]; [reflexivity|]. cbn [map forallb]. now rewrite IH. Qed.

Lemma existsb_map' {A B} (h : A -> B) (p : B -> bool) l : existsb p (map h l) = existsb (fun x => p (h x)) l.
Proof. induction l as [|x l IH]; [reflexivity|]. cbn [map existsb]. now rewrite IH. Qed.

Lemma filter_map' {A B} (h : A -> B) (p : B -> bool) l : filter p (map h l) = map h (filter (fun x => p (h x)) l).
Proof. induction l as [|x l IH]; [reflexivity|]. cbn [map filter]. destruct (p (h x)); cbn [map]; now rewrite IH. Qed.

Lemma filter_ext_in' {A} (p q : A -> bool) l : (forall x, List.In x l -> p x = q x) -> filter p l = filter q l.
Proof.
  induction l as [|x l IH]; intros H; [reflexivity|]. cbn [filter]. rewrite (H x) by now left.
  rewrite IH; [reflexivity|]. intros y Hy. apply H. now right.
Qed.

Lemma existsb_in_iff {A} (p : A -> bool) l l' : (forall x, List.In x l <-> List.In x l') -> existsb p l = existsb p l'.
Proof.
  intros H. apply eq_true_iff_eq. rewrite !existsb_exists. split; intros (x & Hx & Px); exists x; split; try exact Px; now apply H.
Qed.

(* ------------------------------------------------------------------ *)
(** * Operations equal up to the order of summands *)

Lemma renders_empty_eqv e e' : eqn_eqv e e' -> renders_empty e' = renders_empty e.
Proof.
  intros [Hb Hp]. unfold renders_empty. rewrite <- Hb. f_equal. symmetry. now apply OpsProofs.forallb_perm.
Qed.

Lemma pop_name_eqv a b : pop_eqv a b -> pop_name b = pop_name a.
Proof. destruct a, b; cbn [pop_eqv pop_name]; try tauto; try (intros [-> _]; reflexivity); try (intros ->; reflexivity). Qed.

Lemma pop_creates_eqv a b : pop_eqv a b -> pop_creates b = pop_creates a.
Proof. destruct a, b; cbn [pop_eqv pop_creates]; try tauto; try (intros [-> _]; reflexivity); try (intros ->; reflexivity). Qed.

Lemma creates_eqv l l' : Forall2 pop_eqv l l' -> creates_of l' = creates_of l.
Proof.
  unfold creates_of. intros H. induction H as [|a b l l' E _ IH]; [reflexivity|]. cbn [flat_map]. now rewrite IH, (pop_creates_eqv _ _ E).
Qed.

Lemma nodup_factors_iff l : nodup_factors l = true <-> wf_terms l.
Proof.
  split; [apply nodup_factors_wf|]. unfold wf_terms.
  induction l as [|t r IH]; cbn [nodup_factors map]; intros H; [reflexivity|].
  inversion H as [|? ? Hn ND]; subst. rewrite (IH ND), andb_true_r. apply negb_true_iff.
  destruct (existsb (fun u => factors_eqb (snd t) (snd u)) r) eqn:X; [|reflexivity]. exfalso. apply Hn.
  apply existsb_exists in X as (u & Hu & E). apply factors_eqb_eq in E. rewrite E. now apply in_map.
Qed.

Lemma nodup_factors_perm l l' : Permutation l l' -> nodup_factors l' = nodup_factors l.
Proof.
  intros P. apply eq_true_iff_eq. rewrite !nodup_factors_iff. split; apply wf_perm; [now apply Permutation_sym|exact P].
Qed.

Lemma op_ok_b_eqv a b : pop_eqv a b -> op_ok_b b = op_ok_b a.
Proof.
  destruct a, b; cbn [pop_eqv op_ok_b]; try tauto; try (intros ->; reflexivity);
    intros [-> H]; try reflexivity; destruct H as [_ P]; now rewrite (nodup_factors_perm _ _ P).
Qed.

Lemma is_recv_eqv a b : pop_eqv a b -> is_recv b = is_recv a.
Proof. destruct a, b; cbn [pop_eqv is_recv]; tauto. Qed.

Lemma div_neutral_eqv a b : pop_eqv a b -> div_neutral b = div_neutral a.
Proof.
  destruct a, b; cbn [pop_eqv div_neutral]; try tauto; try (intros [-> _]; reflexivity); try (intros ->; reflexivity).
  intros [-> ->]. reflexivity.
Qed.

Lemma pop_commute_eqv s s' a a' b b' : (forall n, has_var s' n = has_var s n) -> pop_eqv a a' -> pop_eqv b b' ->
  pop_commute s' a' b' = pop_commute s a b.
Proof.
  intros HV Ea Eb.
  destruct a, a'; cbn [pop_eqv] in Ea; try contradiction;
    destruct b, b'; cbn [pop_eqv] in Eb; try contradiction;
    repeat match goal with
           | H : _ /\ _ |- _ => destruct H
           | H : eqn_eqv _ _ |- _ => apply renders_empty_eqv in H
           end; subst; cbn [pop_commute pop_name]; rewrite ?HV;
    repeat match goal with H : renders_empty _ = renders_empty _ |- _ => rewrite H; clear H end; reflexivity.
Qed.

Lemma ops_commute_eqv s s' A A' B B' : (forall n, has_var s' n = has_var s n) ->
  Forall2 pop_eqv A A' -> Forall2 pop_eqv B B' -> ops_commute s' A' B' = ops_commute s A B.
Proof.
  intros HV FA FB. unfold ops_commute. induction FA as [|a a' A A' Ea _ IH]; [reflexivity|]. cbn [forallb]. rewrite IH. f_equal.
  clear -HV Ea FB. induction FB as [|b b' B B' Eb _ IH]; [reflexivity|]. cbn [forallb]. now rewrite IH, (pop_commute_eqv s s' a a' b b' HV Ea Eb).
Qed.

(* ------------------------------------------------------------------ *)
(** * The static check on a renamed, re-ordered copy of the construction state *)

Section StaticPerm.
Variables (f : nat -> nat) (I I' : ginfo) (Z0 Zp : zone) (L L'' : list (nat * cls)).
Hypothesis Hinj : forall a b, f a = f b -> a = b.
Hypothesis HI : isim f I I'.
Hypothesis HU : uniq_ok Z0.
Hypothesis HP : Permutation Z0 Zp.
Hypothesis HL : Permutation L L''.

Let Z0' := map (rn_sec f) Zp.
Let L' := map (rn_ik f) L''.

Lemma eqb_inj a b : Nat.eqb (f a) (f b) = Nat.eqb a b.
Proof. destruct (Nat.eqb_spec a b) as [->|N]; [apply Nat.eqb_refl|]. apply Nat.eqb_neq. intros E. apply N. now apply Hinj. Qed.

Lemma find_rn i : find_sec (f i) Z0' = option_map (rn_sec f) (find_sec i Z0).
Proof.
  rewrite (find_sec_perm Z0 Zp i (proj1 HU) HP). unfold Z0', find_sec. clear HP.
  induction Zp as [|a r IH]; [reflexivity|]. cbn [map find]. change (sid (rn_sec f a)) with (f (sid a)). rewrite eqb_inj.
  destruct (Nat.eqb (sid a) i); [reflexivity|exact IH].
Qed.

Lemma country_of_rn i : country_of Z0' (f i) = country_of Z0 i.
Proof. unfold country_of. rewrite find_rn. destruct (find_sec i Z0); reflexivity. Qed.

Lemma in_Z0' s' : List.In s' Z0' -> exists s, s' = rn_sec f s /\ List.In s Z0.
Proof.
  intros H. apply in_map_iff in H as (s & <- & Hs). exists s. split; [reflexivity|].
  eapply Permutation_in; [apply Permutation_sym; exact HP|exact Hs].
Qed.

Lemma in_L' k' : List.In k' L' -> exists k, k' = rn_ik f k /\ List.In k L.
Proof.
  intros H. apply in_map_iff in H as (k & <- & Hk). exists k. split; [reflexivity|].
  eapply Permutation_in; [apply Permutation_sym; exact HL|exact Hk].
Qed.

Lemma reads_rn k s : reads I' Z0' (rn_ik f k) (rn_sec f s) = reads I Z0 k s.
Proof.
  destruct k as [i k]. unfold rn_ik. cbn [fst snd]. unfold reads. rewrite find_rn.
  destruct (find_sec i Z0) as [self|]; cbn [option_map]; [|reflexivity].
  change (sid (rn_sec f s)) with (f (sid s)). rewrite eqb_inj. destruct (Nat.eqb (sid s) i); [reflexivity|].
  destruct k; cbn [rn_cls]; try reflexivity.
  - (* CBusiness *)
    change (country (rn_sec f self)) with (country self).
    change (in_country (country self) (rn_sec f s)) with (in_country (country self) s).
    change (code (rn_sec f s)) with (code s).
    now rewrite (proj1 HI), is_fmb_rn.
  - (* CMarket *)
    rewrite (proj2 HI i). unfold rn_supinfo. cbn [fst].
    destruct (fst (sup_of i (i_sup I))); reflexivity.
Qed.

Lemma self_reads_rn k s : self_reads (rn_ik f k) (rn_sec f s) = self_reads k s.
Proof.
  destruct k as [i k]. unfold rn_ik, self_reads. cbn [fst snd]. change (sid (rn_sec f s)) with (f (sid s)). rewrite eqb_inj.
  destruct k; reflexivity.
Qed.

Lemma sim_rn rd s : sim f rd s (rn_sec f s).
Proof. constructor; [reflexivity|repeat split|reflexivity]. Qed.

Lemma zsim0 rd : zsim f rd Z0 Z0'.
Proof.
  exists (map (rn_sec f) Z0). split; [apply Permutation_map, Permutation_sym, HP|].
  generalize Z0 as Z. intros Z. induction Z as [|s r IH]; constructor; [apply sim_rn|exact IH].
Qed.

Lemma plans_rel k : cand_unique I Z0 k ->
  plans_sim f (reads2 I Z0 k) Z0 (plan I Z0 k) (plan I' Z0' (rn_ik f k)).
Proof. intros C. exact (plan_sim k f I I' Z0 Z0' Hinj HU HI (zsim0 _) C). Qed.

Lemma plan_of_rn k s : cand_unique I Z0 k -> List.In s Z0 ->
  Forall2 pop_eqv (plan_of I Z0 k s) (plan_of I' Z0' (rn_ik f k) (rn_sec f s)).
Proof.
  intros C Hs. pose proof (plans_rel k C) as P. unfold plans_sim in P. unfold plan_of.
  destruct (plan I Z0 k) as [g|], (plan I' Z0' (rn_ik f k)) as [g'|]; try contradiction.
  - apply P; [exact Hs|apply sim_rn].
  - constructor.
Qed.

Lemma plan_ok_rn k : cand_unique I Z0 k -> is_ok (plan I' Z0' (rn_ik f k)) = is_ok (plan I Z0 k).
Proof.
  intros C. pose proof (plans_rel k C) as P. unfold plans_sim in P.
  destruct (plan I Z0 k) as [g|], (plan I' Z0' (rn_ik f k)) as [g'|]; try contradiction; reflexivity.
Qed.

Hypothesis HS : static_ok2 I Z0 L = true.

Let P8 := parts I Z0 L HS.

Lemma cand_of k : List.In k L -> cand_unique I Z0 k.
Proof.
  intros Hk. destruct P8 as (_ & _ & P3 & _). unfold unique_ok in P3. rewrite forallb_forall in P3. specialize (P3 k Hk).
  unfold cand_unique. destruct (snd k); try exact Logic.I. now apply Nat.leb_le.
Qed.

Lemma fst_rn_ik k : fst (rn_ik f k) = f (fst k).
Proof. reflexivity. Qed.

Lemma stable_gen (rd : ginfo -> zone -> nat * cls -> sector -> list string) :
  (forall k s, rd I' Z0' (rn_ik f k) (rn_sec f s) = rd I Z0 k s) ->
  forallb (fun k => forallb (fun k' => if Nat.eqb (fst k) (fst k') then true else
     forallb (fun s => forallb (fun n => has_var s n || negb (mem n (creates_of (plan_of I Z0 k' s)))) (rd I Z0 k s)) Z0) L) L = true ->
  forallb (fun k => forallb (fun k' => if Nat.eqb (fst k) (fst k') then true else
     forallb (fun s => forallb (fun n => has_var s n || negb (mem n (creates_of (plan_of I' Z0' k' s)))) (rd I' Z0' k s)) Z0') L') L' = true.
Proof.
  intros RD H. rewrite forallb_forall in H.
  apply forallb_forall. intros k1' H1. destruct (in_L' _ H1) as (k1 & -> & Hk1).
  apply forallb_forall. intros k2' H2. destruct (in_L' _ H2) as (k2 & -> & Hk2).
  rewrite !fst_rn_ik, eqb_inj. specialize (H k1 Hk1). rewrite forallb_forall in H. specialize (H k2 Hk2).
  destruct (Nat.eqb (fst k1) (fst k2)); [reflexivity|]. rewrite forallb_forall in H.
  apply forallb_forall. intros s' Hs'. destruct (in_Z0' _ Hs') as (s & -> & Hs). specialize (H s Hs). rewrite forallb_forall in H.
  apply forallb_forall. intros n Hn. rewrite RD in Hn. specialize (H n Hn).
  rewrite (creates_eqv _ _ (plan_of_rn k2 s (cand_of k2 Hk2) Hs)). exact H.
Qed.

Lemma stable_ok_rn : stable_ok I' Z0' L' = true.
Proof. destruct P8 as (P1 & _). exact (stable_gen reads (fun k s => reads_rn k s) P1). Qed.

Lemma stable_self_ok_rn : stable_self_ok I' Z0' L' = true.
Proof.
  destruct P8 as (_ & _ & _ & _ & _ & _ & _ & Q).
  exact (stable_gen (fun _ _ k s => self_reads k s) (fun k s => self_reads_rn k s) Q).
Qed.

Lemma commute_ok_rn : commute_ok I' Z0' L' = true.
Proof.
  destruct P8 as (_ & H & _). unfold commute_ok in *. rewrite forallb_forall in H.
  apply forallb_forall. intros k1' H1. destruct (in_L' _ H1) as (k1 & -> & Hk1).
  apply forallb_forall. intros k2' H2. destruct (in_L' _ H2) as (k2 & -> & Hk2).
  rewrite !fst_rn_ik, eqb_inj, !country_of_rn. specialize (H k1 Hk1). rewrite forallb_forall in H. specialize (H k2 Hk2).
  destruct (Nat.eqb (fst k1) (fst k2)); [reflexivity|].
  destruct (String.eqb (country_of Z0 (fst k1)) (country_of Z0 (fst k2))); [|reflexivity]. rewrite forallb_forall in H.
  apply forallb_forall. intros s' Hs'. destruct (in_Z0' _ Hs') as (s & -> & Hs). specialize (H s Hs).
  rewrite (ops_commute_eqv s (rn_sec f s) _ _ _ _ (fun n => eq_refl)
             (plan_of_rn k1 s (cand_of k1 Hk1) Hs) (plan_of_rn k2 s (cand_of k2 Hk2) Hs)). exact H.
Qed.

Lemma biz_ids_rn C : biz_ids I' (map (rn_sec f) C) = map f (biz_ids I C).
Proof.
  unfold biz_ids. rewrite filter_map', !map_map. cbn [rn_sec sid].
  rewrite (filter_ext_in' (fun x => is_fmb (class_of (i_classes I') (sid (rn_sec f x)))) (fun s => is_fmb (class_of (i_classes I) (sid s)))).
  - reflexivity.
  - intros x _. change (sid (rn_sec f x)) with (f (sid x)). now rewrite (proj1 HI), is_fmb_rn.
Qed.

Lemma candidate_rn bz i s : candidate (map f bz) (f i) (rn_sec f s) = candidate bz i s.
Proof.
  unfold candidate, is_biz. change (sid (rn_sec f s)) with (f (sid s)). change (has_var (rn_sec f s) "DIV") with (has_var s "DIV").
  rewrite eqb_inj, existsb_map'. do 3 f_equal. induction bz as [|b r IH]; [reflexivity|]. cbn [existsb]. now rewrite eqb_inj, IH.
Qed.

Lemma unique_ok_rn : unique_ok I' Z0' L' = true.
Proof.
  destruct P8 as (_ & _ & H & _). unfold unique_ok in *. rewrite forallb_forall in H.
  apply forallb_forall. intros k' Hk'. destruct (in_L' _ Hk') as (k & -> & Hk). specialize (H k Hk).
  destruct k as [i k]. unfold rn_ik. cbn [fst snd] in *. destruct k; cbn [rn_cls]; try reflexivity.
  rewrite country_of_rn. set (cc := country_of Z0 i) in *.
  unfold Z0'. rewrite filter_map'. change (fun x => in_country cc (rn_sec f x)) with (in_country cc).
  set (Cp := filter (in_country cc) Zp). set (C := filter (in_country cc) Z0) in *.
  assert (PC : Permutation C Cp) by (apply filter_perm; exact HP).
  rewrite biz_ids_rn, filter_map', map_length.
  rewrite (filter_ext_in' (fun x => candidate (map f (biz_ids I Cp)) (f i) (rn_sec f x)) (candidate (biz_ids I C) i)).
  - rewrite <- (Permutation_length (filter_perm (candidate (biz_ids I C) i) _ _ PC)). exact H.
  - intros x _. rewrite candidate_rn. unfold candidate, is_biz. do 3 f_equal.
    apply existsb_in_iff. intros y. unfold biz_ids.
    split; intros Hy; (eapply Permutation_in; [|exact Hy]); apply Permutation_map, filter_perm; [now apply Permutation_sym|exact PC].
Qed.

Lemma initial_ok_rn : initial_ok Z0' = true.
Proof.
  destruct P8 as (_ & _ & _ & H & _). unfold initial_ok in *. unfold Z0'. rewrite forallb_map'.
  rewrite <- (OpsProofs.forallb_perm _ _ _ HP). exact H.
Qed.

Lemma plans_ok_rn : plans_ok I' Z0' L' = true.
Proof.
  destruct P8 as (_ & _ & _ & _ & H & _). unfold plans_ok in *. rewrite forallb_forall in H.
  apply forallb_forall. intros k' Hk'. destruct (in_L' _ Hk') as (k & -> & Hk).
  rewrite (plan_ok_rn k (cand_of k Hk)). now apply H.
Qed.

Lemma all_ops_in s o' : List.In s Z0 -> List.In o' (all_ops I' Z0' L' (rn_sec f s)) ->
  exists o, List.In o (all_ops I Z0 L s) /\ pop_eqv o o'.
Proof.
  intros Hs Ho. unfold all_ops in Ho. apply in_flat_map in Ho as (k' & Hk' & Ho).
  destruct (in_L' _ Hk') as (k & -> & Hk).
  destruct (F2_in_r _ _ _ _ (plan_of_rn k s (cand_of k Hk) Hs) Ho) as (o & Hin & E).
  exists o. split; [|exact E]. unfold all_ops. apply in_flat_map. exists k. split; assumption.
Qed.

Lemma ops_ok_rn : ops_ok I' Z0' L' = true.
Proof.
  destruct P8 as (_ & _ & _ & _ & _ & H & _). unfold ops_ok in *. rewrite forallb_forall in H.
  apply forallb_forall. intros s' Hs'. destruct (in_Z0' _ Hs') as (s & -> & Hs). specialize (H s Hs). rewrite forallb_forall in H.
  apply forallb_forall. intros o' Ho'. destruct (all_ops_in s o' Hs Ho') as (o & Ho & E).
  rewrite (op_ok_b_eqv _ _ E). now apply H.
Qed.

Lemma recv_ok_rn : recv_ok I' Z0' L' = true.
Proof.
  destruct P8 as (_ & _ & _ & _ & _ & _ & H & _). unfold recv_ok in *. rewrite forallb_forall in H.
  apply forallb_forall. intros s' Hs'. destruct (in_Z0' _ Hs') as (s & -> & Hs). specialize (H s Hs).
  destruct (recv_flag I' Z0' L' (rn_sec f s)) eqn:RF; [|reflexivity].
  unfold recv_flag in RF. apply existsb_exists in RF as (o' & Ho' & R'). destruct (all_ops_in s o' Hs Ho') as (o & Ho & E).
  assert (RF0 : recv_flag I Z0 L s = true).
  { unfold recv_flag. apply existsb_exists. exists o. split; [exact Ho|]. now rewrite <- (is_recv_eqv _ _ E). }
  rewrite RF0 in H. rewrite forallb_forall in H.
  apply forallb_forall. intros o1' Ho1'. destruct (all_ops_in s o1' Hs Ho1') as (o1 & Ho1 & E1).
  rewrite (div_neutral_eqv _ _ E1). now apply H.
Qed.

Theorem static_ok2_rn : static_ok2 I' Z0' L' = true.
Proof.
  unfold static_ok2, static_ok.
  rewrite stable_ok_rn, commute_ok_rn, unique_ok_rn, initial_ok_rn, plans_ok_rn, ops_ok_rn, recv_ok_rn, stable_self_ok_rn. reflexivity.
Qed.
End StaticPerm.

(** (i) the static part of [order_ok] for related construction states *)
Theorem static_ok2_perm f st st' p : cstate_rel f st st' -> cinv p st ->
  static_ok2 (mkI (c_classes st) (c_sup st)) (Check.zone0 st) (gen_list st) = true ->
  static_ok2 (mkI (c_classes st') (c_sup st')) (Check.zone0 st') (gen_list st') = true.
Proof.
  intros CR CI HS.
  destruct (zone0_rel f st st' p CR CI) as (Zp & EZ & CZ).
  destruct (gen_list_rel f st st' p CR CI) as (L'' & EL & CL).
  rewrite EZ, EL. apply static_ok2_rn with (I := mkI (c_classes st) (c_sup st)) (Z0 := Check.zone0 st) (L := gen_list st).
  - apply (rel_inj f st st' CR).
  - apply (info_isim f st st' CR).
  - apply (zone0_uniq p st CI).
  - eapply cswap_perm_of; exact CZ.
  - eapply cswap_perm_of; exact CL.
  - exact HS.
Qed.

Definition static_of (p : program) : bool :=
  match construct_all p with
  | Err _ => false
  | Ok st => static_ok2 (mkI (c_classes st) (c_sup st)) (Check.zone0 st) (gen_list st)
  end.

Lemma order_ok_parts p : order_ok p = (closed_refs p && static_of p && match build p with Ok E => texts_ok E | Err _ => true end).
Proof. reflexivity. Qed.

Theorem static_of_perm p p' : admissible_perm p p' -> closed_refs p = true -> static_of p = true -> static_of p' = true.
Proof.
  intros AP CL HS. unfold static_of in *. destruct (construct_all p) as [st|] eqn:HC; [|discriminate].
  destruct (construct_perm p p' AP CL st HC) as (st' & f & HC' & CR). rewrite HC'.
  exact (static_ok2_perm f st st' p CR (construct_all_cinv p st HC) HS).
Qed.

(* ------------------------------------------------------------------ *)
(** * Success of [build] and the final zone do not depend on the order — without [texts_ok]

    [Order.main_order_invariant], cut before it turns to the rows (the only place where it uses
    [texts_ok]). *)
Lemma main_order_cut p p' E :
  admissible_perm p p' -> closed_refs p = true -> static_of p = true -> build p = Ok E ->
  exists E' f, build p' = Ok E' /\ zrel f (fs_zone E) (fs_zone E') /\ fs_ic E' = fs_ic E.
Proof.
  intros AP CL SO HB.
  apply build_inv in HB as (Rn & HR & ->). apply build_run_inv in HR as (st & HC & HM).
  unfold static_of in SO. rewrite HC in SO.
  pose proof (construct_all_cinv p st HC) as CI.
  destruct (construct_perm p p' AP CL st HC) as (st' & f & HC' & CR).
  set (I := mkI (c_classes st) (c_sup st)) in *. set (Z0 := Check.zone0 st) in *. set (L := gen_list st) in *.
  set (I' := mkI (c_classes st') (c_sup st')). set (Z0' := Check.zone0 st').
  pose proof (zone0_uniq p st CI) as HU.
  pose proof (static_facts_of I Z0 L HU (gen_list_keys st) SO) as SF.
  pose proof (comm_facts_of I Z0 L SO) as CF.
  assert (Hf : forall a b, f a = f b -> a = b) by apply (rel_inj f st st' CR).
  (* the run of p *)
  rewrite main_run_unfold in HM. cbv zeta in HM. fold I Z0 L in HM.
  destruct (run_trace (gen_step I) L (mkG Z0 (c_flows st))) as [[trg G]|] eqn:RG; [|discriminate]. cbn [bind fst snd] in HM.
  destruct (run_trace flow_step (g_flows G) (g_zone G)) as [[trf Z1]|] eqn:RF; [|discriminate]. cbn [bind fst snd] in HM.
  destruct (run_trace exo_step (c_exo st) Z1) as [[trx Zf]|] eqn:RX; [|discriminate]. cbn [bind fst snd] in HM.
  destruct (ic_rows Zf (c_ic st)) as [ics|] eqn:RI; [|discriminate]. cbn [bind] in HM.
  apply run_trace_fold in RG. apply run_trace_fold in RF. apply run_trace_fold in RX.
  (* generation: the run of p is the static description *)
  assert (NDL : NoDup (map fst L)) by (apply (sf_keys _ _ _ SF)).
  pose proof (gen_sim I Z0 L SF (fun i => i) I (fun a b H => H) (isim_id I) L Z0 (c_flows st) (zrel_id_refl Z0) (fun k H => H) NDL) as GS.
  rewrite rn_ik_id, RG in GS.
  destruct (zmap (sect I Z0 L) Z0) as [T|] eqn:ZT; [|contradiction]. destruct GS as [RT FT].
  (* the re-ordered list of calls *)
  destruct (gen_list_rel f st st' p CR CI) as (L'' & EL & CS). fold L Z0 in CS.
  assert (PL : Permutation L L'') by (eapply cswap_perm_of; exact CS).
  assert (HPL : Forall (fun k => List.In k L) L) by (apply Forall_forall; auto).
  destruct (static_swap I Z0 L SF CF L L'' T CS HPL ZT) as (T'' & ZT'' & FTT).
  assert (HL'' : forall k, List.In k L'' -> List.In k L) by (intros k Hk; eapply Permutation_in; [apply Permutation_sym; exact PL|exact Hk]).
  assert (NDL'' : NoDup (map fst L'')) by (eapply Permutation_NoDup; [apply Permutation_map; exact PL|exact NDL]).
  pose proof (gen_sim I Z0 L SF f I' Hf (info_isim f st st' CR) L'' Z0' (c_flows st') (zone0_zrel f st st' p CR CI) HL'' NDL'') as GS'.
  rewrite ZT'' in GS'. rewrite <- EL in GS'.
  destruct (foldM (gen_step I') (gen_list st') (mkG Z0' (c_flows st'))) as [G'|] eqn:RG'; [|contradiction]. destruct GS' as [RT' FT'].
  (* the zones after generation are related *)
  assert (ZG : zrel f (g_zone G) (g_zone G')).
  { destruct RT as (D'' & PD & FD). eapply zrel_perm_l; [apply Permutation_sym; exact PD|].
    eapply zrel_compose_l; [apply F2_srel_sym; exact FD|]. eapply zrel_compose_l; [exact FTT|exact RT']. }
  assert (NDT : NoDup (map sid T)).
  { apply zmap_ok_inv in ZT. assert (E : map sid T = map sid Z0).
    { clear -ZT. induction ZT as [|s t Z T E _ IH]; [reflexivity|]. cbn [map]. rewrite IH. f_equal. exact (proj1 (run_ops_attrs _ _ _ E)). }
    rewrite E. exact (proj1 HU). }
  assert (NDG : NoDup (map sid (g_zone G))) by (eapply zrel_nodup; [intros a b H; exact H|exact RT|exact NDT]).
  assert (WG : forall s, List.In s (g_zone G) -> I_wf s).
  { intros s Hs. destruct RT as (D'' & PD & FD). assert (Hs' : List.In s D'') by (eapply Permutation_in; eassumption).
    destruct (F2_in_r _ _ _ _ FD Hs') as (t & Ht & [_ Et]). eapply I_wf_eqv; [exact Et|].
    apply zmap_ok_inv in ZT. destruct (F2_in_r _ _ _ _ ZT Ht) as (s0 & Hs0 & E0).
    eapply (sect_wf I Z0 L SF L s0 t (fun k H => H) Hs0 E0). }
  (* registered flows *)
  assert (PF : Permutation (g_flows G) (c_flows st ++ flat_map new_flows L'')).
  { rewrite FT. apply Permutation_app_head. rewrite map_id_ext by apply rn_flow_id. now apply flat_new_flows_perm. }
  destruct (flows_cross f (g_zone G) (g_zone G') (g_flows G) (c_flows st ++ flat_map new_flows L'') Z1 Hf NDG ZG WG PF RF)
    as (Z1' & RF' & ZZ1 & W1 & P1).
  assert (EF : g_flows G' = map (rn_flow f) (c_flows st ++ flat_map new_flows L'')).
  { rewrite FT', map_app. f_equal. exact (cr_flows _ _ _ CR). }
  rewrite <- EF in RF'.
  (* exogenous variables *)
  assert (ND1 : NoDup (map sid Z1)).
  { assert (E : map sid Z1 = map sid (g_zone G)). { clear -P1. induction P1 as [|a b la lb [A _] _ IH]; [reflexivity|]. cbn [map]. now rewrite IH, (proj1 A). }
    now rewrite E. }
  destruct (exo_cross f Z1 Z1' (c_exo st) Zf Hf ND1 ZZ1 W1 RX) as (Zf' & RX' & ZZf & Pf).
  rewrite <- (cr_exo _ _ _ CR) in RX'.
  assert (NDf : NoDup (map sid Zf)).
  { assert (E : map sid Zf = map sid Z1). { clear -Pf. induction Pf as [|a b la lb [A _] _ IH]; [reflexivity|]. cbn [map]. now rewrite IH, (proj1 A). }
    now rewrite E. }
  (* initial conditions, rows *)
  pose proof (ic_rows_rn f Zf Zf' (c_ic st) Hf NDf ZZf) as RI'. rewrite <- (cr_ic _ _ _ CR), RI in RI'.
  pose proof (zone_rows_length_rel f Zf Zf' ZZf) as LR.
  (* assemble the run of p' *)
  destruct (fold_run_trace _ _ _ _ RG') as (trg' & TG'). destruct (fold_run_trace _ _ _ _ RF') as (trf' & TF').
  destruct (fold_run_trace _ _ _ _ RX') as (trx' & TX').
  assert (HM' : exists Rn', main_run st' = Ok Rn' /\ fs_zone (r_final Rn') = Zf' /\ fs_ic (r_final Rn') = ics).
  { rewrite main_run_unfold. cbv zeta. fold I' Z0'. rewrite TG'. cbn [bind fst snd]. rewrite TF'. cbn [bind fst snd].
    rewrite TX'. cbn [bind fst snd]. rewrite RI'. cbn [bind].
    destruct (zone_rows Zf') as [|r' rs'] eqn:ER'.
    - destruct (zone_rows Zf) as [|r rs] eqn:ER; [|cbn in LR; discriminate].
      destruct ics as [|ic ics']; [discriminate HM|]. eexists. split; [reflexivity|]. split; reflexivity.
    - eexists. split; [reflexivity|]. split; reflexivity. }
  destruct HM' as (Rn' & HM' & EZ & EI).
  assert (ERn : fs_zone (r_final Rn) = Zf /\ fs_ic (r_final Rn) = ics).
  { destruct (zone_rows Zf) as [|r rs]; [destruct ics; [discriminate|]|]; injection HM as <-; split; reflexivity. }
  destruct ERn as [EZ0 EI0].
  exists (r_final Rn'), f. split; [|split].
  - unfold build, build_run. rewrite HC'. cbn [bind]. rewrite HM'. reflexivity.
  - rewrite EZ, EZ0. exact ZZf.
  - now rewrite EI, EI0.
Qed.

(** success of [build] is order-independent under [closed_refs] and the static check alone *)
Theorem build_ok_perm p p' : admissible_perm p p' -> closed_refs p = true -> static_of p = true ->
  is_ok (build p') = is_ok (build p).
Proof.
  intros AP CL SO. destruct (build p) as [E|e] eqn:B.
  - destruct (main_order_cut p p' E AP CL SO B) as (E' & f & -> & _). reflexivity.
  - destruct (build p') as [E'|e'] eqn:B'; [|reflexivity].
    destruct (main_order_cut p' p E' (admissible_sym _ _ AP) (admissible_closed _ _ AP CL) (static_of_perm _ _ AP CL SO) B')
      as (E0 & f & B0 & _). congruence.
Qed.

(* ------------------------------------------------------------------ *)
(** * [texts_ok] on related final zones *)

Lemma keys_lookup n e vs : NoDup (map fst vs) -> List.In (n, e) vs -> lookup_var n vs = Some e.
Proof.
  induction vs as [|[k e0] r IH]; intros ND Hin; [contradiction|]. cbn [map fst] in ND. inversion ND as [|? ? Hn ND']; subst.
  cbn [lookup_var]. destruct Hin as [E|Hin].
  - injection E as -> ->. now rewrite String.eqb_refl.
  - destruct (String.eqb_spec n k) as [->|N]; [|now apply IH].
    exfalso. apply Hn. change k with (fst (k, e)). now apply in_map.
Qed.

Lemma text_ok_eqv s d e e' : sec_eqv s d -> eqn_eqv e e' -> text_ok s e = true -> text_ok d e' = true.
Proof.
  intros [A _] [Hb Hp]. unfold text_ok. destruct A as (_ & _ & FC & _).
  rewrite FC, <- Hb, <- (Permutation_length Hp), <- (OpsProofs.forallb_perm _ _ _ Hp). exact (fun H => H).
Qed.

Lemma texts_sector f s d : srel f s d -> Keys.keys_ok d ->
  forallb (fun ne => text_ok s (snd ne)) (vars s) = true -> forallb (fun ne => text_ok d (snd ne)) (vars d) = true.
Proof.
  intros [_ SE] K H. rewrite forallb_forall in H. apply forallb_forall. intros [n e'] Hin. cbn [snd].
  pose proof (keys_lookup n e' (vars d) K Hin) as LK. pose proof (proj2 SE n) as O. rewrite LK in O.
  destruct (lookup_var n (vars s)) as [e|] eqn:LS; [|contradiction]. cbn [oeqn_eqv] in O.
  eapply text_ok_eqv; [exact SE|exact O|]. exact (H (n, e) (lookup_entry _ _ _ LS)).
Qed.

Lemma texts_zone_rev f Z Z' : zrel f Z' Z -> Forall Keys.keys_ok Z' ->
  forallb (fun s => forallb (fun ne => text_ok s (snd ne)) (vars s)) Z = true ->
  forallb (fun s => forallb (fun ne => text_ok s (snd ne)) (vars s)) Z' = true.
Proof.
  intros (D'' & PD & FD) K H. rewrite (OpsProofs.forallb_perm _ _ _ PD) in H. clear PD.
  induction FD as [|s d Z' D R _ IH]; [reflexivity|]. cbn [forallb] in *. apply andb_true_iff in H as [H1 H2].
  inversion K as [|? ? Ks Kr]; subst. rewrite (IH Kr H2), andb_true_r.
  destruct R as [_ SE]. eapply (texts_sector (fun _ => sid s) d s); [split; [reflexivity|now apply sec_eqv_sym]|exact Ks|exact H1].
Qed.

(** (ii)+(iii) success of [build] does not depend on the declaration order, with the side condition on
    ONE of the two programs only (this needs nothing about [texts_ok]) *)
Theorem main_order_errors_one p p' : admissible_perm p p' -> order_ok p = true -> is_ok (build p') = is_ok (build p).
Proof.
  intros AP OK. rewrite order_ok_parts in OK.
  apply andb_true_iff in OK as [OK _]. apply andb_true_iff in OK as [CL SO]. now apply build_ok_perm.
Qed.

(** [order_ok] is invariant under admissible permutations.  The texts conjunct: [texts_ok] inspects
    every entry of the association list, the relation between the final zones only speaks about
    what [lookup_var] finds — [Keys.build_keys_ok] closes the gap. *)
Theorem order_ok_perm p p' : admissible_perm p p' -> order_ok p = true -> order_ok p' = true.
Proof.
  intros AP OK. rewrite order_ok_parts in *.
  apply andb_true_iff in OK as [OK TX]. apply andb_true_iff in OK as [CL SO].
  pose proof (admissible_closed _ _ AP CL) as CL'. pose proof (static_of_perm _ _ AP CL SO) as SO'.
  rewrite CL', SO'. cbn [andb].
  destruct (build p') as [E'|e'] eqn:B'; [|reflexivity].
  destruct (main_order_cut p' p E' (admissible_sym _ _ AP) CL' SO' B') as (E & f & B & ZR & _).
  rewrite B in TX. unfold texts_ok in *.
  exact (texts_zone_rev f (fs_zone E) (fs_zone E') ZR (Keys.build_keys_ok p' E' B') TX).
Qed.

Corollary order_ok_perm_eq p p' : admissible_perm p p' -> order_ok p' = order_ok p.
Proof.
  intros AP. apply eq_true_iff_eq. split; apply order_ok_perm; [now apply admissible_sym|exact AP].
Qed.

(** the same theorem obtained the way the plan describes it: [OrderThm.order_invariant_errors] with its
    second side condition discharged by [order_ok_perm] *)
Corollary main_order_errors_one' p p' : admissible_perm p p' -> order_ok p = true -> is_ok (build p') = is_ok (build p).
Proof. intros AP OK. exact (order_invariant_errors p p' AP OK (order_ok_perm p p' AP OK)). Qed.

(** the order-invariance theorem in both directions from one side condition *)
Corollary main_order_invariant_sym p p' E' :
  admissible_perm p p' -> order_ok p = true -> build p' = Ok E' ->
  exists E, build p = Ok E /\ rows_perm_equiv E' E /\ fs_ic E = fs_ic E'.
Proof.
  intros AP OK B'. exact (main_order_invariant p' p E' (admissible_sym _ _ AP) (order_ok_perm p p' AP OK) B').
Qed.

Print Assumptions Keys.build_keys_ok.
Print Assumptions static_ok2_rn.
Print Assumptions static_ok2_perm.
Print Assumptions main_order_cut.
Print Assumptions order_ok_perm.
Print Assumptions main_order_errors_one.
Print Assumptions main_order_errors_one'.
Print Assumptions main_order_invariant_sym.
