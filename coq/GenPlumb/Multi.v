(** Task 2: markets supplied from TWO OR MORE other currency zones ([Main2.market_generate_multi]).
    Definitions of the semantic side condition [sem_ok2_multi] (= [sem_ok2] with such markets admitted
    under the conditions of the one-foreign-zone case) and the two facts about such a step the
    top-level arguments need: it leaves the potential of every real currency zone unchanged
    ([multi_pot]) and the NET term lists evolve by send/receive pairs between registered real
    currencies ([multi_fx]). *)
From Coq Require Import List String Ascii Bool ZArith Arith Lia Reals Lra.
From SFC.Base Require Import Res Str.
From SFC.Gen Require Import Fx Flows Zone.
From SFC.GenMarket Require Import Market MarketProofs.
From SFC.GenMarket Require PropMarket.
From SFC.GenTax Require Import Tax TaxProofs Dividends.
From SFC.GenMain2 Require Import Program Classes Main Ledger MainProofs Conflict Balance
                                 Program2 Main2 Ledger2 MainProofs2 Conflict2 Balance2 Zones.
From SFC.GenOrder2 Require Import Part Foreign1 Foreign3.
From SFC.GenPlumb Require Import FootDefs Foot Foot2 Constr Inv FxBook Local Split2 Foreign.
Import ListNotations.
Local Open Scope string_scope.

(* ------------------------------------------------------------------ *)
(** * The semantic side condition *)

(** the participants of a market supplied from several zones: looked up in the whole sector list *)
Definition multi_lookup (J : ginfo2) (m : nat) (self : sector) (res : option nat) (others : list (nat * string)) (Z : zone)
  : option (sector * nat * list sector * sector) :=
  let inh := own_zone J self in
  match find_sec m (filter inh Z) with
  | None => None
  | Some mk =>
      match the_residual (filter inh Z) mk res with
      | Err _ => None
      | Ok r =>
          match find_all Z (map fst others), find_sec r Z with
          | Some osecs, Some rs => Some (mk, r, osecs, rs)
          | _, _ => None
          end
      end
  end.

(** [foreign_sem] for several supplier currencies [acurs] *)
Definition multi_sem (J : ginfo2) (Zf : zone) (m : nat) (self : sector) (acurs : list string)
           (res : option nat) (others : list (nat * string)) (Z Z' : zone) : bool :=
  let hcur := cur_of_sec J self in
  let inh := own_zone J self in
  negb (String.eqb hcur NUM) && forallb (fun a => negb (String.eqb a NUM)) acurs &&
  match multi_lookup J m self res others Z with
  | None => true
  | Some (mk, r, osecs, rs) =>
      let ids := (map fst others ++ [r])%list in
      forallb (fun i => negb (Nat.eqb i m)) ids && nodupb ids &&
      no_dunder (dem_short mk) && no_dunder (dem_long mk) && no_dunder (sup_short mk) &&
      forallb (fun s => no_dunder (alloc_name s)) osecs &&
      forallb (fun s => negb (String.eqb (fullcode s) (code mk))) (osecs ++ [rs])%list &&
      forallb (fun s => negb (inh s) ||
                        (no_dunder (supply_name mk s) &&
                         zero_eqn (match lookup_var (supply_name mk s) (vars s) with Some e => e | None => mkEqn "" [] end)))
              (osecs ++ [rs])%list &&
      kept (market_sel mk ids rs) (filter inh Z') (filter inh Zf)
  end.

Definition is_multi_market (J : ginfo2) (x : (nat * cls2) * gstate2 * gstate2) : option (sector * list string * option nat * list (nat * string)) :=
  let '((i, k), st, st') := x in
  match k, find_sec i (h_zone st) with
  | COld CMarket, Some self =>
      let '(res, others) := sup_of i (j_sup J) in
      let ids := (map fst others ++ match res with Some r => [r] | None => [] end)%list in
      match supplier_currencies J (h_zone st) (cur_of_sec J self) ids with
      | a :: b :: l => Some (self, a :: b :: l, res, others)
      | _ => None
      end
  | _, _ => None
  end.

Definition gen_sem2m (J : ginfo2) (Zf : zone) (x : (nat * cls2) * gstate2 * gstate2) : bool :=
  match is_multi_market J x with
  | Some (self, acurs, res, others) =>
      multi_sem J Zf (fst (fst (fst x))) self acurs res others (h_zone (snd (fst x))) (h_zone (snd x))
  | None => gen_sem2 J Zf x
  end.

Definition sem_free2m (Rn : run2) : bool :=
  let Zf := fs_zone (q_final Rn) in
  forallb (gen_sem2m (q_info Rn) Zf) (q_gen Rn) &&
  forallb (flow_sem2 (q_info Rn)) (q_flows Rn) &&
  forallb (exo_ok2 (q_info Rn)) (q_exo Rn) &&
  final_sem2 (q_info Rn) Zf.

(** the semantic side condition, markets supplied from any number of other zones included *)
Definition sem_ok2_multi (p : program2) : bool :=
  ledger_untouched2_b p &&
  match build_run2 p with Ok Rn => sem_free2m Rn | Err _ => false end.

(** it extends [sem_ok2] *)
Lemma gen_sem2_m J Zf x : gen_sem2 J Zf x = true -> gen_sem2m J Zf x = true.
Proof.
  destruct x as [[[i k] st] st']. unfold gen_sem2m, is_multi_market, gen_sem2.
  destruct k as [k0| | | | |]; auto. destruct k0; auto.
  destruct (find_sec i (h_zone st)) as [self|]; [|auto].
  destruct (sup_of i (j_sup J)) as [res others].
  destruct (supplier_currencies J (h_zone st) (cur_of_sec J self) _) as [|a [|b l]]; auto. discriminate.
Qed.

Theorem sem_ok2_multi_of p : sem_ok2 p = true -> sem_ok2_multi p = true.
Proof.
  unfold sem_ok2, sem_ok2_multi. intros H. apply andb_true_iff in H as [LU H]. rewrite LU. cbn [andb].
  destruct (build_run2 p) as [Rn|]; [|discriminate]. unfold sem_free2 in H. unfold sem_free2m.
  repeat (apply andb_true_iff in H as [H ?]). rewrite H0, H1, H2, !andb_true_r.
  rewrite forallb_forall in *. intros x Hx. apply gen_sem2_m. now apply H.
Qed.

(* ------------------------------------------------------------------ *)
(** * Send/receive pairs with a currency per amount *)

Definition mops (h : string) (xs : list (string * string)) : list fxop :=
  flat_map (fun xa => [Send h (fst xa); Receive h (snd xa) (fst xa)]) xs.

Lemma mops_keys zs h : List.In h zs -> List.In NUM zs ->
  forall xs, Forall (fun xa => List.In (snd xa) zs) xs -> forall L, map fst L = zs -> map fst (fold_left fx_step (mops h xs) L) = zs.
Proof.
  intros Hh Hn. induction xs as [|[x a] xs IH]; intros HA L HL; [exact HL|]. apply Forall_cons_iff in HA as [Ha HA']. cbn [snd] in Ha.
  cbn [mops flat_map app fold_left fst snd]. apply (IH HA'). cbn [fx_step].
  assert (K : forall c t L0, List.In c zs -> map fst L0 = zs -> map fst (add_to c t L0) = zs).
  { intros c t L0 Hc H0. rewrite map_fst_add_to; [exact H0|now rewrite H0]. }
  repeat (apply K; [assumption|]). exact HL.
Qed.

Lemma mops_real h xs : h <> NUM -> Forall (fun xa => snd xa <> NUM /\ snd xa <> h) xs -> forallb op_real (mops h xs) = true.
Proof.
  intros H1. induction xs as [|[x a] xs IH]; intros HA; [reflexivity|]. apply Forall_cons_iff in HA as [[H2 H3] HA']. cbn [snd] in *.
  cbn [mops flat_map app forallb op_real fst snd].
  apply String.eqb_neq in H1, H2. assert (H4 : String.eqb h a = false) by (apply String.eqb_neq; congruence).
  rewrite H1, H2, H4. cbn [negb andb]. exact (IH HA').
Qed.

Lemma mops_in zs h xs : List.In h zs -> Forall (fun xa => List.In (snd xa) zs) xs -> forallb (op_in zs) (mops h xs) = true.
Proof.
  intros H1. assert (M : forall c, List.In c zs -> mem c zs = true) by (intros c Hc; now apply mem_In).
  induction xs as [|[x a] xs IH]; intros HA; [reflexivity|]. apply Forall_cons_iff in HA as [H2 HA']. cbn [snd] in *.
  cbn [mops flat_map app forallb op_in fst snd]. rewrite (M h H1), (M a H2). exact (IH HA').
Qed.

Lemma mops_paired h xs : paired (mops h xs).
Proof. induction xs as [|[x a] xs IH]; [constructor|]. cbn [mops flat_map app fst snd]. now constructor. Qed.

(* ------------------------------------------------------------------ *)
(** * Writing the two parts back *)

Lemma ensure_crosses_noext J h codes : j_ext J = None -> forall acurs Z Z', ensure_crosses J h codes acurs Z = Ok Z' -> Z' = Z.
Proof.
  intros He. induction acurs as [|a r IH]; intros Z Z' H; cbn [ensure_crosses] in H; [now injection H as <-|].
  destruct (mem (cross_code h a) codes).
  - unfold ensure_cross in H. rewrite He in H. discriminate.
  - cbn [bind] in H. now apply IH.
Qed.

Lemma ensure_crosses_filter J h codes e (q : sector -> bool) : j_ext J = Some e ->
  (forall s s', frame s s' -> q s' = q s) ->
  forall acurs Z Z' xr, ensure_crosses J h codes acurs Z = Ok Z' -> find_sec (e_xr e) Z = Some xr -> q xr = false ->
  filter q Z' = filter q Z /\ (forall j, j <> e_xr e -> find_sec j Z' = find_sec j Z).
Proof.
  intros He Hq. induction acurs as [|a r IH]; intros Z Z' xr H F Q; cbn [ensure_crosses] in H; [injection H as <-; auto|].
  destruct (mem (cross_code h a) codes).
  - bind_step H Zc ECx.
    assert (S1 : filter q Zc = filter q Z).
    { unfold ensure_cross in ECx. rewrite He in ECx. eapply (upd_filter_out q); [|exact F|exact Q|exact ECx].
      intros s s' E. cbv beta in E. apply Hq. destruct (has_var s (h ++ "_" ++ a)); [injection E as <-; apply frame_refl|].
      apply cq_addv in E. now apply cq_frame. }
    destruct (ensure_cross_xr _ _ _ _ _ _ _ ECx He F) as (xr1 & F1 & _).
    assert (Q1 : q xr1 = false).
    { assert (FR : Forall2 frame Z Zc) by (eapply zq_frame; eapply ensure_cross_zq; exact ECx).
      destruct (F2_find (fun s s' => @frame_sid s s') _ _ _ FR _ F) as (x & Fx & Frx). rewrite F1 in Fx. injection Fx as <-.
      now rewrite (Hq _ _ Frx). }
    destruct (IH _ _ _ H F1 Q1) as [I1 I2]. split; [now rewrite I1|].
    intros j Nj. rewrite (I2 j Nj). eapply ensure_cross_other; [exact ECx|exact He|exact Nj].
  - cbn [bind] in H. eapply IH; eassumption.
Qed.

Section Parts.
Variables (J : ginfo2) (Z : zone) (self : sector).
Hypothesis WI : winv J Z.
Let hcur := cur_of_sec J self.
Let inh := in_zone (j_countries J) hcur.
Let rest := fun s => negb (inh s).
Hypothesis NhN : hcur <> NUM.

Lemma rest_frame s s' : frame s s' -> rest s' = rest s.
Proof. intros H. unfold rest, inh. now rewrite (in_zone_frame _ _ _ _ H). Qed.

Lemma multi_parts H' A' L Z1 codes acurs Z' :
  zq (protP true) (filter inh Z) H' -> zq (protP true) (filter rest Z) A' ->
  store_ledger J L (put_back_p rest A' (put_back_p inh H' Z)) = Ok Z1 ->
  ensure_crosses J hcur codes acurs Z1 = Ok Z' ->
  (j_ext J = None -> L = None) ->
  (forall e, j_ext J = Some e -> exists L', L = Some L' /\ map fst L' = zones_of (j_countries J)) ->
  filter inh Z' = H' /\
  (forall c, c <> hcur -> c <> NUM -> filter (in_zone (j_countries J) c) Z' = filter (in_zone (j_countries J) c) A') /\
  ledger_of J Z' = L.
Proof.
  intros QH QA SL EC LN LS.
  set (Za := put_back_p inh H' Z) in *. set (Z2 := put_back_p rest A' Za) in *.
  pose proof (zq_frame _ _ _ QH) as FH.
  assert (FrI : forall c s s', frame s s' -> in_zone (j_countries J) c s' = in_zone (j_countries J) c s) by (intros c s s'; apply in_zone_frame).
  assert (D1 : forall s, inh s = true -> rest s = false) by (intros s Hs; unfold rest; now rewrite Hs).
  assert (D2 : forall s, rest s = true -> inh s = false) by (intros s Hs; unfold rest in Hs; now apply negb_true_iff in Hs).
  pose proof (filter_put_back_disjoint inh rest rest_frame D1 Z H' FH) as EA. fold Za in EA.
  assert (QA' : zq (protP true) (filter rest Za) A') by (now rewrite EA).
  pose proof (zq_frame _ _ _ QA') as FA.
  destruct (put_back_parts inh Z H' (FrI hcur) FH) as [P1 _]. fold Za in P1.
  destruct (put_back_parts rest Za A' rest_frame FA) as [P2 _]. fold Z2 in P2.
  pose proof (filter_put_back_disjoint rest inh (FrI hcur) D2 Za A' FA) as EH. fold Z2 in EH.
  assert (SUB : forall c, c <> hcur -> filter (in_zone (j_countries J) c) Z2 = filter (in_zone (j_countries J) c) A').
  { intros c Nc. rewrite <- P2. symmetry. apply filter_sub. intros s Hs. unfold rest, inh, in_zone in *.
    apply String.eqb_eq in Hs. rewrite Hs. apply negb_true_iff. apply String.eqb_neq. exact Nc. }
  assert (QZ2 : zq (protP true) Z Z2).
  { eapply zq_trans; [apply (put_back_zq _ inh Z H' QH)|]. apply put_back_zq. exact QA'. }
  pose proof (winv_zq _ _ _ _ WI QZ2) as WI2.
  destruct (j_ext J) as [e|] eqn:He.
  - destruct (LS e eq_refl) as (L' & -> & HK).
    destruct (w_ext _ _ WI2 e He) as (E1 & _ & _ & xr & fx & Fxr & Cxr & _ & Ffx & Cfx & _ & HN).
    assert (NE : j_ext J <> None) by congruence.
    assert (K : forall q : sector -> bool, (forall s s', frame s s' -> q s' = q s) -> (forall s, country s = "EXT" -> q s = false) ->
                filter q Z' = filter q Z2).
    { intros q Hq Hext.
      assert (S1 : filter q Z1 = filter q Z2).
      { unfold store_ledger in SL. rewrite He in SL.
        eapply (upd_filter_out q); [|exact Ffx|now apply Hext|exact SL].
        intros s s' E. injection E as <-. apply Hq. apply (pq_frame _ _ _ (fold_store_pq L' s)). }
      rewrite <- S1.
      assert (Fxr1 : find_sec (e_xr e) Z1 = Some xr).
      { rewrite <- Fxr. eapply store_ledger_other; [exact SL|exact He|lia]. }
      apply (ensure_crosses_filter J hcur codes e q He Hq acurs Z1 Z' xr EC Fxr1). now apply Hext. }
    split; [rewrite (K inh (FrI hcur)); [now rewrite EH|intros s Hs; now apply (ext_out J Z WI)]|].
    split.
    + intros c Nc NcN. rewrite (K _ (FrI c)); [now apply SUB|intros s Hs; now apply (ext_out J Z WI)].
    + assert (L1 : ledger_of J Z1 = Some L').
      { eapply store_ledger_read; [exact SL|exact He|exact Ffx|exact HK|].
        intros c Hc. apply HN. unfold zones_of in Hc. now apply nodup_In in Hc. }
      rewrite <- L1. apply ledger_of_same_fx. intros e0 He0. rewrite He in He0. injection He0 as <-.
      assert (Fxr1 : find_sec (e_xr e) Z1 = Some xr).
      { rewrite <- Fxr. eapply store_ledger_other; [exact SL|exact He|lia]. }
      assert (Qx : (fun _ : sector => false) xr = false) by reflexivity.
      destruct (ensure_crosses_filter J hcur codes e (fun _ => false) He (fun _ _ _ => eq_refl) acurs Z1 Z' xr EC Fxr1 Qx) as [_ O].
      apply O. lia.
  - rewrite (LN eq_refl) in *. unfold store_ledger in SL. rewrite He in SL. injection SL as <-.
    apply (ensure_crosses_noext J hcur codes He) in EC. subst Z'.
    split; [now rewrite EH|]. split; [intros c Nc _; now apply SUB|]. unfold ledger_of. now rewrite He.
Qed.

End Parts.
