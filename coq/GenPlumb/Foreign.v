(** Plumbing of a market step with suppliers in exactly ONE other currency zone: the plumbing
    conjuncts [Split2.foreign_plumb] hold for every successful step. *)
From Coq Require Import List String Ascii Bool ZArith Arith Lia.
From SFC.Base Require Import Res Str.
From SFC.Gen Require Import Fx Zone.
From SFC.GenMarket Require Import Market MarketProofs.
From SFC.GenTax Require Import Tax TaxProofs.
From SFC.GenMain2 Require Import Program Classes Main Ledger MainProofs Conflict Program2 Main2 Ledger2 MainProofs2 Conflict2 Balance2.
From SFC.GenOrder2 Require Import Part Foreign1 Foreign3.
From SFC.GenPlumb Require Import FootDefs Foot Foot2 Constr Inv FxBook Local Split2.
Import ListNotations.
Local Open Scope string_scope.

(* ------------------------------------------------------------------ *)
(** * Immutable attributes across frames *)

Lemma frame_static s s' : frame s s' -> static s' = static s.
Proof.
  intros H. unfold static.
  now rewrite (frame_sid _ _ H), (frame_code _ _ H), (frame_country _ _ H), (frame_fullcode _ _ H).
Qed.

Lemma zq_static P Z Z' : zq P Z Z' -> map static Z' = map static Z.
Proof. intros H. eapply Forall2_static; [exact H|]. intros s s' Q. apply frame_static. apply (pq_frame _ _ _ Q). Qed.

(* ------------------------------------------------------------------ *)
(** * The FX operations of the supplier loop *)

Definition pair_ops (h a : string) (xs : list string) : list fxop :=
  flat_map (fun x => [Send h x; Receive h a x]) xs.

(** the amounts sent abroad: one per supplier that is not found in the market's zone *)
Definition fnames (mk : sector) (W : world) (ids : list nat) : list string :=
  flat_map (fun i => match resolve W i with
                     | Ok (false, sup) => [full_name mk (alloc_name sup)]
                     | _ => []
                     end) ids.

Lemma fnames_static mk W W1 ids :
  map static (home W1) = map static (home W) -> map static (abroad W1) = map static (abroad W) ->
  fnames mk W1 ids = fnames mk W ids.
Proof.
  intros Hh Ha. unfold fnames. induction ids as [|i r IH]; [reflexivity|]. cbn [flat_map]. rewrite IH. f_equal.
  pose proof (resolve_static W W1 i Hh Ha) as R.
  destruct (resolve W i) as [[b s]|], (resolve W1 i) as [[b1 s1]|]; try contradiction; [|reflexivity].
  destruct R as [-> St]. destruct b; [reflexivity|]. unfold alloc_name. now rewrite (static_fullcode _ _ St).
Qed.

Lemma resolves_static W W1 ids :
  map static (home W1) = map static (home W) -> map static (abroad W1) = map static (abroad W) ->
  Forall (fun i => exists b s, resolve W1 i = Ok (b, s)) ids -> Forall (fun i => exists b s, resolve W i = Ok (b, s)) ids.
Proof.
  intros Hh Ha H. eapply Forall_impl; [|exact H]. intros i (b & s & R1). cbv beta.
  pose proof (resolve_static W W1 i Hh Ha) as R. rewrite R1 in R.
  destruct (resolve W i) as [[b0 s0]|]; [eauto|contradiction].
Qed.

Lemma supply_fold_ops h a mk : forall L W W', foldM (supply_step h a mk) L W = Ok W' ->
  fxl W' = apply_ops (fxl W) (pair_ops h a (fnames mk W (map fst L))) /\
  Forall (fun i => exists b s, resolve W i = Ok (b, s)) (map fst L).
Proof.
  induction L as [|[i e] L IH]; intros W W' H; cbn [foldM] in H.
  - injection H as <-. cbn. split; [now destruct (fxl W)|constructor].
  - destruct (supply_step h a mk W (i, e)) as [W1|] eqn:E; [|discriminate].
    destruct (supply_step_zq _ _ _ _ _ _ E) as [Q1 Q2]. apply zq_static in Q1. apply zq_static in Q2.
    destruct (IH _ _ H) as [I1 I2].
    rewrite (fnames_static mk W W1 _ Q1 Q2) in I1. apply (resolves_static W W1 _ Q1 Q2) in I2.
    cbn [map fst fnames flat_map]. fold (fnames mk W (map fst L)).
    unfold supply_step in E.
    destruct (resolve W i) as [[b sup]|] eqn:R; [|discriminate].
    split; [|constructor; [eauto|exact I2]].
    destruct (upd (sid mk) _ (home W)) as [H1|]; [|discriminate].
    destruct b.
    + destruct (upd i _ H1) as [H2|]; [|discriminate]. injection E as <-. cbn [fxl] in I1. exact I1.
    + destruct (fxl W) as [L0|] eqn:EL; [|discriminate].
      destruct (upd i _ (abroad W)) as [A2|]; [|discriminate]. injection E as <-. cbn [fxl] in I1. rewrite I1.
      reflexivity.
Qed.

(* ------------------------------------------------------------------ *)
(** * Lists of paired operations *)

Lemma pair_ops_keys zs h a : List.In h zs -> List.In a zs -> List.In NUM zs ->
  forall xs L, map fst L = zs -> map fst (fold_left fx_step (pair_ops h a xs) L) = zs.
Proof.
  intros Hh Ha Hn. induction xs as [|x xs IH]; intros L HL; [exact HL|].
  cbn [pair_ops flat_map app fold_left]. apply IH. cbn [fx_step].
  assert (K : forall c t L0, List.In c zs -> map fst L0 = zs -> map fst (add_to c t L0) = zs).
  { intros c t L0 Hc H0. rewrite map_fst_add_to; [exact H0|now rewrite H0]. }
  repeat (apply K; [assumption|]). exact HL.
Qed.

Lemma pair_ops_real h a xs : h <> NUM -> a <> NUM -> h <> a -> forallb op_real (pair_ops h a xs) = true.
Proof.
  intros H1 H2 H3. induction xs as [|x xs IH]; [reflexivity|]. cbn [pair_ops flat_map app forallb op_real].
  apply String.eqb_neq in H1, H2, H3. rewrite H1, H2, H3. exact IH.
Qed.

Lemma pair_ops_in zs h a xs : List.In h zs -> List.In a zs -> forallb (op_in zs) (pair_ops h a xs) = true.
Proof.
  intros H1 H2. assert (M : forall c, List.In c zs -> mem c zs = true).
  { intros c Hc. now apply mem_In. }
  induction xs as [|x xs IH]; [reflexivity|]. cbn [pair_ops flat_map app forallb op_in].
  rewrite (M h H1), (M a H2). exact IH.
Qed.

Lemma pair_ops_form h a xs : ops_form h a (pair_ops h a xs) = true.
Proof.
  unfold ops_form. induction xs as [|x xs IH]; [reflexivity|]. cbn [pair_ops flat_map app forallb].
  rewrite !String.eqb_refl. exact IH.
Qed.

Lemma find_all_some Z ids : Forall (fun j => exists s, find_sec j Z = Some s) ids -> exists l, find_all Z ids = Some l.
Proof.
  induction 1 as [|j ids [s Hs] _ [l IH]]; [now exists []|]. cbn [find_all]. rewrite Hs, IH. eauto.
Qed.

(* ------------------------------------------------------------------ *)
(** * The two zones of the step as parts of the sector list *)

Section Step.
Variables (J : ginfo2) (Z : zone) (self : sector) (acur : string).
Hypothesis WI : winv J Z.
Let hcur := cur_of_sec J self.
Let inh := in_zone (j_countries J) hcur.
Let ina := in_zone (j_countries J) acur.
Let both := fun s => inh s || ina s.
Let both3 := fun s => inh s || ina s || in_zone (j_countries J) NUM s.
Hypothesis Nha : hcur <> acur.
Hypothesis NhN : hcur <> NUM.
Hypothesis NaN : acur <> NUM.

Lemma inh_ina_disj s : inh s = true -> ina s = false.
Proof. unfold inh, ina, in_zone. intros H. apply String.eqb_eq in H. rewrite H. now apply String.eqb_neq. Qed.

Lemma ina_inh_disj s : ina s = true -> inh s = false.
Proof. unfold inh, ina, in_zone. intros H. apply String.eqb_eq in H. rewrite H. apply String.eqb_neq. congruence. Qed.

Lemma inh_self : inh self = true.
Proof. unfold inh, in_zone, hcur, cur_of_sec. apply String.eqb_refl. Qed.

(** a supplier the loop resolves is a sector of the model in one of the two zones *)
Lemma resolve_back (Wx : world) j b s : zq (protP true) (filter inh Z) (home Wx) -> abroad Wx = filter ina Z ->
  resolve Wx j = Ok (b, s) ->
  exists s0, find_sec j Z = Some s0 /\ fullcode s = fullcode s0 /\
             if b then inh s0 = true else (ina s0 = true /\ s = s0).
Proof.
  intros QH EA R. unfold resolve in R. pose proof (w_nodup _ _ WI) as ND.
  pose proof (Forall2_find _ _ _ j QH (pq_sid _)) as FF.
  destruct (find_sec j (home Wx)) as [x|] eqn:E1.
  - injection R as <- <-. destruct (find_sec j (filter inh Z)) as [s0|] eqn:E0; [|contradiction].
    apply (find_filter inh Z j s0 ND) in E0 as [E0 I0]. exists s0. split; [exact E0|]. split; [|exact I0].
    apply frame_fullcode. apply (pq_frame _ _ _ FF).
  - rewrite EA in R. destruct (find_sec j (filter ina Z)) as [x|] eqn:E2; [|discriminate]. injection R as <- <-.
    apply (find_filter ina Z j x ND) in E2 as [E2 I2]. exists x. auto.
Qed.

Lemma resolve_both (Wx : world) ids : zq (protP true) (filter inh Z) (home Wx) -> abroad Wx = filter ina Z ->
  Forall (fun j => exists b s, resolve Wx j = Ok (b, s)) ids ->
  Forall (fun j => exists s, find_sec j (filter both Z) = Some s) ids.
Proof.
  intros QH EA H. eapply Forall_impl; [|exact H]. intros j (b & s & R). cbv beta.
  destruct (resolve_back Wx j b s QH EA R) as (s0 & F0 & _ & Hb). exists s0.
  apply find_sec_filter; [exact F0|]. unfold both. destruct b; [now rewrite Hb|]. destruct Hb as [-> _]. apply orb_true_r.
Qed.

(** the operations recomputed from the sector list are those the loop books *)
Lemma market_ops_fnames (Wx : world) mk1 ids : zq (protP true) (filter inh Z) (home Wx) -> abroad Wx = filter ina Z ->
  fullcode mk1 = fullcode self ->
  Forall (fun j => exists b s, resolve Wx j = Ok (b, s)) ids ->
  market_ops J Z hcur self ids = pair_ops hcur acur (fnames mk1 Wx ids).
Proof.
  intros QH EA FC H. induction H as [|j ids (b & s & R) _ IH]; [reflexivity|].
  cbn [market_ops fnames flat_map]. fold (fnames mk1 Wx ids). rewrite R.
  destruct (resolve_back Wx j b s QH EA R) as (s0 & F0 & FC0 & Hb). rewrite F0. destruct b.
  - unfold inh, in_zone in Hb. fold (cur_of_sec J s0) in Hb. rewrite Hb. exact IH.
  - destruct Hb as [Ia ->]. pose proof (ina_inh_disj _ Ia) as Ih.
    unfold inh, ina, in_zone in Ih, Ia. fold (cur_of_sec J s0) in Ih, Ia. rewrite Ih.
    apply String.eqb_eq in Ia. rewrite Ia. cbn [app pair_ops flat_map]. fold (pair_ops hcur acur (fnames mk1 Wx ids)).
    rewrite IH. unfold full_name. now rewrite FC.
Qed.

Lemma ext_out c s : c <> NUM -> country s = "EXT" -> j_ext J <> None -> in_zone (j_countries J) c s = false.
Proof.
  intros Nc Hs He. destruct (j_ext J) as [e|] eqn:E; [|congruence]. unfold in_zone. rewrite Hs, (winv_ext_num _ _ _ WI E).
  apply String.eqb_neq. congruence.
Qed.

Lemma both3_frame s s' : frame s s' -> notb both3 s' = notb both3 s.
Proof. intros H. unfold notb, both3, inh, ina. now rewrite !(in_zone_frame _ _ _ _ H). Qed.

(** after writing both parts back, storing the ledger and creating the cross rate: the two parts are
    what the market computed, every other real zone is untouched, the ledger is the one stored *)
Lemma step_parts H' A' L Z1 codes Z' :
  zq (protP true) (filter inh Z) H' -> zq (protP true) (filter ina Z) A' ->
  store_ledger J L (put_back_p ina A' (put_back_p inh H' Z)) = Ok Z1 ->
  ensure_crosses J hcur codes [acur] Z1 = Ok Z' ->
  (j_ext J = None -> L = None) ->
  (forall e, j_ext J = Some e -> exists L', L = Some L' /\ map fst L' = zones_of (j_countries J)) ->
  filter inh Z' = H' /\ filter ina Z' = A' /\ filter (notb both3) Z' = filter (notb both3) Z /\ ledger_of J Z' = L.
Proof.
  intros QH QA SL EC LN LS.
  set (Za := put_back_p inh H' Z) in *. set (Z2 := put_back_p ina A' Za) in *.
  pose proof (zq_frame _ _ _ QH) as FH.
  assert (FrI : forall c s s', frame s s' -> in_zone (j_countries J) c s' = in_zone (j_countries J) c s) by (intros c s s'; apply in_zone_frame).
  destruct (put_back_parts inh Z H' (FrI hcur) FH) as [P1 _]. fold Za in P1.
  pose proof (filter_put_back_disjoint inh ina (FrI acur) inh_ina_disj Z H' FH) as EA. fold Za in EA.
  assert (QA' : zq (protP true) (filter ina Za) A') by (now rewrite EA).
  pose proof (zq_frame _ _ _ QA') as FA.
  destruct (put_back_parts ina Za A' (FrI acur) FA) as [P2 _]. fold Z2 in P2.
  pose proof (filter_put_back_disjoint ina inh (FrI hcur) ina_inh_disj Za A' FA) as EH. fold Z2 in EH.
  assert (E3 : filter (notb both3) Z2 = filter (notb both3) Z).
  { unfold Z2. rewrite (filter_put_back_disjoint ina (notb both3) both3_frame) by
      (try exact FA; intros s Hs; unfold notb, both3; rewrite Hs, orb_true_r; reflexivity).
    unfold Za. apply (filter_put_back_disjoint inh (notb both3) both3_frame); [|exact FH].
    intros s Hs. unfold notb, both3. now rewrite Hs. }
  assert (QZ2 : zq (protP true) Z Z2).
  { eapply zq_trans; [apply (put_back_zq _ inh Z H' QH)|]. apply put_back_zq. exact QA'. }
  pose proof (winv_zq _ _ _ _ WI QZ2) as WI2.
  destruct (j_ext J) as [e|] eqn:He.
  - (* an ExternalSector: EXT_FX and EXT_XR are outside the three filters *)
    destruct (LS e eq_refl) as (L' & -> & HK).
    destruct (w_ext _ _ WI2 e He) as (E1 & _ & _ & xr & fx & Fxr & Cxr & _ & Ffx & Cfx & _ & HN).
    assert (K : forall q : sector -> bool, (forall s s', frame s s' -> q s' = q s) -> (forall s, country s = "EXT" -> q s = false) ->
                filter q Z' = filter q Z2).
    { intros q Hq Hext.
      assert (S1 : filter q Z1 = filter q Z2).
      { unfold store_ledger in SL. rewrite He in SL.
        eapply (upd_filter_out q); [|exact Ffx|now apply Hext|exact SL].
        intros s s' E. injection E as <-. apply Hq. apply (pq_frame _ _ _ (fold_store_pq L' s)). }
      rewrite <- S1. cbn [ensure_crosses] in EC.
      destruct (mem (cross_code hcur acur) codes).
      - bind_step EC Z3 EC1. injection EC as <-.
        assert (Fxr1 : find_sec (e_xr e) Z1 = Some xr).
        { rewrite <- Fxr. eapply store_ledger_other; [exact SL|exact He|lia]. }
        unfold ensure_cross in EC1. rewrite He in EC1.
        eapply (upd_filter_out q); [|exact Fxr1|now apply Hext|exact EC1].
        intros s s' E. cbv beta in E. apply Hq. destruct (has_var s (hcur ++ "_" ++ acur)); [injection E as <-; apply frame_refl|].
        apply cq_addv in E. now apply cq_frame.
      - cbn [bind] in EC. now injection EC as <-. }
    assert (NE : j_ext J <> None) by congruence.
    split; [rewrite (K inh (FrI hcur)); [now rewrite EH|intros s Hs; now apply ext_out]|].
    split; [rewrite (K ina (FrI acur)); [exact P2|intros s Hs; now apply ext_out]|].
    split.
    + rewrite (K (notb both3) both3_frame); [exact E3|]. intros s Hs. unfold notb, both3, in_zone.
      rewrite Hs, (winv_ext_num _ _ _ WI He), String.eqb_refl, orb_true_r. reflexivity.
    + assert (L1 : ledger_of J Z1 = Some L').
      { eapply store_ledger_read; [exact SL|exact He|exact Ffx|exact HK|].
        intros c Hc. apply HN. unfold zones_of in Hc. now apply nodup_In in Hc. }
      rewrite <- L1. apply ledger_of_same_fx. intros e0 He0. rewrite He in He0. injection He0 as <-.
      cbn [ensure_crosses] in EC. destruct (mem (cross_code hcur acur) codes).
      * bind_step EC Z3 EC1. injection EC as <-. eapply ensure_cross_other; [exact EC1|exact He|lia].
      * cbn [bind] in EC. now injection EC as <-.
  - (* no ExternalSector: nothing is stored, no cross rate can be created *)
    rewrite (LN eq_refl) in *. unfold store_ledger in SL. rewrite He in SL. injection SL as <-.
    cbn [ensure_crosses] in EC. unfold ensure_cross in EC. rewrite He in EC.
    destruct (mem (cross_code hcur acur) codes); [discriminate|]. cbn [bind] in EC. injection EC as <-.
    split; [now rewrite EH|]. split; [exact P2|]. split; [exact E3|].
    unfold ledger_of. now rewrite He.
Qed.

End Step.

(* ------------------------------------------------------------------ *)
(** * The plumbing conjuncts hold for every successful step *)

Theorem foreign_plumb_holds J st i self acur res others st' :
  winv J (h_zone st) -> find_sec i (h_zone st) = Some self -> sup_of i (j_sup J) = (res, others) ->
  supplier_currencies J (h_zone st) (cur_of_sec J self)
     (map fst others ++ match res with Some r => [r] | None => [] end)%list = [acur] ->
  gen_step2 J st (i, COld CMarket) = Ok st' ->
  foreign_plumb J i self acur res others (h_zone st) (h_zone st') = true.
Proof.
  intros WI Fs ES SC GS.
  pose proof (gen_step2_div_quiet _ _ _ _ _ GS eq_refl) as DQ.
  unfold gen_step2 in GS. rewrite Fs in GS. apply same2_inv in GS.
  set (Z := h_zone st) in *. set (Z' := h_zone st') in *.
  unfold foreign_plumb, own_zone. cbv zeta.
  set (hcur := cur_of_sec J self) in *.
  destruct (String.eqb_spec hcur NUM) as [|NhN]; [reflexivity|].
  destruct (String.eqb_spec acur NUM) as [|NaN]; [reflexivity|]. cbn [orb].
  (* the other zone is not the market's, and is a zone of the model *)
  assert (Hac : acur <> hcur /\ List.In acur (zones_of (j_countries J))).
  { assert (Hin : List.In acur (supplier_currencies J Z hcur (map fst others ++ match res with Some r => [r] | None => [] end)))
      by (rewrite SC; now left).
    unfold supplier_currencies in Hin. apply nodup_In in Hin. apply in_flat_map in Hin as (j & _ & Hj).
    destruct (find_sec j Z) as [sj|] eqn:Fj; [|contradiction].
    destruct (String.eqb_spec (cur_of_sec J sj) hcur) as [|Ne]; [contradiction|].
    destruct Hj as [<-|[]]. split; [exact Ne|]. eapply winv_cur_zone; [exact WI|]. eapply find_sec_In; exact Fj. }
  destruct Hac as [Nah Haz]. assert (Nha : hcur <> acur) by congruence.
  assert (Hhz : List.In hcur (zones_of (j_countries J))).
  { eapply winv_cur_zone; [exact WI|]. eapply find_sec_In; exact Fs. }
  unfold market_step in GS. fold hcur in GS. rewrite ES, SC in GS.
  set (inh := in_zone (j_countries J) hcur) in *. set (ina := in_zone (j_countries J) acur) in *.
  bind_step GS W' MG. bind_step GS Z1 SL.
  pose proof (w_nodup _ _ WI) as ND.
  assert (Fh : find_sec i (filter inh Z) = Some self) by (apply find_sec_filter; [exact Fs|apply inh_self]).
  (* the market's own computation *)
  destruct (market_generate_zq _ _ _ _ _ _ _ MG) as [QH QA]. cbn [home abroad] in QH, QA.
  apply mg_unfold in MG as (mk & r & H1 & mk1 & H0 & fcs & Fm & TR & GD & F1 & U & _ & FM).
  cbn [home] in Fm, TR, GD. rewrite Fh in Fm. injection Fm as <-.
  apply generate_demand_zq in GD.
  assert (Q0 : zq (protP true) (filter inh Z) H0).
  { eapply zq_trans; [exact GD|]. eapply zq_upd; [exact U|]. intros s s' E. unfold opt_key in E.
    destruct (set_rhs_terms s _ _) as [x|] eqn:E2; [|discriminate]. injection E as <-.
    eapply pq_set_rhs_terms; [|exact E2]. apply protP_sup. }
  assert (FC1 : fullcode mk1 = fullcode self).
  { destruct (F2_find (pq_sid _) _ _ _ GD _ Fh) as (x & Fx & Qx). rewrite F1 in Fx. injection Fx as <-.
    apply frame_fullcode. apply (pq_frame _ _ _ Qx). }
  destruct (supply_fold_ops _ _ _ _ _ _ FM) as [OPS RS]. rewrite sup_list_ids in OPS, RS.
  set (W0 := with_home (mkWorld (filter inh Z) (filter ina Z) (ledger_of J Z) []) H0) in *.
  assert (EA0 : abroad W0 = filter ina Z) by reflexivity.
  assert (QH0 : zq (protP true) (filter inh Z) (home W0)) by exact Q0.
  cbn [fxl with_home W0] in OPS.
  (* the participants *)
  pose proof (resolve_both J Z self acur WI W0 _ QH0 EA0 RS) as RB.
  assert (LK : exists osecs rs, foreign_lookup J i self acur res others Z = Some (self, r, osecs, rs)).
  { fold hcur in RB. fold inh ina in RB. apply Forall_app in RB as [RB1 RB2]. destruct (find_all_some _ _ RB1) as [osecs FA].
    inversion RB2 as [|? ? [rs Frs] _]; subst. exists osecs, rs.
    unfold foreign_lookup, own_zone. cbv zeta. fold hcur. fold inh ina. rewrite Fh, TR, FA, Frs. reflexivity. }
  destruct LK as (osecs & rs & ->).
  (* the operations *)
  pose proof (market_ops_fnames J Z self acur WI Nha W0 mk1 _ QH0 EA0 FC1 RS) as MO. fold hcur in MO. rewrite MO. clear MO.
  set (xs := fnames mk1 W0 (map fst others ++ [r])) in *.
  (* the parts of the sector list, the ledger *)
  destruct (step_parts J Z self acur WI Nha NhN NaN (home W') (abroad W') (fxl W') Z1 (crosses W') Z' QH QA SL GS)
    as (P1 & P2 & P3 & P4).
  { intros He. rewrite OPS. unfold ledger_of. now rewrite He. }
  { intros e He. rewrite OPS.
    destruct (w_ext _ _ WI e He) as (_ & _ & _ & xr & fx & _ & _ & _ & Ffx & _).
    assert (EL : ledger_of J Z = Some (map (fun c => (c, net_of fx c)) (zones_of (j_countries J)))).
    { unfold ledger_of. now rewrite He, Ffx. }
    rewrite EL. cbn [apply_ops option_map]. eexists. split; [reflexivity|].
    apply pair_ops_keys; auto; [eapply winv_num_zone; eassumption|eapply ledger_keys; exact EL]. }
  fold hcur inh ina in P1, P2, P3, P4.
  rewrite (zone_eqb_of _ _ P1), (zone_eqb_of _ _ P2), (zone_eqb_of _ _ P3), (oledger_eqb_of _ _ P4). cbn [andb].
  unfold fx_ok. rewrite P4, OPS, oledger_eqb_refl, pair_ops_real, (pair_ops_in _ _ _ _ Hhz Haz), pair_ops_form by assumption.
  cbn [andb]. apply String.eqb_neq in Nha. rewrite Nha. cbn [negb andb]. exact DQ.
Qed.

Print Assumptions foreign_plumb_holds.
