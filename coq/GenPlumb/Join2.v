(** The semantic and the plumbing conjuncts together are [no_conflict2] (the easy direction: nothing
    about the model is used, only the boolean structure of the checks). *)
From Coq Require Import List String Bool ZArith Arith.
From SFC.Base Require Import Res Str.
From SFC.Gen Require Import Fx Zone.
From SFC.GenMarket Require Import Market.
From SFC.GenTax Require Import Tax Dividends.
From SFC.GenAsset Require Import Common Money Deposit Weighting.
From SFC.GenMain2 Require Import Program Classes Main Conflict Program2 Main2 Conflict2 Balance Balance2.
From SFC.GenPlumb Require Import Split2.
Import ListNotations.
Local Open Scope string_scope.

Lemma gen_sem_zone Zf I i k st g : gen_sem Zf I ((i, k), st, g) = gen_sem Zf I ((i, k), st, mkG (g_zone g) []).
Proof. reflexivity. Qed.

Lemma local_join J Zf i k self Z Z' :
  local_sem J Zf i k self Z Z' = true -> local_plumb J i k self Z Z' = true -> local_ok J Zf i k self Z Z' = true.
Proof.
  unfold local_sem, local_plumb, local_ok, own_zone. set (p := in_zone (j_countries J) (cur_of_sec J self)).
  destruct (gen_step (to_old J) (mkG (filter p Z) []) (i, k)) as [g|]; [|discriminate].
  intros HS HP. apply andb_true_iff in HP as [HP GP]. apply andb_true_iff in HP as [PO FX].
  rewrite PO, FX. rewrite andb_true_r. cbn [andb].
  apply part_ok_spec in PO as [P1 _]. rewrite gen_sem_zone in HS. cbn [g_zone] in HS. rewrite P1 in HS.
  rewrite <- gen_sem_zone in HS. apply gen_join; assumption.
Qed.

Lemma foreign_join J Zf m self acur res others Z Z' :
  foreign_sem J Zf m self acur res others Z Z' = true -> foreign_plumb J m self acur res others Z Z' = true ->
  foreign_market_ok J Zf m self acur res others Z Z' = true.
Proof.
  unfold foreign_sem, foreign_plumb, foreign_market_ok, foreign_lookup, own_zone, ops_form.
  set (hcur := cur_of_sec J self). set (inh := in_zone (j_countries J) hcur). set (ina := in_zone (j_countries J) acur).
  intros HS HP. apply andb_true_iff in HS as [HS HS2]. apply andb_true_iff in HS as [N1 N2].
  pose proof N1 as N1'. pose proof N2 as N2'. apply negb_true_iff in N1', N2'. rewrite N1', N2' in HP. cbn [orb] in HP.
  destruct (market_generate hcur acur _ m res others) as [W'|]; [|discriminate].
  destruct (find_sec m (filter inh Z)) as [mk|]; [|discriminate].
  destruct (the_residual (filter inh Z) mk res) as [r|]; [|discriminate].
  destruct (find_all _ (map fst others)) as [osecs|]; [|discriminate].
  destruct (find_sec r _) as [rs|]; [|discriminate].
  repeat (apply andb_true_iff in HP as [HP ?]). repeat (apply andb_true_iff in HS2 as [HS2 ?]).
  pose proof HP as HOME. apply zone_eqb_eq in HOME. rewrite HOME in *.
  repeat match goal with X : ?b = true |- _ => rewrite X; clear X end. reflexivity.
Qed.

Lemma gen_join2 J Zf x : gen_sem2 J Zf x = true -> gen_plumb2 J x = true -> gen_ok2 J Zf x = true.
Proof.
  destruct x as [[[i k] st] st']. unfold gen_sem2, gen_plumb2, gen_ok2.
  destruct (find_sec i (h_zone st)) as [self|]; [|intros _ H; exact H].
  assert (G : negb (String.eqb (cur_of_sec J self) NUM) = true ->
              String.eqb (cur_of_sec J self) NUM || gold_ok J i self (h_zone st) (h_zone st') = true ->
              gold_ok J i self (h_zone st) (h_zone st') = true).
  { intros H1 H2. apply negb_true_iff in H1. now rewrite H1 in H2. }
  destruct k as [k0|stock|t stock| | |]; try (intros _ H; exact H); try exact G.
  destruct k0; try (intros _ H; exact H); try apply local_join.
  destruct (sup_of i (j_sup J)) as [res others].
  destruct (supplier_currencies J (h_zone st) (cur_of_sec J self) _) as [|a [|b l]]; [apply local_join|apply foreign_join|discriminate].
Qed.

Lemma flow_join2 J x : flow_sem2 J x = true -> flow_plumb2 J x = true -> flow_ok2 J x = true.
Proof.
  destruct x as [[f Z] Z']. destruct f as [[[[src tgt] var] a] b]. unfold flow_sem2, flow_plumb2.
  destruct tgt as [tg|]; [|discriminate].
  destruct (find_sec src Z) as [s|] eqn:Fs; [|discriminate]. destruct (find_sec tg Z) as [t|] eqn:Ft; [|discriminate].
  intros HS HP. apply orb_true_iff in HP as [HP|HP]; [|exact HP]. exfalso.
  apply andb_true_iff in HP as [H1 H2]. apply negb_true_iff in H1. rewrite H1 in HS. cbn [orb] in HS.
  apply andb_true_iff in HS as [A B]. apply negb_true_iff in A, B. rewrite A, B in H2. discriminate.
Qed.

Lemma final_join2 J Z0 Zf : final_sem2 J Zf = true -> final_plumb2 J Z0 Zf = true -> final_ok2 J Z0 Zf = true.
Proof.
  unfold final_sem2, final_plumb2, final_ok2. intros HS HP. apply andb_true_iff in HS as [F1 HS]. rewrite F1. cbn [andb].
  destruct (j_ext J) as [e|]; [|reflexivity].
  destruct (find_sec (e_fx e) Zf) as [fx|]; [|discriminate]. destruct (find_sec (e_xr e) Zf) as [xr|]; [|discriminate].
  destruct (ledger_of J Z0) as [L0|]; [|discriminate].
  apply andb_true_iff in HP as [P1 P2]. apply andb_true_iff in HS as [HS S3]. apply andb_true_iff in HS as [S1 S2].
  rewrite S1, S2, P1. cbn [andb]. apply forallb_forall. intros c Hc.
  rewrite forallb_forall in P2, S3. specialize (P2 c Hc). specialize (S3 c Hc).
  destruct (lookup_var ("NET_" ++ c) (vars fx)) as [e0|]; [|discriminate].
  apply andb_true_iff in S3 as [A B]. now rewrite A, B, P2.
Qed.

Lemma forallb_join {A} (f g h : A -> bool) l : (forall x, f x = true -> g x = true -> h x = true) ->
  forallb f l = true -> forallb g l = true -> forallb h l = true.
Proof.
  intros H Hf Hg. rewrite forallb_forall in *. intros x Hx. apply H; [apply Hf|apply Hg]; exact Hx.
Qed.

(** the two halves give the whole *)
Theorem sem_plumb_no_conflict2 p : sem_ok2 p = true -> plumbing2 p = true -> no_conflict2 p = true.
Proof.
  unfold sem_ok2, plumbing2, no_conflict2. intros HS HP. apply andb_true_iff in HS as [LU HS]. rewrite LU. cbn [andb].
  destruct (build_run2 p) as [Rn|]; [|discriminate].
  unfold sem_free2 in HS. unfold plumb_free2 in HP. unfold conflict_free2.
  repeat (apply andb_true_iff in HS as [HS ?]). repeat (apply andb_true_iff in HP as [HP ?]).
  apply andb_true_iff; split; [apply andb_true_iff; split; [apply andb_true_iff; split|]|].
  - eapply forallb_join; [apply gen_join2|exact HS|exact HP].
  - eapply forallb_join; [apply flow_join2|eassumption|eassumption].
  - assumption.
  - apply final_join2; assumption.
Qed.

(** ... and the whole gives the semantic half (so [sem_ok2] is weaker than [no_conflict2]) *)
Lemma gen_ok_sem Zf I x : gen_ok Zf I x = true -> gen_sem Zf I x = true.
Proof.
  destruct x as [[[i k] st] st']. unfold gen_ok, gen_sem. destruct k; auto; try (intros H; apply andb_true_iff in H as [H _]; exact H).
  - destruct (sup_of i (i_sup I)). intros H; apply andb_true_iff in H as [H _]; exact H.
  - destruct (find_sec i (g_zone st)); [intros H; apply andb_true_iff in H as [H _]; exact H|reflexivity].
  - destruct (find_sec i (g_zone st)); [intros H; apply andb_true_iff in H as [H _]; exact H|reflexivity].
Qed.

Lemma local_ok_sem J Zf i k self Z Z' : local_ok J Zf i k self Z Z' = true -> local_sem J Zf i k self Z Z' = true.
Proof.
  unfold local_ok, local_sem, own_zone. set (p := in_zone (j_countries J) (cur_of_sec J self)).
  destruct (gen_step (to_old J) (mkG (filter p Z) []) (i, k)) as [g|]; [|discriminate].
  intros H. apply andb_true_iff in H as [H _]. apply andb_true_iff in H as [PO GO].
  apply part_ok_spec in PO as [P1 _]. apply gen_ok_sem in GO. rewrite gen_sem_zone in GO. rewrite gen_sem_zone. cbn [g_zone] in *.
  now rewrite P1.
Qed.

Lemma fx_ok_real J Z Z' ops : fx_ok J Z Z' ops = true -> forallb op_real ops = true.
Proof. unfold fx_ok. intros H. apply andb_true_iff in H as [H _]. apply andb_true_iff in H as [_ H]. exact H. Qed.

Lemma gen_ok2_sem J Zf x : gen_ok2 J Zf x = true -> gen_sem2 J Zf x = true.
Proof.
  destruct x as [[[i k] st] st']. unfold gen_ok2, gen_sem2.
  destruct (find_sec i (h_zone st)) as [self|]; [|reflexivity].
  assert (G : gold_ok J i self (h_zone st) (h_zone st') = true -> negb (String.eqb (cur_of_sec J self) NUM) = true).
  { unfold gold_ok. intros H. repeat (apply andb_true_iff in H as [H ?]).
    match goal with X : fx_ok _ _ _ _ = true |- _ => apply fx_ok_real in X; cbn in X; now rewrite andb_true_r in X end. }
  destruct k as [k0|stock|t stock| | |]; auto.
  destruct k0; auto; try apply local_ok_sem.
  destruct (sup_of i (j_sup J)) as [res others].
  destruct (supplier_currencies J (h_zone st) (cur_of_sec J self) _) as [|a [|b l]]; [apply local_ok_sem| |auto].
  unfold foreign_market_ok, foreign_sem, foreign_lookup, own_zone.
  set (hcur := cur_of_sec J self). set (inh := in_zone (j_countries J) hcur). set (ina := in_zone (j_countries J) a).
  destruct (market_generate hcur a _ i res others) as [W'|]; [|discriminate].
  destruct (find_sec i (filter inh (h_zone st))) as [mk|]; [|discriminate].
  destruct (the_residual _ mk res) as [r|]; [|discriminate].
  destruct (find_all _ (map fst others)) as [osecs|]; [|discriminate].
  destruct (find_sec r _) as [rs|]; [|discriminate].
  intros H. repeat (apply andb_true_iff in H as [H ?]).
  pose proof H as HOME. apply zone_eqb_eq in HOME. rewrite HOME.
  repeat match goal with X : ?b = true |- _ => rewrite X; clear X end. reflexivity.
Qed.

Lemma flow_ok2_sem J x : flow_ok2 J x = true -> flow_sem2 J x = true.
Proof.
  destruct x as [[f Z] Z']. destruct f as [[[[src tgt] var] a] b]. unfold flow_ok2, flow_sem2.
  intros H. apply andb_true_iff in H as [_ H]. destruct tgt as [tg|]; [|reflexivity].
  destruct (find_sec src Z) as [s|]; [|reflexivity]. destruct (find_sec tg Z) as [t|]; [|reflexivity].
  destruct (String.eqb (cur_of_sec J s) (cur_of_sec J t)); [reflexivity|]. cbn [orb].
  repeat (apply andb_true_iff in H as [H ?]).
  match goal with X : fx_ok _ _ _ _ = true |- _ => apply fx_ok_real in X; cbn in X; rename X into H9 end.
  apply andb_true_iff in H9 as [A B]. apply andb_true_iff in B as [B _]. apply andb_true_iff in B as [B _].
  apply andb_true_iff in B as [_ B]. now rewrite A, B.
Qed.

Lemma final_ok2_sem J Z0 Zf : final_ok2 J Z0 Zf = true -> final_sem2 J Zf = true.
Proof.
  unfold final_ok2, final_sem2. intros H. apply andb_true_iff in H as [F1 H]. rewrite F1. cbn [andb].
  destruct (j_ext J) as [e|]; [|reflexivity].
  destruct (find_sec (e_fx e) Zf) as [fx|]; [|reflexivity]. destruct (find_sec (e_xr e) Zf) as [xr|]; [|reflexivity].
  destruct (ledger_of J Z0) as [L0|]; [|discriminate].
  repeat (apply andb_true_iff in H as [H ?]). rewrite H, H2. cbn [andb].
  apply forallb_forall. intros c Hc. rewrite forallb_forall in H0. specialize (H0 c Hc).
  destruct (lookup_var ("NET_" ++ c) (vars fx)) as [e0|]; [|reflexivity].
  apply andb_true_iff in H0 as [A B]. apply andb_true_iff in A as [A _]. now rewrite A, B.
Qed.

Theorem no_conflict2_sem p : no_conflict2 p = true -> sem_ok2 p = true.
Proof.
  unfold no_conflict2, sem_ok2. intros H. apply andb_true_iff in H as [LU H]. rewrite LU. cbn [andb].
  destruct (build_run2 p) as [Rn|]; [|discriminate]. unfold conflict_free2 in H. unfold sem_free2.
  repeat (apply andb_true_iff in H as [H ?]).
  apply andb_true_iff; split; [apply andb_true_iff; split; [apply andb_true_iff; split|]|].
  - rewrite forallb_forall in *. intros x Hx. apply gen_ok2_sem. now apply H.
  - rewrite forallb_forall in *. intros x Hx. apply flow_ok2_sem. now apply H2.
  - assumption.
  - eapply final_ok2_sem; eassumption.
Qed.
