(** The FX intermediary's books: [Main2.ledger_of] (the NET_<currency> term lists of EXT_FX read as an
    [Fx.ledger]) across the operations that write them — [fx_add], [send_money], [receive_money],
    [store_ledger] — is exactly [Fx.add_to] / [Fx.fx_step]; steps that protect the NET_* names leave it
    unchanged.  Reflexivity of the boolean equalities of Conflict2.v. *)
From Coq Require Import List String Ascii Bool ZArith Arith Lia.
From SFC.Base Require Import Res Str.
From SFC.Gen Require Import Fx Zone.
From SFC.GenMarket Require Import Market MarketProofs.
From SFC.GenTax Require Import Tax TaxProofs.
From SFC.GenMain2 Require Import Program Classes Main Ledger MainProofs Conflict Program2 Main2 Ledger2 MainProofs2 Conflict2.
From SFC.GenOrder2 Require Import Foreign3.
From SFC.GenPlumb Require Import FootDefs Foot Constr Inv.
Import ListNotations.
Local Open Scope string_scope.

(* ------------------------------------------------------------------ *)
(** * Reflexivity *)

Lemma strs_eqb_refl l : strs_eqb l l = true.
Proof. induction l as [|x l IH]; [reflexivity|]. cbn. now rewrite String.eqb_refl, IH. Qed.

Lemma vars_eqb_refl l : vars_eqb l l = true.
Proof. induction l as [|[n e] l IH]; [reflexivity|]. cbn. now rewrite String.eqb_refl, eqn_eqb_refl, IH. Qed.

Lemma sector_eqb_refl s : sector_eqb s s = true.
Proof.
  unfold sector_eqb. now rewrite Nat.eqb_refl, !String.eqb_refl, !Bool.eqb_reflx, strs_eqb_refl, vars_eqb_refl.
Qed.

Lemma zone_eqb_refl Z : zone_eqb Z Z = true.
Proof. unfold zone_eqb. induction Z as [|s Z IH]; [reflexivity|]. cbn. now rewrite sector_eqb_refl, IH. Qed.

Lemma ledger_eqb_refl L : ledger_eqb L L = true.
Proof. induction L as [|[c ts] L IH]; [reflexivity|]. cbn. now rewrite String.eqb_refl, terms_eqb_refl, IH. Qed.

Lemma oledger_eqb_refl L : oledger_eqb L L = true.
Proof. destruct L; [apply ledger_eqb_refl|reflexivity]. Qed.

Lemma zone_eqb_of a b : a = b -> zone_eqb a b = true.
Proof. intros ->. apply zone_eqb_refl. Qed.

Lemma oledger_eqb_of a b : a = b -> oledger_eqb a b = true.
Proof. intros ->. apply oledger_eqb_refl. Qed.

Lemma forallb2_refl {A} (f : A -> A -> bool) : (forall a, f a a = true) -> forall l, forallb2 f l l = true.
Proof. intros H. induction l as [|a l IH]; [reflexivity|]. cbn. now rewrite H, IH. Qed.

Lemma apply_ops_nil L : apply_ops L [] = L.
Proof. destruct L; reflexivity. Qed.

(* ------------------------------------------------------------------ *)
(** * Reading the ledger *)

Lemma ledger_keys J Z L : ledger_of J Z = Some L -> map fst L = zones_of (j_countries J).
Proof.
  unfold ledger_of. destruct (j_ext J) as [e|]; [|discriminate]. destruct (find_sec (e_fx e) Z) as [fx|]; [|discriminate].
  intros H. injection H as <-. rewrite map_map. cbn [fst]. apply map_id.
Qed.

Lemma zones_nodup cs : NoDup (zones_of cs).
Proof. apply NoDup_nodup. Qed.

(** a step that protects the NET_* names does not move the ledger *)
Lemma net_of_pq d fx fx' c : pq (protP d) fx fx' -> net_of fx' c = net_of fx c.
Proof. intros Q. unfold net_of. now rewrite (pq_keep _ _ _ Q _ (protP_net d c)). Qed.

Theorem ledger_of_zq d J Z Z' : zq (protP d) Z Z' -> ledger_of J Z' = ledger_of J Z.
Proof.
  intros H. unfold ledger_of. destruct (j_ext J) as [e|]; [|reflexivity].
  destruct (find_sec (e_fx e) Z) as [fx|] eqn:F.
  - destruct (F2_find (pq_sid _) _ _ _ H _ F) as (fx' & F' & Q). rewrite F'. f_equal. apply map_ext. intros c.
    now rewrite (net_of_pq _ _ _ c Q).
  - now rewrite (F2_find_none (pq_sid _) _ _ _ H F).
Qed.

(** ... nor does a step that leaves the FX sector itself alone *)
Lemma ledger_of_same_fx J Z Z' : (forall e, j_ext J = Some e -> find_sec (e_fx e) Z' = find_sec (e_fx e) Z) ->
  ledger_of J Z' = ledger_of J Z.
Proof. intros H. unfold ledger_of. destruct (j_ext J) as [e|]; [|reflexivity]. now rewrite (H e eq_refl). Qed.

(* ------------------------------------------------------------------ *)
(** * [upd] *)

Lemma upd_find_same i f : (forall a a', f a = Ok a' -> sid a' = sid a) ->
  forall Z Z' s, upd i f Z = Ok Z' -> find_sec i Z = Some s -> exists s', f s = Ok s' /\ find_sec i Z' = Some s'.
Proof. apply upd_find_spec. Qed.

Lemma upd_find_other i j f : i <> j -> (forall a a', f a = Ok a' -> sid a' = sid a) ->
  forall Z Z', upd i f Z = Ok Z' -> find_sec j Z' = find_sec j Z.
Proof.
  intros Nij Hf. unfold find_sec. induction Z as [|a r IH]; intros Z' H; cbn [upd] in H; [discriminate|].
  destruct (Nat.eqb_spec (sid a) i) as [E|E].
  - destruct (f a) as [a'|] eqn:Fa; [|discriminate]. injection H as <-. cbn [find]. rewrite (Hf _ _ Fa), E.
    destruct (Nat.eqb_spec i j); [contradiction|reflexivity].
  - destruct (upd i f r) as [r'|] eqn:U; [|discriminate]. injection H as <-. cbn [find]. destruct (Nat.eqb (sid a) j); [reflexivity|].
    now apply IH.
Qed.

(* ------------------------------------------------------------------ *)
(** * [fx_add] is [Fx.add_to] *)

Lemma add_to_map (g : string -> list term) cur t : forall zs, NoDup zs -> List.In cur zs ->
  add_to cur t (map (fun c => (c, g c)) zs) = map (fun c => (c, if String.eqb c cur then add_term t (g c) else g c)) zs.
Proof.
  induction zs as [|z zs IH]; intros ND Hin; [contradiction|]. inversion ND as [|? ? Hn ND']; subst. cbn [map add_to].
  destruct (String.eqb_spec cur z) as [->|N].
  - rewrite String.eqb_refl. f_equal. apply map_ext_in. intros c Hc.
    destruct (String.eqb_spec c z) as [->|_]; [contradiction|reflexivity].
  - destruct (String.eqb_spec z cur) as [E|_]; [congruence|]. f_equal. apply IH; [exact ND'|]. destruct Hin; [congruence|assumption].
Qed.

Lemma sid_add_term_to_eq s n t s' : add_term_to_eq s n t = Some s' -> sid s' = sid s.
Proof. unfold add_term_to_eq. destruct (lookup_var n (vars s)); [|discriminate]. intros H. now injection H as <-. Qed.

Lemma sid_opt_add a n t a' : opt_key (add_term_to_eq a n t) = Ok a' -> sid a' = sid a.
Proof.
  unfold opt_key. destruct (add_term_to_eq a n t) eqn:X; [|discriminate]. intros H. injection H as <-. eapply sid_add_term_to_eq; exact X.
Qed.

Lemma sid_fold_store l a a' : Ok (fold_left store_net l a) = Ok a' -> sid a' = sid a.
Proof. intros H. injection H as <-. apply (proj1 (fold_store_attrs l a)). Qed.

Lemma net_of_add_term fx cur t fx' c : add_term_to_eq fx ("NET_" ++ cur) t = Some fx' ->
  net_of fx' c = if String.eqb c cur then add_term t (net_of fx c) else net_of fx c.
Proof.
  unfold add_term_to_eq, net_of. destruct (lookup_var ("NET_" ++ cur) (vars fx)) as [e|] eqn:E; [|discriminate].
  intros H. injection H as <-. cbn [vars with_vars]. destruct (String.eqb_spec c cur) as [->|N].
  - now rewrite lookup_set_same, E.
  - rewrite lookup_set_other; [reflexivity|]. intros X. apply netn_inj in X. congruence.
Qed.

Theorem fx_add_ledger J cur t Z Z' L : fx_add J cur t Z = Ok Z' -> ledger_of J Z = Some L ->
  List.In cur (zones_of (j_countries J)) -> ledger_of J Z' = Some (add_to cur t L).
Proof.
  unfold fx_add, ledger_of. destruct (j_ext J) as [e|]; [|discriminate].
  destruct (find_sec (e_fx e) Z) as [fx|] eqn:F; [|discriminate]. intros H HL Hin. injection HL as <-.
  destruct (upd_find_same _ _ (fun a a' Ha => sid_opt_add _ _ _ _ Ha) _ _ _ H F) as (fx' & Hf & F').
  rewrite F'. f_equal. unfold opt_key in Hf. destruct (add_term_to_eq fx ("NET_" ++ cur) t) as [y|] eqn:A; [|discriminate].
  injection Hf as <-. rewrite (add_to_map (net_of fx) cur t _ (zones_nodup _) Hin). apply map_ext. intros c.
  now rewrite (net_of_add_term _ _ _ _ c A).
Qed.

(** only the FX sector changes *)
Lemma fx_add_other J cur t Z Z' e j : fx_add J cur t Z = Ok Z' -> j_ext J = Some e -> j <> e_fx e -> find_sec j Z' = find_sec j Z.
Proof.
  unfold fx_add. intros H He Nj. rewrite He in H. eapply upd_find_other; [| |exact H]; [congruence|].
  intros a a' Ha. eapply sid_opt_add; exact Ha.
Qed.

(* ------------------------------------------------------------------ *)
(** * Sending and receiving money *)

Lemma xr_full_name J Z n x e xr : xr_full J Z n = Ok x -> j_ext J = Some e -> find_sec (e_xr e) Z = Some xr ->
  x = fullcode xr ++ "__" ++ n.
Proof.
  unfold xr_full. intros H He F. rewrite He, F in H. destruct (has_var xr n); [|discriminate]. now injection H as <-.
Qed.

Theorem send_money_ledger J cur x Z Z' e xr L : send_money J cur x Z = Ok Z' ->
  j_ext J = Some e -> find_sec (e_xr e) Z = Some xr -> fullcode xr = "EXT_XR" -> ledger_of J Z = Some L ->
  List.In cur (zones_of (j_countries J)) -> List.In NUM (zones_of (j_countries J)) ->
  ledger_of J Z' = Some (fx_step L (Send cur x)).
Proof.
  unfold send_money. intros H He Fx FC HL Hc Hn. bind_step H xrn E0. bind_step H Z1 E1.
  rewrite (xr_full_name _ _ _ _ _ _ E0 He Fx), FC in H.
  pose proof (fx_add_ledger _ _ _ _ _ _ E1 HL Hc) as L1.
  exact (fx_add_ledger _ _ _ _ _ _ H L1 Hn).
Qed.

Lemma ensure_cross_other J a b Z Z' e j : ensure_cross J a b Z = Ok Z' -> j_ext J = Some e -> j <> e_xr e ->
  find_sec j Z' = find_sec j Z.
Proof.
  unfold ensure_cross. intros H He Nj. rewrite He in H. eapply upd_find_other; [| |exact H]; [congruence|].
  intros s s' Hs. cbv beta in Hs. destruct (has_var s (a ++ "_" ++ b)); [now injection Hs as <-|].
  apply cq_addv in Hs. now apply cq_sid.
Qed.

Lemma ensure_cross_xr J a b Z Z' e xr : ensure_cross J a b Z = Ok Z' -> j_ext J = Some e -> find_sec (e_xr e) Z = Some xr ->
  exists xr', find_sec (e_xr e) Z' = Some xr' /\ fullcode xr' = fullcode xr.
Proof.
  unfold ensure_cross. intros H He F. rewrite He in H.
  assert (Hs : forall s s', (if has_var s (a ++ "_" ++ b) then Ok s else addv s (a ++ "_" ++ b) (a ++ "/" ++ b)) = Ok s' -> cq s s').
  { intros s s' Hs. destruct (has_var s (a ++ "_" ++ b)); [injection Hs as <-; apply cq_refl|now apply cq_addv in Hs]. }
  destruct (upd_find_same _ _ (fun s s' X => cq_sid _ _ (Hs s s' X)) _ _ _ H F) as (xr' & Hx & F').
  exists xr'. split; [exact F'|]. apply frame_fullcode. apply (cq_frame _ _ (Hs _ _ Hx)).
Qed.

Theorem receive_money_ledger J csrc ctgt x Z Z' t e xr L : receive_money J csrc ctgt x Z = Ok (Z', t) ->
  j_ext J = Some e -> e_fx e <> e_xr e -> find_sec (e_xr e) Z = Some xr -> fullcode xr = "EXT_XR" -> ledger_of J Z = Some L ->
  List.In ctgt (zones_of (j_countries J)) -> List.In NUM (zones_of (j_countries J)) ->
  ledger_of J Z' = Some (fx_step L (Receive csrc ctgt x)) /\ t = credited csrc ctgt x.
Proof.
  unfold receive_money. intros H He NE Fx FC HL Hc Hn.
  bind_step H Z1 E1. bind_step H cross E2. bind_step H Z2 E3. bind_step H xrn E4. bind_step H Z3 E5. injection H as <- <-.
  destruct (ensure_cross_xr _ _ _ _ _ _ _ E1 He Fx) as (xr1 & Fx1 & FC1). rewrite FC in FC1.
  assert (L1 : ledger_of J Z1 = Some L).
  { rewrite <- HL. apply ledger_of_same_fx. intros e0 He0. rewrite He in He0. injection He0 as <-.
    eapply ensure_cross_other; [exact E1|exact He|exact NE]. }
  rewrite (xr_full_name _ _ _ _ _ _ E2 He Fx1), FC1 in E3.
  pose proof (fx_add_ledger _ _ _ _ _ _ E3 L1 Hc) as L2.
  assert (Fx2 : find_sec (e_xr e) Z2 = Some xr1).
  { rewrite <- Fx1. eapply fx_add_other; [exact E3|exact He|congruence]. }
  rewrite (xr_full_name _ _ _ _ _ _ E4 He Fx2), FC1 in E5.
  split; [exact (fx_add_ledger _ _ _ _ _ _ E5 L2 Hn)|].
  rewrite (xr_full_name _ _ _ _ _ _ E2 He Fx1), FC1. reflexivity.
Qed.

(* ------------------------------------------------------------------ *)
(** * Writing a ledger back *)

Lemma ledger_rebuild : forall L : ledger, NoDup (map fst L) -> map (fun c => (c, ledger_lookup c L)) (map fst L) = L.
Proof.
  induction L as [|[d ts] L IH]; intros ND; [reflexivity|]. cbn [map fst] in *. inversion ND as [|? ? Hn ND']; subst.
  cbn [ledger_lookup]. rewrite String.eqb_refl. f_equal. rewrite <- (IH ND') at 2. apply map_ext_in. intros c Hc.
  destruct (String.eqb_spec c d) as [->|_]; [contradiction|reflexivity].
Qed.

Theorem store_ledger_read J L Z Z' e fx : store_ledger J (Some L) Z = Ok Z' -> j_ext J = Some e ->
  find_sec (e_fx e) Z = Some fx -> map fst L = zones_of (j_countries J) ->
  (forall c, List.In c (zones_of (j_countries J)) -> has_var fx ("NET_" ++ c) = true) ->
  ledger_of J Z' = Some L.
Proof.
  unfold store_ledger, ledger_of. intros H He F HK HN. rewrite He in *.
  destruct (upd_find_same _ _ (fun a a' Ha => sid_fold_store _ _ _ Ha) _ _ _ H F) as (fx' & Hf & F').
  rewrite F'. f_equal. injection Hf as <-. rewrite <- HK. rewrite <- (ledger_rebuild L) at 2 by (rewrite HK; apply zones_nodup).
  apply map_ext_in. intros c Hc. f_equal. unfold net_of. fold (netn c).
  rewrite (stored_lookup_in L fx); [reflexivity|rewrite HK; apply zones_nodup| |exact Hc].
  intros c' Hc'. apply HN. now rewrite <- HK.
Qed.

(** writing back what is there changes nothing *)
Theorem store_ledger_unchanged J Z Z1 : winv J Z1 ->
  (forall e fx, j_ext J = Some e -> find_sec (e_fx e) Z = Some fx ->
     exists fx1, find_sec (e_fx e) Z1 = Some fx1 /\ forall c, net_of fx1 c = net_of fx c) ->
  store_ledger J (ledger_of J Z) Z1 = Ok Z1.
Proof.
  intros W H. unfold store_ledger, ledger_of. destruct (j_ext J) as [e|] eqn:He; [|reflexivity].
  destruct (find_sec (e_fx e) Z) as [fx|] eqn:F; [|reflexivity].
  destruct (H e fx eq_refl F) as (fx1 & F1 & HN).
  apply (GenOrder2.Reform2.upd_same _ _ _ fx1 F1). f_equal.
  rewrite (map_ext _ (fun c => (c, net_of fx1 c))) by (intros c; now rewrite HN).
  apply GenOrder2.Reform2.fold_store_same. apply forallb_forall. intros c Hc.
  destruct (w_ext _ _ W e He) as (_ & _ & _ & xr & fx1' & _ & _ & _ & F1' & _ & _ & HH). rewrite F1 in F1'. injection F1' as <-.
  apply HH. unfold zones_of in Hc. now apply nodup_In in Hc.
Qed.

(** only the FX sector changes *)
Lemma store_ledger_other J L Z Z' e j : store_ledger J L Z = Ok Z' -> j_ext J = Some e -> j <> e_fx e -> find_sec j Z' = find_sec j Z.
Proof.
  unfold store_ledger. intros H He Nj. rewrite He in H. destruct L as [l|]; [|now injection H as <-].
  eapply upd_find_other; [| |exact H]; [congruence|]. intros a a' Ha. eapply sid_fold_store; exact Ha.
Qed.
