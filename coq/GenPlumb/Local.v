(** Plumbing of the steps that act inside one currency zone: the step of the multi-currency model IS
    the single-currency step on the caller's zone, written back ([local_lift], for every class, the
    market without foreign supplier included); hence [local_plumb] holds for every program. *)
From Coq Require Import List String Ascii Bool ZArith Arith Lia.
From SFC.Base Require Import Res Str.
From SFC.Gen Require Import Fx Zone.
From SFC.GenMarket Require Import Market MarketProofs.
From SFC.GenTax Require Import Tax TaxProofs Dividends.
From SFC.GenAsset Require Import Common Money Deposit.
From SFC.GenMain2 Require Import Program Classes Main Ledger MainProofs Conflict Program2 Main2 Ledger2 MainProofs2 Conflict2 Balance2.
From SFC.GenOrder2 Require Import Plan2 Part Reform2.
From SFC.GenPlumb Require Import FootDefs Foot Foot2 Constr Inv FxBook Split2.
Import ListNotations.
Local Open Scope string_scope.

(* ------------------------------------------------------------------ *)
(** * The zone a single-currency step computes does not depend on the registered flows *)

Lemma gen_step_flows I Z fl ik :
  gen_step I (mkG Z fl) ik =
  match gen_step I (mkG Z []) ik with
  | Ok G0 => Ok (mkG (g_zone G0) (fl ++ g_flows G0)%list)
  | Err e => Err e
  end.
Proof.
  destruct ik as [i k]. unfold gen_step. cbn [g_zone g_flows]. destruct (find_sec i Z) as [self|]; [|reflexivity].
  destruct k; cbn [g_zone g_flows bind]; rewrite ?app_nil_r; try reflexivity;
    try (match goal with |- context [upd ?a ?b ?c] => destruct (upd a b c) end; cbn [bind g_zone g_flows]; rewrite ?app_nil_r; reflexivity).
  - destruct (find _ _) as [mk|]; [|reflexivity]. destruct (has_var mk _); [|reflexivity].
    destruct (firm_generate _ _ _); cbn [bind g_zone g_flows]; rewrite ?app_nil_r; reflexivity.
  - destruct (upd i _ Z) as [Z1|]; cbn [bind]; [|reflexivity]. destruct (existsb _ _); cbn [g_zone g_flows]; rewrite ?app_nil_r; reflexivity.
  - destruct (tax_generate _ _ _ _); cbn [bind g_zone g_flows]; rewrite ?app_nil_r; reflexivity.
  - destruct (sup_of i (i_sup I)) as [res others]. destruct (market_generate _ _ _ _ _ _); cbn [bind g_zone g_flows]; rewrite ?app_nil_r; reflexivity.
  - destruct (money_generate_checked _ _ _ _); cbn [bind g_zone g_flows]; rewrite ?app_nil_r; reflexivity.
  - destruct (deposit_generate_checked _ _ _ _); cbn [bind g_zone g_flows]; rewrite ?app_nil_r; reflexivity.
Qed.

(* ------------------------------------------------------------------ *)
(** * Parts *)

Lemma own_zone_frame J self s s' : frame s s' -> own_zone J self s' = own_zone J self s.
Proof. apply in_zone_frame. Qed.

Lemma F2_length {A B} (R : A -> B -> Prop) l l' : Forall2 R l l' -> List.length l' = List.length l.
Proof. intros H. induction H; cbn; congruence. Qed.

(** writing a framed copy of the part back: the part becomes the copy, the rest stays *)
Lemma put_back_parts (q : sector -> bool) Z C : (forall s s', frame s s' -> q s' = q s) -> Forall2 frame (filter q Z) C ->
  filter q (put_back_p q C Z) = C /\ filter (notb q) (put_back_p q C Z) = filter (notb q) Z.
Proof.
  intros Hq FR.
  assert (QC : forall c, List.In c C -> q c = true).
  { intros c Hc. destruct (F2_In_r _ _ _ _ FR Hc) as (a & Ha & Fa). rewrite (Hq _ _ Fa). now apply filter_In in Ha as [_ Ha]. }
  split.
  - apply filter_put_back_same; [now apply F2_length in FR|exact QC].
  - apply filter_put_back_out.
    + intros s Hs. unfold notb in Hs. now apply negb_true_iff in Hs.
    + intros c Hc. unfold notb. now rewrite (QC c Hc).
Qed.

Lemma put_back_zq P (q : sector -> bool) Z C : zq P (filter q Z) C -> zq P Z (put_back_p q C Z).
Proof. apply put_back_p_rel. apply pq_refl. Qed.

(* ------------------------------------------------------------------ *)
(** * A market whose suppliers are all in its own zone *)

Lemma market_local_lift J Z fl ic i self : winv J Z -> find_sec i Z = Some self ->
  supplier_currencies J Z (cur_of_sec J self) (supplier_ids J i) = [] ->
  gen_step2 J (mkG2 Z fl ic) (i, COld CMarket) =
  lift (inzone J (cur_of_sec J self)) Z ic (gen_step (to_old J) (mkG (filter (inzone J (cur_of_sec J self)) Z) fl) (i, CMarket)).
Proof.
  intros W F LC1. set (q := inzone J (cur_of_sec J self)).
  assert (Fq : find_sec i (filter q Z) = Some self) by (apply find_sec_filter; [exact F|apply inzone_self]).
  unfold gen_step2, gen_step, lift. cbn [h_zone h_flows h_ic g_zone g_flows]. rewrite F, Fq.
  unfold market_step. cbn [to_old i_sup].
  destruct (sup_of i (j_sup J)) as [res others] eqn:ES.
  rewrite <- (supplier_ids_eq J i res others ES), LC1.
  change (in_zone (j_countries J) (cur_of_sec J self)) with q.
  rewrite market_generate_home_gen. change (mkWorld (filter q Z) [] None []) with (GenOrder.ReformMarket.lworld (filter q Z)).
  destruct (market_generate HCUR ACUR (GenOrder.ReformMarket.lworld (filter q Z)) i res others) as [W0|] eqn:MG; cbn [bind home fxl g_zone g_flows]; [|reflexivity].
  pose proof (proj1 (market_generate_zq _ _ _ _ _ _ _ MG)) as QH. cbn [home GenOrder.ReformMarket.lworld] in QH.
  pose proof (put_back_zq _ q Z _ QH) as QZ.
  rewrite (store_ledger_unchanged J Z (put_back_p q (home W0) Z)); [reflexivity|eapply winv_zq; eassumption|].
  intros e fx He Ff. destruct (F2_find (pq_sid _) _ _ _ QZ _ Ff) as (fx1 & F1 & Q1).
  exists fx1. split; [exact F1|]. intros c. eapply net_of_pq; exact Q1.
Qed.

Theorem local_lift J Z fl ic i self c : winv J Z -> find_sec i Z = Some self ->
  (c = CMarket -> supplier_currencies J Z (cur_of_sec J self) (supplier_ids J i) = []) ->
  gen_step2 J (mkG2 Z fl ic) (i, COld c) =
  lift (inzone J (cur_of_sec J self)) Z ic (gen_step (to_old J) (mkG (filter (inzone J (cur_of_sec J self)) Z) fl) (i, c)).
Proof.
  intros W F HM. destruct c; try (apply gen_step2_lift; [apply (w_nodup _ _ W)|exact F|exact Logic.I]).
  apply market_local_lift; auto.
Qed.

(* ------------------------------------------------------------------ *)
(** * [local_plumb] holds *)

Lemma fx_ok_nil_of J Z Z' : ledger_of J Z' = ledger_of J Z -> fx_ok J Z Z' [] = true.
Proof. intros E. unfold fx_ok. rewrite apply_ops_nil, E, oledger_eqb_refl. reflexivity. Qed.

Lemma part_ok_of p Z Z' C : filter p Z' = C -> filter (notb p) Z' = filter (notb p) Z -> part_ok p Z Z' C = true.
Proof. intros <- E. unfold part_ok. now rewrite E, !zone_eqb_refl. Qed.

Theorem local_plumb_holds J st i c self st' : winv J (h_zone st) -> find_sec i (h_zone st) = Some self ->
  (c = CMarket -> supplier_currencies J (h_zone st) (cur_of_sec J self) (supplier_ids J i) = []) ->
  gen_step2 J st (i, COld c) = Ok st' ->
  local_plumb J i c self (h_zone st) (h_zone st') = true /\ zq (protP (negb (is_fmb c))) (h_zone st) (h_zone st').
Proof.
  destruct st as [Z fl ic]. cbn [h_zone]. intros W F HM GS.
  rewrite (local_lift J Z fl ic i self c W F HM) in GS. unfold lift in GS.
  set (q := inzone J (cur_of_sec J self)) in *.
  rewrite gen_step_flows in GS.
  destruct (gen_step (to_old J) (mkG (filter q Z) []) (i, c)) as [G0|] eqn:G; [|discriminate]. cbn [bind g_zone g_flows] in GS.
  injection GS as <-. cbn [h_zone].
  pose proof (gen_step_zq _ _ _ _ _ G) as QP. cbn [g_zone] in QP.
  pose proof (put_back_zq _ q Z _ QP) as QZ.
  destruct (put_back_parts q Z (g_zone G0) (fun s s' => in_zone_frame _ _ s s') (zq_frame _ _ _ QP)) as [P1 P2].
  split; [|exact QZ].
  unfold local_plumb, own_zone. change (in_zone (j_countries J) (cur_of_sec J self)) with q. rewrite G.
  rewrite (part_ok_of q Z _ (g_zone G0) P1 P2), (fx_ok_nil_of J Z _ (ledger_of_zq _ J _ _ QZ)). cbn [andb].
  assert (Fq : find_sec i (filter q Z) = Some self) by (apply find_sec_filter; [exact F|apply inzone_self]).
  unfold gen_plumb. cbn [g_zone]. rewrite Fq.
  destruct c; try reflexivity; apply (gen_step_div_quiet _ _ _ _ _ G); reflexivity.
Qed.
