(** Footprints of the steps of the multi-currency pipeline (Main2.v): the group models applied to a
    part of the sector list, the market with foreign suppliers, the FX / XR bookkeeping (writes
    NET_<currency> of EXT_FX and cross-rate names of EXT_XR), gold purchases, registered flows across
    zones.  None of them writes DIV, except the dividend step of a FixedMarginBusiness. *)
From Coq Require Import List String Ascii Bool ZArith Arith Lia.
From SFC.Base Require Import Res Str.
From SFC.Gen Require Import Fx Zone.
From SFC.GenMarket Require Import Market MarketProofs.
From SFC.GenAsset Require Import Common CommonProofs Money MoneyProofs Deposit DepositProofs Weighting WeightingProofs.
From SFC.GenTax Require Import Tax Dividends TaxProofs DividendProofs.
From SFC.GenMain2 Require Import Program Classes Main Ledger MainProofs Conflict.
From SFC.GenMain2 Require Import Program2 Main2 Ledger2.
From SFC.GenPlumb Require Import FootDefs Foot.
Import ListNotations.
Local Open Scope string_scope.

(* ------------------------------------------------------------------ *)
(** * Names *)

Lemma P_div_net c : P_div ("NET_" ++ c) = false.
Proof. reflexivity. Qed.

Lemma P_div_cross a b : P_div (a ++ "_" ++ b) = false.
Proof.
  unfold P_div. destruct (String.eqb_spec (a ++ "_" ++ b) "DIV") as [E|]; [|reflexivity].
  pose proof (contains_app_mid a b) as H. rewrite E in H. discriminate H.
Qed.

Lemma protP_true_div n : P_div n = true -> protP true n = true.
Proof. exact (protP_div n). Qed.

Lemma zq_div_of_prot Z Z' : zq (protP true) Z Z' -> zq P_div Z Z'.
Proof. apply zq_weaken. exact protP_div. Qed.

(* ------------------------------------------------------------------ *)
(** * Parts of the sector list *)

Lemma on_part_zq P p f Z Z' : on_part p f Z = Ok Z' ->
  (forall C C', f C = Ok C' -> zq P C C') -> zq P Z Z'.
Proof.
  unfold on_part. intros H Hf. destruct (f (filter p Z)) as [C'|] eqn:E; [|discriminate]. simpl in H. injection H as <-.
  apply put_back_p_rel; [intros s; apply pq_refl|]. now apply Hf.
Qed.

(* ------------------------------------------------------------------ *)
(** * AddVariable under the "__" guard *)

Lemma addv_pq P s n t s' : P n = false -> addv s n t = Ok s' -> pq P s s'.
Proof.
  intros Hn. unfold addv. destruct (has_substring "__" n); [discriminate|].
  intros H. injection H as <-. now apply pq_add_variable.
Qed.

Lemma addvs_pq P : forall l s s', forallb (fun n => negb (P n)) (map fst l) = true -> addvs s l = Ok s' -> pq P s s'.
Proof.
  induction l as [|[n t] l IH]; intros s s' Hl H; simpl in H.
  - injection H as <-. apply pq_refl.
  - simpl in Hl. apply andb_true_iff in Hl as [Hn Hl]. apply negb_true_iff in Hn.
    destruct (addv s n t) as [s1|] eqn:E; [|discriminate]. simpl in H.
    eapply pq_trans; [eapply addv_pq; eassumption|now apply IH].
Qed.

(* ------------------------------------------------------------------ *)
(** * FX / XR bookkeeping *)

Lemma store_net_pq fx ct : pq P_div fx (store_net fx ct).
Proof.
  unfold store_net. destruct (lookup_var _ (vars fx)); apply pq_set_eqn; apply P_div_net.
Qed.

Lemma fold_store_pq l : forall fx, pq P_div fx (fold_left store_net l fx).
Proof.
  induction l as [|ct l IH]; intros fx; simpl; [apply pq_refl|].
  eapply pq_trans; [apply store_net_pq|apply IH].
Qed.

Lemma store_ledger_zq J L Z Z' : store_ledger J L Z = Ok Z' -> zq P_div Z Z'.
Proof.
  unfold store_ledger. destruct (j_ext J) as [e|]; [|intros H; injection H as <-; apply zq_refl].
  destruct L as [l|]; [|intros H; injection H as <-; apply zq_refl].
  intros H. eapply zq_upd; [exact H|]. intros s s' E. injection E as <-. apply fold_store_pq.
Qed.

Lemma ensure_cross_zq J a b Z Z' : ensure_cross J a b Z = Ok Z' -> zq P_div Z Z'.
Proof.
  unfold ensure_cross. destruct (j_ext J) as [e|]; [|discriminate]. intros H.
  eapply zq_upd; [exact H|]. intros s s' E. cbv beta in E.
  destruct (has_var s (a ++ "_" ++ b)); [injection E as <-; apply pq_refl|].
  eapply addv_pq; [|exact E]. apply P_div_cross.
Qed.

Lemma ensure_crosses_zq J h codes : forall acurs Z Z', ensure_crosses J h codes acurs Z = Ok Z' -> zq P_div Z Z'.
Proof.
  induction acurs as [|a r IH]; intros Z Z' H; simpl in H; [injection H as <-; apply zq_refl|].
  destruct (if mem (cross_code h a) codes then ensure_cross J h a Z else Ok Z) as [Z1|] eqn:E; [|discriminate]. simpl in H.
  eapply zq_trans; [|eapply IH; exact H].
  destruct (mem _ codes); [eapply ensure_cross_zq; exact E|injection E as <-; apply zq_refl].
Qed.

Lemma fx_add_zq J cur t Z Z' : fx_add J cur t Z = Ok Z' -> zq P_div Z Z'.
Proof.
  unfold fx_add. destruct (j_ext J) as [e|]; [|discriminate]. intros H.
  eapply zq_upd; [exact H|]. intros s s' E. unfold opt_key in E.
  destruct (add_term_to_eq s _ t) as [x|] eqn:E2; [|discriminate]. injection E as <-.
  eapply pq_add_term_to_eq; [|exact E2]. apply P_div_net.
Qed.

Lemma send_money_zq J cur x Z Z' : send_money J cur x Z = Ok Z' -> zq P_div Z Z'.
Proof.
  unfold send_money. intros H. bind_step H xr E0. bind_step H Z1 E1.
  eapply zq_trans; [eapply fx_add_zq; exact E1|eapply fx_add_zq; exact H].
Qed.

Lemma receive_money_zq J a b x Z Z' t : receive_money J a b x Z = Ok (Z', t) -> zq P_div Z Z'.
Proof.
  unfold receive_money. intros H. bind_step H Z1 E1. bind_step H cross E2. bind_step H Z2 E3. bind_step H xr E4. bind_step H Z3 E5.
  injection H as <- _.
  eapply zq_trans; [eapply ensure_cross_zq; exact E1|].
  eapply zq_trans; [eapply fx_add_zq; exact E3|eapply fx_add_zq; exact E5].
Qed.

(* ------------------------------------------------------------------ *)
(** * The market with suppliers in several other zones *)

Lemma supply_multi_zq hcur cur_of mk : forall L W W', supply_multi hcur cur_of mk W L = Ok W' ->
  zq (protP true) (home W) (home W') /\ zq (protP true) (abroad W) (abroad W').
Proof.
  induction L as [|x L IH]; intros W W' H; simpl in H.
  - injection H as <-. split; apply zq_refl.
  - destruct (supply_step hcur (cur_of (fst x)) mk W x) as [W1|] eqn:E; [|discriminate]. simpl in H.
    destruct (IH _ _ H) as [I1 I2]. apply supply_step_zq in E as [E1 E2].
    split; eapply zq_trans; eassumption.
Qed.

Theorem market_generate_multi_zq hcur cur_of W m res others W' : market_generate_multi hcur cur_of W m res others = Ok W' ->
  zq (protP true) (home W) (home W') /\ zq (protP true) (abroad W) (abroad W').
Proof.
  unfold market_generate_multi. intros H.
  destruct (find_sec m (home W)) as [mk|]; [|discriminate].
  bind_step H r E0. bind_step H H1 GD.
  destruct (find_sec m H1) as [mk1|] eqn:F1; [|discriminate].
  bind_step H H0 U. bind_step H fcs E3.
  apply generate_demand_zq in GD.
  destruct (supply_multi_zq _ _ _ _ _ _ H) as [S1 S2]. cbn [home abroad with_home] in S1, S2.
  split; [|exact S2].
  eapply zq_trans; [exact GD|]. eapply zq_trans; [|exact S1].
  eapply zq_upd; [exact U|]. intros s s' E. unfold opt_key in E.
  destruct (set_rhs_terms s _ _) as [x|] eqn:E2; [|discriminate]. injection E as <-.
  eapply pq_set_rhs_terms; [|exact E2]. apply protP_sup.
Qed.

Lemma market_step_zq J i self Z Z' : market_step J i self Z = Ok Z' -> zq P_div Z Z'.
Proof.
  unfold market_step. intros H.
  set (hcur := cur_of_sec J self) in *. destruct (sup_of i (j_sup J)) as [res others].
  set (inh := in_zone (j_countries J) hcur) in *.
  assert (K : forall (ina : sector -> bool) W (Z1 : zone) acurs,
            (forall s s', frame s s' -> ina s' = ina s) -> (forall s, inh s = true -> ina s = false) ->
            zq (protP true) (filter inh Z) (home W) -> zq (protP true) (filter ina Z) (abroad W) ->
            store_ledger J (fxl W) (put_back_p ina (abroad W) (put_back_p inh (home W) Z)) = Ok Z1 ->
            ensure_crosses J hcur (crosses W) acurs Z1 = Ok Z' -> zq P_div Z Z').
  { intros ina W Z1 acurs Hq D ZH ZA SL EC.
    assert (S1 : zq P_div Z (put_back_p inh (home W) Z)).
    { apply put_back_p_rel; [intros s; apply pq_refl|]. now apply zq_div_of_prot. }
    assert (S2 : zq P_div (put_back_p inh (home W) Z) (put_back_p ina (abroad W) (put_back_p inh (home W) Z))).
    { apply put_back_p_rel; [intros s; apply pq_refl|].
      rewrite (filter_put_back_disjoint inh ina Hq D _ _ (zq_frame _ _ _ ZH)).
      now apply zq_div_of_prot. }
    eapply zq_trans; [exact S1|].
    eapply zq_trans; [exact S2|].
    eapply zq_trans; [eapply store_ledger_zq; exact SL|].
    eapply ensure_crosses_zq; exact EC. }
  destruct (supplier_currencies J Z hcur _) as [|a [|b l]] eqn:SC.
  - bind_step H W MG. apply market_generate_zq in MG as [MG _]. cbn [home] in MG.
    eapply zq_trans; [|eapply store_ledger_zq; exact H].
    apply put_back_p_rel; [intros s; apply pq_refl|]. now apply zq_div_of_prot.
  - bind_step H W MG. bind_step H Z1 SL.
    assert (Na : a <> hcur).
    { assert (Hin : List.In a (supplier_currencies J Z hcur (map fst others ++ match res with Some r => [r] | None => [] end))) by (rewrite SC; now left).
      unfold supplier_currencies in Hin. apply nodup_In in Hin. apply in_flat_map in Hin as (j & _ & Hj).
      destruct (find_sec j Z) as [sj|]; [|contradiction]. destruct (String.eqb_spec (cur_of_sec J sj) hcur) as [|Ne]; [contradiction|].
      destruct Hj as [<-|[]]. exact Ne. }
    apply market_generate_zq in MG as [M1 M2]. cbn [home abroad] in M1, M2.
    eapply (K (in_zone (j_countries J) a) W Z1 [a]); try eassumption.
    + intros s s'. apply in_zone_frame.
    + intros s Hs. unfold inh, in_zone in *. apply String.eqb_eq in Hs. rewrite Hs. apply String.eqb_neq. congruence.
  - bind_step H W MG. bind_step H Z1 SL.
    apply market_generate_multi_zq in MG as [M1 M2]. cbn [home abroad] in M1, M2.
    eapply (K (fun s => negb (inh s)) W Z1 (a :: b :: l)); try eassumption.
    + intros s s' Fr. unfold inh. now rewrite (in_zone_frame _ _ _ _ Fr).
    + intros s Hs. now rewrite Hs.
Qed.

(* ------------------------------------------------------------------ *)
(** * Gold purchases *)

Lemma gold_step_zq J i self stock b st st' : gold_step J i self stock b st = Ok st' ->
  zq P_div (h_zone st) (h_zone st').
Proof.
  unfold gold_step. destruct (j_ext J) as [e|] eqn:EJ; [|discriminate].
  destruct (find_sec (e_fx e) (h_zone st)) as [fx|]; [|discriminate].
  destruct (has_var fx _); [|discriminate]. intros H. cbv zeta in H.
  bstep H Za E1. bstep H Zb Eb.
  destruct (find_sec (e_gold e) Zb) as [g|]; [|discriminate]. cbv zeta in H.
  bstep H xr E3. bstep H Zc E4. bstep H Zd E5. bstep H Ze E6. bstep H Zf E7.
  injection H as <-. cbn [h_zone].
  eapply zq_trans; [eapply zq_upd; [exact E1|]|].
  { intros s s' E. eapply addv_pq; [|exact E]. reflexivity. }
  eapply zq_trans; [eapply zq_upd; [exact Eb|]|].
  { intros s s' E. cbv beta in E. bstep E g1 G1.
    eapply pq_trans.
    - destruct (has_var s "PRICE"); [injection G1 as <-; apply pq_refl|eapply addv_pq; [|exact G1]; reflexivity].
    - destruct (has_var g1 "NETOZ"); [injection E as <-; apply pq_refl|eapply addv_pq; [|exact E]; reflexivity]. }
  eapply zq_trans; [eapply zq_upd; [exact E4|]|].
  { intros s s' E. eapply addvs_pq; [|exact E]. reflexivity. }
  eapply zq_trans; [eapply send_money_zq; exact E5|].
  eapply zq_trans; [eapply zq_upd; [exact E6|]|eapply zq_upd; [exact E7|]].
  - intros s s' E. unfold opt_key in E.
    destruct (add_cash_flow s _ None false) as [x|] eqn:E8; [|discriminate]. injection E as <-.
    eapply pq_acf_none; [| |exact E8]; reflexivity.
  - intros s s' E. unfold opt_key in E. destruct (add_term_to_eq s "NETOZ" _) as [x|] eqn:E8; [|discriminate].
    injection E as <-. eapply pq_add_term_to_eq; [|exact E8]. reflexivity.
Qed.

(* ------------------------------------------------------------------ *)
(** * One _GenerateEquations call; one registered cash flow *)

(* the FX / XR bookkeeping writes NET_* of EXT_FX and cross-rate names of EXT_XR: DIV is never written *)
Theorem gen_step2_zq_div J st i k st' : gen_step2 J st (i, k) = Ok st' ->
  (match k with COld c => is_fmb c | _ => false end) = false -> zq P_div (h_zone st) (h_zone st').
Proof.
  unfold gen_step2.
  destruct (find_sec i (h_zone st)) as [self|] eqn:Fs; [|discriminate].
  assert (HH : forall ai af, (do Z' <- upd i (apply_resets [("AlphaIncome", ai); ("AlphaFin", af)]) (h_zone st) ;;
                             Ok (mkG2 Z' (h_flows st) (h_ic st))) = Ok st' -> zq P_div (h_zone st) (h_zone st')).
  { intros ai af H. apply same2_inv in H. eapply zq_upd; [exact H|].
    intros s s' E. eapply pq_apply_resets; [|exact E]. reflexivity. }
  destruct k as [k|stock|t stock| | |].
  2:{ intros H _. eapply gold_step_zq; exact H. }
  2:{ intros H _. apply gold_step_zq in H. exact H. }
  2,3,4: intros H _; injection H as <-; apply zq_refl.
  destruct k as [| |t|ai af good lab|ai af good lab|ai af good|mz wage margin lab out|mz wage lab ms|rate paid|
                 |issuer|issuer]; cbn [is_fmb]; intros H Hk; try discriminate Hk.
  - injection H as <-. apply zq_refl.
  - injection H as <-. apply zq_refl.
  - injection H as <-. apply zq_refl.
  - eapply HH; exact H.
  - eapply HH; exact H.
  - eapply HH; exact H.
  - destruct (upd i _ (h_zone st)) as [Z1|] eqn:U; [|discriminate]. cbn [bind] in H.
    destruct (existsb _ _); [discriminate|]. injection H as <-. cbn [h_zone].
    eapply zq_upd; [exact U|]. intros s s' E.
    eapply pq_apply_resets; [|exact E]. reflexivity.
  - apply same2_inv in H. eapply on_part_zq; [exact H|]. intros C C' E.
    apply zq_div_of_prot. eapply tax_generate_zq. exact E.
  - apply same2_inv in H. eapply market_step_zq. exact H.
  - apply same2_inv in H. eapply on_part_zq; [exact H|]. intros C C' E.
    apply zq_div_of_prot. eapply money_generate_checked_zq. exact E.
  - apply same2_inv in H. eapply on_part_zq; [exact H|]. intros C C' E.
    apply zq_div_of_prot. eapply deposit_generate_checked_zq. exact E.
Qed.

Theorem flow_step2_zq_div J Z f Z' : flow_step2 J Z f = Ok Z' -> zq P_div Z Z'.
Proof.
  destruct f as [[[[src tgt] var] a] b]. unfold flow_step2. destruct tgt as [tg|]; [|discriminate].
  destruct (find_sec src Z) as [s0|] eqn:Fs; [|discriminate].
  destruct (find_sec tg Z) as [t0|]; [|discriminate].
  destruct (_ && _); [discriminate|].
  destruct (has_var s0 var); [|discriminate]. intros H. bind_step H Z1 U1.
  assert (S1 : zq P_div Z Z1).
  { eapply zq_upd; [exact U1|]. intros s s' E. unfold opt_key in E.
    destruct (add_cash_flow s _ None a) as [x|] eqn:E2; [|discriminate]. injection E as <-.
    eapply pq_acf_none; [| |exact E2]; reflexivity. }
  assert (TG : forall t Zx Zy, upd tg (fun x => opt_key (add_cash_flow x t None b)) Zx = Ok Zy -> zq P_div Zx Zy).
  { intros t Zx Zy U. eapply zq_upd; [exact U|]. intros s s' E. unfold opt_key in E.
    destruct (add_cash_flow s t None b) as [x|] eqn:E2; [|discriminate]. injection E as <-.
    eapply pq_acf_none; [| |exact E2]; reflexivity. }
  eapply zq_trans; [exact S1|].
  destruct (negb _).
  - bind_step H Z2 E2. bind_step H zt E3. destruct zt as [Z3 t]. cbn [fst snd] in H.
    eapply zq_trans; [eapply send_money_zq; exact E2|].
    eapply zq_trans; [eapply receive_money_zq; exact E3|].
    eapply TG; exact H.
  - eapply TG; exact H.
Qed.

(* ------------------------------------------------------------------ *)
(** * Steps that leave dividends alone *)

Lemma credit2_not_div t : credit2 t -> factors_eqb (snd t) ["DIV"] = false.
Proof. intros (x & c & ->). cbn [snd factors_eqb]. apply andb_false_r. Qed.

Lemma gen_terms2_not_div i k Z s t : (match k with COld c => is_fmb c | _ => false end) = false ->
  gen_terms2 (i, k) Z s t -> factors_eqb (snd t) ["DIV"] = false.
Proof.
  unfold gen_terms2. cbn [snd fst]. destruct k as [k|stock|t0 stock| | |]; try contradiction.
  - destruct k; try contradiction; try discriminate; intros _.
    + intros [->| ->]; reflexivity.
    + intros (mk & _ & [M|M]); [eapply market_terms_not_div; exact M|now apply credit2_not_div].
    + intros (mk & _ & [->| ->]); reflexivity.
  - intros _ [_ ->]. reflexivity.
  - intros _ [_ ->]. reflexivity.
Qed.

Theorem gen_step2_div_quiet J st i k st' : gen_step2 J st (i, k) = Ok st' ->
  (match k with COld c => is_fmb c | _ => false end) = false -> div_quiet (h_zone st) (h_zone st') = true.
Proof.
  intros H Hk. eapply div_quiet_of.
  - eapply gen_step2_zq_div; eassumption.
  - eapply gen_step2_zstep. exact H.
  - intros s t. now apply gen_terms2_not_div.
Qed.

Lemma flow_terms2_not_div f Z s t : flow_terms2 f Z s t -> factors_eqb (snd t) ["DIV"] = false.
Proof.
  destruct f as [[[[src tgt] var] a] b]. unfold flow_terms2.
  intros (s0 & _ & [[_ ->]|[_ [->|[c ->]]]]); cbn [snd factors_eqb].
  - apply andb_false_iff; left; apply full_not_div.
  - apply andb_false_iff; left; apply full_not_div.
  - apply andb_false_r.
Qed.

Theorem flow_step2_div_quiet J Z f Z' : flow_step2 J Z f = Ok Z' -> div_quiet Z Z' = true.
Proof.
  intros H. eapply div_quiet_of.
  - eapply flow_step2_zq_div; exact H.
  - eapply flow2_zstep. exact H.
  - intros s t. apply flow_terms2_not_div.
Qed.
