(** Footprints of the booking groups and of the single-currency pipeline steps: which variable
    names a step may write ([FootDefs.pq] / [FootDefs.zq]); consequence: steps other than the
    dividend step are [Conflict.div_quiet]. *)
From Coq Require Import List String Ascii Bool ZArith Arith Lia.
From SFC.Base Require Import Res Str.
From SFC.Gen Require Import Fx Zone.
From SFC.GenMarket Require Import Market MarketProofs.
From SFC.GenAsset Require Import Common CommonProofs Money MoneyProofs Deposit DepositProofs Weighting WeightingProofs.
From SFC.GenTax Require Import Tax Dividends TaxProofs DividendProofs.
From SFC.GenMain2 Require Import Program Classes Main Ledger MainProofs Conflict.
From SFC.GenPlumb Require Import FootDefs.
Import ListNotations.
Local Open Scope string_scope.

(* ------------------------------------------------------------------ *)
(** * Cash-flow variants *)

Lemma pq_acfs P s t def b s' : P "F" = false -> P "INC" = false -> P (String.concat "*" (snd t)) = false ->
  add_cash_flow_struct s t def b = Some s' -> pq P s s'.
Proof.
  intros HF HI HN. unfold add_cash_flow_struct.
  destruct (add_cash_flow s t None b) as [s2|] eqn:E; [|discriminate].
  intros H. injection H as <-.
  assert (Q : pq P s s2).
  { eapply pq_add_cash_flow; [exact HF|exact HI| |exact E]. intros C. now elim C. }
  destruct (lookup_var _ (vars s2)) as [e|]; [destruct (renders_empty e)|]; try exact Q;
    (eapply pq_trans; [exact Q|now apply pq_install]).
Qed.

Lemma pq_acf_def P s t d b s' : P "F" = false -> P "INC" = false -> P (String.concat "*" (snd t)) = false ->
  add_cash_flow_def s t d b = Some s' -> pq P s s'.
Proof.
  intros HF HI HN. unfold add_cash_flow_def.
  destruct (add_cash_flow s t None b) as [s2|] eqn:E; [|discriminate]. simpl.
  intros H. injection H as <-.
  assert (Q : pq P s s2).
  { eapply pq_add_cash_flow; [exact HF|exact HI| |exact E]. intros C. now elim C. }
  unfold install_def.
  destruct (lookup_var _ (vars s2)) as [e|]; [destruct (renders_empty e)|]; try exact Q;
    (eapply pq_trans; [exact Q|now apply pq_def_variable]).
Qed.

Lemma pq_acf_none P s t b s' : P "F" = false -> P "INC" = false ->
  add_cash_flow s t None b = Some s' -> pq P s s'.
Proof. intros HF HI H. eapply pq_add_cash_flow; [exact HF|exact HI| |exact H]. intros C. now elim C. Qed.

(* ------------------------------------------------------------------ *)
(** * TaxFlow *)

Lemma tax_sector_steps_pq me rt pt rm ts tf s s3 : sector_steps me rt pt rm ts tf s s3 -> pq (protP true) s s3.
Proof.
  intros (s1 & s2 & H1 & H2 & H3).
  assert (L1 : pq (protP true) s s1).
  { destruct (is_payer me s).
    - apply pay_tax_inv in H1 as (_ & H1). eapply pq_acfs; [| | |exact H1]; reflexivity.
    - injection H1 as <-. apply pq_refl. }
  assert (L2 : pq (protP true) s1 s2).
  { destruct (sid_is me s1).
    - apply self_update_inv in H2. subst s2.
      eapply pq_trans; apply pq_install; reflexivity.
    - injection H2 as <-. apply pq_refl. }
  assert (L3 : pq (protP true) s2 s3).
  { destruct (code_is pt s2).
    - apply receive_tax_inv in H3.
      eapply pq_trans; [apply (pq_install _ s2 "T"); reflexivity|].
      eapply pq_acfs; [| | |exact H3]; reflexivity.
    - injection H3 as <-. apply pq_refl. }
  eapply pq_trans; [exact L1|]. eapply pq_trans; eassumption.
Qed.

Theorem tax_generate_zq me rt pt Z Z' : tax_generate me rt pt Z = Ok Z' -> zq (protP true) Z Z'.
Proof.
  intros H. apply tax_generate_spec in H as (self & _ & HF & _).
  eapply Forall2_impl; [|exact HF]. intros s s' Hs. eapply tax_sector_steps_pq; exact Hs.
Qed.

(* ------------------------------------------------------------------ *)
(** * Dividends *)

Lemma pq_apply_resets P rs : forallb (fun n => negb (P n)) (map fst rs) = true ->
  forall s s', apply_resets rs s = Ok s' -> pq P s s'.
Proof.
  induction rs as [|[k txt] rs IH]; intros Hl s s' H; simpl in H.
  - injection H as <-. apply pq_refl.
  - destruct (set_rhs s k txt) as [s1|] eqn:E; [|discriminate].
    simpl in Hl. apply andb_true_iff in Hl as [Hk Hl]. apply negb_true_iff in Hk.
    eapply pq_trans; [eapply pq_set_rhs; eassumption|]. now apply IH.
Qed.

Lemma pay_div_pq p s s1 : (if sid_is p s then pay_div s else Ok s) = Ok s1 -> pq (protP false) s s1.
Proof.
  destruct (sid_is p s); intros H.
  - apply pay_div_inv in H. eapply pq_acfs; [| | |exact H]; reflexivity.
  - injection H as <-. apply pq_refl.
Qed.

Lemma receive_div_pq rb pf r r' : receive_div rb pf r = Ok r' -> pq (protP false) r r'.
Proof.
  intros H. apply receive_div_inv in H as (b & _ & H). destruct (b && negb rb).
  - destruct H as (e & _ & ->). apply pq_install; reflexivity.
  - eapply pq_acfs; [| | |exact H]; reflexivity.
Qed.

Lemma div_pass_zq cnd rb p pf : forall C found C',
  div_pass cnd rb p pf found C = Ok C' -> zq (protP false) C C'.
Proof.
  induction C as [|s r IH]; intros found C' H; simpl in H.
  - injection H as <-. constructor.
  - destruct (if sid_is p s then pay_div s else Ok s) as [s1|] eqn:H1; [|discriminate]. simpl in H.
    destruct (if negb found && cnd s then receive_div rb pf s1 else Ok s1) as [s2|] eqn:H2; [|discriminate]. simpl in H.
    destruct (div_pass cnd rb p pf (found || cnd s) r) as [r'|] eqn:Hr; [|discriminate]. simpl in H.
    injection H as <-. constructor; [|eapply IH; exact Hr].
    apply pay_div_pq in H1. eapply pq_trans; [exact H1|].
    destruct (negb found && cnd s); [eapply receive_div_pq; exact H2|].
    injection H2 as <-. apply pq_refl.
Qed.

Theorem firm_generate_zq bizs pr C C' :
  forallb (fun n => negb (protP false n)) (map fst (snd pr)) = true ->
  firm_generate bizs pr C = Ok C' -> zq (protP false) C C'.
Proof.
  intros Hl H. unfold firm_generate in H.
  destruct (update_where (sid_is (fst pr)) (apply_resets (snd pr)) C) as [C1|] eqn:U; [|discriminate]. simpl in H.
  eapply zq_trans.
  - eapply zq_update_where; [exact U|]. intros s s' E. eapply pq_apply_resets; eassumption.
  - unfold div_step in H. destruct (existsb _ C1); [|injection H as <-; apply zq_refl].
    destruct (find (sid_is (fst pr)) C1) as [self|]; [|discriminate].
    destruct (has_var self "PROF"); [|discriminate].
    eapply div_pass_zq; exact H.
Qed.

(* ------------------------------------------------------------------ *)
(** * Names the groups write are not protected *)

Lemma protP_dem d x : protP d ("DEM_" ++ x) = false.
Proof. reflexivity. Qed.
Lemma protP_sup d x : protP d ("SUP_" ++ x) = false.
Proof. reflexivity. Qed.
Lemma protP_lag d x : protP d ("LAG_" ++ x) = false.
Proof. reflexivity. Qed.
Lemma protP_int d x : protP d ("INT" ++ x) = false.
Proof. destruct x; reflexivity. Qed.
Lemma protP_dem_name d mk s : protP d (Market.dem_name mk s) = false.
Proof. unfold Market.dem_name. destruct (share_parent mk s); reflexivity. Qed.
Lemma protP_supply_name d mk s : protP d (supply_name mk s) = false.
Proof. unfold supply_name. destruct (share_parent mk s); reflexivity. Qed.

(* ------------------------------------------------------------------ *)
(** * Goods / labour market *)

Lemma dem_step_pq mk s s' t : dem_step mk s = Ok (s', t) -> pq (protP true) s s'.
Proof.
  unfold dem_step. destruct (Nat.eqb (sid s) (sid mk)).
  - intros H. injection H as <- _. apply pq_refl.
  - destruct (has_var s (Market.dem_name mk s)).
    + destruct (add_cash_flow s _ (Some "") true) as [s1|] eqn:E; [|discriminate].
      intros H. injection H as <- _.
      eapply pq_add_cash_flow; [| | |exact E]; [reflexivity|reflexivity|].
      intros _. cbn [String.concat snd]. apply protP_dem_name.
    + intros H. injection H as <- _. apply pq_refl.
Qed.

Lemma dem_loop_zq mk : forall Z Z' ts, dem_loop mk Z = Ok (Z', ts) -> zq (protP true) Z Z'.
Proof.
  induction Z as [|s r IH]; intros Z' ts H; simpl in H.
  - injection H as <- _. constructor.
  - destruct (dem_step mk s) as [[s' t1]|] eqn:E1; [|discriminate].
    destruct (dem_loop mk r) as [[r' t2]|] eqn:E2; [|discriminate].
    injection H as <- _. constructor; [eapply dem_step_pq; exact E1|apply (IH _ _ eq_refl)].
Qed.

Lemma generate_demand_zq Z m Z' : generate_demand Z m = Ok Z' -> zq (protP true) Z Z'.
Proof.
  unfold generate_demand. destruct (find_sec m Z) as [mk|]; [|discriminate].
  destruct (upd m _ Z) as [Za|] eqn:U1; [|discriminate].
  destruct (dem_loop mk Za) as [[Zb fulls]|] eqn:DL; [|discriminate]. intros H.
  eapply zq_trans.
  - eapply zq_upd; [exact U1|]. intros s s' E. injection E as <-. apply pq_add_variable. apply protP_dem.
  - eapply zq_trans; [eapply dem_loop_zq; exact DL|].
    eapply zq_upd; [exact H|]. intros s s' E. unfold opt_key in E.
    destruct (set_rhs_terms s (dem_short mk) _) as [x|] eqn:E2; [|discriminate]. injection E as <-.
    eapply pq_set_rhs_terms; [|exact E2]. apply protP_dem.
Qed.

Lemma supplier_local_pq mk ln s s' : supplier_local mk ln s = Ok s' -> pq (protP true) s s'.
Proof.
  unfold supplier_local.
  destruct (add_term_to_eq _ _ _) as [s2|] eqn:E1; [|discriminate].
  unfold opt_key. destruct (add_cash_flow s2 _ None true) as [s3|] eqn:E2; [|discriminate].
  intros H. injection H as <-.
  eapply pq_trans; [apply pq_ensure_var; apply protP_supply_name|].
  eapply pq_trans; [eapply pq_add_term_to_eq; [|exact E1]; apply protP_supply_name|].
  eapply pq_acf_none; [| |exact E2]; reflexivity.
Qed.

Lemma supplier_foreign_pq mk t s s' : supplier_foreign mk t s = Ok s' -> pq (protP true) s s'.
Proof.
  unfold supplier_foreign.
  destruct (add_term_to_eq _ _ _) as [s2|] eqn:E1; [|discriminate].
  unfold opt_key. destruct (add_cash_flow s2 _ None true) as [s3|] eqn:E2; [|discriminate].
  intros H. injection H as <-.
  eapply pq_trans; [apply pq_ensure_var; apply protP_supply_name|].
  eapply pq_trans; [eapply pq_add_term_to_eq; [|exact E1]; apply protP_supply_name|].
  eapply pq_acf_none; [| |exact E2]; reflexivity.
Qed.

Lemma supply_step_zq h a mk W ie W' : supply_step h a mk W ie = Ok W' ->
  zq (protP true) (home W) (home W') /\ zq (protP true) (abroad W) (abroad W').
Proof.
  destruct ie as [i e]. unfold supply_step.
  destruct (resolve W i) as [[b sup]|] eqn:R; [|discriminate].
  destruct (upd (sid mk) _ (home W)) as [H1|] eqn:U1; [|discriminate].
  assert (Z1 : zq (protP true) (home W) H1).
  { eapply zq_upd; [exact U1|]. intros s s' E. injection E as <-.
    apply pq_set_eqn. unfold alloc_name. apply protP_sup. }
  destruct b.
  - destruct (upd i (supplier_local mk (alloc_name sup)) H1) as [H2|] eqn:U2; [|discriminate].
    intros H. injection H as <-. simpl. split; [|apply zq_refl].
    eapply zq_trans; [exact Z1|].
    eapply zq_upd; [exact U2|]. intros s s' E. eapply supplier_local_pq; exact E.
  - destruct (fxl W) as [L|]; [|discriminate].
    destruct (upd i _ (abroad W)) as [A2|] eqn:U2; [|discriminate].
    intros H. injection H as <-. simpl. split; [exact Z1|].
    eapply zq_upd; [exact U2|]. intros s s' E. eapply supplier_foreign_pq; exact E.
Qed.

Lemma supply_fold_zq h a mk : forall L W W', foldM (supply_step h a mk) L W = Ok W' ->
  zq (protP true) (home W) (home W') /\ zq (protP true) (abroad W) (abroad W').
Proof.
  induction L as [|x L IH]; intros W W' H; simpl in H.
  - injection H as <-. split; apply zq_refl.
  - destruct (supply_step h a mk W x) as [W1|] eqn:E; [|discriminate].
    apply supply_step_zq in E as [E1 E2]. apply IH in H as [H1 H2].
    split; eapply zq_trans; eassumption.
Qed.

Theorem market_generate_zq h a W m res others W' : market_generate h a W m res others = Ok W' ->
  zq (protP true) (home W) (home W') /\ zq (protP true) (abroad W) (abroad W').
Proof.
  intros H. apply mg_unfold in H as (mk0 & r & H1 & mk1 & H0 & fcs & F0 & _ & GD & F1 & U & _ & FM).
  apply generate_demand_zq in GD. apply supply_fold_zq in FM as [FM1 FM2]. cbn [home abroad with_home] in FM1, FM2.
  split; [|exact FM2].
  eapply zq_trans; [exact GD|]. eapply zq_trans; [|exact FM1].
  eapply zq_upd; [exact U|]. intros s s' E. unfold opt_key in E.
  destruct (set_rhs_terms s _ _) as [x|] eqn:E2; [|discriminate]. injection E as <-.
  eapply pq_set_rhs_terms; [|exact E2]. apply protP_sup.
Qed.

(* ------------------------------------------------------------------ *)
(** * Money and deposit markets *)

Lemma sup_after_some is_issuer c : forall others before, before <> None -> sup_after is_issuer c others before <> None.
Proof.
  unfold sup_after. induction others as [|s r IH]; intros before Hb; simpl; [exact Hb|].
  apply IH. destruct (is_issuer s); [discriminate|exact Hb].
Qed.

(** the market's own entry: only DEM_<code> and SUP_<code> change, and both exist afterwards *)
Lemma market_entry_pq d c m m' e :
  same_attrs m m' ->
  lookup_var (Common.dem_name c) (vars m') = Some e ->
  (lookup_var (Common.sup_name c) (vars m) <> None -> lookup_var (Common.sup_name c) (vars m') <> None) ->
  (forall n, n <> Common.dem_name c -> n <> Common.sup_name c -> lookup_var n (vars m') = lookup_var n (vars m)) ->
  pq (protP d) m m'.
Proof.
  intros HA HD HS HO. split.
  - now apply same_attrs_frame.
  - intros n Hn. apply HO; intros ->; unfold Common.dem_name, Common.sup_name in Hn;
      [rewrite protP_dem in Hn|rewrite protP_sup in Hn]; discriminate.
  - intros n Hn. unfold has_var in *.
    destruct (String.eqb_spec n (Common.dem_name c)) as [->|N1]; [now rewrite HD|].
    destruct (String.eqb_spec n (Common.sup_name c)) as [->|N2].
    + destruct (lookup_var (Common.sup_name c) (vars m)) eqn:E; [|discriminate].
      destruct (lookup_var (Common.sup_name c) (vars m')); [reflexivity|]. exfalso. apply HS; [discriminate|reflexivity].
    + now rewrite HO.
Qed.

Lemma money_out_pq c issuer mfull s : pq (protP true) s (money_out c issuer mfull s).
Proof.
  unfold money_out. destruct (negb (hasF s)); [apply pq_refl|].
  destruct (String.eqb (code s) issuer); [apply pq_def_variable; apply protP_sup|].
  destruct (has_var s (Common.dem_name c)); [apply pq_refl|apply pq_def_variable; apply protP_dem].
Qed.

Lemma map_zq P (f : sector -> sector) l : (forall s, pq P s (f s)) -> zq P l (map f l).
Proof. intros H. induction l as [|s l IH]; simpl; constructor; [apply H|exact IH]. Qed.

Theorem money_generate_checked_zq c issuer mk Z Z' : money_generate_checked c issuer mk Z = Ok Z' -> zq (protP true) Z Z'.
Proof.
  intros H. apply money_generate_checked_ok in H as [H _].
  apply money_generate_spec in H as (pre & m & post & m' & R).
  destruct R as [Rz _ _ _ Rz' Rattrs Rdem Rsup Rother].
  subst Z Z'. apply zq_app; [apply map_zq, money_out_pq|].
  constructor; [|apply map_zq, money_out_pq].
  eapply (market_entry_pq true c m m'); [exact Rattrs|exact Rdem| |exact Rother].
  intros Hb. rewrite Rsup. unfold market_sup_after. now apply sup_after_some.
Qed.

Lemma deposit_out_pq c issuer mfull s s' : deposit_out c issuer mfull s = Some s' -> pq (protP true) s s'.
Proof.
  unfold deposit_out. destruct (is_market s); [intros H; injection H as <-; apply pq_refl|].
  destruct (String.eqb (code s) issuer).
  - intros H.
    eapply pq_trans; [apply pq_def_variable; apply protP_sup|].
    eapply pq_trans; [apply pq_add_variable; apply protP_lag|].
    eapply pq_acf_def; [| | |exact H]; [reflexivity|reflexivity|apply protP_int].
  - destruct (has_var s (Common.dem_name c)).
    + intros H. eapply pq_trans; [apply pq_add_variable; apply protP_lag|].
      eapply pq_acf_def; [| | |exact H]; [reflexivity|reflexivity|apply protP_int].
    + intros H; injection H as <-; apply pq_refl.
Qed.

Theorem deposit_generate_checked_zq c issuer mk Z Z' : deposit_generate_checked c issuer mk Z = Ok Z' -> zq (protP true) Z Z'.
Proof.
  intros H. apply deposit_generate_checked_ok in H as [H _].
  apply deposit_generate_spec in H as (pre & m & post & m' & pre' & post' & R).
  destruct R as [Rz _ _ _ Rz' Rpre Rpost Rattrs Rdem Rsup Rother].
  subst Z Z'.
  assert (P : forall l l', Forall2 (fun s s' => deposit_out c issuer (fullcode m) s = Some s') l l' ->
              zq (protP true) l l').
  { intros l l' HF. eapply Forall2_impl; [|exact HF]. intros s s' E. eapply deposit_out_pq; exact E. }
  apply zq_app; [now apply P|]. constructor; [|now apply P].
  eapply (market_entry_pq true c m m'); [exact Rattrs|exact Rdem| |exact Rother].
  intros Hb. rewrite Rsup. now apply sup_after_some.
Qed.

(* ------------------------------------------------------------------ *)
(** * One _GenerateEquations call; one registered cash flow *)

Theorem gen_step_zq I st i k st' : gen_step I st (i, k) = Ok st' -> zq (protP (negb (is_fmb k))) (g_zone st) (g_zone st').
Proof.
  unfold gen_step.
  destruct (find_sec i (g_zone st)) as [self|] eqn:Fs; [|discriminate].
  assert (HH : forall ai af, (do Z' <- upd i (apply_resets [("AlphaIncome", ai); ("AlphaFin", af)]) (g_zone st) ;;
                             Ok (mkG Z' (g_flows st))) = Ok st' -> zq (protP true) (g_zone st) (g_zone st')).
  { intros ai af H. apply same_flows_inv in H. eapply zq_upd; [exact H|].
    intros s s' E. eapply pq_apply_resets; [|exact E]. reflexivity. }
  destruct k as [| |t|ai af good lab|ai af good lab|ai af good|mz wage margin lab out|mz wage lab ms|rate paid|
                 |issuer|issuer]; cbn [is_fmb negb].
  - intros H. injection H as <-. apply zq_refl.
  - intros H. injection H as <-. apply zq_refl.
  - intros H. injection H as <-. apply zq_refl.
  - intros H. eapply HH; exact H.
  - intros H. eapply HH; exact H.
  - intros H. eapply HH; exact H.
  - destruct (find _ _) as [mk|]; [|discriminate].
    destruct (has_var mk _); [|discriminate].
    intros H. apply same_flows_inv in H.
    destruct (firm_generate _ _ _) as [C'|] eqn:FG; [|discriminate]. simpl in H. injection H as H.
    rewrite <- H. apply put_back_rel; [intros s; apply pq_refl|].
    eapply firm_generate_zq; [|exact FG]. cbn [snd]. unfold wage_resets. destruct mz; reflexivity.
  - destruct (upd i _ (g_zone st)) as [Z1|] eqn:U; [|discriminate]. cbn [bind].
    destruct (existsb _ _); [discriminate|]. intros H. injection H as <-. cbn [g_zone].
    eapply zq_upd; [exact U|]. intros s s' E.
    eapply pq_apply_resets; [|exact E]. reflexivity.
  - intros H. apply same_flows_inv in H. eapply tax_generate_zq. exact H.
  - destruct (sup_of i (i_sup I)) as [res others]. intros H. apply same_flows_inv in H.
    destruct (market_generate _ _ _ _ _ _) as [W|] eqn:MG; [|discriminate]. simpl in H. injection H as H.
    rewrite <- H. apply market_generate_zq in MG as [MG _]. exact MG.
  - intros H. apply same_flows_inv in H. eapply money_generate_checked_zq. exact H.
  - intros H. apply same_flows_inv in H. eapply deposit_generate_checked_zq. exact H.
Qed.

Theorem flow_step_zq Z f Z' : flow_step Z f = Ok Z' -> zq (protP true) Z Z'.
Proof.
  destruct f as [[[[src tgt] var] a] b]. unfold flow_step. destruct tgt as [tg|]; [|discriminate].
  destruct (find_sec src Z) as [s0|] eqn:Fs; [|discriminate].
  destruct (find_sec tg Z) as [t0|]; [|discriminate].
  destruct (has_var s0 var); [|discriminate].
  destruct (upd src _ Z) as [Z1|] eqn:U1; [|discriminate]. simpl. intros U2.
  eapply zq_trans.
  - eapply zq_upd; [exact U1|]. intros s s' E. unfold opt_key in E.
    destruct (add_cash_flow s _ None a) as [x|] eqn:E2; [|discriminate]. injection E as <-.
    eapply pq_acf_none; [| |exact E2]; reflexivity.
  - eapply zq_upd; [exact U2|]. intros s s' E. unfold opt_key in E.
    destruct (add_cash_flow s _ None b) as [x|] eqn:E2; [|discriminate]. injection E as <-.
    eapply pq_acf_none; [| |exact E2]; reflexivity.
Qed.

(* ------------------------------------------------------------------ *)
(** * Steps that leave dividends alone *)

Definition is_div_term (t : term) : bool := factors_eqb (snd t) ["DIV"].

Lemma existsb_add_term t l : is_div_term t = false -> existsb is_div_term (add_term t l) = existsb is_div_term l.
Proof.
  intros Ht. induction l as [|[c f] r IH]; simpl.
  - now rewrite Ht.
  - destruct (factors_eqb (snd t) f); simpl; [reflexivity|]. now rewrite IH.
Qed.

Lemma existsb_extend ts : Forall (fun t => is_div_term t = false) ts ->
  forall l, existsb is_div_term (extend ts l) = existsb is_div_term l.
Proof.
  unfold extend. induction 1 as [|t ts Ht _ IH]; intros l; simpl; [reflexivity|].
  rewrite IH. now apply existsb_add_term.
Qed.

(* a step whose booked terms never are the single factor DIV leaves "F holds a DIV term" alone *)
Lemma f_has_div_lstep s s' ts : lstep s s' ts -> Forall (fun t => factors_eqb (snd t) ["DIV"] = false) ts -> f_has_div s' = f_has_div s.
Proof.
  intros [_ HF _] Hts. unfold f_has_div. unfold F_of in HF.
  destruct (lookup_var "F" (vars s)) as [e|]; simpl in HF.
  - rewrite HF. simpl. f_equal. now apply (existsb_extend ts Hts).
  - destruct HF as [-> _]. reflexivity.
Qed.

Lemma factors_eqb_refl f : factors_eqb f f = true.
Proof. induction f as [|x f IH]; simpl; [reflexivity|]. now rewrite String.eqb_refl. Qed.

Lemma terms_eqb_refl l : terms_eqb l l = true.
Proof.
  induction l as [|[c f] l IH]; simpl; [reflexivity|]. unfold term_eqb. simpl.
  now rewrite Z.eqb_refl, factors_eqb_refl.
Qed.

Lemma eqn_eqb_refl e : eqn_eqb e e = true.
Proof. unfold eqn_eqb. now rewrite String.eqb_refl, terms_eqb_refl. Qed.

Lemma oeqn_eqb_refl o : oeqn_eqb o o = true.
Proof. destruct o as [e|]; simpl; [apply eqn_eqb_refl|reflexivity]. Qed.

Lemma of_has_div_eqb_refl o : of_has_div_eqb o o = true.
Proof. destruct o as [[|]|]; reflexivity. Qed.

Theorem div_quiet_of (A : sector -> term -> Prop) Z Z' : zq P_div Z Z' -> zstep A Z Z' ->
  (forall s t, A s t -> factors_eqb (snd t) ["DIV"] = false) -> div_quiet Z Z' = true.
Proof.
  intros HQ HS HA. unfold div_quiet. revert HS.
  induction HQ as [|s s' Z Z' Hq _ IH]; intros HS; inversion HS as [|? ? ? ? (ts & L & F) HS']; subst; simpl; [reflexivity|].
  rewrite (IH HS'), andb_true_r.
  rewrite (pq_keep _ _ _ Hq "DIV" eq_refl), oeqn_eqb_refl. simpl.
  rewrite (f_has_div_lstep _ _ _ L); [apply of_has_div_eqb_refl|].
  eapply Forall_impl; [|exact F]. intros t. apply HA.
Qed.

Lemma market_terms_not_div mk s t : market_terms mk s t -> factors_eqb (snd t) ["DIV"] = false.
Proof.
  intros [->| ->]; cbn [snd factors_eqb]; unfold Market.dem_name, supply_name; destruct (share_parent mk s); reflexivity.
Qed.

Lemma gen_terms_not_div i k Z s t : is_fmb k = false -> gen_terms (i, k) Z s t -> factors_eqb (snd t) ["DIV"] = false.
Proof.
  unfold gen_terms. cbn [snd fst]. destruct k; try contradiction; try discriminate; intros _.
  - intros [->| ->]; reflexivity.
  - intros (mk & _ & M). eapply market_terms_not_div; exact M.
  - intros (mk & _ & [->| ->]); reflexivity.
Qed.

Theorem gen_step_div_quiet I st i k st' : gen_step I st (i, k) = Ok st' -> is_fmb k = false ->
  div_quiet (g_zone st) (g_zone st') = true.
Proof.
  intros H Hk. eapply div_quiet_of.
  - eapply zq_weaken; [|eapply gen_step_zq; exact H]. rewrite Hk. exact protP_div.
  - eapply gen_step_zstep. exact H.
  - intros s t. now apply gen_terms_not_div.
Qed.

Lemma full_not_div a b : String.eqb (a ++ "__" ++ b) "DIV" = false.
Proof.
  destruct (String.eqb_spec (a ++ "__" ++ b) "DIV") as [E|]; [|reflexivity].
  pose proof (has_sub_full a b) as H. rewrite E in H. discriminate H.
Qed.

Lemma flow_terms_not_div f Z s t : flow_terms f Z s t -> factors_eqb (snd t) ["DIV"] = false.
Proof.
  destruct f as [[[[src tgt] var] a] b]. unfold flow_terms, flow_full.
  intros (full & FF & Ht). destruct (find_sec src Z) as [s0|]; [|discriminate]. injection FF as <-.
  destruct Ht as [[_ ->]|[_ ->]]; cbn [snd factors_eqb]; apply andb_false_iff; left; apply full_not_div.
Qed.

Theorem flow_step_div_quiet Z f Z' : flow_step Z f = Ok Z' -> div_quiet Z Z' = true.
Proof.
  intros H. eapply div_quiet_of.
  - eapply zq_weaken; [|eapply flow_step_zq; exact H]. exact protP_div.
  - eapply flow_zstep. exact H.
  - intros s t. apply flow_terms_not_div.
Qed.
