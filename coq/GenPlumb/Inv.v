(** The invariant of the sector list during Model.main() the plumbing proofs rest on: IDs are
    unique, every sector's country is a country of the model, the ExternalSector's sectors are where
    [j_ext] says (country EXT, currency NUMERAIRE, full codes EXT_XR / EXT_FX in a model with a second
    country) and EXT_FX owns NET_<c> for every currency.  It holds after _GenerateFullSectorCodes and is
    preserved by every step that keeps attributes and never deletes a variable. *)
From Coq Require Import List String Ascii Bool ZArith Arith Lia.
From SFC.Base Require Import Res Str.
From SFC.Gen Require Import Fx Zone.
From SFC.GenMarket Require Import Market MarketProofs.
From SFC.GenTax Require Import Tax TaxProofs.
From SFC.GenMain2 Require Import Program Classes Main Ledger MainProofs Names Program2 Main2 Ledger2 MainProofs2 Names2.
From SFC.GenPlumb Require Import FootDefs Constr.
Import ListNotations.
Local Open Scope string_scope.

Definition P_none (n : string) : bool := false.

Lemma zq_none P Z Z' : zq P Z Z' -> zq P_none Z Z'.
Proof. apply zq_weaken. discriminate. Qed.

Definition multi_j (J : ginfo2) : bool := Nat.ltb 1 (List.length (j_countries J)).

Record winv (J : ginfo2) (Z : zone) : Prop := mkW {
  w_nodup : NoDup (map sid Z);
  w_cnodup : NoDup (map fst (j_countries J));
  w_ctry : forall s, List.In s Z -> List.In (country s) (map fst (j_countries J));
  w_ext : forall e, j_ext J = Some e -> ext_ok e (j_countries J) Z;
  w_full : forall e, j_ext J = Some e -> multi_j J = true ->
           exists xr fx, find_sec (e_xr e) Z = Some xr /\ fullcode xr = "EXT_XR" /\
                         find_sec (e_fx e) Z = Some fx /\ fullcode fx = "EXT_FX"
}.

Lemma ext_ok_pq P e cs Z Z' : ext_ok e cs Z -> zq P Z Z' -> ext_ok e cs Z'.
Proof.
  intros (E1 & E2 & E3 & xr & fx & F1 & C1 & D1 & F2 & C2 & D2 & HN) H.
  destruct (F2_find (pq_sid P) _ _ _ H _ F1) as (xr' & F1' & Q1). destruct (F2_find (pq_sid P) _ _ _ H _ F2) as (fx' & F2' & Q2).
  split; [exact E1|]. split; [exact E2|]. split; [exact E3|]. exists xr', fx'.
  rewrite (frame_country _ _ (pq_frame _ _ _ Q1)), (frame_code _ _ (pq_frame _ _ _ Q1)),
          (frame_country _ _ (pq_frame _ _ _ Q2)), (frame_code _ _ (pq_frame _ _ _ Q2)).
  repeat split; auto. intros c Hc. apply (pq_mono _ _ _ Q2). now apply HN.
Qed.

Lemma F2_In_r {A B} (R : A -> B -> Prop) l l' b : Forall2 R l l' -> List.In b l' -> exists a, List.In a l /\ R a b.
Proof.
  intros H. induction H as [|x y l l' Hxy _ IH]; intros Hb; [contradiction|]. destruct Hb as [<-|Hb].
  - exists x. split; [now left|exact Hxy].
  - destruct (IH Hb) as (a & Ha & Ra). exists a. split; [now right|exact Ra].
Qed.

Theorem winv_zq P J Z Z' : winv J Z -> zq P Z Z' -> winv J Z'.
Proof.
  intros [W1 W2 W3 W4 W5] H. pose proof (zq_frame _ _ _ H) as FR. constructor.
  - now rewrite (map_frame sid _ _ frame_sid FR).
  - exact W2.
  - intros s' Hs'. destruct (F2_In_r _ _ _ _ FR Hs') as (s & Hs & Fs). rewrite (frame_country _ _ Fs). now apply W3.
  - intros e He. eapply ext_ok_pq; [now apply W4|exact H].
  - intros e He HM. destruct (W5 e He HM) as (xr & fx & F1 & C1 & F2 & C2).
    destruct (F2_find (pq_sid P) _ _ _ H _ F1) as (xr' & F1' & Q1). destruct (F2_find (pq_sid P) _ _ _ H _ F2) as (fx' & F2' & Q2).
    exists xr', fx'. rewrite (frame_fullcode _ _ (pq_frame _ _ _ Q1)), (frame_fullcode _ _ (pq_frame _ _ _ Q2)). auto.
Qed.

(* ------------------------------------------------------------------ *)
(** * It holds after _GenerateFullSectorCodes *)

Lemma find_sec_unique Z s : NoDup (map sid Z) -> List.In s Z -> find_sec (sid s) Z = Some s.
Proof.
  unfold find_sec. induction Z as [|a r IH]; intros ND Hin; [contradiction|]. cbn [map] in ND. inversion ND as [|? ? Hn ND']; subst.
  cbn [find]. destruct Hin as [->|Hin]; [now rewrite Nat.eqb_refl|].
  destruct (Nat.eqb_spec (sid a) (sid s)) as [E|N]; [|now apply IH].
  exfalso. apply Hn. rewrite E. now apply in_map.
Qed.

Lemma zone02_sids p st : cinv2 p st -> NoDup (map sid (zone02 st)).
Proof.
  intros CI. apply NoDup_map_inj; [eapply zone02_nodup; exact CI|].
  intros x y Hx Hy E. apply zone02_In in Hx as (s & Hs & -> & _). apply zone02_In in Hy as (s' & Hs' & -> & _).
  f_equal. simpl in E. apply (NoDup_map_In_inj sid (k_secs st)); [|exact Hs|exact Hs'|exact E].
  rewrite (d_sids _ _ _ _ CI). apply seq_NoDup.
Qed.

Lemma secs_country p st s : cinv2 p st -> List.In s (k_secs st) -> List.In (country s) (map fst (k_countries st)).
Proof.
  intros CI Hs.
  destruct (decl_of2 (fun d cc => nth_error (map fst (k_countries st)) (fst (fst d)) = Some cc) _ _
              (d_codes _ _ _ _ CI) (d_ctry _ _ _ _ CI) s Hs) as (d & _ & _ & Hn).
  eapply nth_error_In; exact Hn.
Qed.

Lemma zone02_find p st i s : cinv2 p st -> find_sec i (k_secs st) = Some s ->
  find_sec i (zone02 st) = Some (set_fullcode (is_multi2 st) s).
Proof.
  intros CI F. pose proof (find_sec_In _ _ _ F) as Hin. pose proof (find_sec_sid _ _ _ F) as Hs.
  assert (IZ : List.In (set_fullcode (is_multi2 st) s) (zone02 st)).
  { unfold zone02, zone_order. apply in_flat_map. exists (country s). split; [eapply secs_country; eassumption|].
    apply filter_In. split; [now apply in_map|]. unfold in_country. simpl. apply String.eqb_refl. }
  rewrite <- Hs. change (sid s) with (sid (set_fullcode (is_multi2 st) s)).
  apply find_sec_unique; [eapply zone02_sids; exact CI|exact IZ].
Qed.

Theorem winv_zone02 p st : cinv2 p st -> einv st ->
  winv (mkI2 (k_classes st) (k_sup st) (k_countries st) (k_ext st)) (zone02 st).
Proof.
  intros CI [_ EX]. constructor; cbn [j_countries j_ext].
  - eapply zone02_sids; exact CI.
  - exact (d_cnodup _ _ _ _ CI).
  - intros s0 Hs0. apply zone02_In in Hs0 as (s & _ & -> & Hc). exact Hc.
  - intros e He. destruct (EX e He) as (E1 & E2 & E3 & xr & fx & F1 & C1 & D1 & F2 & C2 & D2 & HN).
    split; [exact E1|]. split; [exact E2|]. split; [exact E3|].
    exists (set_fullcode (is_multi2 st) xr), (set_fullcode (is_multi2 st) fx).
    rewrite (zone02_find _ _ _ _ CI F1), (zone02_find _ _ _ _ CI F2). repeat split; auto.
  - intros e He HM. destruct (EX e He) as (E1 & E2 & E3 & xr & fx & F1 & C1 & D1 & F2 & C2 & D2 & HN).
    exists (set_fullcode (is_multi2 st) xr), (set_fullcode (is_multi2 st) fx).
    rewrite (zone02_find _ _ _ _ CI F1), (zone02_find _ _ _ _ CI F2).
    unfold multi_j in HM. cbn [j_countries] in HM. unfold is_multi2. rewrite HM. cbn [set_fullcode fullcode full_code].
    rewrite C1, D1, C2, D2. auto.
Qed.

(** NET_* equations have no terms when main() starts *)
Lemma zone02_nt st : einv st -> Forall nt (zone02 st).
Proof.
  intros [N _]. apply Forall_forall. intros s0 Hs0. apply zone02_In in Hs0 as (s & Hs & -> & _).
  rewrite Forall_forall in N. exact (N s Hs).
Qed.

(* ------------------------------------------------------------------ *)
(** * Facts read off the invariant *)

Lemma currency_of_In cs cc cur : NoDup (map fst cs) -> List.In (cc, cur) cs -> currency_of cs cc = cur.
Proof.
  induction cs as [|[c u] r IH]; intros ND Hin; [contradiction|]. cbn [map fst] in ND. inversion ND as [|? ? Hn ND']; subst.
  cbn [currency_of]. destruct Hin as [E|Hin].
  - injection E as -> ->. now rewrite String.eqb_refl.
  - destruct (String.eqb_spec c cc) as [->|_]; [|now apply IH].
    exfalso. apply Hn. change cc with (fst (cc, cur)). now apply in_map.
Qed.

Lemma currency_of_zone cs cc : List.In cc (map fst cs) -> List.In (currency_of cs cc) (zones_of cs).
Proof.
  intros H. unfold zones_of. apply nodup_In. induction cs as [|[c u] r IH]; [contradiction|]. cbn [currency_of map snd].
  destruct (String.eqb_spec c cc) as [->|N]; [now left|]. right. apply IH. destruct H as [H|H]; [simpl in H; congruence|exact H].
Qed.

Lemma winv_cur_zone J Z s : winv J Z -> List.In s Z -> List.In (cur_of_sec J s) (zones_of (j_countries J)).
Proof. intros W Hs. unfold cur_of_sec. apply currency_of_zone. now apply (w_ctry _ _ W). Qed.

Lemma winv_ext_num J Z e : winv J Z -> j_ext J = Some e -> currency_of (j_countries J) "EXT" = NUM.
Proof.
  intros W He. destruct (w_ext _ _ W e He) as (_ & _ & E3 & _). apply currency_of_In; [apply (w_cnodup _ _ W)|exact E3].
Qed.

Lemma winv_num_zone J Z e : winv J Z -> j_ext J = Some e -> List.In NUM (zones_of (j_countries J)).
Proof.
  intros W He. destruct (w_ext _ _ W e He) as (_ & _ & E3 & _). unfold zones_of. apply nodup_In.
  change NUM with (snd ("EXT", NUM)). now apply in_map.
Qed.

(** a sector whose currency is not the numeraire lives in a model with at least two countries *)
Lemma winv_multi J Z e s : winv J Z -> j_ext J = Some e -> List.In s Z -> cur_of_sec J s <> NUM -> multi_j J = true.
Proof.
  intros W He Hs Hc. pose proof (w_ctry _ _ W s Hs) as Hin. destruct (w_ext _ _ W e He) as (_ & _ & E3 & _).
  assert (H2 : List.In "EXT" (map fst (j_countries J))) by (change "EXT" with (fst ("EXT", NUM)); now apply in_map).
  assert (NE : country s <> "EXT").
  { intros E. apply Hc. unfold cur_of_sec. rewrite E. eapply winv_ext_num; eassumption. }
  unfold multi_j. apply Nat.ltb_lt. rewrite <- (map_length fst).
  destruct (map fst (j_countries J)) as [|a [|b l]]; simpl in *; [contradiction| |lia].
  destruct Hin as [Hin|[]]. destruct H2 as [H2|[]]. congruence.
Qed.
