(** Task 1, multi-currency: [plumbing2] holds for every program, so the C01 / C07 theorems of
    GenMain2/Zones.v need the SEMANTIC conjuncts [sem_ok2] only. *)
From Coq Require Import List String Ascii Bool ZArith Arith Lia Reals.
From SFC.Base Require Import Res Str.
From SFC.Gen Require Import Fx Flows Zone.
From SFC.GenTax Require Import Tax TaxProofs.
From SFC.GenMain2 Require Import Program Classes Main Conflict Balance Program2 Main2 MainProofs2 Conflict2 Balance2 Zones.
From SFC.GenPlumb Require Import Split2 Join2 Foreign GoldFlow Plumb2.
Import ListNotations.
Local Open Scope string_scope.

(** the plumbing conjuncts of [no_conflict2]: every program *)
Theorem plumbing2_holds p : plumbing2 p = true.
Proof. exact (plumbing2_all foreign_plumb_holds gold_plumb_holds flow_plumb_holds p). Qed.

Theorem plumbing2_run_holds p Rn : build_run2 p = Ok Rn -> plumb_free2 Rn = true.
Proof. exact (plumbing2_run foreign_plumb_holds gold_plumb_holds flow_plumb_holds p Rn). Qed.

(** [no_conflict2] IS its semantic half *)
Theorem sem_ok2_no_conflict2 p : sem_ok2 p = true -> no_conflict2 p = true.
Proof. intros H. apply sem_plumb_no_conflict2; [exact H|apply plumbing2_holds]. Qed.

Theorem no_conflict2_is_sem_ok2 p : no_conflict2 p = sem_ok2 p.
Proof.
  destruct (sem_ok2 p) eqn:S.
  - now apply sem_ok2_no_conflict2.
  - destruct (no_conflict2 p) eqn:N; [|reflexivity]. apply no_conflict2_sem in N. congruence.
Qed.

(** C01 per currency zone under the semantic conditions only *)
Theorem main2_stock_flow_consistent_sem p Rn : build_run2 p = Ok Rn -> sem_ok2 p = true ->
  forall (v vprev : string -> R) (bv bvp : string -> string -> R),
    bv_zero bv -> sat (q_final Rn) v vprev bv -> stock_consistent2 Rn vprev bvp ->
    forall c, c <> NUM -> List.In c (zones_of (j_countries (q_info Rn))) ->
      (ledger_sum v (filter (in_zone (j_countries (q_info Rn)) c) (fs_zone (q_final Rn))) + net_value Rn v c = 0)%R.
Proof. intros HR HS. apply (main2_stock_flow_consistent p Rn HR (sem_ok2_no_conflict2 p HS)). Qed.

(** C07 under the semantic conditions only *)
Theorem main2_fx_valued_zero_sem p Rn : build_run2 p = Ok Rn -> sem_ok2 p = true ->
  j_ext (q_info Rn) <> None ->
  forall (v vprev : string -> R) (bv : string -> string -> R), sat (q_final Rn) v vprev bv ->
    let zs := zones_of (j_countries (q_info Rn)) in
    (rates_ok2 zs v -> TaxProofs.sumR (fun c => v (net_key c) * rate v c) zs = 0)%R /\
    (forallb (fun x => negb (is_gold (snd (fst (fst x))))) (q_gen Rn) = true -> List.In NUM zs -> v (net_key NUM) = 0%R).
Proof. intros HR HS. apply (main2_fx_valued_zero p Rn HR (sem_ok2_no_conflict2 p HS)). Qed.

