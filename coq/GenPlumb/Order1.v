(** Order1 — the three STRUCTURAL conjuncts of GenOrder's side condition [Static2.order_ok] hold for
    EVERY program, so the order-invariance theorem of coq/GenOrder needs only the semantic ones.

      1. [plan_ops_ok], [ops_ok_holds]    every operation of every plan satisfies [op_ok_b]: terms are only ever added to
                                          F / INC / SUP_*, and a right-hand side installed under such a name has no duplicate
                                          summands (for ALL static descriptions, zones and calls; a plan that is an error
                                          contributes no operation);
      2. [recv_ok_gen], [recv_ok_holds]   a sector that receives dividends only gets [div_neutral] operations.  Needs nothing
                                          about the zone; of the call list only that an entry (i, FixedMarginBusiness) is a
                                          FixedMarginBusiness in the static description ([firms_listed]) — true of
                                          [gen_list st] for every construction state [st], constructed or not;
      3. [iwf_holds]                      after construction the equations under accumulating names carry no duplicate
                                          summands (construction invariant [all_iwf]; the well-formedness of the
                                          construction state, MainProofs.cinv, is not needed);
      4. [order_sem]                      = [order_ok] without ops_ok / recv_ok / the iwf_b half of initial_ok;
                                          [order_ok_eq_sem]: the two booleans are EQUAL for every program;
      5. [main_order_invariant_sem], [main_order_invariant_rows_sem], [main_order_errors_sem].

    [plans_ok] stays inside [order_sem]: it is semantic (see [plans_ok_is_semantic] at the end: a market with a
    user-made ledger registered as its own supplier builds, the three structural parts hold, [plans_ok] is false). *)
From Coq Require Import List String Ascii Bool ZArith Arith Lia Permutation.
From SFC.Base Require Import Res Str.
From SFC.Gen Require Import Fx Zone.
From SFC.GenMarket Require Import Market MarketProofs.
From SFC.GenTax Require Import Tax Dividends.
From SFC.GenAsset Require Import Common Money Deposit Weighting.
From SFC.GenMain2 Require Import Program Classes Main MainProofs Conflict Witness.
From SFC.GenOrder Require Import Ops Plan Check Perm Static Equiv OpsProofs GenBase KindDefs ConstrInv Static2 SysEquiv Constr Order OrderThm.
Import ListNotations.
Local Open Scope string_scope.

(* ------------------------------------------------------------------ *)
(** * Names *)

Lemma acc_SUP c : acc_name ("SUP_" ++ c) = true.
Proof. unfold acc_name. rewrite prefix_app. apply orb_true_r. Qed.

Lemma acc_DEM c : acc_name ("DEM_" ++ c) = false.
Proof. reflexivity. Qed.

Lemma acc_F : acc_name "F" = true.
Proof. reflexivity. Qed.

Lemma acc_INC : acc_name "INC" = true.
Proof. reflexivity. Qed.

(* ------------------------------------------------------------------ *)
(** * Term lists without duplicate summands *)

Lemma wf_nodup_factors l : wf_terms l -> nodup_factors l = true.
Proof.
  unfold wf_terms. induction l as [|t r IH]; cbn [nodup_factors map]; intros H; [reflexivity|].
  inversion H as [|? ? Hn Hr]; subst. rewrite (IH Hr), andb_true_r. apply negb_true_iff.
  destruct (existsb (fun u => factors_eqb (snd t) (snd u)) r) eqn:E; [|reflexivity].
  apply existsb_exists in E as (u & Hu & Eu). apply factors_eqb_eq in Eu. exfalso. apply Hn. rewrite Eu. now apply in_map.
Qed.

Lemma nodup_add_term t l : nodup_factors l = true -> nodup_factors (add_term t l) = true.
Proof. intros H. apply wf_nodup_factors, wf_add_term, nodup_factors_wf, H. Qed.

Lemma wf_fold_add {A} (g : A -> term) l : forall acc, wf_terms acc -> wf_terms (fold_left (fun a x => add_term (g x) a) l acc).
Proof. induction l as [|x l IH]; intros acc H; cbn [fold_left]; [exact H|]. apply IH. now apply wf_add_term. Qed.

Lemma nodup_residual mk fcs : nodup_factors (residual_terms mk fcs) = true.
Proof.
  apply wf_nodup_factors. unfold residual_terms. apply (wf_fold_add (fun fc => ((-1)%Z, ["SUP_" ++ fc]))).
  apply nodup_factors_wf. reflexivity.
Qed.

(* ------------------------------------------------------------------ *)
(** * 1. every operation of every plan is well-formed *)

Lemma ok_blob k n t : op_ok_b (match k with 0 => PSet n (blob_eqn t) | 1 => PSetP n (blob_eqn t) | 2 => PDefFresh n (blob_eqn t) | _ => PEnsure n (blob_eqn t) end) = true.
Proof. destruct k as [|[|[|k]]]; cbn [op_ok_b blob_eqn terms]; destruct (acc_name n); reflexivity. Qed.

Lemma ok_PSet_nil n b : op_ok_b (PSet n (mkEqn b [])) = true.
Proof. cbn. destruct (acc_name n); reflexivity. Qed.
Lemma ok_PSetP_nil n b : op_ok_b (PSetP n (mkEqn b [])) = true.
Proof. cbn. destruct (acc_name n); reflexivity. Qed.
Lemma ok_PDef_nil n b : op_ok_b (PDefFresh n (mkEqn b [])) = true.
Proof. cbn. destruct (acc_name n); reflexivity. Qed.
Lemma ok_PEns_nil n b : op_ok_b (PEnsure n (mkEqn b [])) = true.
Proof. cbn. destruct (acc_name n); reflexivity. Qed.
Lemma ok_PSet_one n b t : op_ok_b (PSet n (mkEqn b [t])) = true.
Proof. cbn. destruct (acc_name n); reflexivity. Qed.
Lemma ok_PSetP_one n b t : op_ok_b (PSetP n (mkEqn b [t])) = true.
Proof. cbn. destruct (acc_name n); reflexivity. Qed.
Lemma ok_PDef_one n b t : op_ok_b (PDefFresh n (mkEqn b [t])) = true.
Proof. cbn. destruct (acc_name n); reflexivity. Qed.

Lemma resets_ok rs : forallb op_ok_b (map (fun kt : string * string => PSetP (fst kt) (blob_eqn (snd kt))) rs) = true.
Proof. induction rs as [|kt rs IH]; [reflexivity|]. cbn [map forallb]. unfold blob_eqn at 1. now rewrite ok_PSetP_nil, IH. Qed.

Lemma own_lops_ok i rs s : forallb op_ok_b (own_lops i rs s) = true.
Proof. unfold own_lops. destruct (Nat.eqb (sid s) i); [apply resets_ok|reflexivity]. Qed.

Lemma cash_ok s t inc : forallb op_ok_b (cash s t inc) = true.
Proof. unfold cash. destruct (inc && negb (mem _ (excl s))); reflexivity. Qed.

Lemma acc_supply_name mk s : acc_name (supply_name mk s) = true.
Proof. unfold supply_name, sup_short. destruct (share_parent mk s); apply acc_SUP. Qed.

Lemma supply_ops_ok mk s sup : forallb op_ok_b (supply_ops mk s sup) = true.
Proof.
  unfold supply_ops. rewrite forallb_app, cash_ok, andb_true_r. cbn [forallb]. unfold terms_eqn. rewrite ok_PEns_nil.
  cbn [op_ok_b]. now rewrite acc_supply_name.
Qed.

Definition eqns_ok (sups : list (nat * sector * eqn)) : Prop := Forall (fun x => nodup_factors (terms (snd x)) = true) sups.

Lemma market_lops_ok mk fulls sups s : eqns_ok sups -> forallb op_ok_b (market_lops mk fulls sups s) = true.
Proof.
  intros Q. unfold market_lops. destruct (Nat.eqb (sid s) (sid mk)).
  - rewrite forallb_app. apply andb_true_iff. split.
    + cbn [forallb]. unfold terms_eqn. rewrite ok_PSet_nil, ok_PSetP_one. cbn [op_ok_b]. unfold dem_short. now rewrite acc_DEM.
    + induction Q as [|x r Hx _ IH]; [reflexivity|]. cbn [map forallb]. rewrite IH, andb_true_r.
      cbn [op_ok_b]. destruct (acc_name _); [exact Hx|reflexivity].
  - rewrite forallb_app. apply andb_true_iff. split.
    + destruct (has_var s _); [|reflexivity]. rewrite forallb_app, cash_ok. cbn [forallb]. unfold terms_eqn. now rewrite ok_PDef_nil.
    + clear Q. induction sups as [|x r IH]; [reflexivity|]. cbn [flat_map]. rewrite forallb_app, IH, andb_true_r.
      destruct (Nat.eqb _ _); [apply supply_ops_ok|reflexivity].
Qed.

Lemma resolve_sups_snd Z : forall l r, resolve_sups Z l = Ok r -> map snd r = map snd l.
Proof.
  induction l as [|[i e] l IH]; intros r H; cbn [resolve_sups] in H; [injection H as <-; reflexivity|].
  destruct (find_sec i Z) as [s|]; [|discriminate]. destruct (resolve_sups Z l) as [r'|]; [|discriminate]. cbn [bind] in H.
  injection H as <-. cbn [map snd]. now rewrite (IH r' eq_refl).
Qed.

Lemma eqns_ok_of Z l r : resolve_sups Z l = Ok r -> Forall (fun e => nodup_factors (terms e) = true) (map snd l) -> eqns_ok r.
Proof.
  intros H F. apply resolve_sups_snd in H. rewrite <- H in F. unfold eqns_ok. clear H.
  induction r as [|x r IH]; [constructor|]. cbn [map] in F. inversion F; subst. constructor; [assumption|now apply IH].
Qed.

Lemma market_plan_ok I Z i g : market_plan I Z i = Ok g -> forall s, forallb op_ok_b (g s) = true.
Proof.
  unfold market_plan. destruct (find_sec i Z) as [mk|]; [|discriminate]. destruct (sup_of i (i_sup I)) as [res others].
  destruct (the_residual Z mk res) as [r|]; [|discriminate]. cbn [bind].
  destruct (resolve_sups Z (map _ others)) as [osecs|] eqn:E1; [|discriminate]. cbn [bind].
  destruct (resolve_sups Z [_]) as [rsec|] eqn:E2; [|discriminate]. cbn [bind].
  destruct (existsb _ _); [discriminate|]. intros H s. injection H as <-. apply market_lops_ok.
  apply Forall_app. split.
  - eapply eqns_ok_of; [exact E1|]. rewrite map_map. cbn [snd]. clear. induction others; constructor; [reflexivity|assumption].
  - eapply eqns_ok_of; [exact E2|]. cbn [map snd]. constructor; [|constructor]. cbn [terms_eqn terms]. apply nodup_residual.
Qed.

Lemma tax_lops_ok me rt pt rm tf ts s : forallb op_ok_b (tax_lops me rt pt rm tf ts s) = true.
Proof.
  unfold tax_lops. rewrite !forallb_app.
  assert (A : forallb op_ok_b (if is_payer me s then ([PRequire "INC"] ++ cash s ((-1)%Z, ["T"]) false ++ [PDefFresh "T" (terms_eqn [tax_term rm s])])%list else []) = true).
  { destruct (is_payer me s); [|reflexivity]. rewrite !forallb_app, cash_ok. reflexivity. }
  assert (B : forallb op_ok_b (if sid_is me s then [PSetP "TaxRate" (blob_eqn rt); PSetP "T" (terms_eqn ts)] else []) = true).
  { destruct (sid_is me s); reflexivity. }
  assert (C : forallb op_ok_b (if code_is pt s then ([PSetP "T" (terms_eqn [(1%Z, [tf])])] ++ cash s (1%Z, ["T"]) true ++ [PDefFresh "T" (blob_eqn tf)])%list else []) = true).
  { destruct (code_is pt s); [|reflexivity]. rewrite !forallb_app, cash_ok. reflexivity. }
  now rewrite A, B, C.
Qed.

Lemma firm_lops_ok i rs cand pf cc s : forallb op_ok_b (firm_lops i rs cand pf cc s) = true.
Proof.
  unfold firm_lops. destruct (in_country cc s); [|reflexivity]. rewrite forallb_app. apply andb_true_iff. split.
  - destruct (Nat.eqb (sid s) i); [|reflexivity]. rewrite forallb_app, resets_ok. destruct cand; [|reflexivity].
    rewrite !forallb_app, cash_ok. reflexivity.
  - destruct cand as [r|]; [|reflexivity]. destruct (Nat.eqb (sid s) r); reflexivity.
Qed.

Lemma map_sup_ok (c : string) (g : sector -> term) l :
  forallb op_ok_b (map (fun x => PSet (Common.sup_name c) (terms_eqn [g x])) l) = true.
Proof. induction l as [|x l IH]; [reflexivity|]. cbn [map forallb]. unfold terms_eqn at 1. now rewrite ok_PSet_one, IH. Qed.

Lemma money_lops_ok c issuer mk others s : forallb op_ok_b (money_lops c issuer mk others s) = true.
Proof.
  unfold money_lops. destruct (Nat.eqb (sid s) (sid mk)).
  - rewrite forallb_app. rewrite (map_sup_ok c (fun x => name1 (fullname x (Common.sup_name c)))), andb_true_r.
    cbn [forallb op_ok_b]. unfold Common.dem_name. now rewrite acc_DEM.
  - destruct (negb (hasF s)); [reflexivity|]. destruct (String.eqb (code s) issuer).
    + cbn [forallb]. unfold terms_eqn. now rewrite ok_PSet_one.
    + destruct (has_var s _); [reflexivity|]. cbn [forallb]. unfold terms_eqn. rewrite ok_PSet_one. reflexivity.
Qed.

Lemma deposit_lops_ok c issuer mk others s : forallb op_ok_b (deposit_lops c issuer mk others s) = true.
Proof.
  unfold deposit_lops. cbv zeta. destruct (Nat.eqb (sid s) (sid mk)).
  - rewrite !forallb_app. rewrite (map_sup_ok c (fun x => name1 (fullname x (Common.sup_name c)))).
    cbn [forallb op_ok_b]. unfold Common.dem_name. now rewrite acc_DEM.
  - destruct (is_market s); [reflexivity|]. destruct (String.eqb (code s) issuer).
    + cbn [app]. cbn [forallb]. unfold terms_eqn at 1. rewrite ok_PSet_one. unfold blob_eqn. rewrite ok_PSet_nil.
      rewrite forallb_app, cash_ok. cbn [forallb]. unfold terms_eqn, int_def. now rewrite ok_PDef_one.
    + destruct (has_var s _); [|reflexivity]. cbn [app]. cbn [forallb]. unfold blob_eqn. rewrite ok_PSet_nil.
      rewrite forallb_app, cash_ok. cbn [forallb]. unfold terms_eqn, int_def. now rewrite ok_PDef_one.
Qed.

Theorem plan_ops_ok I Z k g : plan I Z k = Ok g -> forall s, forallb op_ok_b (g s) = true.
Proof.
  destruct k as [i k]. unfold plan. destruct (find_sec i Z) as [self|]; [|discriminate].
  destruct k as [| |t|ai af good lab|ai af good lab|ai af good|mz wage margin lab out|mz wage lab ms|rate paid| |issuer|issuer].
  1-3: intros H s; injection H as <-; reflexivity.
  1-3: intros H s; injection H as <-; apply own_lops_ok.
  - unfold firm_plan. destruct (find _ _) as [mk|]; [|discriminate]. destruct (has_var mk _); [|discriminate].
    intros H s. injection H as <-. apply firm_lops_ok.
  - destruct (existsb _ _); [discriminate|]. intros H s. injection H as <-. apply own_lops_ok.
  - unfold tax_plan. destruct (find _ _) as [sf|]; [|discriminate]. destruct (Nat.eqb _ 1); [|discriminate].
    intros H s. injection H as <-. apply tax_lops_ok.
  - apply market_plan_ok.
  - unfold money_plan. destruct (hasF self); [discriminate|]. destruct (Nat.eqb _ 1); [|discriminate].
    intros H s. injection H as <-. apply money_lops_ok.
  - unfold deposit_plan. destruct (negb _); [discriminate|]. destruct (Nat.eqb _ 1); [|discriminate].
    intros H s. injection H as <-. apply deposit_lops_ok.
Qed.

Lemma plan_of_ops_ok I Z k s : forallb op_ok_b (plan_of I Z k s) = true.
Proof. unfold plan_of. destruct (plan I Z k) as [g|] eqn:E; [now apply (plan_ops_ok I Z k g)|reflexivity]. Qed.

Theorem ops_ok_holds I Z L : ops_ok I Z L = true.
Proof.
  unfold ops_ok. apply forallb_forall. intros s _. unfold all_ops.
  induction L as [|k L IH]; [reflexivity|]. cbn [flat_map]. now rewrite forallb_app, plan_of_ops_ok, IH.
Qed.
(* ------------------------------------------------------------------ *)
(** * 2. dividend receivers only get neutral operations *)

(** neutral for the dividend bookkeeping, and not a dividend receipt *)
Definition bn (o : pop) : bool := div_neutral o && negb (is_recv o).

Lemma bn_neutral l : forallb bn l = true -> forallb div_neutral l = true.
Proof. induction l as [|o l IH]; [reflexivity|]. cbn [forallb]. unfold bn at 1. intros H. apply andb_true_iff in H as [H1 H2]. apply andb_true_iff in H1 as [H1 _]. now rewrite H1, IH. Qed.

Lemma bn_no_recv l : forallb bn l = true -> existsb is_recv l = false.
Proof.
  induction l as [|o l IH]; [reflexivity|]. cbn [forallb existsb]. unfold bn at 1. intros H. apply andb_true_iff in H as [H1 H2].
  apply andb_true_iff in H1 as [_ H1]. apply negb_true_iff in H1. now rewrite H1, IH.
Qed.

Lemma cash_bn s t inc : is_div_term t = false -> forallb bn (cash s t inc) = true.
Proof.
  intros H. unfold cash. assert (A : bn (PAdd "F" t) = true) by (unfold bn; cbn; now rewrite H).
  destruct (inc && negb (mem _ (excl s))); cbn [forallb]; rewrite A; reflexivity.
Qed.

Lemma own_lops2_bn i a b s : forallb bn (own_lops i [("AlphaIncome", a); ("AlphaFin", b)] s) = true.
Proof. unfold own_lops. destruct (Nat.eqb (sid s) i); reflexivity. Qed.

Lemma own_lops1_bn i lab b s : forallb bn (own_lops i [("DEM_" ++ lab, b)] s) = true.
Proof. unfold own_lops. destruct (Nat.eqb (sid s) i); reflexivity. Qed.

Lemma supply_ops_bn mk s sup : forallb bn (supply_ops mk s sup) = true.
Proof.
  unfold supply_ops, supply_name, sup_short. destruct (share_parent mk s); rewrite forallb_app, cash_bn by reflexivity; reflexivity.
Qed.

Lemma market_lops_bn mk fulls sups s : forallb bn (market_lops mk fulls sups s) = true.
Proof.
  unfold market_lops. destruct (Nat.eqb (sid s) (sid mk)).
  - rewrite forallb_app. apply andb_true_iff. split; [reflexivity|].
    induction sups as [|x r IH]; [reflexivity|]. cbn [map forallb]. now rewrite IH.
  - rewrite forallb_app. apply andb_true_iff. split.
    + unfold Market.dem_name, dem_short, dem_long. destruct (share_parent mk s); (destruct (has_var s _); [|reflexivity]);
        rewrite forallb_app, cash_bn by reflexivity; reflexivity.
    + induction sups as [|x r IH]; [reflexivity|]. cbn [flat_map]. rewrite forallb_app, IH, andb_true_r.
      destruct (Nat.eqb _ _); [apply supply_ops_bn|reflexivity].
Qed.

Lemma tax_lops_bn me rt pt rm tf ts s : forallb bn (tax_lops me rt pt rm tf ts s) = true.
Proof.
  unfold tax_lops. rewrite !forallb_app.
  destruct (is_payer me s), (sid_is me s), (code_is pt s); rewrite ?forallb_app, ?cash_bn by reflexivity; reflexivity.
Qed.

Lemma map_sup_bn (c : string) (g : sector -> term) l :
  forallb bn (map (fun x => PSet (Common.sup_name c) (terms_eqn [g x])) l) = true.
Proof. induction l as [|x l IH]; [reflexivity|]. cbn [map forallb]. now rewrite IH. Qed.

Lemma money_lops_bn c issuer mk others s : forallb bn (money_lops c issuer mk others s) = true.
Proof.
  unfold money_lops. destruct (Nat.eqb (sid s) (sid mk)).
  - rewrite forallb_app. now rewrite (map_sup_bn c (fun x => name1 (fullname x (Common.sup_name c)))).
  - destruct (negb (hasF s)); [reflexivity|]. destruct (String.eqb (code s) issuer); [reflexivity|].
    destruct (has_var s _); reflexivity.
Qed.

Lemma deposit_lops_bn c issuer mk others s : forallb bn (deposit_lops c issuer mk others s) = true.
Proof.
  unfold deposit_lops. cbv zeta. destruct (Nat.eqb (sid s) (sid mk)).
  - rewrite !forallb_app. now rewrite (map_sup_bn c (fun x => name1 (fullname x (Common.sup_name c)))).
  - destruct (is_market s); [reflexivity|]. destruct (String.eqb (code s) issuer).
    + cbn [app forallb]. rewrite forallb_app, cash_bn by reflexivity. reflexivity.
    + destruct (has_var s _); [|reflexivity]. cbn [app forallb]. rewrite forallb_app, cash_bn by reflexivity. reflexivity.
Qed.

(** every class except FixedMarginBusiness *)
Lemma plan_nonfirm_bn I Z i k g : is_fmb k = false -> plan I Z (i, k) = Ok g -> forall s, forallb bn (g s) = true.
Proof.
  unfold plan. destruct (find_sec i Z) as [self|]; [|discriminate].
  destruct k as [| |t|ai af good lab|ai af good lab|ai af good|mz wage margin lab out|mz wage lab ms|rate paid| |issuer|issuer];
    intros NF; try discriminate NF.
  1-3: intros H s; injection H as <-; reflexivity.
  1-3: intros H s; injection H as <-; apply own_lops2_bn.
  - destruct (existsb _ _); [discriminate|]. intros H s. injection H as <-. apply own_lops1_bn.
  - unfold tax_plan. destruct (find _ _) as [sf|]; [|discriminate]. destruct (Nat.eqb _ 1); [|discriminate].
    intros H s. injection H as <-. apply tax_lops_bn.
  - unfold market_plan. destruct (find_sec i Z) as [mk|]; [|discriminate]. destruct (sup_of i (i_sup I)) as [res others].
    destruct (the_residual Z mk res) as [r|]; [|discriminate]. cbn [bind].
    destruct (resolve_sups Z (map _ others)) as [osecs|]; [|discriminate]. cbn [bind].
    destruct (resolve_sups Z [_]) as [rsec|]; [|discriminate]. cbn [bind].
    destruct (existsb _ _); [discriminate|]. intros H s. injection H as <-. apply market_lops_bn.
  - unfold money_plan. destruct (hasF self); [discriminate|]. destruct (Nat.eqb _ 1); [|discriminate].
    intros H s. injection H as <-. apply money_lops_bn.
  - unfold deposit_plan. destruct (negb _); [discriminate|]. destruct (Nat.eqb _ 1); [|discriminate].
    intros H s. injection H as <-. apply deposit_lops_bn.
Qed.

(** FixedMarginBusiness: the payer's operations sit on the firm itself; the receiver is not a
    FixedMarginBusiness of the static description *)
Lemma firm_lops_neutral i rs cand pf cc s : sid s <> i -> forallb div_neutral (firm_lops i rs cand pf cc s) = true.
Proof.
  intros N. unfold firm_lops. destruct (in_country cc s); [|reflexivity]. apply Nat.eqb_neq in N. rewrite N. cbn [app].
  destruct cand as [r|]; [|reflexivity]. destruct (Nat.eqb (sid s) r); reflexivity.
Qed.

Lemma firm_lops_recv i rs cand pf cc s : existsb is_recv (firm_lops i rs cand pf cc s) = true -> cand = Some (sid s).
Proof.
  unfold firm_lops. destruct (in_country cc s); [|discriminate]. rewrite existsb_app.
  assert (A : existsb is_recv (if Nat.eqb (sid s) i then
     (map (fun kt : string * string => PSetP (fst kt) (blob_eqn (snd kt))) rs ++
      match cand with Some _ => [PRequire "PROF"] ++ cash s ((-1)%Z, ["DIV"]) false ++ [PDefFresh "DIV" (terms_eqn [(1%Z, ["PROF"])])] | None => [] end)%list
     else []) = false).
  { destruct (Nat.eqb (sid s) i); [|reflexivity]. rewrite existsb_app.
    assert (B : existsb is_recv (map (fun kt : string * string => PSetP (fst kt) (blob_eqn (snd kt))) rs) = false)
      by (clear; induction rs as [|kt rs IH]; [reflexivity|exact IH]).
    rewrite B. destruct cand; reflexivity. }
  rewrite A. cbn [orb]. destruct cand as [r|]; [|discriminate]. destruct (Nat.eqb_spec (sid s) r) as [->|]; [reflexivity|discriminate].
Qed.

Lemma candidate_not_fmb I C i x : List.In x C -> candidate (biz_ids I C) i x = true -> is_fmb (class_of (i_classes I) (sid x)) = false.
Proof.
  intros Hx H. unfold candidate, is_biz in H. apply andb_true_iff in H as [H _]. apply negb_true_iff in H.
  apply orb_false_iff in H as [_ H]. destruct (is_fmb (class_of (i_classes I) (sid x))) eqn:E; [|reflexivity].
  assert (X : existsb (Nat.eqb (sid x)) (biz_ids I C) = true).
  { apply existsb_exists. exists (sid x). split; [|apply Nat.eqb_refl]. unfold biz_ids. apply in_map. apply filter_In. now split. }
  congruence.
Qed.

Lemma firm_plan_facts I Z i mz wage margin lab out g : plan I Z (i, CBusiness mz wage margin lab out) = Ok g ->
  forall s, (sid s <> i -> forallb div_neutral (g s) = true) /\
            (existsb is_recv (g s) = true -> is_fmb (class_of (i_classes I) (sid s)) = false).
Proof.
  unfold plan. destruct (find_sec i Z) as [self|]; [|discriminate]. unfold firm_plan.
  destruct (find _ _) as [mk|]; [|discriminate]. destruct (has_var mk _); [|discriminate].
  intros H s. injection H as <-. split; [apply firm_lops_neutral|].
  intros R. apply firm_lops_recv in R.
  destruct (find (candidate _ i) _) as [x|] eqn:F; [|discriminate]. cbn [option_map] in R. injection R as R.
  apply find_some in F as [F1 F2]. rewrite <- R. eapply candidate_not_fmb; eassumption.
Qed.

(** the call list is consistent with the classes of the static description (only the
    FixedMarginBusiness entries matter) *)
Definition firms_listed (I : ginfo) (L : list (nat * cls)) : Prop :=
  forall i k, List.In (i, k) L -> is_fmb k = true -> is_fmb (class_of (i_classes I) i) = true.

Theorem recv_ok_gen I Z L : firms_listed I L -> recv_ok I Z L = true.
Proof.
  intros HL. unfold recv_ok. apply forallb_forall. intros s _. destruct (recv_flag I Z L s) eqn:R; [|reflexivity].
  (* the receiver is not a FixedMarginBusiness *)
  assert (NF : is_fmb (class_of (i_classes I) (sid s)) = false).
  { unfold recv_flag, all_ops in R. apply existsb_exists in R as (o & Ho & Ro). apply in_flat_map in Ho as ([i k] & Hk & Ho).
    unfold plan_of in Ho. destruct (plan I Z (i, k)) as [g|] eqn:P; [|contradiction].
    assert (Rg : existsb is_recv (g s) = true) by (apply existsb_exists; now exists o).
    destruct (is_fmb k) eqn:Fk.
    - destruct k; try discriminate Fk. exact (proj2 (firm_plan_facts _ _ _ _ _ _ _ _ _ P s) Rg).
    - rewrite (bn_no_recv _ (plan_nonfirm_bn _ _ _ _ _ Fk P s)) in Rg. discriminate. }
  unfold all_ops. clear R. induction L as [|[i k] L IH]; [reflexivity|]. cbn [flat_map]. rewrite forallb_app.
  rewrite IH by (intros i0 k0 H; apply HL; now right). rewrite andb_true_r.
  unfold plan_of. destruct (plan I Z (i, k)) as [g|] eqn:P; [|reflexivity].
  destruct (is_fmb k) eqn:Fk.
  - assert (Fi : is_fmb (class_of (i_classes I) i) = true) by (apply (HL i k); [now left|exact Fk]).
    destruct k; try discriminate Fk. apply (proj1 (firm_plan_facts _ _ _ _ _ _ _ _ _ P s)). intros E. congruence.
  - apply bn_neutral. eapply plan_nonfirm_bn; eassumption.
Qed.

Lemma gen_list_firms st : firms_listed (mkI (c_classes st) (c_sup st)) (gen_list st).
Proof.
  intros i k H F. unfold gen_list in H. apply in_map_iff in H as (s & E & _). injection E as <- <-. exact F.
Qed.

(** for EVERY construction state (the program need not even construct) *)
Theorem recv_ok_state st : recv_ok (mkI (c_classes st) (c_sup st)) (zone0 st) (gen_list st) = true.
Proof. apply recv_ok_gen, gen_list_firms. Qed.

Theorem recv_ok_holds p st : construct_all p = Ok st ->
  recv_ok (mkI (c_classes st) (c_sup st)) (zone0 st) (gen_list st) = true.
Proof. intros _. apply recv_ok_state. Qed.
(* ------------------------------------------------------------------ *)
(** * 3. accumulating equations after construction *)

Definition iwfl (vs : list (string * eqn)) : bool :=
  forallb (fun ne : string * eqn => if acc_name (fst ne) then nodup_factors (terms (snd ne)) else true) vs.

Lemma iwf_b_vars s : iwf_b s = iwfl (vars s).
Proof. reflexivity. Qed.

Lemma iwfl_set_var n e vs : iwfl vs = true -> (acc_name n = true -> nodup_factors (terms e) = true) -> iwfl (set_var n e vs) = true.
Proof.
  intros H He. assert (X : (if acc_name n then nodup_factors (terms e) else true) = true) by (destruct (acc_name n); auto).
  induction vs as [|[k e0] r IH]; cbn [set_var].
  - cbn. now rewrite X.
  - cbn [iwfl forallb fst snd] in H. apply andb_true_iff in H as [H1 H2]. destruct (String.eqb_spec n k) as [->|N].
    + cbn [iwfl forallb fst snd]. rewrite X. exact H2.
    + cbn [iwfl forallb fst snd]. rewrite H1. now apply IH.
Qed.

Lemma iwfl_lookup n e vs : iwfl vs = true -> lookup_var n vs = Some e -> acc_name n = true -> nodup_factors (terms e) = true.
Proof.
  induction vs as [|[k e0] r IH]; cbn [lookup_var]; [discriminate|]. intros H L A.
  cbn [iwfl forallb fst snd] in H. apply andb_true_iff in H as [H1 H2]. destruct (String.eqb_spec n k) as [->|N].
  - injection L as <-. now rewrite A in H1.
  - now apply IH.
Qed.

(** the step relation: well-formedness is preserved *)
Definition wq (s s' : sector) : Prop := iwf_b s = true -> iwf_b s' = true.

Lemma wq_refl s : wq s s.
Proof. intros H; exact H. Qed.

Lemma wq_trans a b c : wq a b -> wq b c -> wq a c.
Proof. unfold wq. auto. Qed.

Lemma wq_set_var s n e : (acc_name n = true -> nodup_factors (terms e) = true) -> wq s (with_vars s (set_var n e (vars s))).
Proof. intros He H. rewrite iwf_b_vars in *. cbn [vars with_vars]. now apply iwfl_set_var. Qed.

Lemma wq_add_variable s n b : wq s (add_variable s n b).
Proof. apply wq_set_var. reflexivity. Qed.

Lemma wq_addv s n t s' : addv s n t = Ok s' -> wq s s'.
Proof. unfold addv. destruct (has_substring "__" n); [discriminate|]. intros H. injection H as <-. apply wq_add_variable. Qed.

Lemma wq_addvs : forall l s s', addvs s l = Ok s' -> wq s s'.
Proof.
  induction l as [|[n t] l IH]; intros s s' H; simpl in H; [injection H as <-; apply wq_refl|].
  destruct (addv s n t) as [s1|] eqn:E; [|discriminate]. simpl in H.
  eapply wq_trans; [eapply wq_addv; exact E|now apply IH].
Qed.

Lemma wq_set_rhs s n b s' : set_rhs s n b = Some s' -> wq s s'.
Proof.
  unfold set_rhs. destruct (lookup_var n (vars s)); [|discriminate]. intros H. injection H as <-. apply wq_set_var. reflexivity.
Qed.

(** Equation.AddTerm never creates a duplicate summand *)
Lemma wq_add_term_to_eq s n t s' : add_term_to_eq s n t = Some s' -> wq s s'.
Proof.
  unfold add_term_to_eq. destruct (lookup_var n (vars s)) as [e|] eqn:L; [|discriminate]. intros H. injection H as <-.
  intros W. apply wq_set_var; [|exact W]. cbn [terms]. intros A. apply nodup_add_term.
  rewrite iwf_b_vars in W. eapply iwfl_lookup; eassumption.
Qed.

Lemma wq_def_variable s n ts : acc_name n = false -> wq s (def_variable s n ts).
Proof. intros H. apply wq_set_var. congruence. Qed.

Lemma wq_add_market s m s' : add_market s m = Ok s' -> wq s s'.
Proof.
  unfold add_market. set (t := if String.eqb (snd m) (country s) then "SUP_" ++ fst m else "SUP_" ++ snd m ++ "_" ++ fst m).
  intros H. destruct (addv s t "") as [s1|] eqn:E1; [|discriminate]. cbn [bind] in H.
  destruct (add_term_to_eq s1 "SUP" (1%Z, [t])) as [s2|] eqn:E2; [|discriminate]. injection H as <-.
  eapply wq_trans; [eapply wq_addv; exact E1|eapply wq_add_term_to_eq; exact E2].
Qed.

Lemma wq_add_markets : forall l s s', add_markets s l = Ok s' -> wq s s'.
Proof.
  induction l as [|m l IH]; intros s s' H; simpl in H; [injection H as <-; apply wq_refl|].
  destruct (add_market s m) as [s1|] eqn:E; [|discriminate]. cbn [bind] in H.
  eapply wq_trans; [eapply wq_add_market; exact E|now apply IH].
Qed.

Lemma acc_WGT c : acc_name (wgt_name c) = false.
Proof. reflexivity. Qed.

Lemma acc_CDEM c : acc_name (Common.dem_name c) = false.
Proof. reflexivity. Qed.

Lemma wq_weighting_loop : forall d s resid s' r', weighting_loop s d resid = Ok (s', r') -> wq s s'.
Proof.
  induction d as [|[c w] d IH]; intros s resid s' r' H; cbn [weighting_loop] in H; [injection H as <- _; apply wq_refl|].
  destruct (has_substring "__" (wgt_name c)); [discriminate|]. destruct (has_substring "__" (Common.dem_name c)); [discriminate|].
  apply IH in H. eapply wq_trans; [|exact H].
  eapply wq_trans; [apply wq_add_variable|apply wq_def_variable; apply acc_CDEM].
Qed.

Lemma wq_asset_weighting s ws res s' : asset_weighting s ws res false = Ok s' -> wq s s'.
Proof.
  unfold asset_weighting.
  destruct (weighting_loop s (dict_of_pairs ws) [(1%Z, [])]) as [[s1 resid]|] eqn:E; [|discriminate]. cbn [bind].
  destruct (has_substring "__" (wgt_name res)); [discriminate|].
  destruct (has_substring "__" (Common.dem_name res)); [discriminate|].
  intros H. injection H as <-.
  eapply wq_trans; [eapply wq_weighting_loop; exact E|].
  eapply wq_trans; apply wq_def_variable; [apply acc_WGT|apply acc_CDEM].
Qed.

Lemma iwf_base i c cc f t m ex : iwf_b (base_sector i c cc f t m ex) = true.
Proof. destruct f; reflexivity. Qed.

Lemma construct_iwf i cc c k mrefs s : construct i cc c k mrefs = Ok s -> iwf_b s = true.
Proof.
  assert (BH : forall ai af good s0, base_household i c cc ai af good = Ok s0 -> iwf_b s0 = true).
  { intros ai af good s0 H. unfold base_household in H. apply wq_addvs in H. apply H. apply iwf_base. }
  assert (BM : forall s0, base_market i c cc = Ok s0 -> iwf_b s0 = true).
  { intros s0 H. unfold base_market in H. apply wq_addvs in H. apply H. apply iwf_base. }
  destruct k; unfold construct; intros H.
  - apply wq_addvs in H. apply H. apply iwf_base.
  - apply wq_addvs in H. apply H. apply iwf_base.
  - apply wq_addvs in H. apply H. apply iwf_base.
  - bind_step H s1 E. apply wq_addv in H. apply H. eapply BH; exact E.
  - bind_step H s1 E. bind_step H s2 E2. destruct (set_rhs s2 _ _) as [s3|] eqn:E3; [|discriminate].
    apply wq_addvs in H. apply H. apply wq_set_rhs in E3. apply E3.
    apply wq_addv in E2. apply E2. eapply BH; exact E.
  - bind_step H s1 E. apply wq_addv in H. apply H. eapply BH; exact E.
  - apply wq_addvs in H. apply H. apply iwf_base.
  - bind_step H s1 E. bind_step H s2 E2. apply wq_addvs in H. apply H.
    apply wq_add_markets in E2. apply E2. apply wq_addv in E. apply E. apply iwf_base.
  - apply wq_addvs in H. apply H. apply iwf_base.
  - now apply BM.
  - now apply BM.
  - bind_step H s1 E. apply wq_addvs in H. apply H. now apply BM.
Qed.

Definition all_iwf (SL : list sector) : Prop := Forall (fun s => iwf_b s = true) SL.

Lemma upd_wq i f : (forall s s', f s = Ok s' -> wq s s') -> forall Z Z', upd i f Z = Ok Z' -> all_iwf Z -> all_iwf Z'.
Proof.
  intros Hf. induction Z as [|a r IH]; intros Z' H A; simpl in H; [discriminate|]. inversion A as [|? ? Aa Ar]; subst.
  destruct (Nat.eqb (sid a) i).
  - destruct (f a) as [a'|] eqn:Fa; [|discriminate]. injection H as <-. constructor; [now apply (Hf _ _ Fa)|exact Ar].
  - destruct (upd i f r) as [r'|]; [|discriminate]. injection H as <-. constructor; [exact Aa|now apply IH].
Qed.

Lemma on_sector_wq i f Z Z' : (forall s s', f s = Ok s' -> wq s s') -> on_sector i f Z = Ok Z' -> all_iwf Z -> all_iwf Z'.
Proof. unfold on_sector. intros Hf. destruct (find_sec i Z); [|discriminate]. now apply upd_wq. Qed.

Lemma run_op_iwf st o st' : all_iwf (c_secs st) -> run_op st o = Ok st' -> all_iwf (c_secs st').
Proof.
  intros A H. destruct o as [s n t|s n spec|src tgt var a b|m sup text|s ws res|s n value|cb tre]; simpl in H.
  - bind_step H SL E. injection H as <-. cbn [c_secs]. eapply on_sector_wq; [|exact E|exact A]. intros x x'. apply wq_addv.
  - destruct (find_sec s (c_secs st)); [|discriminate]. now injection H as <-.
  - destruct (find_sec src (c_secs st)); [|discriminate]. destruct (find_sec tgt (c_secs st)); [|discriminate]. now injection H as <-.
  - destruct (find_sec m (c_secs st)); [|discriminate]. destruct (find_sec sup (c_secs st)); [|discriminate].
    destruct (has_add_supplier _); [|discriminate]. destruct (sup_of m (c_sup st)) as [res others]. now injection H as <-.
  - bind_step H SL E. injection H as <-. cbn [c_secs]. eapply on_sector_wq; [|exact E|exact A]. intros x x'. apply wq_asset_weighting.
  - destruct (find_sec s (c_secs st)); [|discriminate]. now injection H as <-.
  - destruct (find_sec cb (c_secs st)); [|discriminate]. destruct (find_sec tre (c_secs st)); [|discriminate]. now injection H as <-.
Qed.

Lemma run_step_iwf st x st' : all_iwf (c_secs st) -> run_step st x = Ok st' -> all_iwf (c_secs st').
Proof.
  intros A H. destruct x as [c|ci c k|o]; [| |eapply run_op_iwf; eassumption]; simpl in H.
  - destruct (mem c (c_countries st)); [discriminate|]. now injection H as <-.
  - destruct (nth_error (c_countries st) ci) as [cc|]; [|discriminate]. destruct (existsb _ (c_secs st)); [discriminate|].
    bind_step H mrefs E1. bind_step H s E2. injection H as <-. cbn [c_secs]. apply Forall_app. split; [exact A|].
    constructor; [eapply construct_iwf; exact E2|constructor].
Qed.

Theorem construct_all_iwf p st : construct_all p = Ok st -> all_iwf (c_secs st).
Proof.
  unfold construct_all. revert st. induction p as [|x p IH] using rev_ind; intros st H.
  - simpl in H. injection H as <-. constructor.
  - apply foldM_app in H as (st1 & H1 & H2). simpl in H2.
    destruct (run_step st1 x) as [st2|] eqn:E; [|discriminate]. injection H2 as <-.
    eapply run_step_iwf; [apply IH; exact H1|exact E].
Qed.

Lemma zone_order_in cs SL s : List.In s (zone_order cs SL) -> List.In s SL.
Proof. unfold zone_order. intros H. apply in_flat_map in H as (cc & _ & H). now apply filter_In in H as [H _]. Qed.

Theorem iwf_holds p st : construct_all p = Ok st -> forallb iwf_b (zone0 st) = true.
Proof.
  intros H. apply construct_all_iwf in H. apply forallb_forall. intros s Hs. unfold zone0 in Hs. apply zone_order_in in Hs.
  apply in_map_iff in Hs as (s0 & <- & Hs0). unfold all_iwf in H. rewrite Forall_forall in H. exact (H s0 Hs0).
Qed.
(* ------------------------------------------------------------------ *)
(** * 4. the side condition without its three structural parts *)

Definition initial_sem (Z : zone) : bool := forallb pdiv_b Z.

Definition order_sem (p : program) : bool :=
  closed_refs p &&
  match construct_all p with
  | Err _ => false
  | Ok st => let I := mkI (c_classes st) (c_sup st) in let Z := zone0 st in let L := gen_list st in
             stable_ok I Z L && commute_ok I Z L && unique_ok I Z L && initial_sem Z && plans_ok I Z L && stable_self_ok I Z L
  end &&
  match build p with Ok E => texts_ok E | Err _ => true end.

Lemma forallb_andb {A} (a b : A -> bool) l : forallb (fun x => a x && b x) l = forallb a l && forallb b l.
Proof.
  induction l as [|x l IH]; [reflexivity|]. cbn [forallb]. rewrite IH.
  destruct (a x), (b x), (forallb a l), (forallb b l); reflexivity.
Qed.

Lemma initial_ok_split Z : initial_ok Z = forallb iwf_b Z && initial_sem Z.
Proof. unfold initial_ok, initial_sem. apply forallb_andb. Qed.

(** [order_ok] and [order_sem] are the same boolean *)
Theorem order_ok_eq_sem p : Static2.order_ok p = order_sem p.
Proof.
  unfold Static2.order_ok, order_sem. destruct (construct_all p) as [st|] eqn:C; [|reflexivity]. cbv zeta.
  unfold static_ok2, static_ok. rewrite ops_ok_holds, (recv_ok_holds p st C), initial_ok_split, (iwf_holds p st C).
  cbn [andb]. rewrite !andb_true_r. reflexivity.
Qed.

Theorem order_sem_order_ok p : order_sem p = true -> Static2.order_ok p = true.
Proof. now rewrite order_ok_eq_sem. Qed.

Theorem order_ok_order_sem p : Static2.order_ok p = true -> order_sem p = true.
Proof. now rewrite order_ok_eq_sem. Qed.

(* ------------------------------------------------------------------ *)
(** * 5. GenOrder's theorems under [order_sem] *)

Theorem main_order_invariant_sem : forall p p', admissible_perm p p' -> order_sem p = true ->
  forall E, build p = Ok E -> exists E', build p' = Ok E' /\ sys_equiv E E' /\ fs_ic E' = fs_ic E.
Proof. intros p p' A O. apply order_invariant_sys; [exact A|now apply order_sem_order_ok]. Qed.

Theorem main_order_invariant_rows_sem : forall p p' E, admissible_perm p p' -> order_sem p = true -> build p = Ok E ->
  exists E', build p' = Ok E' /\ rows_perm_equiv E E' /\ fs_ic E' = fs_ic E.
Proof. intros p p' E A O. apply main_order_invariant; [exact A|now apply order_sem_order_ok]. Qed.

Theorem main_order_errors_sem : forall p p', admissible_perm p p' -> order_sem p = true -> order_sem p' = true ->
  is_ok (build p') = is_ok (build p).
Proof. intros p p' A O O'. apply order_invariant_errors; [exact A|now apply order_sem_order_ok|now apply order_sem_order_ok]. Qed.

(* ------------------------------------------------------------------ *)
(** * Non-vacuity, and why [plans_ok] is not structural *)

Example order_sem_SIM : order_sem p_SIM = true /\ is_ok (build p_SIM) = true.
Proof. vm_compute. split; reflexivity. Qed.

(** GOOD (sector 5 of p_SIM) gets a user-made ledger and is registered as its own supplier: the program
    builds, the three structural parts hold (as they must), [plans_ok] is false *)
Definition p_self : program :=
  (p_SIM ++ [StOp (OAddVariable 5 "F" "0.0"); StOp (OAddVariable 5 "INC" "0.0"); StOp (OAddSupplier 5 5 (Some "0.1*DEM_GOOD"))])%list.

Example plans_ok_is_semantic :
  is_ok (build p_self) = true /\
  match construct_all p_self with
  | Ok st => let I := mkI (c_classes st) (c_sup st) in let Z := zone0 st in let L := gen_list st in
             (plans_ok I Z L, ops_ok I Z L, recv_ok I Z L, forallb iwf_b Z) = (false, true, true, true)
  | Err _ => False
  end.
Proof. vm_compute. split; reflexivity. Qed.

Print Assumptions plan_ops_ok.
Print Assumptions ops_ok_holds.
Print Assumptions recv_ok_gen.
Print Assumptions recv_ok_holds.
Print Assumptions iwf_holds.
Print Assumptions order_ok_eq_sem.
Print Assumptions order_sem_order_ok.
Print Assumptions order_ok_order_sem.
Print Assumptions main_order_invariant_sem.
Print Assumptions main_order_invariant_rows_sem.
Print Assumptions main_order_errors_sem.
Print Assumptions order_sem_SIM.
Print Assumptions plans_ok_is_semantic.
