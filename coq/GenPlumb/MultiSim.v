(** The supplier loop of a market supplied from SEVERAL other currency zones
    ([Main2.market_generate_multi], receiving currency chosen per supplier) related to the
    single-currency loop [Market.market_generate] all existing balance theorems are about:

    (1) [multi_home_sim]    the market's own zone and NET_<hcur> come out as from the single-currency loop;
    (2) [multi_abroad_pot]  what the suppliers of one other zone are credited cancels against NET_<c>;
    (3) [multi_ledger_ops]  the ledger evolves by one send/receive pair per supplier found abroad. *)
From Coq Require Import List String Ascii Bool ZArith Arith Lia Reals Lra.
From SFC.Base Require Import Res Str.
From SFC.Gen Require Import Fx Zone.
From SFC.GenMarket Require Import Market MarketProofs.
From SFC.GenTax Require Import Tax TaxProofs.
From SFC.GenMain2 Require Import Program Classes Main Ledger MainProofs Conflict Program2 Main2 Ledger2 MainProofs2 Conflict2 Balance Balance2.
From SFC.GenPlumb Require Import FootDefs Foot Foot2 Constr.
Import ListNotations.
Local Open Scope string_scope.

(* ------------------------------------------------------------------ *)
(** * One iteration of the supplier loop, by cases *)

Lemma supply_step_cases h a mk W i e W' : supply_step h a mk W (i, e) = Ok W' ->
  (exists sup H1 H2,
      find_sec i (home W) = Some sup /\
      upd (sid mk) (fun s => Ok (set_eqn s (alloc_name sup) e)) (home W) = Ok H1 /\
      upd i (supplier_local mk (alloc_name sup)) H1 = Ok H2 /\
      W' = mkWorld H2 (abroad W) (fxl W) (crosses W))
  \/
  (exists sup H1 L A2,
      find_sec i (home W) = None /\ find_sec i (abroad W) = Some sup /\
      upd (sid mk) (fun s => Ok (set_eqn s (alloc_name sup) e)) (home W) = Ok H1 /\
      fxl W = Some L /\
      upd i (supplier_foreign mk (credited h a (full_name mk (alloc_name sup)))) (abroad W) = Ok A2 /\
      W' = mkWorld H1 A2 (Some (fx_pair h a (full_name mk (alloc_name sup)) L))
                   (add_cross (cross_code h a) (crosses W))).
Proof.
  unfold supply_step, resolve. intros H.
  destruct (find_sec i (home W)) as [sup|] eqn:Fh.
  - left. destruct (upd (sid mk) _ (home W)) as [H1|] eqn:U1; [|discriminate].
    destruct (upd i _ H1) as [H2|] eqn:U2; [|discriminate]. injection H as <-.
    exists sup, H1, H2. auto.
  - right. destruct (find_sec i (abroad W)) as [sup|] eqn:Fa; [|discriminate].
    destruct (upd (sid mk) _ (home W)) as [H1|] eqn:U1; [|discriminate].
    destruct (fxl W) as [L|] eqn:EL; [|discriminate].
    destruct (upd i _ (abroad W)) as [A2|] eqn:U2; [|discriminate]. injection H as <-.
    exists sup, H1, L, A2. repeat split; auto.
Qed.

(** "found abroad" is stable along frames *)
Lemma found_abroad_back P (H H' A A' : zone) i s1 : zq P H H' -> zq P A A' ->
  find_sec i H' = None -> find_sec i A' = Some s1 ->
  find_sec i H = None /\ exists s, find_sec i A = Some s /\ frame s s1.
Proof.
  intros QH QA Fh Fa.
  pose proof (Forall2_find _ _ _ i QH (pq_sid P)) as X. rewrite Fh in X.
  pose proof (Forall2_find _ _ _ i QA (pq_sid P)) as Y. rewrite Fa in Y.
  destruct (find_sec i H); [contradiction|]. split; [reflexivity|].
  destruct (find_sec i A) as [s|]; [|contradiction]. exists s. split; [reflexivity|apply (pq_frame _ _ _ Y)].
Qed.

(** the preamble of [market_generate_multi] *)
Lemma mgm_unfold hcur cur_of W m res others Wm :
  market_generate_multi hcur cur_of W m res others = Ok Wm ->
  exists mk r H1 mk1 H0 fcs,
    find_sec m (home W) = Some mk /\ the_residual (home W) mk res = Ok r /\
    generate_demand (home W) m = Ok H1 /\ find_sec m H1 = Some mk1 /\
    upd m (fun s => opt_key (set_rhs_terms s (sup_short mk1) [(1%Z, [dem_short mk1])])) H1 = Ok H0 /\
    resolve_fullcodes (with_home W H0) (map fst others) = Ok fcs /\
    supply_multi hcur cur_of mk1 (with_home W H0) (sup_list mk1 others r fcs) = Ok Wm /\
    zq (protP true) (home W) H0.
Proof.
  unfold market_generate_multi. intros H.
  destruct (find_sec m (home W)) as [mk|] eqn:Fm; [|discriminate].
  bind_step H r E0. bind_step H H1 GD.
  destruct (find_sec m H1) as [mk1|] eqn:F1; [|discriminate].
  bind_step H H0 U. bind_step H fcs E3.
  exists mk, r, H1, mk1, H0, fcs. repeat (split; [first [reflexivity|assumption]|]).
  eapply zq_trans; [eapply generate_demand_zq; exact GD|].
  eapply zq_upd; [exact U|]. intros s s' E. unfold opt_key in E.
  destruct (set_rhs_terms s _ _) as [x|] eqn:E2; [|discriminate]. injection E as <-.
  eapply pq_set_rhs_terms; [|exact E2]. apply protP_sup.
Qed.

(* ------------------------------------------------------------------ *)
(** * (3) The ledger *)

Definition multi_ops (hcur : string) (xs : list (string * string)) : list fxop :=
  flat_map (fun xa => [Send hcur (fst xa); Receive hcur (snd xa) (fst xa)]) xs.

Lemma multi_ops_app hcur xs ys : multi_ops hcur (xs ++ ys) = (multi_ops hcur xs ++ multi_ops hcur ys)%list.
Proof. unfold multi_ops. apply flat_map_app. Qed.

Lemma apply_ops_app o a b : apply_ops o (a ++ b) = apply_ops (apply_ops o a) b.
Proof. destruct o as [L|]; [|reflexivity]. cbn. now rewrite fold_left_app. Qed.

(** the suppliers the loop can find abroad are declared ones: a residual supplier that was searched
    for ([res = None]) is a sector of the market's own zone *)
Definition declared (res : option nat) (others : list (nat * string)) (i : nat) : Prop :=
  List.In i (map fst others) \/ res = Some i.

Lemma In_find_sec s Z : List.In s Z -> find_sec (sid s) Z <> None.
Proof.
  intros Hin E. unfold find_sec in E. pose proof (find_none _ _ E s Hin) as X. cbv beta in X.
  now rewrite Nat.eqb_refl in X.
Qed.

Lemma residual_declared Z mk res others r i : the_residual Z mk res = Ok r ->
  List.In i (map fst others ++ [r]) -> find_sec i Z = None -> declared res others i.
Proof.
  intros TR Hin Fn. apply in_app_or in Hin as [Hin|[<-|[]]]; [now left|]. right.
  unfold the_residual in TR. destruct res as [r0|]; [congruence|].
  destruct (search_supplier Z mk) as [s|] eqn:SS; [|discriminate]. injection TR as <-.
  apply search_supplier_spec in SS as (Hin & _). now apply In_find_sec in Hin.
Qed.

Definition sent_ok (cur_of : nat -> string) (D : nat -> Prop) (H A : zone) (xa : string * string) : Prop :=
  has_substring "__" (fst xa) = true /\
  exists i s, D i /\ find_sec i H = None /\ find_sec i A = Some s /\ snd xa = cur_of i.

Lemma sent_ok_back P cur_of D (H H' A A' : zone) xs : zq P H H' -> zq P A A' ->
  Forall (sent_ok cur_of D H' A') xs -> Forall (sent_ok cur_of D H A) xs.
Proof.
  intros QH QA F. eapply Forall_impl; [|exact F]. intros xa (Hx & i & s1 & Hd & Fh & Fa & Hc).
  destruct (found_abroad_back P _ _ _ _ i s1 QH QA Fh Fa) as (Fh0 & s & Fa0 & _).
  split; [exact Hx|]. exists i, s. auto.
Qed.

Lemma sent_ok_weaken cur_of (D D' : nat -> Prop) H A xs : (forall i, D i -> find_sec i H = None -> D' i) ->
  Forall (sent_ok cur_of D H A) xs -> Forall (sent_ok cur_of D' H A) xs.
Proof.
  intros HD F. eapply Forall_impl; [|exact F]. intros xa (Hx & i & s & Hd & Fh & Fa & Hc).
  split; [exact Hx|]. exists i, s. auto.
Qed.

Lemma supply_multi_ops hcur cur_of mk : forall L W W', supply_multi hcur cur_of mk W L = Ok W' ->
  exists xs, fxl W' = apply_ops (fxl W) (multi_ops hcur xs) /\
             Forall (sent_ok cur_of (fun i => List.In i (map fst L)) (home W) (abroad W)) xs.
Proof.
  induction L as [|[i e] L IH]; intros W W' H; cbn [supply_multi] in H.
  - injection H as <-. exists []. split; [now destruct (fxl W)|constructor].
  - bind_step H W1 E. cbn [fst] in E.
    destruct (supply_step_zq _ _ _ _ _ _ E) as [Q1 Q2].
    destruct (IH _ _ H) as (xs & I1 & I2). apply (sent_ok_back _ _ _ _ _ _ _ _ Q1 Q2) in I2.
    apply (sent_ok_weaken _ _ (fun j => List.In j (map fst ((i, e) :: L)))) in I2; [|intros j Hj _; now right].
    apply supply_step_cases in E as [(sup & H1 & H2 & Fh & U1 & U2 & ->)|(sup & H1 & L0 & A2 & Fh & Fa & U1 & EL & U2 & ->)].
    + exists xs. cbn [fxl] in I1. auto.
    + exists ((full_name mk (alloc_name sup), cur_of i) :: xs). cbn [fxl] in I1. split.
      * rewrite I1, EL. reflexivity.
      * constructor; [|exact I2]. split; [apply full_name_qualified|]. exists i, sup.
        split; [now left|]. auto.
Qed.

Theorem multi_ledger_ops hcur cur_of W m res others Wm :
  market_generate_multi hcur cur_of W m res others = Ok Wm ->
  exists xs : list (string * string),            (* (allocation variable's full name, receiving currency) *)
    fxl Wm = Conflict2.apply_ops (fxl W) (flat_map (fun xa => [Send hcur (fst xa); Receive hcur (snd xa) (fst xa)]) xs) /\
    Forall (fun xa => has_substring "__" (fst xa) = true /\
                      exists i s, (List.In i (map fst others) \/ res = Some i) /\
                                  find_sec i (home W) = None /\ find_sec i (abroad W) = Some s /\ snd xa = cur_of i) xs.
Proof.
  intros H. apply mgm_unfold in H as (mk & r & H1 & mk1 & H0 & fcs & Fm & TR & GD & F1 & U & RF & SM & Q0).
  destruct (supply_multi_ops _ _ _ _ _ _ SM) as (xs & I1 & I2). cbn [fxl home abroad with_home] in I1, I2.
  exists xs. split; [exact I1|]. rewrite sup_list_ids in I2.
  apply (sent_ok_back (protP true) cur_of _ (home W) H0 (abroad W) (abroad W) xs Q0 (zq_refl _ _)) in I2.
  eapply (sent_ok_weaken _ _ (declared res others)) in I2; [exact I2|].
  intros i Hi Fn. eapply residual_declared; eassumption.
Qed.

(* ------------------------------------------------------------------ *)
(** * (1) Home simulation *)

(** the synthetic second zone: same objects, only the two ledger equations, both empty *)
Definition blank (s : sector) : sector := with_vars s [("F", mkEqn "" []); ("INC", mkEqn "" [])].
Definition hasFI (s : sector) : Prop := has_var s "F" = true /\ has_var s "INC" = true.

Lemma static_blank s : static (blank s) = static s.
Proof. reflexivity. Qed.

Lemma hasFI_blank s : hasFI (blank s).
Proof. split; reflexivity. Qed.

Lemma map_static_blank Z : map static (map blank Z) = map static Z.
Proof. rewrite map_map. apply map_ext. intros s. apply static_blank. Qed.

Lemma hasFI_pq P s s' : pq P s s' -> hasFI s -> hasFI s'.
Proof. intros Q [A B]. split; apply (pq_mono _ _ _ Q); assumption. Qed.

Lemma hasFI_zq P Z Z' : zq P Z Z' -> Forall hasFI Z -> Forall hasFI Z'.
Proof.
  induction 1 as [|a b l l' Hab _ IH]; intros F; [constructor|].
  inversion F as [|? ? Fa Fl]; subst. constructor; [eapply hasFI_pq; eassumption|now apply IH].
Qed.

Lemma add_term_to_eq_ok s n t : has_var s n = true -> exists s', add_term_to_eq s n t = Some s'.
Proof. unfold has_var, add_term_to_eq. destruct (lookup_var n (vars s)); [eauto|discriminate]. Qed.

(** crediting a sector that has F and INC cannot fail *)
Lemma supplier_foreign_ok mk t s : hasFI s -> exists s', supplier_foreign mk t s = Ok s'.
Proof.
  intros FI. unfold supplier_foreign. set (sn := supply_name mk s).
  assert (Hsn : has_var (ensure_var s sn) sn = true) by (unfold has_var; now rewrite lookup_ensure_var_same).
  destruct (add_term_to_eq_ok _ _ t Hsn) as [s2 E1]. rewrite E1.
  assert (Q2 : pq (fun _ => false) s s2).
  { eapply pq_trans; [apply (pq_ensure_var _ s sn); reflexivity|]. eapply pq_add_term_to_eq; [|exact E1]. reflexivity. }
  destruct (hasFI_pq _ _ _ Q2 FI) as [F2 I2].
  unfold add_cash_flow. destruct (add_term_to_eq_ok s2 "F" t F2) as [s3 E2]. rewrite E2.
  assert (I3 : has_var s3 "INC" = true).
  { apply (pq_mono _ _ _ (pq_add_term_to_eq (fun _ => false) _ _ _ _ eq_refl E2)). exact I2. }
  destruct (true && negb _).
  - destruct (add_term_to_eq_ok s3 "INC" t I3) as [s4 E3]. rewrite E3. eexists. reflexivity.
  - eexists. reflexivity.
Qed.

(** ([MarketProofs.supplier_foreign_static] goes through a statement about real numbers) *)
Lemma supplier_foreign_static' mk t s s' : supplier_foreign mk t s = Ok s' -> static s' = static s.
Proof.
  intros H. apply supplier_foreign_pq in H. pose proof (pq_frame _ _ _ H) as Fr. unfold static.
  now rewrite (frame_sid _ _ Fr), (frame_code _ _ Fr), (frame_country _ _ Fr), (frame_fullcode _ _ Fr).
Qed.

Lemma upd_find_ok i f Z s s' : find_sec i Z = Some s -> f s = Ok s' -> exists Z', upd i f Z = Ok Z'.
Proof.
  induction Z as [|a r IH]; unfold find_sec; cbn [find upd]; [discriminate|].
  destruct (Nat.eqb (sid a) i).
  - intros E Hf. injection E as ->. rewrite Hf. eauto.
  - intros E Hf. destruct (IH E Hf) as [Z' ->]. eauto.
Qed.

Lemma lookup_fx_pair_home h a x L : a <> h -> h <> NUM ->
  ledger_lookup h (fx_pair h a x L) = add_term (1%Z, [x]) (ledger_lookup h L).
Proof.
  intros Na Nh. unfold fx_pair, fx_step. rewrite !lookup_add_to.
  destruct (String.eqb_spec NUM h); [congruence|]. destruct (String.eqb_spec a h); [congruence|].
  now rewrite String.eqb_refl.
Qed.

(** the real world [W1] and the synthetic one [W2] along the loop *)
Record sim (hcur : string) (W1 W2 : world) : Prop := mkSim {
  sim_home : home W2 = home W1;
  sim_static : map static (abroad W2) = map static (abroad W1);
  sim_FI : Forall hasFI (abroad W2);
  sim_fx : match fxl W1, fxl W2 with
           | Some L1, Some L2 => ledger_lookup hcur L2 = ledger_lookup hcur L1
           | None, None => True
           | _, _ => False
           end
}.

Lemma sim_step hcur a a1 mk W1 W2 i e W1' :
  sim hcur W1 W2 -> supply_step hcur a1 mk W1 (i, e) = Ok W1' ->
  a <> hcur -> hcur <> NUM ->
  (forall s, find_sec i (home W1) = None -> find_sec i (abroad W1) = Some s -> a1 <> hcur) ->
  exists W2', supply_step hcur a mk W2 (i, e) = Ok W2' /\ sim hcur W1' W2'.
Proof.
  intros [SH SS SF SX] E Na Nh Hc.
  apply supply_step_cases in E as [(sup & H1 & H2 & Fh & U1 & U2 & ->)|(sup & H1 & L1 & A2 & Fh & Fa & U1 & EL & U2 & ->)].
  - exists (mkWorld H2 (abroad W2) (fxl W2) (crosses W2)). split.
    + unfold supply_step, resolve. cbv zeta. rewrite SH, Fh, U1, U2. reflexivity.
    + constructor; cbn [home abroad fxl]; auto.
  - pose proof (find_sec_static i _ _ SS) as X. rewrite Fa in X.
    destruct (find_sec i (abroad W2)) as [sup2|] eqn:Fa2; [|contradiction].
    assert (AN : alloc_name sup2 = alloc_name sup) by (unfold alloc_name; now rewrite (static_fullcode _ _ X)).
    rewrite EL in SX. destruct (fxl W2) as [L2|] eqn:EL2; [|contradiction].
    assert (FI2 : hasFI sup2) by (rewrite Forall_forall in SF; apply SF; eapply find_sec_In; exact Fa2).
    destruct (supplier_foreign_ok mk (credited hcur a (full_name mk (alloc_name sup))) sup2 FI2) as [s2' E2].
    destruct (upd_find_ok _ _ _ _ _ Fa2 E2) as [A2' U2'].
    exists (mkWorld H1 A2' (Some (fx_pair hcur a (full_name mk (alloc_name sup)) L2)) (add_cross (cross_code hcur a) (crosses W2))).
    split.
    + unfold supply_step, resolve. cbv zeta. rewrite SH, Fh, Fa2, AN, U1, EL2, U2'. reflexivity.
    + assert (Na1 : a1 <> hcur) by (eapply Hc; eassumption).
      constructor; cbn [home abroad fxl].
      * reflexivity.
      * rewrite (upd_static _ _ _ _ U2' (supplier_foreign_static' mk _)), (upd_static _ _ _ _ U2 (supplier_foreign_static' mk _)).
        exact SS.
      * eapply hasFI_zq; [|exact SF]. eapply zq_upd; [exact U2'|]. intros x x' Ex. eapply supplier_foreign_pq; exact Ex.
      * rewrite !lookup_fx_pair_home by assumption. now rewrite SX.
Qed.

Lemma sim_fold hcur a cur_of mk : a <> hcur -> hcur <> NUM -> forall L W1 W2 W1',
  sim hcur W1 W2 -> supply_multi hcur cur_of mk W1 L = Ok W1' ->
  (forall i s, List.In i (map fst L) -> find_sec i (home W1) = None -> find_sec i (abroad W1) = Some s -> cur_of i <> hcur) ->
  exists W2', foldM (supply_step hcur a mk) L W2 = Ok W2' /\ sim hcur W1' W2'.
Proof.
  intros Na Nh. induction L as [|[i e] L IH]; intros W1 W2 W1' S H Hc; cbn [supply_multi] in H.
  - injection H as <-. exists W2. split; [reflexivity|exact S].
  - bind_step H W1a E. cbn [fst] in E.
    destruct (supply_step_zq _ _ _ _ _ _ E) as [Q1 Q2].
    destruct (sim_step hcur a _ mk W1 W2 i e W1a S E Na Nh) as (W2a & E2 & S2).
    { intros s Fh Fa. apply (Hc i s); [now left|exact Fh|exact Fa]. }
    destruct (IH W1a W2a W1' S2 H) as (W2' & F2 & S').
    { intros j s1 Hj Fh Fa. destruct (found_abroad_back _ _ _ _ _ j s1 Q1 Q2 Fh Fa) as (Fh0 & s & Fa0 & _).
      apply (Hc j s); [now right|exact Fh0|exact Fa0]. }
    exists W2'. split; [|exact S']. cbn [foldM]. now rewrite E2.
Qed.

Lemma resolve_fullcodes_sim (W1 W2 : world) : home W2 = home W1 -> map static (abroad W2) = map static (abroad W1) ->
  forall ids fcs, resolve_fullcodes W1 ids = Ok fcs -> resolve_fullcodes W2 ids = Ok fcs.
Proof.
  intros SH SS. induction ids as [|i r IH]; intros fcs H; cbn [resolve_fullcodes] in *; [exact H|].
  pose proof (resolve_static W1 W2 i (f_equal (map static) SH) SS) as RS.
  destruct (resolve W1 i) as [[b s]|]; [|discriminate]. destruct (resolve W2 i) as [[b2 s2]|]; [|contradiction].
  destruct RS as [_ RS]. destruct (resolve_fullcodes W1 r) as [l|]; [|discriminate].
  rewrite (IH l eq_refl). now rewrite (static_fullcode _ _ RS).
Qed.

(** HOME SIMULATION.  [a <> NUM] and [cur_of i <> NUM] are not used by the proof (NET_<hcur> only needs
    the receiving currencies to differ from [hcur] and [hcur <> NUM]); they are kept as stated. *)
Theorem multi_home_sim hcur a cur_of W m res others Wm :
  market_generate_multi hcur cur_of W m res others = Ok Wm ->
  a <> hcur -> hcur <> NUM -> a <> NUM ->
  (forall i s, (List.In i (map fst others) \/ res = Some i) ->     (* declared suppliers only *)
       find_sec i (home W) = None -> find_sec i (abroad W) = Some s -> cur_of i <> hcur /\ cur_of i <> NUM) ->
  exists A0 Ws,
    map static A0 = map static (abroad W) /\
    market_generate hcur a (mkWorld (home W) A0 (fxl W) (crosses W)) m res others = Ok Ws /\
    home Ws = home Wm /\
    net_terms (fxl Ws) hcur = net_terms (fxl Wm) hcur.
Proof.
  intros H Na Nh _ Hc.
  apply mgm_unfold in H as (mk & r & H1 & mk1 & H0 & fcs & Fm & TR & GD & F1 & U & RF & SM & Q0).
  set (A0 := map blank (abroad W)).
  assert (S0 : sim hcur (with_home W H0) (mkWorld H0 A0 (fxl W) (crosses W))).
  { constructor; cbn [home abroad fxl with_home].
    - reflexivity.
    - apply map_static_blank.
    - unfold A0. apply Forall_forall. intros x Hx. apply in_map_iff in Hx as (s & <- & _). apply hasFI_blank.
    - now destruct (fxl W). }
  destruct (sim_fold hcur a cur_of mk1 Na Nh _ _ _ _ S0 SM) as (Ws & FS & [SH SS SF SX]).
  { intros i s1 Hi Fh Fa. cbn [home abroad with_home] in Fh, Fa. rewrite sup_list_ids in Hi.
    destruct (found_abroad_back _ _ _ _ _ i s1 Q0 (zq_refl _ _) Fh Fa) as (Fh0 & s & Fa0 & _).
    apply (Hc i s); [|exact Fh0|exact Fa0]. eapply residual_declared; eassumption. }
  exists A0, Ws. split; [apply map_static_blank|]. split; [|split].
  - unfold market_generate. cbn [home]. rewrite Fm, TR, GD. unfold generate_supply. cbn [home with_home].
    rewrite F1, U. unfold with_home. cbn [home abroad fxl crosses].
    rewrite (resolve_fullcodes_sim (with_home W H0) (mkWorld H0 A0 (fxl W) (crosses W)) eq_refl (map_static_blank _) _ _ RF).
    exact FS.
  - exact SH.
  - unfold net_terms. destruct (fxl Wm), (fxl Ws); try contradiction; auto.
Qed.

(* ------------------------------------------------------------------ *)
(** * (2) The other zones *)

Local Open Scope R_scope.

(** [upd] rewrites the first object with the ID, i.e. the one [find_sec] returns *)
Lemma upd_filter_F (v : string -> R) (q : sector -> bool) i f (d : R) : forall Z Z' s,
  upd i f Z = Ok Z' -> find_sec i Z = Some s ->
  (forall s', f s = Ok s' -> q s' = q s /\ F_sum v s' = F_sum v s + d) ->
  zone_F v (filter q Z') = zone_F v (filter q Z) + (if q s then d else 0).
Proof.
  induction Z as [|x r IH]; intros Z' s U Fs Hf; cbn [upd] in U; [discriminate|].
  unfold find_sec in Fs. cbn [find] in Fs. destruct (Nat.eqb (sid x) i).
  - injection Fs as ->. destruct (f s) as [s'|] eqn:E; [|discriminate]. injection U as <-.
    destruct (Hf s' eq_refl) as [Q1 Q2]. cbn [filter]. rewrite Q1.
    destruct (q s); unfold zone_F; cbn [sumR]; [rewrite Q2|]; lra.
  - destruct (upd i f r) as [r'|] eqn:U'; [|discriminate]. injection U as <-.
    cbn [filter]. specialize (IH r' s eq_refl Fs Hf).
    destruct (q x); unfold zone_F in *; cbn [sumR]; lra.
Qed.

(** what the sectors of class [q] hold plus the FX intermediary's position in currency [c] *)
Definition apot (v : string -> R) (q : sector -> bool) (c : string) (W : world) : R :=
  zone_F v (filter q (abroad W)) + tsum v (net_terms (fxl W) c).

Lemma apot_step v hcur a q c mk W i e W' :
  supply_step hcur a mk W (i, e) = Ok W' ->
  (forall s s', frame s s' -> q s' = q s) -> c <> hcur -> c <> NUM ->
  (forall s, find_sec i (home W) = None -> find_sec i (abroad W) = Some s -> a <> hcur /\ (q s = true <-> a = c)) ->
  apot v q c W' = apot v q c W.
Proof.
  intros E Hq Nc NcN Hc.
  apply supply_step_cases in E as [(sup & H1 & H2 & Fh & U1 & U2 & ->)|(sup & H1 & L & A2 & Fh & Fa & U1 & EL & U2 & ->)].
  - reflexivity.
  - destruct (Hc sup Fh Fa) as [Na Qc]. unfold apot. cbn [abroad fxl net_terms]. rewrite EL. cbn [net_terms].
    set (x := full_name mk (alloc_name sup)) in *.
    rewrite (upd_filter_F v q i _ (v x * v (cross_name hcur a)) _ _ sup U2 Fa).
    2:{ intros s' Es. pose proof (supplier_foreign_lstep _ _ _ _ Es) as LS. split; [apply Hq; apply (ls_frame _ _ _ LS)|].
        rewrite (F_sum_lstep v _ _ _ LS). cbn [tsum_in]. unfold x. rewrite tval_credited. lra. }
    destruct (String.eqb_spec a c) as [Eac|Nac].
    + rewrite (proj2 Qc Eac). subst a. rewrite (fx_pair_abroad v hcur c x L) by congruence. lra.
    + destruct (q sup) eqn:Qs; [exfalso; apply Nac; now apply Qc|].
      unfold fx_pair. rewrite !lookup_fx_step_other by (try assumption; congruence). lra.
Qed.

Lemma apot_fold v hcur cur_of q c mk :
  (forall s s', frame s s' -> q s' = q s) -> c <> hcur -> c <> NUM -> forall L W W',
  supply_multi hcur cur_of mk W L = Ok W' ->
  (forall i s, List.In i (map fst L) -> find_sec i (home W) = None -> find_sec i (abroad W) = Some s ->
      cur_of i <> hcur /\ (q s = true <-> cur_of i = c)) ->
  apot v q c W' = apot v q c W.
Proof.
  intros Hq Nc NcN. induction L as [|[i e] L IH]; intros W W' H Hc; cbn [supply_multi] in H.
  - now injection H as <-.
  - bind_step H W1 E. cbn [fst] in E.
    destruct (supply_step_zq _ _ _ _ _ _ E) as [Q1 Q2].
    rewrite (IH _ _ H).
    + eapply apot_step; [exact E|exact Hq|exact Nc|exact NcN|]. intros s Fh Fa. apply (Hc i s); [now left|exact Fh|exact Fa].
    + intros j s1 Hj Fh Fa. destruct (found_abroad_back _ _ _ _ _ j s1 Q1 Q2 Fh Fa) as (Fh0 & s & Fa0 & Fr).
      rewrite (Hq _ _ Fr). apply (Hc j s); [now right|exact Fh0|exact Fa0].
Qed.

(** THE OTHER ZONES.  [NoDup (map sid (abroad W))] is not used by the proof ([upd] and [find_sec] agree on
    which object carries an ID); it is kept as stated. *)
Theorem multi_abroad_pot (v : string -> R) hcur cur_of (q : sector -> bool) c W m res others Wm :
  market_generate_multi hcur cur_of W m res others = Ok Wm ->
  NoDup (map sid (abroad W)) -> (forall s s', TaxProofs.frame s s' -> q s' = q s) ->
  c <> hcur -> c <> NUM ->
  (forall i s, (List.In i (map fst others) \/ res = Some i) ->     (* declared suppliers only *)
       find_sec i (home W) = None -> find_sec i (abroad W) = Some s ->
       cur_of i <> hcur /\ (q s = true <-> cur_of i = c)) ->
  (zone_F v (filter q (abroad Wm)) + tsum v (net_terms (fxl Wm) c) =
   zone_F v (filter q (abroad W)) + tsum v (net_terms (fxl W) c))%R.
Proof.
  intros H _ Hq Nc NcN Hc.
  apply mgm_unfold in H as (mk & r & H1 & mk1 & H0 & fcs & Fm & TR & GD & F1 & U & RF & SM & Q0).
  change (apot v q c Wm = apot v q c (with_home W H0)).
  eapply apot_fold; [exact Hq|exact Nc|exact NcN|exact SM|].
  intros i s1 Hi Fh Fa. cbn [home abroad with_home] in Fh, Fa. rewrite sup_list_ids in Hi.
  destruct (found_abroad_back _ _ _ _ _ i s1 Q0 (zq_refl _ _) Fh Fa) as (Fh0 & s & Fa0 & _).
  assert (s = s1) by congruence. subst s1.
  apply (Hc i s); [|exact Fh0|exact Fa0]. eapply residual_declared; eassumption.
Qed.

Print Assumptions multi_home_sim.
Print Assumptions multi_abroad_pot.
Print Assumptions multi_ledger_ops.
