(** [Conflict2.no_conflict2] split into its SEMANTIC conjuncts ([sem_ok2]) and its PLUMBING conjuncts
    ([plumbing2]).  Definitions only (plus the easy direction: both together give [no_conflict2]).

    Semantic = a fact about the program that can fail and whose failure breaks the C01 / C07
    statements: a freshness condition of a booking group, an installed definition no longer in the
    final system or made exogenous, a supplier registered twice, a name containing "__", the FX
    operations of a step involving the numeraire as a real currency, a NET_<c> equation given an
    opaque part, an ExternalSector in a one-country model (then EXT_FX is spelled FX).

    Plumbing = a recomputation check: the step recomputed on the part of the sector list it acts on
    succeeds and gives that part of the state after the step, every other sector is untouched, the
    NET_<c> term lists after the step are [fold fx_step ops] of those before, F of every sector was
    extended by exactly the listed terms, the lookups of the step's participants succeed, DIV
    definitions / bookings untouched by a step that is not a dividend step.  Plumb2.v proves
    [plumbing2 p = true] for every program that builds. *)
From Coq Require Import List String Bool ZArith Arith.
From SFC.Base Require Import Res Str.
From SFC.Gen Require Import Fx Zone.
From SFC.GenMarket Require Import Market.
From SFC.GenTax Require Import Tax Dividends.
From SFC.GenAsset Require Import Common Money Deposit Weighting.
From SFC.GenMain2 Require Import Program Classes Main Conflict Program2 Main2 Conflict2.
Import ListNotations.
Local Open Scope string_scope.

Definition own_zone (J : ginfo2) (self : sector) : sector -> bool :=
  in_zone (j_countries J) (cur_of_sec J self).

(* ------------------------------------------------------------------ *)
(** * The single-currency checks of Conflict.v without the "DIV left alone" conjuncts of the steps
      that are not dividend steps (those are plumbing: [Foot.v] proves them for every step) *)

Definition gen_sem (Zf : zone) (I : ginfo) (x : (nat * cls) * gstate * gstate) : bool :=
  let '((i, k), st, st') := x in
  let Z := g_zone st in
  let Z' := g_zone st' in
  match k with
  | CTaxFlow _ paid_to => tax_ok Zf i paid_to Z Z'
  | CMarket => let '(res, others) := sup_of i (i_sup I) in market_ok Zf i res others Z Z'
  | CDepositMarket issuer =>
      match find_sec i Z with
      | Some self => deposit_ok Zf i (code self) issuer Z Z'
      | None => true
      end
  | CBusiness _ _ _ _ _ => firm_ok Zf I i Z Z'
  | CMoneyMarket _ =>
      match find_sec i Z with
      | Some self => kept (asset_sel (code self)) Z' Zf
      | None => true
      end
  | _ => true
  end.

Definition gen_plumb (x : (nat * cls) * gstate * gstate) : bool :=
  let '((i, k), st, st') := x in
  match k with
  | CBusiness _ _ _ _ _ => true
  | CDepositMarket _ | CMoneyMarket _ =>
      match find_sec i (g_zone st) with Some _ => div_quiet (g_zone st) (g_zone st') | None => false end
  | _ => div_quiet (g_zone st) (g_zone st')
  end.

Lemma gen_join Zf I x : gen_sem Zf I x = true -> gen_plumb x = true -> gen_ok Zf I x = true.
Proof.
  destruct x as [[[i k] st] st']. unfold gen_sem, gen_plumb, gen_ok.
  destruct k; try (intros _ H; exact H); try (intros H _; exact H); try (intros -> ->; reflexivity).
  - destruct (sup_of i (i_sup I)). intros -> ->. reflexivity.
  - destruct (find_sec i (g_zone st)); [intros -> ->; reflexivity|intros _ H; exact H].
  - destruct (find_sec i (g_zone st)); [intros -> ->; reflexivity|intros _ H; exact H].
Qed.

(* ------------------------------------------------------------------ *)
(** * Steps inside one zone *)

Definition local_sem (J : ginfo2) (Zf : zone) (i : nat) (k : cls) (self : sector) (Z Z' : zone) : bool :=
  let p := own_zone J self in
  gen_sem (filter p Zf) (to_old J) ((i, k), mkG (filter p Z) [], mkG (filter p Z') []).

Definition local_plumb (J : ginfo2) (i : nat) (k : cls) (self : sector) (Z Z' : zone) : bool :=
  let p := own_zone J self in
  match gen_step (to_old J) (mkG (filter p Z) []) (i, k) with
  | Ok g => part_ok p Z Z' (g_zone g) && fx_ok J Z Z' [] && gen_plumb ((i, k), mkG (filter p Z) [], g)
  | Err _ => false
  end.

(* ------------------------------------------------------------------ *)
(** * A market with suppliers in ONE other zone *)

(** the participants: the market, the residual supplier's ID, the AddSupplier objects, the residual supplier *)
Definition foreign_lookup (J : ginfo2) (m : nat) (self : sector) (acur : string)
           (res : option nat) (others : list (nat * string)) (Z : zone) : option (sector * nat * list sector * sector) :=
  let inh := own_zone J self in
  let ina := in_zone (j_countries J) acur in
  let both := fun s => inh s || ina s in
  match find_sec m (filter inh Z) with
  | None => None
  | Some mk =>
      match the_residual (filter inh Z) mk res with
      | Err _ => None
      | Ok r =>
          match find_all (filter both Z) (map fst others), find_sec r (filter both Z) with
          | Some osecs, Some rs => Some (mk, r, osecs, rs)
          | _, _ => None
          end
      end
  end.

Definition foreign_sem (J : ginfo2) (Zf : zone) (m : nat) (self : sector) (acur : string)
           (res : option nat) (others : list (nat * string)) (Z Z' : zone) : bool :=
  let hcur := cur_of_sec J self in
  let inh := own_zone J self in
  negb (String.eqb hcur NUM) && negb (String.eqb acur NUM) &&
  match foreign_lookup J m self acur res others Z with
  | None => true
  | Some (mk, r, osecs, rs) =>
      let ids := (map fst others ++ [r])%list in
      forallb (fun i => negb (Nat.eqb i m)) ids && nodupb ids &&
      no_dunder (dem_short mk) && no_dunder (dem_long mk) && no_dunder (sup_short mk) &&
      forallb (fun s => no_dunder (alloc_name s)) osecs &&
      forallb (fun s => negb (String.eqb (fullcode s) (code mk))) (osecs ++ [rs])%list &&
      forallb (fun s => negb (inh s) ||
                        (no_dunder (supply_name mk s) &&
                         zero_eqn (match lookup_var (supply_name mk s) (vars s) with Some e => e | None => mkEqn "" [] end)))
              (osecs ++ [rs])%list &&
      kept (market_sel mk ids rs) (filter inh Z') (filter inh Zf)
  end.

(** the form of the FX operations of a market whose foreign suppliers are all in zone [acur] *)
Definition ops_form (hcur acur : string) (ops : list fxop) : bool :=
  forallb (fun o => match o with
                    | Send s0 _ => String.eqb s0 hcur
                    | Receive s0 t0 _ => String.eqb s0 hcur && String.eqb t0 acur
                    end) ops.

Definition foreign_plumb (J : ginfo2) (m : nat) (self : sector) (acur : string)
           (res : option nat) (others : list (nat * string)) (Z Z' : zone) : bool :=
  let hcur := cur_of_sec J self in
  let inh := own_zone J self in
  let ina := in_zone (j_countries J) acur in
  let both3 := fun s => inh s || ina s || in_zone (j_countries J) NUM s in
  let W := mkWorld (filter inh Z) (filter ina Z) (ledger_of J Z) [] in
  String.eqb hcur NUM || String.eqb acur NUM ||
  match market_generate hcur acur W m res others, foreign_lookup J m self acur res others Z with
  | Ok W', Some (mk, r, osecs, rs) =>
      let ids := (map fst others ++ [r])%list in
      zone_eqb (filter inh Z') (home W') && zone_eqb (filter ina Z') (abroad W') &&
      zone_eqb (filter (notb both3) Z') (filter (notb both3) Z) &&
      oledger_eqb (ledger_of J Z') (fxl W') &&
      fx_ok J Z Z' (market_ops J Z hcur mk ids) &&
      ops_form hcur acur (market_ops J Z hcur mk ids) &&
      negb (String.eqb hcur acur) &&
      div_quiet Z Z'
  | _, _ => false
  end.

(* ------------------------------------------------------------------ *)
(** * One _GenerateEquations call *)

Definition gen_sem2 (J : ginfo2) (Zf : zone) (x : (nat * cls2) * gstate2 * gstate2) : bool :=
  let '((i, k), st, st') := x in
  let Z := h_zone st in
  let Z' := h_zone st' in
  match find_sec i Z with
  | None => true
  | Some self =>
      match k with
      | CXR | CFX | CGOLD | COld CGov | COld CTreasury | COld (CCentralBank _) => true
      | CGoldGov _ | CGoldCB _ _ => negb (String.eqb (cur_of_sec J self) NUM)
      | COld CMarket =>
          let hcur := cur_of_sec J self in
          let '(res, others) := sup_of i (j_sup J) in
          let ids := (map fst others ++ match res with Some r => [r] | None => [] end)%list in
          match supplier_currencies J Z hcur ids with
          | [] => local_sem J Zf i CMarket self Z Z'
          | [acur] => foreign_sem J Zf i self acur res others Z Z'
          | _ => false                      (* suppliers in two other zones: see Multi.v *)
          end
      | COld k0 => local_sem J Zf i k0 self Z Z'
      end
  end.

Definition gen_plumb2 (J : ginfo2) (x : (nat * cls2) * gstate2 * gstate2) : bool :=
  let '((i, k), st, st') := x in
  let Z := h_zone st in
  let Z' := h_zone st' in
  match find_sec i Z with
  | None => false
  | Some self =>
      match k with
      | CXR | CFX | CGOLD | COld CGov | COld CTreasury | COld (CCentralBank _) => zone_eqb Z' Z
      | CGoldGov _ | CGoldCB _ _ => String.eqb (cur_of_sec J self) NUM || gold_ok J i self Z Z'
      | COld CMarket =>
          let hcur := cur_of_sec J self in
          let '(res, others) := sup_of i (j_sup J) in
          let ids := (map fst others ++ match res with Some r => [r] | None => [] end)%list in
          match supplier_currencies J Z hcur ids with
          | [] => local_plumb J i CMarket self Z Z'
          | [acur] => foreign_plumb J i self acur res others Z Z'
          | _ => true
          end
      | COld k0 => local_plumb J i k0 self Z Z'
      end
  end.

(* ------------------------------------------------------------------ *)
(** * Registered flows *)

Definition flow_sem2 (J : ginfo2) (x : flow * zone * zone) : bool :=
  let '(f, Z, Z') := x in
  let '(src, tgt, var, a, b) := f in
  match tgt with
  | None => true
  | Some tg =>
      match find_sec src Z, find_sec tg Z with
      | Some s, Some t =>
          let csrc := cur_of_sec J s in
          let ctgt := cur_of_sec J t in
          String.eqb csrc ctgt || (negb (String.eqb csrc NUM) && negb (String.eqb ctgt NUM))
      | _, _ => true
      end
  end.

Definition flow_plumb2 (J : ginfo2) (x : flow * zone * zone) : bool :=
  let '(f, Z, Z') := x in
  let '(src, tgt, var, a, b) := f in
  match tgt with
  | None => false
  | Some tg =>
      match find_sec src Z, find_sec tg Z with
      | Some s, Some t =>
          let csrc := cur_of_sec J s in
          let ctgt := cur_of_sec J t in
          (negb (String.eqb csrc ctgt) && (String.eqb csrc NUM || String.eqb ctgt NUM)) || flow_ok2 J x
      | _, _ => false
      end
  end.

(* ------------------------------------------------------------------ *)
(** * The final system *)

Definition final_sem2 (J : ginfo2) (Zf : zone) : bool :=
  final_ok (to_old J) Zf &&
  match j_ext J with
  | None => true
  | Some e =>
      match find_sec (e_fx e) Zf, find_sec (e_xr e) Zf with
      | Some fx, Some xr =>
          String.eqb (fullcode fx) "EXT_FX" && String.eqb (fullcode xr) "EXT_XR" &&
          forallb (fun c => match lookup_var ("NET_" ++ c) (vars fx) with
                            | Some e0 => String.eqb (blob e0) "" && is_kdef fx ("NET_" ++ c)
                            | None => true
                            end) (zones_of (j_countries J))
      | _, _ => true
      end
  end.

Definition final_plumb2 (J : ginfo2) (Z0 Zf : zone) : bool :=
  match j_ext J with
  | None => true
  | Some e =>
      match find_sec (e_fx e) Zf, find_sec (e_xr e) Zf, ledger_of J Z0 with
      | Some fx, Some xr, Some L0 =>
          forallb (fun ct => match snd ct with [] => true | _ => false end) L0 &&
          forallb (fun c => match lookup_var ("NET_" ++ c) (vars fx) with
                            | Some e0 => forallb full_term_b (terms e0)
                            | None => false
                            end) (zones_of (j_countries J))
      | _, _, _ => false
      end
  end.

(* ------------------------------------------------------------------ *)
(** * The two halves *)

Definition sem_free2 (Rn : run2) : bool :=
  let Zf := fs_zone (q_final Rn) in
  forallb (gen_sem2 (q_info Rn) Zf) (q_gen Rn) &&
  forallb (flow_sem2 (q_info Rn)) (q_flows Rn) &&
  forallb (exo_ok2 (q_info Rn)) (q_exo Rn) &&
  final_sem2 (q_info Rn) Zf.

(** the semantic side condition of the multi-currency C01 / C07 theorems *)
Definition sem_ok2 (p : program2) : bool :=
  ledger_untouched2_b p &&
  match build_run2 p with Ok Rn => sem_free2 Rn | Err _ => false end.

Definition plumb_free2 (Rn : run2) : bool :=
  forallb (gen_plumb2 (q_info Rn)) (q_gen Rn) &&
  forallb (flow_plumb2 (q_info Rn)) (q_flows Rn) &&
  final_plumb2 (q_info Rn) (q_zone0 Rn) (fs_zone (q_final Rn)).

Definition plumbing2 (p : program2) : bool :=
  match build_run2 p with Ok Rn => plumb_free2 Rn | Err _ => true end.
