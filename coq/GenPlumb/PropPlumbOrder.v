(** GenPlumb, C08 part: the STRUCTURAL conjuncts of GenOrder's / GenOrder2's side conditions [order_ok] / [order_ok2]
    ("true by construction but checked, not proved") proved for every program where they hold, refuted by witness where they
    do not; [order_ok] is invariant under admissible permutations, so the error theorem needs ONE hypothesis.

    Single currency (coq/GenOrder):
      [ops_ok], [recv_ok], the [iwf_b] half of [initial_ok] hold for every program; hence [order_ok p = order_sem p] where
      [order_sem] = closed_refs, stable_ok, commute_ok, unique_ok, stable_self_ok, texts_ok, "a dividend receiver's DIV is still
      undefined" ([pdiv_b]) and [plans_ok].  [plans_ok] is NOT true by construction: a market registered as its own supplier
      (after the user gave it F and INC) builds, in the model and in the code, and has no plan ([Order_plans_ok_is_semantic]).
    Multi currency (coq/GenOrder2):
      the [iwf2_b] half of [initial_ok2] holds for every program, [flows_ok2] is "every registered flow has a plan",
      [recv_ok2] follows from [ops_ok2], and [ops_ok2] holds on every sector outside the country named EXT; on sectors of a
      country named EXT it holds when that country only contains the ExternalSector's own sectors ([ext_clean_b]) and FAILS
      otherwise (three witnesses) — a limit of GenOrder2's encoding of EXT sectors by country NAME, not of the code (the
      real code is order-invariant on the witnesses). *)
From Coq Require Import List String Bool ZArith Arith.
From SFC.Base Require Import Res Str.
From SFC.Gen Require Import Fx Zone.
From SFC.GenMain2 Require Import Program Classes Main MainProofs Conflict Witness Program2 Main2 Conflict2 Witness2.
From SFC.GenOrder Require Import Ops Plan Check Perm Static Equiv OpsProofs KindDefs ConstrInv Static2 SysEquiv Constr Order OrderThm.
From SFC.GenOrder2 Require Import Perm2 Plan2 Side2 PropOrder2.
From SFC.GenPlumb Require Import Order1 OrderPerm OrderAll Order2.
Import ListNotations.
Local Open Scope string_scope.

(* ------------------------------------------------------------------ *)
(** * Single currency: the structural parts hold for every program *)

Theorem Order_ops_ok_holds : forall I Z L, ops_ok I Z L = true.
Proof. exact ops_ok_holds. Qed.
Print Assumptions Order_ops_ok_holds.

Theorem Order_recv_ok_holds : forall p st, construct_all p = Ok st ->
  recv_ok (mkI (c_classes st) (c_sup st)) (zone0 st) (gen_list st) = true.
Proof. exact recv_ok_holds. Qed.
Print Assumptions Order_recv_ok_holds.

Theorem Order_iwf_holds : forall p st, construct_all p = Ok st -> forallb iwf_b (zone0 st) = true.
Proof. exact iwf_holds. Qed.
Print Assumptions Order_iwf_holds.

Theorem Order_order_ok_is_semantic : forall p, Static2.order_ok p = order_sem p.
Proof. exact order_ok_eq_sem. Qed.
Print Assumptions Order_order_ok_is_semantic.

Theorem Main_order_invariant_sem : forall p p', admissible_perm p p' -> order_sem p = true ->
  forall E, build p = Ok E -> exists E', build p' = Ok E' /\ sys_equiv E E' /\ fs_ic E' = fs_ic E.
Proof. exact main_order_invariant_sem. Qed.
Print Assumptions Main_order_invariant_sem.

Theorem Main_order_invariant_rows_sem : forall p p' E, admissible_perm p p' -> order_sem p = true -> build p = Ok E ->
  exists E', build p' = Ok E' /\ rows_perm_equiv E E' /\ fs_ic E' = fs_ic E.
Proof. exact main_order_invariant_rows_sem. Qed.
Print Assumptions Main_order_invariant_rows_sem.

(** [plans_ok] is a semantic condition: market GOOD of p_SIM given a ledger by the user and registered as its own
    supplier — the program builds, the structural parts hold, [plans_ok] is false *)
Example Order_plans_ok_is_semantic :
  is_ok (build p_self) = true /\
  match construct_all p_self with
  | Ok st => let I := mkI (c_classes st) (c_sup st) in let Z := zone0 st in let L := gen_list st in
             (plans_ok I Z L, ops_ok I Z L, recv_ok I Z L, forallb iwf_b Z) = (false, true, true, true)
  | Err _ => False
  end.
Proof. exact plans_ok_is_semantic. Qed.
Print Assumptions Order_plans_ok_is_semantic.

Example Order_example_SIM_sem : order_sem p_SIM = true /\ is_ok (build p_SIM) = true.
Proof. exact order_sem_SIM. Qed.
Print Assumptions Order_example_SIM_sem.

(* ------------------------------------------------------------------ *)
(** * Single currency: [order_ok] is invariant under admissible permutations *)

Theorem Main_order_ok_perm : forall p p', admissible_perm p p' -> Static2.order_ok p = true -> Static2.order_ok p' = true.
Proof. exact order_ok_perm. Qed.
Print Assumptions Main_order_ok_perm.

Theorem Main_order_sem_perm : forall p p', admissible_perm p p' -> order_sem p = true -> order_sem p' = true.
Proof. exact order_sem_perm. Qed.
Print Assumptions Main_order_sem_perm.

(** success of the build does not depend on the declaration order: ONE hypothesis *)
Theorem Main_order_errors_one : forall p p', admissible_perm p p' -> Static2.order_ok p = true ->
  is_ok (build p') = is_ok (build p).
Proof. exact main_order_errors_one. Qed.
Print Assumptions Main_order_errors_one.

Theorem Main_order_errors_sem_one : forall p p', admissible_perm p p' -> order_sem p = true ->
  is_ok (build p') = is_ok (build p).
Proof. exact main_order_errors_sem_one. Qed.
Print Assumptions Main_order_errors_sem_one.

(** the variables of every sector of an emitted system have distinct names (the assumption stated in the comments of
    Zone.v / Main.v, needed above because [texts_ok] reads the association list itself) *)
Theorem Main_keys_distinct : forall p E, build p = Ok E -> Forall Keys.keys_ok (fs_zone E).
Proof. exact Keys.build_keys_ok. Qed.
Print Assumptions Main_keys_distinct.

(* ------------------------------------------------------------------ *)
(** * Multi currency *)

Theorem Order2_iwf2_holds : forall p st, construct_all2 p = Ok st -> forallb iwf2_b (kzone0 st) = true.
Proof. exact iwf2_holds. Qed.
Print Assumptions Order2_iwf2_holds.

Theorem Order2_flows_ok2_is_semantic : forall p st, construct_all2 p = Ok st -> flows_ok2 st = flows_sem2 st.
Proof. exact flows_ok2_plans. Qed.
Print Assumptions Order2_flows_ok2_is_semantic.

Theorem Order2_recv_ok2_of_ops_ok2 : forall p st, construct_all2 p = Ok st ->
  ops_ok2 (kinfo st) (kzone0 st) (gen_list2 st) = true -> recv_ok2 (kinfo st) (kzone0 st) (gen_list2 st) = true.
Proof. exact recv_ok2_of_ops_ok2. Qed.
Print Assumptions Order2_recv_ok2_of_ops_ok2.

(** [ops_ok2] is its restriction to the sectors of the country named EXT ... *)
Theorem Order2_ops_ok2_ext_part : forall p st, construct_all2 p = Ok st ->
  ops_ok2 (kinfo st) (kzone0 st) (gen_list2 st) = ext_ops_ok2 (kinfo st) (kzone0 st) (gen_list2 st).
Proof. exact ops_ok2_ext_part. Qed.
Print Assumptions Order2_ops_ok2_ext_part.

(** ... and holds when that country only contains the ExternalSector's own sectors *)
Theorem Order2_ops_ok2_holds_partial : forall p st, construct_all2 p = Ok st -> ext_clean_b (k_classes st) (kzone0 st) = true ->
  ops_ok2 (kinfo st) (kzone0 st) (gen_list2 st) = true.
Proof. exact ops_ok2_holds_partial. Qed.
Print Assumptions Order2_ops_ok2_holds_partial.

Theorem Order2_recv_ok2_holds_partial : forall p st, construct_all2 p = Ok st -> ext_clean_b (k_classes st) (kzone0 st) = true ->
  recv_ok2 (kinfo st) (kzone0 st) (gen_list2 st) = true.
Proof. exact recv_ok2_holds_partial. Qed.
Print Assumptions Order2_recv_ok2_holds_partial.

Theorem Order2_order_ok2_is_sem2 : forall p, order_ok2 p = order_sem2 p.
Proof. exact order_ok2_eq_sem2. Qed.
Print Assumptions Order2_order_ok2_is_sem2.

(** [order_sem2] still contains the EXT part of [ops_ok2] (see the refutations): partial *)
Theorem Main2_order_invariant_sem_partial : forall p p', admissible_perm2 p p' -> order_sem2 p = true ->
  forall E, build2 p = Ok E -> exists E', build2 p' = Ok E' /\ sys_equiv E E' /\ fs_ic E' = fs_ic E.
Proof. exact main2_order_invariant_sem. Qed.
Print Assumptions Main2_order_invariant_sem_partial.

(** with the decidable static condition instead: no structural check left *)
Theorem Main2_order_invariant_clean : forall p p', admissible_perm2 p p' -> order_clean2 p = true ->
  forall E, build2 p = Ok E -> exists E', build2 p' = Ok E' /\ sys_equiv E E' /\ fs_ic E' = fs_ic E.
Proof. exact main2_order_invariant_clean. Qed.
Print Assumptions Main2_order_invariant_clean.

(** (ops_ok2, recv_ok2, iwf2, ext_clean) on three programs that build and satisfy every other conjunct *)
Theorem Order2_ops_ok2_refuted :
  structural2 p_ext_firm = (false, false, true, false) /\ rest_ok2 p_ext_firm = true /\
  order_ok2 p_ext_firm = false /\ is_ok (build2 p_ext_firm) = true.
Proof. exact ops_ok2_refuted. Qed.
Print Assumptions Order2_ops_ok2_refuted.

Theorem Order2_ops_ok2_named_refuted :
  structural2 p_ext_named = (false, false, true, false) /\ rest_ok2 p_ext_named = true /\
  order_ok2 p_ext_named = false /\ is_ok (build2 p_ext_named) = true.
Proof. exact ops_ok2_named_refuted. Qed.
Print Assumptions Order2_ops_ok2_named_refuted.

Theorem Order2_ops_ok2_fullcode_refuted :
  structural2 p_ext_fullcode = (false, true, true, false) /\ rest_ok2 p_ext_fullcode = true /\
  order_ok2 p_ext_fullcode = false /\ is_ok (build2 p_ext_fullcode) = true.
Proof. exact ops_ok2_fullcode_refuted. Qed.
Print Assumptions Order2_ops_ok2_fullcode_refuted.

Example Order2_example_OPEN : order_sem2 p_OPEN = true /\ order_clean2 p_OPEN = true /\ structural2 p_OPEN = (true, true, true, true).
Proof. exact order_sem2_OPEN. Qed.
Print Assumptions Order2_example_OPEN.

Example Order2_example_GOLD : order_sem2 p_GOLD = true /\ order_clean2 p_GOLD = true /\ structural2 p_GOLD = (true, true, true, true).
Proof. exact order_sem2_GOLD. Qed.
Print Assumptions Order2_example_GOLD.
