(** A market supplied from two or more other currency zones: the step leaves the potential of every
    real currency zone unchanged ([multi_market_pot]) and moves the NET term lists by send/receive
    pairs between registered real currencies ([multi_market_fx]), under [Multi.multi_sem].
    The three facts about [market_generate_multi] itself are in MultiSim.v. *)
From Coq Require Import List String Ascii Bool ZArith Arith Lia Reals Lra.
From SFC.Base Require Import Res Str.
From SFC.Gen Require Import Fx Flows Zone.
From SFC.GenMarket Require Import Market MarketProofs.
From SFC.GenMarket Require PropMarket.
From SFC.GenTax Require Import Tax TaxProofs Dividends.
From SFC.GenMain2 Require Import Program Classes Main Ledger MainProofs Conflict Balance
                                 Program2 Main2 Ledger2 MainProofs2 Conflict2 Balance2 Zones.
From SFC.GenOrder2 Require Import Part Foreign1 Foreign3.
From SFC.GenPlumb Require Import FootDefs Foot Foot2 Constr Inv FxBook Local Split2 Foreign GoldFlow Multi.
Import ListNotations.
Local Open Scope string_scope.

Section MultiPot.

Hypothesis multi_home_sim : forall hcur a cur_of W m res others Wm,
  market_generate_multi hcur cur_of W m res others = Ok Wm ->
  a <> hcur -> hcur <> NUM -> a <> NUM ->
  (forall i s, (List.In i (map fst others) \/ res = Some i) -> find_sec i (home W) = None -> find_sec i (abroad W) = Some s ->
               cur_of i <> hcur /\ cur_of i <> NUM) ->
  exists A0 Ws,
    map static A0 = map static (abroad W) /\
    market_generate hcur a (mkWorld (home W) A0 (fxl W) (crosses W)) m res others = Ok Ws /\
    home Ws = home Wm /\
    net_terms (fxl Ws) hcur = net_terms (fxl Wm) hcur.

Hypothesis multi_abroad_pot : forall (v : string -> R) hcur cur_of (q : sector -> bool) c W m res others Wm,
  market_generate_multi hcur cur_of W m res others = Ok Wm ->
  NoDup (map sid (abroad W)) -> (forall s s', TaxProofs.frame s s' -> q s' = q s) ->
  c <> hcur -> c <> NUM ->
  (forall i s, (List.In i (map fst others) \/ res = Some i) -> find_sec i (home W) = None -> find_sec i (abroad W) = Some s ->
       cur_of i <> hcur /\ (q s = true <-> cur_of i = c)) ->
  (zone_F v (filter q (abroad Wm)) + tsum v (net_terms (fxl Wm) c) =
   zone_F v (filter q (abroad W)) + tsum v (net_terms (fxl W) c))%R.

Hypothesis multi_ledger_ops : forall hcur cur_of W m res others Wm,
  market_generate_multi hcur cur_of W m res others = Ok Wm ->
  exists xs : list (string * string),
    fxl Wm = apply_ops (fxl W) (mops hcur xs) /\
    Forall (fun xa => has_substring "__" (fst xa) = true /\
                      exists i s, (List.In i (map fst others) \/ res = Some i) /\
                                  find_sec i (home W) = None /\ find_sec i (abroad W) = Some s /\ snd xa = cur_of i) xs.

(* ------------------------------------------------------------------ *)
Section Step.
Variables (J : ginfo2) (Z : zone) (m : nat) (self : sector) (res : option nat) (others : list (nat * string)) (acurs : list string).
Hypothesis WI : winv J Z.
Hypothesis Fs : find_sec m Z = Some self.
Let hcur := cur_of_sec J self.
Let inh := in_zone (j_countries J) hcur.
Let rest := fun s => negb (inh s).
Let ids := (map fst others ++ match res with Some r => [r] | None => [] end)%list.
Hypothesis SC : supplier_currencies J Z hcur ids = acurs.
Hypothesis NhN : hcur <> NUM.
Hypothesis NaN : Forall (fun a => a <> NUM) acurs.
Let W := mkWorld (filter inh Z) (filter rest Z) (ledger_of J Z) [].

Lemma inh_self_m : inh self = true.
Proof. unfold inh, hcur, in_zone, cur_of_sec. apply String.eqb_refl. Qed.

(** a declared supplier found outside the market's zone: it is that sector of the model, its currency
    is one of [acurs], hence a real currency other than the market's *)
Lemma declared_abroad i s : (List.In i (map fst others) \/ res = Some i) ->
  find_sec i (home W) = None -> find_sec i (abroad W) = Some s ->
  find_sec i Z = Some s /\ sec_currency J Z i = cur_of_sec J s /\ cur_of_sec J s <> hcur /\ cur_of_sec J s <> NUM /\
  List.In (cur_of_sec J s) (zones_of (j_countries J)).
Proof.
  intros Hi _ Fa. cbn [abroad W] in Fa. apply (find_filter rest Z i s (w_nodup _ _ WI)) in Fa as [Fz Rs].
  assert (Nc : cur_of_sec J s <> hcur).
  { unfold rest, inh, in_zone in Rs. apply negb_true_iff in Rs. apply String.eqb_neq in Rs. exact Rs. }
  assert (Hin : List.In i ids).
  { unfold ids. apply in_or_app. destruct Hi as [Hi| ->]; [now left|right; now left]. }
  assert (Ha : List.In (cur_of_sec J s) acurs).
  { rewrite <- SC. unfold supplier_currencies. apply nodup_In. apply in_flat_map. exists i. split; [exact Hin|].
    rewrite Fz. destruct (String.eqb_spec (cur_of_sec J s) hcur); [contradiction|now left]. }
  split; [exact Fz|]. split; [unfold sec_currency; now rewrite Fz|]. split; [exact Nc|].
  split; [rewrite Forall_forall in NaN; now apply NaN|].
  eapply winv_cur_zone; [exact WI|]. eapply find_sec_In; exact Fz.
Qed.

(** the step, unfolded: the market's zone and every other real zone after the step are what the group
    model computed, the ledger after the step is the one it returns *)
Lemma multi_step a b l Z' : acurs = a :: b :: l -> sup_of m (j_sup J) = (res, others) -> market_step J m self Z = Ok Z' ->
  exists Wm, market_generate_multi hcur (sec_currency J Z) W m res others = Ok Wm /\
    filter inh Z' = home Wm /\
    (forall c, c <> hcur -> c <> NUM -> filter (in_zone (j_countries J) c) Z' = filter (in_zone (j_countries J) c) (abroad Wm)) /\
    ledger_of J Z' = fxl Wm.
Proof.
  intros EA ES MS. unfold market_step in MS. fold hcur in MS. rewrite ES in MS. fold ids in MS. rewrite SC, EA in MS.
  fold inh in MS. change (fun s : sector => negb (inh s)) with rest in MS.
  bind_step MS Wm MG. bind_step MS Z1 SL. fold W in MG. exists Wm. split; [exact MG|].
  destruct (market_generate_multi_zq _ _ _ _ _ _ _ MG) as [QH QA]. cbn [home abroad W] in QH, QA.
  destruct (multi_ledger_ops _ _ _ _ _ _ _ MG) as (xs & OPS & HX). cbn [fxl W] in OPS.
  destruct (multi_parts J Z self WI NhN (home Wm) (abroad Wm) (fxl Wm) Z1 (crosses Wm) (a :: b :: l) Z' QH QA SL MS) as (P1 & P2 & P3).
  - intros He. rewrite OPS. unfold ledger_of. now rewrite He.
  - intros e He. rewrite OPS.
    destruct (w_ext _ _ WI e He) as (_ & _ & _ & xr & fx & _ & _ & _ & Ffx & _).
    assert (EL : ledger_of J Z = Some (map (fun c => (c, net_of fx c)) (zones_of (j_countries J)))).
    { unfold ledger_of. now rewrite He, Ffx. }
    rewrite EL. cbn [apply_ops option_map]. eexists. split; [reflexivity|].
    apply mops_keys; [eapply winv_cur_zone; [exact WI|eapply find_sec_In; exact Fs]|eapply winv_num_zone; eassumption| |eapply ledger_keys; exact EL].
    eapply Forall_impl; [|exact HX]. intros [x c] (_ & i & s & Hi & Fh & Fa & Ec). cbn [snd] in *.
    destruct (declared_abroad i s Hi Fh Fa) as (_ & E1 & _ & _ & Hz). rewrite Ec, E1. exact Hz.
  - auto.
Qed.

(** the FX operations of the step *)
Lemma multi_market_fx a b l Z' : acurs = a :: b :: l -> sup_of m (j_sup J) = (res, others) -> market_step J m self Z = Ok Z' ->
  step_fx J false Z Z'.
Proof.
  intros EA ES MS. destruct (multi_step a b l Z' EA ES MS) as (Wm & MG & _ & _ & LED).
  destruct (multi_ledger_ops _ _ _ _ _ _ _ MG) as (xs & OPS & HX). cbn [fxl W] in OPS.
  exists (mops hcur xs). split; [now rewrite LED|].
  assert (HZ : Forall (fun xa : string * string => (snd xa <> NUM /\ snd xa <> hcur) /\ List.In (snd xa) (zones_of (j_countries J))) xs).
  { eapply Forall_impl; [|exact HX]. intros [x c] (_ & i & s & Hi & Fh & Fa & Ec). cbn [snd] in *.
    destruct (declared_abroad i s Hi Fh Fa) as (_ & E1 & N1 & N2 & Hz). rewrite Ec, E1. auto. }
  split; [apply mops_real; [exact NhN|eapply Forall_impl; [|exact HZ]; intros xa [H _]; exact H]|].
  split; [|intros _; apply mops_paired].
  apply mops_in; [eapply winv_cur_zone; [exact WI|eapply find_sec_In; exact Fs]|eapply Forall_impl; [|exact HZ]; intros xa [_ H]; exact H].
Qed.

End Step.

(* ------------------------------------------------------------------ *)
Section Sem2.
Variables (v vprev : string -> R) (bv bvp : string -> string -> R) (J : ginfo2) (bizsG : list nat).
Local Open Scope R_scope.

(** suppliers looked up in the model, and in a world whose second zone has the same sectors up to equations *)
Lemma lookup_transport (Z A0 : zone) (inh : sector -> bool) L cr : NoDup (map sid Z) ->
  map static A0 = map static (filter (fun s => negb (inh s)) Z) ->
  forall i s, find_sec i Z = Some s ->
  exists s2, find_any (mkWorld (filter inh Z) A0 L cr) i = Some s2 /\ static s2 = static s /\ (inh s = true -> s2 = s).
Proof.
  intros ND HA i s F. unfold find_any. cbn [home abroad]. destruct (inh s) eqn:Q.
  - assert (Fh : find_sec i (filter inh Z) = Some s) by (apply find_filter; auto). rewrite Fh. eauto.
  - assert (Fh : find_sec i (filter inh Z) = None).
    { destruct (find_sec i (filter inh Z)) as [x|] eqn:E; [|reflexivity]. apply (find_filter inh Z i x ND) in E as [E Qx].
      rewrite F in E. injection E as <-. congruence. }
    rewrite Fh. assert (Fr : find_sec i (filter (fun s0 => negb (inh s0)) Z) = Some s) by (apply find_filter; [exact ND|]; rewrite Q; auto).
    pose proof (find_sec_static i _ _ HA) as X. rewrite Fr in X. destruct (find_sec i A0) as [s2|]; [|contradiction].
    exists s2. split; [reflexivity|]. split; [exact X|discriminate].
Qed.

Lemma lookups_transport (Z A0 : zone) (inh : sector -> bool) L cr : NoDup (map sid Z) ->
  map static A0 = map static (filter (fun s => negb (inh s)) Z) ->
  forall js secs, Forall2 (fun i s => find_sec i Z = Some s) js secs ->
  exists secs2, Forall2 (fun i s2 => find_any (mkWorld (filter inh Z) A0 L cr) i = Some s2) js secs2 /\
                Forall2 (fun s s2 => static s2 = static s /\ (inh s = true -> s2 = s)) secs secs2.
Proof.
  intros ND HA js secs H. induction H as [|i s js secs Hi _ IH]; [exists []; split; constructor|].
  destruct IH as (l2 & A & B). destruct (lookup_transport Z A0 inh L cr ND HA i s Hi) as (s2 & F2 & S2 & E2).
  exists (s2 :: l2). split; constructor; auto.
Qed.

Lemma multi_market_pot E m self acurs res others a b l Z Z' :
  sat E v vprev bv -> bv_zero bv -> winv J Z ->
  find_sec m Z = Some self -> Forall2 frame Z Z' -> Forall2 frame Z' (fs_zone E) ->
  sup_of m (j_sup J) = (res, others) ->
  supplier_currencies J Z (cur_of_sec J self) (map fst others ++ match res with Some r => [r] | None => [] end)%list = acurs ->
  acurs = a :: b :: l ->
  market_step J m self Z = Ok Z' ->
  multi_sem J (fs_zone E) m self acurs res others Z Z' = true ->
  div_quiet Z Z' = true ->
  forall c, c <> NUM -> pot2 v bv J bizsG c Z' = pot2 v bv J bizsG c Z.
Proof.
  intros HS HB WI Fs FR HF ES SC EA MS HOK DQ c Hc.
  pose proof (w_nodup _ _ WI) as ND.
  unfold multi_sem, multi_lookup, own_zone in HOK.
  set (hcur := cur_of_sec J self) in *. set (inh := in_zone (j_countries J) hcur) in *.
  set (rest := fun s : sector => negb (inh s)).
  apply andb_true_iff in HOK as [HOK HOK2]. apply andb_true_iff in HOK as [N1 N2].
  apply negb_true_iff in N1. apply String.eqb_neq in N1.
  assert (NaN : Forall (fun a0 => a0 <> NUM) acurs).
  { apply Forall_forall. intros a0 Ha0. rewrite forallb_forall in N2. specialize (N2 a0 Ha0). apply negb_true_iff in N2. now apply String.eqb_neq in N2. }
  destruct (multi_step J Z m self res others acurs WI Fs SC N1 NaN a b l Z' EA ES MS) as (Wm & MG & HOME & ABR & LED).
  fold hcur inh in MG, HOME, ABR. change (fun s : sector => negb (inh s)) with rest in MG.
  set (W := mkWorld (filter inh Z) (filter rest Z) (ledger_of J Z) []) in *.
  assert (DECL : forall i s, (List.In i (map fst others) \/ res = Some i) -> find_sec i (home W) = None -> find_sec i (abroad W) = Some s ->
            find_sec i Z = Some s /\ sec_currency J Z i = cur_of_sec J s /\ cur_of_sec J s <> hcur /\ cur_of_sec J s <> NUM /\
            List.In (cur_of_sec J s) (zones_of (j_countries J))).
  { intros i s. apply (declared_abroad J Z self res others acurs WI SC NaN). }
  unfold pot2, pot, netv. rewrite (dv_filter_quiet v bv J bizsG c _ _ DQ FR), LED.
  destruct (String.eqb_spec c hcur) as [->|Nch].
  - (* the market's own zone: the single-currency group theorem on the simulated run *)
    assert (Ha : List.In a acurs) by (rewrite EA; now left).
    assert (Nah : a <> hcur).
    { rewrite <- SC in Ha. unfold supplier_currencies in Ha. apply nodup_In in Ha. apply in_flat_map in Ha as (j & _ & Hj).
      destruct (find_sec j Z) as [sj|]; [|contradiction]. destruct (String.eqb_spec (cur_of_sec J sj) hcur) as [|Ne]; [contradiction|].
      destruct Hj as [<-|[]]. exact Ne. }
    assert (NaNUM : a <> NUM) by (rewrite Forall_forall in NaN; now apply NaN).
    destruct (multi_home_sim hcur a (sec_currency J Z) W m res others Wm MG Nah N1 NaNUM) as (A0 & Ws & SA & MGs & HWs & NTs).
    { intros i s Hi Fh Fa. destruct (DECL i s Hi Fh Fa) as (_ & E1 & N3 & N4 & _). rewrite E1. auto. }
    cbn [home abroad fxl crosses W] in SA, MGs.
    set (W2 := mkWorld (filter inh Z) A0 (ledger_of J Z) []) in *.
    assert (Fm : find_sec m (filter inh Z) = Some self) by (apply find_sec_filter; [exact Fs|apply inh_self_m]).
    rewrite Fm in HOK2.
    (* the residual supplier and the lookups: read off the simulated run *)
    pose proof MGs as MGu. apply mg_unfold in MGu as (mk & r & H1 & mk1 & H0 & fcs & Fm2 & TR & GD & F1 & U & _ & FM).
    cbn [home W2] in Fm2, TR. rewrite Fm in Fm2. injection Fm2 as <-. rewrite TR in HOK2.
    destruct (supply_fold_ops _ _ _ _ _ _ FM) as [_ RS]. rewrite sup_list_ids in RS.
    assert (RS2 : Forall (fun j => exists b0 s0, resolve W2 j = Ok (b0, s0)) (map fst others ++ [r])).
    { eapply resolves_static; [| |exact RS].
      - cbn [home with_home W2]. apply generate_demand_zq in GD. apply (zq_static (protP true)) in GD. cbn [home W2] in GD.
        transitivity (map static H1); [|exact GD].
        eapply (zq_static (protP true)). eapply (zq_upd (protP true)); [exact U|]. intros s s' E0. unfold opt_key in E0.
        destruct (set_rhs_terms s _ _) as [x|] eqn:E2; [|discriminate]. injection E0 as <-.
        eapply pq_set_rhs_terms; [|exact E2]. apply protP_sup.
      - reflexivity. }
    assert (INZ : Forall (fun j => exists s, find_sec j Z = Some s) (map fst others ++ [r])).
    { eapply Forall_impl; [|exact RS2]. intros j (b0 & s0 & R). unfold resolve in R. cbn [home abroad W2] in R.
      destruct (find_sec j (filter inh Z)) as [x|] eqn:Fx.
      - apply (find_filter inh Z j x ND) in Fx as [Fx _]. eauto.
      - destruct (find_sec j A0) as [x|] eqn:Fa; [|discriminate].
        pose proof (find_sec_static j _ _ SA) as X. rewrite Fa in X.
        destruct (find_sec j (filter rest Z)) as [y|] eqn:Fy; [|contradiction].
        apply (find_filter rest Z j y ND) in Fy as [Fy _]. eauto. }
    apply Forall_app in INZ as [IN1 IN2]. destruct (find_all_some _ _ IN1) as [osecs FA]. inversion IN2 as [|? ? [rs Frs] _]; subst.
    rewrite FA, Frs in HOK2.
    repeat (apply andb_true_iff in HOK2 as [HOK2 ?]).
    rename H into KP, H2 into KF, H3 into KC, H4 into KA, H5 into KS, H6 into KL, H7 into KD, H8 into KN. rename HOK2 into K1.
    set (ids := (map fst others ++ [r])%list) in *.
    apply find_all_spec in FA.
    assert (ALL : Forall2 (fun i s => find_sec i Z = Some s) ids (osecs ++ [rs])%list).
    { unfold ids. apply Forall2_app; [exact FA|]. constructor; [exact Frs|constructor]. }
    destruct (lookups_transport Z A0 inh (ledger_of J Z) [] ND SA _ _ FA) as (osecs2 & FA2 & REL).
    destruct (lookup_transport Z A0 inh (ledger_of J Z) [] ND SA r rs Frs) as (rs2 & FR2 & SR2 & ER2).
    fold W2 in FA2, FR2.
    assert (HomeIn : forall i s, List.In i ids -> find_sec i (filter inh Z) = Some s -> List.In s (osecs ++ [rs])%list /\ inh s = true).
    { intros i s Hi Hs. apply (find_filter inh Z i s ND) in Hs as [Hs P]. split; [|exact P].
      eapply Forall2_lookup_sec; [exact ALL|exact Hi|exact Hs]. }
    rewrite HOME in KP.
    assert (FRH : Forall2 frame (home Wm) (filter inh (fs_zone E))).
    { rewrite <- HOME. apply filter_frame; [apply in_zone_stable|exact HF]. }
    pose proof (market_zstep _ _ _ _ _ _ _ self MGs Fm) as ZS. cbn [home W2] in ZS. rewrite HWs in ZS.
    destruct (find_sec_zstep _ _ _ _ _ ZS Fm) as (mk' & Fm' & Fmk).
    assert (KH : forall s' n, List.In s' (home Wm) -> List.In n (market_sel self ids rs s') -> holds v bv s' n).
    { intros s' n. apply (kept_holds v vprev bv (mkFS (filter inh (fs_zone E)) [] []) _ (home Wm)).
      - intros s0 n0 Hs0 Hn0. cbn in Hs0. apply filter_In in Hs0 as [Hs0 _]. now apply HS.
      - exact KP.
      - exact FRH. }
    assert (MKsel : forall n, List.In n [sup_short self; dem_short self; alloc_name rs] -> holds v bv mk' n).
    { intros n Hn. apply KH; [eapply find_sec_In; exact Fm'|]. unfold market_sel.
      rewrite (find_sec_sid _ _ _ Fm'), (find_sec_sid _ _ _ Fm), Nat.eqb_refl. apply in_or_app. now left. }
    rewrite forallb_forall in K1, KA, KC, KF.
    assert (NM : Forall (fun i => i <> m) ids).
    { apply Forall_forall. intros i Hi. specialize (K1 i Hi). apply negb_true_iff in K1. now apply Nat.eqb_neq in K1. }
    assert (FCr : fullcode rs2 = fullcode rs) by (apply (static_fullcode _ _ SR2)).
    destruct (PropMarket.Market_bookings_cancel_fx hcur a v bv W2 Ws m res others self mk' r osecs2 rs2 MGs Fm TR NM
                (fun E0 => Nah (eq_sym E0)) N1 NaNUM) as [_ A2].
    assert (A2' : zsum (Fsum v) (home Ws) + tsum v (net_terms (fxl Ws) hcur) =
                  zsum (Fsum v) (home W2) + tsum v (net_terms (fxl W2) hcur)).
    { apply A2.
      - now apply nodupb_NoDup.
      - exact FA2.
      - exact FR2.
      - constructor.
        + split; now apply no_dunder_ok.
        + now apply no_dunder_ok.
        + apply Forall_forall. intros s2 Hs2. destruct (F2_In_r _ _ _ _ REL Hs2) as (s & Hs & St & _).
          apply no_dunder_ok. unfold alloc_name. rewrite (static_fullcode _ _ St). now apply KA.
        + apply Forall_forall. intros s2 Hs2. apply in_app_or in Hs2 as [Hs2|[<-|[]]].
          * destruct (F2_In_r _ _ _ _ REL Hs2) as (s & Hs & St & _). rewrite (static_fullcode _ _ St).
            assert (Hin : List.In s (osecs ++ [rs])%list) by (apply in_or_app; now left).
            specialize (KC s Hin). apply negb_true_iff in KC. now apply String.eqb_neq in KC.
          * rewrite FCr. assert (Hin : List.In rs (osecs ++ [rs])%list) by (apply in_or_app; right; now left).
            specialize (KC rs Hin). apply negb_true_iff in KC. now apply String.eqb_neq in KC.
        + intros i s Hi Hs. cbn [home W2] in Hs. destruct (HomeIn i s Hi Hs) as [Hin P].
          specialize (KF s Hin). fold inh in KF. rewrite P in KF. simpl in KF. apply andb_true_iff in KF as [A B].
          split; [now apply no_dunder_ok|]. unfold prior_eqn. now apply zero_eqn_val.
        + intros i s s' Hi Hs Hs'. cbn [home W2] in Hs. rewrite HWs in Hs'.
          destruct (find_sec_zstep _ _ _ _ _ ZS Hs) as (s2 & Hs2 & Fss). rewrite Hs' in Hs2. injection Hs2 as <-.
          assert (SN : supply_name self s' = supply_name self s).
          { unfold supply_name, share_parent. now rewrite (frame_country _ _ Fss). }
          rewrite <- SN. apply KH; [eapply find_sec_In; exact Hs'|]. unfold market_sel. apply in_or_app. right.
          assert (T : existsb (Nat.eqb (sid s')) ids = true).
          { apply existsb_exists. exists i. split; [exact Hi|]. rewrite (find_sec_sid _ _ _ Hs'). apply Nat.eqb_refl. }
          rewrite T. now left.
      - rewrite HWs. exact Fm'.
      - apply MKsel. now left.
      - apply MKsel. right. now left.
      - assert (AN : alloc_name rs2 = alloc_name rs) by (unfold alloc_name; now rewrite FCr). rewrite AN. apply MKsel. right. right. now left. }
    cbn [home fxl W2] in A2'. rewrite HWs, NTs in A2'.
    change (inz J hcur) with inh. rewrite HOME, <- !zsum_zone_F. unfold netv. lra.
  - (* another real zone: the credited amounts cancel against the new NET entries *)
    unfold inz. rewrite (ABR c Nch Hc).
    assert (SUBZ : filter (in_zone (j_countries J) c) Z = filter (in_zone (j_countries J) c) (filter rest Z)).
    { symmetry. apply filter_sub. intros s Hs. unfold rest, inh, in_zone in *.
      apply String.eqb_eq in Hs. rewrite Hs. apply negb_true_iff. apply String.eqb_neq. exact Nch. }
    rewrite SUBZ.
    pose proof (multi_abroad_pot v hcur (sec_currency J Z) (in_zone (j_countries J) c) c W m res others Wm MG) as AP.
    cbn [abroad fxl W] in AP.
    assert (AP' : zone_F v (filter (in_zone (j_countries J) c) (abroad Wm)) + tsum v (net_terms (fxl Wm) c) =
                  zone_F v (filter (in_zone (j_countries J) c) (filter rest Z)) + tsum v (net_terms (ledger_of J Z) c));
      [apply AP|lra].
    + now apply NoDup_map_filter_sid.
    + intros s s'. apply in_zone_frame.
    + exact Nch.
    + exact Hc.
    + intros i s Hi Fh Fa. destruct (DECL i s Hi Fh Fa) as (_ & E1 & N3 & _). rewrite E1. split; [exact N3|].
      unfold in_zone, cur_of_sec. split; [apply String.eqb_eq|intros ->; apply String.eqb_refl].
Qed.

End Sem2.
End MultiPot.
