(** The plumbing conjuncts of [no_conflict2] hold for EVERY program whose model run succeeds:
    [plumbing2_holds].  Assembly of Local.v, Foreign.v, GoldFlow.v, Final.v along the run. *)
From Coq Require Import List String Ascii Bool ZArith Arith Lia.
From SFC.Base Require Import Res Str.
From SFC.Gen Require Import Fx Zone.
From SFC.GenMarket Require Import Market MarketProofs.
From SFC.GenTax Require Import Tax TaxProofs Dividends.
From SFC.GenMain2 Require Import Program Classes Main Ledger MainProofs Names Conflict Program2 Main2 Ledger2 MainProofs2 Names2 Conflict2 Zones.
From SFC.GenOrder2 Require Import Plan2.
From SFC.GenPlumb Require Import FootDefs Foot Foot2 Constr Inv FxBook Split2 Local Final.
Import ListNotations.
Local Open Scope string_scope.

(** an invariant carried along a chain of steps, with a fact about every step *)
Lemma chain_carry {A B} (f : A -> B -> result A) (P : A -> Prop) (Q : B * A * A -> Prop) :
  (forall b a a', f a b = Ok a' -> P a -> P a' /\ Q (b, a, a')) ->
  forall tr a a', chain f tr a a' -> P a -> P a' /\ Forall Q tr.
Proof.
  intros H. induction tr as [|[[b x] y] tr IH]; intros a a' C Pa; inversion C; subst; [split; [exact Pa|constructor]|].
  match goal with Hf : f a b = Ok _, Hc : chain f tr _ a' |- _ => destruct (H _ _ _ Hf Pa) as [Py Qy]; destruct (IH _ _ Hc Py) as [Pz Qz] end.
  split; [exact Pz|constructor; assumption].
Qed.

Section Assembly.

(** the two families of steps proved in Foreign.v and GoldFlow.v *)
Hypothesis foreign_plumb_holds : forall J st i self acur res others st',
  winv J (h_zone st) -> find_sec i (h_zone st) = Some self -> sup_of i (j_sup J) = (res, others) ->
  supplier_currencies J (h_zone st) (cur_of_sec J self)
     (map fst others ++ match res with Some r => [r] | None => [] end)%list = [acur] ->
  gen_step2 J st (i, COld CMarket) = Ok st' ->
  foreign_plumb J i self acur res others (h_zone st) (h_zone st') = true.

Hypothesis gold_plumb_holds : forall J st i k self st',
  winv J (h_zone st) -> find_sec i (h_zone st) = Some self -> is_gold k = true ->
  gen_step2 J st (i, k) = Ok st' -> cur_of_sec J self <> NUM ->
  gold_ok J i self (h_zone st) (h_zone st') = true.

Hypothesis flow_plumb_holds : forall J Z f Z', winv J Z -> flow_step2 J Z f = Ok Z' -> flow_plumb2 J (f, Z, Z') = true.

Definition rinv (J : ginfo2) (Z : zone) : Prop := winv J Z /\ Forall nf Z.

Lemma gen_plumb2_holds J st i k st' : winv J (h_zone st) -> gen_step2 J st (i, k) = Ok st' ->
  gen_plumb2 J ((i, k), st, st') = true.
Proof.
  intros W GS. unfold gen_plumb2.
  destruct (find_sec i (h_zone st)) as [self|] eqn:F.
  2:{ unfold gen_step2 in GS. rewrite F in GS. discriminate. }
  assert (SAME : h_zone st' = h_zone st -> zone_eqb (h_zone st') (h_zone st) = true) by (intros ->; apply zone_eqb_refl).
  assert (GOLD : is_gold k = true -> String.eqb (cur_of_sec J self) NUM || gold_ok J i self (h_zone st) (h_zone st') = true).
  { intros G. destruct (String.eqb_spec (cur_of_sec J self) NUM) as [|N]; [reflexivity|]. cbn [orb].
    eapply gold_plumb_holds; eassumption. }
  assert (LOC : forall c, k = COld c ->
                  (c = CMarket -> supplier_currencies J (h_zone st) (cur_of_sec J self) (supplier_ids J i) = []) ->
                  local_plumb J i c self (h_zone st) (h_zone st') = true).
  { intros c -> HM. now destruct (local_plumb_holds J st i c self st' W F HM GS). }
  destruct k as [c|stock|t stock| | |]; try (apply GOLD; reflexivity);
    try (apply SAME; unfold gen_step2 in GS; rewrite F in GS; now injection GS as <-).
  destruct c; try (apply SAME; unfold gen_step2 in GS; rewrite F in GS; now injection GS as <-);
    try (apply (LOC _ eq_refl); discriminate).
  clear LOC GOLD SAME.
  destruct (sup_of i (j_sup J)) as [res others] eqn:ES.
  remember (supplier_currencies J (h_zone st) (cur_of_sec J self)
              (map fst others ++ match res with Some r => [r] | None => [] end)%list) as acurs eqn:SC.
  symmetry in SC. destruct acurs as [|a [|b l]].
  - assert (HM : CMarket = CMarket -> supplier_currencies J (h_zone st) (cur_of_sec J self) (supplier_ids J i) = []).
    { intros _. unfold supplier_ids. rewrite ES. exact SC. }
    now destruct (local_plumb_holds J st i CMarket self st' W F HM GS).
  - eapply foreign_plumb_holds; eassumption.
  - reflexivity.
Qed.

Theorem plumbing2_run p Rn : build_run2 p = Ok Rn -> plumb_free2 Rn = true.
Proof.
  intros HR. destruct (build_run2_inv _ _ HR) as (st & HC & HM).
  pose proof (construct_all2_cinv _ _ HC) as CI. pose proof (construct_all2_einv _ _ HC) as EI.
  destruct (main_run2_inv _ _ HM) as (gfin & Z1 & E0 & EI2 & C1 & M1 & C2 & C3 & M3 & _).
  set (J := q_info Rn) in *.
  pose proof (winv_zone02 _ _ CI EI) as W0. rewrite <- EI2 in W0. fold J in W0.
  pose proof (zone02_nt _ EI) as NT0.
  assert (R0 : rinv J (zone02 st)).
  { split; [exact W0|]. eapply Forall_impl; [|exact NT0]. apply nt_nf. }
  (* _GenerateEquations *)
  destruct (chain_carry (gen_step2 J) (fun s => rinv J (h_zone s)) (fun x => gen_plumb2 J x = true)
              (fun b a a' Hs Pa => ltac:(destruct b as [i k]; destruct Pa as [Wa Na]; split;
                 [split; [eapply winv_zq; [exact Wa|eapply gen_step2_zq_none; exact Hs]|
                          eapply znf_apply; [eapply gen_step2_znf; [exact Na|exact Hs]|exact Na]]|
                  eapply gen_plumb2_holds; eassumption]))
              _ _ _ C1 R0) as [R1 G1].
  cbn [h_zone] in R1.
  (* _GenerateRegisteredCashFlows *)
  destruct (chain_carry (flow_step2 J) (rinv J) (fun x => flow_plumb2 J x = true)
              (fun b a a' Hs Pa => ltac:(destruct Pa as [Wa Na]; split;
                 [split; [eapply winv_zq; [exact Wa|eapply flow_step2_zq_none; exact Hs]|
                          eapply znf_apply; [eapply flow_step2_znf; exact Hs|exact Na]]|
                  eapply flow_plumb_holds; eassumption]))
              _ _ _ C2 R1) as [R2 G2].
  (* _ProcessExogenous *)
  destruct (chain_carry exo_step (rinv J) (fun _ => True)
              (fun b a a' Hs Pa => ltac:(destruct Pa as [Wa Na]; split;
                 [split; [eapply winv_zq; [exact Wa|eapply exo_step_zq_none; exact Hs]|
                          eapply znf_apply; [eapply exo_step_znf; exact Hs|exact Na]]|exact Logic.I]))
              _ _ _ C3 R2) as [[W3 N3] _].
  unfold plumb_free2. fold J. rewrite E0.
  apply andb_true_iff. split; [apply andb_true_iff; split|].
  - apply forallb_forall. rewrite Forall_forall in G1. exact G1.
  - apply forallb_forall. rewrite Forall_forall in G2. exact G2.
  - apply final_plumb2_holds; assumption.
Qed.

Theorem plumbing2_all p : plumbing2 p = true.
Proof. unfold plumbing2. destruct (build_run2 p) as [Rn|] eqn:E; [|reflexivity]. eapply plumbing2_run; exact E. Qed.

End Assembly.
