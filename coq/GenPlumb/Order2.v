(** The STRUCTURAL conjuncts of GenOrder2's side condition [order_ok2] ("true by construction, checked
    not proved": [ops_ok2], [recv_ok2], the [iwf2_b] half of [initial_ok2], the operation part of
    [flows_ok2]) proved from the definitions of the plans and from the construction of the program,
    and the order-invariance theorems of GenOrder2/PropOrder2.v restated under the remaining
    conjuncts ([order_sem2]).

    What holds for EVERY program of [program2]:
      - [iwf2_holds]: after construction no equation of any sector has a duplicate summand;
      - [flow_plan2_ops_ok], [flows_ok2_of_plans]: the operations of the plans of registered flows;
      - [ops_ok2_home]: the part of [ops_ok2] about the sectors outside country "EXT";
      - [recv_ok2_of_ops]: [recv_ok2] follows from [ops_ok2].
    What does NOT hold for every program (witness [p_ext_firm]): the part of [ops_ok2] / [recv_ok2]
    about the sectors of a country called "EXT".  For such a sector EVERY equation counts as
    accumulating and PRecvDiv is not allowed; a user may declare a FixedMarginBusiness and a
    Capitalists sector in that country (or a market / tax flow / deposit market, whose DEM_ / T
    equations are installed from a list with one summand per sector FULL CODE, and full codes such as
    A_B + C / A + B_C may coincide).  That part ([ext_ops_ok2]) stays in [order_sem2]; it holds whenever
    the sectors of country EXT are the three sectors the ExternalSector creates ([ext_clean_b],
    [ext_clean_ops]). *)
From Coq Require Import List String Ascii Bool ZArith Arith Lia Permutation.
From SFC.Base Require Import Res Str.
From SFC.Gen Require Import Fx Zone.
From SFC.GenMarket Require Import Market MarketProofs.
From SFC.GenTax Require Import Tax TaxProofs Dividends.
From SFC.GenAsset Require Import Common Money Deposit Weighting.
From SFC.GenMain2 Require Import Program Classes Main MainProofs Program2 Main2 MainProofs2 Conflict Conflict2 Witness2.
From SFC.GenOrder Require Import Ops Plan PostPlan Check Static Static2 OpsProofs GenBase Sim KindDefs Equiv SysEquiv.
From SFC.GenOrder2 Require Import Perm2 CRel2 Enc ForeignDefs Plan2 Side2 ZoneRel2 PropOrder2.
From SFC.GenPlumb Require Import FootDefs Inv Constr Final.
Import ListNotations.
Local Open Scope string_scope.
Local Open Scope list_scope.

(* ------------------------------------------------------------------ *)
(** * Lists *)

Lemma forallb_map_all {A B} (P : B -> bool) (f : A -> B) l : (forall x, List.In x l -> P (f x) = true) -> forallb P (map f l) = true.
Proof. intros H. apply forallb_forall. intros y Hy. apply in_map_iff in Hy as (x & <- & Hx). now apply H. Qed.

Lemma forallb_flat_all {A B} (P : B -> bool) (f : A -> list B) l :
  (forall x, List.In x l -> forallb P (f x) = true) -> forallb P (flat_map f l) = true.
Proof.
  intros H. apply forallb_forall. intros y Hy. apply in_flat_map in Hy as (x & Hx & Hy).
  specialize (H x Hx). rewrite forallb_forall in H. now apply H.
Qed.

Lemma forallb_impl {A} (P Q : A -> bool) l : (forall x, List.In x l -> P x = true -> Q x = true) -> forallb P l = true -> forallb Q l = true.
Proof. intros H F. apply forallb_forall. intros x Hx. rewrite forallb_forall in F. apply H; auto. Qed.

(* ------------------------------------------------------------------ *)
(** * Names *)

Lemma acc_sup x : acc_name ("SUP_" ++ x) = true.
Proof. exact (acc_enc x). Qed.

Lemma supply_name_acc mk s : acc_name (supply_name mk s) = true.
Proof. unfold supply_name, sup_short. destruct (share_parent mk s); apply acc_sup. Qed.

Lemma wf_nodup_factors l : wf_terms l -> nodup_factors l = true.
Proof.
  unfold wf_terms. induction l as [|t r IH]; cbn [map nodup_factors]; intros H; [reflexivity|].
  inversion H as [|? ? N H']; subst. rewrite (IH H'), andb_true_r. apply negb_true_iff.
  match goal with |- ?x = false => destruct x eqn:E end; [|reflexivity]. exfalso. apply N.
  apply existsb_exists in E as (u & Hu & E). apply factors_eqb_eq in E. rewrite E. now apply in_map.
Qed.

Lemma nodup_add_term t l : nodup_factors l = true -> nodup_factors (add_term t l) = true.
Proof. intros H. apply wf_nodup_factors, wf_add_term. now apply nodup_factors_wf. Qed.

Lemma nodup_fold_add ts : forall l, nodup_factors l = true -> nodup_factors (fold_left (fun acc t => add_term t acc) ts l) = true.
Proof. induction ts as [|t r IH]; intros l H; cbn [fold_left]; [exact H|]. apply IH. now apply nodup_add_term. Qed.

Lemma residual_terms_nodup mk fcs : nodup_factors (residual_terms mk fcs) = true.
Proof.
  unfold residual_terms. generalize [(1%Z, [sup_short mk])] (eq_refl : nodup_factors [(1%Z, [sup_short mk])] = true).
  induction fcs as [|fc r IH]; intros l H; cbn [fold_left]; [exact H|]. apply IH. now apply nodup_add_term.
Qed.

Lemma market_dem_terms_nodup c issuer others : nodup_factors (market_dem_terms c issuer others []) = true.
Proof. unfold market_dem_terms. now apply nodup_fold_add. Qed.

(* ------------------------------------------------------------------ *)
(** * Three properties of an operation *)

(** fine for a sector of country EXT (every name counts as accumulating; no PRecvDiv) *)
Definition ext_b (o : pop) : bool := is_basic o && op_ok_b (enc_op o).

(** a sufficient condition that does not look at names *)
Definition strong_b (o : pop) : bool :=
  match o with
  | PAdd _ _ | PRequire _ => true
  | PSet _ e | PSetP _ e | PDefFresh _ e | PEnsure _ e => nodup_factors (terms e)
  | PRecvDiv _ => false
  end.

Lemma strong_ext o : strong_b o = true -> ext_b o = true.
Proof.
  destruct o as [n e|n e|n t|n e|n e|pf|n]; cbn [strong_b ext_b is_basic enc_op op_ok_b andb]; intros H;
    try rewrite acc_enc; auto.
Qed.

Lemma strong_all_ext l : forallb strong_b l = true -> forallb ext_b l = true.
Proof. apply forallb_impl. intros o _. apply strong_ext. Qed.

Lemma ok2_b_isx s o : isx s = true -> ok2_b s o = ext_b o.
Proof. unfold ok2_b, ext_b. now intros ->. Qed.

Lemma ok2_b_home s o : isx s = false -> ok2_b s o = op_ok_b o.
Proof. unfold ok2_b. now intros ->. Qed.

Lemma ext_b_basic o : ext_b o = true -> is_recv o = false.
Proof. destruct o; cbn; intros H; try reflexivity. discriminate H. Qed.

(** the bookings on F and INC *)
Lemma cash_home s t inc : forallb op_ok_b (cash s t inc) = true.
Proof. unfold cash. destruct (inc && negb _); reflexivity. Qed.

Lemma cash_strong s t inc : forallb strong_b (cash s t inc) = true.
Proof. unfold cash. destruct (inc && negb _); reflexivity. Qed.

Lemma cash_neutral s t inc : is_div_term t = false -> forallb div_neutral (cash s t inc) = true.
Proof. unfold cash. intros H. destruct (inc && negb _); cbn [forallb div_neutral]; rewrite H; reflexivity. Qed.

Lemma is_div_two c x y : is_div_term (c, [x; y]) = false.
Proof. unfold is_div_term. cbn. apply andb_false_r. Qed.

(* ------------------------------------------------------------------ *)
(** * The operation lists of the single-currency classes *)

Ltac fsplit := repeat (rewrite ?forallb_app; cbn [forallb];
                       repeat match goal with |- andb _ _ = true => apply andb_true_intro; split end);
               try match goal with |- true = true => reflexivity end.

(** ** households, multi-output firm *)

Lemma own_lops_home i rs s : forallb op_ok_b (own_lops i rs s) = true.
Proof.
  unfold own_lops. destruct (Nat.eqb _ _); [|reflexivity]. apply forallb_map_all. intros kt _.
  cbn [op_ok_b blob_eqn terms nodup_factors]. now destruct (acc_name _).
Qed.

Lemma own_lops_strong i rs s : sid s <> i -> forallb strong_b (own_lops i rs s) = true.
Proof. intros H. unfold own_lops. apply Nat.eqb_neq in H. now rewrite H. Qed.

Definition plain_names (rs : list (string * string)) : Prop :=
  forall kt, List.In kt rs -> ledger_name (fst kt) = false /\ String.eqb (fst kt) "DIV" = false.

Lemma own_lops_neutral i rs s : plain_names rs -> forallb div_neutral (own_lops i rs s) = true.
Proof.
  intros H. unfold own_lops. destruct (Nat.eqb _ _); [|reflexivity]. apply forallb_map_all. intros kt Hk.
  destruct (H kt Hk) as [A B]. cbn [div_neutral]. now rewrite A, B.
Qed.

(** ** Market *)

Definition nd_sups (sups : list (nat * sector * eqn)) : Prop :=
  forall x, List.In x sups -> nodup_factors (terms (snd x)) = true.

Lemma supply_ops_home mk s sup : forallb op_ok_b (supply_ops mk s sup) = true.
Proof.
  unfold supply_ops. fsplit; try apply cash_home; cbn [op_ok_b terms_eqn terms nodup_factors]; rewrite ?supply_name_acc; reflexivity.
Qed.

Lemma supply_ops_strong mk s sup : forallb strong_b (supply_ops mk s sup) = true.
Proof. unfold supply_ops. fsplit; try apply cash_strong; reflexivity. Qed.

Lemma supply_name_plain mk s : ledger_name (supply_name mk s) = false /\ String.eqb (supply_name mk s) "DIV" = false /\
  String.eqb (supply_name mk s) "F" = false /\ is_div_term (1%Z, [supply_name mk s]) = false.
Proof. unfold supply_name, sup_short. destruct (share_parent mk s); repeat split; reflexivity. Qed.

Lemma supply_ops_neutral mk s sup : forallb div_neutral (supply_ops mk s sup) = true.
Proof.
  destruct (supply_name_plain mk s) as (A & B & C & D).
  unfold supply_ops. fsplit; try (apply cash_neutral; exact D); cbn [div_neutral]; rewrite ?A, ?B, ?C; reflexivity.
Qed.

Lemma dem_name_plain mk s : ledger_name (Market.dem_name mk s) = false /\ String.eqb (Market.dem_name mk s) "DIV" = false /\
  is_div_term ((-1)%Z, [Market.dem_name mk s]) = false.
Proof. unfold Market.dem_name, dem_short, dem_long. destruct (share_parent mk s); repeat split; reflexivity. Qed.

Lemma demander_home mk s :
  forallb op_ok_b (let n := Market.dem_name mk s in if has_var s n then cash s ((-1)%Z, [n]) true ++ [PDefFresh n (terms_eqn [])] else []) = true.
Proof.
  cbv zeta. destruct (has_var _ _); [|reflexivity]. fsplit; try apply cash_home.
  cbn [op_ok_b terms_eqn terms nodup_factors]. now destruct (acc_name _).
Qed.

Lemma demander_strong mk s :
  forallb strong_b (let n := Market.dem_name mk s in if has_var s n then cash s ((-1)%Z, [n]) true ++ [PDefFresh n (terms_eqn [])] else []) = true.
Proof. cbv zeta. destruct (has_var _ _); [|reflexivity]. fsplit; try apply cash_strong; reflexivity. Qed.

Lemma demander_neutral mk s :
  forallb div_neutral (let n := Market.dem_name mk s in if has_var s n then cash s ((-1)%Z, [n]) true ++ [PDefFresh n (terms_eqn [])] else []) = true.
Proof.
  cbv zeta. destruct (dem_name_plain mk s) as (A & B & C). destruct (has_var _ _); [|reflexivity].
  fsplit; try (apply cash_neutral; exact C). cbn [div_neutral]. now rewrite A, B.
Qed.

(** the market's own part is the same in the domestic and in the foreign plan *)
Definition mk_own (mk : sector) (fulls : list string) (defs : list (string * eqn)) : list pop :=
  [PSet (dem_short mk) (terms_eqn []);
   PSetP (dem_short mk) (terms_eqn (map (fun f => (1%Z, [f])) fulls));
   PSetP (sup_short mk) (terms_eqn [(1%Z, [dem_short mk])])] ++ map (fun x => PSet (fst x) (snd x)) defs.

Lemma mk_own_home mk fulls defs : (forall x, List.In x defs -> nodup_factors (terms (snd x)) = true) ->
  forallb op_ok_b (mk_own mk fulls defs) = true.
Proof.
  intros H. unfold mk_own. fsplit; try reflexivity.
  - cbn [op_ok_b terms_eqn terms nodup_factors]. now destruct (acc_name _).
  - apply forallb_map_all. intros x Hx. cbn [op_ok_b]. rewrite (H x Hx). now destruct (acc_name _).
Qed.

Lemma mk_own_neutral mk fulls defs : (forall x, List.In x defs -> exists y, fst x = ("SUP_" ++ y)%string) ->
  forallb div_neutral (mk_own mk fulls defs) = true.
Proof.
  intros H. unfold mk_own. fsplit; try reflexivity.
  apply forallb_map_all. intros x Hx. destruct (H x Hx) as (y & ->). reflexivity.
Qed.

Lemma market_lops_own mk fulls sups s : Nat.eqb (sid s) (sid mk) = true ->
  market_lops mk fulls sups s = mk_own mk fulls (map (fun x => (alloc_name (snd (fst x)), snd x)) sups).
Proof. intros E. unfold market_lops, mk_own. rewrite E, map_map. reflexivity. Qed.

Lemma market_lops_home mk fulls sups s : nd_sups sups -> forallb op_ok_b (market_lops mk fulls sups s) = true.
Proof.
  intros H. destruct (Nat.eqb (sid s) (sid mk)) eqn:E.
  - rewrite (market_lops_own _ _ _ _ E). apply mk_own_home. intros x Hx. apply in_map_iff in Hx as (y & <- & Hy). now apply H.
  - unfold market_lops. rewrite E. fsplit; [apply demander_home|]. apply forallb_flat_all. intros x _.
    destruct (Nat.eqb (fst (fst x)) (sid s)); [apply supply_ops_home|reflexivity].
Qed.

Lemma market_lops_strong mk fulls sups s : sid s <> sid mk -> forallb strong_b (market_lops mk fulls sups s) = true.
Proof.
  intros E. apply Nat.eqb_neq in E. unfold market_lops. rewrite E. fsplit; [apply demander_strong|].
  apply forallb_flat_all. intros x _. destruct (Nat.eqb (fst (fst x)) (sid s)); [apply supply_ops_strong|reflexivity].
Qed.

Lemma market_lops_neutral mk fulls sups s : forallb div_neutral (market_lops mk fulls sups s) = true.
Proof.
  destruct (Nat.eqb (sid s) (sid mk)) eqn:E.
  - rewrite (market_lops_own _ _ _ _ E). apply mk_own_neutral. intros x Hx. apply in_map_iff in Hx as (y & <- & Hy).
    cbn [fst]. unfold alloc_name. eauto.
  - unfold market_lops. rewrite E. fsplit; [apply demander_neutral|]. apply forallb_flat_all. intros x _.
    destruct (Nat.eqb (fst (fst x)) (sid s)); [apply supply_ops_neutral|reflexivity].
Qed.

Lemma resolve_sups_nd Z : forall l r, resolve_sups Z l = Ok r ->
  (forall y, List.In y l -> nodup_factors (terms (snd y)) = true) -> nd_sups r.
Proof.
  induction l as [|[i e] l IH]; intros r H N; cbn [resolve_sups] in H.
  - injection H as <-. intros x [].
  - destruct (find_sec i Z) as [s|]; [|discriminate]. destruct (resolve_sups Z l) as [r'|] eqn:E; [|discriminate].
    cbn [bind] in H. injection H as <-. intros x [<-|Hx].
    + cbn [snd]. apply (N (i, e)). now left.
    + eapply IH; [reflexivity| |exact Hx]. intros y Hy. apply N. now right.
Qed.

Lemma nd_sups_app a b : nd_sups a -> nd_sups b -> nd_sups (a ++ b).
Proof. intros A B x Hx. apply in_app_or in Hx as [Hx|Hx]; auto. Qed.

Lemma others_nd (others : list (nat * string)) y :
  List.In y (map (fun o => (fst o, blob_eqn (snd o))) others) -> nodup_factors (terms (snd y)) = true.
Proof. intros Hy. apply in_map_iff in Hy as (o & <- & _). reflexivity. Qed.

(** ** TaxFlow *)

Lemma tax_lops_home me rt pt rm tf ts s : forallb op_ok_b (tax_lops me rt pt rm tf ts s) = true.
Proof. unfold tax_lops. destruct (is_payer me s), (sid_is me s), (code_is pt s); fsplit; try apply cash_home; reflexivity. Qed.

Lemma tax_lops_strong me rt pt rm tf ts s : sid s <> me -> forallb strong_b (tax_lops me rt pt rm tf ts s) = true.
Proof.
  intros E. apply Nat.eqb_neq in E. unfold tax_lops, sid_is. rewrite E.
  destruct (is_payer me s), (code_is pt s); fsplit; try apply cash_strong; reflexivity.
Qed.

Lemma tax_lops_neutral me rt pt rm tf ts s : forallb div_neutral (tax_lops me rt pt rm tf ts s) = true.
Proof.
  unfold tax_lops. destruct (is_payer me s), (sid_is me s), (code_is pt s); fsplit; try (apply cash_neutral; reflexivity); reflexivity.
Qed.

(** ** FixedMarginBusiness *)

Lemma firm_lops_home i rs cand pf cc s : forallb op_ok_b (firm_lops i rs cand pf cc s) = true.
Proof.
  unfold firm_lops. destruct (in_country cc s); [|reflexivity]. fsplit.
  - destruct (Nat.eqb _ _); [|reflexivity]. fsplit.
    + apply forallb_map_all. intros kt _. cbn [op_ok_b blob_eqn terms nodup_factors]. now destruct (acc_name _).
    + destruct cand; [|reflexivity]. fsplit; try apply cash_home; reflexivity.
  - destruct cand as [r|]; [|reflexivity]. destruct (Nat.eqb _ _); reflexivity.
Qed.

Lemma firm_lops_strong i rs cand pf cc s : in_country cc s = false -> forallb strong_b (firm_lops i rs cand pf cc s) = true.
Proof. intros E. unfold firm_lops. now rewrite E. Qed.

Lemma firm_lops_neutral i rs cand pf cc s : sid s <> i -> forallb div_neutral (firm_lops i rs cand pf cc s) = true.
Proof.
  intros E. apply Nat.eqb_neq in E. unfold firm_lops. rewrite E. destruct (in_country cc s); [|reflexivity].
  cbn [app]. destruct cand as [r|]; [|reflexivity]. destruct (Nat.eqb (sid s) r); reflexivity.
Qed.

(** the receiver's operation only goes to the candidate *)
Lemma firm_lops_recv i rs cand pf cc s : existsb is_recv (firm_lops i rs cand pf cc s) = true ->
  in_country cc s = true /\ cand = Some (sid s).
Proof.
  unfold firm_lops. destruct (in_country cc s); [|discriminate]. rewrite existsb_app. intros H. split; [reflexivity|].
  apply orb_true_iff in H as [H|H].
  - exfalso. destruct (Nat.eqb (sid s) i); [|discriminate]. rewrite existsb_app in H. apply orb_true_iff in H as [H|H].
    + apply existsb_exists in H as (o & Ho & R). apply in_map_iff in Ho as (kt & <- & _). discriminate.
    + destruct cand; [|discriminate]. unfold cash in H. cbn in H. discriminate.
  - destruct cand as [r|]; [|discriminate]. destruct (Nat.eqb_spec (sid s) r) as [->|]; [reflexivity|discriminate].
Qed.

(** ** MoneyMarket, DepositMarket *)

Lemma money_lops_home c issuer mk others s : forallb op_ok_b (money_lops c issuer mk others s) = true.
Proof.
  unfold money_lops. destruct (Nat.eqb _ _).
  - fsplit; [reflexivity|]. apply forallb_map_all. intros x _. cbn [op_ok_b terms_eqn terms]. now destruct (acc_name _).
  - destruct (negb (hasF s)); [reflexivity|]. destruct (String.eqb (code s) issuer).
    + cbn [forallb op_ok_b terms_eqn terms]. now destruct (acc_name _).
    + destruct (has_var _ _); reflexivity.
Qed.

Lemma money_lops_strong c issuer mk others s : sid s <> sid mk -> forallb strong_b (money_lops c issuer mk others s) = true.
Proof.
  intros E. apply Nat.eqb_neq in E. unfold money_lops. rewrite E. destruct (negb (hasF s)); [reflexivity|].
  destruct (String.eqb (code s) issuer); [reflexivity|]. destruct (has_var _ _); reflexivity.
Qed.

Lemma money_lops_neutral c issuer mk others s : forallb div_neutral (money_lops c issuer mk others s) = true.
Proof.
  unfold money_lops. destruct (Nat.eqb _ _).
  - fsplit; [reflexivity|]. apply forallb_map_all. intros x _. reflexivity.
  - destruct (negb (hasF s)); [reflexivity|]. destruct (String.eqb (code s) issuer); [reflexivity|]. destruct (has_var _ _); reflexivity.
Qed.

Lemma deposit_lops_home c issuer mk others s : forallb op_ok_b (deposit_lops c issuer mk others s) = true.
Proof.
  unfold deposit_lops. destruct (Nat.eqb _ _).
  - fsplit; try reflexivity. apply forallb_map_all. intros x _. cbn [op_ok_b terms_eqn terms]. now destruct (acc_name _).
  - destruct (is_market s); [reflexivity|]. destruct (String.eqb (code s) issuer).
    + fsplit; try apply cash_home; try reflexivity. cbn [op_ok_b terms_eqn terms]. now destruct (acc_name _).
    + destruct (has_var _ _); [|reflexivity]. fsplit; try apply cash_home; reflexivity.
Qed.

Lemma deposit_lops_strong c issuer mk others s : sid s <> sid mk -> forallb strong_b (deposit_lops c issuer mk others s) = true.
Proof.
  intros E. apply Nat.eqb_neq in E. unfold deposit_lops. rewrite E. destruct (is_market s); [reflexivity|].
  destruct (String.eqb (code s) issuer); [fsplit; try apply cash_strong; reflexivity|].
  destruct (has_var _ _); [|reflexivity]. fsplit; try apply cash_strong; reflexivity.
Qed.

Lemma deposit_lops_neutral c issuer mk others s : forallb div_neutral (deposit_lops c issuer mk others s) = true.
Proof.
  unfold deposit_lops. destruct (Nat.eqb _ _).
  - fsplit; try reflexivity. apply forallb_map_all. intros x _. reflexivity.
  - destruct (is_market s); [reflexivity|]. destruct (String.eqb (code s) issuer).
    + fsplit; try (apply cash_neutral; reflexivity); reflexivity.
    + destruct (has_var _ _); [|reflexivity]. fsplit; try (apply cash_neutral; reflexivity); reflexivity.
Qed.

(* ------------------------------------------------------------------ *)
(** * The plans of the single-currency classes (GenOrder's [plan]) *)

Ltac ok_inj H := injection H as <-.

Lemma market_plan_inv I Z i g : market_plan I Z i = Ok g ->
  exists mk fulls sups, find_sec i Z = Some mk /\ nd_sups sups /\ g = market_lops mk fulls sups.
Proof.
  unfold market_plan. destruct (find_sec i Z) as [mk|]; [|discriminate]. destruct (sup_of i (i_sup I)) as [res others].
  intros H. bind_step H r E1. bind_step H osecs E2. bind_step H rsec E3.
  destruct (existsb _ _); [discriminate|]. ok_inj H. exists mk, (market_fulls mk Z), (osecs ++ rsec). split; [reflexivity|]. split; [|reflexivity].
  apply nd_sups_app.
  - eapply resolve_sups_nd; [exact E2|]. apply others_nd.
  - eapply resolve_sups_nd; [exact E3|]. intros y [<-|[]]. apply residual_terms_nodup.
Qed.

Lemma wage_resets_plain mz wage margin lab msg : plain_names (wage_resets mz wage margin lab msg).
Proof. unfold wage_resets. destruct mz; [intros kt [<-|[]]|intros kt [<-|[<-|[]]]]; split; reflexivity. Qed.

Lemma alpha_plain ai af : plain_names [("AlphaIncome", ai); ("AlphaFin", af)].
Proof. intros kt [<-|[<-|[]]]; split; reflexivity. Qed.

Lemma multi_plain lab t : plain_names [(("DEM_" ++ lab)%string, t)].
Proof. intros kt [<-|[]]; split; reflexivity. Qed.

Theorem plan_home I Z ik g : plan I Z ik = Ok g -> forall s, forallb op_ok_b (g s) = true.
Proof.
  destruct ik as [i k]. unfold plan. destruct (find_sec i Z) as [self|] eqn:Fs; [|discriminate].
  destruct k as [| |t|ai af good lab|ai af good lab|ai af good|mz wage margin lab out|mz wage lab ms|rate paid| |issuer|issuer];
    intros H s; try (ok_inj H; try reflexivity; apply own_lops_home).
  - unfold firm_plan in H. destruct (find _ _) as [mk|]; [|discriminate]. destruct (has_var mk _); [|discriminate].
    ok_inj H. apply firm_lops_home.
  - destruct (existsb _ _); [discriminate|]. ok_inj H. apply own_lops_home.
  - unfold tax_plan in H. destruct (find _ Z); [|discriminate]. destruct (Nat.eqb _ 1); [|discriminate]. ok_inj H. apply tax_lops_home.
  - apply market_plan_inv in H as (mk & fulls & sups & _ & N & ->). now apply market_lops_home.
  - unfold money_plan in H. destruct (hasF self); [discriminate|]. destruct (Nat.eqb _ 1); [|discriminate]. ok_inj H. apply money_lops_home.
  - unfold deposit_plan in H. destruct (negb _); [discriminate|]. destruct (Nat.eqb _ 1); [|discriminate]. ok_inj H. apply deposit_lops_home.
Qed.

(** for a sector that is neither the caller nor in the caller's country the operations are fine whatever their names *)
Theorem plan_strong I Z i k g self : plan I Z (i, k) = Ok g -> find_sec i Z = Some self ->
  forall s, sid s <> i -> country s <> country self -> forallb strong_b (g s) = true.
Proof.
  unfold plan. intros H Fs s Ns Nc. rewrite Fs in H. pose proof (find_sec_sid _ _ _ Fs) as Es.
  destruct k as [| |t|ai af good lab|ai af good lab|ai af good|mz wage margin lab out|mz wage lab ms|rate paid| |issuer|issuer];
    try (ok_inj H; try reflexivity; now apply own_lops_strong).
  - unfold firm_plan in H. destruct (find _ _) as [mk|]; [|discriminate]. destruct (has_var mk _); [|discriminate].
    ok_inj H. apply firm_lops_strong. unfold in_country. now apply String.eqb_neq.
  - destruct (existsb _ _); [discriminate|]. ok_inj H. now apply own_lops_strong.
  - unfold tax_plan in H. destruct (find _ Z); [|discriminate]. destruct (Nat.eqb _ 1); [|discriminate]. ok_inj H. now apply tax_lops_strong.
  - apply market_plan_inv in H as (mk & fulls & sups & Fm & N & ->). rewrite Fs in Fm. injection Fm as <-.
    apply market_lops_strong. congruence.
  - unfold money_plan in H. destruct (hasF self); [discriminate|]. destruct (Nat.eqb _ 1); [|discriminate]. ok_inj H.
    apply money_lops_strong. congruence.
  - unfold deposit_plan in H. destruct (negb _); [discriminate|]. destruct (Nat.eqb _ 1); [|discriminate]. ok_inj H.
    apply deposit_lops_strong. congruence.
Qed.

(** only a FixedMarginBusiness books dividends, and only on itself *)
Theorem plan_neutral I Z i k g : plan I Z (i, k) = Ok g -> forall s, (is_fmb k = true -> sid s <> i) ->
  forallb div_neutral (g s) = true.
Proof.
  unfold plan. destruct (find_sec i Z) as [self|] eqn:Fs; [|discriminate]. intros H s Nf.
  destruct k as [| |t|ai af good lab|ai af good lab|ai af good|mz wage margin lab out|mz wage lab ms|rate paid| |issuer|issuer];
    try (ok_inj H; try reflexivity; apply own_lops_neutral; apply alpha_plain).
  - unfold firm_plan in H. destruct (find _ _) as [mk|]; [|discriminate]. destruct (has_var mk _); [|discriminate].
    ok_inj H. apply firm_lops_neutral. now apply Nf.
  - destruct (existsb _ _); [discriminate|]. ok_inj H. apply own_lops_neutral. apply multi_plain.
  - unfold tax_plan in H. destruct (find _ Z); [|discriminate]. destruct (Nat.eqb _ 1); [|discriminate]. ok_inj H. apply tax_lops_neutral.
  - apply market_plan_inv in H as (mk & fulls & sups & _ & N & ->). apply market_lops_neutral.
  - unfold money_plan in H. destruct (hasF self); [discriminate|]. destruct (Nat.eqb _ 1); [|discriminate]. ok_inj H. apply money_lops_neutral.
  - unfold deposit_plan in H. destruct (negb _); [discriminate|]. destruct (Nat.eqb _ 1); [|discriminate]. ok_inj H. apply deposit_lops_neutral.
Qed.

(** ** no class but the FixedMarginBusiness issues PRecvDiv *)

Lemma basic_norecv l : forallb is_basic l = true -> existsb is_recv l = false.
Proof.
  induction l as [|o l IH]; [reflexivity|]. cbn [forallb existsb]. intros B. apply andb_true_iff in B as [B1 B].
  rewrite (IH B). now destruct o.
Qed.

Lemma cash_basic s t inc : forallb is_basic (cash s t inc) = true.
Proof. unfold cash. destruct (inc && negb _); reflexivity. Qed.

Lemma own_lops_basic i rs s : forallb is_basic (own_lops i rs s) = true.
Proof. unfold own_lops. destruct (Nat.eqb _ _); [|reflexivity]. apply forallb_map_all. reflexivity. Qed.

Lemma supply_ops_basic mk s sup : forallb is_basic (supply_ops mk s sup) = true.
Proof. unfold supply_ops. fsplit; try apply cash_basic; reflexivity. Qed.

Lemma demander_basic mk s :
  forallb is_basic (let n := Market.dem_name mk s in if has_var s n then cash s ((-1)%Z, [n]) true ++ [PDefFresh n (terms_eqn [])] else []) = true.
Proof. cbv zeta. destruct (has_var _ _); [|reflexivity]. fsplit; try apply cash_basic; reflexivity. Qed.

Lemma mk_own_basic mk fulls defs : forallb is_basic (mk_own mk fulls defs) = true.
Proof. unfold mk_own. fsplit; try reflexivity. apply forallb_map_all. reflexivity. Qed.

Lemma market_lops_basic mk fulls sups s : forallb is_basic (market_lops mk fulls sups s) = true.
Proof.
  destruct (Nat.eqb (sid s) (sid mk)) eqn:E.
  - rewrite (market_lops_own _ _ _ _ E). apply mk_own_basic.
  - unfold market_lops. rewrite E. fsplit; [apply demander_basic|]. apply forallb_flat_all. intros x _.
    destruct (Nat.eqb (fst (fst x)) (sid s)); [apply supply_ops_basic|reflexivity].
Qed.

Lemma tax_lops_basic me rt pt rm tf ts s : forallb is_basic (tax_lops me rt pt rm tf ts s) = true.
Proof. unfold tax_lops. destruct (is_payer me s), (sid_is me s), (code_is pt s); fsplit; try apply cash_basic; reflexivity. Qed.

Lemma money_lops_basic c issuer mk others s : forallb is_basic (money_lops c issuer mk others s) = true.
Proof.
  unfold money_lops. destruct (Nat.eqb _ _).
  - fsplit; [reflexivity|]. apply forallb_map_all. reflexivity.
  - destruct (negb (hasF s)); [reflexivity|]. destruct (String.eqb (code s) issuer); [reflexivity|]. destruct (has_var _ _); reflexivity.
Qed.

Lemma deposit_lops_basic c issuer mk others s : forallb is_basic (deposit_lops c issuer mk others s) = true.
Proof.
  unfold deposit_lops. destruct (Nat.eqb _ _).
  - fsplit; try reflexivity. apply forallb_map_all. reflexivity.
  - destruct (is_market s); [reflexivity|]. destruct (String.eqb (code s) issuer).
    + fsplit; try apply cash_basic; reflexivity.
    + destruct (has_var _ _); [|reflexivity]. fsplit; try apply cash_basic; reflexivity.
Qed.

(** where a PRecvDiv comes from *)
Theorem plan_recv I Z i k g s : plan I Z (i, k) = Ok g -> existsb is_recv (g s) = true ->
  is_fmb k = true /\
  exists self r, find_sec i Z = Some self /\ in_country (country self) s = true /\
                 List.In r (filter (in_country (country self)) Z) /\ sid r = sid s /\
                 candidate (biz_ids I (filter (in_country (country self)) Z)) i r = true.
Proof.
  unfold plan. destruct (find_sec i Z) as [self|] eqn:Fs; [|discriminate]. intros H R.
  destruct k as [| |t|ai af good lab|ai af good lab|ai af good|mz wage margin lab out|mz wage lab ms|rate paid| |issuer|issuer].
  7:{ split; [reflexivity|]. unfold firm_plan in H. destruct (find _ _) as [mk|]; [|discriminate]. destruct (has_var mk _); [|discriminate].
      ok_inj H. apply firm_lops_recv in R as [C E]. exists self.
      destruct (find (candidate (biz_ids I (filter (in_country (country self)) Z)) i) (filter (in_country (country self)) Z)) as [r|] eqn:Fr;
        [|discriminate]. cbn [option_map] in E. injection E as E. apply find_some in Fr as [Hin Hc]. exists r. auto. }
  all: exfalso; assert (B : forallb is_basic (g s) = true); [|apply basic_norecv in B; congruence].
  all: try (ok_inj H; try reflexivity; apply own_lops_basic).
  - destruct (existsb _ _); [discriminate|]. ok_inj H. apply own_lops_basic.
  - unfold tax_plan in H. destruct (find _ Z); [|discriminate]. destruct (Nat.eqb _ 1); [|discriminate]. ok_inj H. apply tax_lops_basic.
  - apply market_plan_inv in H as (mk & fulls & sups & _ & N & ->). apply market_lops_basic.
  - unfold money_plan in H. destruct (hasF self); [discriminate|]. destruct (Nat.eqb _ 1); [|discriminate]. ok_inj H. apply money_lops_basic.
  - unfold deposit_plan in H. destruct (negb _); [discriminate|]. destruct (Nat.eqb _ 1); [|discriminate]. ok_inj H. apply deposit_lops_basic.
Qed.

Corollary plan_recv_class I Z i k g s : plan I Z (i, k) = Ok g -> existsb is_recv (g s) = true ->
  is_fmb k = true /\ is_fmb (class_of (i_classes I) (sid s)) = false.
Proof.
  intros H R. destruct (plan_recv _ _ _ _ _ _ H R) as (F & self & r & _ & _ & Hr & Er & C). split; [exact F|].
  rewrite <- Er. unfold candidate, is_biz in C. apply andb_true_iff in C as [C _]. apply negb_true_iff in C.
  apply orb_false_iff in C as [_ C]. destruct (is_fmb (class_of (i_classes I) (sid r))) eqn:K; [|reflexivity].
  exfalso. assert (X : existsb (Nat.eqb (sid r)) (biz_ids I (filter (in_country (country self)) Z)) = true); [|congruence].
  apply existsb_exists. exists (sid r). split; [|apply Nat.eqb_refl]. unfold biz_ids. apply in_map. apply filter_In. now split.
Qed.

(* ------------------------------------------------------------------ *)
(** * Foreign suppliers, gold standard, registered flows *)

Lemma foreign_supply_ops_home mk s t : forallb op_ok_b (foreign_supply_ops mk s t) = true.
Proof.
  unfold foreign_supply_ops. fsplit; try apply cash_home; cbn [op_ok_b terms_eqn terms nodup_factors]; rewrite ?supply_name_acc; reflexivity.
Qed.

Lemma foreign_supply_ops_strong mk s t : forallb strong_b (foreign_supply_ops mk s t) = true.
Proof. unfold foreign_supply_ops. fsplit; try apply cash_strong; reflexivity. Qed.

Lemma foreign_supply_ops_basic mk s t : forallb is_basic (foreign_supply_ops mk s t) = true.
Proof. unfold foreign_supply_ops. fsplit; try apply cash_basic; reflexivity. Qed.

Lemma foreign_supply_ops_neutral mk s hcur c x : forallb div_neutral (foreign_supply_ops mk s (credited hcur c x)) = true.
Proof.
  destruct (supply_name_plain mk s) as (A & B & C & D).
  unfold foreign_supply_ops, credited. fsplit; try (apply cash_neutral; apply is_div_two); cbn [div_neutral]; rewrite ?A, ?B, ?C; reflexivity.
Qed.

Lemma fx_ops_strong mk hcur x : forallb strong_b (fx_ops mk hcur x) = true.
Proof. unfold fx_ops. destruct (fs_cur x); reflexivity. Qed.
Lemma fx_ops_basic mk hcur x : forallb is_basic (fx_ops mk hcur x) = true.
Proof. unfold fx_ops. destruct (fs_cur x); reflexivity. Qed.
Lemma fx_ops_neutral mk hcur x : forallb div_neutral (fx_ops mk hcur x) = true.
Proof. unfold fx_ops. destruct (fs_cur x); reflexivity. Qed.

Lemma cross_ops_home hcur acurs : forallb op_ok_b (cross_ops hcur acurs) = true.
Proof. unfold cross_ops. apply forallb_map_all. intros a _. cbn [op_ok_b blob_eqn terms nodup_factors]. now destruct (acc_name _). Qed.
Lemma cross_ops_strong hcur acurs : forallb strong_b (cross_ops hcur acurs) = true.
Proof. unfold cross_ops. apply forallb_map_all. reflexivity. Qed.
Lemma cross_ops_basic hcur acurs : forallb is_basic (cross_ops hcur acurs) = true.
Proof. unfold cross_ops. apply forallb_map_all. reflexivity. Qed.

Definition nd_fsups (sups : list fsup) : Prop := forall x, List.In x sups -> nodup_factors (terms (fs_eqn x)) = true.

Lemma foreign_lops_own e mk hcur inh fulls sups acurs s : Nat.eqb (sid s) (sid mk) = true ->
  foreign_lops e mk hcur inh fulls sups acurs s = mk_own mk fulls (map (fun x => (alloc_name (fs_sec x), fs_eqn x)) sups).
Proof. intros E. unfold foreign_lops, mk_own. rewrite E, map_map. reflexivity. Qed.

Definition foreign_sup_part (mk : sector) (hcur : string) (s : sector) (x : fsup) : list pop :=
  if Nat.eqb (fs_id x) (sid s) then
    match fs_cur x with
    | None => supply_ops mk s (fs_sec x)
    | Some c => foreign_supply_ops mk s (credited hcur c (full_name mk (alloc_name (fs_sec x))))
    end
  else [].

Lemma foreign_lops_home e mk hcur inh fulls sups acurs s : nd_fsups sups -> Nat.eqb (sid s) (e_fx e) = false ->
  forallb op_ok_b (foreign_lops e mk hcur inh fulls sups acurs s) = true.
Proof.
  intros N X. destruct (Nat.eqb (sid s) (sid mk)) eqn:E.
  - rewrite (foreign_lops_own _ _ _ _ _ _ _ _ E). apply mk_own_home. intros x Hx. apply in_map_iff in Hx as (y & <- & Hy). now apply N.
  - unfold foreign_lops. rewrite E, X. fsplit.
    + destruct (inh s); [apply demander_home|reflexivity].
    + apply forallb_flat_all. intros x _. destruct (Nat.eqb (fs_id x) (sid s)); [|reflexivity].
      destruct (fs_cur x); [apply foreign_supply_ops_home|apply supply_ops_home].
    + destruct (Nat.eqb (sid s) (e_xr e)); [apply cross_ops_home|reflexivity].
Qed.

Lemma foreign_lops_strong e mk hcur inh fulls sups acurs s : sid s <> sid mk ->
  forallb strong_b (foreign_lops e mk hcur inh fulls sups acurs s) = true.
Proof.
  intros E. apply Nat.eqb_neq in E. unfold foreign_lops. rewrite E. fsplit.
  - destruct (inh s); [apply demander_strong|reflexivity].
  - apply forallb_flat_all. intros x _. destruct (Nat.eqb (fs_id x) (sid s)); [|reflexivity].
    destruct (fs_cur x); [apply foreign_supply_ops_strong|apply supply_ops_strong].
  - destruct (Nat.eqb (sid s) (e_fx e)); [|reflexivity]. apply forallb_flat_all. intros x _. apply fx_ops_strong.
  - destruct (Nat.eqb (sid s) (e_xr e)); [apply cross_ops_strong|reflexivity].
Qed.

Lemma foreign_lops_basic e mk hcur inh fulls sups acurs s : forallb is_basic (foreign_lops e mk hcur inh fulls sups acurs s) = true.
Proof.
  destruct (Nat.eqb (sid s) (sid mk)) eqn:E.
  - rewrite (foreign_lops_own _ _ _ _ _ _ _ _ E). apply mk_own_basic.
  - unfold foreign_lops. rewrite E. fsplit.
    + destruct (inh s); [apply demander_basic|reflexivity].
    + apply forallb_flat_all. intros x _. destruct (Nat.eqb (fs_id x) (sid s)); [|reflexivity].
      destruct (fs_cur x); [apply foreign_supply_ops_basic|apply supply_ops_basic].
    + destruct (Nat.eqb (sid s) (e_fx e)); [|reflexivity]. apply forallb_flat_all. intros x _. apply fx_ops_basic.
    + destruct (Nat.eqb (sid s) (e_xr e)); [apply cross_ops_basic|reflexivity].
Qed.

Lemma foreign_lops_neutral e mk hcur inh fulls sups acurs s : Nat.eqb (sid s) (e_xr e) = false ->
  forallb div_neutral (foreign_lops e mk hcur inh fulls sups acurs s) = true.
Proof.
  intros X. destruct (Nat.eqb (sid s) (sid mk)) eqn:E.
  - rewrite (foreign_lops_own _ _ _ _ _ _ _ _ E). apply mk_own_neutral. intros x Hx. apply in_map_iff in Hx as (y & <- & Hy).
    cbn [fst]. unfold alloc_name. eauto.
  - unfold foreign_lops. rewrite E, X. fsplit.
    + destruct (inh s); [apply demander_neutral|reflexivity].
    + apply forallb_flat_all. intros x _. destruct (Nat.eqb (fs_id x) (sid s)); [|reflexivity].
      destruct (fs_cur x); [apply foreign_supply_ops_neutral|apply supply_ops_neutral].
    + destruct (Nat.eqb (sid s) (e_fx e)); [|reflexivity]. apply forallb_flat_all. intros x _. apply fx_ops_neutral.
Qed.

Lemma foreign_plan_inv J Z i self g : foreign_plan J Z i self = Ok g ->
  exists e hcur inh fulls sups acurs, j_ext J = Some e /\ nd_fsups sups /\ g = foreign_lops e self hcur inh fulls sups acurs.
Proof.
  unfold foreign_plan. destruct (sup_of i (j_sup J)) as [res others]. intros H.
  bind_step H r E1. bind_step H osecs E2. bind_step H rsec E3.
  destruct (j_ext J) as [e|]; [|discriminate]. destruct (find_sec (e_fx e) Z) as [fx|]; [|discriminate].
  destruct (find_sec (e_xr e) Z) as [xr|]; [|discriminate]. destruct (foreign_guard _ _ _ _ _ _ _ _); [|discriminate]. ok_inj H.
  do 6 eexists. split; [reflexivity|]. split; [|reflexivity].
  intros x Hx. apply in_map_iff in Hx as (y & <- & Hy). unfold tag_sup, fs_eqn. cbn [fst snd].
  revert y Hy. change (nd_sups (osecs ++ rsec)). apply nd_sups_app.
  - eapply resolve_sups_nd; [exact E2|]. apply others_nd.
  - eapply resolve_sups_nd; [exact E3|]. intros y [<-|[]]. apply residual_terms_nodup.
Qed.

(** ** gold standard *)

Lemma gold_self_ops_home s b p x : forallb op_ok_b (gold_self_ops s b p x) = true.
Proof. unfold gold_self_ops. fsplit; try apply cash_home; reflexivity. Qed.
Lemma gold_self_ops_strong s b p x : forallb strong_b (gold_self_ops s b p x) = true.
Proof. unfold gold_self_ops. fsplit; try apply cash_strong; reflexivity. Qed.
Lemma gold_self_ops_basic s b p x : forallb is_basic (gold_self_ops s b p x) = true.
Proof. unfold gold_self_ops. fsplit; try apply cash_basic; reflexivity. Qed.
Lemma gold_self_ops_neutral s b p x : forallb div_neutral (gold_self_ops s b p x) = true.
Proof. unfold gold_self_ops. fsplit; try (apply cash_neutral; reflexivity); reflexivity. Qed.

Lemma gold_lops_home e i cur b p x full s : Nat.eqb (sid s) (e_gold e) = false -> Nat.eqb (sid s) (e_fx e) = false ->
  forallb op_ok_b (gold_lops e i cur b p x full s) = true.
Proof. intros A B. unfold gold_lops. rewrite A, B. fsplit. destruct (Nat.eqb (sid s) i); [apply gold_self_ops_home|reflexivity]. Qed.

Lemma gold_lops_strong e i cur b p x full s : forallb strong_b (gold_lops e i cur b p x full s) = true.
Proof.
  unfold gold_lops. fsplit.
  - destruct (Nat.eqb (sid s) i); [apply gold_self_ops_strong|reflexivity].
  - destruct (Nat.eqb (sid s) (e_gold e)); reflexivity.
  - destruct (Nat.eqb (sid s) (e_fx e)); reflexivity.
Qed.

Lemma gold_lops_basic e i cur b p x full s : forallb is_basic (gold_lops e i cur b p x full s) = true.
Proof.
  unfold gold_lops. fsplit.
  - destruct (Nat.eqb (sid s) i); [apply gold_self_ops_basic|reflexivity].
  - destruct (Nat.eqb (sid s) (e_gold e)); reflexivity.
  - destruct (Nat.eqb (sid s) (e_fx e)); reflexivity.
Qed.

Lemma gold_lops_neutral e i cur b p x full s : forallb div_neutral (gold_lops e i cur b p x full s) = true.
Proof.
  unfold gold_lops. fsplit.
  - destruct (Nat.eqb (sid s) i); [apply gold_self_ops_neutral|reflexivity].
  - destruct (Nat.eqb (sid s) (e_gold e)); reflexivity.
  - destruct (Nat.eqb (sid s) (e_fx e)); reflexivity.
Qed.

Lemma gold_plan_inv J Z i self g : gold_plan J Z i self = Ok g ->
  exists e cur b p x full, j_ext J = Some e /\ g = gold_lops e i cur b p x full.
Proof.
  unfold gold_plan. destruct (j_ext J) as [e|]; [|discriminate]. destruct (ext_distinct e i); [|discriminate].
  destruct (find_sec (e_fx e) Z) as [fx|]; [|discriminate]. destruct (find_sec (e_gold e) Z) as [gd|]; [|discriminate].
  destruct (find_sec (e_xr e) Z) as [xr|]; [|discriminate]. destruct (_ && _); [|discriminate]. intros H. ok_inj H.
  do 6 eexists. split; reflexivity.
Qed.

(** ** registered flows *)

Lemma flow_lops_home src tg full a b x : forallb op_ok_b (flow_lops src tg full a b x) = true.
Proof. unfold flow_lops. fsplit; match goal with |- context [if ?c then _ else _] => destruct c end; try apply cash_home; reflexivity. Qed.

Lemma flow_lops_strong src tg full a b x : forallb strong_b (flow_lops src tg full a b x) = true.
Proof. unfold flow_lops. fsplit; match goal with |- context [if ?c then _ else _] => destruct c end; try apply cash_strong; reflexivity. Qed.

Lemma flow_lops2_home e src tg cs ct full xrs cv a b x : Nat.eqb (sid x) (e_fx e) = false ->
  forallb op_ok_b (flow_lops2 e src tg cs ct full xrs cv a b x) = true.
Proof.
  intros X. unfold flow_lops2. rewrite X. fsplit.
  - destruct (Nat.eqb (sid x) src); [apply cash_home|reflexivity].
  - destruct (Nat.eqb (sid x) (e_xr e)); [|reflexivity]. cbn [forallb op_ok_b blob_eqn terms nodup_factors]. now destruct (acc_name _).
  - destruct (Nat.eqb (sid x) tg); [apply cash_home|reflexivity].
Qed.

Lemma flow_lops2_strong e src tg cs ct full xrs cv a b x : forallb strong_b (flow_lops2 e src tg cs ct full xrs cv a b x) = true.
Proof.
  unfold flow_lops2. fsplit.
  - destruct (Nat.eqb (sid x) src); [apply cash_strong|reflexivity].
  - destruct (Nat.eqb (sid x) (e_xr e)); reflexivity.
  - destruct (Nat.eqb (sid x) (e_fx e)); reflexivity.
  - destruct (Nat.eqb (sid x) tg); [apply cash_strong|reflexivity].
Qed.

(* ------------------------------------------------------------------ *)
(** * The plans of the multi-currency model ([plan2]) *)

Definition extcls (k : cls2) : bool := match k with CXR | CFX | CGOLD => true | _ => false end.

(** [s] carries none of the external sector's IDs *)
Definition off_ext (J : ginfo2) (s : sector) : Prop :=
  forall e, j_ext J = Some e ->
    Nat.eqb (sid s) (e_xr e) = false /\ Nat.eqb (sid s) (e_fx e) = false /\ Nat.eqb (sid s) (e_gold e) = false.

Lemma local_plan_inv J Z self ik g : local_plan J Z self ik = Ok g ->
  exists g0, plan (to_old J) (filter (inzone J (cur_of_sec J self)) Z) ik = Ok g0 /\ g = restrict (inzone J (cur_of_sec J self)) g0.
Proof. unfold local_plan. intros H. bind_step H g0 E. ok_inj H. now exists g0. Qed.

Lemma plan2_cases J Z i k g : plan2 J Z (i, k) = Ok g -> exists self, find_sec i Z = Some self /\
  (g = no_lops \/ (exists c, k = COld c /\ local_plan J Z self (i, c) = Ok g) \/
   foreign_plan J Z i self = Ok g \/ gold_plan J Z i self = Ok g).
Proof.
  unfold plan2. destruct (find_sec i Z) as [self|]; [|discriminate]. intros H. exists self. split; [reflexivity|].
  destruct k as [c|stock|t stock| | |]; try (right; right; right; exact H); try (left; now ok_inj H).
  destruct c; try (left; now ok_inj H); try (right; left; eexists; split; [reflexivity|exact H]).
  unfold market_plan2 in H. destruct (supplier_currencies _ _ _ _).
  - destruct (fx_outside _ _ _); [|discriminate]. right; left; eexists; split; [reflexivity|exact H].
  - right; right; left; exact H.
Qed.

Lemma find_filter_first {A} (p q : A -> bool) : forall l x, find p l = Some x -> q x = true -> find p (filter q l) = Some x.
Proof.
  induction l as [|a l IH]; intros x H Q; [discriminate|]. cbn [find] in H. destruct (p a) eqn:Pa.
  - injection H as ->. cbn [filter]. rewrite Q. cbn [find]. now rewrite Pa.
  - cbn [filter]. destruct (q a); [cbn [find]; rewrite Pa|]; now apply IH.
Qed.

Lemma inzone_self J self : inzone J (cur_of_sec J self) self = true.
Proof. unfold inzone, in_zone, cur_of_sec. apply String.eqb_refl. Qed.

Theorem plan2_home J Z ik g : plan2 J Z ik = Ok g -> forall s, off_ext J s -> forallb op_ok_b (g s) = true.
Proof.
  destruct ik as [i k]. intros H s X. apply plan2_cases in H as (self & Fs & [->|[(c & -> & H)|[H|H]]]).
  - reflexivity.
  - apply local_plan_inv in H as (g0 & H & ->). unfold restrict. destruct (inzone _ _ s); [|reflexivity]. eapply plan_home; exact H.
  - apply foreign_plan_inv in H as (e & hcur & inh & fulls & sups & acurs & Je & N & ->).
    apply foreign_lops_home; [exact N|]. apply (X e Je).
  - apply gold_plan_inv in H as (e & cur & b & p & x & full & Je & ->). destruct (X e Je) as (_ & A & B). now apply gold_lops_home.
Qed.

Theorem plan2_strong J Z i k g self : plan2 J Z (i, k) = Ok g -> find_sec i Z = Some self ->
  forall s, sid s <> i -> country s <> country self -> forallb strong_b (g s) = true.
Proof.
  intros H Fs s Ns Nc. apply plan2_cases in H as (self' & Fs' & H). rewrite Fs in Fs'. injection Fs' as <-.
  destruct H as [->|[(c & -> & H)|[H|H]]].
  - reflexivity.
  - apply local_plan_inv in H as (g0 & H & ->). unfold restrict. destruct (inzone _ _ s); [|reflexivity].
    eapply plan_strong; [exact H| |exact Ns|exact Nc]. apply find_filter_first; [exact Fs|apply inzone_self].
  - apply foreign_plan_inv in H as (e & hcur & inh & fulls & sups & acurs & Je & N & ->).
    apply foreign_lops_strong. rewrite (find_sec_sid _ _ _ Fs). exact Ns.
  - apply gold_plan_inv in H as (e & cur & b & p & x & full & Je & ->). apply gold_lops_strong.
Qed.

Theorem plan2_neutral J Z i k g : plan2 J Z (i, k) = Ok g -> forall s, off_ext J s ->
  (is_fmb (old_class k) = true -> sid s <> i) -> forallb div_neutral (g s) = true.
Proof.
  intros H s X Nf. apply plan2_cases in H as (self & Fs & [->|[(c & -> & H)|[H|H]]]).
  - reflexivity.
  - apply local_plan_inv in H as (g0 & H & ->). unfold restrict. destruct (inzone _ _ s); [|reflexivity].
    eapply plan_neutral; [exact H|exact Nf].
  - apply foreign_plan_inv in H as (e & hcur & inh & fulls & sups & acurs & Je & N & ->).
    apply foreign_lops_neutral. apply (X e Je).
  - apply gold_plan_inv in H as (e & cur & b & p & x & full & Je & ->). apply gold_lops_neutral.
Qed.

Theorem plan2_recv J Z i k g s : plan2 J Z (i, k) = Ok g -> existsb is_recv (g s) = true ->
  is_fmb (class_of (i_classes (to_old J)) (sid s)) = false.
Proof.
  intros H R. apply plan2_cases in H as (self & Fs & [->|[(c & -> & H)|[H|H]]]).
  - discriminate R.
  - apply local_plan_inv in H as (g0 & H & ->). unfold restrict in R. destruct (inzone _ _ s); [|discriminate R].
    now destruct (plan_recv_class _ _ _ _ _ _ H R).
  - apply foreign_plan_inv in H as (e & hcur & inh & fulls & sups & acurs & Je & N & ->).
    rewrite basic_norecv in R by apply foreign_lops_basic. discriminate.
  - apply gold_plan_inv in H as (e & cur & b & p & x & full & Je & ->).
    rewrite basic_norecv in R by apply gold_lops_basic. discriminate.
Qed.

Lemma plan2_extcls J Z i k g : extcls k = true -> plan2 J Z (i, k) = Ok g -> g = no_lops.
Proof.
  intros K. unfold plan2. destruct (find_sec i Z); [|discriminate]. destruct k; try discriminate K; intros H; now ok_inj H.
Qed.

(** the deliverable in one statement: the operations a plan gives to a sector [s] are fine for it when
    [s] carries an external ID only if it lies in country EXT, and — for a sector of country EXT — when
    the call is one of the three external classes, or comes from another sector outside country EXT *)
Theorem plan2_ops_ok J Z i k g : plan2 J Z (i, k) = Ok g -> forall s,
  (isx s = false -> off_ext J s) ->
  (isx s = true -> extcls k = true \/ (sid s <> i /\ forall self, find_sec i Z = Some self -> isx self = false)) ->
  forallb (ok2_b s) (g s) = true.
Proof.
  intros H s Hh He. destruct (isx s) eqn:X.
  - apply forallb_impl with (P := ext_b); [intros o _; now rewrite (ok2_b_isx _ _ X)|].
    destruct (He eq_refl) as [K|[Ns Hs]].
    + rewrite (plan2_extcls _ _ _ _ _ K H). reflexivity.
    + apply strong_all_ext. destruct (plan2_cases _ _ _ _ _ H) as (self & Fs & _).
      eapply plan2_strong; [exact H|exact Fs|exact Ns|]. specialize (Hs self Fs). unfold isx in X, Hs.
      apply String.eqb_eq in X. apply String.eqb_neq in Hs. congruence.
  - apply forallb_impl with (P := op_ok_b); [intros o _; now rewrite (ok2_b_home _ _ X)|].
    eapply plan2_home; [exact H|]. now apply Hh.
Qed.

(** ** registered flows *)

Theorem flow_plan2_ops_ok J Z x pl : flow_plan2 J Z x = Ok pl -> forall s, (isx s = false -> off_ext J s) ->
  forallb (ok2_b s) (pl s) = true.
Proof.
  destruct x as [[[[src tgt] var] a] b]. unfold flow_plan2. intros H s Hh.
  assert (G : forallb strong_b (pl s) = true /\ (isx s = false -> forallb op_ok_b (pl s) = true)).
  { destruct tgt as [tg|]; [|discriminate]. destruct (find_sec src Z) as [ss|]; [|discriminate].
    destruct (find_sec tg Z) as [t|]; [|discriminate]. destruct (String.eqb _ _).
    - destruct (has_var ss var); [|discriminate]. ok_inj H. split; [apply flow_lops_strong|intros _; apply flow_lops_home].
    - destruct (j_ext J) as [e|] eqn:Je; [|discriminate]. destruct (has_var ss var); [|discriminate].
      destruct (_ && _); [|discriminate]. destruct (find_sec (e_xr e) Z) as [xr|]; [|discriminate].
      destruct (find_sec (e_fx e) Z); [|discriminate]. destruct (has_var xr _); [|discriminate]. ok_inj H.
      split; [apply flow_lops2_strong|]. intros X. apply flow_lops2_home. apply (Hh X e Je). }
  destruct G as [G1 G2]. destruct (isx s) eqn:X.
  - apply forallb_impl with (P := ext_b); [intros o _; now rewrite (ok2_b_isx _ _ X)|]. now apply strong_all_ext.
  - apply forallb_impl with (P := op_ok_b); [intros o _; now rewrite (ok2_b_home _ _ X)|]. now apply G2.
Qed.

(* ------------------------------------------------------------------ *)
(** * The checks of Side2.v *)

(** a sector outside country EXT carries none of the external sector's IDs (true after construction: [kzone0_ext_ids]) *)
Definition ext_ids_ok (J : ginfo2) (Z : zone) : Prop := forall s, List.In s Z -> isx s = false -> off_ext J s.

(** the classes of the call list are those of the class table (true of [gen_list2]) *)
Definition classes_ok (J : ginfo2) (L : list (nat * cls2)) : Prop :=
  forall ik, List.In ik L -> snd ik = class_of2 (j_classes J) (fst ik).

(** the part of [ops_ok2] that is about the sectors of country EXT *)
Definition ext_ops_ok2 (J : ginfo2) (Z : zone) (L : list (nat * cls2)) : bool :=
  forallb (fun s => if isx s then forallb (ok2_b s) (all_ops2 J Z L s) else true) Z.

(** the sectors of country EXT are the sectors of the ExternalSector *)
Definition ext_clean_b (cl : list cls2) (Z : zone) : bool :=
  forallb (fun s => negb (isx s) || extcls (class_of2 cl (sid s))) Z.

Lemma plan_of2_all (P : pop -> bool) J Z ik s :
  (forall g, plan2 J Z ik = Ok g -> forallb P (g s) = true) -> forallb P (plan_of2 J Z ik s) = true.
Proof. unfold plan_of2. destruct (plan2 J Z ik) as [g|]; [intros H; now apply H|reflexivity]. Qed.

Theorem ops_ok2_home J Z L : ext_ids_ok J Z -> forall s, List.In s Z -> isx s = false -> forallb (ok2_b s) (all_ops2 J Z L s) = true.
Proof.
  intros X s Hs Xs. unfold all_ops2. apply forallb_flat_all. intros [i k] _. apply plan_of2_all. intros g H.
  eapply plan2_ops_ok; [exact H|intros _; now apply X|]. rewrite Xs. discriminate.
Qed.

Theorem ops_ok2_ext J Z L : ext_ids_ok J Z -> ops_ok2 J Z L = ext_ops_ok2 J Z L.
Proof.
  intros X. unfold ops_ok2, ext_ops_ok2. apply eq_true_iff_eq. rewrite !forallb_forall. split; intros H s Hs.
  - specialize (H s Hs). now destruct (isx s).
  - destruct (isx s) eqn:Xs; [specialize (H s Hs); now rewrite Xs in H|]. now apply ops_ok2_home.
Qed.

Theorem ext_clean_ops J Z L : classes_ok J L -> ext_clean_b (j_classes J) Z = true -> ext_ops_ok2 J Z L = true.
Proof.
  intros CK C. unfold ext_ops_ok2. apply forallb_forall. intros s Hs. destruct (isx s) eqn:Xs; [|reflexivity].
  unfold ext_clean_b in C. rewrite forallb_forall in C.
  assert (KX : forall s', List.In s' Z -> isx s' = true -> extcls (class_of2 (j_classes J) (sid s')) = true).
  { intros s' Hs' X'. specialize (C s' Hs'). now rewrite X' in C. }
  unfold all_ops2. apply forallb_flat_all. intros [i k] Hik. apply plan_of2_all. intros g H.
  pose proof (CK _ Hik) as Ek. cbn [fst snd] in Ek.
  eapply plan2_ops_ok; [exact H|rewrite Xs; discriminate|]. intros _.
  destruct (plan2_cases _ _ _ _ _ H) as (self & Fs & _). pose proof (find_sec_sid _ _ _ Fs) as Es. pose proof (find_sec_In _ _ _ Fs) as Hin.
  destruct (isx self) eqn:Xf.
  - left. rewrite Ek, <- Es. now apply KX.
  - destruct (Nat.eq_dec (sid s) i) as [E|N].
    + left. rewrite Ek, <- E. now apply KX.
    + right. split; [exact N|]. intros self' Fs'. rewrite Fs in Fs'. now injection Fs' as <-.
Qed.

Lemma class_of_old cl n : class_of (map old_class cl) n = old_class (class_of2 cl n).
Proof. unfold class_of, class_of2. change CGov with (old_class (COld CGov)). apply map_nth. Qed.

Lemma recv_flag2_source J Z L s : recv_flag2 J Z L s = true ->
  exists i k g, List.In (i, k) L /\ plan2 J Z (i, k) = Ok g /\ existsb is_recv (g s) = true.
Proof.
  unfold recv_flag2, all_ops2. intros H. apply existsb_exists in H as (o & Ho & R). apply in_flat_map in Ho as ([i k] & Hik & Ho).
  unfold plan_of2 in Ho. destruct (plan2 J Z (i, k)) as [g|] eqn:P; [|contradiction]. exists i, k, g. split; [exact Hik|]. split; [exact P|].
  apply existsb_exists. now exists o.
Qed.

(** [recv_ok2] follows from [ops_ok2] *)
Theorem recv_ok2_of_ops J Z L : ext_ids_ok J Z -> classes_ok J L -> ops_ok2 J Z L = true -> recv_ok2 J Z L = true.
Proof.
  intros X CK O. unfold recv_ok2. apply forallb_forall. intros s Hs. destruct (recv_flag2 J Z L s) eqn:R; [|reflexivity].
  unfold ops_ok2 in O. rewrite forallb_forall in O. specialize (O s Hs).
  destruct (isx s) eqn:Xs.
  - exfalso. unfold recv_flag2 in R. rewrite basic_norecv in R; [discriminate|].
    revert O. apply forallb_impl. intros o _. rewrite (ok2_b_isx _ _ Xs). unfold ext_b. intros B. now apply andb_true_iff in B as [B _].
  - cbn [negb andb]. destruct (recv_flag2_source _ _ _ _ R) as (i & k & g & Hik & P & Rg).
    pose proof (plan2_recv _ _ _ _ _ _ P Rg) as NF. unfold to_old in NF. cbn [i_classes] in NF. rewrite class_of_old in NF.
    unfold all_ops2. apply forallb_flat_all. intros [i' k'] Hik'. apply plan_of2_all. intros g' P'.
    eapply plan2_neutral; [exact P'|now apply X|]. intros F E. pose proof (CK _ Hik') as Ek. cbn [fst snd] in Ek.
    rewrite Ek, <- E in F. congruence.
Qed.

(** the operations of the registered flows *)
Theorem flow_ok_on_of_plan J Z x : ext_ids_ok J Z -> is_ok (flow_plan2 J Z x) = true -> flow_ok_on J Z x = true.
Proof.
  intros X H. unfold flow_ok_on. destruct (flow_plan2 J Z x) as [pl|] eqn:P; [|discriminate].
  apply forallb_forall. intros s Hs. eapply flow_plan2_ops_ok; [exact P|]. now apply X.
Qed.

Lemma flow_ok_on_plan J Z x : flow_ok_on J Z x = true -> is_ok (flow_plan2 J Z x) = true.
Proof. unfold flow_ok_on. now destruct (flow_plan2 J Z x). Qed.

(* ------------------------------------------------------------------ *)
(** * Construction: no equation of any sector has a duplicate summand *)

Definition ndb (ne : string * eqn) : bool := nodup_factors (terms (snd ne)).
Definition allnd (s : sector) : Prop := forallb ndb (vars s) = true.

Lemma set_var_nd n e : nodup_factors (terms e) = true -> forall vs, forallb ndb vs = true -> forallb ndb (set_var n e vs) = true.
Proof.
  intros N. induction vs as [|[k e'] r IH]; cbn [set_var forallb]; intros H.
  - unfold ndb at 1. cbn [snd]. now rewrite N.
  - apply andb_true_iff in H as [H1 H2]. destruct (String.eqb n k); cbn [forallb].
    + unfold ndb at 1. cbn [snd]. now rewrite N, H2.
    + now rewrite H1, IH.
Qed.

Lemma allnd_set s n e : nodup_factors (terms e) = true -> allnd s -> allnd (with_vars s (set_var n e (vars s))).
Proof. intros N A. unfold allnd. cbn [vars with_vars]. now apply set_var_nd. Qed.

Lemma allnd_lookup s n e : allnd s -> lookup_var n (vars s) = Some e -> nodup_factors (terms e) = true.
Proof.
  unfold allnd. induction (vars s) as [|[k e'] r IH]; cbn [forallb lookup_var]; intros A L; [discriminate|].
  apply andb_true_iff in A as [A1 A2]. destruct (String.eqb n k); [injection L as <-; exact A1|now apply IH].
Qed.

Lemma allnd_add_variable s n b : allnd s -> allnd (add_variable s n b).
Proof. apply allnd_set. reflexivity. Qed.

Lemma allnd_addv s n t s' : addv s n t = Ok s' -> allnd s -> allnd s'.
Proof. unfold addv. destruct (has_substring "__" n); [discriminate|]. intros H. ok_inj H. apply allnd_add_variable. Qed.

Lemma allnd_addvs : forall l s s', addvs s l = Ok s' -> allnd s -> allnd s'.
Proof.
  induction l as [|[n t] l IH]; intros s s' H A; cbn [addvs] in H; [now ok_inj H|].
  bind_step H s1 E. eapply IH; [exact H|]. eapply allnd_addv; eassumption.
Qed.

Lemma allnd_set_rhs s n b s' : set_rhs s n b = Some s' -> allnd s -> allnd s'.
Proof. unfold set_rhs. destruct (lookup_var n (vars s)); [|discriminate]. intros H. injection H as <-. apply allnd_set. reflexivity. Qed.

Lemma allnd_add_term_to_eq s n t s' : add_term_to_eq s n t = Some s' -> allnd s -> allnd s'.
Proof.
  unfold add_term_to_eq. destruct (lookup_var n (vars s)) as [e|] eqn:L; [|discriminate]. intros H A. injection H as <-.
  apply allnd_set; [|exact A]. cbn [terms]. apply nodup_add_term. eapply allnd_lookup; eassumption.
Qed.

Lemma allnd_def_variable s n ts : nodup_factors ts = true -> allnd s -> allnd (def_variable s n ts).
Proof. intros N. apply allnd_set. exact N. Qed.

Lemma allnd_add_market s m s' : add_market s m = Ok s' -> allnd s -> allnd s'.
Proof.
  unfold add_market. intros H A. bind_step H s1 E1. destruct (add_term_to_eq s1 "SUP" _) as [s2|] eqn:E2; [|discriminate]. ok_inj H.
  eapply allnd_add_term_to_eq; [exact E2|]. eapply allnd_addv; eassumption.
Qed.

Lemma allnd_add_markets : forall l s s', add_markets s l = Ok s' -> allnd s -> allnd s'.
Proof.
  induction l as [|m l IH]; intros s s' H A; cbn [add_markets] in H; [now ok_inj H|].
  bind_step H s1 E. eapply IH; [exact H|]. eapply allnd_add_market; eassumption.
Qed.

(** the residual weight: 1 minus one term per DISTINCT key of the dict *)
Lemma dict_set_keys k v : forall d, NoDup (map fst d) ->
  NoDup (map fst (dict_set k v d)) /\ (forall x, List.In x (map fst (dict_set k v d)) -> x = k \/ List.In x (map fst d)).
Proof.
  induction d as [|[k' v'] r IH]; cbn [dict_set map fst]; intros N.
  - split; [constructor; [intros []|constructor]|]. intros x [<-|[]]. now left.
  - inversion N as [|? ? N1 N2]; subst. destruct (String.eqb_spec k k') as [->|Nk]; cbn [map fst].
    + split; [exact N|]. intros x Hx. now right.
    + destruct (IH N2) as [I1 I2]. split.
      * constructor; [|exact I1]. intros Hin. destruct (I2 _ Hin) as [E|Hin']; [now apply Nk|now apply N1].
      * intros x [<-|Hx]; [right; now left|]. destruct (I2 _ Hx) as [E|Hin']; [now left|right; now right].
Qed.

Lemma dict_of_pairs_nodup ws : NoDup (map fst (dict_of_pairs ws)).
Proof.
  unfold dict_of_pairs. assert (G : forall d, NoDup (map fst d) -> NoDup (map fst (fold_left (fun d kv => dict_set (fst kv) (snd kv) d) ws d))).
  { induction ws as [|kv r IH]; intros d N; cbn [fold_left]; [exact N|]. apply IH. now apply dict_set_keys. }
  apply G. constructor.
Qed.

Lemma weighting_loop_spec : forall d s resid s' r', weighting_loop s d resid = Ok (s', r') ->
  (allnd s -> allnd s') /\ r' = resid ++ map (fun cw => ((-1)%Z, [wgt_name (fst cw)])) d.
Proof.
  induction d as [|[c w] d IH]; intros s resid s' r' H; cbn [weighting_loop] in H.
  - injection H as <- <-. split; [auto|]. now rewrite app_nil_r.
  - destruct (has_substring "__" (wgt_name c)); [discriminate|]. destruct (has_substring "__" (Common.dem_name c)); [discriminate|].
    apply IH in H as [H1 ->]. split.
    + intros A. apply H1. apply allnd_def_variable; [reflexivity|]. now apply allnd_add_variable.
    + cbn [map fst]. now rewrite <- app_assoc.
Qed.

Lemma resid_nodup (d : list (string * string)) : NoDup (map fst d) ->
  nodup_factors ([(1%Z, [])] ++ map (fun cw => ((-1)%Z, [wgt_name (fst cw)])) d) = true.
Proof.
  intros N. apply wf_nodup_factors. unfold wf_terms. cbn [app map snd]. constructor.
  - intros Hin. rewrite map_map in Hin. apply in_map_iff in Hin as (x & Hx & _). discriminate Hx.
  - rewrite map_map. cbn [snd]. induction d as [|[c w] r IH]; cbn [map fst] in *; [constructor|].
    inversion N as [|? ? N1 N2]; subst. constructor; [|now apply IH].
    intros Hin. apply in_map_iff in Hin as ([c' w'] & E & Hin). cbn [fst] in E. apply N1.
    unfold wgt_name in E. injection E as E. apply (in_map fst) in Hin. cbn [fst] in Hin.
    assert (c' = c); [|now subst]. revert E. clear. revert c. induction c' as [|a c' IH]; intros [|b c]; cbn; intros E; try discriminate; [reflexivity|].
    now injection E as -> ->.
Qed.

Lemma allnd_asset_weighting s ws res s' : asset_weighting s ws res false = Ok s' -> allnd s -> allnd s'.
Proof.
  unfold asset_weighting. intros H A.
  destruct (weighting_loop s (dict_of_pairs ws) [(1%Z, [])]) as [[s1 resid]|] eqn:E; [|discriminate]. cbn [bind] in H.
  destruct (has_substring "__" (wgt_name res)); [discriminate|]. destruct (has_substring "__" (Common.dem_name res)); [discriminate|].
  ok_inj H. apply weighting_loop_spec in E as [E1 ->].
  apply allnd_def_variable; [reflexivity|]. apply allnd_def_variable; [|now apply E1].
  apply resid_nodup. apply dict_of_pairs_nodup.
Qed.

Lemma allnd_base i c cc f t m ex : allnd (base_sector i c cc f t m ex).
Proof. unfold allnd, base_sector. cbn [vars]. destruct f; reflexivity. Qed.

Lemma construct_allnd i cc c k mrefs s : construct i cc c k mrefs = Ok s -> allnd s.
Proof.
  assert (BH : forall ai af good s0, base_household i c cc ai af good = Ok s0 -> allnd s0).
  { intros ai af good s0 H. unfold base_household in H. eapply allnd_addvs; [exact H|apply allnd_base]. }
  assert (BM : forall s0, base_market i c cc = Ok s0 -> allnd s0).
  { intros s0 H. unfold base_market in H. eapply allnd_addvs; [exact H|apply allnd_base]. }
  destruct k; unfold construct; intros H.
  - eapply allnd_addvs; [exact H|apply allnd_base].
  - eapply allnd_addvs; [exact H|apply allnd_base].
  - eapply allnd_addvs; [exact H|apply allnd_base].
  - bind_step H s1 E. eapply allnd_addv; [exact H|]. eapply BH; exact E.
  - bind_step H s1 E. bind_step H s2 E2. destruct (set_rhs s2 _ _) as [s3|] eqn:E3; [|discriminate].
    eapply allnd_addvs; [exact H|]. eapply allnd_set_rhs; [exact E3|]. eapply allnd_addv; [exact E2|]. eapply BH; exact E.
  - bind_step H s1 E. eapply allnd_addv; [exact H|]. eapply BH; exact E.
  - eapply allnd_addvs; [exact H|apply allnd_base].
  - bind_step H s1 E. bind_step H s2 E2. eapply allnd_addvs; [exact H|]. eapply allnd_add_markets; [exact E2|].
    eapply allnd_addv; [exact E|apply allnd_base].
  - eapply allnd_addvs; [exact H|apply allnd_base].
  - now apply BM.
  - now apply BM.
  - bind_step H s1 E. eapply allnd_addvs; [exact H|]. now apply BM.
Qed.

Lemma construct2_allnd i cc c k mrefs s : construct2 i cc c k mrefs = Ok s -> allnd s.
Proof.
  destruct k; unfold construct2; try apply construct_allnd.
  all: intros H; ok_inj H; apply allnd_base.
Qed.

Lemma upd_Forall (P : sector -> Prop) i f : (forall s s', f s = Ok s' -> P s -> P s') ->
  forall Z Z', upd i f Z = Ok Z' -> Forall P Z -> Forall P Z'.
Proof.
  intros Hf. induction Z as [|a r IH]; intros Z' H F; cbn [upd] in H; [discriminate|].
  inversion F as [|? ? Pa Fr]; subst. destruct (Nat.eqb (sid a) i).
  - destruct (f a) as [a'|] eqn:Fa; [|discriminate]. ok_inj H. constructor; [eapply Hf; eassumption|exact Fr].
  - destruct (upd i f r) as [r'|]; [|discriminate]. ok_inj H. constructor; [exact Pa|now apply IH].
Qed.

Lemma on_sector_Forall (P : sector -> Prop) i f Z Z' : (forall s s', f s = Ok s' -> P s -> P s') ->
  on_sector i f Z = Ok Z' -> Forall P Z -> Forall P Z'.
Proof. unfold on_sector. intros Hf. destruct (find_sec i Z); [|discriminate]. now apply upd_Forall. Qed.

Lemma register_currency_nd e cur SL SL' : register_currency e cur SL = Ok SL' -> Forall allnd SL -> Forall allnd SL'.
Proof.
  unfold register_currency. intros H F. bind_step H S1 E1.
  eapply on_sector_Forall; [|exact H|]; [intros s s'; apply allnd_addvs|].
  eapply on_sector_Forall; [|exact E1|exact F]. intros s s'. apply allnd_addv.
Qed.

Lemma register_all_nd e : forall curs SL SL', register_all e curs SL = Ok SL' -> Forall allnd SL -> Forall allnd SL'.
Proof.
  induction curs as [|c r IH]; intros SL SL' H F; cbn [register_all] in H; [now ok_inj H|].
  bind_step H S1 E1. eapply IH; [exact H|]. eapply register_currency_nd; eassumption.
Qed.

Lemma add_country_nd st code cur st' : add_country st code cur = Ok st' -> Forall allnd (k_secs st) -> Forall allnd (k_secs st').
Proof.
  unfold add_country. destruct (mem code _); [discriminate|]. intros H F. bind_step H SL E. ok_inj H. cbn [k_secs].
  destruct (k_ext st) as [e|]; [destruct (negb _)|]; try (now ok_inj E). eapply register_currency_nd; eassumption.
Qed.

Lemma add_sector_nd st ci c k st' : add_sector st ci c k = Ok st' -> Forall allnd (k_secs st) -> Forall allnd (k_secs st').
Proof.
  unfold add_sector. destruct (nth_error (k_countries st) ci) as [[cc cur]|]; [|discriminate].
  destruct (existsb _ (k_secs st)); [discriminate|]. intros H F. bind_step H mrefs E1. bind_step H s E2. ok_inj H. cbn [k_secs].
  apply Forall_app. split; [exact F|]. constructor; [eapply construct2_allnd; exact E2|constructor].
Qed.

Lemma run_op2_nd st o st' : run_op2 st o = Ok st' -> Forall allnd (k_secs st) -> Forall allnd (k_secs st').
Proof.
  intros H F. destruct o as [[s n t|s n spec|src tgt var a b|m sup text|s ws res|s n value|cb tre]|s m]; cbn [run_op2] in H.
  - bind_step H SL E. ok_inj H. cbn [upd_k k_secs]. eapply on_sector_Forall; [|exact E|exact F]. intros x x'. apply allnd_addv.
  - destruct (find_sec s (k_secs st)); [|discriminate]. now ok_inj H.
  - destruct (find_sec src (k_secs st)); [|discriminate]. destruct (find_sec tgt (k_secs st)); [|discriminate]. now ok_inj H.
  - destruct (find_sec m (k_secs st)); [|discriminate]. destruct (find_sec sup (k_secs st)); [|discriminate].
    destruct (has_add_supplier2 _); [|discriminate]. destruct (sup_of m (k_sup st)) as [res others]. now ok_inj H.
  - bind_step H SL E. ok_inj H. cbn [upd_k k_secs]. eapply on_sector_Forall; [|exact E|exact F]. intros x x'. apply allnd_asset_weighting.
  - destruct (find_sec s (k_secs st)); [|discriminate]. now ok_inj H.
  - destruct (find_sec cb (k_secs st)); [|discriminate]. destruct (find_sec tre (k_secs st)); [|discriminate]. now ok_inj H.
  - destruct (find_sec m (k_secs st)) as [mk|]; [|discriminate]. bind_step H SL E. ok_inj H. cbn [upd_k k_secs].
    eapply on_sector_Forall; [|exact E|exact F]. intros x x'. apply allnd_add_market.
Qed.

Lemma run_step2_nd st x st' : run_step2 st x = Ok st' -> Forall allnd (k_secs st) -> Forall allnd (k_secs st').
Proof.
  intros H F. destruct x as [c cur rg| |ci c k|o]; cbn [run_step2] in H.
  - eapply add_country_nd; eassumption.
  - destruct (k_ext st); [discriminate|].
    bind_step H st1 E1. bind_step H st2 E2. bind_step H st3 E3. bind_step H st4 E4. bind_step H SL E5. ok_inj H. cbn [k_secs].
    eapply register_all_nd; [exact E5|]. eapply add_sector_nd; [exact E4|]. eapply add_sector_nd; [exact E3|].
    eapply add_sector_nd; [exact E2|]. eapply add_country_nd; eassumption.
  - eapply add_sector_nd; eassumption.
  - eapply run_op2_nd; eassumption.
Qed.

Theorem construct_all2_nd p st : construct_all2 p = Ok st -> Forall allnd (k_secs st).
Proof.
  unfold construct_all2. revert st. induction p as [|x p IH] using rev_ind; intros st H.
  - cbn in H. ok_inj H. constructor.
  - apply foldM_app in H as (st1 & H1 & H2). cbn [foldM] in H2.
    destruct (run_step2 st1 x) as [st2|] eqn:E; [|discriminate]. ok_inj H2. eapply run_step2_nd; [exact E|now apply IH].
Qed.

Lemma kzone0_In st s : List.In s (kzone0 st) ->
  exists s0, List.In s0 (k_secs st) /\ s = set_fullcode (Nat.ltb 1 (List.length (k_countries st))) s0.
Proof.
  unfold kzone0, zone_order. intros H. apply in_flat_map in H as (cc & _ & H). apply filter_In in H as [H _].
  apply in_map_iff in H as (s0 & <- & H0). now exists s0.
Qed.

Lemma iwf_b_of_nd s : allnd s -> iwf_b s = true.
Proof. unfold allnd, iwf_b. apply forallb_impl. intros ne _ H. unfold ndb in H. rewrite H. now destruct (acc_name _). Qed.

Lemma allnd_enc s : allnd s -> allnd (enc s).
Proof.
  unfold allnd, enc, enc_vars. cbn [vars with_vars]. intros H. apply forallb_map_all. intros ne Hne.
  rewrite forallb_forall in H. exact (H ne Hne).
Qed.

(** the [iwf2_b] half of [initial_ok2], for every program *)
Theorem iwf2_holds p st : construct_all2 p = Ok st -> forallb iwf2_b (kzone0 st) = true.
Proof.
  intros H. apply forallb_forall. intros s Hs. apply kzone0_In in Hs as (s0 & H0 & ->).
  pose proof (construct_all2_nd _ _ H) as F. rewrite Forall_forall in F. specialize (F s0 H0).
  set (s := set_fullcode _ s0). assert (A : allnd s) by exact F.
  unfold iwf2_b. destruct (isx s); apply iwf_b_of_nd; [now apply allnd_enc|exact A].
Qed.

(* ------------------------------------------------------------------ *)
(** * Construction: the external sector's three IDs belong to sectors of country EXT *)

Definition gold_ok (e : ext_ids) (SL : list sector) : Prop := exists g, find_sec (e_gold e) SL = Some g /\ country g = "EXT".

Definition ginv (st : kstate) : Prop := forall e, k_ext st = Some e -> gold_ok e (k_secs st).

Lemma gold_ok_F2 (R : sector -> sector -> Prop) e SL SL' :
  (forall s s', R s s' -> sid s' = sid s) -> (forall s s', R s s' -> country s' = country s) ->
  gold_ok e SL -> Forall2 R SL SL' -> gold_ok e SL'.
Proof.
  intros HS HC (g & Fg & Cg) F. destruct (F2_find HS _ _ _ F _ Fg) as (g' & Fg' & Rg). exists g'. split; [exact Fg'|].
  now rewrite (HC _ _ Rg).
Qed.

Lemma gold_ok_cq e SL SL' : gold_ok e SL -> Forall2 cq SL SL' -> gold_ok e SL'.
Proof. apply gold_ok_F2; [apply cq_sid|]. intros s s' Q. apply frame_country. apply (cq_frame _ _ Q). Qed.

Lemma gold_ok_frame e SL SL' : gold_ok e SL -> Forall2 frame SL SL' -> gold_ok e SL'.
Proof. apply gold_ok_F2; [apply frame_sid|apply frame_country]. Qed.

Lemma gold_ok_app e SL s : gold_ok e SL -> gold_ok e (SL ++ [s]).
Proof. intros (g & Fg & Cg). exists g. split; [now apply find_sec_app_l|exact Cg]. Qed.

Lemma add_country_ginv st code cur st' : ginv st -> add_country st code cur = Ok st' -> ginv st'.
Proof.
  intros G H. destruct (add_country_spec _ _ _ _ H) as (_ & _ & FR & _ & EX & _). intros e He. rewrite EX in He.
  eapply gold_ok_frame; [now apply G|exact FR].
Qed.

Lemma add_sector_ginv st ci c k st' : ginv st -> add_sector st ci c k = Ok st' -> ginv st'.
Proof.
  intros G H. destruct (add_sector_last _ _ _ _ _ H) as (cc & cur & s & _ & L & _ & _ & _ & _ & EX). intros e He. rewrite EX in He.
  rewrite L. apply gold_ok_app. now apply G.
Qed.

Lemma run_op2_ginv st o st' : ginv st -> run_op2 st o = Ok st' -> ginv st'.
Proof.
  intros G H.
  assert (K : forall SL, Forall2 cq (k_secs st) SL -> ginv (upd_k st SL)).
  { intros SL Q e He. cbn [upd_k k_ext k_secs] in *. eapply gold_ok_cq; [now apply G|exact Q]. }
  assert (K0 : forall st'', k_secs st'' = k_secs st -> k_ext st'' = k_ext st -> ginv st'').
  { intros st'' A B e He. rewrite A. apply G. congruence. }
  destruct o as [[s n t|s n spec|src tgt var a b|m sup text|s ws res|s n value|cb tre]|s m]; cbn [run_op2] in H.
  - bind_step H SL E. ok_inj H. apply K. eapply on_sector_cq; [|exact E]. intros x x'. apply cq_addv.
  - destruct (find_sec s (k_secs st)); [|discriminate]. ok_inj H. now apply K0.
  - destruct (find_sec src (k_secs st)); [|discriminate]. destruct (find_sec tgt (k_secs st)); [|discriminate]. ok_inj H. now apply K0.
  - destruct (find_sec m (k_secs st)); [|discriminate]. destruct (find_sec sup (k_secs st)); [|discriminate].
    destruct (has_add_supplier2 _); [|discriminate]. destruct (sup_of m (k_sup st)) as [res others]. ok_inj H. now apply K0.
  - bind_step H SL E. ok_inj H. apply K. eapply on_sector_cq; [|exact E]. intros x x'. apply cq_asset_weighting.
  - destruct (find_sec s (k_secs st)); [|discriminate]. ok_inj H. now apply K0.
  - destruct (find_sec cb (k_secs st)); [|discriminate]. destruct (find_sec tre (k_secs st)); [|discriminate]. ok_inj H. now apply K0.
  - destruct (find_sec m (k_secs st)) as [mk|]; [|discriminate]. bind_step H SL E. ok_inj H. apply K.
    eapply on_sector_cq; [|exact E]. intros x x'. apply cq_add_market.
Qed.

Lemma run_step2_ginv p st x st' : cinv2 p st -> ginv st -> run_step2 st x = Ok st' -> ginv st'.
Proof.
  intros CI G H. destruct x as [c cur rg| |ci c k|o]; cbn [run_step2] in H.
  - eapply add_country_ginv; eassumption.
  - destruct (k_ext st) eqn:EX; [discriminate|].
    bind_step H st1 E1. bind_step H st2 E2. bind_step H st3 E3. bind_step H st4 E4. bind_step H SL E5. ok_inj H.
    destruct (add_country_spec _ _ _ _ E1) as (EC & _ & FR1 & _ & EX1 & _).
    assert (S1 : k_secs st1 = k_secs st).
    { unfold add_country in E1. destruct (mem _ _); [discriminate|]. rewrite EX in E1. cbn [bind] in E1. now ok_inj E1. }
    destruct (add_sector_last _ _ _ _ _ E2) as (c2 & u2 & s2 & N2 & L2 & D2 & O2 & Y2 & K2 & X2).
    destruct (add_sector_last _ _ _ _ _ E3) as (c3 & u3 & s3 & N3 & L3 & D3 & O3 & Y3 & K3 & X3).
    destruct (add_sector_last _ _ _ _ _ E4) as (c4 & u4 & s4 & N4 & L4 & D4 & O4 & Y4 & K4 & X4).
    set (n := List.length (k_secs st1)) in *.
    assert (C4 : c4 = "EXT").
    { rewrite K3, K2 in N4. rewrite EC in N4. rewrite nth_error_app2 in N4 by lia. rewrite Nat.sub_diag in N4. cbn in N4. congruence. }
    assert (SID : map sid (k_secs st1) = seq 0 n) by (unfold n; rewrite S1; apply (d_sids _ _ _ _ CI)).
    assert (FN : forall j, n <= j -> find_sec j (k_secs st1) = None) by (intros j Hj; now apply find_sec_seq_none).
    assert (Fg : find_sec (S (S n)) (k_secs st4) = Some s4).
    { rewrite L4, L3, L2, <- !app_assoc. rewrite find_sec_app_r by (apply FN; lia). unfold find_sec. cbn [find app].
      rewrite D2, D3, D4, L3, L2, !app_length. fold n. cbn [List.length].
      replace (Nat.eqb n (S (S n))) with false by (symmetry; apply Nat.eqb_neq; lia).
      replace (Nat.eqb (n + 1) (S (S n))) with false by (symmetry; apply Nat.eqb_neq; lia).
      replace (Nat.eqb (n + 1 + 1) (S (S n))) with true by (symmetry; apply Nat.eqb_eq; lia). reflexivity. }
    pose proof (register_all_cq _ _ _ _ E5) as Q.
    intros e He. cbn [k_ext k_secs] in *. injection He as <-.
    eapply gold_ok_cq; [|exact Q]. exists s4. cbn [e_gold]. split; [exact Fg|]. now rewrite Y4.
  - eapply add_sector_ginv; eassumption.
  - eapply run_op2_ginv; eassumption.
Qed.

Theorem construct_all2_ginv p st : construct_all2 p = Ok st -> ginv st.
Proof.
  unfold construct_all2. revert st. induction p as [|x p IH] using rev_ind; intros st H.
  - cbn in H. ok_inj H. intros e He. discriminate He.
  - apply foldM_app in H as (st1 & H1 & H2). cbn [foldM] in H2.
    destruct (run_step2 st1 x) as [st2|] eqn:E; [|discriminate]. ok_inj H2.
    eapply run_step2_ginv; [apply construct_all2_cinv; exact H1|apply IH; exact H1|exact E].
Qed.

Lemma find_sec_unique Z s : NoDup (map sid Z) -> List.In s Z -> find_sec (sid s) Z = Some s.
Proof.
  unfold find_sec. induction Z as [|a r IH]; intros N Hs; [contradiction|]. cbn [map] in N. inversion N as [|? ? N1 N2]; subst.
  cbn [find]. destruct Hs as [->|Hs]; [now rewrite Nat.eqb_refl|].
  destruct (Nat.eqb_spec (sid a) (sid s)) as [E|_]; [|now apply IH]. exfalso. apply N1. rewrite E. now apply in_map.
Qed.

(** after construction, a sector outside country EXT carries none of the external IDs *)
Theorem kzone0_ext_ids p st : construct_all2 p = Ok st -> ext_ids_ok (kinfo st) (kzone0 st).
Proof.
  intros H s Hs Xs e He. cbn [kinfo j_ext] in He.
  apply kzone0_In in Hs as (s0 & H0 & ->). cbn [set_fullcode sid]. unfold isx in Xs. cbn [set_fullcode country] in Xs.
  pose proof (construct_all2_cinv _ _ H) as CI.
  assert (ND : NoDup (map sid (k_secs st))) by (rewrite (d_sids _ _ _ _ CI); apply seq_NoDup).
  pose proof (find_sec_unique _ _ ND H0) as F0.
  destruct (ei_ext _ (construct_all2_einv _ _ H) e He) as (_ & _ & _ & xr & fx & F1 & C1 & _ & F2 & C2 & _).
  destruct (construct_all2_ginv _ _ H e He) as (g & F3 & C3).
  assert (K : forall j x, find_sec j (k_secs st) = Some x -> country x = "EXT" -> Nat.eqb (sid s0) j = false).
  { intros j x Fx Cx. apply Nat.eqb_neq. intros <-. rewrite F0 in Fx. injection Fx as <-. rewrite Cx in Xs. discriminate Xs. }
  repeat split; eapply K; eassumption.
Qed.

(* ------------------------------------------------------------------ *)
(** * The structural conjuncts of [order_ok2] after construction *)

Lemma gen_list2_classes st : classes_ok (kinfo st) (gen_list2 st).
Proof. intros ik H. unfold gen_list2 in H. apply in_map_iff in H as (s & <- & _). reflexivity. Qed.

(** [ops_ok2] is its part about the sectors of country EXT *)
Theorem ops_ok2_ext_part p st : construct_all2 p = Ok st ->
  ops_ok2 (kinfo st) (kzone0 st) (gen_list2 st) = ext_ops_ok2 (kinfo st) (kzone0 st) (gen_list2 st).
Proof. intros H. apply ops_ok2_ext. eapply kzone0_ext_ids; exact H. Qed.

(** ... which holds when the sectors of country EXT are those of the ExternalSector *)
Theorem ops_ok2_holds_partial p st : construct_all2 p = Ok st -> ext_clean_b (k_classes st) (kzone0 st) = true ->
  ops_ok2 (kinfo st) (kzone0 st) (gen_list2 st) = true.
Proof. intros H C. rewrite (ops_ok2_ext_part _ _ H). apply ext_clean_ops; [apply gen_list2_classes|exact C]. Qed.

(** [recv_ok2] is implied by [ops_ok2] *)
Theorem recv_ok2_of_ops_ok2 p st : construct_all2 p = Ok st ->
  ops_ok2 (kinfo st) (kzone0 st) (gen_list2 st) = true -> recv_ok2 (kinfo st) (kzone0 st) (gen_list2 st) = true.
Proof. intros H. apply recv_ok2_of_ops; [eapply kzone0_ext_ids; exact H|apply gen_list2_classes]. Qed.

Theorem recv_ok2_holds_partial p st : construct_all2 p = Ok st -> ext_clean_b (k_classes st) (kzone0 st) = true ->
  recv_ok2 (kinfo st) (kzone0 st) (gen_list2 st) = true.
Proof. intros H C. eapply recv_ok2_of_ops_ok2; [exact H|]. eapply ops_ok2_holds_partial; eassumption. Qed.

(** the zone reached after equation generation has the sectors of the initial zone (same IDs, same countries) *)
Lemma foldM_gen_zq J : forall L g0 g, foldM (gen_step2 J) L g0 = Ok g -> zq P_none (h_zone g0) (h_zone g).
Proof.
  induction L as [|[i k] L IH]; intros g0 g H; cbn [foldM] in H; [ok_inj H; apply zq_refl|].
  destruct (gen_step2 J g0 (i, k)) as [g1|] eqn:E; [|discriminate].
  eapply zq_trans; [eapply gen_step2_zq_none; exact E|now apply IH].
Qed.

Lemma ext_ids_ok_zq J Z Z' : ext_ids_ok J Z -> zq P_none Z Z' -> ext_ids_ok J Z'.
Proof.
  intros X Q. induction Q as [|s s' Z Z' Hs _ IH].
  - intros s [].
  - intros t [<-|Ht].
    + pose proof (pq_frame _ _ _ Hs) as F. intros Xt e He. unfold isx in Xt. rewrite (frame_country _ _ F) in Xt.
      rewrite (frame_sid _ _ F). apply (X s); [now left|exact Xt|exact He].
    + apply IH; [|exact Ht]. intros u Hu. apply X. now right.
Qed.

(** every registered flow has a plan on the zone reached after equation generation *)
Definition flows_sem2 (st : kstate) : bool :=
  match foldM (gen_step2 (kinfo st)) (gen_list2 st) (mkG2 (kzone0 st) (k_flows st) (k_ic st)) with
  | Ok g => forallb (fun x => is_ok (flow_plan2 (kinfo st) (h_zone g) x)) (h_flows g)
  | Err _ => true
  end.

Theorem flows_ok2_plans p st : construct_all2 p = Ok st -> flows_ok2 st = flows_sem2 st.
Proof.
  intros H. unfold flows_ok2, flows_sem2.
  destruct (foldM (gen_step2 (kinfo st)) (gen_list2 st) (mkG2 (kzone0 st) (k_flows st) (k_ic st))) as [g|] eqn:E; [|reflexivity].
  assert (X : ext_ids_ok (kinfo st) (h_zone g)).
  { eapply ext_ids_ok_zq; [eapply kzone0_ext_ids; exact H|]. apply foldM_gen_zq in E. exact E. }
  apply eq_true_iff_eq. rewrite !forallb_forall. split; intros F x Hx.
  - apply flow_ok_on_plan. now apply F.
  - apply flow_ok_on_of_plan; [exact X|now apply F].
Qed.

(* ------------------------------------------------------------------ *)
(** * [order_sem2]: the side condition without its structural conjuncts *)

Definition static_sem2 (J : ginfo2) (Z : zone) (L : list (nat * cls2)) : bool :=
  plans_ok2 J Z L && stable_ok2 J Z L && commute_ok2 J Z L && unique_ok2 J Z L && gold_unique_ok Z L &&
  forallb pdiv_b Z && ext_ops_ok2 J Z L && cb_local_ok J Z L.

(** [order_ok2] with [recv_ok2] removed, [initial_ok2] replaced by its [pdiv_b] half, [flows_ok2] replaced by "every
    registered flow has a plan", and [ops_ok2] replaced by its part about the sectors of country EXT (the part
    that does not hold for every program: [ops_ok2_refuted], [ops_ok2_fullcode_refuted]) *)
Definition order_sem2 (p : program2) : bool :=
  closed_refs2 p &&
  match construct_all2 p with
  | Err _ => false
  | Ok st => static_sem2 (kinfo st) (kzone0 st) (gen_list2 st) && flows_sem2 st
  end &&
  match build2 p with Ok E => texts_ok E | Err _ => true end.

(** the same with the decidable sufficient condition "country EXT holds the ExternalSector's sectors only" *)
Definition order_clean2 (p : program2) : bool :=
  closed_refs2 p &&
  match construct_all2 p with
  | Err _ => false
  | Ok st =>
      let J := kinfo st in let Z := kzone0 st in let L := gen_list2 st in
      plans_ok2 J Z L && stable_ok2 J Z L && commute_ok2 J Z L && unique_ok2 J Z L && gold_unique_ok Z L &&
      forallb pdiv_b Z && ext_clean_b (k_classes st) Z && cb_local_ok J Z L && flows_sem2 st
  end &&
  match build2 p with Ok E => texts_ok E | Err _ => true end.

Lemma initial_ok2_pdiv Z : forallb iwf2_b Z = true -> initial_ok2 Z = forallb pdiv_b Z.
Proof.
  unfold initial_ok2. induction Z as [|s r IH]; cbn [forallb]; intros H; [reflexivity|].
  apply andb_true_iff in H as [H1 H2]. now rewrite H1, (IH H2).
Qed.

Theorem static_ok22_sem2 p st : construct_all2 p = Ok st ->
  static_ok22 (kinfo st) (kzone0 st) (gen_list2 st) = static_sem2 (kinfo st) (kzone0 st) (gen_list2 st).
Proof.
  intros H. unfold static_ok22, static_sem2. rewrite (initial_ok2_pdiv _ (iwf2_holds _ _ H)).
  pose proof (recv_ok2_of_ops_ok2 _ _ H) as R. rewrite (ops_ok2_ext_part _ _ H) in *.
  destruct (ext_ops_ok2 (kinfo st) (kzone0 st) (gen_list2 st)).
  - rewrite (R eq_refl). now rewrite !andb_true_r.
  - now rewrite !andb_false_r.
Qed.

Theorem order_ok2_eq_sem2 p : order_ok2 p = order_sem2 p.
Proof.
  unfold order_ok2, order_sem2. destruct (construct_all2 p) as [st|] eqn:H; [|reflexivity].
  now rewrite (static_ok22_sem2 _ _ H), (flows_ok2_plans _ _ H).
Qed.

Theorem order_sem2_order_ok2 p : order_sem2 p = true -> order_ok2 p = true.
Proof. now rewrite order_ok2_eq_sem2. Qed.

Theorem order_ok2_order_sem2 p : order_ok2 p = true -> order_sem2 p = true.
Proof. now rewrite order_ok2_eq_sem2. Qed.

Theorem order_clean2_order_sem2 p : order_clean2 p = true -> order_sem2 p = true.
Proof.
  unfold order_clean2, order_sem2. destruct (construct_all2 p) as [st|] eqn:H; [|intros X; exact X].
  cbv zeta. intros X. apply andb_true_iff in X as [X X3]. apply andb_true_iff in X as [X1 X2].
  rewrite X1, X3, !andb_true_r. cbn [andb].
  apply andb_true_iff in X2 as [X2 Hfl]. apply andb_true_iff in X2 as [X2 Hcb]. apply andb_true_iff in X2 as [X2 Hcl].
  apply andb_true_iff in X2 as [X2 Hpd]. apply andb_true_iff in X2 as [X2 Hgu]. apply andb_true_iff in X2 as [X2 Hun].
  apply andb_true_iff in X2 as [X2 Hco]. apply andb_true_iff in X2 as [Hpl Hst].
  unfold static_sem2.
  rewrite (ext_clean_ops (kinfo st) (kzone0 st) (gen_list2 st) (gen_list2_classes st) Hcl).
  now rewrite Hpl, Hst, Hco, Hun, Hgu, Hpd, Hcb, Hfl.
Qed.

Theorem order_clean2_order_ok2 p : order_clean2 p = true -> order_ok2 p = true.
Proof. intros H. now apply order_sem2_order_ok2, order_clean2_order_sem2. Qed.

(* ------------------------------------------------------------------ *)
(** * Declaration order does not matter, under the remaining conjuncts *)

Theorem main2_order_invariant_sem : forall p p', admissible_perm2 p p' -> order_sem2 p = true ->
  forall E, build2 p = Ok E -> exists E', build2 p' = Ok E' /\ sys_equiv E E' /\ fs_ic E' = fs_ic E.
Proof. intros p p' A S. apply Main2_order_invariant; [exact A|now apply order_sem2_order_ok2]. Qed.

Theorem main2_order_invariant_rows_sem : forall p p' E, admissible_perm2 p p' -> order_sem2 p = true -> build2 p = Ok E ->
  exists E', build2 p' = Ok E' /\ rows_perm_equiv E E' /\ fs_ic E' = fs_ic E.
Proof. intros p p' E A S. apply Main2_order_invariant_rows; [exact A|now apply order_sem2_order_ok2]. Qed.

Theorem main2_order_errors_sem : forall p p', admissible_perm2 p p' -> order_sem2 p = true -> order_sem2 p' = true ->
  is_ok (build2 p') = is_ok (build2 p).
Proof. intros p p' A S S'. apply Main2_order_errors; [exact A| |]; now apply order_sem2_order_ok2. Qed.

Theorem main2_order_invariant_clean : forall p p', admissible_perm2 p p' -> order_clean2 p = true ->
  forall E, build2 p = Ok E -> exists E', build2 p' = Ok E' /\ sys_equiv E E' /\ fs_ic E' = fs_ic E.
Proof. intros p p' A S. apply Main2_order_invariant; [exact A|now apply order_clean2_order_ok2]. Qed.

(** the general form of [ops_ok2_holds_partial] / [recv_ok2_holds_partial], for any information, zone and call list *)
Theorem ops_ok2_of_clean J Z L : ext_ids_ok J Z -> classes_ok J L -> ext_clean_b (j_classes J) Z = true -> ops_ok2 J Z L = true.
Proof. intros X CK C. rewrite (ops_ok2_ext _ _ _ X). now apply ext_clean_ops. Qed.

Theorem recv_ok2_of_clean J Z L : ext_ids_ok J Z -> classes_ok J L -> ext_clean_b (j_classes J) Z = true -> recv_ok2 J Z L = true.
Proof. intros X CK C. apply recv_ok2_of_ops; try assumption. now apply ops_ok2_of_clean. Qed.

(* ------------------------------------------------------------------ *)
(** * Findings: [ops_ok2] / [recv_ok2] are NOT true of every program *)

(** everything [order_sem2] asks except the EXT part of [ops_ok2] *)
Definition rest_ok2 (p : program2) : bool :=
  closed_refs2 p &&
  match construct_all2 p with
  | Err _ => false
  | Ok st =>
      let J := kinfo st in let Z := kzone0 st in let L := gen_list2 st in
      plans_ok2 J Z L && stable_ok2 J Z L && commute_ok2 J Z L && unique_ok2 J Z L && gold_unique_ok Z L &&
      forallb pdiv_b Z && cb_local_ok J Z L && flows_sem2 st
  end &&
  match build2 p with Ok E => texts_ok E | Err _ => true end.

Definition structural2 (p : program2) : bool * bool * bool * bool :=
  match construct_all2 p with
  | Ok st => (ops_ok2 (kinfo st) (kzone0 st) (gen_list2 st), recv_ok2 (kinfo st) (kzone0 st) (gen_list2 st),
              forallb iwf2_b (kzone0 st), ext_clean_b (k_classes st) (kzone0 st))
  | Err _ => (false, false, false, false)
  end.

(** a household coded GOOD (owning SUP_GOOD), a Capitalists sector and a FixedMarginBusiness declared in the
    country of the ExternalSector: the firm's plan sends PRecvDiv to the capitalists, a sector of country EXT *)
Definition p_ext_firm : program2 :=
  [S2Country "CA" None false; S2External;
   S2Sector 1 "GOOD" (COld (CHousehold "0.6" "0.4" "X" "GOOD"));
   S2Sector 1 "CAP" (COld (CCapitalists "0.6" "0.4" "X"));
   S2Sector 1 "BUS" (COld (CBusiness false "1.0" "0.1" "LAB" "GOOD"))].

Theorem ops_ok2_refuted :
  structural2 p_ext_firm = (false, false, true, false) /\ rest_ok2 p_ext_firm = true /\
  order_ok2 p_ext_firm = false /\ is_ok (build2 p_ext_firm) = true.
Proof. vm_compute. repeat split. Qed.

(** no ExternalSector at all: a user country that happens to be called EXT *)
Definition p_ext_named : program2 :=
  [S2Country "EXT" None false;
   S2Sector 0 "GOV" (COld CGov);
   S2Sector 0 "HH" (COld (CHousehold "0.6000" "0.4000" "GOOD" "LAB"));
   S2Sector 0 "CAP" (COld (CCapitalists "0.6000" "0.4000" "GOOD"));
   S2Sector 0 "BUS" (COld (CBusiness false "1.000" "0.100" "LAB" "GOOD"));
   S2Sector 0 "TF" (COld (CTaxFlow "0.2000" "GOV"));
   S2Sector 0 "LAB" (COld CMarket);
   S2Sector 0 "GOOD" (COld CMarket)].

Theorem ops_ok2_named_refuted :
  structural2 p_ext_named = (false, false, true, false) /\ rest_ok2 p_ext_named = true /\
  order_ok2 p_ext_named = false /\ is_ok (build2 p_ext_named) = true.
Proof. vm_compute. repeat split. Qed.

(** coinciding full codes (A_B + C = A + B_C) and a tax flow declared in country EXT: its T equation is installed
    with one summand per taxpayer full code, twice the same; [recv_ok2] holds, [ops_ok2] does not *)
Definition p_ext_fullcode : program2 :=
  [S2Country "A_B" (Some "NUMERAIRE") false; S2Country "A" (Some "NUMERAIRE") false; S2External;
   S2Sector 0 "C" (COld (CHousehold "0.6" "0.4" "X" "L")); S2Sector 1 "B_C" (COld (CHousehold "0.6" "0.4" "X" "L"));
   S2Sector 0 "G" (COld CGov);
   S2Sector 2 "TF" (COld (CTaxFlow "0.2" "G"))].

Theorem ops_ok2_fullcode_refuted :
  structural2 p_ext_fullcode = (false, true, true, false) /\ rest_ok2 p_ext_fullcode = true /\
  order_ok2 p_ext_fullcode = false /\ is_ok (build2 p_ext_fullcode) = true.
Proof. vm_compute. repeat split. Qed.

(** a harmless sector in country EXT: [order_ok2] holds although the sufficient condition [ext_clean_b] does not
    (so [order_sem2] keeps the EXT part of [ops_ok2] rather than [ext_clean_b]) *)
Definition p_ext_gov : program2 := p_OPEN ++ [S2Sector 1 "GOV" (COld CGov)].

Example ext_clean_not_necessary :
  order_ok2 p_ext_gov = true /\ order_sem2 p_ext_gov = true /\ order_clean2 p_ext_gov = false.
Proof. vm_compute. repeat split. Qed.

(** non-vacuity *)
Example order_sem2_OPEN : order_sem2 p_OPEN = true /\ order_clean2 p_OPEN = true /\ structural2 p_OPEN = (true, true, true, true).
Proof. vm_compute. repeat split. Qed.

Example order_sem2_GOLD : order_sem2 p_GOLD = true /\ order_clean2 p_GOLD = true /\ structural2 p_GOLD = (true, true, true, true).
Proof. vm_compute. repeat split. Qed.

Print Assumptions plan2_ops_ok.
Print Assumptions plan2_home.
Print Assumptions plan2_strong.
Print Assumptions plan2_neutral.
Print Assumptions plan2_recv.
Print Assumptions flow_plan2_ops_ok.
Print Assumptions ops_ok2_home.
Print Assumptions ops_ok2_ext.
Print Assumptions ext_clean_ops.
Print Assumptions recv_ok2_of_ops.
Print Assumptions ops_ok2_of_clean.
Print Assumptions recv_ok2_of_clean.
Print Assumptions iwf2_holds.
Print Assumptions kzone0_ext_ids.
Print Assumptions ops_ok2_ext_part.
Print Assumptions ops_ok2_holds_partial.
Print Assumptions recv_ok2_of_ops_ok2.
Print Assumptions recv_ok2_holds_partial.
Print Assumptions flows_ok2_plans.
Print Assumptions order_ok2_eq_sem2.
Print Assumptions order_sem2_order_ok2.
Print Assumptions order_ok2_order_sem2.
Print Assumptions order_clean2_order_ok2.
Print Assumptions main2_order_invariant_sem.
Print Assumptions main2_order_invariant_rows_sem.
Print Assumptions main2_order_errors_sem.
Print Assumptions main2_order_invariant_clean.
Print Assumptions ops_ok2_refuted.
Print Assumptions ops_ok2_named_refuted.
Print Assumptions ops_ok2_fullcode_refuted.
Print Assumptions ext_clean_not_necessary.
Print Assumptions order_sem2_OPEN.
Print Assumptions order_sem2_GOLD.
