(** [p_OPEN_DEP] on the valuations of DepTables.v: the new two-period theorem applied where the
    previous-period premise matters, and a refutation showing that it cannot be dropped. *)
From Coq Require Import List String Ascii Bool ZArith Arith QArith Reals Qreals Lra.
From SFC.Base Require Import Res Str.
From SFC.Gen Require Import Fx Flows Zone.
From SFC.GenTax Require Import Tax TaxProofs.
From SFC.GenMain2 Require Import Program Classes Main Conflict Balance Witness Program2 Main2 Conflict2 Balance2 Zones Witness2.
From SFC.GenBook Require Import Text Builders Sem Examples.
From SFC.GenWitness Require Import TwoPeriods DepTables.
Import ListNotations.
Local Open Scope string_scope.
Local Open Scope R_scope.

Lemma DEP_ledger_CA v : ledger_sum v (filter (in_zone (j_countries (q_info R_DEP)) "CA") (fs_zone (q_final R_DEP))) =
  (v "CA_GOV__F" - v "CA_GOV__LAG_F") + ((v "CA_HH__F" - v "CA_HH__LAG_F") + ((v "CA_BUS__F" - v "CA_BUS__LAG_F") + 0)).
Proof.
  unfold ledger_sum. set (Z := filter _ _). vm_compute in Z. subst Z. simpl. lra.
Qed.

Lemma DEP_ledger_US v : ledger_sum v (filter (in_zone (j_countries (q_info R_DEP)) "US") (fs_zone (q_final R_DEP))) =
  (v "US_GOV__F" - v "US_GOV__LAG_F") + ((v "US_HH__F" - v "US_HH__LAG_F") + ((v "US_BUS__F" - v "US_BUS__LAG_F") + 0)).
Proof.
  unfold ledger_sum. set (Z := filter _ _). vm_compute in Z. subst Z. simpl. lra.
Qed.

Lemma DEP_net v c : net_value R_DEP v c = v (net_key c).
Proof. unfold net_value. set (e := j_ext _). vm_compute in e. subst e. reflexivity. Qed.

(** the run has a deposit-market step: the previous-period premise is about something *)
Lemma DEP_has_deposit_step :
  existsb (fun x => match snd (fst (fst x)) with COld (CDepositMarket _) => true | _ => false end) (q_gen R_DEP) = true.
Proof. vm_compute. reflexivity. Qed.

(** three consecutive valuations; the deposit stock of the middle one is consistent BECAUSE it
    satisfied the system; conclusions by [main2_stock_flow_two_periods] *)
Theorem DEP_two_periods_witness :
  let v := val_of dep_v2 in let vp := val_of dep_v1 in let vpp := val_of dep_v0 in
  build_run2 p_OPEN_DEP = Ok R_DEP /\ no_conflict2 p_OPEN_DEP = true /\
  existsb (fun x => match snd (fst (fst x)) with COld (CDepositMarket _) => true | _ => false end) (q_gen R_DEP) = true /\
  sat (q_final R_DEP) v vp (bv_std v) /\ sat (q_final R_DEP) vp vpp (bv_std vp) /\
  vp "CA_GOV__SUP_DEP" = vp "CA_HH__DEM_DEP" /\ vp "CA_HH__DEM_DEP" = 45 / 2 /\
  v "CA_GOV__INTDEP" = 9 / 10 /\ v "CA_HH__INTDEP" = 9 / 10 /\
  (v "CA_GOV__F" - v "CA_GOV__LAG_F") + (v "CA_HH__F" - v "CA_HH__LAG_F") + (v "CA_BUS__F" - v "CA_BUS__LAG_F")
     + v "EXT_FX__NET_CA" = 0 /\
  (v "US_GOV__F" - v "US_GOV__LAG_F") + (v "US_HH__F" - v "US_HH__LAG_F") + (v "US_BUS__F" - v "US_BUS__LAG_F")
     + v "EXT_FX__NET_US" = 0.
Proof.
  cbv zeta.
  pose proof DEP_sat_2 as HS. pose proof DEP_sat_1 as HP.
  pose proof (main2_stock_flow_two_periods p_OPEN_DEP R_DEP R_DEP_ok DEP_no_conflict _ _ _ _ _ (bv_std_zero _) HS HP) as C01.
  rewrite DEP_zones in C01.
  pose proof (C01 "CA" ltac:(discriminate) ltac:(simpl; auto)) as CCA.
  pose proof (C01 "US" ltac:(discriminate) ltac:(simpl; auto)) as CUS.
  rewrite DEP_ledger_CA, DEP_net in CCA. rewrite DEP_ledger_US, DEP_net in CUS.
  change (net_key "CA") with "EXT_FX__NET_CA" in CCA. change (net_key "US") with "EXT_FX__NET_US" in CUS.
  split; [exact R_DEP_ok|]. split; [exact DEP_no_conflict|]. split; [exact DEP_has_deposit_step|].
  split; [exact HS|]. split; [exact HP|]. do 4 (split; [table_val|]). split; lra.
Qed.

(** the previous-period premise cannot be dropped: [no_conflict2] holds, the current period satisfies
    every row, but the previous values (issuer's supply 0, holder's demand 20) satisfied neither the
    system nor [stock_consistent2]; zone CA is off by the interest 0.04 * 20 *)
Theorem DEP_prev_needed_refuted :
  let v := val_of dep_bad1 in let vp := val_of dep_bad0 in let bv := bv_std v in
  build_run2 p_OPEN_DEP = Ok R_DEP /\ no_conflict2 p_OPEN_DEP = true /\ bv_zero bv /\
  sat (q_final R_DEP) v vp bv /\
  vp "CA_GOV__SUP_DEP" = 0 /\ vp "CA_HH__DEM_DEP" = 20 /\
  (forall bvp, ~ stock_consistent2 R_DEP vp bvp) /\
  ledger_sum v (filter (in_zone (j_countries (q_info R_DEP)) "CA") (fs_zone (q_final R_DEP))) + net_value R_DEP v "CA" = 4 / 5.
Proof.
  cbv zeta. pose proof DEP_sat_bad as HS.
  assert (SUM : ledger_sum (val_of dep_bad1) (filter (in_zone (j_countries (q_info R_DEP)) "CA") (fs_zone (q_final R_DEP)))
                + net_value R_DEP (val_of dep_bad1) "CA" = 4 / 5).
  { rewrite DEP_ledger_CA, DEP_net. change (net_key "CA") with "EXT_FX__NET_CA". table_val. }
  split; [exact R_DEP_ok|]. split; [exact DEP_no_conflict|]. split; [apply bv_std_zero|]. split; [exact HS|].
  do 2 (split; [table_val|]). split; [|exact SUM].
  intros bvp SC.
  pose proof (main2_stock_flow_consistent p_OPEN_DEP R_DEP R_DEP_ok DEP_no_conflict _ _ _ bvp (bv_std_zero _) HS SC
                "CA" ltac:(discriminate) ltac:(rewrite DEP_zones; simpl; auto)) as C.
  rewrite SUM in C. lra.
Qed.
