(** A two-zone program WITH a deposit market, so that the previous-period premise of the C01 theorems
    ([stock_consistent2], or the second [sat] of [Main2_stock_flow_two_periods]) has content: [p_OPEN]
    plus a deposit market DEP in CA issued by CA_GOV, held by CA_HH (DEM_DEP = 0.5 * LAG_F), interest
    rate 0.04.  Interest paid is LAG_r * LAG_SUP_DEP (issuer), interest received LAG_r * LAG_DEM_DEP
    (holder): the zone balances iff the previous period's supply equalled its demand.
    Tables by agent_reports/GenWitness_solve_open.py: [dep_v0] opening values, [dep_v1], [dep_v2] two
    consecutive periods; [dep_bad0] = [dep_v0] with the issuer's previous supply set to 0 (demand 20),
    [dep_bad1] the period computed from it. *)
From Coq Require Import List String Ascii Bool ZArith Arith QArith Reals Qreals Lra.
From SFC.Base Require Import Res Str.
From SFC.Gen Require Import Fx Flows Zone.
From SFC.GenTax Require Import Tax TaxProofs.
From SFC.GenMain2 Require Import Program Classes Main Conflict Balance Witness Program2 Main2 Conflict2 Balance2 Zones Witness2.
From SFC.GenBook Require Import Text Builders Sem Examples.
Import ListNotations.
Local Open Scope string_scope.

Definition p_OPEN_DEP : program2 :=
  ([S2Country "CA" None false] ++ economy 0 (COld CGov) ++ [S2External; S2Country "US" None false] ++
   economy 2 (COld CGov) ++ [S2Sector 0 "DEP" (COld (CDepositMarket "GOV"))] ++ open_ops ++
   [S2Op (UOld (OSetExogenous 15 "r" "[0.04]*40")); S2Op (UOld (OAddVariable 1 "DEM_DEP" "0.5*LAG_F"))])%list.

Definition R_DEP : run2 :=
  match build_run2 p_OPEN_DEP with Ok r => r | Err _ => mkRun2 (mkI2 [] [] [] None) [] [] [] [] (mkFS [] [] []) end.

Lemma R_DEP_ok : build_run2 p_OPEN_DEP = Ok R_DEP.
Proof. vm_compute. reflexivity. Qed.

Lemma DEP_no_conflict : no_conflict2 p_OPEN_DEP = true.
Proof. vm_compute. reflexivity. Qed.

Lemma DEP_zones : zones_of (j_countries (q_info R_DEP)) = ["CA"; "NUMERAIRE"; "US"].
Proof. vm_compute. reflexivity. Qed.

Definition dep_v0 : list (string * Q) :=
  [("CA_GOV__F", ((-60) # 1)); ("CA_HH__F", (45 # 1)); ("CA_BUS__F", (15 # 1)); ("US_GOV__F", ((-70) # 1));
   ("US_HH__F", (70 # 1)); ("US_BUS__F", (0 # 1)); ("EXT_FX__F_CA", (0 # 1)); ("EXT_FX__F_US", (0 # 1));
   ("EXT_FX__F_NUMERAIRE", (0 # 1)); ("CA_GOV__SUP_DEP", (20 # 1)); ("CA_HH__DEM_DEP", (20 # 1));
   ("CA_DEP__r", (1 # 25))].

Definition dep_v1 : list (string * Q) :=
  [("CA_GOV__DEM_GOOD", (20 # 1)); ("CA_GOV__F", ((-8639) # 130)); ("CA_GOV__FISC_BAL", ((-839) # 130));
   ("CA_GOV__INC", ((-839) # 130)); ("CA_GOV__INTDEP", (4 # 5)); ("CA_GOV__LAG_F", ((-60) # 1));
   ("CA_GOV__LAG_SUP_DEP", (20 # 1)); ("CA_GOV__PRIM_BAL", ((-147) # 26)); ("CA_GOV__SUP_DEP", (45 # 2));
   ("CA_GOV__T", (373 # 26)); ("CA_HH__AfterTax", (746 # 13)); ("CA_HH__AlphaFin", (2 # 5));
   ("CA_HH__AlphaIncome", (3 # 5)); ("CA_HH__DEM_DEP", (45 # 2)); ("CA_HH__DEM_GOOD", (3408 # 65));
   ("CA_HH__F", (3247 # 65)); ("CA_HH__INC", (1865 # 26)); ("CA_HH__INTDEP", (4 # 5));
   ("CA_HH__LAG_DEM_DEP", (20 # 1)); ("CA_HH__LAG_F", (45 # 1)); ("CA_HH__REMIT", (3 # 2));
   ("CA_HH__SUP_LAB", (4708 # 65)); ("CA_HH__T", (373 # 26)); ("CA_BUS__DEM_LAB", (4708 # 65));
   ("CA_BUS__F", (2521 # 325)); ("CA_BUS__INC", ((-2354) # 325)); ("CA_BUS__LAG_F", (15 # 1));
   ("CA_BUS__PROF", ((-2354) # 325)); ("CA_BUS__SUP_GOOD", (21186 # 325)); ("CA_TF__T", (373 # 26));
   ("CA_TF__TaxRate", (1 # 5)); ("CA_LAB__DEM_LAB", (4708 # 65)); ("CA_LAB__SUP_CA_HH", (4708 # 65));
   ("CA_LAB__SUP_LAB", (4708 # 65)); ("CA_GOOD__DEM_GOOD", (4708 # 65)); ("CA_GOOD__SUP_CA_BUS", (21186 # 325));
   ("CA_GOOD__SUP_GOOD", (4708 # 65)); ("CA_GOOD__SUP_US_BUS", (2354 # 325)); ("CA_DEP__DEM_DEP", (45 # 2));
   ("CA_DEP__LAG_r", (1 # 25)); ("CA_DEP__SUP_DEP", (45 # 2)); ("CA_DEP__r", (1 # 25)); ("EXT_XR__CA", (6 # 5));
   ("EXT_XR__CA_US", (6 # 5)); ("EXT_XR__NUMERAIRE", (1 # 1)); ("EXT_XR__US", (1 # 1));
   ("EXT_FX__F_CA", (5683 # 650)); ("EXT_FX__F_NUMERAIRE", (0 # 1)); ("EXT_FX__F_US", ((-17049) # 1625));
   ("EXT_FX__LAG_F_CA", (0 # 1)); ("EXT_FX__LAG_F_NUMERAIRE", (0 # 1)); ("EXT_FX__LAG_F_US", (0 # 1));
   ("EXT_FX__NET_CA", (5683 # 650)); ("EXT_FX__NET_NUMERAIRE", (0 # 1)); ("EXT_FX__NET_US", ((-17049) # 1625));
   ("US_GOV__DEM_GOOD", (25 # 1)); ("US_GOV__F", ((-970) # 13)); ("US_GOV__FISC_BAL", ((-60) # 13));
   ("US_GOV__INC", ((-60) # 13)); ("US_GOV__LAG_F", ((-70) # 1)); ("US_GOV__PRIM_BAL", ((-60) # 13));
   ("US_GOV__T", (265 # 13)); ("US_HH__AfterTax", (1060 # 13)); ("US_HH__AlphaFin", (2 # 5));
   ("US_HH__AlphaIncome", (3 # 5)); ("US_HH__DEM_GOOD", (1000 # 13)); ("US_HH__F", (4967 # 65));
   ("US_HH__INC", (1325 # 13)); ("US_HH__LAG_F", (70 # 1)); ("US_HH__SUP_LAB", (1325 # 13));
   ("US_HH__T", (265 # 13)); ("US_BUS__DEM_LAB", (1325 # 13)); ("US_BUS__F", (14124 # 1625));
   ("US_BUS__INC", (14124 # 1625)); ("US_BUS__LAG_F", (0 # 1)); ("US_BUS__PROF", (0 # 1));
   ("US_BUS__SUP_CA_GOOD", (14124 # 1625)); ("US_BUS__SUP_GOOD", (1325 # 13)); ("US_TF__T", (265 # 13));
   ("US_TF__TaxRate", (1 # 5)); ("US_LAB__DEM_LAB", (1325 # 13)); ("US_LAB__SUP_LAB", (1325 # 13));
   ("US_LAB__SUP_US_HH", (1325 # 13)); ("US_GOOD__DEM_GOOD", (1325 # 13)); ("US_GOOD__SUP_GOOD", (1325 # 13));
   ("US_GOOD__SUP_US_BUS", (1325 # 13)); ("EXT_XR__US_CA", (5 # 6)); ("EXT_XR__NUMERAIRE_CA", (5 # 6));
   ("EXT_XR__NUMERAIRE_US", (1 # 1))].

Definition dep_v2 : list (string * Q) :=
  [("CA_GOV__DEM_GOOD", (20 # 1)); ("CA_GOV__F", ((-12203) # 169)); ("CA_GOV__FISC_BAL", ((-9723) # 1690));
   ("CA_GOV__INC", ((-9723) # 1690)); ("CA_GOV__INTDEP", (9 # 10)); ("CA_GOV__LAG_F", ((-8639) # 130));
   ("CA_GOV__LAG_SUP_DEP", (45 # 2)); ("CA_GOV__PRIM_BAL", ((-4101) # 845)); ("CA_GOV__SUP_DEP", (3247 # 130));
   ("CA_GOV__T", (12799 # 845)); ("CA_HH__AfterTax", (51196 # 845)); ("CA_HH__AlphaFin", (2 # 5));
   ("CA_HH__AlphaIncome", (3 # 5)); ("CA_HH__DEM_DEP", (3247 # 130)); ("CA_HH__DEM_GOOD", (47602 # 845));
   ("CA_HH__F", (9161 # 169)); ("CA_HH__INC", (12799 # 169)); ("CA_HH__INTDEP", (9 # 10));
   ("CA_HH__LAG_DEM_DEP", (45 # 2)); ("CA_HH__LAG_F", (3247 # 65)); ("CA_HH__REMIT", (3 # 2));
   ("CA_HH__SUP_LAB", (64502 # 845)); ("CA_HH__T", (12799 # 845)); ("CA_BUS__DEM_LAB", (64502 # 845));
   ("CA_BUS__F", (522 # 4225)); ("CA_BUS__INC", ((-32251) # 4225)); ("CA_BUS__LAG_F", (2521 # 325));
   ("CA_BUS__PROF", ((-32251) # 4225)); ("CA_BUS__SUP_GOOD", (290259 # 4225)); ("CA_TF__T", (12799 # 845));
   ("CA_TF__TaxRate", (1 # 5)); ("CA_LAB__DEM_LAB", (64502 # 845)); ("CA_LAB__SUP_CA_HH", (64502 # 845));
   ("CA_LAB__SUP_LAB", (64502 # 845)); ("CA_GOOD__DEM_GOOD", (64502 # 845));
   ("CA_GOOD__SUP_CA_BUS", (290259 # 4225)); ("CA_GOOD__SUP_GOOD", (64502 # 845));
   ("CA_GOOD__SUP_US_BUS", (32251 # 4225)); ("CA_DEP__DEM_DEP", (3247 # 130)); ("CA_DEP__LAG_r", (1 # 25));
   ("CA_DEP__SUP_DEP", (3247 # 130)); ("CA_DEP__r", (1 # 25)); ("EXT_XR__CA", (6 # 5)); ("EXT_XR__CA_US", (6 # 5));
   ("EXT_XR__NUMERAIRE", (1 # 1)); ("EXT_XR__US", (1 # 1)); ("EXT_FX__F_CA", (75528 # 4225));
   ("EXT_FX__F_NUMERAIRE", (0 # 1)); ("EXT_FX__F_US", ((-453168) # 21125)); ("EXT_FX__LAG_F_CA", (5683 # 650));
   ("EXT_FX__LAG_F_NUMERAIRE", (0 # 1)); ("EXT_FX__LAG_F_US", ((-17049) # 1625)); ("EXT_FX__NET_CA", (77177 # 8450));
   ("EXT_FX__NET_NUMERAIRE", (0 # 1)); ("EXT_FX__NET_US", ((-231531) # 21125)); ("US_GOV__DEM_GOOD", (25 # 1));
   ("US_GOV__F", ((-66116) # 845)); ("US_GOV__FISC_BAL", ((-3066) # 845)); ("US_GOV__INC", ((-3066) # 845));
   ("US_GOV__LAG_F", ((-970) # 13)); ("US_GOV__PRIM_BAL", ((-3066) # 845)); ("US_GOV__T", (18059 # 845));
   ("US_HH__AfterTax", (72236 # 845)); ("US_HH__AlphaFin", (2 # 5)); ("US_HH__AlphaIncome", (3 # 5));
   ("US_HH__DEM_GOOD", (13834 # 169)); ("US_HH__F", (69158 # 845)); ("US_HH__INC", (18059 # 169));
   ("US_HH__LAG_F", (4967 # 65)); ("US_HH__SUP_LAB", (18059 # 169)); ("US_HH__T", (18059 # 845));
   ("US_BUS__DEM_LAB", (18059 # 169)); ("US_BUS__F", (377118 # 21125)); ("US_BUS__INC", (193506 # 21125));
   ("US_BUS__LAG_F", (14124 # 1625)); ("US_BUS__PROF", (0 # 1)); ("US_BUS__SUP_CA_GOOD", (193506 # 21125));
   ("US_BUS__SUP_GOOD", (18059 # 169)); ("US_TF__T", (18059 # 845)); ("US_TF__TaxRate", (1 # 5));
   ("US_LAB__DEM_LAB", (18059 # 169)); ("US_LAB__SUP_LAB", (18059 # 169)); ("US_LAB__SUP_US_HH", (18059 # 169));
   ("US_GOOD__DEM_GOOD", (18059 # 169)); ("US_GOOD__SUP_GOOD", (18059 # 169));
   ("US_GOOD__SUP_US_BUS", (18059 # 169)); ("EXT_XR__US_CA", (5 # 6)); ("EXT_XR__NUMERAIRE_CA", (5 # 6));
   ("EXT_XR__NUMERAIRE_US", (1 # 1))].

Definition dep_bad0 : list (string * Q) :=
  [("CA_GOV__F", ((-60) # 1)); ("CA_HH__F", (45 # 1)); ("CA_BUS__F", (15 # 1)); ("US_GOV__F", ((-70) # 1));
   ("US_HH__F", (70 # 1)); ("US_BUS__F", (0 # 1)); ("EXT_FX__F_CA", (0 # 1)); ("EXT_FX__F_US", (0 # 1));
   ("EXT_FX__F_NUMERAIRE", (0 # 1)); ("CA_GOV__SUP_DEP", (0 # 1)); ("CA_HH__DEM_DEP", (20 # 1));
   ("CA_DEP__r", (1 # 25))].

Definition dep_bad1 : list (string * Q) :=
  [("CA_GOV__DEM_GOOD", (20 # 1)); ("CA_GOV__F", ((-1707) # 26)); ("CA_GOV__FISC_BAL", ((-147) # 26));
   ("CA_GOV__INC", ((-147) # 26)); ("CA_GOV__INTDEP", (0 # 1)); ("CA_GOV__LAG_F", ((-60) # 1));
   ("CA_GOV__LAG_SUP_DEP", (0 # 1)); ("CA_GOV__PRIM_BAL", ((-147) # 26)); ("CA_GOV__SUP_DEP", (45 # 2));
   ("CA_GOV__T", (373 # 26)); ("CA_HH__AfterTax", (746 # 13)); ("CA_HH__AlphaFin", (2 # 5));
   ("CA_HH__AlphaIncome", (3 # 5)); ("CA_HH__DEM_DEP", (45 # 2)); ("CA_HH__DEM_GOOD", (3408 # 65));
   ("CA_HH__F", (3247 # 65)); ("CA_HH__INC", (1865 # 26)); ("CA_HH__INTDEP", (4 # 5));
   ("CA_HH__LAG_DEM_DEP", (20 # 1)); ("CA_HH__LAG_F", (45 # 1)); ("CA_HH__REMIT", (3 # 2));
   ("CA_HH__SUP_LAB", (4708 # 65)); ("CA_HH__T", (373 # 26)); ("CA_BUS__DEM_LAB", (4708 # 65));
   ("CA_BUS__F", (2521 # 325)); ("CA_BUS__INC", ((-2354) # 325)); ("CA_BUS__LAG_F", (15 # 1));
   ("CA_BUS__PROF", ((-2354) # 325)); ("CA_BUS__SUP_GOOD", (21186 # 325)); ("CA_TF__T", (373 # 26));
   ("CA_TF__TaxRate", (1 # 5)); ("CA_LAB__DEM_LAB", (4708 # 65)); ("CA_LAB__SUP_CA_HH", (4708 # 65));
   ("CA_LAB__SUP_LAB", (4708 # 65)); ("CA_GOOD__DEM_GOOD", (4708 # 65)); ("CA_GOOD__SUP_CA_BUS", (21186 # 325));
   ("CA_GOOD__SUP_GOOD", (4708 # 65)); ("CA_GOOD__SUP_US_BUS", (2354 # 325)); ("CA_DEP__DEM_DEP", (45 # 2));
   ("CA_DEP__LAG_r", (1 # 25)); ("CA_DEP__SUP_DEP", (45 # 2)); ("CA_DEP__r", (1 # 25)); ("EXT_XR__CA", (6 # 5));
   ("EXT_XR__CA_US", (6 # 5)); ("EXT_XR__NUMERAIRE", (1 # 1)); ("EXT_XR__US", (1 # 1));
   ("EXT_FX__F_CA", (5683 # 650)); ("EXT_FX__F_NUMERAIRE", (0 # 1)); ("EXT_FX__F_US", ((-17049) # 1625));
   ("EXT_FX__LAG_F_CA", (0 # 1)); ("EXT_FX__LAG_F_NUMERAIRE", (0 # 1)); ("EXT_FX__LAG_F_US", (0 # 1));
   ("EXT_FX__NET_CA", (5683 # 650)); ("EXT_FX__NET_NUMERAIRE", (0 # 1)); ("EXT_FX__NET_US", ((-17049) # 1625));
   ("US_GOV__DEM_GOOD", (25 # 1)); ("US_GOV__F", ((-970) # 13)); ("US_GOV__FISC_BAL", ((-60) # 13));
   ("US_GOV__INC", ((-60) # 13)); ("US_GOV__LAG_F", ((-70) # 1)); ("US_GOV__PRIM_BAL", ((-60) # 13));
   ("US_GOV__T", (265 # 13)); ("US_HH__AfterTax", (1060 # 13)); ("US_HH__AlphaFin", (2 # 5));
   ("US_HH__AlphaIncome", (3 # 5)); ("US_HH__DEM_GOOD", (1000 # 13)); ("US_HH__F", (4967 # 65));
   ("US_HH__INC", (1325 # 13)); ("US_HH__LAG_F", (70 # 1)); ("US_HH__SUP_LAB", (1325 # 13));
   ("US_HH__T", (265 # 13)); ("US_BUS__DEM_LAB", (1325 # 13)); ("US_BUS__F", (14124 # 1625));
   ("US_BUS__INC", (14124 # 1625)); ("US_BUS__LAG_F", (0 # 1)); ("US_BUS__PROF", (0 # 1));
   ("US_BUS__SUP_CA_GOOD", (14124 # 1625)); ("US_BUS__SUP_GOOD", (1325 # 13)); ("US_TF__T", (265 # 13));
   ("US_TF__TaxRate", (1 # 5)); ("US_LAB__DEM_LAB", (1325 # 13)); ("US_LAB__SUP_LAB", (1325 # 13));
   ("US_LAB__SUP_US_HH", (1325 # 13)); ("US_GOOD__DEM_GOOD", (1325 # 13)); ("US_GOOD__SUP_GOOD", (1325 # 13));
   ("US_GOOD__SUP_US_BUS", (1325 # 13)); ("EXT_XR__US_CA", (5 # 6)); ("EXT_XR__NUMERAIRE_CA", (5 # 6));
   ("EXT_XR__NUMERAIRE_US", (1 # 1))].


Local Open Scope R_scope.

Lemma DEP_sat_1 : sat (q_final R_DEP) (val_of dep_v1) (val_of dep_v0) (bv_std (val_of dep_v1)).
Proof. table_sat. Qed.

Lemma DEP_sat_2 : sat (q_final R_DEP) (val_of dep_v2) (val_of dep_v1) (bv_std (val_of dep_v2)).
Proof. table_sat. Qed.

Lemma DEP_sat_bad : sat (q_final R_DEP) (val_of dep_bad1) (val_of dep_bad0) (bv_std (val_of dep_bad1)).
Proof. table_sat. Qed.
