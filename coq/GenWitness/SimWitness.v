(** A concrete satisfying valuation for the single-currency witness program [p_SIM]
    (GenMain2/Witness.v), so that every hypothesis of [Main_stock_flow_consistent] is exhibited on a
    non-trivial state outside a [_refuted] theorem: government spending 20, household wealth 15 -> 25
    (one period of model SIM, the table computed for GenBook's bundled SIM, whose emitted system has
    the same rows), and the stationary state (G = T = 20, Y = 100, H = 80) as a triple of consecutive
    valuations for [Main_stock_flow_two_periods].  Opaque texts are read by GenBook's standard
    arithmetic reading [bv_std]. *)
From Coq Require Import List String Ascii Bool ZArith Arith QArith Reals Qreals Lra.
From SFC.Base Require Import Res Str.
From SFC.Gen Require Import Fx Zone.
From SFC.GenMain2 Require Import Program Classes Main Conflict Balance Clear Witness.
From SFC.GenBook Require Import Text Builders Sem Examples.
Import ListNotations.
Local Open Scope string_scope.

Definition R_SIM : run :=
  match build_run p_SIM with Ok r => r | Err _ => mkRun (mkI [] []) [] [] [] [] (mkFS [] [] []) end.

Lemma R_SIM_ok : build_run p_SIM = Ok R_SIM.
Proof. vm_compute. reflexivity. Qed.

(** no deposit market in the program: the previous-period premise is empty *)
Lemma SIM_stock_consistent vprev bvp : stock_consistent R_SIM vprev bvp.
Proof.
  intros i issuer st st' self Hin. exfalso. revert Hin. set (G := r_gen R_SIM). vm_compute in G. subst G.
  simpl. intros Hin. repeat (destruct Hin as [Hin|Hin]; [discriminate Hin|]). exact Hin.
Qed.

Local Open Scope R_scope.

Lemma SIM_ledger_sum v : ledger_sum v (fs_zone (r_final R_SIM)) =
  (v "GOV__F" - v "GOV__LAG_F") + ((v "HH__F" - v "HH__LAG_F") + ((v "BUS__F" - v "BUS__LAG_F") + 0)).
Proof.
  unfold ledger_sum. set (Z := fs_zone (r_final R_SIM)). vm_compute in Z. subst Z. simpl. lra.
Qed.

(** one period: G = 20, H(-1) = 15 *)
Theorem SIM_balance_witness :
  let v := val_of sim_now in let vp := val_of sim_prev in let bv := bv_std v in
  build_run p_SIM = Ok R_SIM /\ no_conflict p_SIM = true /\ bv_zero bv /\
  sat (r_final R_SIM) v vp bv /\ stock_consistent R_SIM vp bv /\
  v "GOV__DEM_GOOD" = 20 /\ vp "HH__F" = 15 /\ v "HH__F" = 25 /\ v "GOV__F" = -25 /\ v "BUS__F" = 0 /\
  v "GOOD__SUP_GOOD" = 50 /\ v "HH__DEM_GOOD" = 30 /\
  ledger_sum v (fs_zone (r_final R_SIM)) = 0 /\
  (v "GOV__F" - v "GOV__LAG_F") + (v "HH__F" - v "HH__LAG_F") + (v "BUS__F" - v "BUS__LAG_F") = 0.
Proof.
  cbv zeta.
  assert (HS : sat (r_final R_SIM) (val_of sim_now) (val_of sim_prev) (bv_std (val_of sim_now))) by table_sat.
  assert (NC : no_conflict p_SIM = true) by (vm_compute; reflexivity).
  pose proof (main_stock_flow_consistent p_SIM R_SIM R_SIM_ok NC _ _ _ _ (bv_std_zero _) HS
                (SIM_stock_consistent (val_of sim_prev) (bv_std (val_of sim_now)))) as C.
  split; [exact R_SIM_ok|]. split; [exact NC|]. split; [apply bv_std_zero|]. split; [exact HS|].
  split; [apply SIM_stock_consistent|].
  do 7 (split; [table_val|]). split; [exact C|]. rewrite SIM_ledger_sum in C. lra.
Qed.

(** the stationary state: three consecutive (equal) valuations *)
Definition sim_steady : list (string * Q) :=
  [("GOV__F", ((-80) # 1)); ("GOV__FISC_BAL", (0 # 1)); ("GOV__INC", (0 # 1));
   ("GOV__PRIM_BAL", (0 # 1)); ("GOV__T", (20 # 1)); ("HH__AfterTax", (80 # 1)); ("HH__AlphaFin", (2 # 5));
   ("HH__AlphaIncome", (3 # 5)); ("HH__DEM_GOOD", (80 # 1)); ("HH__F", (80 # 1)); ("HH__INC", (100 # 1));
   ("HH__SUP_LAB", (100 # 1)); ("HH__T", (20 # 1)); ("BUS__DEM_LAB", (100 # 1)); ("BUS__F", (0 # 1));
   ("BUS__INC", (0 # 1)); ("BUS__PROF", (0 # 1)); ("BUS__SUP_GOOD", (100 # 1)); ("TF__T", (20 # 1));
   ("TF__TaxRate", (1 # 5)); ("LAB__DEM_LAB", (100 # 1)); ("LAB__SUP_HH", (100 # 1)); ("LAB__SUP_LAB", (100 # 1));
   ("GOOD__DEM_GOOD", (100 # 1)); ("GOOD__SUP_BUS", (100 # 1)); ("GOOD__SUP_GOOD", (100 # 1));
   ("GOV__LAG_F", ((-80) # 1)); ("HH__LAG_F", (80 # 1)); ("BUS__LAG_F", (0 # 1)); ("GOV__DEM_GOOD", (20 # 1))].

Theorem SIM_two_periods_witness :
  let v := val_of sim_steady in let bv := bv_std v in
  bv_zero bv /\ sat (r_final R_SIM) v v bv /\ v "GOV__DEM_GOOD" = 20 /\ v "HH__F" = 80 /\ v "GOOD__SUP_GOOD" = 100 /\
  ledger_sum v (fs_zone (r_final R_SIM)) = 0.
Proof.
  cbv zeta.
  assert (HS : sat (r_final R_SIM) (val_of sim_steady) (val_of sim_steady) (bv_std (val_of sim_steady))) by table_sat.
  split; [apply bv_std_zero|]. split; [exact HS|]. do 3 (split; [table_val|]).
  exact (main_stock_flow_two_periods p_SIM R_SIM R_SIM_ok (proj2 SIM_no_conflict) _ _ _ _ _ (bv_std_zero _) HS HS).
Qed.
