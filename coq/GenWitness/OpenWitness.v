(** [p_OPEN] on the valuations of OpenTables.v: exchange-rate hypothesis, side condition, and the
    instantiated conclusions of C01 per zone (one period and three consecutive valuations) and C07. *)
From Coq Require Import List String Ascii Bool ZArith Arith QArith Reals Qreals Lra.
From SFC.Base Require Import Res Str.
From SFC.Gen Require Import Fx Flows Zone.
From SFC.GenTax Require Import Tax TaxProofs.
From SFC.GenMain2 Require Import Program Classes Main Conflict Balance Witness Program2 Main2 Conflict2 Balance2 Zones Witness2.
From SFC.GenBook Require Import Text Builders Sem Examples.
From SFC.GenWitness Require Import TwoPeriods OpenTables.
Import ListNotations.
Local Open Scope string_scope.
Local Open Scope R_scope.

Ltac rates_tac :=
  intros a b Ha Hb Nb Nab; simpl in Ha, Hb;
  destruct Hb as [<-|[<-|[<-|[]]]]; [|exfalso; now apply Nb|];
    (destruct Ha as [<-|[<-|[<-|[]]]]; try (exfalso; now apply Nab));
    unfold xr_name, cross_name, NUM; cbn [append]; split; table_val.

Lemma OPEN_rates_1 : rates_ok2 ["CA"; "NUMERAIRE"; "US"] (val_of open_v1).
Proof. rates_tac. Qed.
Lemma OPEN_rates_2 : rates_ok2 ["CA"; "NUMERAIRE"; "US"] (val_of open_v2).
Proof. rates_tac. Qed.

(** the two sides of the per-zone statement, spelled out *)
Lemma OPEN_ledger_CA v : ledger_sum v (filter (in_zone (j_countries (q_info R_OPEN)) "CA") (fs_zone (q_final R_OPEN))) =
  (v "CA_GOV__F" - v "CA_GOV__LAG_F") + ((v "CA_HH__F" - v "CA_HH__LAG_F") + ((v "CA_BUS__F" - v "CA_BUS__LAG_F") + 0)).
Proof.
  unfold ledger_sum. set (Z := filter _ _). vm_compute in Z. subst Z. simpl. lra.
Qed.

Lemma OPEN_ledger_US v : ledger_sum v (filter (in_zone (j_countries (q_info R_OPEN)) "US") (fs_zone (q_final R_OPEN))) =
  (v "US_GOV__F" - v "US_GOV__LAG_F") + ((v "US_HH__F" - v "US_HH__LAG_F") + ((v "US_BUS__F" - v "US_BUS__LAG_F") + 0)).
Proof.
  unfold ledger_sum. set (Z := filter _ _). vm_compute in Z. subst Z. simpl. lra.
Qed.

Lemma OPEN_net v c : net_value R_OPEN v c = v (net_key c).
Proof. unfold net_value. set (e := j_ext _). vm_compute in e. subst e. reflexivity. Qed.

Lemma OPEN_valued v : TaxProofs.sumR (fun c => v (net_key c) * rate v c) ["CA"; "NUMERAIRE"; "US"] =
  v "EXT_FX__NET_CA" * v "EXT_XR__CA" + (v "EXT_FX__NET_NUMERAIRE" * 1 + (v "EXT_FX__NET_US" * v "EXT_XR__US" + 0)).
Proof. reflexivity. Qed.

Lemma OPEN_no_gold : forallb (fun x => negb (is_gold (snd (fst (fst x))))) (q_gen R_OPEN) = true.
Proof. vm_compute. reflexivity. Qed.

(** period 1: all hypotheses, and the conclusions obtained BY the theorems *)
Theorem OPEN_fx_witness :
  let v := val_of open_v1 in let vp := val_of open_v0 in let bv := bv_std v in
  build_run2 p_OPEN = Ok R_OPEN /\ no_conflict2 p_OPEN = true /\ j_ext (q_info R_OPEN) <> None /\
  zones_of (j_countries (q_info R_OPEN)) = ["CA"; "NUMERAIRE"; "US"] /\
  bv_zero bv /\ sat (q_final R_OPEN) v vp bv /\ stock_consistent2 R_OPEN vp bv /\
  rates_ok2 (zones_of (j_countries (q_info R_OPEN))) v /\
  v "EXT_XR__CA" = 6 / 5 /\ v "EXT_XR__US" = 1 /\ v "CA_GOV__DEM_GOOD" = 20 /\ v "US_GOV__DEM_GOOD" = 25 /\
  vp "CA_HH__F" = 45 /\ v "CA_HH__F" = 643 / 13 /\ v "EXT_FX__NET_CA" = 1127 / 130 /\ v "EXT_FX__NET_US" = - (3381 / 325) /\
  (* C01, zone CA and zone US *)
  (v "CA_GOV__F" - v "CA_GOV__LAG_F") + (v "CA_HH__F" - v "CA_HH__LAG_F") + (v "CA_BUS__F" - v "CA_BUS__LAG_F")
     + v "EXT_FX__NET_CA" = 0 /\
  (v "US_GOV__F" - v "US_GOV__LAG_F") + (v "US_HH__F" - v "US_HH__LAG_F") + (v "US_BUS__F" - v "US_BUS__LAG_F")
     + v "EXT_FX__NET_US" = 0 /\
  (* C07 *)
  v "EXT_FX__NET_CA" * v "EXT_XR__CA" + v "EXT_FX__NET_NUMERAIRE" + v "EXT_FX__NET_US" * v "EXT_XR__US" = 0 /\
  v "EXT_FX__NET_NUMERAIRE" = 0.
Proof.
  cbv zeta.
  pose proof OPEN_sat_1 as HS. pose proof (proj2 OPEN_no_conflict) as NC.
  pose proof (bv_std_zero (val_of open_v1)) as HB.
  pose proof (OPEN_stock_consistent2 (val_of open_v0) (bv_std (val_of open_v1))) as SC.
  pose proof (main2_stock_flow_consistent p_OPEN R_OPEN R_OPEN_ok NC _ _ _ _ HB HS SC) as C01.
  pose proof (main2_fx_valued_zero p_OPEN R_OPEN R_OPEN_ok NC OPEN_ext _ _ _ HS) as C07. cbv zeta in C07.
  rewrite OPEN_zones in C01, C07. destruct C07 as [C7a C7b].
  specialize (C7a OPEN_rates_1). specialize (C7b OPEN_no_gold ltac:(simpl; auto)).
  pose proof (C01 "CA" ltac:(discriminate) ltac:(simpl; auto)) as CCA.
  pose proof (C01 "US" ltac:(discriminate) ltac:(simpl; auto)) as CUS.
  rewrite OPEN_ledger_CA, OPEN_net in CCA. rewrite OPEN_ledger_US, OPEN_net in CUS. rewrite OPEN_valued in C7a.
  change (net_key "CA") with "EXT_FX__NET_CA" in CCA. change (net_key "US") with "EXT_FX__NET_US" in CUS.
  change (net_key NUM) with "EXT_FX__NET_NUMERAIRE" in C7b.
  split; [exact R_OPEN_ok|]. split; [exact NC|]. split; [exact OPEN_ext|]. split; [exact OPEN_zones|].
  split; [exact HB|]. split; [exact HS|]. split; [exact SC|]. split; [rewrite OPEN_zones; exact OPEN_rates_1|].
  do 8 (split; [table_val|]).
  split; [lra|]. split; [lra|]. split; [lra|]. exact C7b.
Qed.

(** three consecutive valuations: opening stocks, period 1, period 2 *)
Theorem OPEN_two_periods_witness :
  let v := val_of open_v2 in let vp := val_of open_v1 in let vpp := val_of open_v0 in
  sat (q_final R_OPEN) v vp (bv_std v) /\ sat (q_final R_OPEN) vp vpp (bv_std vp) /\
  rates_ok2 (zones_of (j_countries (q_info R_OPEN))) v /\
  v "CA_HH__F" = 8997 / 169 /\ v "EXT_FX__NET_CA" = 15231 / 1690 /\
  (v "CA_GOV__F" - v "CA_GOV__LAG_F") + (v "CA_HH__F" - v "CA_HH__LAG_F") + (v "CA_BUS__F" - v "CA_BUS__LAG_F")
     + v "EXT_FX__NET_CA" = 0 /\
  (v "US_GOV__F" - v "US_GOV__LAG_F") + (v "US_HH__F" - v "US_HH__LAG_F") + (v "US_BUS__F" - v "US_BUS__LAG_F")
     + v "EXT_FX__NET_US" = 0 /\
  v "EXT_FX__NET_CA" * v "EXT_XR__CA" + v "EXT_FX__NET_NUMERAIRE" + v "EXT_FX__NET_US" * v "EXT_XR__US" = 0.
Proof.
  cbv zeta.
  pose proof OPEN_sat_2 as HS. pose proof OPEN_sat_1 as HP. pose proof (proj2 OPEN_no_conflict) as NC.
  pose proof (main2_stock_flow_two_periods p_OPEN R_OPEN R_OPEN_ok NC _ _ _ _ _ (bv_std_zero _) HS HP) as C01.
  pose proof (main2_fx_valued_zero p_OPEN R_OPEN R_OPEN_ok NC OPEN_ext _ _ _ HS) as C07. cbv zeta in C07.
  rewrite OPEN_zones in C01, C07. destruct C07 as [C7a _]. specialize (C7a OPEN_rates_2).
  pose proof (C01 "CA" ltac:(discriminate) ltac:(simpl; auto)) as CCA.
  pose proof (C01 "US" ltac:(discriminate) ltac:(simpl; auto)) as CUS.
  rewrite OPEN_ledger_CA, OPEN_net in CCA. rewrite OPEN_ledger_US, OPEN_net in CUS. rewrite OPEN_valued in C7a.
  change (net_key "CA") with "EXT_FX__NET_CA" in CCA. change (net_key "US") with "EXT_FX__NET_US" in CUS.
  split; [exact HS|]. split; [exact HP|]. split; [rewrite OPEN_zones; exact OPEN_rates_2|].
  do 2 (split; [table_val|]). split; [lra|]. split; lra.
Qed.
