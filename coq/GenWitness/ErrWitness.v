(** Non-vacuity of the ERROR sides of the renaming and declaration-order theorems, and of the
    "[order_ok] on the permuted program" hypothesis (audit items L4): programs that satisfy the side
    conditions and whose build FAILS, and the permuted witnesses of GenOrder / GenOrder2 with their
    own [order_ok] / [order_ok2] evaluated. *)
From Coq Require Import List String Ascii Bool ZArith Arith.
From SFC.Base Require Import Res Str.
From SFC.Gen Require Import Fx Zone.
From SFC.GenMain2 Require Import Program Classes Main Witness Program2 Main2 Witness2.
From SFC.GenRename Require Import RStr RFix Ren ConsEq MainEq Equivariance Concrete Rename WitnessR
                                  Cons2Eq Main2Eq Equivariance2 Rename2 CaseDefs2 Witness2R.
From SFC.GenOrder Require Import Ops Plan Perm Equiv Static2 SysEquiv Constr Order OrderThm OrderWitness.
From SFC.GenOrder2 Require Import Perm2 Plan2 Side2 Final2 OrderWitness2.
Import ListNotations.
Local Open Scope string_scope.
Local Open Scope list_scope.

(** a last user operation that sets an exogenous path for a variable sector [i] does not have:
    Model.main() raises KeyError in _GenerateInitialConditions / the exogenous pass *)
Definition nope (i : nat) : program := [StOp (OSetExogenous i "NOPE" "[1.0]*5")].
Definition nope2 (i : nat) : program2 := [S2Op (UOld (OSetExogenous i "NOPE" "[1.0]*5"))].

(* ------------------------------------------------------------------ *)
(** * Renaming *)

Definition p_SIM_err : program := sq_program p_SIM ++ nope 0.
Definition p_OPEN_err : program2 := sq_program2 p_OPEN ++ nope2 0.

(** the side condition holds, the build fails (KeyError), the renaming moves the program; the
    conclusion of the theorem, instantiated, is the last conjunct *)
Lemma rename_error_witness :
  renaming_ok rho_SIM p_SIM_err = true /\ build p_SIM_err = Err KeyError /\
  rename_program rho_SIM p_SIM_err <> p_SIM_err /\
  build (rename_program rho_SIM p_SIM_err) = Err KeyError.
Proof.
  assert (H1 : renaming_ok rho_SIM p_SIM_err = true) by (vm_compute; reflexivity).
  assert (H2 : build p_SIM_err = Err KeyError) by (vm_compute; reflexivity).
  split; [exact H1|]. split; [exact H2|]. split; [vm_compute; discriminate|].
  exact (main_rename_errors rho_SIM p_SIM_err KeyError H1 H2).
Qed.

Lemma rename2_error_witness :
  renaming_ok2 rho_OPEN p_OPEN_err = true /\ build2 p_OPEN_err = Err KeyError /\
  rename_program2 rho_OPEN p_OPEN_err <> p_OPEN_err /\
  build2 (rename_program2 rho_OPEN p_OPEN_err) = Err KeyError.
Proof.
  assert (H1 : renaming_ok2 rho_OPEN p_OPEN_err = true) by (vm_compute; reflexivity).
  assert (H2 : build2 p_OPEN_err = Err KeyError) by (vm_compute; reflexivity).
  split; [exact H1|]. split; [exact H2|]. split; [vm_compute; discriminate|].
  exact (main2_rename_errors rho_OPEN p_OPEN_err KeyError H1 H2).
Qed.

(* ------------------------------------------------------------------ *)
(** * Declaration order *)

(** SIM and its reversed declaration order (GenOrder/OrderWitness.v), each followed by the failing
    operation on the government (creation index 0, resp. 5) *)
Definition p_SIM_oerr : program := p_SIM ++ nope 0.
Definition p_SIM_oerr' : program := p_SIM' ++ nope 5.
Definition p_OPEN_oerr : program2 := p_OPEN ++ nope2 0.
Definition p_OPEN_oerr' : program2 := p_OPEN' ++ nope2 5.

Lemma order_error_witness :
  is_admissible p_SIM_oerr p_SIM_oerr' = true /\ order_ok p_SIM_oerr = true /\ order_ok p_SIM_oerr' = true /\
  p_SIM_oerr' <> p_SIM_oerr /\ build p_SIM_oerr = Err KeyError /\
  is_ok (build p_SIM_oerr') = false.
Proof.
  assert (H0 : is_admissible p_SIM_oerr p_SIM_oerr' = true) by (vm_compute; reflexivity).
  assert (H1 : order_ok p_SIM_oerr = true) by (vm_compute; reflexivity).
  assert (H2 : order_ok p_SIM_oerr' = true) by (vm_compute; reflexivity).
  assert (H3 : build p_SIM_oerr = Err KeyError) by (vm_compute; reflexivity).
  split; [exact H0|]. split; [exact H1|]. split; [exact H2|]. split; [vm_compute; discriminate|]. split; [exact H3|].
  rewrite (order_invariant_errors _ _ (is_admissible_sound _ _ H0) H1 H2), H3. reflexivity.
Qed.

Lemma order2_error_witness :
  is_admissible2 p_OPEN_oerr p_OPEN_oerr' = true /\ order_ok2 p_OPEN_oerr = true /\ order_ok2 p_OPEN_oerr' = true /\
  p_OPEN_oerr' <> p_OPEN_oerr /\ build2 p_OPEN_oerr = Err KeyError /\
  is_ok (build2 p_OPEN_oerr') = false.
Proof.
  assert (H0 : is_admissible2 p_OPEN_oerr p_OPEN_oerr' = true) by (vm_compute; reflexivity).
  assert (H1 : order_ok2 p_OPEN_oerr = true) by (vm_compute; reflexivity).
  assert (H2 : order_ok2 p_OPEN_oerr' = true) by (vm_compute; reflexivity).
  assert (H3 : build2 p_OPEN_oerr = Err KeyError) by (vm_compute; reflexivity).
  split; [exact H0|]. split; [exact H1|]. split; [exact H2|]. split; [vm_compute; discriminate|]. split; [exact H3|].
  rewrite (final2_errors _ _ (is_admissible2_sound _ _ H0) H1 H2), H3. reflexivity.
Qed.

(** the permuted witnesses satisfy the side condition themselves and differ from the originals *)
Lemma order_ok_perm_witness :
  forallb order_ok [p_SIM'; p_PC'; p_REG'] = true /\ forallb order_ok2 [p_OPEN'; p_GOLD'] = true /\
  p_SIM' <> p_SIM /\ p_PC' <> p_PC /\ p_REG' <> p_REG /\ p_OPEN' <> p_OPEN /\ p_GOLD' <> p_GOLD.
Proof.
  split; [vm_compute; reflexivity|]. split; [vm_compute; reflexivity|].
  repeat split; vm_compute; discriminate.
Qed.
